(* Proofs about the seeding model (Repro/Seeding.v) for C17.
   1. the master generator: what exactly it is asked, in which order (master_session_spec), and that nothing but
      construction and the population initializer ever asks it (main_run_master);
   2. prefix determinacy of every stream reader that models a random constructor: the result depends only on the
      consumed prefix of the decision stream, which is handed back unchanged (no hidden input, no read-ahead);
   3. the worker pool: collecting by index returns the tasks' results in submission order for every completion
      order. *)
From QV Require Import Repro.Seeding.
From Coq Require Import Permutation.
Open Scope Z_scope.
Open Scope list_scope.

(* ------------------------------------------------------------------ small facts *)
Lemma option_eqb_Z a b : option_eqb Z.eqb a b = true <-> a = b.
Proof.
  destruct a, b; simpl; split; intros H; try discriminate; try reflexivity.
  - apply Z.eqb_eq in H. congruence.
  - inversion H. apply Z.eqb_refl.
Qed.

Definition seed_range (v : Z) : Prop := 0 <= v <= SEED_MAX.

Lemma draw_seed_spec sd s rest : draw_seed sd s = Ok rest <-> s = DSeed sd :: rest.
Proof.
  unfold draw_seed. destruct s as [|[] s']; split; intros H; try discriminate.
  - destruct (option_eqb Z.eqb seed sd) eqn:E; [|discriminate]. apply option_eqb_Z in E. inversion H. congruence.
  - inversion H; subst. assert (E : option_eqb Z.eqb sd sd = true) by (apply option_eqb_Z; reflexivity). rewrite E. reflexivity.
Qed.

Lemma new_random_seed_spec s v rest :
  new_random_seed s = Ok (v, rest) <-> s = DRandint 0 SEED_MAX v :: rest /\ seed_range v.
Proof.
  unfold new_random_seed, draw_randint, seed_range. destruct s as [|[] s']; split; try (intros H; discriminate); try (intros [H _]; discriminate).
  - destruct (Z.eqb lo 0 && Z.eqb hi SEED_MAX && Z.leb 0 v0 && Z.leb v0 SEED_MAX) eqn:E; [|discriminate].
    intros H; inversion H; subst. repeat (apply andb_true_iff in E as [E ?]).
    apply Z.eqb_eq in E. apply Z.eqb_eq in H2. apply Z.leb_le in H1, H0. subst. split; [reflexivity|lia].
  - intros [H [R1 R2]]. inversion H; subst. apply Z.leb_le in R1, R2. rewrite R1, R2. reflexivity.
Qed.

(* ------------------------------------------------------------------ 1a. the master generator's own stream *)
Lemma draw_seeds_spec cs : forall s seeds rest,
  draw_seeds cs s = Ok (seeds, rest) <->
  exists vs, length vs = length cs /\ s = map (DRandint 0 SEED_MAX) vs ++ rest /\ seeds = combine cs vs /\ Forall seed_range vs.
Proof.
  induction cs as [|c t IH]; intros s seeds rest; cbn [draw_seeds].
  - split.
    + intros H; inversion H; subst. exists []. repeat split; constructor.
    + intros [vs [L [-> [-> _]]]]. destruct vs; [reflexivity|discriminate].
  - split.
    + destruct (new_random_seed s) as [[v s1]|] eqn:E; simpl; [|discriminate].
      destruct (draw_seeds t s1) as [[sd s2]|] eqn:E2; simpl; [|discriminate].
      intros H; inversion H; subst. apply new_random_seed_spec in E as [-> R].
      apply IH in E2 as [vs [L [-> [-> F]]]]. exists (v :: vs). simpl. repeat split; auto.
    + intros [vs [L [-> [-> F]]]]. destruct vs as [|v vs]; [discriminate|]. injection L as L. inversion F; subst.
      change (map (DRandint 0 SEED_MAX) (v :: vs) ++ rest) with (DRandint 0 SEED_MAX v :: (map (DRandint 0 SEED_MAX) vs ++ rest)).
      change (combine (c :: t) (v :: vs)) with ((c, v) :: combine t vs).
      assert (E : new_random_seed (DRandint 0 SEED_MAX v :: map (DRandint 0 SEED_MAX) vs ++ rest) = Ok (v, map (DRandint 0 SEED_MAX) vs ++ rest))
        by (apply new_random_seed_spec; split; auto).
      rewrite E. simpl.
      assert (E2 : draw_seeds t (map (DRandint 0 SEED_MAX) vs ++ rest) = Ok (combine t vs, rest))
        by (apply IH; exists vs; repeat split; auto).
      rewrite E2. reflexivity.
Qed.

Definition session_order (n_solves : nat) : list component := construct_order ++ repeat CPopulation n_solves.

(* the master generator is asked: its construction with the configured seed, then exactly 6 + n_solves seeds,
   handed out in the order last-layer search, speciation, selection, parameter search, topological search,
   layer removal, then one population seed per solve - and nothing else *)
Theorem master_session_spec seed n_solves s seeds rest :
  master_session seed n_solves s = Ok (seeds, rest) <->
  exists vs, length vs = (6 + n_solves)%nat /\
             s = DSeed seed :: map (DRandint 0 SEED_MAX) vs ++ rest /\
             seeds = combine (session_order n_solves) vs /\ Forall seed_range vs.
Proof.
  unfold master_session. split.
  - destruct (draw_seed seed s) as [s0|] eqn:E; cbn [bind]; [|discriminate]. apply draw_seed_spec in E. subst.
    intros H. apply draw_seeds_spec in H as [vs [L [-> [-> F]]]]. exists vs. repeat split; auto.
    rewrite L, app_length, repeat_length. reflexivity.
  - intros [vs [L [-> [-> F]]]].
    assert (E : draw_seed seed (DSeed seed :: map (DRandint 0 SEED_MAX) vs ++ rest) = Ok (map (DRandint 0 SEED_MAX) vs ++ rest))
      by (apply draw_seed_spec; reflexivity).
    rewrite E. cbn [bind]. apply draw_seeds_spec. exists vs. repeat split; auto.
    rewrite L, app_length, repeat_length. reflexivity.
Qed.

(* ------------------------------------------------------------------ 1b. nobody else asks the master *)
Definition master_events (t : trace) : stream := map snd (filter (fun e => Nat.eqb (fst e) G_MASTER) t).

Lemma master_events_app a b : master_events (a ++ b) = master_events a ++ master_events b.
Proof. unfold master_events. rewrite filter_app, map_app. reflexivity. Qed.

Lemma master_events_none t : Forall (fun e : tev => fst e <> G_MASTER) t -> master_events t = [].
Proof.
  induction 1 as [|e t H _ IH]; [reflexivity|]. unfold master_events in *. simpl.
  destruct (Nat.eqb (fst e) G_MASTER) eqn:E; [apply Nat.eqb_eq in E; contradiction|exact IH].
Qed.

(* tdraw reads exactly one event of generator g *)
Lemma tdraw_one {A} g (f : stream -> result (A * stream)) t x t' :
  tdraw g f t = Ok (x, t') -> exists d, t = (g, d) :: t' /\ f [d] = Ok (x, []).
Proof.
  unfold tdraw. destruct t as [|[g' d] rest].
  - destruct (f []); discriminate.
  - destruct (Nat.eqb g g') eqn:E; [|discriminate]. apply Nat.eqb_eq in E. subst.
    destruct (f [d]) as [[a s']|] eqn:F; simpl; [|discriminate]. destruct s'; [|discriminate].
    intros H; inversion H; subst. exists d. split; [reflexivity|exact F].
Qed.

Lemma tseed_one g seed t t' : tseed g seed t = Ok t' -> t = (g, DSeed seed) :: t'.
Proof.
  unfold tseed. destruct (tdraw g _ t) as [[u t1]|] eqn:E; simpl; [|discriminate].
  intros H; inversion H; subst. apply tdraw_one in E as [d [-> F]].
  destruct (draw_seed seed [d]) as [s'|] eqn:G; simpl in F; [|discriminate]. apply draw_seed_spec in G. inversion G; subst. reflexivity.
Qed.

Lemma tdraw_seed_one g t v t' :
  tdraw g new_random_seed t = Ok (v, t') -> t = (g, DRandint 0 SEED_MAX v) :: t' /\ seed_range v.
Proof.
  intros H. apply tdraw_one in H as [d [-> F]]. apply new_random_seed_spec in F as [F R]. inversion F; subst. split; auto.
Qed.

Lemma make_component_one parent fresh t v t' :
  make_component parent fresh t = Ok (v, t') ->
  t = (parent, DRandint 0 SEED_MAX v) :: (fresh, DSeed (Some v)) :: t' /\ seed_range v.
Proof.
  unfold make_component. destruct (tdraw parent new_random_seed t) as [[a t1]|] eqn:E; simpl; [|discriminate].
  destruct (tseed fresh (Some a) t1) as [t2|] eqn:E2; simpl; [|discriminate].
  intros H; inversion H; subst. apply tdraw_seed_one in E as [-> R]. apply tseed_one in E2. subst. split; auto.
Qed.

Lemma tseed_intro g seed t' : tseed g seed ((g, DSeed seed) :: t') = Ok t'.
Proof.
  unfold tseed, tdraw. rewrite Nat.eqb_refl.
  assert (E : draw_seed seed [DSeed seed] = Ok []) by (apply draw_seed_spec; reflexivity).
  rewrite E. reflexivity.
Qed.

Lemma tdraw_seed_intro g v t' : seed_range v -> tdraw g new_random_seed ((g, DRandint 0 SEED_MAX v) :: t') = Ok (v, t').
Proof.
  intros R. unfold tdraw. rewrite Nat.eqb_refl.
  assert (E : new_random_seed [DRandint 0 SEED_MAX v] = Ok (v, [])) by (apply new_random_seed_spec; split; auto).
  rewrite E. reflexivity.
Qed.

Lemma make_component_intro parent fresh v t' : seed_range v ->
  make_component parent fresh ((parent, DRandint 0 SEED_MAX v) :: (fresh, DSeed (Some v)) :: t') = Ok (v, t').
Proof.
  intros R. unfold make_component. rewrite tdraw_seed_intro by assumption. cbn [bind fst snd].
  rewrite tseed_intro. reflexivity.
Qed.

(* EVQEMinimumEigensolver.__init__ in program order: master constructed, then for each operator in the documented
   order one seed drawn from the master and handed to the operator's own new generator *)
Theorem evqe_construct_spec seed t sd t' :
  evqe_construct seed t = Ok (sd, t') <->
  t = (G_MASTER, DSeed seed)
        :: (G_MASTER, DRandint 0 SEED_MAX (sd_last_layer sd)) :: (G_LAST, DSeed (Some (sd_last_layer sd)))
        :: (G_MASTER, DRandint 0 SEED_MAX (sd_speciation sd)) :: (G_SPEC, DSeed (Some (sd_speciation sd)))
        :: (G_MASTER, DRandint 0 SEED_MAX (sd_selection sd)) :: (G_SEL, DSeed (Some (sd_selection sd)))
        :: (G_MASTER, DRandint 0 SEED_MAX (sd_param_search sd)) :: (G_PARAM, DSeed (Some (sd_param_search sd)))
        :: (G_MASTER, DRandint 0 SEED_MAX (sd_topological sd)) :: (G_TOPO, DSeed (Some (sd_topological sd)))
        :: (G_MASTER, DRandint 0 SEED_MAX (sd_layer_removal sd)) :: (G_REMOVE, DSeed (Some (sd_layer_removal sd)))
        :: t'
  /\ Forall seed_range [sd_last_layer sd; sd_speciation sd; sd_selection sd; sd_param_search sd; sd_topological sd; sd_layer_removal sd].
Proof.
  split.
  - unfold evqe_construct.
    destruct (tseed G_MASTER seed t) as [t0|] eqn:E0; simpl; [|discriminate].
    destruct (make_component G_MASTER G_LAST t0) as [[v1 t1]|] eqn:E1; simpl; [|discriminate].
    destruct (make_component G_MASTER G_SPEC t1) as [[v2 t2]|] eqn:E2; simpl; [|discriminate].
    destruct (make_component G_MASTER G_SEL t2) as [[v3 t3]|] eqn:E3; simpl; [|discriminate].
    destruct (make_component G_MASTER G_PARAM t3) as [[v4 t4]|] eqn:E4; simpl; [|discriminate].
    destruct (make_component G_MASTER G_TOPO t4) as [[v5 t5]|] eqn:E5; simpl; [|discriminate].
    destruct (make_component G_MASTER G_REMOVE t5) as [[v6 t6]|] eqn:E6; simpl; [|discriminate].
    intros H; inversion H; subst; simpl.
    apply tseed_one in E0. apply make_component_one in E1 as [-> R1], E2 as [-> R2], E3 as [-> R3], E4 as [-> R4], E5 as [-> R5], E6 as [-> R6].
    subst. split; [reflexivity|repeat (constructor; [assumption|]); constructor].
  - intros [-> F]. destruct sd as [v1 v2 v3 v4 v5 v6]. cbn [sd_last_layer sd_speciation sd_selection sd_param_search sd_topological sd_layer_removal] in *.
    repeat match goal with H : Forall _ (_ :: _) |- _ => inversion H; clear H; subst end.
    unfold evqe_construct. rewrite tseed_intro. cbn [bind].
    repeat (rewrite make_component_intro by assumption; cbn [bind fst snd]). reflexivity.
Qed.

Lemma numbered_ids lo : forall t next n, numbered lo next t = Some n -> (lo <= next)%nat -> Forall (fun e : tev => (lo <= fst e)%nat) t.
Proof.
  induction t as [|[g d] t IH]; intros next n H L; [constructor|].
  simpl in H. destruct d;
    try (destruct (Nat.leb lo g && Nat.ltb g next) eqn:E; [|discriminate];
         apply andb_true_iff in E as [E1 E2]; apply Nat.leb_le in E1; constructor; [exact E1|eapply IH; eauto]).
  destruct (Nat.eqb g next) eqn:E; [|discriminate]. apply Nat.eqb_eq in E. subst.
  constructor; [exact L|]. eapply IH; [exact H|lia].
Qed.

Lemma submit_round_ids g p : forall n i t subs t',
  submit_round g p n i t = Ok (subs, t') ->
  exists used, t = used ++ t' /\ Forall (fun e : tev => fst e = g) used /\ Forall (fun x => seed_range (snd x)) subs.
Proof.
  induction n as [|n IH]; intros i t subs t'; simpl.
  - intros H; inversion H; subst. exists []. repeat split; constructor.
  - destruct (tdraw g draw_random t) as [[r t1]|] eqn:E; simpl; [|discriminate].
    apply tdraw_one in E as [d [-> _]].
    destruct (Qle_bool (unit_of_token r) p).
    + destruct (tdraw g new_random_seed t1) as [[v t2]|] eqn:E2; simpl; [|discriminate].
      apply tdraw_seed_one in E2 as [-> R].
      destruct (submit_round g p n (S i) t2) as [[rest t3]|] eqn:E3; simpl; [|discriminate].
      intros H; inversion H; subst. apply IH in E3 as [used [-> [F F2]]].
      exists ((g, d) :: (g, DRandint 0 SEED_MAX v) :: used). repeat split; [|constructor; [assumption|assumption]].
      repeat constructor; assumption.
    + intros H. apply IH in H as [used [-> [F F2]]]. exists ((g, d) :: used). repeat split; [|assumption].
      constructor; [reflexivity|assumption].
Qed.

Lemma speciation_round_ids : forall fuel remaining t cs t',
  speciation_round fuel remaining t = Ok (cs, t') ->
  exists used, t = used ++ t' /\ Forall (fun e : tev => fst e = G_SPEC) used.
Proof.
  induction fuel as [|fuel IH]; intros remaining t cs t'; cbn [speciation_round].
  - destruct (Nat.eqb remaining 0); [|discriminate]. intros H; inversion H; subst. exists []. split; constructor.
  - destruct (Nat.eqb remaining 0).
    + intros H; inversion H; subst. exists []. split; constructor.
    + destruct t as [|[g d] t]; [discriminate|]. destruct d; try discriminate.
      destruct (Nat.eqb g G_SPEC && Nat.leb 1 len && Nat.leb len remaining && Nat.ltb idx len) eqn:E; [|discriminate].
      repeat (apply andb_true_iff in E as [E ?]). apply Nat.eqb_eq in E. subst.
      destruct (speciation_round fuel (remaining - len) t) as [[r t1]|] eqn:E2; cbn [bind fst snd]; [|discriminate].
      intros H2; inversion H2; subst. apply IH in E2 as [used [-> F]].
      exists ((G_SPEC, DChoice len idx) :: used). split; [reflexivity|constructor; [reflexivity|assumption]].
Qed.

Lemma tournament_rounds_ids : forall rounds n size t cs t',
  tournament_rounds rounds n size t = Ok (cs, t') ->
  exists used, t = used ++ t' /\ Forall (fun e : tev => fst e = G_SEL) used.
Proof.
  induction rounds as [|r IH]; intros n size t cs t'; simpl.
  - intros H; inversion H; subst. exists []. split; constructor.
  - destruct (tdraw G_SEL (draw_choices n size) t) as [[c t1]|] eqn:E; simpl; [|discriminate].
    apply tdraw_one in E as [d [-> _]].
    destruct (tournament_rounds r n size t1) as [[rest t2]|] eqn:E2; simpl; [|discriminate].
    intros H; inversion H; subst. apply IH in E2 as [used [-> F]].
    exists ((G_SEL, d) :: used). split; [reflexivity|constructor; [reflexivity|assumption]].
Qed.

Lemma selection_round_ids n tour t cs t' :
  selection_round n tour t = Ok (cs, t') ->
  exists used, t = used ++ t' /\ Forall (fun e : tev => fst e = G_SEL) used.
Proof.
  unfold selection_round. destruct tour as [size|].
  - apply tournament_rounds_ids.
  - destruct (tdraw G_SEL (draw_choices n n) t) as [[c t1]|] eqn:E; simpl; [|discriminate].
    apply tdraw_one in E as [d [-> _]]. intros H; inversion H; subst.
    exists [(G_SEL, d)]. split; [reflexivity|repeat constructor].
Qed.

Definition operator_gen (g : nat) : Prop := (1 <= g <= 6)%nat.

Lemma ids_weaken g (used : trace) : operator_gen g -> Forall (fun e : tev => fst e = g) used -> Forall (fun e : tev => operator_gen (fst e)) used.
Proof. intros G F. eapply Forall_impl; [|exact F]. intros e ->. exact G. Qed.

Lemma generation_ids cfg last t p t' :
  generation cfg last t = Ok (p, t') ->
  exists used, t = used ++ t' /\ Forall (fun e : tev => operator_gen (fst e)) used.
Proof.
  unfold generation.
  destruct (submit_round G_LAST 1 (c_pop cfg) 0 t) as [[a t1]|] eqn:E1; simpl; [|discriminate].
  destruct (speciation_round (c_pop cfg) (c_pop cfg) t1) as [[b t2]|] eqn:E2; simpl; [|discriminate].
  destruct (selection_round (c_pop cfg) (c_tournament cfg) t2) as [[c t3]|] eqn:E3; simpl; [|discriminate].
  apply submit_round_ids in E1 as [u1 [-> [F1 _]]]. apply speciation_round_ids in E2 as [u2 [-> F2]].
  apply selection_round_ids in E3 as [u3 [-> F3]].
  apply ids_weaken in F1; [|unfold operator_gen, G_LAST; lia].
  apply ids_weaken in F2; [|unfold operator_gen, G_SPEC; lia].
  apply ids_weaken in F3; [|unfold operator_gen, G_SEL; lia].
  destruct last.
  - intros H; inversion H; subst. exists (u1 ++ u2 ++ u3). split; [now rewrite <- !app_assoc|].
    repeat (apply Forall_app; split); assumption.
  - destruct (submit_round G_PARAM (c_p_param cfg) (c_pop cfg) 0 t3) as [[d t4]|] eqn:E4; simpl; [|discriminate].
    destruct (submit_round G_TOPO (c_p_topo cfg) (c_pop cfg) 0 t4) as [[e t5]|] eqn:E5; simpl; [|discriminate].
    destruct (submit_round G_REMOVE (c_p_remove cfg) (c_pop cfg) 0 t5) as [[f t6]|] eqn:E6; simpl; [|discriminate].
    apply submit_round_ids in E4 as [u4 [-> [F4 _]]], E5 as [u5 [-> [F5 _]]], E6 as [u6 [-> [F6 _]]].
    apply ids_weaken in F4; [|unfold operator_gen, G_PARAM; lia].
    apply ids_weaken in F5; [|unfold operator_gen, G_TOPO; lia].
    apply ids_weaken in F6; [|unfold operator_gen, G_REMOVE; lia].
    intros H; inversion H; subst. exists (u1 ++ u2 ++ u3 ++ u4 ++ u5 ++ u6). split; [now rewrite <- !app_assoc|].
    repeat (apply Forall_app; split); assumption.
Qed.

Lemma generations_ids cfg : forall k t ps t',
  generations cfg k t = Ok (ps, t') ->
  exists used, t = used ++ t' /\ Forall (fun e : tev => operator_gen (fst e)) used.
Proof.
  induction k as [|k IH]; intros t ps t'; simpl.
  - intros H; inversion H; subst. exists []. split; constructor.
  - destruct (generation cfg (Nat.eqb k 0) t) as [[g t1]|] eqn:E; simpl; [|discriminate].
    destruct (generations cfg k t1) as [[rest t2]|] eqn:E2; simpl; [|discriminate].
    intros H; inversion H; subst. apply generation_ids in E as [u1 [-> F1]]. apply IH in E2 as [u2 [-> F2]].
    exists (u1 ++ u2). split; [now rewrite <- app_assoc|apply Forall_app; split; assumption].
Qed.

(* Whatever the configuration, the number of generations, the operators' own draws, the optimiser's and the
   evaluator's answers (they decide what the rest of the trace looks like): in every main-thread trace the model
   accepts, the master generator's events are exactly its construction, the six operator seeds and ONE population
   seed, in that order - master_session with one solve. *)
Theorem main_run_master cfg seed t mp rest :
  main_run cfg seed t = Ok (mp, rest) ->
  exists used, t = used ++ rest /\
    master_events used =
      DSeed seed :: map (DRandint 0 SEED_MAX)
        [sd_last_layer (mp_seeds mp); sd_speciation (mp_seeds mp); sd_selection (mp_seeds mp);
         sd_param_search (mp_seeds mp); sd_topological (mp_seeds mp); sd_layer_removal (mp_seeds mp); mp_pop_seed mp]
    /\ master_session seed 1 (master_events used) =
       Ok ([(CLastLayer, sd_last_layer (mp_seeds mp)); (CSpeciation, sd_speciation (mp_seeds mp));
            (CSelection, sd_selection (mp_seeds mp)); (CParamSearch, sd_param_search (mp_seeds mp));
            (CTopological, sd_topological (mp_seeds mp)); (CLayerRemoval, sd_layer_removal (mp_seeds mp));
            (CPopulation, mp_pop_seed mp)], []).
Proof.
  unfold main_run.
  destruct (evqe_construct seed t) as [[sd t0]|] eqn:E0; simpl; [|discriminate].
  destruct (evqe_initial_population cfg t0) as [[[[ps inds] next] t1]|] eqn:E1; simpl; [|discriminate].
  destruct (generations cfg (c_generations cfg) t1) as [[plans t2]|] eqn:E2; simpl; [|discriminate].
  intros H; inversion H; subst; simpl. clear H.
  apply evqe_construct_spec in E0 as [-> R].
  apply generations_ids in E2 as [u2 [-> F2]].
  unfold evqe_initial_population in E1.
  destruct (tdraw G_MASTER new_random_seed t0) as [[v ta]|] eqn:Ea; simpl in E1; [|discriminate].
  apply tdraw_seed_one in Ea as [-> Rv].
  destruct (random_population _ _ _ _ _ _ _) as [[pop srest]|] eqn:Ep; simpl in E1; [|discriminate].
  set (used := (length (map snd ta) - length srest)%nat) in *.
  destruct (numbered G_POP G_POP (firstn used ta)) as [nx|] eqn:En; [|discriminate].
  destruct (init_attributed (firstn used ta)); [|discriminate].
  inversion E1; subst. clear E1.
  apply numbered_ids in En; [|lia].
  assert (M1 : master_events (firstn used ta) = []).
  { apply master_events_none. eapply Forall_impl; [|exact En]. intros e L. unfold G_POP, G_MASTER in *. lia. }
  assert (M2 : master_events u2 = []).
  { apply master_events_none. eapply Forall_impl; [|exact F2]. intros e L. unfold operator_gen, G_MASTER in *. lia. }
  exists ([(G_MASTER, DSeed seed); (G_MASTER, DRandint 0 SEED_MAX (sd_last_layer sd)); (G_LAST, DSeed (Some (sd_last_layer sd)));
           (G_MASTER, DRandint 0 SEED_MAX (sd_speciation sd)); (G_SPEC, DSeed (Some (sd_speciation sd)));
           (G_MASTER, DRandint 0 SEED_MAX (sd_selection sd)); (G_SEL, DSeed (Some (sd_selection sd)));
           (G_MASTER, DRandint 0 SEED_MAX (sd_param_search sd)); (G_PARAM, DSeed (Some (sd_param_search sd)));
           (G_MASTER, DRandint 0 SEED_MAX (sd_topological sd)); (G_TOPO, DSeed (Some (sd_topological sd)));
           (G_MASTER, DRandint 0 SEED_MAX (sd_layer_removal sd)); (G_REMOVE, DSeed (Some (sd_layer_removal sd)));
           (G_MASTER, DRandint 0 SEED_MAX ps)] ++ firstn used ta ++ u2).
  split; [cbn [app]; rewrite <- app_assoc, <- H3, firstn_skipn; reflexivity|].
  match goal with |- master_events ?u = _ /\ _ =>
    assert (ME : master_events u = DSeed seed :: map (DRandint 0 SEED_MAX) [sd_last_layer sd; sd_speciation sd; sd_selection sd; sd_param_search sd; sd_topological sd; sd_layer_removal sd; ps])
      by (rewrite !master_events_app, M1, M2; reflexivity) end.
  split; [exact ME|]. rewrite ME.
  apply master_session_spec. exists [sd_last_layer sd; sd_speciation sd; sd_selection sd; sd_param_search sd; sd_topological sd; sd_layer_removal sd; ps].
  repeat split; try reflexivity.
  repeat match goal with H : Forall _ (_ :: _) |- _ => inversion H; clear H; subst end.
  repeat (constructor; [assumption|]). constructor.
Qed.

(* ------------------------------------------------------------------ 2. prefix determinacy of stream readers *)
(* f reads a prefix `used` of its stream and hands the rest back untouched; its result is a function of `used`
   alone: on ANY stream that starts with `used` it returns the same value and exactly what follows `used`.
   (Nothing is claimed when f fails: a stream that ends too early can be extended to one that succeeds.) *)
Definition prefix_determined {A} (f : stream -> result (A * stream)) : Prop :=
  forall s x rest, f s = Ok (x, rest) ->
    exists used, s = used ++ rest /\ forall tail, f (used ++ tail) = Ok (x, tail).

Lemma pd_ext {A} (f g : stream -> result (A * stream)) : (forall s, f s = g s) -> prefix_determined f -> prefix_determined g.
Proof.
  intros E H s x rest G. rewrite <- E in G. destruct (H _ _ _ G) as [u [-> K]]. exists u. split; [reflexivity|].
  intros tail. rewrite <- E. apply K.
Qed.

Lemma pd_ret {A} (x : A) : prefix_determined (fun s => Ok (x, s)).
Proof. intros s y rest H. inversion H; subst. exists []. split; reflexivity. Qed.

Lemma pd_err {A} e : prefix_determined (fun _ : stream => @Err (A * stream) e).
Proof. intros s y rest H. discriminate. Qed.

Lemma pd_bind {A B} (f : stream -> result (A * stream)) (k : A * stream -> result (B * stream)) :
  prefix_determined f -> (forall a, prefix_determined (fun s => k (a, s))) ->
  prefix_determined (fun s => bind (f s) k).
Proof.
  intros Hf Hk s x rest H. unfold bind in H. destruct (f s) as [[a s1]|] eqn:E; [|discriminate].
  destruct (Hf _ _ _ E) as [u1 [-> H1]]. destruct (Hk a s1 x rest H) as [u2 [-> H2]].
  exists (u1 ++ u2). split; [now rewrite app_assoc|].
  intros tail. rewrite <- app_assoc, H1. simpl. apply H2.
Qed.

(* a step that does not read the stream *)
Lemma pd_pure {A B} (r : result A) (k : A -> stream -> result (B * stream)) :
  (forall a, r = Ok a -> prefix_determined (k a)) -> prefix_determined (fun s => bind r (fun a => k a s)).
Proof. intros H. destruct r as [a|e]; simpl; [apply H; reflexivity|apply pd_err]. Qed.

(* a reader that looks at the head decision only *)
Lemma pd_head {A} (f : stream -> result (A * stream)) :
  (forall s x rest, f s = Ok (x, rest) -> exists d, s = d :: rest /\ forall tail, f (d :: tail) = Ok (x, tail)) ->
  prefix_determined f.
Proof. intros H s x rest E. destruct (H _ _ _ E) as [d [-> K]]. exists [d]. split; [reflexivity|exact K]. Qed.

Lemma pd_draw_seed sd : prefix_determined (fun s => do s' <- draw_seed sd s; Ok (tt, s')).
Proof.
  apply pd_head. intros s x rest. destruct (draw_seed sd s) as [s'|] eqn:E; cbn [bind]; [|discriminate].
  intros H; inversion H; subst. apply draw_seed_spec in E. subst. exists (DSeed sd). split; [reflexivity|].
  intros tail. assert (E : draw_seed sd (DSeed sd :: tail) = Ok tail) by (apply draw_seed_spec; reflexivity). rewrite E. reflexivity.
Qed.

Ltac head_reader :=
  apply pd_head; intros s x rest; destruct s as [|d s']; simpl; try discriminate;
  destruct d; try discriminate;
  match goal with |- (if ?c then _ else _) = _ -> _ =>
    let E := fresh "E" in destruct c eqn:E; [|discriminate];
    intros H; inversion H; subst; eexists; split; [reflexivity|]; intros tail; simpl; rewrite E; reflexivity end.

Lemma pd_draw_choice len : prefix_determined (draw_choice len).
Proof. unfold draw_choice. destruct (Nat.eqb len 0); [apply pd_err|]. head_reader. Qed.

Lemma pd_draw_sample len k : prefix_determined (draw_sample len k).
Proof. unfold draw_sample. destruct (Nat.ltb len k); [apply pd_err|]. head_reader. Qed.

Lemma pd_draw_random : prefix_determined draw_random.
Proof.
  apply pd_head; intros s x rest; destruct s as [|d s']; simpl; try discriminate; destruct d; try discriminate.
  intros H; inversion H; subst. eexists; split; [reflexivity|]. reflexivity.
Qed.

Lemma pd_draw_randint lo hi : prefix_determined (draw_randint lo hi).
Proof. unfold draw_randint. head_reader. Qed.

Lemma pd_new_random_seed : prefix_determined new_random_seed.
Proof. apply pd_draw_randint. Qed.

Lemma pd_draw_choices len k : prefix_determined (draw_choices len k).
Proof. unfold draw_choices. head_reader. Qed.

Lemma pd_draw_shuffle n : prefix_determined (draw_shuffle n).
Proof. unfold draw_shuffle. head_reader. Qed.

Lemma pd_draw_randoms : forall n, prefix_determined (draw_randoms n).
Proof.
  induction n as [|n IH]; cbn [draw_randoms]; [apply pd_ret|].
  apply pd_bind; [apply pd_draw_random|]. intros a. cbn [fst snd].
  apply pd_bind; [apply IH|]. intros b. cbn [fst snd]. apply pd_ret.
Qed.

Lemma pd_after_seed {A} sd (g : stream -> result (A * stream)) :
  prefix_determined g -> prefix_determined (fun s => do s0 <- draw_seed sd s; g s0).
Proof.
  intros Hg s x rest H. destruct (draw_seed sd s) as [s0|] eqn:E; cbn [bind] in H; [|discriminate].
  apply draw_seed_spec in E. subst. destruct (Hg _ _ _ H) as [u [-> K]].
  exists (DSeed sd :: u). split; [reflexivity|]. intros tail.
  assert (E : draw_seed sd ((DSeed sd :: u) ++ tail) = Ok (u ++ tail)) by (apply draw_seed_spec; reflexivity).
  rewrite E. cbn [bind]. apply K.
Qed.

(* --- random_job_shop_scheduling_instance *)
Lemma pd_get_value {A} (v : vdist A) : prefix_determined (get_value v).
Proof.
  unfold get_value. destruct v as [a|items]; [apply pd_ret|].
  destruct (negb (isclose_one (sumQ (map snd items)))); [apply pd_err|].
  apply pd_bind; [apply pd_draw_choices|]. intros idxs. cbn [fst snd].
  destruct idxs as [|i [|]]; try apply pd_err.
  destruct (nth_error items i) as [[a q]|]; [apply pd_ret|apply pd_err].
Qed.

Lemma pd_make_operations job dur : forall machines j, prefix_determined (fun s => make_operations job j machines dur s).
Proof.
  induction machines as [|m rest IH]; intros j; cbn [make_operations]; [apply pd_ret|].
  apply pd_bind; [apply pd_get_value|]. intros d. cbn [fst snd].
  destruct (operation_ok _); [|apply pd_err].
  apply pd_bind; [apply IH|]. intros r. cbn [fst snd]. apply pd_ret.
Qed.

Lemma pd_one_job i machines rel dur : prefix_determined (fun s => one_job i machines rel dur s).
Proof.
  unfold one_job.
  apply pd_bind; [apply pd_get_value|]. intros x. cbn [fst snd].
  destruct (_ || _); [apply pd_err|].
  apply pd_bind; [apply pd_draw_sample|]. intros sm. cbn [fst snd].
  apply pd_pure. intros sampled _.
  apply pd_bind; [apply pd_draw_shuffle|]. intros sh. cbn [fst snd].
  apply pd_pure. intros shuffled _.
  apply pd_bind; [apply pd_make_operations|]. intros ops. cbn [fst snd].
  destruct (job_ok _); [apply pd_ret|apply pd_err].
Qed.

Lemma pd_make_jobs machines rel dur : forall k i, prefix_determined (fun s => make_jobs k i machines rel dur s).
Proof.
  induction k as [|k IH]; intros i; cbn [make_jobs]; [apply pd_ret|].
  apply pd_bind; [apply pd_one_job|]. intros j. cbn [fst snd].
  apply pd_bind; [apply IH|]. intros r. cbn [fst snd]. apply pd_ret.
Qed.

Theorem pd_random_jssp_instance name n_jobs n_machines rel dur seed :
  prefix_determined (random_jssp_instance name n_jobs n_machines rel dur seed).
Proof.
  unfold random_jssp_instance. apply pd_after_seed.
  apply pd_bind; [apply pd_make_jobs|]. intros js. cbn [fst snd].
  destruct (instance_ok _); [apply pd_ret|apply pd_err].
Qed.

(* --- EVQECircuitLayer.random_layer, EVQEIndividual.random_individual / add_random_layers,
       EVQEPopulation.random_population (the models of Evqe/RandLayer.v) *)
Lemma pd_qubit_pass prev : forall qs gates crq, prefix_determined (fun s => qubit_pass prev qs gates crq s).
Proof.
  induction qs as [|q rest IH]; intros gates crq; cbn [qubit_pass]; [apply pd_ret|].
  apply pd_pure. intros forced _. destruct forced; [apply IH|].
  apply pd_bind; [apply pd_draw_choice|]. intros i. cbn [fst snd].
  destruct (Nat.eqb i 1); [apply IH|].
  apply pd_pure. intros gates' _. apply IH.
Qed.

Lemma pd_pair_loop prev : forall fuel gates crq acc rej,
  prefix_determined (fun s => snd (pair_loop prev gates crq s fuel acc rej)).
Proof.
  induction fuel as [|fuel IH]; intros gates crq acc rej s x rest H.
  - cbn [pair_loop] in H. destruct (Nat.ltb (length crq) 2) eqn:L; cbn [snd] in H; [|discriminate].
    inversion H; subst. exists []. split; [reflexivity|]. intros tail. cbn [pair_loop app]. rewrite L. reflexivity.
  - cbn [pair_loop] in H. destruct (Nat.ltb (length crq) 2) eqn:L; cbn [snd] in H.
    + inversion H; subst. exists []. split; [reflexivity|]. intros tail. cbn [pair_loop app]. rewrite L. reflexivity.
    + destruct (draw_sample (length crq) 2 s) as [[idxs s1]|e] eqn:D; [|cbn [snd] in H; discriminate].
      destruct (pd_draw_sample _ _ _ _ _ D) as [u1 [-> K1]].
      destruct idxs as [|i [|j [|]]]; try (cbn [snd] in H; discriminate).
      destruct (nth_error crq i) as [r|] eqn:Ni; [|cbn [snd] in H; discriminate].
      destruct (nth_error crq j) as [c|] eqn:Nj; [|cbn [snd] in H; discriminate].
      destruct (accepts prev r c) eqn:Ac.
      * match type of H with snd (match ?pure with _ => _ end) = _ => destruct pure as [[g2 c2]|e] eqn:P end; [|cbn [snd] in H; discriminate].
        destruct (IH _ _ _ _ _ _ _ H) as [u2 [-> K2]].
        exists (u1 ++ u2). split; [now rewrite app_assoc|]. intros tail.
        cbn [pair_loop]. rewrite L, <- app_assoc, K1, Ni, Nj, Ac, P. apply K2.
      * destruct (IH _ _ _ _ _ _ _ H) as [u2 [-> K2]].
        exists (u1 ++ u2). split; [now rewrite app_assoc|]. intros tail.
        cbn [pair_loop]. rewrite L, <- app_assoc, K1, Ni, Nj, Ac. apply K2.
Qed.

Theorem pd_random_layer n prev seed fuel : prefix_determined (fun s => random_layer n prev seed s fuel).
Proof.
  unfold random_layer, random_layer_pairs.
  destruct (n <? 1); [apply pd_err|].
  destruct (match prev with Some p => negb (Z.eqb (l_qubits p) n) | None => false end); [apply pd_err|].
  intros s x rest H.
  match type of H with snd (match ?first with _ => _ end) = _ => destruct first as [[[gates crq] s1]|e] eqn:F end; [|cbn [snd] in H; discriminate].
  assert (PF : prefix_determined (fun s => do s0 <- draw_seed seed s;
                 qubit_pass prev (seq 0 (Z.to_nat n)) (map (fun q => GId (zq q)) (seq 0 (Z.to_nat n))) [] s0))
    by (apply pd_after_seed; apply pd_qubit_pass).
  destruct (PF _ _ _ F) as [u1 [-> K1]].
  destruct (pair_loop prev gates crq s1 fuel 0 0) as [[acc rej] r] eqn:PL. cbn [snd] in H.
  destruct r as [[[gates2 crq2] s2]|e]; cbn [bind] in H; [|discriminate].
  assert (PL' : snd (pair_loop prev gates crq s1 fuel 0 0) = Ok (gates2, crq2, s2)) by (rewrite PL; reflexivity).
  destruct (pd_pair_loop prev fuel gates crq 0%nat 0%nat _ _ _ PL') as [u2 [-> K2]].
  destruct (last_qubit prev gates2 crq2) as [gates3|] eqn:LQ; cbn [bind] in H; [|discriminate].
  destruct (make_layer n gates3) as [l|] eqn:ML; cbn [bind] in H; [|discriminate].
  inversion H; subst.
  exists (u1 ++ u2). split; [now rewrite app_assoc|]. intros tail.
  rewrite <- app_assoc, K1. specialize (K2 tail).
  destruct (pair_loop prev gates crq (u2 ++ tail) fuel 0 0) as [[acc' rej'] r'] eqn:PL2. cbn [snd] in K2 |- *. subst r'.
  cbn [bind]. rewrite LQ. cbn [bind]. rewrite ML. reflexivity.
Qed.

Lemma pd_random_layers chain n fuel : forall k prev, prefix_determined (fun s => random_layers chain n prev k s fuel).
Proof.
  induction k as [|k IH]; intros prev; cbn [random_layers]; [apply pd_ret|].
  apply pd_bind; [apply pd_new_random_seed|]. intros sd. cbn [fst snd].
  apply pd_bind; [apply pd_random_layer|]. intros l. cbn [fst snd].
  apply pd_bind; [apply IH|]. intros r. cbn [fst snd]. apply pd_ret.
Qed.

Lemma pd_random_values randomize np : prefix_determined (random_values randomize np).
Proof. unfold random_values. destruct randomize; [apply pd_draw_randoms|apply pd_ret]. Qed.

Theorem pd_random_individual n n_layers randomize seed fuel :
  prefix_determined (fun s => random_individual n n_layers randomize seed s fuel).
Proof.
  unfold random_individual. apply pd_after_seed.
  apply pd_bind; [apply pd_random_layers|]. intros ls. cbn [fst snd].
  apply pd_bind; [apply pd_random_values|]. intros vs. cbn [fst snd].
  apply pd_pure. intros i _. apply pd_ret.
Qed.

Theorem pd_add_random_layers legacy (i : individual Z) n_layers randomize seed fuel :
  prefix_determined (fun s => add_random_layers legacy i n_layers randomize seed s fuel).
Proof.
  unfold add_random_layers. destruct (n_layers <? 1); [apply pd_err|]. apply pd_after_seed.
  apply pd_pure. intros prev _. apply pd_pure. intros first _.
  apply pd_bind; [apply pd_random_layers|]. intros ls. cbn [fst snd].
  apply pd_bind; [apply pd_random_values|]. intros vs. cbn [fst snd].
  apply pd_pure. intros i' _. apply pd_ret.
Qed.

Lemma pd_random_individuals n n_layers randomize fuel : forall k,
  prefix_determined (fun s => random_individuals n n_layers randomize k s fuel).
Proof.
  induction k as [|k IH]; cbn [random_individuals]; [apply pd_ret|].
  apply pd_bind; [apply pd_new_random_seed|]. intros sd. cbn [fst snd].
  apply pd_bind; [apply pd_random_individual|]. intros i. cbn [fst snd].
  apply pd_bind; [apply IH|]. intros r. cbn [fst snd]. apply pd_ret.
Qed.

Theorem pd_random_population n n_layers n_individuals randomize seed fuel :
  prefix_determined (fun s => random_population n n_layers n_individuals randomize seed s fuel).
Proof. unfold random_population. apply pd_after_seed. apply pd_random_individuals. Qed.

(* equal consumed prefixes give equal results and equal remainders *)
Corollary pd_equal_prefix {A} (f : stream -> result (A * stream)) :
  prefix_determined f ->
  forall used rest1 rest2 x, f (used ++ rest1) = Ok (x, rest1) -> f (used ++ rest2) = Ok (x, rest2).
Proof.
  intros H used rest1 rest2 x E. destruct (H _ _ _ E) as [u [Eq K]].
  apply app_inv_tail in Eq. subst u. apply K.
Qed.

(* a successful run cannot be changed by anything that follows what it consumed; two successful runs on streams
   with a common consumed prefix agree *)
Corollary pd_functional {A} (f : stream -> result (A * stream)) :
  prefix_determined f ->
  forall s1 s2 x1 x2 r1 r2 used, f s1 = Ok (x1, r1) -> f s2 = Ok (x2, r2) -> s1 = used ++ r1 ->
    (exists t, s2 = used ++ t) -> x1 = x2 /\ s2 = used ++ r2.
Proof.
  intros H s1 s2 x1 x2 r1 r2 used E1 E2 -> [t ->].
  pose proof (pd_equal_prefix f H used r1 t x1 E1) as E. rewrite E in E2. inversion E2; subst. split; reflexivity.
Qed.

(* ------------------------------------------------------------------ 3. the worker pool *)
Section PoolFacts.
  Context {T R : Type}.
  Variable run : T -> R.

  Lemma lookup_log (submitted : list T) i : forall order,
    lookup (completion_log run submitted order) i =
    if existsb (Nat.eqb i) order then option_map run (nth_error submitted i) else None.
  Proof.
    induction order as [|j order IH]; [reflexivity|].
    cbn [completion_log map lookup existsb]. destruct (Nat.eqb i j) eqn:E; cbn [orb].
    - apply Nat.eqb_eq in E. subst. reflexivity.
    - exact IH.
  Qed.

  Lemma map_nth_seq {A} (l : list A) : forall pre, map (nth_error (pre ++ l)) (seq (length pre) (length l)) = map Some l.
  Proof.
    induction l as [|x l IH]; intros pre; [reflexivity|]. cbn [length seq map]. f_equal.
    - rewrite nth_error_app2, Nat.sub_diag by lia. reflexivity.
    - specialize (IH (pre ++ [x])). rewrite app_length, Nat.add_1_r, <- app_assoc in IH. exact IH.
  Qed.

  (* every task that was submitted completes exactly once, in whatever order: collecting by index returns the
     results in SUBMISSION order - a function of the submitted tasks alone *)
  Theorem pool_order_independent (submitted : list T) (order : list nat) :
    Permutation order (seq 0 (length submitted)) ->
    pool_results run submitted order = map (fun t => Some (run t)) submitted.
  Proof.
    intros P. unfold pool_results, collect_by_index.
    assert (E : forall i, In i (seq 0 (length submitted)) ->
                lookup (completion_log run submitted order) i = option_map run (nth_error submitted i)).
    { intros i Hi. rewrite lookup_log.
      assert (X : existsb (Nat.eqb i) order = true).
      { apply existsb_exists. exists i. split; [|apply Nat.eqb_refl]. eapply Permutation_in; [apply Permutation_sym; exact P|exact Hi]. }
      rewrite X. reflexivity. }
    rewrite (map_ext_in _ _ _ E).
    rewrite <- (map_map (nth_error submitted) (option_map run)).
    pose proof (map_nth_seq submitted []) as M. simpl in M. rewrite M, map_map. reflexivity.
  Qed.

  Corollary pool_two_orders (submitted : list T) (o1 o2 : list nat) :
    Permutation o1 (seq 0 (length submitted)) -> Permutation o2 (seq 0 (length submitted)) ->
    pool_results run submitted o1 = pool_results run submitted o2.
  Proof. intros P1 P2. rewrite !pool_order_independent by assumption. reflexivity. Qed.

  Corollary pool_single_worker (submitted : list T) :
    pool_results run submitted (single_worker_order (length submitted)) = map (fun t => Some (run t)) submitted.
  Proof. apply pool_order_independent. apply Permutation_refl. Qed.
End PoolFacts.

(* gathering in completion order would NOT be a function of the submitted tasks *)
Lemma pool_as_completed_depends_on_order :
  exists (submitted : list nat) o1 o2,
    Permutation o1 (seq 0 (length submitted)) /\ Permutation o2 (seq 0 (length submitted)) /\
    pool_results_as_completed (fun x => x) submitted o1 <> pool_results_as_completed (fun x => x) submitted o2.
Proof.
  exists [10; 20]%nat, [0; 1]%nat, [1; 0]%nat. split; [apply Permutation_refl|]. split; [apply perm_swap|].
  vm_compute. discriminate.
Qed.
