(* The EVQE operator models report what Solver/Ledger.v calls evqe_shape - nothing (speciation), one count (the mutation
   operators), or one count followed by one result (selection); on an exception possibly less, never more - and so
   does every application of the composed world (Repro/Compose.v).  This DISCHARGES the hypothesis of builder-solver's
   `_evqe` theorems (Solver/Shape_proofs.v: ledger_shape_evqe, max_generations_evqe, evqe_shape_hypotheses) for the
   EVQE operators: the theorems below hold for the composed run without any shape hypothesis.
   (run_op_shape / c_apply_shape: proof found by the independent audit, /root/scratch/audit-C/evqe/shape.v.) *)
From QV Require Import Repro.Compose Solver.Loop_proofs Solver.Ledger Solver.Shape_proofs.
Open Scope Z_scope.
Open Scope list_scope.

Ltac dm := match goal with |- context [match ?X with _ => _ end] => destruct X end.

Lemma run_op_shape (ev : zind -> result Q) lg o l pop :
  evqe_shape cres (map to_event (fst (run_op Z.eqb zieq 0%Z ev lg o l pop))).
Proof.
  destruct o as [thr|cfg|k prob]; simpl.
  - left. reflexivity.
  - unfold selection_op. dm; [|left; reflexivity].
    unfold select_after_eval.
    repeat (dm; simpl; try (right; left; eexists; reflexivity)).
    all: try (right; right; do 2 eexists; reflexivity).
  - unfold mutation_op. dm; simpl.
    + try dm; right; left; eexists; reflexivity.
    + left; reflexivity.
Qed.

Lemma c_apply_shape ev o w pop : evqe_shape cres (fst (fst (c_apply ev o w pop))).
Proof.
  unfold c_apply. destruct w as [|a rest]; [left; reflexivity|].
  destruct (bridge a); [|left; reflexivity]. simpl. apply run_op_shape.
Qed.

Section ComposedShape.
  Variable ev : zind -> result Q.
  Variables Init Dist AuxEv AV : Type.
  Variable measure : option Init -> zind -> Dist.
  Variable aux_eval : AuxEv -> zind -> AV.
  Notation evqe_run := (evqe_run ev Init Dist AuxEv AV measure aux_eval).
  Notation c_world := (c_world ev Init Dist AuxEv AV measure aux_eval).
  Notation l_tr := (Loop.l_tr zind cres (population Z) op cworld).
  Notation o_ls := (o_ls Init Dist AV).
  Notation o_result := (o_result Init Dist AV).

  Lemma c_world_shape c pop0 apps : forall o w pop,
    evqe_shape cres (fst (fst (w_apply _ _ _ _ _ _ _ _ _ (c_world c pop0 apps) o w pop))).
  Proof. intros o w pop. simpl. apply c_apply_shape. Qed.

  (* the composed run as a Loop.solve *)
  Lemma evqe_run_solve c seed init aux lgs ifuel fuel out :
    evqe_run c seed init aux lgs ifuel fuel = Ok out ->
    exists pop0,
      Loop.solve zind cres (population Z) op cworld Init Dist AuxEv AV r_best_value r_best
        (c_config Init AuxEv c init aux) (c_world c pop0 (lg_apps lgs)) fuel = (l_tr (o_ls out), o_result out).
  Proof.
    unfold Compose.evqe_run.
    destruct (master_session seed 1 (lg_master lgs)) as [[seeds mrest]|]; cbn [bind fst snd]; [|discriminate].
    destruct (negb _); [discriminate|].
    destruct (seed_of CPopulation seeds) as [pseed|]; cbn [bind]; [|discriminate].
    destruct (random_population _ _ _ _ _ _ ifuel) as [[p0 irest]|]; cbn [bind fst snd]; [|discriminate].
    intros H. inversion H; subst out; clear H. eexists. reflexivity.
  Qed.

  (* no shape hypothesis: two results are never reported within one application, every result is preceded by a count *)
  Theorem evqe_run_single_result_counted c seed init aux lgs ifuel fuel out :
    evqe_run c seed init aux lgs ifuel fuel = Ok out ->
    single_result zind cres (population Z) op (l_tr (o_ls out))
    /\ counted cres (events_of zind cres (population Z) op (l_tr (o_ls out))).
  Proof.
    intros H. destruct (evqe_run_solve _ _ _ _ _ _ _ _ H) as [pop0 S].
    pose proof (evqe_shape_hypotheses zind cres (population Z) op cworld Init Dist AuxEv AV r_best_value r_best (c_config Init AuxEv c init aux)
                  (c_world c pop0 (lg_apps lgs)) fuel (c_world_shape c pop0 (lg_apps lgs))) as X.
    unfold Loop_proofs.trace in X. rewrite S in X. exact X.
  Qed.

  (* the ledger of the composed run IS the specification: entry g = the counts reported between results g-1 and g, plus
     one trailing entry iff something was reported after the last result; generations <= |ledger| <= generations + 1 *)
  Theorem evqe_run_ledger_shape c seed init aux lgs ifuel fuel out res :
    evqe_run c seed init aux lgs ifuel fuel = Ok out -> o_result out = Ok res ->
    sr_circuit_evaluations _ _ _ _ _ res = ledger_spec cres (events_of zind cres (population Z) op (l_tr (o_ls out)))
    /\ (sr_generations _ _ _ _ _ res <= length (sr_circuit_evaluations _ _ _ _ _ res) <= sr_generations _ _ _ _ _ res + 1)%nat.
  Proof.
    intros H R. destruct (evqe_run_solve _ _ _ _ _ _ _ _ H) as [pop0 S]. rewrite R in S.
    exact (ledger_shape_evqe zind cres (population Z) op cworld Init Dist AuxEv AV r_best_value r_best _ _ fuel _ _ (c_world_shape c pop0 (lg_apps lgs)) S).
  Qed.

  (* max_generations is honoured by the composed run: never more result callbacks than max(0, G) *)
  Theorem evqe_run_max_generations c seed init aux lgs ifuel fuel out G :
    e_max_generations c = Some G ->
    evqe_run c seed init aux lgs ifuel fuel = Ok out ->
    (Z.of_nat (n_results zind cres (population Z) op (l_tr (o_ls out))) <= Z.max 0 G)%Z.
  Proof.
    intros HG H. destruct (evqe_run_solve _ _ _ _ _ _ _ _ H) as [pop0 S].
    pose proof (max_generations_evqe zind cres (population Z) op cworld Init Dist AuxEv AV r_best_value r_best (c_config Init AuxEv c init aux)
                  (c_world c pop0 (lg_apps lgs)) fuel G (c_world_shape c pop0 (lg_apps lgs)) HG) as X.
    unfold Loop_proofs.trace in X. rewrite S in X. exact X.
  Qed.
End ComposedShape.
