(* Proofs about the composed model (Repro/Compose.v):
   1. a simulation lemma for Solver/Loop.v: two runs whose worlds stay related, step by step, as long as the first one
      succeeds, agree on everything but the world;
   2. the composed run reads prefixes of its logs and nothing else (run_functional);
   3. the composed run does not depend on the completion orders (run_completion_independent);
   4. the composed run satisfies the clauses of C05 (run_consistent). *)
From QV Require Import Repro.Compose Repro.Seeding_proofs Evqe.Ops_proofs Solver.Loop_proofs Solver.Ledger.
From Coq Require Import Permutation.
Open Scope Z_scope.
Open Scope list_scope.

(* ------------------------------------------------------------------ 1. simulation of loop runs *)
Section LoopSim.
  Variables Ind R Pop Op W Init Dist AuxEv AV : Type.
  Variable best_value : R -> Q.
  Variable best_ind : R -> Ind.
  Notation ls := (ls Ind R Pop Op W).
  Notation config := (config Ind R Op Init AuxEv).
  Notation world := (world Ind R Pop Op W Init Dist AuxEv AV).
  Notation do_event := (do_event Ind R Pop Op W Init AuxEv best_value best_ind).
  Notation for_ops := (for_ops Ind R Pop Op W Init Dist AuxEv AV best_value best_ind).
  Notation while_loop := (while_loop Ind R Pop Op W Init Dist AuxEv AV best_value best_ind).
  Notation l_st := (l_st Ind R Pop Op W).
  Notation l_pop := (l_pop Ind R Pop Op W).
  Notation l_w := (l_w Ind R Pop Op W).
  Notation l_tr := (l_tr Ind R Pop Op W).
  Notation l_err := (l_err Ind R Pop Op W).
  Notation with_w := (with_w Ind R Pop Op W).
  Notation with_pop := (with_pop Ind R Pop Op W).

  Variable Rw : W -> W -> Prop.
  Variable wd : world.
  (* a successful application in the first world is matched in every related world *)
  Hypothesis apply_sim : forall op w w' pop evs p w2, Rw w w' ->
    w_apply _ _ _ _ _ _ _ _ _ wd op w pop = (evs, Ok p, w2) ->
    exists w2', w_apply _ _ _ _ _ _ _ _ _ wd op w' pop = (evs, Ok p, w2') /\ Rw w2 w2'.
  Hypothesis est_sim : forall op w w' pop est w1, Rw w w' ->
    w_estimate _ _ _ _ _ _ _ _ _ wd op w pop = (est, w1) ->
    exists w1', w_estimate _ _ _ _ _ _ _ _ _ wd op w' pop = (est, w1') /\ Rw w1 w1'.

  Definition sim (s s' : ls) : Prop :=
    l_st s = l_st s' /\ l_pop s = l_pop s' /\ l_tr s = l_tr s' /\ l_err s = l_err s' /\ Rw (l_w s) (l_w s').

  Lemma do_event_sim (cfg : config) e s s' : sim s s' -> sim (do_event cfg s e) (do_event cfg s' e).
  Proof.
    destruct s as [st pop w tr err], s' as [st' pop' w' tr' err']. unfold sim. simpl.
    intros (-> & -> & -> & -> & HR). unfold Loop.do_event. simpl. destruct err'; [simpl; auto 6|].
    destruct e as [n|r]; simpl.
    - destruct (circuit_evaluation_callback Ind R n st'); simpl; auto 6.
    - destruct (result_callback Ind R Pop Op Init AuxEv best_value best_ind cfg r st') as [[st2 [c|]]|]; simpl; auto 6.
  Qed.

  Lemma fold_sim (cfg : config) evs : forall s s', sim s s' -> sim (fold_left (do_event cfg) evs s) (fold_left (do_event cfg) evs s').
  Proof. induction evs as [|e t IH]; intros s s' H; simpl; [exact H|]. apply IH. apply do_event_sim. exact H. Qed.

  Lemma for_ops_sim (cfg : config) ops : forall s s',
    sim s s' -> l_err (for_ops cfg wd ops s) = None -> sim (for_ops cfg wd ops s) (for_ops cfg wd ops s').
  Proof.
    induction ops as [|op rest IH]; intros s s' H E; [exact H|].
    destruct s as [st pop w tr err], s' as [st' pop' w' tr' err']. destruct H as (Hst & Hpop & Htr & Herr & HR). simpl in *. subst st' pop' tr' err'.
    destruct err; [repeat split; auto|].
    destruct (w_estimate _ _ _ _ _ _ _ _ _ wd op w pop) as [est w1] eqn:Ee.
    destruct (est_sim _ _ _ _ _ _ HR Ee) as [w1' [Ee' HR1]]. rewrite Ee'.
    destruct (limit_checks Ind R Op Init AuxEv cfg st est); [repeat split; simpl; auto|].
    simpl in *.
    destruct (w_apply _ _ _ _ _ _ _ _ _ wd op w1 pop) as [[evs rpop] w2] eqn:Ea.
    destruct rpop as [p|x].
    - destruct (apply_sim _ _ _ _ _ _ _ HR1 Ea) as [w2' [Ea' HR2]]. rewrite Ea'.
      match goal with |- sim (match Loop.l_err _ _ _ _ _ ?a with _ => _ end) (match Loop.l_err _ _ _ _ _ ?b with _ => _ end) =>
        assert (S3 : sim a b) by (apply fold_sim; repeat split; simpl; auto); set (s3 := a) in *; set (s3' := b) in * end.
      destruct S3 as (A1 & A2 & A3 & A4 & A5). rewrite <- A4.
      destruct (l_err s3) eqn:E3; [exfalso; simpl in E; congruence|].
      apply IH; [|exact E].
      destruct s3, s3'; simpl in *; subst. repeat split; auto.
    - exfalso. match type of E with Loop.l_err _ _ _ _ _ (match Loop.l_err _ _ _ _ _ ?a with _ => _ end) = None => destruct (l_err a) eqn:E3 end; simpl in E; congruence.
  Qed.

  Lemma while_sim (cfg : config) : forall fuel s s',
    sim s s' -> l_err (while_loop cfg wd fuel s) = None -> sim (while_loop cfg wd fuel s) (while_loop cfg wd fuel s').
  Proof.
    induction fuel as [|f IH]; intros s s' H E; pose proof H as (Hst & Hpop & Htr & Herr & HR); simpl in *; rewrite <- Herr, <- Hst.
    - destruct (l_err s) eqn:E1; [exact H|]. destruct (st_term Ind R (l_st s)) eqn:E2; [exact H|]. unfold Loop.fail in E. cbn in E. discriminate E.
    - destruct (l_err s) eqn:E1; [exact H|]. destruct (st_term Ind R (l_st s)) eqn:E2; [exact H|].
      destruct (l_err (for_ops cfg wd (cfg_ops _ _ _ _ _ cfg) s)) eqn:E3.
      + exfalso. destruct f; simpl in E; rewrite E3 in E; congruence.
      + apply IH; [apply for_ops_sim; assumption|exact E].
  Qed.
End LoopSim.

(* ------------------------------------------------------------------ 2. the composed run reads prefixes of its logs *)
Local Arguments Loop.limit_checks : simpl never.
Local Arguments estimate : simpl never.
Local Arguments bridge : simpl never.
Local Arguments run_op : simpl never.
Local Arguments Loop.do_event : simpl never.

Section ComposeFacts.
  Variable ev : zind -> result Q.
  Variables Init Dist AuxEv AV : Type.
  Variable measure : option Init -> zind -> Dist.
  Variable aux_eval : AuxEv -> zind -> AV.
  Notation cls := (ls zind cres (population Z) op cworld).
  Notation cconfig := (config zind cres op Init AuxEv).
  Notation c_world := (c_world ev Init Dist AuxEv AV measure aux_eval).
  Notation do_event := (do_event zind cres (population Z) op cworld Init AuxEv r_best_value r_best).
  Notation for_ops := (for_ops zind cres (population Z) op cworld Init Dist AuxEv AV r_best_value r_best).
  Notation while_loop := (while_loop zind cres (population Z) op cworld Init Dist AuxEv AV r_best_value r_best).
  Notation run := (run zind cres (population Z) op cworld Init Dist AuxEv AV r_best_value r_best).
  Notation finish := (finish zind cres (population Z) op cworld Init Dist AuxEv AV).
  Notation l_st := (l_st zind cres (population Z) op cworld).
  Notation l_pop := (l_pop zind cres (population Z) op cworld).
  Notation l_w := (l_w zind cres (population Z) op cworld).
  Notation l_tr := (l_tr zind cres (population Z) op cworld).
  Notation l_err := (l_err zind cres (population Z) op cworld).
  Notation with_w := (with_w zind cres (population Z) op cworld).
  Notation with_pop := (with_pop zind cres (population Z) op cworld).

  Lemma do_event_with_w (cfg : cconfig) e w (s : cls) : do_event cfg (with_w w s) e = with_w w (do_event cfg s e).
  Proof.
    destruct s as [st pop w0 tr err]. unfold Loop.do_event, Loop.with_w. simpl. destruct err; [reflexivity|].
    destruct e as [n|r]; simpl.
    - destruct (circuit_evaluation_callback zind cres n st); reflexivity.
    - destruct (result_callback zind cres (population Z) op Init AuxEv r_best_value r_best cfg r st) as [[st2 [c|]]|]; reflexivity.
  Qed.

  Lemma fold_with_w (cfg : cconfig) evs : forall w (s : cls),
    fold_left (do_event cfg) evs (with_w w s) = with_w w (fold_left (do_event cfg) evs s).
  Proof. induction evs as [|e t IH]; intros w s; simpl; [reflexivity|]. rewrite do_event_with_w. apply IH. Qed.

  Lemma fold_w_irrel (cfg : cconfig) evs v (s s' : cls) :
    with_w v s = with_w v s' -> with_w v (fold_left (do_event cfg) evs s) = with_w v (fold_left (do_event cfg) evs s').
  Proof. intros H. rewrite <- !fold_with_w, H. reflexivity. Qed.

  Lemma with_w_facts w (s : cls) :
    l_w (with_w w s) = w /\ l_err (with_w w s) = l_err s /\ l_st (with_w w s) = l_st s /\ l_pop (with_w w s) = l_pop s /\ l_tr (with_w w s) = l_tr s.
  Proof. destruct s; simpl; auto. Qed.

  Lemma with_w_id (s : cls) : with_w (l_w s) s = s.
  Proof. destruct s; reflexivity. Qed.
  Lemma with_w_twice w w' (s : cls) : with_w w (with_w w' s) = with_w w s.
  Proof. destruct s; reflexivity. Qed.
  Lemma with_pop_with_w p w (s : cls) : with_pop p (with_w w s) = with_w w (with_pop p s).
  Proof. destruct s; reflexivity. Qed.

  (* an error-free pass over the operators uses a prefix of the application logs, and on any other supply of logs that
     starts with this prefix it does the same and leaves exactly what follows the prefix *)
  Lemma for_ops_pd c pop0 apps0 (cfg : cconfig) ops : forall (s : cls),
    l_err (for_ops cfg (c_world c pop0 apps0) ops s) = None ->
    exists used, l_w s = used ++ l_w (for_ops cfg (c_world c pop0 apps0) ops s) /\
      forall tail, for_ops cfg (c_world c pop0 apps0) ops (with_w (used ++ tail) s)
                   = with_w tail (for_ops cfg (c_world c pop0 apps0) ops s).
  Proof.
    induction ops as [|o rest IH]; intros s E.
    - exists []. split; [reflexivity|]. intros tail. reflexivity.
    - destruct s as [st pop w tr err]. simpl in E |- *. destruct err; [discriminate|].
      destruct (limit_checks zind cres op Init AuxEv cfg st (estimate c o pop)) eqn:L.
      + exists []. split; [reflexivity|]. intros tail. simpl. reflexivity.
      + destruct w as [|a w]; [simpl in E; discriminate|]. simpl in E |- *.
        destruct (bridge a) as [lg|e] eqn:B; [|simpl in E; discriminate].
        simpl in E |- *.
        set (oc := run_op Z.eqb zieq 0 ev false o lg pop) in *.
        match type of E with Loop.l_err _ _ _ _ _ (match Loop.l_err _ _ _ _ _ ?a with _ => _ end) = None => set (s3 := a) in * end.
        destruct (l_err s3) eqn:E3; [congruence|].
        destruct (snd oc) as [p|x] eqn:R; [|unfold Loop.fail in E; simpl in E; discriminate].
        destruct (IH _ E) as [used [U1 U2]].
        assert (W3 : l_w s3 = w).
        { unfold s3. rewrite fold_with_w. apply with_w_facts. }
        exists (a :: used). split.
        * simpl. f_equal. rewrite <- U1. simpl. symmetry. exact W3.
        * intros tail. simpl. rewrite B. simpl. fold oc.
          match goal with |- match Loop.l_err _ _ _ _ _ ?b with _ => _ end = _ => assert (S3 : b = with_w (used ++ tail) s3) end.
          { unfold s3. rewrite !fold_with_w, with_w_twice. apply fold_w_irrel. reflexivity. }
          rewrite S3. destruct (with_w_facts (used ++ tail) s3) as (_ & F2 & _). rewrite F2, E3, R.
          rewrite with_pop_with_w. apply U2.
  Qed.

  Lemma while_pd c pop0 apps0 (cfg : cconfig) : forall fuel (s : cls),
    l_err (while_loop cfg (c_world c pop0 apps0) fuel s) = None ->
    exists used, l_w s = used ++ l_w (while_loop cfg (c_world c pop0 apps0) fuel s) /\
      forall tail, while_loop cfg (c_world c pop0 apps0) fuel (with_w (used ++ tail) s)
                   = with_w tail (while_loop cfg (c_world c pop0 apps0) fuel s).
  Proof.
    induction fuel as [|f IH]; intros s E; simpl in E |- *.
    - destruct (l_err s) eqn:E1; [congruence|]. destruct (st_term zind cres (l_st s)) eqn:E2; [|unfold Loop.fail in E; simpl in E; discriminate].
      exists []. split; [reflexivity|]. intros tail. reflexivity.
    - destruct (l_err s) eqn:E1; [congruence|]. destruct (st_term zind cres (l_st s)) eqn:E2.
      + exists []. split; [reflexivity|]. intros tail. reflexivity.
      + destruct (l_err (for_ops cfg (c_world c pop0 apps0) (cfg_ops _ _ _ _ _ cfg) s)) eqn:E3.
        * exfalso. destruct f; simpl in E; rewrite E3 in E; congruence.
        * destruct (for_ops_pd c pop0 apps0 cfg _ s E3) as [u1 [A1 A2]]. destruct (IH _ E) as [u2 [B1 B2]].
          exists (u1 ++ u2). split; [rewrite A1, B1 at 1; apply app_assoc|].
          intros tail. rewrite <- app_assoc, A2. apply B2.
  Qed.
End ComposeFacts.

(* ------------------------------------------------------------------ 3. completion orders *)
Section ExecPerm.
  Context {R : Type}.

  Lemma dict_get_In (log : list (nat * R)) i r : dict_get Nat.eqb log i = Some r -> In i (map fst log).
  Proof.
    induction log as [|[j x] t IH]; simpl; [discriminate|].
    destruct (Nat.eqb i j) eqn:E; [apply Nat.eqb_eq in E; subst; auto|]. intros H. right. apply IH. exact H.
  Qed.

  Lemma mapM_all_ok {A B} (f : A -> result B) (l : list A) : (forall a, In a l -> exists b, f a = Ok b) -> exists r, mapM f l = Ok r.
  Proof.
    induction l as [|a t IH]; intros H; simpl; [eexists; reflexivity|].
    destruct (H a (or_introl eq_refl)) as [b Eb]. rewrite Eb. simpl.
    destruct IH as [r Er]; [intros x Hx; apply H; right; exact Hx|]. rewrite Er. simpl. eexists; reflexivity.
  Qed.

  Lemma mapM_ok_each {A B} (f : A -> result B) (l : list A) r : mapM f l = Ok r -> forall a, In a l -> exists b, f a = Ok b.
  Proof.
    revert r. induction l as [|a t IH]; intros r H x Hx; [contradiction|]. simpl in H.
    destruct (f a) as [b|] eqn:Ea; simpl in H; [|discriminate]. destruct (mapM f t) as [r'|] eqn:Et; simpl in H; [|discriminate].
    destruct Hx as [<-|Hx]; [eauto|]. eapply IH; eauto.
  Qed.

  (* whatever the completion order: if the batch completes and is collected, any rearrangement of the completions
     gives the same collected results *)
  Lemma exec_run_perm (tasks : list R) pi pi' done :
    exec_run tasks pi = Ok done -> Permutation pi pi' -> exec_run tasks pi' = Ok done.
  Proof.
    intros H P. pose proof (exec_run_aligned tasks pi done H) as ->.
    unfold exec_run in H. destruct (complete tasks pi) as [log|] eqn:C; simpl in H; [|discriminate].
    destruct (complete_log _ _ _ C) as [Hfst Hlog].
    assert (Hlt : forall j, In j pi' -> (j < length tasks)%nat).
    { intros j Hj. apply (Permutation_in _ (Permutation_sym P)) in Hj. rewrite <- Hfst in Hj.
      apply in_map_iff in Hj as [[j' r] [Ej Hin]]. simpl in Ej. subst j'. apply Hlog in Hin.
      apply nth_error_Some. congruence. }
    destruct (complete_ok tasks pi' Hlt) as [log' C']. destruct (complete_log _ _ _ C') as [Hfst' Hlog'].
    assert (X : exists done', exec_run tasks pi' = Ok done').
    { unfold exec_run. rewrite C'. simpl. unfold collect. apply mapM_all_ok. intros i Hi.
      destruct (mapM_ok_each _ _ _ H i Hi) as [b Eb].
      destruct (dict_get Nat.eqb log i) as [r|] eqn:G; [|discriminate].
      apply dict_get_In in G. rewrite Hfst in G. apply (Permutation_in _ P) in G. rewrite <- Hfst' in G.
      pose proof (log_get tasks log' i Hlog') as Y. destruct (dict_get Nat.eqb log' i); [eauto|contradiction]. }
    destruct X as [done' E']. rewrite E'. f_equal. eapply exec_run_aligned; eauto.
  Qed.
End ExecPerm.

Section OpPerm.
  Context {V : Type} (veqb : V -> V -> bool) (ieq : individual V -> individual V -> bool) (zero : V).
  Variable ev : individual V -> result Q.
  Variable lgo : bool.

  (* a successful application does not depend on the order in which its tasks completed *)
  Lemma run_op_perm o s pi pi' tasks (pop : population V) cbs p :
    Permutation pi pi' ->
    run_op veqb ieq zero ev lgo o (mkLog s pi tasks) pop = (cbs, Ok p) ->
    run_op veqb ieq zero ev lgo o (mkLog s pi' tasks) pop = (cbs, Ok p).
  Proof.
    intros P. destruct o as [thr|cfg|k prob]; unfold run_op; cbn [g_stream g_pi g_tasks].
    - auto.
    - unfold selection_op.
      destruct (exec_run (map ev (p_inds pop)) pi) as [rs|e] eqn:E; simpl; [|intros H; inversion H].
      rewrite (exec_run_perm _ _ _ _ E P). simpl. auto.
    - unfold mutation_op.
      destruct (submit_all prob 0 (p_inds pop) s) as [[subs s1]|e]; simpl; [|intros H; inversion H].
      destruct s1; simpl; [|intros H; inversion H].
      destruct (zip_tasks veqb zero lgo k subs tasks) as [ts|e]; simpl; [|intros H; inversion H].
      destruct (exec_run ts pi) as [done|e] eqn:E; simpl; [|intros H; inversion H].
      rewrite (exec_run_perm _ _ _ _ E P). simpl. auto.
  Qed.
End OpPerm.

(* ------------------------------------------------------------------ the loop only looks at w_apply / w_estimate of its world *)
Section WorldExt.
  Variables Ind R Pop Op W Init Dist AuxEv AV : Type.
  Variable best_value : R -> Q.
  Variable best_ind : R -> Ind.
  Notation world := (world Ind R Pop Op W Init Dist AuxEv AV).
  Notation for_ops := (for_ops Ind R Pop Op W Init Dist AuxEv AV best_value best_ind).
  Notation while_loop := (while_loop Ind R Pop Op W Init Dist AuxEv AV best_value best_ind).
  Variables wd1 wd2 : world.
  Hypothesis same_apply : w_apply _ _ _ _ _ _ _ _ _ wd1 = w_apply _ _ _ _ _ _ _ _ _ wd2.
  Hypothesis same_estimate : w_estimate _ _ _ _ _ _ _ _ _ wd1 = w_estimate _ _ _ _ _ _ _ _ _ wd2.

  Lemma for_ops_world cfg ops : forall s, for_ops cfg wd1 ops s = for_ops cfg wd2 ops s.
  Proof.
    induction ops as [|o rest IH]; intros s; simpl; [reflexivity|]. rewrite same_apply, same_estimate.
    destruct (Loop.l_err _ _ _ _ _ s); [reflexivity|].
    destruct (w_estimate _ _ _ _ _ _ _ _ _ wd2 o _ _) as [est w1].
    destruct (Loop.limit_checks _ _ _ _ _ cfg _ est); [reflexivity|].
    destruct (w_apply _ _ _ _ _ _ _ _ _ wd2 o w1 _) as [[evs rpop] w2].
    match goal with |- match ?x with _ => _ end = _ => destruct x end; [reflexivity|].
    destruct rpop; [apply IH|reflexivity].
  Qed.

  Lemma while_world cfg : forall fuel s, while_loop cfg wd1 fuel s = while_loop cfg wd2 fuel s.
  Proof.
    induction fuel as [|f IH]; intros s; simpl; [reflexivity|].
    destruct (Loop.l_err _ _ _ _ _ s); [reflexivity|]. destruct (st_term _ _ _); [reflexivity|].
    rewrite for_ops_world. apply IH.
  Qed.
End WorldExt.

(* ------------------------------------------------------------------ 4. the theorems about evqe_run *)
Section ComposeTheorems.
  Variable ev : zind -> result Q.
  Variables Init Dist AuxEv AV : Type.
  Variable measure : option Init -> zind -> Dist.
  Variable aux_eval : AuxEv -> zind -> AV.
  Notation cls := (ls zind cres (population Z) op cworld).
  Notation evqe_run := (evqe_run ev Init Dist AuxEv AV measure aux_eval).
  Notation c_world := (c_world ev Init Dist AuxEv AV measure aux_eval).
  Notation while_loop := (while_loop zind cres (population Z) op cworld Init Dist AuxEv AV r_best_value r_best).
  Notation finish := (finish zind cres (population Z) op cworld Init Dist AuxEv AV).
  Notation l_st := (l_st zind cres (population Z) op cworld).
  Notation l_pop := (l_pop zind cres (population Z) op cworld).
  Notation l_w := (l_w zind cres (population Z) op cworld).
  Notation l_tr := (l_tr zind cres (population Z) op cworld).
  Notation l_err := (l_err zind cres (population Z) op cworld).
  Notation with_w := (with_w zind cres (population Z) op cworld).
  Notation o_ls := (o_ls Init Dist AV).
  Notation o_seeds := (o_seeds Init Dist AV).
  Notation o_pop0 := (o_pop0 Init Dist AV).
  Notation o_result := (o_result Init Dist AV).
  Notation o_master_rest := (o_master_rest Init Dist AV).
  Notation o_init_rest := (o_init_rest Init Dist AV).
  Notation mkOut := (mkOut Init Dist AV).

  Lemma finish_irrel cfg c p a1 a2 (s s' : cls) :
    l_st s = l_st s' -> l_err s = l_err s' -> finish cfg (c_world c p a1) s = finish cfg (c_world c p a2) s'.
  Proof. intros H1 H2. unfold Loop.finish. rewrite H1, H2. reflexivity. Qed.

  Lemma c_world_loop cfg c p a1 a2 fuel (s : cls) :
    while_loop cfg (c_world c p a1) fuel s = while_loop cfg (c_world c p a2) fuel s.
  Proof. apply while_world; reflexivity. Qed.

  (* C17_run_functional.  A run whose loop ended without a pending exception consumed a prefix of the master stream, a
     prefix of the population initializer's stream and a prefix of the application logs - and on ANY logs that start
     with these prefixes it returns the same seeds, initial population, trace, callback state, last population and
     result, and hands back exactly what follows the prefixes.  (The oracle ev is a parameter: same evaluator.) *)
  Theorem evqe_run_functional c seed init aux m os i a ifuel fuel out :
    evqe_run c seed init aux (mkLogs m os i a) ifuel fuel = Ok out ->
    l_err (o_ls out) = None ->
    exists um ui ua,
      m = um ++ o_master_rest out /\ i = ui ++ o_init_rest out /\ a = ua ++ l_w (o_ls out) /\
      forall tm ti ta,
        evqe_run c seed init aux (mkLogs (um ++ tm) os (ui ++ ti) (ua ++ ta)) ifuel fuel
        = Ok (mkOut (o_seeds out) (o_pop0 out) (with_w ta (o_ls out)) (o_result out) tm ti).
  Proof.
    unfold Compose.evqe_run. cbn [lg_master lg_op_seeds lg_init lg_apps].
    destruct (master_session seed 1 m) as [[seeds mrest]|] eqn:M; cbn [bind fst snd]; [|discriminate].
    destruct (negb _) eqn:S6; [discriminate|].
    destruct (seed_of CPopulation seeds) as [pseed|] eqn:PS; cbn [bind]; [|discriminate].
    destruct (random_population _ _ _ _ _ i ifuel) as [[p0 irest]|] eqn:RP; cbn [bind fst snd]; [|discriminate].
    intros H E. inversion H; subst out; clear H. cbn [Compose.o_ls Compose.o_seeds Compose.o_pop0 Compose.o_result Compose.o_master_rest Compose.o_init_rest] in *.
    (* master *)
    apply master_session_spec in M as [vs [Lvs [-> [Hseeds Fvs]]]].
    (* initializer *)
    destruct (pd_random_population _ _ _ _ _ _ _ _ _ RP) as [ui [-> Ki]].
    (* loop *)
    unfold Loop.run in E |- *.
    destruct (while_pd ev Init Dist AuxEv AV measure aux_eval c _ a _ fuel _ E) as [ua [Ua Ka]].
    cbn [Loop.ls0 Loop.l_w Loop.w_init Compose.c_world] in Ua.
    exists (DSeed seed :: map (DRandint 0 QV.Evqe.Stream.SEED_MAX) vs), ui, ua.
    split; [reflexivity|]. split; [reflexivity|]. split; [exact Ua|].
    intros tm ti ta.
    assert (M' : master_session seed 1 ((DSeed seed :: map (DRandint 0 QV.Evqe.Stream.SEED_MAX) vs) ++ tm) = Ok (seeds, tm)).
    { apply master_session_spec. exists vs. repeat split; auto. }
    rewrite M'. cbn [bind fst snd]. rewrite S6, PS. cbn [bind]. rewrite Ki. cbn [bind fst snd].
    f_equal.
    specialize (Ka ta).
    set (pop0 := mkPop p0 None None None) in *.
    assert (RUN : Loop.run zind cres (population Z) op cworld Init Dist AuxEv AV r_best_value r_best
                    (c_config Init AuxEv c init aux) (c_world c pop0 (ua ++ ta)) fuel
                  = with_w ta (Loop.run zind cres (population Z) op cworld Init Dist AuxEv AV r_best_value r_best
                                 (c_config Init AuxEv c init aux) (c_world c pop0 a) fuel)).
    { unfold Loop.run. rewrite (c_world_loop _ c pop0 (ua ++ ta) a). exact Ka. }
    unfold Loop.run in RUN. rewrite RUN. f_equal.
  Qed.

  (* C17_run_completion_independent *)
  Definition app_perm (a a' : app_log) : Prop :=
    a_draws a = a_draws a' /\ a_weights a = a_weights a' /\ a_tasks a = a_tasks a' /\ Permutation (a_pi a) (a_pi a').

  Lemma c_apply_perm o (w w' : cworld) pop evs p w2 :
    Forall2 app_perm w w' -> c_apply ev o w pop = (evs, Ok p, w2) ->
    exists w2', c_apply ev o w' pop = (evs, Ok p, w2') /\ Forall2 app_perm w2 w2'.
  Proof.
    intros F. destruct F as [|a a' rest rest' (D & Wt & T & P) F]; simpl; [intros H; inversion H|].
    unfold bridge. rewrite <- D, <- Wt, <- T.
    destruct (mapM (bridge_decision (a_weights a)) (a_draws a)) as [s|e]; simpl; [|intros H; inversion H].
    intros H. inversion H; subst. clear H.
    destruct (run_op Z.eqb zieq 0 ev false o (mkLog s (a_pi a) (a_tasks a)) pop) as [cbs r] eqn:RO. simpl in *. subst r.
    rewrite (run_op_perm Z.eqb zieq 0 ev false o s (a_pi a) (a_pi a') (a_tasks a) pop cbs p P RO). simpl.
    eexists. split; [reflexivity|exact F].
  Qed.

  (* For any two supplies of application logs that differ only in the completion orders (each a rearrangement of the
     other's): if the run with the first ends without a pending exception, the run with the second produces the same
     seeds, initial population, trace (every population passed to every operator, every callback payload), callback
     state (ledger, generations, best, history), last population and result. *)
  Theorem evqe_run_completion_independent c seed init aux m os i a a' ifuel fuel out :
    Forall2 app_perm a a' ->
    evqe_run c seed init aux (mkLogs m os i a) ifuel fuel = Ok out ->
    l_err (o_ls out) = None ->
    exists s', evqe_run c seed init aux (mkLogs m os i a') ifuel fuel
               = Ok (mkOut (o_seeds out) (o_pop0 out) s' (o_result out) (o_master_rest out) (o_init_rest out))
               /\ l_st s' = l_st (o_ls out) /\ l_pop s' = l_pop (o_ls out) /\ l_tr s' = l_tr (o_ls out)
               /\ l_err s' = None /\ Forall2 app_perm (l_w (o_ls out)) (l_w s').
  Proof.
    intros F. unfold Compose.evqe_run. cbn [lg_master lg_op_seeds lg_init lg_apps].
    destruct (master_session seed 1 m) as [[seeds mrest]|] eqn:M; cbn [bind fst snd]; [|discriminate].
    destruct (negb _) eqn:S6; [discriminate|].
    destruct (seed_of CPopulation seeds) as [pseed|] eqn:PS; cbn [bind]; [|discriminate].
    destruct (random_population _ _ _ _ _ i ifuel) as [[p0 irest]|] eqn:RP; cbn [bind fst snd]; [|discriminate].
    intros H E. inversion H; subst out; clear H. cbn [Compose.o_ls Compose.o_seeds Compose.o_pop0 Compose.o_result Compose.o_master_rest Compose.o_init_rest] in *.
    set (pop0 := mkPop p0 None None None) in *.
    unfold Loop.run in E |- *.
    pose proof (while_sim zind cres (population Z) op cworld Init Dist AuxEv AV r_best_value r_best (Forall2 app_perm)
                  (c_world c pop0 a)) as WS.
    specialize (WS (fun o w w' pop evs p w2 Hr Ha => c_apply_perm o w w' pop evs p w2 Hr Ha)).
    assert (ES : forall (o : op) (w w' : cworld) (pop : population Z) (est : option Z) (w1 : cworld),
               Forall2 app_perm w w' ->
               w_estimate _ _ _ _ _ _ _ _ _ (c_world c pop0 a) o w pop = (est, w1) ->
               exists w1', w_estimate _ _ _ _ _ _ _ _ _ (c_world c pop0 a) o w' pop = (est, w1') /\ Forall2 app_perm w1 w1').
    { intros o w w' pop est w1 Hr. simpl. intros X; inversion X; subst. eexists; split; [reflexivity|exact Hr]. }
    specialize (WS ES (c_config Init AuxEv c init aux) fuel
                   (Loop.ls0 _ _ _ _ _ _ _ _ _ (c_world c pop0 a)) (Loop.ls0 _ _ _ _ _ _ _ _ _ (c_world c pop0 a'))).
    assert (S0 : sim zind cres (population Z) op cworld (Forall2 app_perm)
                   (Loop.ls0 _ _ _ _ _ _ _ _ _ (c_world c pop0 a)) (Loop.ls0 _ _ _ _ _ _ _ _ _ (c_world c pop0 a')))
      by (repeat split; simpl; auto).
    destruct (WS S0 E) as (A1 & A2 & A3 & A4 & A5).
    rewrite (c_world_loop _ c pop0 a' a).
    eexists. split; [f_equal; f_equal; apply finish_irrel; [symmetry; exact A1|symmetry; exact A4]|].
    repeat split; auto; congruence.
  Qed.

  (* C17_run_consistent: the composed run satisfies the clauses of C05 (Solver/Loop_proofs.v at the composition) *)
  Theorem evqe_run_consistent c seed init aux lgs ifuel fuel out res :
    evqe_run c seed init aux lgs ifuel fuel = Ok out -> o_result out = Ok res ->
    let tr := l_tr (o_ls out) in
    sr_history _ _ _ _ _ res = results_of cres (events_of zind cres (population Z) op tr)
    /\ (exists k r, first_min cres r_best_value (sr_history _ _ _ _ _ res) k r
                    /\ sr_eigenvalue _ _ _ _ _ res = r_best_value r /\ sr_best_individual _ _ _ _ _ res = r_best r)
    /\ sr_generations _ _ _ _ _ res = length (sr_history _ _ _ _ _ res)
    /\ sr_generations _ _ _ _ _ res = n_results zind cres (population Z) op tr
    /\ sumZ (sr_circuit_evaluations _ _ _ _ _ res) = sumZ (counts_of cres (events_of zind cres (population Z) op tr)).
  Proof.
    unfold Compose.evqe_run.
    destruct (master_session seed 1 (lg_master lgs)) as [[seeds mrest]|]; cbn [bind fst snd]; [|discriminate].
    destruct (negb _); [discriminate|].
    destruct (seed_of CPopulation seeds) as [pseed|]; cbn [bind]; [|discriminate].
    destruct (random_population _ _ _ _ _ _ ifuel) as [[p0 irest]|]; cbn [bind fst snd]; [|discriminate].
    intros H R. inversion H; subst out; clear H. cbn [Compose.o_ls Compose.o_result] in *.
    set (wd := c_world c (mkPop p0 None None None) (lg_apps lgs)) in *.
    set (cfg := c_config Init AuxEv c init aux) in *.
    assert (S : Loop.solve zind cres (population Z) op cworld Init Dist AuxEv AV r_best_value r_best cfg wd fuel
                = (l_tr (Loop.run zind cres (population Z) op cworld Init Dist AuxEv AV r_best_value r_best cfg wd fuel), Ok res))
      by (unfold Loop.solve; rewrite R; reflexivity).
    pose proof (eigenvalue_is_min _ _ _ _ _ _ _ _ _ _ _ _ _ _ _ _ S) as [H1 H2].
    pose proof (generations_count _ _ _ _ _ _ _ _ _ _ _ _ _ _ _ _ S) as [H3 H4].
    pose proof (ledger_sum _ _ _ _ _ _ _ _ _ _ _ _ _ _ _ _ S) as H5.
    repeat split; assumption.
  Qed.
End ComposeTheorems.
