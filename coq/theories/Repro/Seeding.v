(* C17 — the seeding discipline of QUEASARS, definitions only.

   What is modelled (and from which file):
     queasars/utility/random.py                  new_random_seed            (Evqe/Stream.v, reused)
     minimum_eigensolvers/evqe/evqe.py           EVQEMinimumEigensolver.__init__: the master generator and the six
                                                 operator seeds; the population seed, drawn LAZILY when the
                                                 population initializer is first called inside solve
     evolutionary_algorithm/mutation.py          the submission loop (random() <= p, then new_random_seed) of the
                                                 four mutation operators and what each submitted task does with
                                                 its seed (algorithm_globals.random_seed / Random(seed))
     evolutionary_algorithm/speciation.py        one choice per non-empty species
     evolutionary_algorithm/selection.py         one choices (roulette) / population-size many choices (tournament)
     job_shop_scheduling/random_problem_instances.py   random_job_shop_scheduling_instance over a decision stream
     a worker pool                               submit in order, complete in an arbitrary order, collect by index

   Randomness is a decision stream (Evqe/Stream.v).  Two views of a run are used:
     - the stream of ONE generator (its own decisions, in the order it made them): `master_session`;
     - a TRACE, the decisions of all generators made by one thread in program order, each tagged with the
       number of the generator that made it (generators are numbered in order of construction):
       `main_run` for the main thread, `worker_run` for the single worker thread.  The interleaving of the two
       threads is not modelled: it is not an input of either trace.
   The harness (harness/vlib/reprokit.py) logs exactly these traces from the implementation. *)
From QV Require Export Evqe.RandLayer.
From QV Require Export Jssp.Instance.
From Coq Require Export QArith Qabs.
From Coq Require Import DecimalString.
Open Scope Z_scope.

(* ------------------------------------------------------------------ 1. the master generator, its own stream *)
Inductive component :=
| CLastLayer | CSpeciation | CSelection | CParamSearch | CTopological | CLayerRemoval   (* drawn in __init__ *)
| CPopulation.                                                                          (* drawn in solve *)

Definition component_eqb (a b : component) : bool :=
  match a, b with
  | CLastLayer, CLastLayer | CSpeciation, CSpeciation | CSelection, CSelection | CParamSearch, CParamSearch
  | CTopological, CTopological | CLayerRemoval, CLayerRemoval | CPopulation, CPopulation => true
  | _, _ => false
  end.

(* the order of the new_random_seed calls in EVQEMinimumEigensolver.__init__ *)
Definition construct_order : list component :=
  [CLastLayer; CSpeciation; CSelection; CParamSearch; CTopological; CLayerRemoval].

(* one new_random_seed(master) per component, in list order *)
Fixpoint draw_seeds (cs : list component) (s : stream) : result (list (component * Z) * stream) :=
  match cs with
  | [] => Ok ([], s)
  | c :: t => do a <- new_random_seed s;
              do r <- draw_seeds t (snd a);
              Ok ((c, fst a) :: fst r, snd r)
  end.

(* everything the master generator of ONE solver object decides: Random(random_seed), the six operator seeds,
   then one population seed per call of a compute_* method *)
Definition master_session (seed : option Z) (n_solves : nat) (s : stream)
  : result (list (component * Z) * stream) :=
  do s0 <- draw_seed seed s;
  draw_seeds (construct_order ++ repeat CPopulation n_solves) s0.

(* ------------------------------------------------------------------ 2. traces *)
Definition tev : Type := (nat * decision)%type.          (* (generator number, what it decided) *)
Definition trace := list tev.

(* the next event must come from generator g; f reads exactly that one decision *)
Definition tdraw {A} (g : nat) (f : stream -> result (A * stream)) (t : trace) : result (A * trace) :=
  match t with
  | [] => match f [] with Err e => Err e | Ok _ => Err StreamMismatch end
  | (g', d) :: rest =>
      if Nat.eqb g g' then
        do r <- f [d];
        match snd r with [] => Ok (fst r, rest) | _ => Err StreamMismatch end
      else Err StreamMismatch
  end.

(* Random(seed) constructed: generator number `fresh` appears with that seed *)
Definition tseed (fresh : nat) (seed : option Z) (t : trace) : result trace :=
  do r <- tdraw fresh (fun s => do s' <- draw_seed seed s; Ok (tt, s')) t; Ok (snd r).

(* new_random_seed(parent) handed to a constructor which builds Random(seed) as generator `fresh` *)
Definition make_component (parent fresh : nat) (t : trace) : result (Z * trace) :=
  do a <- tdraw parent new_random_seed t;
  do t' <- tseed fresh (Some (fst a)) (snd a);
  Ok (fst a, t').

Record op_seeds := mkSeeds {
  sd_last_layer : Z; sd_speciation : Z; sd_selection : Z; sd_param_search : Z; sd_topological : Z;
  sd_layer_removal : Z }.

(* generator numbers fixed by the order of construction in __init__ *)
Definition G_MASTER := 0%nat.
Definition G_LAST := 1%nat.
Definition G_SPEC := 2%nat.
Definition G_SEL := 3%nat.
Definition G_PARAM := 4%nat.
Definition G_TOPO := 5%nat.
Definition G_REMOVE := 6%nat.
Definition G_POP := 7%nat.

(* EVQEMinimumEigensolver.__init__ in program order *)
Definition evqe_construct (seed : option Z) (t : trace) : result (op_seeds * trace) :=
  do t0 <- tseed G_MASTER seed t;
  do a1 <- make_component G_MASTER G_LAST t0;
  do a2 <- make_component G_MASTER G_SPEC (snd a1);
  do a3 <- make_component G_MASTER G_SEL (snd a2);
  do a4 <- make_component G_MASTER G_PARAM (snd a3);
  do a5 <- make_component G_MASTER G_TOPO (snd a4);
  do a6 <- make_component G_MASTER G_REMOVE (snd a5);
  Ok (mkSeeds (fst a1) (fst a2) (fst a3) (fst a4) (fst a5) (fst a6), snd a6).

Record run_cfg := mkCfg {
  c_qubits : Z;                 (* circuit_evaluator.n_qubits *)
  c_layers : Z;                 (* n_initial_layers *)
  c_pop : nat;                  (* population_size *)
  c_randomize : bool;           (* randomize_initial_population_parameters *)
  c_p_param : Q; c_p_topo : Q; c_p_remove : Q;
  c_tournament : option nat;    (* Some size: tournament selection *)
  c_generations : nat }.        (* max_generations (the only limit C17's configurations use) *)

(* generator numbers are handed out in order of construction: every DSeed of the part carries the next number,
   every other decision comes from a generator numbered >= lo that already exists *)
Fixpoint numbered (lo next : nat) (t : trace) : option nat :=
  match t with
  | [] => Some next
  | (g, DSeed _) :: rest => if Nat.eqb g next then numbered lo (S next) rest else None
  | (g, _) :: rest => if Nat.leb lo g && Nat.ltb g next then numbered lo next rest else None
  end.

(* WHICH generator makes which draw inside the population initializer (generator numbers, not only their order):
   the population generator pg draws one seed per individual, each at once followed by the construction of that
   individual's generator ig; ig draws one seed per layer, each at once followed by the construction of the layer's
   generator lg; choice / sample come from the CURRENT layer generator, random() (the parameter values, after the
   layers) from the current individual's generator; nothing else occurs. *)
Fixpoint attributed (pg : nat) (ig lg : option nat) (next : nat) (t : trace) : bool :=
  match t with
  | [] => true
  | (g, DRandint _ _ _) :: (g', DSeed _) :: rest =>
      Nat.eqb g' next &&
      (if Nat.eqb g pg then attributed pg (Some next) None (S next) rest
       else if option_eqb Nat.eqb (Some g) ig then attributed pg ig (Some next) (S next) rest
       else false)
  | (g, DChoice _ _) :: rest => option_eqb Nat.eqb (Some g) lg && attributed pg ig lg next rest
  | (g, DSample _ _ _) :: rest => option_eqb Nat.eqb (Some g) lg && attributed pg ig lg next rest
  | (g, DRandom _) :: rest => option_eqb Nat.eqb (Some g) ig && attributed pg ig None next rest
  | _ => false
  end.

Definition init_attributed (part : trace) : bool :=
  match part with
  | (g, DSeed _) :: body => Nat.eqb g G_POP && attributed G_POP None None (S G_POP) body
  | _ => false
  end.

(* the population initializer, called once inside solve: the population seed is drawn from the master NOW;
   EVQEPopulation.random_population is the model of Evqe/RandLayer.v run on the decisions of the part *)
Definition evqe_initial_population (cfg : run_cfg) (t : trace)
  : result (Z * list (individual Z) * nat * trace) :=
  do a <- tdraw G_MASTER new_random_seed t;
  let s := map snd (snd a) in
  do p <- random_population (c_qubits cfg) (c_layers cfg) (Z.of_nat (c_pop cfg)) (c_randomize cfg)
            (Some (fst a)) s (S (length s));
  let used := (length s - length (snd p))%nat in
  match numbered G_POP G_POP (firstn used (snd a)) with
  | Some next =>
      if init_attributed (firstn used (snd a)) then Ok (fst a, fst p, next, skipn used (snd a))
      else Err StreamMismatch             (* a draw was made by another generator than the one the code uses *)
  | None => Err StreamMismatch
  end.

(* ------------------------------------------------------------------ 3. the operators' own draws (main thread) *)
(* random() returns k / 2^53; the harness passes k as the token of DRandom *)
Definition unit_of_token (k : Z) : Q := k # 9007199254740992.

(* BaseEVQEMutationOperator.apply_operator, the submission loop over n individuals:
   if random() <= p: submit(..., new_random_seed(gen)).  Result: (index, seed) in submission order *)
Fixpoint submit_round (g : nat) (p : Q) (n i : nat) (t : trace) : result (list (nat * Z) * trace) :=
  match n with
  | O => Ok ([], t)
  | S n' =>
      do r <- tdraw g draw_random t;
      if Qle_bool (unit_of_token (fst r)) p then
        do sd <- tdraw g new_random_seed (snd r);
        do rest <- submit_round g p n' (S i) (snd sd);
        Ok ((i, fst sd) :: fst rest, snd rest)
      else submit_round g p n' (S i) (snd r)
  end.

(* EVQESpeciation.apply_operator: one choice(members) per non-empty species; the member lists partition the
   population, so the lengths add up to the population size *)
Fixpoint speciation_round (fuel remaining : nat) (t : trace) : result (list (nat * nat) * trace) :=
  if Nat.eqb remaining 0 then Ok ([], t)
  else match fuel with
       | O => Err OutOfFuel
       | S fuel' =>
           match t with
           | [] => Err StreamExhausted
           | (g, DChoice len idx) :: rest =>
               if Nat.eqb g G_SPEC && Nat.leb 1 len && Nat.leb len remaining && Nat.ltb idx len then
                 do r <- speciation_round fuel' (remaining - len) rest;
                 Ok ((len, idx) :: fst r, snd r)
               else Err StreamMismatch
           | _ :: _ => Err StreamMismatch
           end
       end.

Definition draw_choices (len k : nat) (s : stream) : result (list nat * stream) :=
  match s with
  | [] => Err StreamExhausted
  | DChoices l k' idxs :: rest =>
      if Nat.eqb l len && Nat.eqb k' k && Nat.eqb (length idxs) k && forallb (fun i => Nat.ltb i len) idxs
      then Ok (idxs, rest) else Err StreamMismatch
  | _ :: _ => Err StreamMismatch
  end.

Fixpoint tournament_rounds (rounds n size : nat) (t : trace) : result (list (list nat) * trace) :=
  match rounds with
  | O => Ok ([], t)
  | S r => do c <- tdraw G_SEL (draw_choices n size) t;
           do rest <- tournament_rounds r n size (snd c);
           Ok (fst c :: fst rest, snd rest)
  end.

(* EVQESelection.apply_operator: choices(individuals, weights, k=n) or n tournaments choices(range(n), k=size) *)
Definition selection_round (n : nat) (tournament : option nat) (t : trace) : result (list (list nat) * trace) :=
  match tournament with
  | None => do c <- tdraw G_SEL (draw_choices n n) t; Ok ([fst c], snd c)
  | Some size => tournament_rounds n n size t
  end.

(* the seeds handed out in one generation, per operator, in submission order *)
Record gen_plan := mkPlan {
  pl_last : list (nat * Z);
  pl_species : list (nat * nat);
  pl_selected : list (list nat);
  pl_mutations : option (list (nat * Z) * list (nat * Z) * list (nat * Z)) }.   (* param, topo, removal *)

(* one pass over the operator list; after the selection of generation `max` the loop stops
   (n_generations >= max_generations is checked before every operator) *)
Definition generation (cfg : run_cfg) (last : bool) (t : trace) : result (gen_plan * trace) :=
  let n := c_pop cfg in
  do a <- submit_round G_LAST 1%Q n 0 t;
  do b <- speciation_round n n (snd a);
  do c <- selection_round n (c_tournament cfg) (snd b);
  if last then Ok (mkPlan (fst a) (fst b) (fst c) None, snd c)
  else
    do d <- submit_round G_PARAM (c_p_param cfg) n 0 (snd c);
    do e <- submit_round G_TOPO (c_p_topo cfg) n 0 (snd d);
    do f <- submit_round G_REMOVE (c_p_remove cfg) n 0 (snd e);
    Ok (mkPlan (fst a) (fst b) (fst c) (Some (fst d, fst e, fst f)), snd f).

Fixpoint generations (cfg : run_cfg) (k : nat) (t : trace) : result (list gen_plan * trace) :=
  match k with
  | O => Ok ([], t)
  | S k' => do g <- generation cfg (Nat.eqb k' 0) t;
            do rest <- generations cfg k' (snd g);
            Ok (fst g :: fst rest, snd rest)
  end.

Record main_plan := mkMain {
  mp_seeds : op_seeds;
  mp_pop_seed : Z;
  mp_initial : list (individual Z);
  mp_next_gen : nat;                      (* the number the first generator of the worker thread gets *)
  mp_generations : list gen_plan }.

(* the whole main-thread trace of construct + one solve *)
Definition main_run (cfg : run_cfg) (seed : option Z) (t : trace) : result (main_plan * trace) :=
  do c <- evqe_construct seed t;
  do i <- evqe_initial_population cfg (snd c);
  let '(pop_seed, inds, next, t1) := i in
  do g <- generations cfg (c_generations cfg) t1;
  Ok (mkMain (fst c) pop_seed inds next (fst g), snd g).

(* ------------------------------------------------------------------ 4. the worker thread *)
Inductive wev :=
| WDec (g : nat) (d : decision)       (* a decision of generator g made on the worker thread *)
| WAlg (seed : Z).                    (* algorithm_globals.random_seed = seed *)

Definition wtrace := list wev.

(* optimize_layer_of_individual(..., random_seed=seed): the seed goes to algorithm_globals, no generator *)
Fixpoint last_layer_tasks (seeds : list (nat * Z)) (w : wtrace) : result wtrace :=
  match seeds with
  | [] => Ok w
  | (_, sd) :: rest =>
      match w with
      | WAlg v :: w' => if Z.eqb v sd then last_layer_tasks rest w' else Err StreamMismatch
      | _ => Err StreamMismatch
      end
  end.

(* optimize_all_parameters_of_individual: the while loop; `left` layers are still to be optimised *)
Fixpoint param_loop (g left : nat) (w : wtrace) : result wtrace :=
  match left with
  | O => Ok w
  | S left' =>
      match w with
      | WDec g1 (DChoice len idx) :: WDec g2 (DRandint lo hi v) :: WAlg a :: w' =>
          if Nat.eqb g1 g && Nat.eqb g2 g && Nat.eqb len left && Nat.ltb idx len
             && Z.eqb lo 0 && Z.eqb hi SEED_MAX && Z.leb 0 v && Z.leb v SEED_MAX && Z.eqb a v
          then param_loop g left' w' else Err StreamMismatch
      | _ => Err StreamMismatch
      end
  end.

(* Random(seed) as generator `next`, then one (choice, new_random_seed -> algorithm_globals) per layer;
   the number of layers is what the first choice was offered *)
Definition param_task (next : nat) (sd : Z) (w : wtrace) : result (nat * wtrace) :=
  match w with
  | WDec g (DSeed (Some v)) :: ((WDec _ (DChoice len _) :: _) as w') =>
      if Nat.eqb g next && Z.eqb v sd && Nat.leb 1 len then
        do w'' <- param_loop next len w'; Ok (S next, w'')
      else Err StreamMismatch
  | _ => Err StreamMismatch
  end.

(* the decisions of random_layer's generator: choice([ROTATION, CONTROLLED_ROTATION]) and sample(candidates, 2) *)
Fixpoint layer_draws (fuel g : nat) (w : wtrace) : wtrace :=
  match fuel with
  | O => w
  | S fuel' =>
      match w with
      | WDec g' (DChoice 2 idx) :: w' => if Nat.eqb g' g && Nat.ltb idx 2 then layer_draws fuel' g w' else w
      | WDec g' (DSample len 2 [i; j]) :: w' =>
          if Nat.eqb g' g && Nat.ltb i len && Nat.ltb j len && negb (Nat.eqb i j) then layer_draws fuel' g w' else w
      | _ => w
      end
  end.

(* add_random_layers(n_layers=1, random_seed=sd): Random(sd) = generator `next`, one new_random_seed,
   random_layer's Random(that seed) = generator next+1 and its draws *)
Definition topo_task (next : nat) (sd : Z) (w : wtrace) : result (nat * wtrace) :=
  match w with
  | WDec g (DSeed (Some v)) :: WDec g1 (DRandint lo hi x) :: WDec g2 (DSeed (Some y)) :: w' =>
      if Nat.eqb g next && Z.eqb v sd && Nat.eqb g1 next && Z.eqb lo 0 && Z.eqb hi SEED_MAX
         && Z.leb 0 x && Z.leb x SEED_MAX && Nat.eqb g2 (S next) && Z.eqb y x
      then Ok (S (S next), layer_draws (length w') (S next) w')
      else Err StreamMismatch
  | _ => Err StreamMismatch
  end.

(* remove_random_layers_from_individual: nothing at all for an individual with one layer, else
   Random(sd).randrange(1, n_layers) *)
Definition removal_task (next : nat) (sd : Z) (w : wtrace) : result (nat * wtrace) :=
  match w with
  | WDec g (DSeed (Some v)) :: WDec g1 (DRandrange start stop step x) :: w' =>
      if Nat.eqb g next && Z.eqb v sd then
        if Nat.eqb g1 next && Z.eqb start 1 && Z.ltb 1 stop && Z.eqb step 1 && Z.leb 1 x && Z.ltb x stop
        then Ok (S next, w') else Err StreamMismatch
      else Ok (next, w)                       (* this task made no generator: a one-layer individual *)
  | _ => Ok (next, w)
  end.

Fixpoint tasks (task : nat -> Z -> wtrace -> result (nat * wtrace)) (seeds : list (nat * Z)) (next : nat) (w : wtrace)
  : result (nat * wtrace) :=
  match seeds with
  | [] => Ok (next, w)
  | (_, sd) :: rest => do r <- task next sd w; tasks task rest (fst r) (snd r)
  end.

(* with one worker the tasks run in submission order: operator after operator, generation after generation *)
Fixpoint worker_run (plans : list gen_plan) (next : nat) (w : wtrace) : result (nat * wtrace) :=
  match plans with
  | [] => Ok (next, w)
  | p :: rest =>
      do w1 <- last_layer_tasks (pl_last p) w;
      match pl_mutations p with
      | None => worker_run rest next w1
      | Some (ps, ts, rs) =>
          do a <- tasks param_task ps next w1;
          do b <- tasks topo_task ts (fst a) (snd a);
          do c <- tasks removal_task rs (fst b) (snd b);
          worker_run rest (fst c) (snd c)
      end
  end.

(* ------------------------------------------------------------------ 5. a worker pool *)
(* tasks are submitted in list order; task j completes at position k of `order` when order[k] = j (the pool logs
   (j, result of task j)); the caller then collects futures[i].result() for i = 0 .. n-1 *)
Section Pool.
  Context {T R : Type}.
  Variable run : T -> R.

  Definition completion_log (submitted : list T) (order : list nat) : list (nat * option R) :=
    map (fun j => (j, option_map run (nth_error submitted j))) order.

  Fixpoint lookup (log : list (nat * option R)) (i : nat) : option R :=
    match log with
    | [] => None
    | (j, r) :: rest => if Nat.eqb i j then r else lookup rest i
    end.

  Definition collect_by_index (n : nat) (log : list (nat * option R)) : list (option R) :=
    map (lookup log) (seq 0 n).

  Definition pool_results (submitted : list T) (order : list nat) : list (option R) :=
    collect_by_index (length submitted) (completion_log submitted order).

  (* gathering in completion order instead (what the code does NOT do) *)
  Definition pool_results_as_completed (submitted : list T) (order : list nat) : list (option R) :=
    map snd (completion_log submitted order).
End Pool.

(* one worker: tasks complete in submission order *)
Definition single_worker_order (n : nat) : list nat := seq 0 n.

(* ------------------------------------------------------------------ 6. random_job_shop_scheduling_instance *)
Definition draw_shuffle (n : nat) (s : stream) : result (list nat * stream) :=
  match s with
  | [] => Err StreamExhausted
  | DShuffle perm :: rest =>
      if Nat.eqb (length perm) n && forallb (fun i => Nat.ltb i n) perm && nodup_nat perm
      then Ok (perm, rest) else Err StreamMismatch
  | _ :: _ => Err StreamMismatch
  end.

(* a value, or a probability distribution {value: probability} in dict order *)
Inductive vdist (A : Type) :=
| VConst (a : A)
| VDist (items : list (A * Q)).
Arguments VConst {A} a.
Arguments VDist {A} items.

Definition sumQ (l : list Q) : Q := fold_right Qplus 0%Q l.

(* math.isclose(total, 1, abs_tol=0.001) with the default rel_tol=1e-09:
   |total - 1| <= max(1e-9 * max(|total|, 1), 0.001) *)
Definition Qmax (a b : Q) : Q := if Qle_bool a b then b else a.
Definition isclose_one (total : Q) : bool :=
  Qle_bool (Qabs (total - 1)) (Qmax ((1 # 1000000000) * Qmax (Qabs total) 1) (1 # 1000)).

(* _get_value / _get_random_value_from_distribution: choices(keys, weights, k=1)[0] *)
Definition get_value {A} (v : vdist A) (s : stream) : result (A * stream) :=
  match v with
  | VConst a => Ok (a, s)
  | VDist items =>
      if negb (isclose_one (sumQ (map snd items))) then Err "ValueError"%string
      else
        do c <- draw_choices (length items) 1 s;
        match fst c with
        | [i] => match nth_error items i with
                 | Some (a, _) => Ok (a, snd c)
                 | None => Err StreamMismatch
                 end
        | _ => Err StreamMismatch
        end
  end.

(* Python's round(x) for a float x: to the nearest integer, ties to even *)
Definition Qfloor' (q : Q) : Z := (Qnum q / Zpos (Qden q))%Z.
Definition round_half_even (q : Q) : Z :=
  let f := Qfloor' q in
  let r := (q - inject_Z f)%Q in
  if Qle_bool r (1 # 2) then
    if Qle_bool (1 # 2) r then (if Z.even f then f else f + 1) else f
  else f + 1.

Definition nat_str (n : nat) : string := NilEmpty.string_of_uint (Nat.to_uint n).

(* the operations of one job: a duration per sampled machine, Operation(...) checks its arguments *)
Fixpoint make_operations (job : string) (j : nat) (machines : list string) (dur : vdist Z) (s : stream)
  : result (list operation * stream) :=
  match machines with
  | [] => Ok ([], s)
  | m :: rest =>
      do d <- get_value dur s;
      let o := mkOp ("op" ++ nat_str j)%string job m (fst d) in
      if operation_ok o then
        do r <- make_operations job (S j) rest dur (snd d);
        Ok (o :: fst r, snd r)
      else Err JSSPException
  end.

Definition one_job (i : nat) (machines : list string) (rel : vdist Q) (dur : vdist Z) (s : stream)
  : result (job * stream) :=
  let n_machines := length machines in
  do x <- get_value rel s;
  let n_ops := round_half_even (fst x * inject_Z (Z.of_nat n_machines)) in
  if (n_ops <? 0) || (Z.of_nat n_machines <? n_ops) then Err "ValueError"%string     (* random.sample *)
  else
    do sm <- draw_sample n_machines (Z.to_nat n_ops) (snd x);
    do sampled <- mapM (nth_res machines) (fst sm);
    do sh <- draw_shuffle (Z.to_nat n_ops) (snd sm);
    do shuffled <- mapM (nth_res sampled) (fst sh);
    let name := ("job" ++ nat_str i)%string in
    do ops <- make_operations name 0 shuffled dur (snd sh);
    let jb := mkJob name (fst ops) in
    if job_ok jb then Ok (jb, snd ops) else Err JSSPException.

Fixpoint make_jobs (k i : nat) (machines : list string) (rel : vdist Q) (dur : vdist Z) (s : stream)
  : result (list job * stream) :=
  match k with
  | O => Ok ([], s)
  | S k' => do j <- one_job i machines rel dur s;
            do r <- make_jobs k' (S i) machines rel dur (snd j);
            Ok (fst j :: fst r, snd r)
  end.

Definition random_jssp_instance (name : string) (n_jobs n_machines : Z) (rel : vdist Q) (dur : vdist Z)
           (seed : option Z) (s : stream) : result (instance * stream) :=
  do s0 <- draw_seed seed s;
  let machines := map (fun i => ("m" ++ nat_str i)%string) (seq 0 (Z.to_nat n_machines)) in
  do js <- make_jobs (Z.to_nat n_jobs) 0 machines rel dur s0;
  let inst := mkInst name machines (fst js) in
  if instance_ok inst then Ok (inst, snd js) else Err JSSPException.
