(* Correspondence entry point for the composed model (Repro/Compose.v): a case is ONE WHOLE real solve as the
   implementation ran it (harness/vlib/composekit.py): configuration, the master generator's decisions, the seeds of
   the six operator generators, the population initializer's decisions, one app_log per apply_operator call, the
   evaluator's answers - and everything the implementation was observed to do: the initial population, for every
   apply_operator call the operator, the population passed in, the ledger / n_generations / estimate at that moment
   and every callback payload, the population after the last application, and the fields of the final result
   (eigenvalue, best individual, ledger, generations, the whole history).  The composed model must reproduce ALL of
   it and use up every log completely.
   Individuals are interned in a table as in Evqe/OpsCheck.v (whose matching functions are reused). *)
From QV Require Import Repro.Compose Evqe.OpsCheck.
Open Scope Z_scope.
Open Scope list_scope.

Record app_expect := mkAE {
  x_op : nat;                        (* position of the operator in the operator list, 0..5 *)
  x_log : app_log;
  x_ledger : list Z;                 (* n_circuit_evaluations when apply_operator is entered *)
  x_ngen : nat;                      (* n_generations then *)
  x_est : option Z;                  (* what get_n_expected_circuit_evaluations answered just before *)
  x_arg : epop;                      (* the population passed in *)
  x_cbs : list ecb }.                (* the callbacks made, in order *)

Record res_expect := mkRE {
  y_eigenvalue : Q;
  y_best : nat;
  y_ledger : list Z;
  y_generations : nat;
  y_history : list (epop * list Q * nat * Q) }.    (* population, expectation values, best individual, best value *)

Record ccase := mkCC {
  cc_table : list zind;
  cc_evals : list (nat * Q);
  cc_cfg : ecfg;
  cc_seed : option Z;
  cc_master : stream;
  cc_op_seeds : list (option Z);
  cc_init : stream;
  cc_apps : list app_expect;
  cc_pop0 : list nat;
  cc_final_pop : option epop;        (* the population returned by the last application (None: the run raised) *)
  cc_result : result res_expect }.

Definition table_case (c : ccase) : ocase :=
  mkCase (cc_table c) 0 (cc_evals c) false false (mkE [] None None None None) [].

Definition op_eqb (a b : op) : bool :=
  match a, b with
  | OSpeciation x, OSpeciation y => Z.eqb x y
  | OSelection x, OSelection y =>
      Qeq_bool (s_alpha x) (s_alpha y) && Qeq_bool (s_beta x) (s_beta y) && option_eqb Nat.eqb (s_tournament x) (s_tournament y)
  | OMutation k p, OMutation k' p' =>
      match k, k' with
      | MLastLayer, MLastLayer | MParamSearch, MParamSearch | MTopological, MTopological | MLayerRemoval, MLayerRemoval => true
      | _, _ => false
      end && Qeq_bool p p'
  | _, _ => false
  end.

Section Case.
  Variable c : ccase.
  Let oc := table_case c.

  Definition the_run : result (run_out unit unit unit) :=
    evqe_run (OpsCheck.ev oc) unit unit unit unit (fun _ _ => tt) (fun _ _ => tt) (cc_cfg c) (cc_seed c) None ANone
      (mkLogs (cc_master c) (cc_op_seeds c) (cc_init c) (map x_log (cc_apps c)))
      (S (length (cc_init c))) (S (length (cc_apps c))).

  Definition titem' := titem zind cres (population Z) op.

  (* the callbacks that directly follow a TStart *)
  Fixpoint take_events (tr : list titem') : list (callback Z) * list titem' :=
    match tr with
    | TEv (EvalCount n) :: t => let r := take_events t in (CbCount n :: fst r, snd r)
    | TEv (Result x) :: t => let r := take_events t in (CbResult x :: fst r, snd r)
    | _ => ([], tr)
    end.

  Fixpoint check_trace (fuel : nat) (tr : list titem') (apps : list app_expect) : bool :=
    match apps with
    | [] => is_nil tr
    | a :: rest =>
        match fuel, tr with
        | S fuel', TStart o pop ledger ngen est :: tr' =>
            match nth_error (evqe_ops (cc_cfg c)) (x_op a) with
            | Some o' => op_eqb o o'
            | None => false
            end
            && pop_matches oc pop (x_arg a)
            && list_eqb Z.eqb ledger (x_ledger a) && Nat.eqb ngen (x_ngen a) && option_eqb Z.eqb est (x_est a)
            && (let r := take_events tr' in
                list_eqb2 (cb_matches oc pop) (fst r) (x_cbs a) && check_trace fuel' (snd r) rest)
        | _, _ => false
        end
    end.

  Definition hist_matches (r : cres) (e : epop * list Q * nat * Q) : bool :=
    let '(ep, vs, b, bv) := e in
    pop_matches oc (r_pop r) ep && list_eqb Qeq_bool (r_values r) vs && ind_is oc (r_best r) b && Qeq_bool (r_best_value r) bv.

  Definition result_matches (r : result (solve_result zind cres unit unit unit)) (e : result res_expect) : bool :=
    match r, e with
    | Ok m, Ok x =>
        Qeq_bool (sr_eigenvalue _ _ _ _ _ m) (y_eigenvalue x)
        && ind_is oc (sr_best_individual _ _ _ _ _ m) (y_best x)
        && list_eqb Z.eqb (sr_circuit_evaluations _ _ _ _ _ m) (y_ledger x)
        && Nat.eqb (sr_generations _ _ _ _ _ m) (y_generations x)
        && list_eqb2 hist_matches (sr_history _ _ _ _ _ m) (y_history x)
    | Err a, Err b => String.eqb a b
    | _, _ => false
    end.

  Definition check_body : bool :=
    match the_run with
    | Err _ => false
    | Ok out =>
        let s := o_ls _ _ _ out in
        list_eqb2 (ind_is oc) (o_pop0 _ _ _ out) (cc_pop0 c)
        && is_nil (o_master_rest _ _ _ out) && is_nil (o_init_rest _ _ _ out) && is_nil (l_w _ _ _ _ _ s)
        && check_trace (S (length (l_tr _ _ _ _ _ s))) (l_tr _ _ _ _ _ s) (cc_apps c)
        && match cc_final_pop c with
           | Some e => pop_matches oc (l_pop _ _ _ _ _ s) e
           | None => true
           end
        && result_matches (o_result _ _ _ out) (cc_result c)
    end.

  (* diagnosis for replay files: the first part of the observed run the composed model does not reproduce *)
  Fixpoint first_bad (k : nat) (fuel : nat) (tr : list titem') (apps : list app_expect) : option (nat * string) :=
    match apps with
    | [] => if is_nil tr then None else Some (k, "the model applies more operators than the implementation"%string)
    | a :: rest =>
        match fuel, tr with
        | S fuel', TStart o pop ledger ngen est :: tr' =>
            if negb match nth_error (evqe_ops (cc_cfg c)) (x_op a) with Some o' => op_eqb o o' | None => false end
            then Some (k, "another operator is applied"%string)
            else if negb (pop_matches oc pop (x_arg a)) then Some (k, "the population passed to apply_operator differs"%string)
            else if negb (list_eqb Z.eqb ledger (x_ledger a) && Nat.eqb ngen (x_ngen a)) then Some (k, "ledger / n_generations differ when the operator starts"%string)
            else if negb (option_eqb Z.eqb est (x_est a)) then Some (k, "the estimate of circuit evaluations differs"%string)
            else let r := take_events tr' in
                 if negb (list_eqb2 (cb_matches oc pop) (fst r) (x_cbs a)) then Some (k, "the callbacks (counts / evaluation result) differ"%string)
                 else first_bad (S k) fuel' (snd r) rest
        | _, _ => Some (k, "the model stops before this application"%string)
        end
    end.

  Definition diagnose : string * nat :=
    match the_run with
    | Err e => (("seeding / initial population: " ++ e)%string, 0%nat)
    | Ok out =>
        let s := o_ls _ _ _ out in
        if negb (list_eqb2 (ind_is oc) (o_pop0 _ _ _ out) (cc_pop0 c)) then ("the initial population differs"%string, 0%nat)
        else if negb (is_nil (o_master_rest _ _ _ out) && is_nil (o_init_rest _ _ _ out)) then ("master / initializer decisions left over"%string, 0%nat)
        else match first_bad 0 (S (length (l_tr _ _ _ _ _ s))) (l_tr _ _ _ _ _ s) (cc_apps c) with
             | Some (k, what) => (match l_err _ _ _ _ _ s with Some e => (what ++ " (model raises " ++ e ++ ")")%string | None => what end, k)
             | None =>
                 if negb (is_nil (l_w _ _ _ _ _ s)) then ("application logs left over"%string, 0%nat)
                 else if negb match cc_final_pop c with Some e => pop_matches oc (l_pop _ _ _ _ _ s) e | None => true end
                 then ("the population after the last application differs"%string, length (cc_apps c))
                 else if negb (result_matches (o_result _ _ _ out) (cc_result c))
                 then (match o_result _ _ _ out with Err e => ("the final result differs (model raises " ++ e ++ ")")%string | Ok _ => "the final result differs"%string end, 0%nat)
                 else ("accepted"%string, 0%nat)
             end
    end.
End Case.

Definition check_case (c : ccase) : bool := check_body c.
