(* Correspondence entry point for C17.  A case carries what the harness logged from the implementation
   (harness/vlib/reprokit.py): the configuration, the main thread's trace, the worker thread's trace, the initial
   population the real population initializer returned - or the arguments, decision stream and result of one call
   of random_job_shop_scheduling_instance.  The model must accept the traces COMPLETELY (nothing left over, no
   kind / arity / generator mismatch on the way): it then has predicted, from the master generator's decisions,
   which seed every component received, in which order, and which structures the initial population consists of.
   (The layer / individual / population constructors are replayed through Evqe/C20Check.v.)
   Tokens: DRandom k stands for random() = k / 2^53; a parameter value 2*pi*random() carries the same k, the
   value 0 of randomize_parameter_values=False the token 0. *)
From QV Require Import Repro.Seeding.
Open Scope Z_scope.

Inductive c17case :=
| CSolve (cfg : run_cfg) (seed : option Z) (main : trace) (worker : wtrace) (initial : list (individual Z))
| CJssp (name : string) (n_jobs n_machines : Z) (rel : vdist Q) (dur : vdist Z) (seed : option Z) (s : stream)
        (expected : result instance).

Definition inst_eqb (a b : instance) : bool :=
  String.eqb (inst_name a) (inst_name b)
  && list_eqb String.eqb (inst_machines a) (inst_machines b)
  && list_eqb job_eqb (inst_jobs a) (inst_jobs b).

Definition check_solve (cfg : run_cfg) (seed : option Z) (main : trace) (worker : wtrace)
           (initial : list (individual Z)) : bool :=
  match main_run cfg seed main with
  | Ok (mp, []) =>
      list_eqb (individual_eqb Z.eqb) (mp_initial mp) initial
      && match worker_run (mp_generations mp) (mp_next_gen mp) worker with
         | Ok (_, []) => true
         | _ => false
         end
  | _ => false
  end.

Definition check_jssp name n_jobs n_machines rel dur seed s (expected : result instance) : bool :=
  match random_jssp_instance name n_jobs n_machines rel dur seed s, expected with
  | Ok (i, []), Ok e => inst_eqb i e
  | Err e1, Err e2 => String.eqb e1 e2
  | _, _ => false
  end.

Definition check_case (c : c17case) : bool :=
  match c with
  | CSolve cfg seed main worker initial => check_solve cfg seed main worker initial
  | CJssp name nj nm rel dur seed s e => check_jssp name nj nm rel dur seed s e
  end.

(* diagnosis for replay files: the first stage that does not accept the log *)
Definition stage (c : c17case) : string :=
  match c with
  | CSolve cfg seed main worker initial =>
      match evqe_construct seed main with
      | Err e => ("construction (master generator and operator seeds): " ++ e)%string
      | Ok (_, t0) =>
          match evqe_initial_population cfg t0 with
          | Err e => ("population seed / initial population: " ++ e)%string
          | Ok (_, inds, next, t1) =>
              if negb (list_eqb (individual_eqb Z.eqb) inds initial) then "initial population differs from the model's"%string
              else match generations cfg (c_generations cfg) t1 with
                   | Err e => ("operator draws of the main thread: " ++ e)%string
                   | Ok (_, _ :: _) => "main thread made more decisions than the model"%string
                   | Ok (plans, []) =>
                       match worker_run plans next worker with
                       | Err e => ("worker thread (seeds handed to the tasks): " ++ e)%string
                       | Ok (_, _ :: _) => "worker thread made more decisions than the model"%string
                       | Ok (_, []) => "accepted"%string
                       end
                   end
          end
      end
  | CJssp name nj nm rel dur seed s e =>
      match random_jssp_instance name nj nm rel dur seed s with
      | Err e' => ("model raises " ++ e')%string
      | Ok (_, _ :: _) => "model leaves decisions unused"%string
      | Ok (i, []) => match e with Ok x => if inst_eqb i x then "accepted"%string else "instances differ"%string
                                | Err _ => "model returns an instance"%string end
      end
  end.

(* what the model predicts for a solve: the seven seeds, in the order the master generator is asked *)
Definition predicted_seeds (c : c17case) : result (list Z) :=
  match c with
  | CSolve cfg seed main _ _ =>
      do r <- main_run cfg seed main;
      let sd := mp_seeds (fst r) in
      Ok [sd_last_layer sd; sd_speciation sd; sd_selection sd; sd_param_search sd; sd_topological sd;
          sd_layer_removal sd; mp_pop_seed (fst r)]
  | _ => Err "n/a"%string
  end.
