(* C17 — evqe_run: the COMPOSITION of the models of a whole EVQE solve.  Definitions only.

     Solver/Loop.v        _solve_by_evolution (callbacks, ledger, best-so-far, limit checks, break, result assembly)
     Evqe/Heap.v run_op   the six operators, value level (Speciation.v, Selection.v, Mutation.v over Population.v)
     Evqe/RandLayer.v     EVQEPopulation.random_population (the initial population)
     Repro/Seeding.v      the master generator: six operator seeds, then the population seed

   evqe.py builds the operator list  last-layer search (p = 1), speciation, selection, parameter search, topological
   search, layer removal;  the population initializer draws its seed from the master generator when it is first
   called inside solve.

   Inputs of the composed model - and, by C17_run_functional, its ONLY inputs:
     the configuration `ecfg`, the configured seed;
     lg_master    the master generator's own decision stream (Evqe/Stream.v);
     lg_op_seeds  the seeds with which the six operator generators were constructed;
     lg_init      the decisions of the population initializer in program order (population generator, one generator
                  per individual, one per layer) - consumed by RandLayer.random_population;
     lg_apps      one app_log per apply_operator call, in call order: the decisions the operator's OWN generator made
                  during this application (Evqe/Stream.v decisions, bridged to builder-ops' odecision below), the weights
                  the code passed to choices() (floating-point results the model re-computes and compares), the
                  completion order of the submitted tasks, and the per-task logs (the task's private generator, the
                  optimiser's answers, the generated layers: Evqe/Mutation.v task_log);
     ev           the circuit evaluator's answer for an individual (oracle);
     measure / aux_eval   the final measurement and the auxiliary evaluators (oracles).
   Parameter values are integer tokens (V = Z; 0 is the value 0); `==` on individuals is the implementation's hash
   equality individual_heq. *)
From QV Require Export Repro.Seeding.
From QV Require Export Evqe.Heap.
From QV Require Export Solver.Loop.
Open Scope Z_scope.
Open Scope list_scope.

Definition LogExhausted : string := "LogExhausted"%string.   (* apply_operator called more often than there are app_logs *)

Definition zind : Type := individual Z.
Definition zieq : zind -> zind -> bool := individual_heq Z.eqb.

(* ------------------------------------------------------------------ configuration *)
Record ecfg := mkECfg {
  e_qubits : Z;                     (* circuit_evaluator.n_qubits *)
  e_layers : Z;                     (* n_initial_layers *)
  e_pop : nat;                      (* population_size *)
  e_randomize : bool;               (* randomize_initial_population_parameters *)
  e_thr : Z;                        (* speciation_genetic_distance_threshold *)
  e_sel : sel_config;               (* selection_alpha_penalty, selection_beta_penalty, tournament size *)
  e_p_param : Q; e_p_topo : Q; e_p_remove : Q;
  e_opt_evals : option Z;           (* optimizer_n_circuit_evaluations *)
  e_max_generations : option Z;
  e_max_evals : option Z }.         (* max_circuit_evaluations *)

(* evolutionary_operators, in the order evqe.py builds the list *)
Definition evqe_ops (c : ecfg) : list op :=
  [OMutation MLastLayer 1%Q; OSpeciation (e_thr c); OSelection (e_sel c);
   OMutation MParamSearch (e_p_param c); OMutation MTopological (e_p_topo c); OMutation MLayerRemoval (e_p_remove c)].

(* ------------------------------------------------------------------ the bridge Stream.decision -> odecision *)
Record app_log := mkApp {
  a_draws : stream;                  (* the operator's own generator during this application *)
  a_weights : option (list Q);       (* weights passed to choices() (roulette selection), None otherwise *)
  a_pi : list nat;                   (* completion order of the submitted tasks *)
  a_tasks : list (task_log Z) }.

(* an operator's own generator is asked for choice / choices / random / randint / randrange only; random() is logged
   as the integer k with random() = k / 2^53 (Seeding.unit_of_token) *)
Definition bridge_decision (w : option (list Q)) (d : decision) : result odecision :=
  match d with
  | DChoice len idx => Ok (KChoice len idx)
  | DChoices len k idxs => if Nat.eqb (length idxs) k then Ok (KChoices len w idxs) else Err QV.Evqe.Stream.StreamMismatch
  | DRandom tok => Ok (KRandom (unit_of_token tok))
  | DRandint lo hi v => Ok (KRandint lo hi v)
  | DRandrange start stop step v => if Z.eqb step 1 then Ok (KRandrange start stop v) else Err QV.Evqe.Stream.StreamMismatch
  | _ => Err QV.Evqe.Stream.StreamMismatch
  end.

Definition bridge (a : app_log) : result (oplog Z) :=
  do s <- mapM (bridge_decision (a_weights a)) (a_draws a);
  Ok (mkLog s (a_pi a) (a_tasks a)).

(* ------------------------------------------------------------------ get_n_expected_circuit_evaluations *)
Definition Qceil (q : Q) : Z := (- ((- Qnum q) / Zpos (Qden q)))%Z.
Definition qz (z : Z) : Q := inject_Z z.

Definition estimate (c : ecfg) (o : op) (p : population Z) : option Z :=
  match o with
  | OSpeciation _ => Some 0
  | OSelection _ => Some (Z.of_nat (length (p_inds p)))
  | OMutation MLastLayer prob =>
      option_map (fun k => Qceil (prob * qz (Z.of_nat (length (p_inds p))) * qz k)) (e_opt_evals c)
  | OMutation MParamSearch prob =>
      option_map (fun k => Qceil (prob * qz (sumZ (map (fun x : zind => Z.of_nat (length (i_layers x))) (p_inds p))) * qz k))
                 (e_opt_evals c)
  | OMutation _ _ => Some 0
  end.

(* ------------------------------------------------------------------ the world of the loop *)
Definition cworld : Type := list app_log.                    (* the logs of the applications still to come *)
Definition cres : Type := eval_result Z.                     (* BasePopulationEvaluationResult *)

Definition to_event (cb : callback Z) : event cres :=
  match cb with
  | CbCount n => EvalCount n
  | CbResult r => Result r
  end.

Section Compose.
  Variable ev : zind -> result Q.                            (* the circuit evaluator (oracle) *)
  Variables Init Dist AuxEv AV : Type.
  Variable measure : option Init -> zind -> Dist.            (* final measurement of the best individual (oracle) *)
  Variable aux_eval : AuxEv -> zind -> AV.                   (* auxiliary evaluators (oracle) *)

  (* operator.apply_operator: the next app_log is this application's *)
  Definition c_apply (o : op) (w : cworld) (pop : population Z)
    : list (event cres) * result (population Z) * cworld :=
    match w with
    | [] => ([], Err LogExhausted, [])
    | a :: rest =>
        match bridge a with
        | Err e => ([], Err e, rest)
        | Ok lg => let oc := run_op Z.eqb zieq 0 ev false o lg pop in
                   (map to_event (fst oc), snd oc, rest)
        end
    end.

  Definition c_world (c : ecfg) (pop0 : population Z) (apps : cworld)
    : world zind cres (population Z) op cworld Init Dist AuxEv AV :=
    Build_world zind cres (population Z) op cworld Init Dist AuxEv AV
      c_apply (fun o w pop => (estimate c o pop, w)) measure aux_eval pop0 apps.

  Definition c_config (c : ecfg) (init : option Init) (aux : aux_shape AuxEv) : config zind cres op Init AuxEv :=
    Build_config zind cres op Init AuxEv (evqe_ops c) (e_max_generations c) (e_max_evals c) None init aux.

  Record run_logs := mkLogs {
    lg_master : stream;
    lg_op_seeds : list (option Z);
    lg_init : stream;
    lg_apps : list app_log }.

  Notation cls := (ls zind cres (population Z) op cworld).
  Notation csolve_result := (solve_result zind cres Init Dist AV).

  Record run_out := mkOut {
    o_seeds : list (component * Z);      (* what the master generator handed out, in order *)
    o_pop0 : list zind;                  (* the initial population *)
    o_ls : cls;                          (* final loop state: callback state, last population, unused app_logs, trace *)
    o_result : result csolve_result;     (* what _solve_by_evolution returns / raises *)
    o_master_rest : stream;
    o_init_rest : stream }.

  Definition seed_of (cmp : component) (seeds : list (component * Z)) : result Z :=
    match find (fun cs => component_eqb (fst cs) cmp) seeds with
    | Some cs => Ok (snd cs)
    | None => Err QV.Evqe.Stream.StreamMismatch
    end.

  (* EVQEMinimumEigensolver(configuration) followed by one compute_* call.
     ifuel bounds the retry loops of random_layer (one unit per draw), fuel the passes of `while not terminate`. *)
  Definition evqe_run (c : ecfg) (seed : option Z) (init : option Init) (aux : aux_shape AuxEv)
             (lgs : run_logs) (ifuel fuel : nat) : result run_out :=
    do m <- master_session seed 1 (lg_master lgs);
    let seeds := fst m in
    if negb (list_eqb (option_eqb Z.eqb) (lg_op_seeds lgs) (map (fun cs => Some (snd cs)) (firstn 6 seeds)))
    then Err QV.Evqe.Stream.StreamMismatch      (* an operator generator was not constructed with its seed *)
    else
      do pseed <- seed_of CPopulation seeds;
      do p0 <- random_population (e_qubits c) (e_layers c) (Z.of_nat (e_pop c)) (e_randomize c) (Some pseed)
                 (lg_init lgs) ifuel;
      let wd := c_world c (mkPop (fst p0) None None None) (lg_apps lgs) in
      let cfg := c_config c init aux in
      let s := run zind cres (population Z) op cworld Init Dist AuxEv AV r_best_value r_best cfg wd fuel in
      Ok (mkOut seeds (fst p0) s (finish zind cres (population Z) op cworld Init Dist AuxEv AV cfg wd s) (snd m) (snd p0)).
End Compose.
