From QV Require Import Jssp.Valid.
Open Scope Z_scope.

Lemma neighbours_ok_tl l : neighbours_ok l = true -> neighbours_ok (tl l) = true.
Proof.
  destruct l as [|a [|b t]]; simpl; auto.
  intros H. apply andb_true_iff in H as [_ H]. exact H.
Qed.
