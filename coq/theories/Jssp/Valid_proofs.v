(* Proofs about the model of problem_instances.py (C19). *)
From QV Require Import Jssp.Valid.
From Coq Require Import Permutation Sorting.Sorted.
Open Scope Z_scope.

(* ------------------------------------------------------------------ boolean equalities *)
Lemma op_eqb_eq a b : op_eqb a b = true <-> a = b.
Proof.
  destruct a as [n1 j1 m1 d1], b as [n2 j2 m2 d2]; unfold op_eqb; simpl.
  rewrite !andb_true_iff, !String.eqb_eq, Z.eqb_eq. split.
  - intros [[[-> ->] ->] ->]. reflexivity.
  - intros E; inversion E; subst; auto.
Qed.

Lemma job_eqb_eq a b : job_eqb a b = true <-> a = b.
Proof.
  destruct a as [n1 o1], b as [n2 o2]; unfold job_eqb; simpl.
  rewrite andb_true_iff, String.eqb_eq, (list_eqb_eq op_eqb op_eqb_eq). split.
  - intros [-> ->]. reflexivity.
  - intros E; inversion E; subst; auto.
Qed.

Lemma job_mem_In j l : job_mem j l = true <-> In j l.
Proof.
  unfold job_mem. rewrite existsb_exists. split.
  - intros [x [Hin E]]. apply job_eqb_eq in E. subst. exact Hin.
  - intros Hin. exists j. split; [exact Hin | apply job_eqb_eq; reflexivity].
Qed.

(* ------------------------------------------------------------------ neighbour check = precedence along a list *)
Lemma neighbours_ok_tl l : neighbours_ok l = true -> neighbours_ok (tl l) = true.
Proof.
  destruct l as [|a [|b t]]; simpl; auto.
  intros H. apply andb_true_iff in H as [_ H]. exact H.
Qed.

Lemma neighbours_ok_spec l : neighbours_ok l = true <-> precedence_ok l.
Proof.
  induction l as [|a t IH].
  - split; [|reflexivity]. intros _ k x y H. destruct k; discriminate.
  - destruct t as [|b t'].
    + split; [|reflexivity]. intros _ k x y H1 H2. destruct k as [|[|k]]; simpl in *; discriminate.
    + change (neighbours_ok (a :: b :: t')) with ((end_of a <=? start_of b) && neighbours_ok (b :: t')).
      rewrite andb_true_iff, Z.leb_le, IH. split.
      * intros [H0 Hp] k x y Hx Hy. destruct k as [|k].
        -- simpl in Hx, Hy. inversion Hx; inversion Hy; subst. exact H0.
        -- simpl in Hx. apply (Hp k x y); [exact Hx | exact Hy].
      * intros Hp. split.
        -- apply (Hp 0%nat a b); reflexivity.
        -- intros k x y Hx Hy. apply (Hp (S k) x y); [exact Hx | exact Hy].
Qed.

(* ------------------------------------------------------------------ insertion sort *)
Definition le_start (a b : sop) : Prop := start_of a <= start_of b.

Lemma insert_perm x l : Permutation (x :: l) (insert_by_start x l).
Proof.
  induction l as [|y ys IH]; simpl; [reflexivity|].
  destruct (start_of x <=? start_of y); [reflexivity|].
  rewrite perm_swap. apply perm_skip. exact IH.
Qed.

Lemma sort_perm l : Permutation l (sort_by_start l).
Proof.
  induction l as [|x xs IH]; simpl; [constructor|].
  rewrite <- insert_perm. apply perm_skip. exact IH.
Qed.

Lemma insert_sorted x l : StronglySorted le_start l -> StronglySorted le_start (insert_by_start x l).
Proof.
  induction l as [|y ys IH]; simpl; intros Hs.
  - constructor; [constructor | constructor].
  - inversion Hs as [|? ? Hs' Hall]; subst.
    destruct (start_of x <=? start_of y) eqn:E.
    + apply Z.leb_le in E. constructor; [exact Hs|].
      constructor; [exact E|]. eapply Forall_impl; [|exact Hall].
      intros c Hc. unfold le_start in *. lia.
    + apply Z.leb_gt in E. constructor; [apply IH; exact Hs'|].
      apply (Permutation_Forall (insert_perm x ys)).
      constructor; [unfold le_start; lia | exact Hall].
Qed.

Lemma sort_sorted l : StronglySorted le_start (sort_by_start l).
Proof.
  induction l as [|x xs IH]; simpl; [constructor | apply insert_sorted; exact IH].
Qed.

(* ------------------------------------------------------------------ pairwise relations on lists *)
Lemma FOP_inv {A} (R : A -> A -> Prop) a l :
  ForallOrdPairs R (a :: l) -> Forall (R a) l /\ ForallOrdPairs R l.
Proof. intros H; inversion H; subst; split; assumption. Qed.

Lemma FOP_perm {A} (R : A -> A -> Prop) :
  (forall a b, R a b -> R b a) ->
  forall l l', Permutation l l' -> ForallOrdPairs R l -> ForallOrdPairs R l'.
Proof.
  intros Hsym l l' HP. induction HP as [|x l l' HP IH|x y l|l l' l'' HP1 IH1 HP2 IH2]; intros H.
  - exact H.
  - apply FOP_inv in H as [Hx Hl]. constructor; [apply (Permutation_Forall HP); exact Hx | apply IH; exact Hl].
  - apply FOP_inv in H as [Hy H]. apply FOP_inv in H as [Hx Hl].
    inversion Hy as [|? ? Hyx Hyl]; subst.
    constructor; [constructor; [apply Hsym; exact Hyx | exact Hx]|].
    constructor; [exact Hyl | exact Hl].
  - apply IH2, IH1, H.
Qed.

Lemma Forall_filter {A} (P : A -> Prop) f l : Forall P l -> Forall P (filter f l).
Proof.
  rewrite !Forall_forall. intros H x Hx. apply filter_In in Hx as [Hx _]. apply H, Hx.
Qed.

Lemma FOP_filter {A} (R : A -> A -> Prop) f l : ForallOrdPairs R l -> ForallOrdPairs R (filter f l).
Proof.
  induction l as [|a l IH]; simpl; intros H; [constructor|].
  apply FOP_inv in H as [Ha Hl]. destruct (f a).
  - constructor; [apply Forall_filter; exact Ha | apply IH; exact Hl].
  - apply IH; exact Hl.
Qed.

Lemma FOP_impl_on {A} (P : A -> Prop) (R S : A -> A -> Prop) l :
  (forall a b, P a -> P b -> R a b -> S a b) -> Forall P l -> ForallOrdPairs R l -> ForallOrdPairs S l.
Proof.
  intros HRS. induction l as [|a l IH]; intros HP H; [constructor|].
  apply FOP_inv in H as [Ha Hl]. inversion HP as [|? ? Pa Pl]; subst.
  constructor; [|apply IH; assumption].
  rewrite Forall_forall in *. intros c Hc. apply HRS; auto.
Qed.

(* ------------------------------------------------------------------ sorted neighbours <-> pairwise (Appendix A.4) *)
Definition pos_dur (p : sop) : Prop := 0 < op_dur (fst p).

Lemma no_overlap_sym a b : no_overlap a b -> no_overlap b a.
Proof. unfold no_overlap; tauto. Qed.

Lemma sorted_neighbours_pairwise l :
  Forall pos_dur l -> StronglySorted le_start l ->
  (neighbours_ok l = true <-> ForallOrdPairs no_overlap l).
Proof.
  induction l as [|a t IH]; intros Hd Hs.
  - split; [constructor | reflexivity].
  - inversion Hd as [|? ? Hda Hdt]; subst. inversion Hs as [|? ? Hs' Hall]; subst.
    destruct t as [|b t'].
    + split; [|reflexivity]. intros _. constructor; constructor.
    + change (neighbours_ok (a :: b :: t')) with ((end_of a <=? start_of b) && neighbours_ok (b :: t')).
      rewrite andb_true_iff, Z.leb_le, (IH Hdt Hs'). split.
      * intros [H0 Hp]. constructor; [|exact Hp].
        inversion Hs' as [|? ? _ Hb]; subst.
        constructor; [left; exact H0|].
        rewrite Forall_forall in *. intros c Hc. left. specialize (Hb c Hc). unfold le_start in Hb. lia.
      * intros H. apply FOP_inv in H as [Ha Hp]. split; [|exact Hp].
        inversion Ha as [|? ? Hab _]; subst. inversion Hall as [|? ? Hle _]; subst.
        inversion Hdt as [|? ? Hdb _]; subst.
        unfold no_overlap, le_start, pos_dur, end_of, start_of in *. lia.
Qed.

(* the per-machine check of the implementation, for one machine *)
Lemma machine_check_spec l :
  Forall pos_dur l ->
  (neighbours_ok (sort_by_start l) = true <-> ForallOrdPairs no_overlap l).
Proof.
  intros Hd.
  rewrite (sorted_neighbours_pairwise (sort_by_start l)).
  - split; apply FOP_perm; try exact no_overlap_sym; [symmetry|]; apply sort_perm.
  - apply (Permutation_Forall (sort_perm l)). exact Hd.
  - apply sort_sorted.
Qed.

(* ------------------------------------------------------------------ grouping by machine *)
Definition same_machine_no_overlap (a b : sop) : Prop := mach_of a = mach_of b -> no_overlap a b.

Lemma on_machine_cons m a l :
  on_machine m (a :: l) = if String.eqb (mach_of a) m then a :: on_machine m l else on_machine m l.
Proof. reflexivity. Qed.

Lemma In_on_machine m c l : In c (on_machine m l) <-> In c l /\ mach_of c = m.
Proof. unfold on_machine. rewrite filter_In, String.eqb_eq. reflexivity. Qed.

Lemma machines_split (ms : list string) flat :
  (forall p, In p flat -> In (mach_of p) ms) ->
  (ForallOrdPairs same_machine_no_overlap flat <->
   forall m, In m ms -> ForallOrdPairs no_overlap (on_machine m flat)).
Proof.
  intros Hms. split.
  - intros H m _. apply (FOP_impl_on (fun p => mach_of p = m) same_machine_no_overlap).
    + intros a b Ha Hb HR. apply HR. congruence.
    + rewrite Forall_forall. intros c Hc. apply In_on_machine in Hc. tauto.
    + apply FOP_filter. exact H.
  - induction flat as [|a l IH]; intros H; [constructor|].
    assert (Hl : forall m, In m ms -> ForallOrdPairs no_overlap (on_machine m l)).
    { intros m Hm. specialize (H m Hm). rewrite on_machine_cons in H.
      destruct (String.eqb (mach_of a) m); [apply FOP_inv in H; tauto | exact H]. }
    constructor.
    + rewrite Forall_forall. intros c Hc Hmach.
      specialize (H (mach_of a) (Hms a (or_introl eq_refl))).
      rewrite on_machine_cons, String.eqb_refl in H. apply FOP_inv in H as [Ha _].
      rewrite Forall_forall in Ha. apply Ha. apply In_on_machine. split; [exact Hc | congruence].
    + apply IH; [|exact Hl]. intros p Hp. apply Hms. right. exact Hp.
Qed.

Lemma machines_check_spec (ms : list string) flat :
  Forall pos_dur flat -> (forall p, In p flat -> In (mach_of p) ms) ->
  (forallb (fun m => neighbours_ok (sort_by_start (on_machine m flat))) ms = true
   <-> ForallOrdPairs same_machine_no_overlap flat).
Proof.
  intros Hd Hms. rewrite (machines_split ms flat Hms), forallb_forall.
  split; intros H m Hm; specialize (H m Hm);
    apply (machine_check_spec (on_machine m flat)); try exact H; apply Forall_filter; exact Hd.
Qed.

(* ------------------------------------------------------------------ schedules of matching shape *)
Lemma all_scheduled_spec s :
  all_scheduled s = true <-> (forall kv p, In kv s -> In p (snd kv) -> snd p <> None).
Proof.
  unfold all_scheduled. rewrite forallb_forall. split.
  - intros H kv p Hkv Hp. specialize (H kv Hkv). rewrite forallb_forall in H. specialize (H p Hp).
    unfold is_sched in H. destruct (snd p); [discriminate | discriminate H].
  - intros H kv Hkv. apply forallb_forall. intros p Hp. specialize (H kv p Hkv Hp).
    unfold is_sched. destruct (snd p); [reflexivity | contradiction].
Qed.

Lemma In_strip p row : In p (strip row) <-> In (fst p, Some (snd p)) row.
Proof.
  unfold strip. rewrite in_flat_map. split.
  - intros [q [Hq Hp]]. destruct q as [o [t|]]; simpl in Hp; [|contradiction].
    destruct Hp as [<-|[]]. exact Hq.
  - intros H. exists (fst p, Some (snd p)). split; [exact H|]. simpl. left. destruct p; reflexivity.
Qed.

Lemma In_strip_fst p row : In p (strip row) -> In (fst p) (map fst row).
Proof. intros H. apply In_strip in H. apply (in_map fst) in H. exact H. Qed.

Lemma lookup_rows_Forall2 s js rows :
  lookup_rows s js = Some rows -> Forall2 (fun j row => sched_lookup s j = Some row) js rows.
Proof.
  revert rows. induction js as [|j js IH]; simpl; intros rows H.
  - inversion H; constructor.
  - destruct (sched_lookup s j) as [r|] eqn:E; [|discriminate].
    destruct (lookup_rows s js) as [rs|]; [|discriminate]. inversion H; subst.
    constructor; [exact E | apply IH; reflexivity].
Qed.

Lemma lookup_rows_exists s js :
  (forall j, In j js -> exists row, sched_lookup s j = Some row) -> exists rows, lookup_rows s js = Some rows.
Proof.
  induction js as [|j js IH]; simpl; intros H; [eexists; reflexivity|].
  destruct (H j (or_introl eq_refl)) as [r ->].
  destruct IH as [rs ->]; [intros j' Hj'; apply H; right; exact Hj'|]. eexists; reflexivity.
Qed.

Lemma Forall2_In_r {A B} (R : A -> B -> Prop) l l' y :
  Forall2 R l l' -> In y l' -> exists x, In x l /\ R x y.
Proof.
  induction 1 as [|a b l l' Hab _ IH]; intros Hy; [contradiction|].
  destruct Hy as [<-|Hy]; [exists a; split; [left; reflexivity | exact Hab]|].
  destruct (IH Hy) as [x [Hx HR]]. exists x. split; [right; exact Hx | exact HR].
Qed.

Lemma Forall2_In_l {A B} (R : A -> B -> Prop) l l' x :
  Forall2 R l l' -> In x l -> exists y, In y l' /\ R x y.
Proof.
  induction 1 as [|a b l l' Hab _ IH]; intros Hx; [contradiction|].
  destruct Hx as [<-|Hx]; [exists b; split; [left; reflexivity | exact Hab]|].
  destruct (IH Hx) as [y [Hy HR]]. exists y. split; [right; exact Hy | exact HR].
Qed.

(* what the result constructor guarantees *)
Lemma result_ok_spec i s :
  result_ok i s = true <->
  (forall j, In j (inst_jobs i) -> In j (map fst s)) /\
  (forall kv, In kv s -> In (fst kv) (inst_jobs i)) /\
  (forall j, In j (inst_jobs i) -> exists row, sched_lookup s j = Some row /\ map fst row = job_ops j).
Proof.
  unfold result_ok. rewrite !andb_true_iff, !forallb_forall. split.
  - intros [[H1 H2] H3]. repeat split.
    + intros j Hj. apply job_mem_In, H1, Hj.
    + intros kv Hkv. apply job_mem_In, H2, Hkv.
    + intros j Hj. specialize (H3 j Hj). destruct (sched_lookup s j) as [row|]; [|discriminate].
      exists row. split; [reflexivity|]. apply (list_eqb_eq op_eqb op_eqb_eq) in H3. congruence.
  - intros [H1 [H2 H3]]. repeat split.
    + intros j Hj. apply job_mem_In, H1, Hj.
    + intros kv Hkv. apply job_mem_In, H2, Hkv.
    + intros j Hj. destruct (H3 j Hj) as [row [-> E]]. apply (list_eqb_eq op_eqb op_eqb_eq). congruence.
Qed.

(* what well-formedness gives for the operations of the instance *)
Lemma wf_operation i j o :
  wf_instance i = true -> In j (inst_jobs i) -> In o (job_ops j) ->
  0 < op_dur o /\ In (op_machine o) (inst_machines i).
Proof.
  unfold wf_instance, instance_ok. rewrite !andb_true_iff, !forallb_forall.
  intros [[[[[_ _] _] Hm] _] Hops] Hj Ho.
  specialize (Hops j Hj). rewrite andb_true_iff, forallb_forall in Hops. destruct Hops as [_ Hops].
  specialize (Hops o Ho). unfold operation_ok in Hops. rewrite !andb_true_iff in Hops.
  split; [apply Z.ltb_lt; tauto|].
  specialize (Hm j Hj). rewrite forallb_forall in Hm. apply mem_str_In, Hm, Ho.
Qed.

(* every scheduled operation that the verdict looks at is an operation of the instance *)
Lemma flat_ops i s rows :
  wf_instance i = true -> result_ok i s = true -> lookup_rows s (inst_jobs i) = Some rows ->
  forall p, In p (concat (map strip rows)) -> pos_dur p /\ In (mach_of p) (inst_machines i).
Proof.
  intros Hwf Hres Hrows p Hp.
  apply in_concat in Hp as [srow [Hsrow Hp]]. apply in_map_iff in Hsrow as [row [<- Hrow]].
  apply lookup_rows_Forall2 in Hrows.
  destruct (Forall2_In_r _ _ _ _ Hrows Hrow) as [j [Hj Hl]].
  apply result_ok_spec in Hres as [_ [_ H3]]. destruct (H3 j Hj) as [row' [Hl' Hops]].
  assert (row' = row) by congruence. subst row'.
  apply In_strip_fst in Hp. rewrite Hops in Hp.
  destruct (wf_operation i j (fst p) Hwf Hj Hp) as [Hd Hm]. split; [exact Hd | exact Hm].
Qed.

Lemma is_valid_impl_verdict i s :
  wf_instance i = true -> result_ok i s = true ->
  exists b, is_valid_impl i s = Ok b /\ (b = true <-> valid_spec i s).
Proof.
  intros Hwf Hres. unfold is_valid_impl.
  destruct (lookup_rows_exists s (inst_jobs i)) as [rows Hrows].
  { intros j Hj. apply result_ok_spec in Hres as [_ [_ H3]]. destruct (H3 j Hj) as [row [H _]]. eauto. }
  destruct (all_scheduled s) eqn:A; simpl.
  - rewrite Hrows. eexists; split; [reflexivity|].
    pose proof (flat_ops i s rows Hwf Hres Hrows) as Hflat.
    rewrite andb_true_iff, machines_check_spec.
    + split.
      * intros [Hj Hm]. constructor.
        -- apply all_scheduled_spec, A.
        -- intros rows' E row Hrow. assert (rows' = rows) by congruence; subst.
           apply neighbours_ok_spec. rewrite forallb_forall in Hj. apply Hj, in_map, Hrow.
        -- intros rows' E. assert (rows' = rows) by congruence; subst. exact Hm.
      * intros [_ Hp Hm]. split; [|apply Hm, Hrows].
        apply forallb_forall. intros srow Hs. apply in_map_iff in Hs as [row [<- Hrow]].
        apply neighbours_ok_spec, (Hp rows Hrows row Hrow).
    + rewrite Forall_forall. intros p Hp. apply Hflat, Hp.
    + intros p Hp. apply Hflat, Hp.
  - eexists; split; [reflexivity|]. split; [discriminate|].
    intros [Ha _ _]. apply all_scheduled_spec in Ha. congruence.
Qed.

Lemma valid_schedule_impl_spec i s :
  wf_instance i = true -> result_ok i s = true ->
  (valid_spec i s -> valid_schedule_impl i s = Ok s) /\
  (~ valid_spec i s -> valid_schedule_impl i s = Err JSSPException).
Proof.
  intros Hwf Hres. destruct (is_valid_impl_verdict i s Hwf Hres) as [b [E Hb]].
  unfold valid_schedule_impl. rewrite E. simpl. destruct b.
  - split; [reflexivity|]. intros Hn. exfalso. apply Hn, Hb. reflexivity.
  - split; [|reflexivity]. intros Hv. apply Hb in Hv. discriminate.
Qed.

(* ------------------------------------------------------------------ makespan *)
Definition is_max (l : list Z) (m : Z) : Prop := In m l /\ forall x, In x l -> x <= m.

Lemma max_list_spec l : l <> [] -> exists m, max_list l = Some m /\ is_max l m.
Proof.
  induction l as [|x t IH]; intros Hne; [contradiction|]. simpl.
  destruct t as [|y t'].
  - simpl. exists x. split; [reflexivity|]. split; [left; reflexivity|]. intros z [<-|[]]. lia.
  - destruct IH as [m [E [Hin Hmax]]]; [discriminate|]. rewrite E. eexists; split; [reflexivity|]. split.
    + destruct (Z.max_spec x m) as [[_ ->]|[_ ->]]; [right; exact Hin | left; reflexivity].
    + intros z [<-|Hz]; [lia|]. specialize (Hmax z Hz). lia.
Qed.

Lemma is_max_unique l m m' : is_max l m -> is_max l m' -> m = m'.
Proof. intros [H1 H2] [H3 H4]. specialize (H2 m' H3). specialize (H4 m H1). lia. Qed.

Lemma last_opt_In {A} (l : list A) x : last_opt l = Some x -> In x l.
Proof.
  induction l as [|a t IH]; simpl; [discriminate|]. destruct t as [|b t'].
  - intros E; inversion E; left; reflexivity.
  - intros E. right. apply IH, E.
Qed.

Lemma last_opt_Some {A} (l : list A) : l <> [] -> exists x, last_opt l = Some x.
Proof.
  induction l as [|a t IH]; intros H; [contradiction|]. destruct t as [|b t'].
  - exists a; reflexivity.
  - destruct IH as [x E]; [discriminate|]. exists x. exact E.
Qed.

Lemma precedence_ok_tl a t : precedence_ok (a :: t) -> precedence_ok t.
Proof. intros H k x y Hx Hy. apply (H (S k) x y); assumption. Qed.

(* along a job in precedence order the last operation ends last *)
Lemma last_ends_last row p :
  Forall pos_dur row -> precedence_ok row -> last_opt row = Some p ->
  forall q, In q row -> end_of q <= end_of p.
Proof.
  induction row as [|a t IH]; intros Hd Hp Hl q Hq; [contradiction|].
  inversion Hd as [|? ? Hda Hdt]; subst. destruct t as [|b t'].
  - simpl in Hl. inversion Hl; subst. destruct Hq as [<-|[]]. lia.
  - assert (Hb : end_of b <= end_of p).
    { apply (IH Hdt (precedence_ok_tl _ _ Hp) Hl). left; reflexivity. }
    destruct Hq as [<-|Hq].
    + specialize (Hp 0%nat a b eq_refl eq_refl). inversion Hdt as [|? ? Hdb _]; subst.
      unfold pos_dur, end_of, start_of in *. lia.
    + apply (IH Hdt (precedence_ok_tl _ _ Hp) Hl q Hq).
Qed.

Lemma strip_fst row : forallb is_sched row = true -> map fst (strip row) = map fst row.
Proof.
  induction row as [|[o [t|]] row IH]; simpl; intros H; try discriminate; [reflexivity|].
  f_equal. apply IH. exact H.
Qed.

(* a dict has pairwise different keys *)
Definition keys_nodup (s : schedule) : Prop := NoDup (map fst s).

Lemma sched_lookup_own s kv : keys_nodup s -> In kv s -> sched_lookup s (fst kv) = Some (snd kv).
Proof.
  unfold keys_nodup, sched_lookup. induction s as [|a s IH]; intros Hnd Hin; [contradiction|].
  simpl in Hnd. inversion Hnd as [|? ? Hna Hnd']; subst. simpl.
  destruct (job_eqb (fst a) (fst kv)) eqn:E.
  - apply job_eqb_eq in E. destruct Hin as [->|Hin]; [reflexivity|].
    exfalso. apply Hna. rewrite E. apply in_map, Hin.
  - destruct Hin as [->|Hin].
    + assert (job_eqb (fst kv) (fst kv) = true) by (apply job_eqb_eq; reflexivity). congruence.
    + apply IH; assumption.
Qed.

Lemma mapM_Forall2 {A B} (f : A -> result B) l :
  (forall x, In x l -> exists y, f x = Ok y) ->
  exists ys, mapM f l = Ok ys /\ Forall2 (fun x y => f x = Ok y) l ys.
Proof.
  induction l as [|x t IH]; intros H; simpl.
  - exists []. split; [reflexivity | constructor].
  - destruct (H x (or_introl eq_refl)) as [y Ey]. rewrite Ey. simpl.
    destruct IH as [ys [E F]]; [intros z Hz; apply H; right; exact Hz|]. rewrite E. simpl.
    exists (y :: ys). split; [reflexivity | constructor; assumption].
Qed.

Definition last_end (kv : job * list psop) : result Z :=
  match last_opt (strip (snd kv)) with Some p => Ok (end_of p) | None => Err "IndexError"%string end.

Lemma makespan_impl_spec i s :
  wf_instance i = true -> result_ok i s = true -> keys_nodup s -> inst_jobs i <> [] ->
  (valid_spec i s ->
     exists m, makespan_impl i s = Ok (Some m) /\
               latest_end (map (fun kv => strip (snd kv)) s) = Some m) /\
  (~ valid_spec i s -> makespan_impl i s = Ok None).
Proof.
  intros Hwf Hres Hnd Hjobs. destruct (is_valid_impl_verdict i s Hwf Hres) as [b [E Hb]].
  unfold makespan_impl. rewrite E. simpl. split.
  2:{ intros Hn. destruct b; [exfalso; apply Hn, Hb; reflexivity | reflexivity]. }
  intros Hv. assert (b = true) by (apply Hb, Hv). subst b. simpl.
  fold last_end.
  pose proof (proj1 (result_ok_spec i s) Hres) as [H1 [H2 H3]].
  destruct (lookup_rows_exists s (inst_jobs i)) as [rows Hrows].
  { intros j Hj. destruct (H3 j Hj) as [row [H _]]. eauto. }
  pose proof (lookup_rows_Forall2 _ _ _ Hrows) as HF.
  destruct Hv as [Hall Hprec _]. specialize (Hprec rows Hrows).
  (* facts about every row of the dict *)
  assert (Hrow : forall kv, In kv s ->
            Forall pos_dur (strip (snd kv)) /\ precedence_ok (strip (snd kv)) /\ strip (snd kv) <> []).
  { intros kv Hkv. pose proof (H2 kv Hkv) as Hj.
    pose proof (sched_lookup_own s kv Hnd Hkv) as Hl.
    destruct (Forall2_In_l _ _ _ _ HF Hj) as [row [Hrow Hl']].
    assert (row = snd kv) by congruence. subst row.
    destruct (H3 (fst kv) Hj) as [row' [Hl'' Hops]]. assert (row' = snd kv) by congruence. subst row'.
    assert (Hsch : forallb is_sched (snd kv) = true).
    { apply forallb_forall. intros p Hp. specialize (Hall kv p Hkv Hp). unfold is_sched.
      destruct (snd p); [reflexivity | contradiction]. }
    repeat split.
    - rewrite Forall_forall. intros p Hp. apply In_strip_fst in Hp. rewrite Hops in Hp.
      apply (wf_operation i (fst kv) (fst p) Hwf Hj Hp).
    - apply Hprec, Hrow.
    - intros Hnil. apply (f_equal (map fst)) in Hnil. rewrite (strip_fst _ Hsch), Hops in Hnil.
      unfold wf_instance in Hwf. rewrite !andb_true_iff, !forallb_forall in Hwf. destruct Hwf as [_ Hj'].
      specialize (Hj' (fst kv) Hj). unfold job_ok in Hj'. rewrite !andb_true_iff in Hj'.
      destruct Hj' as [[[[[_ Hlen] _] _] _] _]. destruct (job_ops (fst kv)); [discriminate Hlen | discriminate Hnil]. }
  destruct (mapM_Forall2 last_end s) as [ends [Eends HF2]].
  { intros kv Hkv. destruct (Hrow kv Hkv) as [_ [_ Hne]]. destruct (last_opt_Some _ Hne) as [p Ep].
    unfold last_end. rewrite Ep. eauto. }
  rewrite Eends. simpl.
  assert (Hs : s <> []).
  { destruct (inst_jobs i) as [|j js] eqn:Ej; [contradiction|]. intros ->.
    apply (H1 j). left; reflexivity. }
  assert (Hends : ends <> []).
  { intros ->. inversion HF2. subst. contradiction. }
  destruct (max_list_spec ends Hends) as [m [Em [Hm_in Hm_max]]]. rewrite Em.
  exists m. split; [reflexivity|]. unfold latest_end.
  set (all := map end_of (concat (map (fun kv => strip (snd kv)) s))).
  assert (Hmax : is_max all m).
  { split.
    - destruct (Forall2_In_r _ _ _ _ HF2 Hm_in) as [kv [Hkv Hle]].
      unfold last_end in Hle. destruct (last_opt (strip (snd kv))) as [p|] eqn:Ep; [|discriminate].
      inversion Hle; subst. apply in_map, in_concat. exists (strip (snd kv)). split.
      + apply (in_map (fun kv => strip (snd kv))), Hkv.
      + apply last_opt_In, Ep.
    - intros x Hx. apply in_map_iff in Hx as [q [<- Hq]]. apply in_concat in Hq as [srow [Hs' Hq]].
      apply in_map_iff in Hs' as [kv [<- Hkv]].
      destruct (Hrow kv Hkv) as [Hd [Hp Hne]].
      destruct (Forall2_In_l _ _ _ _ HF2 Hkv) as [y [Hy Hle]].
      unfold last_end in Hle. destruct (last_opt (strip (snd kv))) as [p|] eqn:Ep; [|discriminate].
      inversion Hle; subst. specialize (Hm_max _ Hy).
      pose proof (last_ends_last _ p Hd Hp Ep q Hq). lia. }
  destruct (max_list_spec all) as [m' [Em' Hm']].
  { destruct Hmax as [Hin _]. intros Hnil. rewrite Hnil in Hin. contradiction. }
  rewrite Em'. f_equal. apply (is_max_unique all); assumption.
Qed.

(* ------------------------------------------------------------------ constructors accept exactly the documented rules *)
From Coq Require Import FinFun.
Open Scope string_scope.

Lemma nonempty_spec s : nonempty s = true <-> s <> "".
Proof. unfold nonempty. rewrite negb_true_iff. apply String.eqb_neq. Qed.

Lemma machine_ok_spec n : machine_ok n = true <-> n <> "".
Proof. apply nonempty_spec. Qed.

Lemma operation_ok_spec o :
  operation_ok o = true <-> op_name o <> "" /\ op_job o <> "" /\ (1 <= op_dur o)%Z.
Proof.
  unfold operation_ok. rewrite !andb_true_iff, !nonempty_spec, Z.ltb_lt. intuition lia.
Qed.

Lemma append_inj_l s a b : s ++ a = s ++ b -> a = b.
Proof. induction s as [|c s IH]; simpl; intros H; [exact H | inversion H; auto]. Qed.

Lemma nodup_identifiers ops jn :
  (forall o, In o ops -> op_job o = jn) ->
  (NoDup (map op_identifier ops) <-> NoDup (map op_name ops)).
Proof.
  intros Hj.
  assert (E : map op_identifier ops = map (fun n => jn ++ "_" ++ n) (map op_name ops)).
  { rewrite map_map. apply map_ext_in. intros o Ho. unfold op_identifier. rewrite (Hj o Ho). reflexivity. }
  rewrite E. split.
  - apply NoDup_map_inv.
  - apply Injective_map_NoDup. intros x y H. apply append_inj_l in H. simpl in H. inversion H. reflexivity.
Qed.

Lemma job_ok_spec j :
  job_ok j = true <->
  job_name j <> "" /\ job_ops j <> [] /\ NoDup (map op_name (job_ops j)) /\
  (forall o, In o (job_ops j) -> op_job o = job_name j) /\ NoDup (map op_machine (job_ops j)).
Proof.
  unfold job_ok. rewrite !andb_true_iff, nonempty_spec, negb_true_iff, Nat.eqb_neq, !nodup_str_NoDup, forallb_forall.
  assert (Hlen : length (job_ops j) <> 0%nat <-> job_ops j <> []).
  { destruct (job_ops j); simpl; split; intros H; try congruence; discriminate. }
  rewrite Hlen. split.
  - intros [[[[Hn Hne] Hid] Hjob] Hm].
    assert (Hjob' : forall o, In o (job_ops j) -> op_job o = job_name j).
    { intros o Ho. apply String.eqb_eq, Hjob, Ho. }
    repeat split; auto. apply (nodup_identifiers _ _ Hjob'), Hid.
  - intros [Hn [Hne [Hid [Hjob Hm]]]]. repeat split; auto.
    + apply (nodup_identifiers _ _ Hjob), Hid.
    + intros o Ho. apply String.eqb_eq, Hjob, Ho.
Qed.

Lemma instance_ok_spec i :
  instance_ok i = true <->
  inst_name i <> "" /\ NoDup (inst_machines i) /\ NoDup (map job_name (inst_jobs i)) /\
  (forall j o, In j (inst_jobs i) -> In o (job_ops j) -> In (op_machine o) (inst_machines i)).
Proof.
  unfold instance_ok. rewrite !andb_true_iff, nonempty_spec, !nodup_str_NoDup, forallb_forall. split.
  - intros [[[Hn Hm] Hj] Ho]. repeat split; auto. intros j o Hj' Ho'.
    specialize (Ho j Hj'). rewrite forallb_forall in Ho. apply mem_str_In, Ho, Ho'.
  - intros [Hn [Hm [Hj Ho]]]. repeat split; auto. intros j Hj'. apply forallb_forall.
    intros o Ho'. apply mem_str_In, (Ho j o Hj' Ho').
Qed.

(* ------------------------------------------------------------------ non-vacuity: the 2x2 instance of the test-suite *)
Definition ex_op (n j m : string) (d : Z) := mkOp n j m d.
Definition ex_j1 := mkJob "j1" [ex_op "o1" "j1" "m1" 1; ex_op "o2" "j1" "m2" 2].
Definition ex_j2 := mkJob "j2" [ex_op "o1" "j2" "m2" 1; ex_op "o2" "j2" "m1" 1].
Definition ex_inst := mkInst "2x2" ["m1"; "m2"] [ex_j1; ex_j2].
Definition ex_sched (a b c d : option Z) : schedule :=
  [(ex_j2, [(ex_op "o1" "j2" "m2" 1, c); (ex_op "o2" "j2" "m1" 1, d)]);
   (ex_j1, [(ex_op "o1" "j1" "m1" 1, a); (ex_op "o2" "j1" "m2" 2, b)])].

Lemma ex_hypotheses :
  wf_instance ex_inst = true /\ inst_jobs ex_inst <> [] /\
  result_ok ex_inst (ex_sched (Some 0) (Some 1) (Some 0) (Some 1))%Z = true /\
  keys_nodup (ex_sched (Some 0) (Some 1) (Some 0) (Some 1))%Z /\
  is_valid_impl ex_inst (ex_sched (Some 0) (Some 1) (Some 0) (Some 1))%Z = Ok true /\
  makespan_impl ex_inst (ex_sched (Some 0) (Some 1) (Some 0) (Some 1))%Z = Ok (Some 3%Z) /\
  is_valid_impl ex_inst (ex_sched (Some 0) (Some 1) (Some 1) (Some 2))%Z = Ok false /\
  is_valid_impl ex_inst (ex_sched (Some 0) None (Some 0) (Some 1))%Z = Ok false.
Proof.
  repeat split; try (vm_compute; reflexivity); try discriminate.
  unfold keys_nodup. simpl. constructor.
  - intros [H|[]]. discriminate H.
  - constructor; [intros [] | constructor].
Qed.

(* ------------------------------------------------------------------ what ForallOrdPairs says, by positions *)
Lemma FOP_nth {A} (R : A -> A -> Prop) l :
  ForallOrdPairs R l <->
  (forall x y a b, (x < y)%nat -> nth_error l x = Some a -> nth_error l y = Some b -> R a b).
Proof.
  induction l as [|c l IH]; split.
  - intros _ x y a b _ H. destruct x; discriminate.
  - intros _. constructor.
  - intros H x y a b Hxy Ha Hb. apply FOP_inv in H as [Hc Hl].
    destruct y as [|y]; [lia|]. simpl in Hb. destruct x as [|x].
    + simpl in Ha. inversion Ha; subst. rewrite Forall_forall in Hc. apply Hc. eapply nth_error_In, Hb.
    + simpl in Ha. apply (proj1 IH Hl x y a b); [lia | exact Ha | exact Hb].
  - intros H. constructor.
    + rewrite Forall_forall. intros b Hb. apply In_nth_error in Hb as [y Hy].
      apply (H 0%nat (S y) c b); [lia | reflexivity | exact Hy].
    + apply IH. intros x y a b Hxy Ha Hb. apply (H (S x) (S y) a b); [lia | exact Ha | exact Hb].
Qed.
