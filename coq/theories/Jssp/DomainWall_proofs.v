(* Proofs about a single domain-wall variable: the monadic constructions return the pure forms of EncoderPure.v,
   their eigenvalues in terms of walls / anti-walls (DESIGN.md A.1), and the characterisation of value_from_bits. *)
From QV Require Import Jssp.EncoderPure.
From Coq Require Import Lqa Lia.
From Coq Require FinFun.
Open Scope Z_scope.
Open Scope list_scope.

(* ------------------------------------------------------------------ generic helpers *)
Lemma mapM_ok_map {A B} (f : A -> result B) (g : A -> B) (l : list A) :
  (forall x, In x l -> f x = Ok (g x)) -> mapM f l = Ok (map g l).
Proof.
  induction l as [|x xs IH]; simpl; intros H; [reflexivity|].
  rewrite (H x (or_introl eq_refl)). simpl. rewrite IH; [reflexivity|]. intros y Hy. apply H. right. exact Hy.
Qed.

Lemma zrange_length a n : List.length (zrange a n) = Z.to_nat n.
Proof. unfold zrange. rewrite map_length, seq_length. reflexivity. Qed.

Lemma zrange_In a n x : In x (zrange a n) <-> a <= x < a + n.
Proof.
  unfold zrange. rewrite in_map_iff. split.
  - intros [k [Hk Hin]]. apply in_seq in Hin. lia.
  - intros H. exists (Z.to_nat (x - a)). split; [lia|]. apply in_seq. lia.
Qed.

Lemma zrange_nth a n k : (k < Z.to_nat n)%nat -> nth_error (zrange a n) k = Some (a + Z.of_nat k).
Proof.
  intros H. unfold zrange. rewrite nth_error_map.
  assert (E : nth_error (seq 0 (Z.to_nat n)) k = Some k).
  { rewrite nth_error_nth' with (d := 0%nat); [|rewrite seq_length; exact H]. rewrite seq_nth; [reflexivity | exact H]. }
  rewrite E. reflexivity.
Qed.

Lemma zrange_NoDup a n : NoDup (zrange a n).
Proof.
  unfold zrange. apply FinFun.Injective_map_NoDup; [|apply seq_NoDup]. intros x y H. lia.
Qed.

(* ---- index_of *)
Lemma index_of_lt t l i : index_of t l = Some i -> (i < List.length l)%nat /\ nth_error l i = Some t.
Proof.
  revert i. induction l as [|x xs IH]; simpl; intros i H; [discriminate|].
  destruct (Z.eqb_spec x t).
  - inversion H; subst. split; [lia | reflexivity].
  - destruct (index_of t xs) as [k|]; [|discriminate]. simpl in H. inversion H; subst.
    destruct (IH k eq_refl). split; [lia | assumption].
Qed.

Lemma index_of_nth : forall l i t, NoDup l -> nth_error l i = Some t -> index_of t l = Some i.
Proof.
  induction l as [|x xs IH]; intros i t Hnd Hn.
  - destruct i; discriminate.
  - inversion Hnd as [|? ? Hnotin Hnd']; subst. destruct i as [|i]; simpl in *.
    + inversion Hn; subst. rewrite Z.eqb_refl. reflexivity.
    + destruct (Z.eqb_spec x t) as [->|_].
      * exfalso. apply Hnotin. eapply nth_error_In; eassumption.
      * rewrite (IH i t Hnd' Hn). reflexivity.
Qed.

Lemma index_of_In : forall t l, In t l -> exists i, index_of t l = Some i.
Proof.
  induction l as [|x xs IH]; simpl; intros H; [contradiction|].
  destruct (Z.eqb_spec x t); [eexists; reflexivity|].
  destruct H as [H|H]; [contradiction|]. destruct (IH H) as [i Hi]. rewrite Hi. eexists; reflexivity.
Qed.

Lemma index_of_zrange : forall a n t, a <= t < a + n -> index_of t (zrange a n) = Some (Z.to_nat (t - a)).
Proof.
  intros a n t H. apply index_of_nth; [apply zrange_NoDup|]. rewrite zrange_nth by lia. f_equal. lia.
Qed.

(* ---- sums and counts *)
Lemma zsign_ind x : zsign x == 1 - 2 * ind x.
Proof. destruct x; simpl; lra. Qed.

Lemma eval_OpSum es b : eval (OpSum es) b = fold_right (fun e acc => (eval e b + acc)%Q) 0%Q es.
Proof. reflexivity. Qed.

Lemma fold_sum_app (f : opexpr -> Q) l1 l2 :
  fold_right (fun e acc => (f e + acc)%Q) 0%Q (l1 ++ l2)
  == fold_right (fun e acc => (f e + acc)%Q) 0%Q l1 + fold_right (fun e acc => (f e + acc)%Q) 0%Q l2.
Proof. induction l1; simpl; [lra | rewrite IHl1; lra]. Qed.

Lemma count_true_cons x l : count_true (x :: l) = ((if x then 1 else 0) + count_true l)%nat.
Proof. unfold count_true. simpl. destruct x; reflexivity. Qed.

Lemma sum_ind_count (f : nat -> bool) l :
  fold_right (fun p acc => (ind (f p) + acc)%Q) 0%Q l == inject_Z (Z.of_nat (count_true (map f l))).
Proof.
  induction l as [|x xs IH]; [reflexivity|]. simpl map. rewrite count_true_cons. simpl fold_right. rewrite IH.
  rewrite Nat2Z.inj_add, inject_Z_plus. destruct (f x); unfold ind; change (inject_Z (Z.of_nat 1)) with 1%Q; change (inject_Z (Z.of_nat 0)) with 0%Q; lra.
Qed.

Lemma count_true_all_false {A} (f : A -> bool) l : (forall x, In x l -> f x = false) -> count_true (map f l) = 0%nat.
Proof.
  induction l as [|x xs IH]; intros H; [reflexivity|]. simpl map. rewrite count_true_cons.
  rewrite (H x (or_introl eq_refl)). rewrite IH; [reflexivity|]. intros y Hy. apply H. right. exact Hy.
Qed.

Lemma count_true_pos {A} (f : A -> bool) l x : In x l -> f x = true -> (1 <= count_true (map f l))%nat.
Proof.
  induction l as [|y ys IH]; intros Hin Hx; [contradiction|]. simpl map. rewrite count_true_cons.
  destruct Hin as [->|Hin]; [rewrite Hx; lia|]. specialize (IH Hin Hx). lia.
Qed.

(* ---- lists of bits *)
Lemma nth_skipn_add {A} (d : A) : forall s l i, nth i (skipn s l) d = nth (s + i) l d.
Proof.
  induction s as [|s IH]; intros l i; [reflexivity|]. destruct l as [|x l]; simpl; [destruct i; reflexivity | apply IH].
Qed.

Lemma nth_firstn_lt {A} (d : A) : forall n l i, (i < n)%nat -> nth i (firstn n l) d = nth i l d.
Proof.
  induction n as [|n IH]; intros l i H; [lia|]. destruct l as [|x l]; [reflexivity|].
  destruct i; simpl; [reflexivity | apply IH; lia].
Qed.

Lemma first_false_some : forall l d, first_false l = Some d ->
  (d < List.length l)%nat /\ nth d l false = false /\ firstn d l = repeat true d.
Proof.
  induction l as [|x xs IH]; simpl; intros d H; [discriminate|].
  destruct x.
  - destruct (first_false xs) as [k|]; [|discriminate]. simpl in H. inversion H; subst.
    destruct (IH k eq_refl) as [H1 [H2 H3]]. simpl. rewrite H3. repeat split; [lia | assumption].
  - inversion H; subst. simpl. repeat split. lia.
Qed.

Lemma first_false_none : forall l, first_false l = None -> l = repeat true (List.length l).
Proof.
  induction l as [|x xs IH]; simpl; intros H; [reflexivity|].
  destruct x; [|discriminate]. destruct (first_false xs); [discriminate|]. f_equal. apply IH. reflexivity.
Qed.

Lemma existsb_id_false : forall l, existsb (fun x : bool => x) l = false -> l = repeat false (List.length l).
Proof.
  induction l as [|x xs IH]; simpl; intros H; [reflexivity|]. destruct x; [discriminate|]. f_equal. apply IH. exact H.
Qed.

Lemma existsb_id_repeat_false k : existsb (fun x : bool => x) (repeat false k) = false.
Proof. induction k; simpl; auto. Qed.

Lemma first_false_pattern i k :
  first_false (repeat true i ++ repeat false k) = match k with O => None | S _ => Some i end.
Proof.
  induction i as [|i IH]; simpl.
  - destruct k; reflexivity.
  - rewrite IH. destruct k; reflexivity.
Qed.

Lemma skipn_pattern {A} (x y : A) i k : skipn i (repeat x i ++ repeat y k) = repeat y k.
Proof. induction i; simpl; auto. Qed.

Lemma nth_repeat_false k : forall p, nth p (repeat false k) false = false.
Proof. induction k as [|k IHk]; intros [|p]; simpl; auto. Qed.

Lemma nth_pattern i k : forall p, nth p (repeat true i ++ repeat false k) false = (p <? i)%nat.
Proof.
  induction i as [|i IH]; intros p; simpl.
  - rewrite nth_repeat_false. destruct p; reflexivity.
  - destruct p; [reflexivity|]. rewrite IH. reflexivity.
Qed.

(* a 0 followed later by a 1 contains "01" *)
Lemma rise_exists (f : nat -> bool) : forall j d, (d < j)%nat -> f d = false -> f j = true ->
  exists p, (d < p <= j)%nat /\ f (p - 1)%nat = false /\ f p = true.
Proof.
  induction j as [|j IH]; intros d Hd Hfd Hfj; [lia|].
  case_eq (f j); intros Fj.
  - assert (d <> j) by (intros ->; congruence).
    destruct (IH d ltac:(lia) Hfd Fj) as [p [Hp Hq]]. exists p. split; [lia | exact Hq].
  - exists (S j). split; [lia|]. simpl. rewrite Nat.sub_0_r. split; assumption.
Qed.

Lemma pis_ok nq : (1 <= nq)%nat -> pauli_identity_string nq = Ok OpI.
Proof. intros Hnq. unfold pauli_identity_string. destruct (Nat.ltb_spec nq 1); [lia | reflexivity]. Qed.

(* ------------------------------------------------------------------ eigenvalues of the pure forms (any variable, any state) *)
Section OneVariableEval.
Variable v : dwvar.

Let n := var_nq v.

Lemma zd_e_eval b i : -1 <= i <= Z.of_nat n -> eval (zd_e v i) b == zsign (vbit v b i).
Proof.
  intros Hi. unfold zd_e, vbit. fold n.
  destruct (Z.eqb_spec i (-1)).
  - subst. simpl. reflexivity.
  - destruct (Z.ltb_spec i 0); [lia|]. destruct (Z.eqb_spec i (Z.of_nat n)).
    + destruct (Z.ltb_spec i (Z.of_nat n)); [lia|]. simpl. reflexivity.
    + destruct (Z.ltb_spec i (Z.of_nat n)); [|lia]. simpl. reflexivity.
Qed.

Lemma value_term_p_eval b i : (i <= n)%nat -> eval (value_term_p v i) b == vt_val v b i.
Proof.
  intros Hi. unfold value_term_p, vt_val, wall, antiwall. fold n.
  destruct (Nat.eqb_spec n 0) as [E|E].
  - assert (i = 0)%nat by lia. subst i. unfold vbit. fold n. rewrite E. simpl. lra.
  - cbn [eval OpSub]. rewrite !zd_e_eval by lia.
    destruct (vbit v b (Z.of_nat i - 1)), (vbit v b (Z.of_nat i)); simpl; lra.
Qed.

(* transitions: position p (0..n) is a wall or an anti-wall iff bits p-1 and p differ *)
Lemma vlocal_p_eval b i : -1 <= i < Z.of_nat n ->
  eval (vlocal_p v i) b == ind (wall v b (Z.to_nat (i + 1))) + ind (antiwall v b (Z.to_nat (i + 1))).
Proof.
  intros Hi. unfold vlocal_p, wall, antiwall. cbn [eval OpSub]. rewrite !zd_e_eval by lia.
  replace (Z.of_nat (Z.to_nat (i + 1)) - 1) with i by lia.
  replace (Z.of_nat (Z.to_nat (i + 1))) with (i + 1) by lia.
  destruct (vbit v b i), (vbit v b (i + 1)); simpl; lra.
Qed.

(* telescoping: walls minus anti-walls over positions 0..m is bit(-1) - bit(m) *)
Lemma telescope b m :
  fold_right (fun p acc => (vt_val v b p + acc)%Q) 0%Q (seq 0 (S m)) == ind (vbit v b (-1)) - ind (vbit v b (Z.of_nat m)).
Proof.
  induction m as [|m IH].
  - simpl. unfold vt_val, wall, antiwall. simpl. destruct (vbit v b (-1)), (vbit v b 0); simpl; lra.
  - rewrite seq_S. rewrite fold_right_app. simpl fold_right at 2.
    assert (G : forall l x, fold_right (fun p acc => (vt_val v b p + acc)%Q) x l == fold_right (fun p acc => (vt_val v b p + acc)%Q) 0%Q l + x).
    { induction l; intros; simpl; [lra | rewrite IHl; lra]. }
    rewrite G, IH. simpl plus. unfold vt_val, wall, antiwall.
    replace (Z.of_nat (S m) - 1) with (Z.of_nat m) by lia.
    destruct (vbit v b (Z.of_nat m)), (vbit v b (Z.of_nat (S m))); simpl; lra.
Qed.

Lemma walls_antiwalls b : n_walls v b = S (n_antiwalls v b).
Proof.
  pose proof (telescope b n) as T.
  assert (E1 : vbit v b (-1) = true) by reflexivity.
  assert (E2 : vbit v b (Z.of_nat n) = false).
  { unfold vbit. fold n. destruct (Z.ltb_spec (Z.of_nat n) 0); [lia|]. destruct (Z.ltb_spec (Z.of_nat n) (Z.of_nat n)); [lia | reflexivity]. }
  rewrite E1, E2 in T. change (ind true) with 1%Q in T. change (ind false) with 0%Q in T.
  assert (S1 : fold_right (fun p acc => (vt_val v b p + acc)%Q) 0%Q (seq 0 (S n))
               == inject_Z (Z.of_nat (n_walls v b)) - inject_Z (Z.of_nat (n_antiwalls v b))).
  { unfold n_walls, n_antiwalls. fold n. rewrite <- !sum_ind_count. unfold vt_val.
    generalize (seq 0 (S n)). induction l; simpl; [lra | rewrite IHl; lra]. }
  rewrite S1 in T.
  assert (Z.of_nat (n_walls v b) - Z.of_nat (n_antiwalls v b) = 1).
  { apply (proj1 (inject_Z_injective _ _)). unfold Z.sub. rewrite inject_Z_plus, inject_Z_opp.
    change (inject_Z 1) with 1%Q. lra. }
  lia.
Qed.

Lemma viability_p_eval b : eval (viability_p v) b == inject_Z (2 * Z.of_nat (n_antiwalls v b)).
Proof.
  unfold viability_p. fold n. destruct (Nat.eqb_spec n 0) as [E|E].
  - assert (A : n_antiwalls v b = 0%nat).
    { unfold n_antiwalls. fold n. rewrite E. cbn [seq map]. unfold antiwall.
      change (vbit v b (Z.of_nat 0 - 1)) with true. reflexivity. }
    rewrite A. cbn [eval]. change (inject_Z (2 * Z.of_nat 0)) with 0%Q. lra.
  - rewrite eval_OpSum, fold_sum_app. simpl fold_right at 2. cbn [eval].
    assert (S1 : fold_right (fun e acc => (eval e b + acc)%Q) 0%Q (map (vlocal_p v) (zrange (-1) (Z.of_nat n + 1)))
                 == inject_Z (Z.of_nat (n_walls v b)) + inject_Z (Z.of_nat (n_antiwalls v b))).
    { unfold n_walls, n_antiwalls. fold n. rewrite <- !sum_ind_count. unfold zrange.
      replace (Z.to_nat (Z.of_nat n + 1)) with (S n) by lia.
      assert (G : forall l, (forall p, In p l -> (p <= n)%nat) ->
                fold_right (fun e acc => (eval e b + acc)%Q) 0%Q (map (vlocal_p v) (map (fun k => -1 + Z.of_nat k) l))
                == fold_right (fun p acc => (ind (wall v b p) + acc)%Q) 0%Q l + fold_right (fun p acc => (ind (antiwall v b p) + acc)%Q) 0%Q l).
      { induction l as [|p l IH]; intros Hl; cbn [map fold_right]; [lra|].
        rewrite IH by (intros; apply Hl; right; assumption).
        rewrite vlocal_p_eval by (specialize (Hl p (or_introl eq_refl)); lia).
        replace (Z.to_nat (-1 + Z.of_nat p + 1)) with p by lia. lra. }
      apply G. intros p Hp. apply in_seq in Hp. lia. }
    rewrite S1. rewrite (walls_antiwalls b).
    rewrite Nat2Z.inj_succ. unfold Z.succ. rewrite inject_Z_plus, inject_Z_mult.
    change (inject_Z 1) with 1%Q. change (inject_Z 2) with 2%Q. lra.
Qed.

(* indicator facts for the charging argument *)
Lemma wall_antiwall_excl b p : wall v b p && antiwall v b p = false.
Proof. unfold wall, antiwall. destruct (vbit v b (Z.of_nat p - 1)), (vbit v b (Z.of_nat p)); reflexivity. Qed.

Lemma sum_antiwalls b :
  fold_right (fun p acc => (ind (antiwall v b p) + acc)%Q) 0%Q (seq 0 (S (var_nq v))) == inject_Z (Z.of_nat (n_antiwalls v b)).
Proof. unfold n_antiwalls. apply sum_ind_count. Qed.

Lemma sum_walls b :
  fold_right (fun p acc => (ind (wall v b p) + acc)%Q) 0%Q (seq 0 (S (var_nq v))) == inject_Z (Z.of_nat (n_walls v b)).
Proof. unfold n_walls. apply sum_ind_count. Qed.

End OneVariableEval.

(* ------------------------------------------------------------------ the monadic constructions return the pure forms *)
Section OneVariable.
Variable v : dwvar.
Variable nq : nat.
Hypothesis Hnq : (1 <= nq)%nat.
Hypothesis Hwf : var_wf v nq.

Let n := var_nq v.

Lemma z_dash_ok i : -1 <= i <= Z.of_nat n -> z_dash v i nq = Ok (zd_e v i).
Proof.
  intros Hi. unfold z_dash, zd_e. fold n.
  destruct (Z.ltb_spec i (-1)); [lia|]. destruct (Z.ltb_spec (Z.of_nat n) i); [lia|]. simpl.
  destruct (Z.eqb_spec i (-1)); [rewrite (pis_ok nq Hnq); reflexivity|].
  destruct (Z.eqb_spec i (Z.of_nat n)); [apply (pis_ok nq Hnq)|].
  unfold pauli_z_string. destruct (Nat.ltb_spec nq 1); [lia|].
  destruct Hwf as [_ [_ Hfit]]. fold n in Hfit.
  destruct (Nat.ltb_spec (v_start v + Z.to_nat i) nq); [reflexivity | lia].
Qed.

Lemma zd_e_below i : -1 <= i <= Z.of_nat n -> qubits_below nq (zd_e v i) = true.
Proof.
  intros Hi. unfold zd_e. fold n. destruct (Z.eqb_spec i (-1)); [reflexivity|].
  destruct (Z.eqb_spec i (Z.of_nat n)); [reflexivity|]. simpl.
  destruct Hwf as [_ [_ Hfit]]. fold n in Hfit. apply Nat.ltb_lt. lia.
Qed.

(* ---- value_term *)
Lemma value_term_ok t i : index_of t (v_values v) = Some i -> value_term v t nq = Ok (value_term_p v i).
Proof.
  intros Hi. unfold value_term, value_term_p. rewrite Hi. fold n.
  destruct (Nat.eqb_spec n 0); [apply (pis_ok nq Hnq)|].
  apply index_of_lt in Hi as [Hlt _].
  assert (Hn : (i <= n)%nat) by (unfold n, var_nq; lia).
  rewrite z_dash_ok by lia. simpl. rewrite z_dash_ok by lia. reflexivity.
Qed.

Lemma value_term_p_below i : (i <= n)%nat -> qubits_below nq (value_term_p v i) = true.
Proof.
  intros Hi. unfold value_term_p. fold n. destruct (n =? 0)%nat; [reflexivity|].
  simpl. rewrite !zd_e_below by lia. reflexivity.
Qed.

(* ---- viability_term *)
Lemma viability_term_ok : viability_term v nq = Ok (viability_p v).
Proof.
  unfold viability_term, viability_p. fold n.
  destruct (Nat.eqb_spec n 0); [rewrite (pis_ok nq Hnq); reflexivity|].
  rewrite (mapM_ok_map _ (vlocal_p v)).
  - simpl. rewrite (pis_ok nq Hnq). simpl. destruct (map _ _ ++ _) eqn:E; [|reflexivity].
    apply app_eq_nil in E as [_ E]. discriminate.
  - intros i Hin. apply zrange_In in Hin. unfold viability_local, vlocal_p.
    rewrite (pis_ok nq Hnq). simpl. rewrite z_dash_ok by lia. simpl. rewrite z_dash_ok by lia. reflexivity.
Qed.

Lemma viability_p_below : qubits_below nq (viability_p v) = true.
Proof.
  unfold viability_p. fold n. destruct (n =? 0)%nat; [reflexivity|].
  simpl. rewrite forallb_app. simpl. rewrite andb_true_r. apply forallb_forall.
  intros e He. apply in_map_iff in He as [i [<- Hin]]. apply zrange_In in Hin.
  simpl. rewrite !zd_e_below by lia. reflexivity.
Qed.

End OneVariable.

(* ------------------------------------------------------------------ decoding: value_from_bits on the bits of a state *)
Lemma var_bits_length v bl :
  (v_start v + var_nq v <= List.length bl)%nat -> List.length (var_bits v bl) = var_nq v.
Proof. intros H. unfold var_bits. rewrite firstn_length, skipn_length. lia. Qed.

Lemma vbit_var_bits v bl : (v_start v + var_nq v <= List.length bl)%nat ->
  forall i, (i < var_nq v)%nat -> vbit v (state_of bl) (Z.of_nat i) = nth i (var_bits v bl) false.
Proof.
  intros _ i Hi. unfold vbit, state_of, var_bits.
  destruct (Z.ltb_spec (Z.of_nat i) 0); [lia|]. destruct (Z.ltb_spec (Z.of_nat i) (Z.of_nat (var_nq v))); [|lia].
  rewrite Nat2Z.id. rewrite nth_firstn_lt by exact Hi. rewrite nth_skipn_add. reflexivity.
Qed.

(* the position d of the first 0 (n_qubits if there is none): the bits before it are 1, the bit at d (if any) is 0 *)
Lemma vfb_cases v bl : (v_start v + var_nq v <= List.length bl)%nat ->
  exists d, (d <= var_nq v)%nat
    /\ firstn d (var_bits v bl) = repeat true d
    /\ ((d < var_nq v)%nat -> nth d (var_bits v bl) false = false)
    /\ value_from_bits v bl =
       if existsb (fun x => x) (skipn d (var_bits v bl)) then Ok None
       else match nth_error (v_values v) d with Some t => Ok (Some t) | None => Err IndexError end.
Proof.
  intros Hlen. pose proof (var_bits_length v bl Hlen) as L. unfold value_from_bits. cbv zeta.
  destruct (first_false (var_bits v bl)) as [d|] eqn:F.
  - apply first_false_some in F as [F1 [F2 F3]]. exists d. repeat split; [lia | exact F3 | intros _; exact F2].
  - apply first_false_none in F. exists (var_nq v). repeat split; [lia | | lia].
    rewrite <- L at 1. rewrite firstn_all. rewrite F at 1. rewrite L. reflexivity.
Qed.

Lemma value_from_bits_total v nq bl : var_wf v nq -> (v_start v + var_nq v <= List.length bl)%nat ->
  exists r, value_from_bits v bl = Ok r.
Proof.
  intros [Hne _] Hlen. destruct (vfb_cases v bl Hlen) as [d [Hd [_ [_ Hv]]]]. rewrite Hv.
  destruct (existsb _ _); [eexists; reflexivity|].
  destruct (nth_error (v_values v) d) eqn:E; [eexists; reflexivity|].
  apply nth_error_None in E. unfold var_nq in Hd. lia.
Qed.

Lemma decoded_pattern v nq bl : var_wf v nq -> (v_start v + var_nq v <= List.length bl)%nat ->
  forall t, value_from_bits v bl = Ok (Some t) ->
  exists i, (i <= var_nq v)%nat /\ nth_error (v_values v) i = Some t /\ index_of t (v_values v) = Some i
            /\ var_bits v bl = repeat true i ++ repeat false (var_nq v - i).
Proof.
  intros [_ [Hnd _]] Hlen t H. destruct (vfb_cases v bl Hlen) as [d [Hd [Hf [_ Hv]]]]. rewrite Hv in H.
  destruct (existsb _ _) eqn:E; [discriminate|].
  destruct (nth_error (v_values v) d) as [t'|] eqn:N; [|discriminate]. inversion H; subst t'.
  exists d. repeat split; [exact Hd | exact N | apply index_of_nth; assumption |].
  apply existsb_id_false in E. rewrite skipn_length, (var_bits_length v bl Hlen) in E.
  rewrite <- (firstn_skipn d (var_bits v bl)) at 1. rewrite Hf, E. reflexivity.
Qed.

Lemma pattern_decodes v bl : (v_start v + var_nq v <= List.length bl)%nat ->
  forall i t, (i <= var_nq v)%nat -> nth_error (v_values v) i = Some t ->
  var_bits v bl = repeat true i ++ repeat false (var_nq v - i) -> value_from_bits v bl = Ok (Some t).
Proof.
  intros _ i t Hi Hn Hpat. unfold value_from_bits. cbv zeta. rewrite Hpat, first_false_pattern.
  destruct (var_nq v - i)%nat as [|k] eqn:K.
  - assert (E : var_nq v = i) by lia. rewrite E.
    rewrite (skipn_pattern true false i 0), existsb_id_repeat_false, Hn. reflexivity.
  - rewrite (skipn_pattern true false i (S k)), existsb_id_repeat_false, Hn. reflexivity.
Qed.

(* on the pattern 1^i 0^(n-i), the (virtual) bit at position k is 1 exactly when k < i *)
Lemma vbit_pattern v bl i : (v_start v + var_nq v <= List.length bl)%nat -> (i <= var_nq v)%nat ->
  var_bits v bl = repeat true i ++ repeat false (var_nq v - i) ->
  forall k, -1 <= k <= Z.of_nat (var_nq v) -> vbit v (state_of bl) k = (k <? Z.of_nat i).
Proof.
  intros Hlen Hi Hpat k Hk. destruct (Z.ltb_spec k 0) as [Hneg|Hpos].
  - unfold vbit. destruct (Z.ltb_spec k 0); [|lia]. destruct (Z.ltb_spec k (Z.of_nat i)); [reflexivity | lia].
  - destruct (Z.ltb_spec k (Z.of_nat (var_nq v))) as [Hlt|Hge].
    + remember (Z.to_nat k) as j eqn:Ej. assert (Ek : k = Z.of_nat j) by lia. subst k.
      rewrite (vbit_var_bits v bl Hlen j) by lia. rewrite Hpat, nth_pattern.
      destruct (Nat.ltb_spec j i), (Z.ltb_spec (Z.of_nat j) (Z.of_nat i)); try reflexivity; lia.
    + unfold vbit. destruct (Z.ltb_spec k 0); [lia|]. destruct (Z.ltb_spec k (Z.of_nat (var_nq v))); [lia|].
      destruct (Z.ltb_spec k (Z.of_nat i)); [lia | reflexivity].
Qed.

Lemma decoded_walls v nq bl : var_wf v nq -> (v_start v + var_nq v <= List.length bl)%nat ->
  forall t i, value_from_bits v bl = Ok (Some t) -> index_of t (v_values v) = Some i ->
  forall p, (p <= var_nq v)%nat ->
  wall v (state_of bl) p = Nat.eqb p i /\ antiwall v (state_of bl) p = false.
Proof.
  intros Hwf Hlen t i Hv Hidx p Hp.
  destruct (decoded_pattern v nq bl Hwf Hlen t Hv) as [i' [Hi' [_ [Hidx' Hpat]]]].
  rewrite Hidx in Hidx'. inversion Hidx'; subst i'. unfold wall, antiwall.
  rewrite (vbit_pattern v bl i Hlen Hi' Hpat (Z.of_nat p - 1)) by lia.
  rewrite (vbit_pattern v bl i Hlen Hi' Hpat (Z.of_nat p)) by lia.
  destruct (Z.ltb_spec (Z.of_nat p - 1) (Z.of_nat i)), (Z.ltb_spec (Z.of_nat p) (Z.of_nat i)), (Nat.eqb_spec p i);
    simpl; split; try reflexivity; lia.
Qed.

Lemma decoded_vt_val v nq bl : var_wf v nq -> (v_start v + var_nq v <= List.length bl)%nat ->
  forall t i, value_from_bits v bl = Ok (Some t) -> index_of t (v_values v) = Some i ->
  forall p, (p <= var_nq v)%nat -> vt_val v (state_of bl) p == ind (Nat.eqb p i).
Proof.
  intros Hwf Hlen t i Hv Hidx p Hp. destruct (decoded_walls v nq bl Hwf Hlen t i Hv Hidx p Hp) as [W A].
  unfold vt_val. rewrite W, A. change (ind false) with 0%Q. lra.
Qed.

Lemma decoded_no_antiwall v nq bl : var_wf v nq -> (v_start v + var_nq v <= List.length bl)%nat ->
  forall t, value_from_bits v bl = Ok (Some t) -> n_antiwalls v (state_of bl) = 0%nat.
Proof.
  intros Hwf Hlen t Hv. destruct (decoded_pattern v nq bl Hwf Hlen t Hv) as [i [_ [_ [Hidx _]]]].
  unfold n_antiwalls. apply count_true_all_false. intros p Hp. apply in_seq in Hp.
  apply (decoded_walls v nq bl Hwf Hlen t i Hv Hidx p). lia.
Qed.

Lemma undecoded_antiwall v bl : (v_start v + var_nq v <= List.length bl)%nat ->
  value_from_bits v bl = Ok None -> (1 <= n_antiwalls v (state_of bl))%nat.
Proof.
  intros Hlen Hv. destruct (vfb_cases v bl Hlen) as [d [Hd [_ [Hnd Hval]]]]. rewrite Hval in Hv.
  destruct (existsb _ _) eqn:E; [|destruct (nth_error (v_values v) d); discriminate].
  apply existsb_exists in E as [x [Hin Hx]]. subst x.
  apply In_nth with (d := false) in Hin as [k [Hk Hnk]].
  rewrite nth_skipn_add in Hnk. rewrite skipn_length, (var_bits_length v bl Hlen) in Hk.
  assert (Hd' : (d < var_nq v)%nat) by lia. specialize (Hnd Hd').
  assert (Hk0 : k <> 0%nat). { intros ->. rewrite Nat.add_0_r in Hnk. congruence. }
  destruct (rise_exists (fun q => vbit v (state_of bl) (Z.of_nat q)) (d + k) d) as [p [Hp [Hp0 Hp1]]].
  - lia.
  - rewrite (vbit_var_bits v bl Hlen d) by lia. exact Hnd.
  - rewrite (vbit_var_bits v bl Hlen (d + k)) by lia. exact Hnk.
  - unfold n_antiwalls. apply (count_true_pos _ _ p); [apply in_seq; lia|].
    unfold antiwall. replace (Z.of_nat p - 1) with (Z.of_nat (p - 1)) by lia. rewrite Hp0, Hp1. reflexivity.
Qed.

(* ------------------------------------------------------------------ the statements of C01 about one variable *)
Lemma C01_value_term_eigen_l : forall v nq t i b, (1 <= nq)%nat -> var_wf v nq ->
  index_of t (v_values v) = Some i ->
  exists e, value_term v t nq = Ok e /\ eval e b == vt_val v b i /\ qubits_below nq e = true.
Proof.
  intros v nq t i b Hnq Hwf Hidx. exists (value_term_p v i).
  assert (Hi : (i <= var_nq v)%nat). { apply index_of_lt in Hidx as [Hlt _]. unfold var_nq. lia. }
  repeat split.
  - apply value_term_ok; assumption.
  - apply value_term_p_eval. exact Hi.
  - apply value_term_p_below; assumption.
Qed.

Lemma C01_viability_eigen_l : forall v nq b, (1 <= nq)%nat -> var_wf v nq ->
  exists e, viability_term v nq = Ok e /\ eval e b == inject_Z (2 * (Z.of_nat (n_walls v b) - 1))
            /\ qubits_below nq e = true /\ n_walls v b = S (n_antiwalls v b).
Proof.
  intros v nq b Hnq Hwf. exists (viability_p v). repeat split.
  - apply viability_term_ok; assumption.
  - rewrite (walls_antiwalls v b).
    replace (2 * (Z.of_nat (S (n_antiwalls v b)) - 1)) with (2 * Z.of_nat (n_antiwalls v b)) by lia.
    apply viability_p_eval.
  - apply viability_p_below; assumption.
  - apply walls_antiwalls.
Qed.

Lemma C01_viability_zero_iff_l : forall v nq bl, (1 <= nq)%nat -> var_wf v nq ->
  (v_start v + var_nq v <= List.length bl)%nat ->
  (n_walls v (state_of bl) = 1%nat <-> exists t, value_from_bits v bl = Ok (Some t)).
Proof.
  intros v nq bl _ Hwf Hlen. pose proof (walls_antiwalls v (state_of bl)) as W. split.
  - intros H1. destruct (value_from_bits_total v nq bl Hwf Hlen) as [[t|] Hr]; [exists t; exact Hr|].
    pose proof (undecoded_antiwall v bl Hlen Hr). lia.
  - intros [t Ht]. rewrite W, (decoded_no_antiwall v nq bl Hwf Hlen t Ht). reflexivity.
Qed.

Print Assumptions C01_value_term_eigen_l.
Print Assumptions C01_viability_eigen_l.
Print Assumptions C01_viability_zero_iff_l.
