(* The cached result object answers every query sequence like the cache-free functions. *)
From QV Require Import Jssp.Valid Jssp.Valid_proofs Jssp.ResultObj.
Open Scope Z_scope.

Definition cache_ok (b : bool) (mk : option Z) (c : rcache) : Prop :=
  (forall b', c_valid c = Some b' -> b' = b) /\ (forall m, c_mk c = Some m -> b = true /\ mk = Some m).

Lemma cache0_ok b mk : cache_ok b mk cache0.
Proof. split; intros x H; discriminate H. Qed.

Lemma q_is_valid_ok i s b mk c :
  is_valid_impl i s = Ok b -> cache_ok b mk c ->
  exists c', q_is_valid i s c = Ok (b, c') /\ cache_ok b mk c' /\ c_valid c' = Some b /\ c_mk c' = c_mk c.
Proof.
  intros Hvalid Hc. unfold q_is_valid. destruct (c_valid c) as [b'|] eqn:E.
  - assert (b' = b) by (apply (proj1 Hc); exact E). subst b'.
    exists c. split; [reflexivity|]. split; [exact Hc|]. split; [exact E | reflexivity].
  - rewrite Hvalid. simpl. eexists; split; [reflexivity|]. split; [|split; reflexivity].
    split; simpl.
    + intros b' H; inversion H; reflexivity.
    + apply Hc.
Qed.

Lemma step_ok i s b mk c q :
  is_valid_impl i s = Ok b -> makespan_impl i s = Ok mk -> cache_ok b mk c ->
  exists a c', step i s c q = Ok (a, c') /\ pure_answer i s q = Ok a /\ cache_ok b mk c'.
Proof.
  intros Hvalid Hmk Hc.
  destruct (q_is_valid_ok i s b mk c Hvalid Hc) as [c1 [E [Hc1 [Ev Em]]]].
  destruct q; simpl.
  - rewrite E. simpl. exists (AValid b), c1. rewrite Hvalid. simpl. auto.
  - (* makespan *)
    unfold q_makespan. rewrite E. simpl.
    unfold makespan_impl in Hmk |- *. rewrite Hvalid in Hmk |- *. simpl in Hmk |- *.
    destruct b; simpl in Hmk |- *.
    + destruct (c_mk c1) as [m|] eqn:Ec.
      * destruct (proj2 Hc1 m Ec) as [_ ->]. exists (AMakespan (Some m)), c1.
        rewrite Hmk. simpl. auto.
      * unfold q_accessor, q_is_valid. rewrite Ev. simpl.
        destruct (mapM _ s) as [ends|e]; simpl in Hmk |- *; [|discriminate].
        destruct (max_list ends) as [m|]; [|discriminate]. inversion Hmk; subst mk.
        exists (AMakespan (Some m)), (mkCache (c_valid c1) (Some m)).
        split; [reflexivity|]. split; [reflexivity|]. split; simpl.
        -- apply Hc1.
        -- intros m' H; inversion H; auto.
    + exists (AMakespan None), c1. inversion Hmk; subst. auto.
  - (* accessor *)
    unfold q_accessor. rewrite E. simpl.
    exists (AAccessor (negb b)), c1. unfold valid_schedule_impl. rewrite Hvalid. simpl.
    destruct b; simpl; auto.
Qed.

Lemma run_queries_pure i s b mk qs :
  is_valid_impl i s = Ok b -> makespan_impl i s = Ok mk ->
  forall c, cache_ok b mk c -> run_queries i s c qs = mapM (pure_answer i s) qs.
Proof.
  intros Hvalid Hmk. induction qs as [|q qs IH]; intros c Hc; simpl; [reflexivity|].
  destruct (step_ok i s b mk c q Hvalid Hmk Hc) as [a [c' [E [P Hc']]]]. rewrite E, P. simpl.
  rewrite (IH c' Hc'). reflexivity.
Qed.

(* For every accepted result object, any sequence of property reads on one object returns what the cache-free
   functions return (which C19_verdict / C19_makespan / C19_accessor tie to the JSSP definition). *)
Lemma result_object_sequences i s qs :
  wf_instance i = true -> result_ok i s = true -> keys_nodup s -> inst_jobs i <> [] ->
  run_queries i s cache0 qs = mapM (pure_answer i s) qs.
Proof.
  intros Hwf Hres Hnd Hj.
  destruct (is_valid_impl_verdict i s Hwf Hres) as [b [Eb Hb]].
  destruct (makespan_impl_spec i s Hwf Hres Hnd Hj) as [Hv Hn].
  assert (exists mk, makespan_impl i s = Ok mk) as [mk Emk].
  { destruct b.
    - destruct Hv as [m [E _]]; [apply Hb; reflexivity|]. eauto.
    - exists None. apply Hn. intros H. apply Hb in H. discriminate. }
  apply (run_queries_pure i s b mk qs Eb Emk). apply cache0_ok.
Qed.

(* What an accepted result object holds: `result.schedule[j]` is, for every job of the instance, the row the caller
   passed under that job, it wraps exactly that job's operations in order, every key the caller passed reads back
   its own row, and the valid-schedule accessor hands out that same mapping. *)
Lemma stored_schedule_matches i s :
  result_ok i s = true -> keys_nodup s ->
  (forall j, In j (inst_jobs i) ->
     exists row, schedule_of_job i s j = Some row /\ map fst row = job_ops j /\ In (j, row) s) /\
  (forall kv, In kv s -> schedule_of_job i s (fst kv) = Some (snd kv) /\ In (fst kv) (inst_jobs i)) /\
  (forall s', valid_schedule_impl i s = Ok s' -> s' = s).
Proof.
  intros Hres Hnd. pose proof Hres as Hspec. apply result_ok_spec in Hspec as [H1 [H2 H3]]. repeat split.
  - intros j Hj. destruct (H3 j Hj) as [row [Hl Hops]]. exists row. repeat split; try assumption.
    apply H1 in Hj. apply in_map_iff in Hj as [[j' row'] [Ej Hin]]. simpl in Ej. subst j'.
    pose proof (sched_lookup_own s (j, row') Hnd Hin) as Hown. simpl in Hown.
    unfold schedule_of_job, stored_schedule in *. rewrite Hown in Hl. inversion Hl; subst. exact Hin.
  - apply sched_lookup_own; assumption.
  - apply H2; assumption.
  - intros s'. unfold valid_schedule_impl. destruct (is_valid_impl i s) as [[|]|e]; simpl; intros E; inversion E; reflexivity.
Qed.
