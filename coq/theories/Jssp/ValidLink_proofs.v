(* Link between the JSSP specification `valid_spec` (Jssp/Valid.v) and the violation counts `n_prec` / `n_ov` and the
   makespan `makespan_of` (Jssp/Energy.v), for schedules in the shape the encoder's decoder produces.
   Self-contained: depends on the model files only (not on Valid_proofs.v).  Helper lemmas carry the prefix vl_. *)
From QV Require Import Jssp.Energy.
From Coq Require Import Lia.
Open Scope list_scope.

(* the decoder's output shape: one row per job in instance order, each row lists the job's operations in order *)
Definition shaped (I : instance) (s : schedule) : Prop :=
  map fst s = inst_jobs I /\ Forall2 (fun j row => map fst row = job_ops j) (inst_jobs I) (map snd s).

(* ------------------------------------------------------------------ structural equality is reflexive *)
Lemma vl_op_eqb_refl o : op_eqb o o = true.
Proof. unfold op_eqb. rewrite !String.eqb_refl, Z.eqb_refl. reflexivity. Qed.

Lemma vl_list_eqb_refl {A} (e : A -> A -> bool) :
  (forall x, e x x = true) -> forall l, list_eqb e l l = true.
Proof. intros H l; induction l as [|x xs IH]; simpl; [reflexivity|]. rewrite H, IH. reflexivity. Qed.

Lemma vl_job_eqb_refl j : job_eqb j j = true.
Proof. unfold job_eqb. rewrite String.eqb_refl, (vl_list_eqb_refl op_eqb vl_op_eqb_refl). reflexivity. Qed.

Lemma vl_job_eqb_names a b : job_name a <> job_name b -> job_eqb a b = false.
Proof.
  intros H. unfold job_eqb. destruct (String.eqb (job_name a) (job_name b)) eqn:E; [|reflexivity].
  apply String.eqb_eq in E. contradiction.
Qed.

(* ------------------------------------------------------------------ well-formedness facts *)
Lemma vl_wf_nodup_names I : wf_instance I = true -> NoDup (map job_name (inst_jobs I)).
Proof.
  unfold wf_instance, instance_ok. rewrite !andb_true_iff. intros [[[[[_ _] H] _] _] _].
  apply nodup_str_NoDup. exact H.
Qed.

Lemma vl_wf_job I j : wf_instance I = true -> In j (inst_jobs I) ->
  job_ops j <> [] /\ forall o, In o (job_ops j) -> 0 < op_dur o.
Proof.
  unfold wf_instance. rewrite !andb_true_iff. intros [_ H] Hin.
  rewrite forallb_forall in H. specialize (H j Hin). apply andb_true_iff in H as [Hj Ho]. split.
  - unfold job_ok in Hj. rewrite !andb_true_iff in Hj. destruct Hj as [[[[_ Hl] _] _] _].
    intros E. rewrite E in Hl. discriminate.
  - intros o Hino. rewrite forallb_forall in Ho. specialize (Ho o Hino).
    apply andb_true_iff in Ho as [Ho _]. unfold operation_ok in Ho. rewrite !andb_true_iff in Ho.
    destruct Ho as [_ Hd]. apply Z.ltb_lt in Hd. exact Hd.
Qed.

(* ------------------------------------------------------------------ looking up the rows *)
Lemma vl_sched_lookup_own (s : schedule) kv :
  NoDup (map job_name (map fst s)) -> In kv s -> sched_lookup s (fst kv) = Some (snd kv).
Proof.
  unfold sched_lookup. induction s as [|kv0 t IH]; simpl; intros Hnd Hin; [contradiction|].
  inversion Hnd as [|? ? Hn Hd]; subst. destruct Hin as [->|Hin].
  - rewrite vl_job_eqb_refl. reflexivity.
  - rewrite vl_job_eqb_names.
    + apply IH; assumption.
    + intros E. apply Hn. rewrite E. apply in_map. apply in_map. exact Hin.
Qed.

Lemma vl_lookup_rows_sub (s s' : schedule) :
  NoDup (map job_name (map fst s)) -> incl s' s -> lookup_rows s (map fst s') = Some (map snd s').
Proof.
  intros Hnd. induction s' as [|kv t IH]; simpl; intros Hin; [reflexivity|].
  rewrite (vl_sched_lookup_own s kv Hnd) by (apply Hin; left; reflexivity).
  rewrite IH; [reflexivity|]. intros x Hx. apply Hin. right. exact Hx.
Qed.

Lemma lookup_rows_shaped : forall I s, wf_instance I = true -> shaped I s ->
  lookup_rows s (inst_jobs I) = Some (map snd s).
Proof.
  intros I s Hwf [Hk _]. rewrite <- Hk. apply vl_lookup_rows_sub.
  - rewrite Hk. apply vl_wf_nodup_names. exact Hwf.
  - apply incl_refl.
Qed.

(* ------------------------------------------------------------------ counting *)
Lemma vl_count_true_map_zero {A} (f : A -> bool) l :
  count_true (map f l) = 0%nat <-> Forall (fun x => f x = false) l.
Proof.
  unfold count_true. induction l as [|a t IH]; simpl.
  - split; [constructor | reflexivity].
  - destruct (f a) eqn:E; simpl.
    + split; [discriminate|]. intros H. inversion H; subst. congruence.
    + rewrite IH. split; [intros H; constructor; assumption | intros H; inversion H; assumption].
Qed.

Lemma vl_sumN_zero l : sumN l = 0%nat <-> Forall (fun n => n = 0%nat) l.
Proof.
  induction l as [|a t IH]; simpl.
  - split; [constructor | reflexivity].
  - split.
    + intros H. constructor; [lia|]. apply IH. lia.
    + intros H. inversion H; subst. apply IH in H3. lia.
Qed.

(* ------------------------------------------------------------------ precedence *)
Lemma vl_precedence_ok_nil : precedence_ok [].
Proof. intros k a b H. destruct k; discriminate. Qed.

Lemma vl_precedence_ok_single a : precedence_ok [a].
Proof. intros k x y _ H. destruct k; discriminate. Qed.

Lemma vl_precedence_ok_cons a b t :
  precedence_ok (a :: b :: t) <-> end_of a <= start_of b /\ precedence_ok (b :: t).
Proof.
  split.
  - intros H. split.
    + apply (H 0%nat); reflexivity.
    + intros k x y Hx Hy. apply (H (S k)); assumption.
  - intros [H1 H2] k x y Hx Hy. destruct k as [|k].
    + simpl in Hx, Hy. injection Hx as <-. injection Hy as <-. exact H1.
    + apply (H2 k); assumption.
Qed.

Lemma vl_precedence_ok_tl a t : precedence_ok (a :: t) -> precedence_ok t.
Proof.
  destruct t as [|b t]; intros H; [apply vl_precedence_ok_nil|].
  apply vl_precedence_ok_cons in H. apply H.
Qed.

Lemma n_prec_row_zero : forall row, n_prec_row row = 0%nat <-> precedence_ok row.
Proof.
  intros row. unfold n_prec_row. rewrite vl_count_true_map_zero.
  induction row as [|a t IH].
  - simpl. split; [intros _; apply vl_precedence_ok_nil | constructor].
  - destruct t as [|b t'].
    + simpl. split; [intros _; apply vl_precedence_ok_single | constructor].
    + change (consecutive (a :: b :: t')) with ((a, b) :: consecutive (b :: t')).
      rewrite vl_precedence_ok_cons, <- IH. split.
      * intros H. inversion H as [|? ? H1 H2]; subst. split; [|exact H2].
        simpl in H1. apply negb_false_iff in H1. apply Z.leb_le in H1. exact H1.
      * intros [H1 H2]. constructor; [|exact H2].
        simpl. apply negb_false_iff. apply Z.leb_le. exact H1.
Qed.

(* ------------------------------------------------------------------ overlaps *)
Lemma vl_Forall_combs2 {A} (P : A -> A -> Prop) (l : list A) :
  Forall (fun ab => P (fst ab) (snd ab)) (combs2 l) <-> ForallOrdPairs P l.
Proof.
  induction l as [|x r IH]; simpl.
  - split; [intros _; constructor | constructor].
  - rewrite Forall_app, Forall_map, IH. simpl. split.
    + intros [H1 H2]. constructor; assumption.
    + intros H. inversion H; subst. split; assumption.
Qed.

Lemma vl_overlap_pair (a b : sop) :
  String.eqb (mach_of a) (mach_of b) && overlaps a b = false <-> (mach_of a = mach_of b -> no_overlap a b).
Proof.
  unfold overlaps, no_overlap. destruct (String.eqb (mach_of a) (mach_of b)) eqn:E; simpl.
  - apply String.eqb_eq in E. rewrite andb_false_iff, !Z.ltb_ge. split.
    + intros [H|H] _; [right | left]; exact H.
    + intros H. destruct (H E) as [H'|H']; [right | left]; exact H'.
  - apply String.eqb_neq in E. split; [intros _ H; contradiction | reflexivity].
Qed.

Lemma n_ov_zero : forall l : list sop,
  count_true (map (fun ab => String.eqb (mach_of (fst ab)) (mach_of (snd ab)) && overlaps (fst ab) (snd ab)) (combs2 l))
    = 0%nat
  <-> ForallOrdPairs (fun a b => mach_of a = mach_of b -> no_overlap a b) l.
Proof.
  intros l. rewrite vl_count_true_map_zero, <- vl_Forall_combs2. split; intros H.
  - eapply Forall_impl; [|exact H]. intros ab Hab. apply vl_overlap_pair. exact Hab.
  - eapply Forall_impl; [|exact H]. intros ab Hab. apply vl_overlap_pair. exact Hab.
Qed.

(* ------------------------------------------------------------------ valid_spec <-> no violations *)
Lemma vl_sched_sops_map s : sched_sops s = map strip (map snd s).
Proof. unfold sched_sops. rewrite map_map. reflexivity. Qed.

Lemma vl_n_prec_zero s : n_prec s = 0%nat <-> forall row, In row (sched_sops s) -> precedence_ok row.
Proof.
  unfold n_prec. rewrite vl_sumN_zero, Forall_map, Forall_forall. split.
  - intros H row Hin. apply n_prec_row_zero. apply H. exact Hin.
  - intros H row Hin. apply n_prec_row_zero. apply H. exact Hin.
Qed.

Lemma vl_all_scheduled_spec s :
  all_scheduled s = true <-> forall kv p, In kv s -> In p (snd kv) -> snd p <> None.
Proof.
  unfold all_scheduled. rewrite forallb_forall. split.
  - intros H kv p Hkv Hp. specialize (H kv Hkv). rewrite forallb_forall in H. specialize (H p Hp).
    unfold is_sched in H. destruct (snd p); [discriminate | discriminate].
  - intros H kv Hkv. apply forallb_forall. intros p Hp. specialize (H kv p Hkv Hp).
    unfold is_sched. destruct (snd p); [reflexivity | contradiction].
Qed.

Theorem valid_spec_counts : forall I s, wf_instance I = true -> shaped I s -> all_scheduled s = true ->
  (valid_spec I s <-> (n_prec s = 0%nat /\ n_ov s = 0%nat)).
Proof.
  intros I s Hwf Hsh Hall. pose proof (lookup_rows_shaped I s Hwf Hsh) as Hl. split.
  - intros [_ Hp Hm]. split.
    + apply vl_n_prec_zero. intros row Hin. rewrite vl_sched_sops_map in Hin.
      apply in_map_iff in Hin as [r [<- Hin]]. apply (Hp _ Hl). exact Hin.
    + unfold n_ov. apply n_ov_zero. rewrite vl_sched_sops_map. apply (Hm _ Hl).
  - intros [Hp Hm]. constructor.
    + apply vl_all_scheduled_spec. exact Hall.
    + intros rows Hr row Hin. rewrite Hl in Hr. injection Hr as <-.
      rewrite vl_n_prec_zero in Hp. apply Hp. rewrite vl_sched_sops_map. apply in_map. exact Hin.
    + intros rows Hr. rewrite Hl in Hr. injection Hr as <-.
      unfold n_ov in Hm. apply n_ov_zero in Hm. rewrite vl_sched_sops_map in Hm. exact Hm.
Qed.

(* the same without the side condition: being fully scheduled is part of validity *)
Lemma valid_spec_all_scheduled : forall I s, valid_spec I s -> all_scheduled s = true.
Proof. intros I s [Ha _ _]. apply vl_all_scheduled_spec. exact Ha. Qed.

Theorem valid_spec_iff_counts : forall I s, wf_instance I = true -> shaped I s ->
  (valid_spec I s <-> (all_scheduled s = true /\ n_prec s = 0%nat /\ n_ov s = 0%nat)).
Proof.
  intros I s Hwf Hsh. split.
  - intros H. pose proof (valid_spec_all_scheduled I s H) as Hall. split; [exact Hall|].
    apply (valid_spec_counts I s Hwf Hsh Hall). exact H.
  - intros [Hall H]. apply (valid_spec_counts I s Hwf Hsh Hall). exact H.
Qed.

(* ------------------------------------------------------------------ maxima *)
Definition vl_omax (a b : option Z) : option Z :=
  match a, b with
  | None, _ => b
  | _, None => a
  | Some x, Some y => Some (Z.max x y)
  end.

Lemma vl_max_list_app l1 l2 : max_list (l1 ++ l2) = vl_omax (max_list l1) (max_list l2).
Proof.
  induction l1 as [|x t IH]; simpl.
  - reflexivity.
  - rewrite IH. destruct (max_list t) as [m|], (max_list l2) as [m2|]; simpl; try reflexivity.
    rewrite Z.max_assoc. reflexivity.
Qed.

Lemma vl_max_list_ub l : forall m x, max_list l = Some m -> In x l -> x <= m.
Proof.
  induction l as [|y t IH]; simpl; intros m x Hm Hin; [contradiction|].
  destruct (max_list t) as [mt|] eqn:E.
  - injection Hm as <-. destruct Hin as [->|Hin]; [lia|]. specialize (IH mt x eq_refl Hin). lia.
  - injection Hm as <-. destruct Hin as [->|Hin]; [lia|]. destruct t; [contradiction | simpl in E].
    destruct (max_list t); discriminate.
Qed.

(* under precedence, with positive durations, the last operation of a row has the row's largest end *)
Lemma vl_row_max_last (row : list sop) :
  precedence_ok row -> (forall p, In p row -> 0 < op_dur (fst p)) ->
  max_list (map end_of row) = max_list (match last_opt row with Some p => [end_of p] | None => [] end).
Proof.
  induction row as [|a t IH]; intros Hp Hd; [reflexivity|].
  destruct t as [|b t']; [reflexivity|].
  apply vl_precedence_ok_cons in Hp as [Hab Hp].
  change (last_opt (a :: b :: t')) with (last_opt (b :: t')).
  rewrite <- IH by (try assumption; intros p Hin; apply Hd; right; exact Hin).
  change (map end_of (a :: b :: t')) with (end_of a :: map end_of (b :: t')).
  change (max_list (end_of a :: map end_of (b :: t')))
    with (match max_list (map end_of (b :: t')) with None => Some (end_of a) | Some m => Some (Z.max (end_of a) m) end).
  destruct (max_list (map end_of (b :: t'))) as [m|] eqn:E.
  - f_equal. assert (end_of b <= m) by (apply (vl_max_list_ub _ _ _ E); left; reflexivity).
    assert (0 < op_dur (fst b)) by (apply Hd; right; left; reflexivity).
    unfold end_of, start_of in *. lia.
  - simpl in E. destruct (max_list (map end_of t')); discriminate.
Qed.

Definition last_ends (s : schedule) : list Z :=
  flat_map (fun row => match last_opt row with Some p => [end_of p] | None => [] end) (sched_sops s).

Lemma vl_strip_fst row : forallb is_sched row = true -> map fst (strip row) = map fst row.
Proof.
  induction row as [|p t IH]; simpl; intros H; [reflexivity|].
  apply andb_true_iff in H as [H1 H2]. unfold is_sched in H1.
  destruct (snd p); [|discriminate]. simpl. rewrite IH by exact H2. reflexivity.
Qed.

(* the rows of a shaped, fully scheduled result of a wf instance: nonempty, positive durations *)
Lemma vl_shaped_rows I s : wf_instance I = true -> shaped I s -> all_scheduled s = true ->
  forall row, In row (sched_sops s) -> row <> [] /\ forall p, In p row -> 0 < op_dur (fst p).
Proof.
  intros Hwf [Hk Hr] Hall row Hin. unfold sched_sops in Hin. apply in_map_iff in Hin as [kv [<- Hkv]].
  unfold all_scheduled in Hall. rewrite forallb_forall in Hall. specialize (Hall kv Hkv).
  pose proof (vl_strip_fst _ Hall) as Hf.
  assert (Hj : exists j, In j (inst_jobs I) /\ map fst (snd kv) = job_ops j).
  { assert (Hs : In (snd kv) (map snd s)) by (apply in_map; exact Hkv).
    clear -Hr Hs. induction Hr as [|j r js rs H1 H2 IH]; [contradiction|].
    destruct Hs as [->|Hs].
    - exists j. split; [left; reflexivity | exact H1].
    - destruct (IH Hs) as [j' [Hj' E]]. exists j'. split; [right; exact Hj' | exact E]. }
  destruct Hj as [j [Hj E]]. destruct (vl_wf_job I j Hwf Hj) as [Hne Hd]. split.
  - intros E0. rewrite E0 in Hf. simpl in Hf. rewrite E in Hf. symmetry in Hf. contradiction.
  - intros p Hp. apply Hd. rewrite <- E, <- Hf. apply in_map. exact Hp.
Qed.

Lemma vl_max_concat_last (rows : list (list sop)) :
  (forall row, In row rows -> precedence_ok row /\ forall p, In p row -> 0 < op_dur (fst p)) ->
  max_list (map end_of (concat rows))
  = max_list (flat_map (fun row => match last_opt row with Some p => [end_of p] | None => [] end) rows).
Proof.
  induction rows as [|r t IH]; intros H; [reflexivity|].
  simpl. rewrite map_app, !vl_max_list_app. rewrite IH by (intros row Hin; apply H; right; exact Hin).
  destruct (H r (or_introl eq_refl)) as [Hp Hd]. rewrite (vl_row_max_last r Hp Hd). reflexivity.
Qed.

Theorem makespan_last_ops : forall I s, wf_instance I = true -> shaped I s -> all_scheduled s = true ->
  n_prec s = 0%nat -> makespan_of s = max_list (last_ends s).
Proof.
  intros I s Hwf Hsh Hall Hp. unfold makespan_of, latest_end, last_ends.
  apply vl_max_concat_last. intros row Hin. split.
  - apply vl_n_prec_zero with (s := s); assumption.
  - apply (vl_shaped_rows I s Hwf Hsh Hall row Hin).
Qed.

Lemma vl_last_opt_nonempty {A} (l : list A) : l <> [] -> exists x, last_opt l = Some x.
Proof.
  induction l as [|a t IH]; intros H; [contradiction|].
  destruct t as [|b t']; [exists a; reflexivity|].
  change (last_opt (a :: b :: t')) with (last_opt (b :: t')). apply IH. discriminate.
Qed.

(* every job has at least one operation *)
Lemma last_ends_length : forall I s, wf_instance I = true -> shaped I s -> all_scheduled s = true ->
  length (last_ends s) = length (inst_jobs I).
Proof.
  intros I s Hwf Hsh Hall. pose proof (vl_shaped_rows I s Hwf Hsh Hall) as Hrows.
  destruct Hsh as [Hk _]. rewrite <- Hk, map_length.
  replace (List.length s) with (List.length (sched_sops s)) by (unfold sched_sops; apply map_length).
  unfold last_ends. induction (sched_sops s) as [|r t IH]; [reflexivity|].
  simpl. rewrite app_length, IH by (intros row Hin; apply Hrows; right; exact Hin).
  destruct (Hrows r (or_introl eq_refl)) as [Hne _].
  destruct (vl_last_opt_nonempty r Hne) as [x ->]. reflexivity.
Qed.

(* the makespan bounds every end (no hypothesis on the instance is needed for this) *)
Lemma ends_bound : forall s M, makespan_of s = Some M ->
  forall row p, In row (sched_sops s) -> In p row -> end_of p <= M.
Proof.
  intros s M HM row p Hrow Hp. unfold makespan_of, latest_end in HM.
  apply (vl_max_list_ub _ _ _ HM). apply in_map. apply in_concat. exists row. split; assumption.
Qed.

Lemma ends_in_last_ends_bound : forall I s M, wf_instance I = true -> shaped I s -> all_scheduled s = true ->
  n_prec s = 0%nat -> makespan_of s = Some M ->
  forall row p, In row (sched_sops s) -> In p row -> end_of p <= M.
Proof. intros I s M _ _ _ _ HM. apply ends_bound. exact HM. Qed.

(* ------------------------------------------------------------------ heads and tails along a job *)
Lemma vl_head_bound (row : list sop) : forall base,
  precedence_ok row -> (forall p0, nth_error row 0 = Some p0 -> base <= start_of p0) ->
  forall k p, nth_error row k = Some p ->
  base + sumZ (map (fun q => op_dur (fst q)) (firstn k row)) <= start_of p.
Proof.
  induction row as [|a t IH]; intros base Hp H0 k p Hk; [destruct k; discriminate|].
  destruct k as [|k].
  - simpl. specialize (H0 p Hk). lia.
  - simpl in Hk. simpl firstn. simpl map. simpl sumZ.
    specialize (IH (base + op_dur (fst a))). rewrite Z.add_assoc. apply IH; [| |exact Hk].
    + apply vl_precedence_ok_tl in Hp. exact Hp.
    + intros p0 Hp0. destruct t as [|b t']; [discriminate|]. simpl in Hp0. injection Hp0 as <-.
      apply vl_precedence_ok_cons in Hp as [Hab _]. specialize (H0 a eq_refl).
      unfold end_of, start_of in *. lia.
Qed.

Lemma vl_tail_bound0 (row : list sop) L :
  precedence_ok row -> (forall p, In p row -> end_of p <= L) ->
  forall p, nth_error row 0 = Some p -> start_of p + sumZ (map (fun q => op_dur (fst q)) row) <= L.
Proof.
  induction row as [|a t IH]; intros Hp He p H0; [discriminate|].
  simpl in H0. injection H0 as <-. destruct t as [|b t'].
  - simpl. specialize (He a (or_introl eq_refl)). unfold end_of, start_of in *. lia.
  - apply vl_precedence_ok_cons in Hp as [Hab Hp].
    specialize (IH Hp (fun p Hin => He p (or_intror Hin)) b eq_refl).
    change (sumZ (map (fun q => op_dur (fst q)) (a :: b :: t')))
      with (op_dur (fst a) + sumZ (map (fun q => op_dur (fst q)) (b :: t'))).
    unfold end_of, start_of in *. lia.
Qed.

Lemma vl_tail_bound (row : list sop) L :
  precedence_ok row -> (forall p, In p row -> end_of p <= L) ->
  forall k p, nth_error row k = Some p -> start_of p + sumZ (map (fun q => op_dur (fst q)) (skipn k row)) <= L.
Proof.
  induction row as [|a t IH]; intros Hp He k p Hk; [destruct k; discriminate|].
  destruct k as [|k].
  - apply vl_tail_bound0; assumption.
  - simpl in Hk. simpl skipn. apply IH; [| |exact Hk].
    + apply vl_precedence_ok_tl in Hp. exact Hp.
    + intros q Hq. apply He. right. exact Hq.
Qed.

(* the positivity of the durations is not needed *)
Lemma precedence_head_tail_gen : forall (j : job) (row : list sop) L, map fst row = job_ops j ->
  precedence_ok row -> (forall p, In p row -> 0 <= start_of p) -> (forall p, In p row -> end_of p <= L) ->
  forall k p, nth_error row k = Some p -> head_of j k <= start_of p /\ start_of p + from_of j k <= L.
Proof.
  intros j row L Hm Hp Hs He k p Hk. unfold head_of, from_of. rewrite <- Hm.
  rewrite <- firstn_map, <- skipn_map, !map_map, firstn_map, skipn_map. split.
  - assert (H : 0 + sumZ (map (fun q : sop => op_dur (fst q)) (firstn k row)) <= start_of p).
    { apply vl_head_bound; [exact Hp | | exact Hk].
      intros p0 Hp0. apply Hs. apply (nth_error_In row 0 Hp0). }
    rewrite Z.add_0_l in H. exact H.
  - apply vl_tail_bound; assumption.
Qed.

Lemma precedence_head_tail : forall (j : job) (row : list sop) L, map fst row = job_ops j ->
  (forall o, In o (job_ops j) -> 0 < op_dur o) -> precedence_ok row ->
  (forall p, In p row -> 0 <= start_of p) -> (forall p, In p row -> end_of p <= L) ->
  forall k p, nth_error row k = Some p -> head_of j k <= start_of p /\ start_of p + from_of j k <= L.
Proof. intros j row L Hm _. apply precedence_head_tail_gen. exact Hm. Qed.

Print Assumptions valid_spec_counts.
Print Assumptions valid_spec_iff_counts.
Print Assumptions makespan_last_ops.
