(* Arithmetic of the makespan term of the JSSP Hamiltonian (DESIGN.md Appendix A.3).
   Self-contained: integer facts about  sum_j (J+1)^(e_j)  and their rational corollaries for
   (sum_j (J+1)^(e_j)) / (J * (J+1)^L).  No axioms. *)
From QV Require Import Common.Base.
From Coq Require Import QArith Lqa Lia.

Open Scope Z_scope.

Definition pow_sum (J : Z) (es : list Z) : Z := sumZ (map (fun e => (J + 1) ^ e) es).

(* Same definition as QV.Jssp.Valid.max_list (restated so that this file is self-contained). *)
Fixpoint max_list' (l : list Z) : option Z :=
  match l with
  | [] => None
  | x :: t => match max_list' t with None => Some x | Some m => Some (Z.max x m) end
  end.

Lemma pow_sum_cons : forall J e es, pow_sum J (e :: es) = (J + 1) ^ e + pow_sum J es.
Proof. reflexivity. Qed.

Lemma max_list'_nil_iff : forall l, max_list' l = None <-> l = [].
Proof.
  intros [|x t]; simpl; split; intros H; try reflexivity; try discriminate.
  destruct (max_list' t); discriminate.
Qed.

Lemma max_list'_ge : forall es M, max_list' es = Some M -> forall e, In e es -> e <= M.
Proof.
  induction es as [|x t IH]; intros M HM e Hin; simpl in *.
  - contradiction.
  - destruct (max_list' t) as [m|] eqn:Et.
    + inversion HM; subst; clear HM. destruct Hin as [->|Hin].
      * lia.
      * specialize (IH m eq_refl e Hin). lia.
    + inversion HM; subst; clear HM. apply max_list'_nil_iff in Et. subst t.
      destruct Hin as [->|[]]. lia.
Qed.

Lemma max_list'_In : forall es M, max_list' es = Some M -> In M es.
Proof.
  induction es as [|x t IH]; intros M HM; simpl in *.
  - discriminate.
  - destruct (max_list' t) as [m|] eqn:Et.
    + inversion HM; subst; clear HM.
      destruct (Z.max_spec x m) as [[_ ->]|[_ ->]].
      * right. apply IH. reflexivity.
      * left. reflexivity.
    + inversion HM; subst. left. reflexivity.
Qed.

Lemma pow_sum_nonneg : forall J es, 0 <= J -> 0 <= pow_sum J es.
Proof.
  intros J es HJ. induction es as [|x t IH].
  - unfold pow_sum; simpl. lia.
  - rewrite pow_sum_cons. assert (0 <= (J + 1) ^ x) by (apply Z.pow_nonneg; lia). lia.
Qed.

Lemma pow_sum_In_le : forall J es M, 0 <= J -> In M es -> (J + 1) ^ M <= pow_sum J es.
Proof.
  intros J es M HJ. induction es as [|x t IH]; intros Hin.
  - contradiction.
  - rewrite pow_sum_cons. destruct Hin as [->|Hin].
    + pose proof (pow_sum_nonneg J t HJ). lia.
    + specialize (IH Hin). assert (0 <= (J + 1) ^ x) by (apply Z.pow_nonneg; lia). lia.
Qed.

Lemma pow_sum_lower : forall J es M, 1 <= J -> (forall e, In e es -> 0 <= e) ->
  max_list' es = Some M -> (J + 1) ^ M <= pow_sum J es.
Proof.
  intros J es M HJ _ HM. apply pow_sum_In_le; [lia|]. apply max_list'_In; assumption.
Qed.

Lemma pow_sum_upper : forall J es M, 1 <= J -> (forall e, In e es -> 0 <= e <= M) ->
  pow_sum J es <= Z.of_nat (length es) * (J + 1) ^ M.
Proof.
  intros J es M HJ. induction es as [|x t IH]; intros Hb.
  - unfold pow_sum; simpl. lia.
  - rewrite pow_sum_cons.
    assert (Hx : 0 <= x <= M) by (apply Hb; left; reflexivity).
    assert (Hle : (J + 1) ^ x <= (J + 1) ^ M) by (apply Z.pow_le_mono_r; lia).
    assert (IH' : pow_sum J t <= Z.of_nat (length t) * (J + 1) ^ M)
      by (apply IH; intros e He; apply Hb; right; assumption).
    change (length (x :: t)) with (S (length t)). rewrite Nat2Z.inj_succ. nia.
Qed.

Lemma pow_sum_pos : forall J es, 1 <= J -> es <> [] -> (forall e, In e es -> 0 <= e) -> 0 < pow_sum J es.
Proof.
  intros J [|x t] HJ Hne Hnn.
  - congruence.
  - rewrite pow_sum_cons.
    assert (0 < (J + 1) ^ x) by (apply Z.pow_pos_nonneg; [lia | apply Hnn; left; reflexivity]).
    pose proof (pow_sum_nonneg J t). lia.
Qed.

Theorem pow_sum_makespan_lt : forall J es1 es2 M1 M2, 1 <= J -> Z.of_nat (length es1) = J ->
  (forall e, In e es1 -> 0 <= e) -> (forall e, In e es2 -> 0 <= e) ->
  max_list' es1 = Some M1 -> max_list' es2 = Some M2 -> M1 < M2 -> pow_sum J es1 < pow_sum J es2.
Proof.
  intros J es1 es2 M1 M2 HJ Hlen Hnn1 Hnn2 HM1 HM2 Hlt.
  assert (H0M1 : 0 <= M1) by (apply Hnn1; apply max_list'_In; assumption).
  assert (Hup : pow_sum J es1 <= J * (J + 1) ^ M1).
  { pose proof (pow_sum_upper J es1 M1 HJ) as Hu. rewrite Hlen in Hu. apply Hu.
    intros e He. split; [apply Hnn1; assumption | eapply max_list'_ge; eassumption]. }
  assert (Hlo : (J + 1) ^ M2 <= pow_sum J es2) by (apply pow_sum_lower; assumption).
  assert (Hmono : (J + 1) ^ M1 <= (J + 1) ^ (M2 - 1)) by (apply Z.pow_le_mono_r; lia).
  assert (Hsucc : (J + 1) ^ M2 = (J + 1) * (J + 1) ^ (M2 - 1)).
  { replace M2 with (Z.succ (M2 - 1)) at 1 by lia. apply Z.pow_succ_r. lia. }
  assert (Hpos : 0 < (J + 1) ^ (M2 - 1)) by (apply Z.pow_pos_nonneg; lia).
  nia.
Qed.

(* ---------- rational forms ---------- *)

Definition mk_energy (J L : Z) (es : list Z) : Q :=
  fold_right (fun e acc => (inject_Z ((J + 1) ^ e) / inject_Z (J * (J + 1) ^ L) + acc)%Q) 0%Q es.

Lemma mk_denom_pos : forall J L, 1 <= J -> 0 <= L -> 0 < J * (J + 1) ^ L.
Proof.
  intros J L HJ HL. assert (0 < (J + 1) ^ L) by (apply Z.pow_pos_nonneg; lia). nia.
Qed.

Lemma mk_energy_eq : forall J L es, 1 <= J -> 0 <= L ->
  (mk_energy J L es == inject_Z (pow_sum J es) / inject_Z (J * (J + 1) ^ L))%Q.
Proof.
  intros J L es _ _. induction es as [|x t IH].
  - unfold mk_energy, pow_sum; simpl. unfold Qdiv. ring.
  - change (mk_energy J L (x :: t))
      with (inject_Z ((J + 1) ^ x) / inject_Z (J * (J + 1) ^ L) + mk_energy J L t)%Q.
    rewrite IH, pow_sum_cons, inject_Z_plus. unfold Qdiv. ring.
Qed.

Lemma Qdiv_lt_compat_pos : forall a b d : Q, (0 < d -> a < b -> a / d < b / d)%Q.
Proof.
  intros a b d Hd Hab. unfold Qdiv. apply Qmult_lt_compat_r; [apply Qinv_lt_0_compat|]; assumption.
Qed.

Lemma mk_energy_range : forall J L es, 1 <= J -> Z.of_nat (length es) = J ->
  (forall e, In e es -> 0 <= e <= L) -> (0 < mk_energy J L es /\ mk_energy J L es <= 1)%Q.
Proof.
  intros J L es HJ Hlen Hb.
  assert (Hne : es <> []) by (intros ->; simpl in Hlen; lia).
  assert (HL : 0 <= L).
  { destruct es as [|x t]; [congruence|]. specialize (Hb x (or_introl eq_refl)). lia. }
  assert (Hd : 0 < J * (J + 1) ^ L) by (apply mk_denom_pos; assumption).
  assert (HdQ : (0 < inject_Z (J * (J + 1) ^ L))%Q) by (rewrite (Zlt_Qlt 0) in Hd; exact Hd).
  assert (Hpos : 0 < pow_sum J es).
  { apply pow_sum_pos; try assumption. intros e He. apply Hb; assumption. }
  assert (Hup : pow_sum J es <= J * (J + 1) ^ L).
  { pose proof (pow_sum_upper J es L HJ Hb) as Hu. rewrite Hlen in Hu. exact Hu. }
  rewrite (mk_energy_eq J L es HJ HL). split.
  - apply Qlt_shift_div_l; [assumption|]. rewrite Qmult_0_l.
    rewrite (Zlt_Qlt 0) in Hpos. exact Hpos.
  - apply Qle_shift_div_r; [assumption|]. rewrite Qmult_1_l.
    rewrite Zle_Qle in Hup. exact Hup.
Qed.

Theorem mk_energy_lt : forall J L es1 es2 M1 M2, 1 <= J -> 0 <= L -> Z.of_nat (length es1) = J ->
  (forall e, In e es1 -> 0 <= e) -> (forall e, In e es2 -> 0 <= e) ->
  max_list' es1 = Some M1 -> max_list' es2 = Some M2 -> M1 < M2 ->
  (mk_energy J L es1 < mk_energy J L es2)%Q.
Proof.
  intros J L es1 es2 M1 M2 HJ HL Hlen Hnn1 Hnn2 HM1 HM2 Hlt.
  assert (Hd : 0 < J * (J + 1) ^ L) by (apply mk_denom_pos; assumption).
  assert (HdQ : (0 < inject_Z (J * (J + 1) ^ L))%Q) by (rewrite (Zlt_Qlt 0) in Hd; exact Hd).
  assert (Hs : pow_sum J es1 < pow_sum J es2) by (eapply pow_sum_makespan_lt; eassumption).
  rewrite (mk_energy_eq J L es1 HJ HL), (mk_energy_eq J L es2 HJ HL).
  apply Qdiv_lt_compat_pos; [assumption|]. rewrite Zlt_Qlt in Hs. exact Hs.
Qed.

Print Assumptions mk_energy_lt.
Print Assumptions mk_energy_range.
