(* Model of queasars/job_shop_scheduling/problem_instances.py: the data classes and their
   __post_init__ / __init__ checks.  A Machine is its name.  Definitions only. *)
From QV Require Export Common.Base.
Open Scope string_scope.

Definition JSSPException : string := "JobShopSchedulingProblemException".

Record operation := mkOp { op_name : string; op_job : string; op_machine : string; op_dur : Z }.
Record job := mkJob { job_name : string; job_ops : list operation }.
Record instance := mkInst { inst_name : string; inst_machines : list string; inst_jobs : list job }.

Definition nonempty (s : string) : bool := negb (String.eqb s "").

(* Machine.__post_init__ *)
Definition machine_ok (name : string) : bool := nonempty name.

(* Operation.__post_init__ *)
Definition operation_ok (o : operation) : bool :=
  nonempty (op_name o) && nonempty (op_job o) && (0 <? op_dur o)%Z.

Definition op_identifier (o : operation) : string := op_job o ++ "_" ++ op_name o.

(* Job.__post_init__ : name, at least one operation, unique identifiers, job_name match, no machine twice *)
Definition job_ok (j : job) : bool :=
  nonempty (job_name j)
  && negb (Nat.eqb (List.length (job_ops j)) 0)
  && nodup_str (map op_identifier (job_ops j))
  && forallb (fun o => String.eqb (op_job o) (job_name j)) (job_ops j)
  && nodup_str (map op_machine (job_ops j)).

(* JobShopSchedulingProblemInstance.__post_init__ *)
Definition instance_ok (i : instance) : bool :=
  nonempty (inst_name i)
  && nodup_str (inst_machines i)
  && nodup_str (map job_name (inst_jobs i))
  && forallb (fun j => forallb (fun o => mem_str (op_machine o) (inst_machines i)) (job_ops j)) (inst_jobs i).

(* Objects only exist if their constructor accepted them: the well-formedness every theorem assumes. *)
Definition wf_instance (i : instance) : bool :=
  instance_ok i
  && forallb machine_ok (inst_machines i)
  && forallb (fun j => job_ok j && forallb (fun o => operation_ok o && machine_ok (op_machine o)) (job_ops j)) (inst_jobs i).

(* structural equality (dataclass __eq__) *)
Definition op_eqb (a b : operation) : bool :=
  String.eqb (op_name a) (op_name b) && String.eqb (op_job a) (op_job b)
  && String.eqb (op_machine a) (op_machine b) && Z.eqb (op_dur a) (op_dur b).
Definition job_eqb (a b : job) : bool :=
  String.eqb (job_name a) (job_name b) && list_eqb op_eqb (job_ops a) (job_ops b).

(* A potentially scheduled operation: the operation and its start time, None = UnscheduledOperation *)
Definition psop : Type := operation * option Z.
(* The schedule dict, in insertion order; keys are pairwise different (it is a dict). *)
Definition schedule : Type := list (job * list psop).

Definition sched_lookup (s : schedule) (j : job) : option (list psop) :=
  match find (fun kv => job_eqb (fst kv) j) s with Some kv => Some (snd kv) | None => None end.

Definition job_mem (j : job) (l : list job) : bool := existsb (job_eqb j) l.

(* JobShopSchedulingResult.__init__ : same set of jobs, and per job the same operations in order *)
Definition result_ok (i : instance) (s : schedule) : bool :=
  forallb (fun j => job_mem j (map fst s)) (inst_jobs i)
  && forallb (fun kv => job_mem (fst kv) (inst_jobs i)) s
  && forallb (fun j => match sched_lookup s j with
                       | Some row => list_eqb op_eqb (job_ops j) (map fst row)
                       | None => false
                       end) (inst_jobs i).
