(* Final assembly of the C15 / C01 / C02 property theorems from the proved libraries. *)
From QV Require Import Jssp.Statements Jssp.EncoderPure Jssp.Valid_proofs Jssp.Encoder_proofs Jssp.EncOf_proofs
  Jssp.Zpoly_proofs Jssp.DomainWall_proofs Jssp.EncoderPure_proofs Jssp.Undecodable_proofs Jssp.Decoded_proofs
  Jssp.ValidLink_proofs Jssp.Makespan_arith.
From Coq Require Import QArith Lqa Lia.
Open Scope Z_scope.
Open Scope list_scope.

(* ------------------------------------------------------------------ the bridge to the pure form *)
Lemma asm_enc_of_nojobs I L : inst_jobs I = [] -> enc_of I L = mkEnc 0 [].
Proof. intros E. unfold enc_of. rewrite E. reflexivity. Qed.

Lemma asm_ham_nojobs lg P L : lg = false -> hamiltonian_of lg P L (mkEnc 0 []) = Err ValueError.
Proof. intros ->. reflexivity. Qed.

Lemma asm_nq_pos_jobs I L : (1 <= e_nq (enc_of I L))%nat -> inst_jobs I <> [].
Proof. intros H E. rewrite (asm_enc_of_nojobs I L E) in H. cbn in H. lia. Qed.

Lemma asm_hamiltonian_enc_of lg P I L : limit_ok I L ->
  hamiltonian lg P I L = hamiltonian_of lg P L (enc_of I L).
Proof. intros Hl. unfold hamiltonian. rewrite (prepare_encoding_enc_of I L Hl). reflexivity. Qed.

Lemma asm_struct_ok I L : wf_instance I = true -> inst_jobs I <> [] -> limit_ok I L -> struct_ok (enc_of I L) L.
Proof.
  intros Hwf Hj Hl. split; [apply enc_of_wf; assumption|]. split; [apply enc_of_ids|]. split.
  - intros v t Hv Ht. eapply enc_of_values_nonneg; eassumption.
  - intros v Hv. apply Z.lt_le_incl. eapply enc_of_durations; eassumption.
Qed.

Lemma asm_regime_pen_ok P : regime P -> pen_ok P.
Proof. unfold regime, pen_ok. intros H. repeat split; lra. Qed.

Record bridge (I : instance) (L : Z) (P : penalties) (H : opexpr) : Prop := {
  br_limit : limit_ok I L;
  br_jobs : inst_jobs I <> [];
  br_nq : (1 <= e_nq (enc_of I L))%nat;
  br_nqubits : n_qubits I L = Ok (e_nq (enc_of I L));
  br_wf : enc_wf (enc_of I L) L;
  br_struct : struct_ok (enc_of I L) L;
  br_H : H = hamiltonian_p P L (enc_of I L);
  br_L : 1 <= L
}.

Lemma asm_bridge I L P H : wf_instance I = true -> hamiltonian false P I L = Ok H -> bridge I L P H.
Proof.
  intros Hwf HH.
  assert (Hl : limit_ok I L).
  { unfold hamiltonian in HH. destruct (prepare_encoding I L) as [e|s] eqn:E; [|discriminate].
    eapply prepare_encoding_Ok_limit; eassumption. }
  rewrite (asm_hamiltonian_enc_of false P I L Hl) in HH.
  assert (Hj : inst_jobs I <> []).
  { intros E. rewrite (asm_enc_of_nojobs I L E), asm_ham_nojobs in HH by reflexivity. discriminate. }
  pose proof (enc_of_wf I L Hwf Hj Hl) as Hewf.
  assert (Hd : forall v, In v (e_vars (enc_of I L)) -> 0 < v_dur v) by (intros v; apply enc_of_durations; assumption).
  assert (Hn : (1 <= e_nq (enc_of I L))%nat).
  { destruct (e_nq (enc_of I L)) eqn:E; [|lia].
    rewrite (hamiltonian_zero_qubits false P L _ E Hewf Hd) in HH. discriminate. }
  rewrite (hamiltonian_of_pure P L _ Hn Hewf Hd) in HH. inversion HH; subst H.
  constructor; auto.
  - apply n_qubits_enc_of; assumption.
  - apply asm_struct_ok; assumption.
  - eapply limit_nonneg; eassumption.
Qed.

Lemma asm_energy_val I L P H bits : bridge I L P H ->
  (energy H bits == energy_val P L (enc_of I L) (state_of (rev bits)))%Q.
Proof. intros B. unfold energy. rewrite (br_H _ _ _ _ B). apply hamiltonian_p_eval_any. Qed.

(* ------------------------------------------------------------------ C15 *)
Theorem asm_C15_total : forall I L P, wf_instance I = true -> limit_ok I L ->
  exists n, n_qubits I L = Ok n /\ Z.of_nat n = total_qubits I L
  /\ ((1 <= n)%nat -> inst_jobs I <> [] /\ exists H, hamiltonian false P I L = Ok H /\ qubits_below n H = true)
  /\ (n = 0%nat -> hamiltonian false P I L = Err ValueError)
  /\ (forall bits, length bits = n -> exists s, translate I L bits = Ok s /\ shaped_like I s).
Proof.
  intros I L P Hwf Hl.
  destruct (encoder_qubits I L Hl) as [n [Hn Htot]]. exists n. split; [exact Hn|]. split; [exact Htot|].
  assert (En : n = e_nq (enc_of I L)).
  { pose proof (n_qubits_enc_of I L Hl) as E. rewrite Hn in E. inversion E; reflexivity. }
  assert (Hd : forall v, In v (e_vars (enc_of I L)) -> 0 < v_dur v) by (intros v; apply enc_of_durations; assumption).
  rewrite (asm_hamiltonian_enc_of false P I L Hl).
  split; [|split].
  - intros H1. rewrite En in H1. pose proof (asm_nq_pos_jobs I L H1) as Hj. split; [exact Hj|].
    pose proof (enc_of_wf I L Hwf Hj Hl) as Hewf.
    exists (hamiltonian_p P L (enc_of I L)). split.
    + apply hamiltonian_of_pure; assumption.
    + rewrite En. apply hamiltonian_p_below; assumption.
  - intros H0. destruct (inst_jobs I) as [|j r] eqn:Ej.
    + rewrite (asm_enc_of_nojobs I L Ej). reflexivity.
    + assert (Hj : inst_jobs I <> []) by (rewrite Ej; discriminate).
      apply hamiltonian_zero_qubits; [congruence | apply enc_of_wf; assumption | assumption].
  - intros bits Hb. destruct (encoder_translate_total I L bits n Hwf Hl Hn Hb) as [s [Hs [H1 H2]]].
    exists s. split; [exact Hs|]. split; assumption.
Qed.

Theorem asm_C15_legacy_empty_sum : forall I L P n, wf_instance I = true -> limit_ok I L -> n_qubits I L = Ok n ->
  (1 <= n)%nat -> (forall j, In j (inst_jobs I) -> length (job_ops j) = 1%nat) ->
  hamiltonian true P I L = Err QiskitError.
Proof.
  intros I L P n Hwf Hl Hn H1 Hone.
  assert (En : n = e_nq (enc_of I L)).
  { pose proof (n_qubits_enc_of I L Hl) as E. rewrite Hn in E. inversion E; reflexivity. }
  rewrite En in H1. pose proof (asm_nq_pos_jobs I L H1) as Hj.
  rewrite (asm_hamiltonian_enc_of true P I L Hl).
  apply hamiltonian_legacy_empty_sum; [assumption | apply enc_of_wf; assumption | |].
  - intros v; apply enc_of_durations; assumption.
  - left. apply enc_of_no_prec_pairs. assumption.
Qed.

(* ------------------------------------------------------------------ C01 *)
Lemma asm_shaped I L bits s : translate I L bits = Ok s -> wf_instance I = true -> shaped I s /\ length bits = e_nq (enc_of I L) /\ limit_ok I L.
Proof.
  intros Hs Hwf. destruct (translate_inv I L bits s Hs) as [Hl [Hlen _]].
  pose proof (n_qubits_enc_of I L Hl) as Hn.
  split; [|split; [exact Hlen | exact Hl]].
  destruct (encoder_translate_total I L bits _ Hwf Hl Hn Hlen) as [s' [Hs' [H1 H2]]].
  rewrite Hs in Hs'. inversion Hs'; subst s'. split; assumption.
Qed.

Theorem asm_C01_energy_decoded : forall I L P bits s H n, wf_instance I = true -> hamiltonian false P I L = Ok H ->
  n_qubits I L = Ok n -> translate I L bits = Ok s -> all_scheduled s = true ->
  (energy H bits == p_prec P * inject_Z (Z.of_nat (n_prec s)) + p_overlap P * inject_Z (Z.of_nat (n_ov s)) + opt_part P L n s)%Q
  /\ (regime P -> 0 <= opt_part P L n s /\ opt_part P L n s <= p_opt P /\ (p_share P < 1 -> 0 < opt_part P L n s))%Q.
Proof.
  intros I L P bits s H n Hwf HH Hn Hs Hall. pose proof (asm_bridge I L P H Hwf HH) as B. split.
  - rewrite (asm_energy_val I L P H bits B). eapply energy_val_decoded; eassumption.
  - intros R. assert (E : n = e_nq (enc_of I L)).
    { pose proof (br_nqubits _ _ _ _ B) as E. rewrite Hn in E. inversion E; reflexivity. }
    unfold regime in R.
    assert (Hn1 : (1 <= n)%nat) by (rewrite E; apply (br_nq _ _ _ _ B)).
    destruct (opt_part_range I L P bits s n Hwf (br_jobs _ _ _ _ B) Hn Hn1 Hs Hall) as [A1 [A2 A3]]; [lra|lra|lra|].
    split; [exact A1|]. split; [exact A2|]. intros Hsh. apply A3; lra.
Qed.

Theorem asm_C01_feasible_range : forall I L P bits s H, wf_instance I = true -> regime P ->
  hamiltonian false P I L = Ok H -> translate I L bits = Ok s -> valid_spec I s ->
  (0 <= energy H bits /\ energy H bits <= p_opt P)%Q.
Proof.
  intros I L P bits s H Hwf R HH Hs Hv. pose proof (asm_bridge I L P H Hwf HH) as B.
  destruct (asm_shaped I L bits s Hs Hwf) as [Hsh _].
  apply (valid_spec_iff_counts I s Hwf Hsh) in Hv. destruct Hv as [Hall [Hp Ho]].
  destruct (asm_C01_energy_decoded I L P bits s H _ Hwf HH (br_nqubits _ _ _ _ B) Hs Hall) as [E Rg].
  destruct (Rg R) as [A1 [A2 _]]. rewrite Hp, Ho in E. cbn [Z.of_nat] in E.
  change (inject_Z 0) with 0%Q in E. lra.
Qed.

Lemma asm_exists_unscheduled (s : schedule) : all_scheduled s = false ->
  exists kv p, In kv s /\ In p (snd kv) /\ snd p = None.
Proof.
  induction s as [|kv r IH]; cbn; [discriminate|].
  destruct (forallb is_sched (snd kv)) eqn:E; cbn.
  - intros Hr. destruct (IH Hr) as [kv' [p [H1 H2]]]. exists kv', p. tauto.
  - intros _. clear IH. assert (exists p, In p (snd kv) /\ snd p = None) as [p [H1 H2]].
    { induction (snd kv) as [|p l IHl]; cbn in E; [discriminate|].
      unfold is_sched in E at 1. destruct (snd p) eqn:Ep; cbn in E.
      - destruct (IHl E) as [p' [H1 H2]]. exists p'. cbn. tauto.
      - exists p. cbn. tauto. }
    exists kv, p. tauto.
Qed.

Lemma asm_Forall2_In_r {A B} (R : A -> B -> Prop) l1 l2 y : Forall2 R l1 l2 -> In y l2 -> exists x, In x l1 /\ R x y.
Proof.
  induction 1; cbn; [tauto|]. intros [<-|Hin]; [exists x; tauto|].
  destruct (IHForall2 Hin) as [x' [H1 H2]]. exists x'. tauto.
Qed.

Lemma asm_undecoded_var I L bits s : translate I L bits = Ok s -> all_scheduled s = false ->
  exists v, In v (e_vars (enc_of I L)) /\ value_from_bits v (rev bits) = Ok None.
Proof.
  intros Hs Hall. destruct (translate_inv I L bits s Hs) as [Hl [Hlen [rows [HF [Es _]]]]].
  destruct (asm_exists_unscheduled s Hall) as [[j row] [p [Hkv [Hp Hnone]]]]. cbn in Hp.
  subst s. apply in_combine_r in Hkv.
  destruct (asm_Forall2_In_r _ _ _ _ HF Hkv) as [vs [Hvs HF2]].
  destruct (asm_Forall2_In_r _ _ _ _ HF2 Hp) as [v [Hv [Hval _]]].
  exists v. split.
  - unfold e_vars, enc_of. cbn. apply in_concat. exists vs. split; assumption.
  - rewrite Hval, Hnone. reflexivity.
Qed.

Theorem asm_C01_undecodable : forall I L P bits s H, wf_instance I = true -> regime P ->
  hamiltonian false P I L = Ok H -> translate I L bits = Ok s -> all_scheduled s = false ->
  (2 * p_enc P <= energy H bits /\ p_enc P <= energy H bits)%Q.
Proof.
  intros I L P bits s H Hwf R HH Hs Hall. pose proof (asm_bridge I L P H Hwf HH) as B.
  destruct (asm_undecoded_var I L bits s Hs Hall) as [v [Hv Hnone]].
  destruct (translate_inv I L bits s Hs) as [Hl [Hlen _]].
  assert (Hanti : (1 <= n_antiwalls v (state_of (rev bits)))%nat).
  { apply undecoded_antiwall; [|exact Hnone].
    rewrite rev_length, Hlen. apply (vars_of_jobs_wf I L v Hl). exact Hv. }
  assert (E2 : (2 * p_enc P <= energy H bits)%Q).
  { rewrite (asm_energy_val I L P H bits B).
    apply energy_val_undecodable; [apply (br_struct _ _ _ _ B) | apply asm_regime_pen_ok; exact R |].
    exists v. split; assumption. }
  split; [exact E2|]. unfold regime in R. lra.
Qed.

Lemma asm_injZ_ge1 k : (1 <= k)%nat -> (1 <= inject_Z (Z.of_nat k))%Q.
Proof. intros H. change 1%Q with (inject_Z 1). rewrite <- Zle_Qle. lia. Qed.

Lemma asm_injZ_ge0 k : (0 <= inject_Z (Z.of_nat k))%Q.
Proof. change 0%Q with (inject_Z 0). rewrite <- Zle_Qle. lia. Qed.

(* the penalty part of a decoded, infeasible state *)
Lemma asm_penalty_arith (Pp Po W x y o : Q) :
  (0 < W -> W <= Pp -> W <= Po -> 0 <= x -> 0 <= y -> (1 <= x \/ 1 <= y) -> 0 <= o ->
   ((W < Pp /\ W < Po) \/ 0 < o) -> W < Pp * x + Po * y + o)%Q.
Proof.
  intros HW Hp Ho Hx Hy Hxy Hopt Hstrict.
  assert (0 <= Pp * x)%Q by (apply Qmult_le_0_compat; lra).
  assert (0 <= Po * y)%Q by (apply Qmult_le_0_compat; lra).
  destruct Hxy as [H1|H1].
  - assert (Pp * 1 <= Pp * x)%Q by (apply Qmult_le_l; lra). lra.
  - assert (Po * 1 <= Po * y)%Q by (apply Qmult_le_l; lra). lra.
Qed.

Lemma asm_valid_dec I s : wf_instance I = true -> shaped I s -> valid_spec I s \/ ~ valid_spec I s.
Proof.
  intros Hwf Hsh. pose proof (valid_spec_iff_counts I s Hwf Hsh) as Hiff.
  destruct (all_scheduled s) eqn:Ea; [|right; intros Hv; apply Hiff in Hv; destruct Hv; discriminate].
  destruct (n_prec s) eqn:Ep; [|right; intros Hv; apply Hiff in Hv; destruct Hv as [_ [? _]]; discriminate].
  destruct (n_ov s) eqn:Eo; [|right; intros Hv; apply Hiff in Hv; destruct Hv as [_ [_ ?]]; discriminate].
  left. apply Hiff. auto.
Qed.

(* an infeasible state lies strictly above the optimisation weight *)
Lemma asm_invalid_above : forall I L P b2 s2 H, wf_instance I = true -> regime P ->
  hamiltonian false P I L = Ok H -> translate I L b2 = Ok s2 -> ~ valid_spec I s2 ->
  ((p_opt P < p_prec P /\ p_opt P < p_overlap P) \/ p_share P < 1)%Q -> (p_opt P < energy H b2)%Q.
Proof.
  intros I L P b2 s2 H Hwf R HH Hs Hnv Hstrict. pose proof (asm_bridge I L P H Hwf HH) as B.
  destruct (asm_shaped I L b2 s2 Hs Hwf) as [Hsh _].
  destruct (all_scheduled s2) eqn:Hall.
  - destruct (asm_C01_energy_decoded I L P b2 s2 H _ Hwf HH (br_nqubits _ _ _ _ B) Hs Hall) as [E Rg].
    destruct (Rg R) as [A1 [A2 A3]]. rewrite E. unfold regime in R.
    apply asm_penalty_arith; try lra; try apply asm_injZ_ge0.
    destruct (n_prec s2) eqn:Ep.
    + destruct (n_ov s2) eqn:Eo.
      * exfalso. apply Hnv. apply (valid_spec_iff_counts I s2 Hwf Hsh). auto.
      * right. apply asm_injZ_ge1. lia.
    + left. apply asm_injZ_ge1. lia.
  - destruct (asm_C01_undecodable I L P b2 s2 H Hwf R HH Hs Hall) as [E2 _]. unfold regime in R. lra.
Qed.

Theorem asm_C01_separation : forall I L P b1 b2 s1 s2 H, wf_instance I = true -> regime P ->
  hamiltonian false P I L = Ok H -> translate I L b1 = Ok s1 -> valid_spec I s1 ->
  translate I L b2 = Ok s2 -> ~ valid_spec I s2 ->
  ((p_opt P < p_prec P /\ p_opt P < p_overlap P) \/ p_share P < 1)%Q -> (energy H b1 < energy H b2)%Q.
Proof.
  intros I L P b1 b2 s1 s2 H Hwf R HH Hs1 Hv1 Hs2 Hnv Hstrict.
  destruct (asm_C01_feasible_range I L P b1 s1 H Hwf R HH Hs1 Hv1) as [_ Hle].
  pose proof (asm_invalid_above I L P b2 s2 H Hwf R HH Hs2 Hnv Hstrict). lra.
Qed.

(* ------------------------------------------------------------------ C02 *)
Lemma asm_max_list' l : max_list' l = max_list l.
Proof. induction l as [|x t IH]; cbn; [reflexivity|]. rewrite IH. reflexivity. Qed.

Lemma asm_opt_share0 P L n s : (p_share P == 0)%Q -> (opt_part P L n s == p_opt P * opt_makespan L s)%Q.
Proof. intros Hsh. unfold opt_part. rewrite Hsh. ring. Qed.

Lemma asm_jobs_count I : inst_jobs I <> [] -> 1 <= Z.of_nat (length (inst_jobs I)).
Proof. destruct (inst_jobs I); [congruence|]. cbn [length]. lia. Qed.

(* facts about a feasible decoded state *)
Lemma asm_valid_facts I L P bits s H : wf_instance I = true -> regime P -> (p_share P == 0)%Q ->
  hamiltonian false P I L = Ok H -> translate I L bits = Ok s -> valid_spec I s ->
  (energy H bits == p_opt P * mk_energy (Z.of_nat (length (inst_jobs I))) L (last_ends s))%Q
  /\ makespan_of s = max_list' (last_ends s)
  /\ length (last_ends s) = length (inst_jobs I)
  /\ (forall e, In e (last_ends s) -> 0 <= e).
Proof.
  intros Hwf R Hsh0 HH Hs Hv. pose proof (asm_bridge I L P H Hwf HH) as B.
  destruct (asm_shaped I L bits s Hs Hwf) as [Hsh _].
  pose proof Hv as Hc. apply (valid_spec_iff_counts I s Hwf Hsh) in Hc. destruct Hc as [Hall [Hp Ho]].
  destruct (asm_C01_energy_decoded I L P bits s H _ Hwf HH (br_nqubits _ _ _ _ B) Hs Hall) as [E _].
  rewrite Hp, Ho in E. cbn [Z.of_nat] in E. change (inject_Z 0) with 0%Q in E.
  split; [|split; [|split]].
  - rewrite E, (asm_opt_share0 P L _ s Hsh0), (opt_makespan_mk_energy I L bits s Hwf Hs Hall). ring.
  - rewrite asm_max_list'. apply (makespan_last_ops I s Hwf Hsh Hall Hp).
  - apply last_ends_length; assumption.
  - intros e He. apply (last_ends_bounds I L bits s e Hwf Hs He).
Qed.

Theorem asm_C02_makespan_monotone : forall I L P b1 b2 s1 s2 H M1 M2, wf_instance I = true -> regime P ->
  (p_share P == 0)%Q -> hamiltonian false P I L = Ok H ->
  translate I L b1 = Ok s1 -> translate I L b2 = Ok s2 -> valid_spec I s1 -> valid_spec I s2 ->
  makespan_of s1 = Some M1 -> makespan_of s2 = Some M2 -> M1 < M2 -> (energy H b1 < energy H b2)%Q.
Proof.
  intros I L P b1 b2 s1 s2 H M1 M2 Hwf R Hsh0 HH Hs1 Hs2 Hv1 Hv2 Hm1 Hm2 Hlt.
  pose proof (asm_bridge I L P H Hwf HH) as B.
  destruct (asm_valid_facts I L P b1 s1 H Hwf R Hsh0 HH Hs1 Hv1) as [E1 [X1 [Len1 Pos1]]].
  destruct (asm_valid_facts I L P b2 s2 H Hwf R Hsh0 HH Hs2 Hv2) as [E2 [X2 [_ Pos2]]].
  rewrite Hm1 in X1. rewrite Hm2 in X2.
  assert (Hmk : (mk_energy (Z.of_nat (length (inst_jobs I))) L (last_ends s1)
                 < mk_energy (Z.of_nat (length (inst_jobs I))) L (last_ends s2))%Q).
  { apply (mk_energy_lt _ L _ _ M1 M2); auto.
    - apply asm_jobs_count, (br_jobs _ _ _ _ B).
    - pose proof (br_L _ _ _ _ B). lia. }
  rewrite E1, E2. apply Qmult_lt_l; [|exact Hmk]. unfold regime in R. tauto.
Qed.

Lemma asm_makespan_some I L P bits s H : wf_instance I = true -> regime P -> (p_share P == 0)%Q ->
  hamiltonian false P I L = Ok H -> translate I L bits = Ok s -> valid_spec I s -> exists M, makespan_of s = Some M.
Proof.
  intros Hwf R Hsh0 HH Hs Hv. pose proof (asm_bridge I L P H Hwf HH) as B.
  destruct (asm_valid_facts I L P bits s H Hwf R Hsh0 HH Hs Hv) as [_ [X [Len _]]].
  rewrite X. destruct (max_list' (last_ends s)) as [M|] eqn:E; [exists M; reflexivity|].
  apply max_list'_nil_iff in E. rewrite E in Len. cbn in Len.
  pose proof (asm_jobs_count I (br_jobs _ _ _ _ B)). lia.
Qed.

Theorem asm_C02_ground_state : forall I L P H n bits, wf_instance I = true -> regime P -> (p_share P == 0)%Q ->
  hamiltonian false P I L = Ok H -> n_qubits I L = Ok n -> ground_state H n bits ->
  (exists s0, feasible_within I L s0) ->
  exists s M, translate I L bits = Ok s /\ valid_spec I s /\ makespan_of s = Some M
              /\ forall s' M', feasible_within I L s' -> makespan_of s' = Some M' -> M <= M'.
Proof.
  intros I L P H n bits Hwf R Hsh0 HH Hn [Hlen Hmin] [s0 [[F1 F2] [Fv Fb]]].
  pose proof (asm_bridge I L P H Hwf HH) as B. pose proof (br_limit _ _ _ _ B) as Hl.
  destruct (encoder_translate_total I L bits n Hwf Hl Hn Hlen) as [s [Hs [Sh1 Sh2]]].
  assert (Hsh : shaped I s) by (split; assumption).
  assert (Hv : valid_spec I s).
  { destruct (asm_valid_dec I s Hwf Hsh) as [Hv|Hnv]; [exact Hv|]. exfalso.
    destruct (encoder_complete_valid I L s0 n Hwf Hn F1 F2 Fv Fb) as [Hlen0 Hs0].
    destruct (asm_C01_feasible_range I L P _ s0 H Hwf R HH Hs0 Fv) as [_ Hle].
    assert (Hst : ((p_opt P < p_prec P /\ p_opt P < p_overlap P) \/ p_share P < 1)%Q) by (right; lra).
    pose proof (asm_invalid_above I L P bits s H Hwf R HH Hs Hnv Hst) as Habove.
    pose proof (Hmin _ Hlen0). lra. }
  destruct (asm_makespan_some I L P bits s H Hwf R Hsh0 HH Hs Hv) as [M HM].
  exists s, M. split; [exact Hs|]. split; [exact Hv|]. split; [exact HM|].
  intros s' M' [[G1 G2] [Gv Gb]] HM'.
  destruct (Z_lt_le_dec M' M) as [Hlt|Hge]; [exfalso | exact Hge].
  destruct (encoder_complete_valid I L s' n Hwf Hn G1 G2 Gv Gb) as [Hlen' Hs'].
  pose proof (asm_C02_makespan_monotone I L P _ bits s' s H M' M Hwf R Hsh0 HH Hs' Hs Gv Hv HM' HM Hlt) as Hlt'.
  pose proof (Hmin _ Hlen'). lra.
Qed.

(* ------------------------------------------------------------------ the hypotheses are satisfiable: the suite's 2x2 instance *)
Lemma asm_regime_default : regime default_pen.
Proof. unfold regime, default_pen. cbn [p_enc p_overlap p_prec p_opt p_share]. repeat split; lra. Qed.

Lemma asm_ex22_verdict s b : result_ok ex22 s = true -> is_valid_impl ex22 s = Ok b ->
  (b = true -> valid_spec ex22 s) /\ (b = false -> ~ valid_spec ex22 s).
Proof.
  intros Hres E. assert (Hwf : wf_instance ex22 = true) by (vm_compute; reflexivity).
  destruct (is_valid_impl_verdict ex22 s Hwf Hres) as [b' [E' Hb]]. rewrite E in E'. inversion E'; subst b'.
  split; [intros ->; apply Hb; reflexivity|]. intros -> Hv. apply Hb in Hv. discriminate.
Qed.

Lemma asm_C01_nonvacuous :
  wf_instance ex22 = true /\ regime default_pen /\ (p_share default_pen < 1)%Q
  /\ is_ok (hamiltonian false default_pen ex22 4) = true /\ n_qubits ex22 4 = Ok 8%nat
  /\ (exists s, translate ex22 4 [false; false; false; false; false; false; false; false] = Ok s /\ valid_spec ex22 s)
  /\ (exists s, translate ex22 4 [false; false; false; false; false; false; false; true] = Ok s
                /\ all_scheduled s = true /\ ~ valid_spec ex22 s)
  /\ (exists s, translate ex22 4 [true; false; false; false; false; false; false; false] = Ok s
                /\ all_scheduled s = false /\ ~ valid_spec ex22 s).
Proof.
  split; [vm_compute; reflexivity|]. split; [exact asm_regime_default|].
  split; [unfold default_pen; cbn [p_share]; lra|].
  split; [vm_compute; reflexivity|]. split; [vm_compute; reflexivity|].
  split; [|split].
  - eexists. split; [vm_compute; reflexivity|].
    eapply asm_ex22_verdict; [| |reflexivity]; vm_compute; reflexivity.
  - eexists. split; [vm_compute; reflexivity|]. split; [vm_compute; reflexivity|].
    eapply asm_ex22_verdict; [| |reflexivity]; vm_compute; reflexivity.
  - eexists. split; [vm_compute; reflexivity|]. split; [vm_compute; reflexivity|].
    eapply asm_ex22_verdict; [| |reflexivity]; vm_compute; reflexivity.
Qed.

(* a ground state by enumeration of all bitstrings of the given length *)
Fixpoint asm_all_bits (n : nat) : list (list bool) :=
  match n with
  | O => [[]]
  | S k => flat_map (fun b => [false :: b; true :: b]) (asm_all_bits k)
  end.

Lemma asm_all_bits_complete : forall b : list bool, In b (asm_all_bits (length b)).
Proof.
  induction b as [|x b IH]; cbn [length asm_all_bits]; [left; reflexivity|].
  apply in_flat_map. exists b. split; [exact IH|]. destruct x; cbn; tauto.
Qed.

Lemma asm_ground_by_enum (r : result opexpr) n b0 : length b0 = n ->
  match r with
  | Ok H => forallb (fun b => Qle_bool (energy H b0) (energy H b)) (asm_all_bits n)
  | Err _ => false
  end = true ->
  exists H, r = Ok H /\ ground_state H n b0.
Proof.
  intros Hlen Hall. destruct r as [H|e]; [|discriminate]. exists H. split; [reflexivity|]. split; [exact Hlen|].
  intros b Hb. apply Qle_bool_iff. rewrite forallb_forall in Hall. apply Hall. rewrite <- Hb. apply asm_all_bits_complete.
Qed.

Lemma asm_C02_nonvacuous :
  wf_instance ex22 = true /\ regime default_pen /\ (p_share default_pen == 0)%Q
  /\ is_ok (hamiltonian false default_pen ex22 4) = true /\ n_qubits ex22 4 = Ok 8%nat
  /\ (exists s1 s2,
        translate ex22 4 [false; false; false; false; false; false; false; false] = Ok s1
        /\ translate ex22 4 [false; true; false; false; false; false; false; false] = Ok s2
        /\ valid_spec ex22 s1 /\ valid_spec ex22 s2 /\ makespan_of s1 = Some 2 /\ makespan_of s2 = Some 3)
  /\ feasible_within ex22 4 ex22_sched
  /\ (exists H, hamiltonian false default_pen ex22 4 = Ok H
                /\ ground_state H 8 [false; false; false; false; false; false; false; false]).
Proof.
  split; [vm_compute; reflexivity|]. split; [exact asm_regime_default|].
  split; [unfold default_pen; cbn [p_share]; lra|].
  split; [vm_compute; reflexivity|]. split; [vm_compute; reflexivity|].
  split; [|split].
  - eexists. eexists. split; [vm_compute; reflexivity|]. split; [vm_compute; reflexivity|].
    split; [|split; [|split]].
    + eapply asm_ex22_verdict; [| |reflexivity]; vm_compute; reflexivity.
    + eapply asm_ex22_verdict; [| |reflexivity]; vm_compute; reflexivity.
    + vm_compute; reflexivity.
    + vm_compute; reflexivity.
  - destruct ex22_complete_hyp as [_ [_ [H1 [H2 [H3 H4]]]]]. split; [split; assumption|]. split; assumption.
  - apply asm_ground_by_enum; [reflexivity|]. vm_compute. reflexivity.
Qed.
