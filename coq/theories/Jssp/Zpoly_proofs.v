(* Soundness of the multilinear normal form of Jssp/Zpoly.v: [eval_nf (normalize e) b == eval e b], and the
   auxiliary facts about [eval], [eval_red], [qubits_below]. *)
From QV Require Import Jssp.Zpoly.
From Coq Require Import Lqa Lia.
From Coq Require Import Setoid Morphisms.
Open Scope Q_scope.

(* ------------------------------------------------------------------ 1. induction principle *)
Lemma opexpr_ind' : forall P : opexpr -> Prop,
  P OpI -> (forall q, P (OpZ q)) -> (forall c e, P e -> P (OpScale c e)) ->
  (forall a b, P a -> P b -> P (OpAdd a b)) -> (forall a b, P a -> P b -> P (OpMul a b)) ->
  (forall es, Forall P es -> P (OpSum es)) -> forall e, P e.
Proof.
  intros P HI HZ HS HA HM HSum.
  fix IH 1. intros e. destruct e as [|q|c e|a b|a b|es].
  - exact HI.
  - apply HZ.
  - apply HS. apply IH.
  - apply HA; apply IH.
  - apply HM; apply IH.
  - apply HSum. induction es as [|x xs IHxs].
    + constructor.
    + constructor; [apply IH | exact IHxs].
Qed.

(* ------------------------------------------------------------------ 3. convenient forms of eval on sums *)
Lemma eval_sum : forall es b, eval (OpSum es) b == fold_right (fun e acc => eval e b + acc) 0 es.
Proof. intros; reflexivity. Qed.

Lemma eval_sum_nil : forall b, eval (OpSum []) b == 0.
Proof. intros; reflexivity. Qed.

Lemma eval_sum_cons : forall e es b, eval (OpSum (e :: es)) b == eval e b + eval (OpSum es) b.
Proof. intros; reflexivity. Qed.

Lemma eval_sum_app : forall l1 l2 b, eval (OpSum (l1 ++ l2)) b == eval (OpSum l1) b + eval (OpSum l2) b.
Proof.
  intros l1 l2 b. induction l1 as [|x xs IH].
  - rewrite app_nil_l, eval_sum_nil. ring.
  - rewrite <- app_comm_cons, !eval_sum_cons, IH. ring.
Qed.

Lemma eval_sub : forall x y b, eval (OpSub x y) b == eval x b - eval y b.
Proof. intros; unfold OpSub; simpl; ring. Qed.

(* ------------------------------------------------------------------ 2. eval_red *)
Lemma eval_red_correct : forall e b, eval_red e b == eval e b.
Proof.
  intros e b. induction e as [|q|c e IH|x y IHx IHy|x y IHx IHy|es IH] using opexpr_ind'; cbn [eval eval_red].
  - reflexivity.
  - reflexivity.
  - rewrite Qred_correct, IH. reflexivity.
  - rewrite Qred_correct, IHx, IHy. reflexivity.
  - rewrite Qred_correct, IHx, IHy. reflexivity.
  - induction IH as [|x xs Hx _ IHxs]; cbn [fold_right].
    + reflexivity.
    + rewrite Qred_correct, Hx, IHxs. reflexivity.
Qed.

(* ------------------------------------------------------------------ 4. monomials *)
Lemma zsign_sq : forall x, zsign x * zsign x == 1.
Proof. intros [|]; reflexivity. Qed.

Lemma eval_mono_nil : forall b, eval_mono [] b = 1.
Proof. reflexivity. Qed.

Lemma eval_mono_cons : forall x m b, eval_mono (x :: m) b = zsign (b x) * eval_mono m b.
Proof. reflexivity. Qed.

Lemma mono_mul_nil_l : forall m, mono_mul [] m = m.
Proof. reflexivity. Qed.

Lemma mono_mul_nil_r : forall m, mono_mul m [] = m.
Proof. intros [|x xs]; reflexivity. Qed.

Lemma mono_mul_cons : forall x xs y ys,
  mono_mul (x :: xs) (y :: ys) =
  if (x <? y)%nat then x :: mono_mul xs (y :: ys)
  else if (y <? x)%nat then y :: mono_mul (x :: xs) ys
  else mono_mul xs ys.
Proof. reflexivity. Qed.

Lemma mono_mul_sound : forall m1 m2 b, eval_mono (mono_mul m1 m2) b == eval_mono m1 b * eval_mono m2 b.
Proof.
  intros m1. induction m1 as [|x xs IH1]; intros m2 b.
  - rewrite mono_mul_nil_l, eval_mono_nil. ring.
  - induction m2 as [|y ys IH2].
    + rewrite mono_mul_nil_r, eval_mono_nil. ring.
    + rewrite mono_mul_cons.
      destruct (x <? y)%nat eqn:Exy.
      * rewrite !eval_mono_cons, IH1, eval_mono_cons. ring.
      * destruct (y <? x)%nat eqn:Eyx.
        -- rewrite (eval_mono_cons y (mono_mul (x :: xs) ys)), IH2, !eval_mono_cons. ring.
        -- apply Nat.ltb_ge in Exy. apply Nat.ltb_ge in Eyx.
           assert (x = y) by lia. subst y.
           rewrite IH1, !eval_mono_cons.
           transitivity ((zsign (b x) * zsign (b x)) * (eval_mono xs b * eval_mono ys b)).
           ++ rewrite zsign_sq. ring.
           ++ ring.
Qed.

(* ------------------------------------------------------------------ 5. polynomials *)
Lemma mono_eqb_eq : forall m m', mono_eqb m m' = true -> m = m'.
Proof. intros m m' H. apply (list_eqb_eq Nat.eqb Nat.eqb_eq) in H. exact H. Qed.

Lemma eval_nf_nil : forall b, eval_nf [] b = 0.
Proof. reflexivity. Qed.

Lemma eval_nf_cons : forall m c p b, eval_nf ((m, c) :: p) b = c * eval_mono m b + eval_nf p b.
Proof. reflexivity. Qed.

Lemma poly_add1_sound : forall m c p b, eval_nf (poly_add1 m c p) b == c * eval_mono m b + eval_nf p b.
Proof.
  intros m c p b. induction p as [|[m' c'] r IH]; cbn [poly_add1].
  - rewrite eval_nf_cons. reflexivity.
  - destruct (mono_eqb m m') eqn:E.
    + apply mono_eqb_eq in E. subst m'. rewrite !eval_nf_cons, Qred_correct. ring.
    + rewrite !eval_nf_cons, IH. ring.
Qed.

Lemma poly_add_sound : forall p1 p2 b, eval_nf (poly_add p1 p2) b == eval_nf p1 b + eval_nf p2 b.
Proof.
  intros p1 p2 b. unfold poly_add. revert p1. induction p2 as [|[m c] r IH]; intros p1; cbn [fold_left fst snd].
  - rewrite eval_nf_nil. ring.
  - rewrite IH, poly_add1_sound, eval_nf_cons. ring.
Qed.

Lemma poly_scale_sound : forall c p b, eval_nf (poly_scale c p) b == c * eval_nf p b.
Proof.
  intros c p b. unfold poly_scale. induction p as [|[m c'] r IH]; cbn [map].
  - rewrite eval_nf_nil. ring.
  - rewrite !eval_nf_cons, IH, Qred_correct. cbn [fst snd]. ring.
Qed.

Lemma poly_mul_inner_sound : forall m1 c1 p2 acc b,
  eval_nf (fold_left (fun acc' mc2 => poly_add1 (mono_mul m1 (fst mc2)) (Qred (c1 * snd mc2)) acc') p2 acc) b
  == eval_nf acc b + c1 * eval_mono m1 b * eval_nf p2 b.
Proof.
  intros m1 c1 p2. induction p2 as [|[m2 c2] r IH]; intros acc b; cbn [fold_left fst snd].
  - rewrite eval_nf_nil. ring.
  - rewrite IH, poly_add1_sound, Qred_correct, mono_mul_sound, eval_nf_cons. cbn [fst snd]. ring.
Qed.

Lemma poly_mul_outer_sound : forall p1 p2 acc b,
  eval_nf (fold_left (fun acc mc1 =>
    fold_left (fun acc' mc2 => poly_add1 (mono_mul (fst mc1) (fst mc2)) (Qred (snd mc1 * snd mc2)) acc') p2 acc) p1 acc) b
  == eval_nf acc b + eval_nf p1 b * eval_nf p2 b.
Proof.
  intros p1 p2. induction p1 as [|[m1 c1] r IH]; intros acc b; cbn [fold_left fst snd].
  - rewrite eval_nf_nil. ring.
  - rewrite IH, poly_mul_inner_sound, eval_nf_cons. ring.
Qed.

Lemma poly_mul_sound : forall p1 p2 b, eval_nf (poly_mul p1 p2) b == eval_nf p1 b * eval_nf p2 b.
Proof.
  intros p1 p2 b. unfold poly_mul. rewrite poly_mul_outer_sound, eval_nf_nil. ring.
Qed.

(* ------------------------------------------------------------------ 6. normalize *)
Lemma normalize_sum_sound : forall es b,
  Forall (fun e => forall b, eval_nf (normalize e) b == eval e b) es ->
  forall acc, eval_nf (fold_left (fun acc e' => poly_add acc (normalize e')) es acc) b
              == eval_nf acc b + eval (OpSum es) b.
Proof.
  intros es b H. induction H as [|x xs Hx _ IH]; intros acc; cbn [fold_left].
  - rewrite eval_sum_nil. ring.
  - rewrite IH, poly_add_sound, Hx, eval_sum_cons. ring.
Qed.

Theorem normalize_sound : forall e b, eval_nf (normalize e) b == eval e b.
Proof.
  intros e. induction e as [|q|c e IH|x y IHx IHy|x y IHx IHy|es IH] using opexpr_ind'; intros b.
  - simpl. ring.
  - simpl. unfold eval_nf, eval_mono. simpl. ring.
  - cbn [normalize]. rewrite poly_scale_sound, IH. reflexivity.
  - cbn [normalize]. rewrite poly_add_sound, IHx, IHy. reflexivity.
  - cbn [normalize]. rewrite poly_mul_sound, IHx, IHy. reflexivity.
  - cbn [normalize]. rewrite (normalize_sum_sound es b IH), eval_nf_nil. ring.
Qed.

(* ------------------------------------------------------------------ 7. eval depends only on the qubits below n *)
Lemma qubits_below_eval_ext_eq : forall n e b1 b2,
  qubits_below n e = true -> (forall q, (q < n)%nat -> b1 q = b2 q) -> eval e b1 = eval e b2.
Proof.
  intros n e b1 b2 Hq Hb. revert Hq.
  induction e as [|q|c e IH|x y IHx IHy|x y IHx IHy|es IH] using opexpr_ind'; simpl; intros Hq.
  - reflexivity.
  - apply Nat.ltb_lt in Hq. rewrite (Hb q Hq). reflexivity.
  - rewrite (IH Hq). reflexivity.
  - apply andb_true_iff in Hq as [H1 H2]. rewrite (IHx H1), (IHy H2). reflexivity.
  - apply andb_true_iff in Hq as [H1 H2]. rewrite (IHx H1), (IHy H2). reflexivity.
  - induction IH as [|x xs Hx _ IHxs]; simpl in *.
    + reflexivity.
    + apply andb_true_iff in Hq as [H1 H2]. rewrite (Hx H1), (IHxs H2). reflexivity.
Qed.

Lemma qubits_below_eval_ext : forall n e b1 b2,
  qubits_below n e = true -> (forall q, (q < n)%nat -> b1 q = b2 q) -> eval e b1 == eval e b2.
Proof. intros n e b1 b2 Hq Hb. rewrite (qubits_below_eval_ext_eq n e b1 b2 Hq Hb). reflexivity. Qed.

Lemma qubits_below_eval_red_ext_eq : forall n e b1 b2,
  qubits_below n e = true -> (forall q, (q < n)%nat -> b1 q = b2 q) -> eval_red e b1 = eval_red e b2.
Proof.
  intros n e b1 b2 Hq Hb. revert Hq.
  induction e as [|q|c e IH|x y IHx IHy|x y IHx IHy|es IH] using opexpr_ind'; simpl; intros Hq.
  - reflexivity.
  - apply Nat.ltb_lt in Hq. rewrite (Hb q Hq). reflexivity.
  - rewrite (IH Hq). reflexivity.
  - apply andb_true_iff in Hq as [H1 H2]. rewrite (IHx H1), (IHy H2). reflexivity.
  - apply andb_true_iff in Hq as [H1 H2]. rewrite (IHx H1), (IHy H2). reflexivity.
  - induction IH as [|x xs Hx _ IHxs]; simpl in *.
    + reflexivity.
    + apply andb_true_iff in Hq as [H1 H2]. rewrite (Hx H1), (IHxs H2). reflexivity.
Qed.

Print Assumptions normalize_sound.
