(* Correspondence entry points shared by C15 / C01 / C02 (their per-property files C15Check.v, C01Check.v, C02Check.v
   re-export this one).  Each case carries what the implementation answered; [check_case] says whether the model
   answers the same.  Executable definitions only. *)
From QV Require Export Jssp.Encoder.
Open Scope Z_scope.
Open Scope list_scope.

(* all bitstrings of length n in the order of format(k, '0nb'), k = 0 .. 2^n-1 *)
Fixpoint all_bits (n : nat) : list (list bool) :=
  match n with
  | O => [[]]
  | S m => map (cons false) (all_bits m) ++ map (cons true) (all_bits m)
  end.

(* a decoded schedule flattened to one number per operation: start time, or -1 for an unscheduled operation *)
Definition flat_starts (s : schedule) : list Z :=
  concat (map (fun kv => map (fun p => match snd p with Some t => t | None => -1 end) (snd kv)) s).

Definition err_name {A} (r : result A) : string := match r with Ok _ => ""%string | Err e => e end.

(* (qubit_start_index, values) of every variable, in construction order *)
Definition var_table (e : enc) : list (nat * list Z) := map (fun v => (v_start v, v_values v)) (e_vars e).

(* the final constraint counts per variable and value (for a Hamiltonian that could be built) *)
Definition counts_of (e : enc) : result (list (list nat)) :=
  do pp <- prec_plans e; do op <- overlap_plans e;
  let f := count_table (pp ++ op) in
  Ok (map (fun v => map (f (v_id v)) (v_values v)) (e_vars e)).

Definition bits_of_nat_list (l : list nat) : list bool := map (fun x => negb (x =? 0)%nat) l.

Inductive jcase :=
(* n_qubits: Ok n, or the exception class *)
| JQubits (I : instance) (L : Z) (expected : result nat)
(* private state after _prepare_encoding: variables (start index, values) *)
| JVars (I : instance) (L : Z) (vars : list (nat * list Z))
(* get_problem_hamiltonian: "" and the collected terms (qubits carrying Z, coefficient), or the exception class;
   tol = absolute tolerance for coefficients; counts = _operation_constraint_counts afterwards *)
| JHam (legacy : bool) (I : instance) (L : Z) (P : penalties) (err : string) (terms : poly) (tol : Q) (counts : list (list nat))
(* translate_result_bitstring on all bitstrings of length n_qubits, in counting order *)
| JDecodeAll (I : instance) (L : Z) (starts : list (list Z))
(* translate_result_bitstring on one bitstring (1 = '1'): Ok flat starts or exception class *)
| JDecode (I : instance) (L : Z) (bits : list nat) (expected : result (list Z))
(* diagonal entries: (bitstring, value of the implementation's operator), tolerance *)
| JEnergy (I : instance) (L : Z) (P : penalties) (samples : list (list nat * Q)) (tol : Q)
(* as JEnergy, tolerance relative to each sample's own value: |model - x| <= rel * |x| (large-slack cases, where what
   matters are makespan weights many orders of magnitude below the largest coefficient) *)
| JEnergyRel (I : instance) (L : Z) (P : penalties) (samples : list (list nat * Q)) (rel : Q).

Definition check_case (c : jcase) : bool :=
  match c with
  | JQubits ins L x => result_eqb Nat.eqb (n_qubits ins L) x
  | JVars ins L vars =>
      match prepare_encoding ins L with
      | Ok e => list_eqb (fun a b => Nat.eqb (fst a) (fst b) && list_eqb Z.eqb (snd a) (snd b)) (var_table e) vars
      | Err _ => false
      end
  | JHam legacy ins L P err terms tol counts =>
      match hamiltonian legacy P ins L with
      | Err e => String.eqb e err
      | Ok H =>
          (* nested ifs, not &&: vm_compute evaluates arguments eagerly and normalising is the expensive part *)
          if negb (String.eqb err "") then false
          else if negb (poly_close tol (normalize H) terms) then false
          else if negb (match n_qubits ins L with Ok n => qubits_below n H | Err _ => false end) then false
          else match prepare_encoding ins L with
               | Ok e => result_eqb (list_eqb (list_eqb Nat.eqb)) (counts_of e) (Ok counts)
               | Err _ => false
               end
      end
  | JDecodeAll ins L starts =>
      match n_qubits ins L with
      | Err _ => false
      | Ok n =>
          list_eqb (option_eqb (list_eqb Z.eqb))
                   (map (fun bits => match translate ins L bits with Ok s => Some (flat_starts s) | Err _ => None end) (all_bits n))
                   (map Some starts)
      end
  | JDecode ins L bits x =>
      result_eqb (list_eqb Z.eqb)
                 (match translate ins L (bits_of_nat_list bits) with Ok s => Ok (flat_starts s) | Err e => Err e end) x
  | JEnergy ins L P samples tol =>
      match hamiltonian false P ins L with
      | Err _ => false
      | Ok H => forallb (fun bx => Qle_bool (Qabs (eval_red H (state_of (rev (bits_of_nat_list (fst bx)))) - snd bx)) tol) samples
      end
  | JEnergyRel ins L P samples rel =>
      match hamiltonian false P ins L with
      | Err _ => false
      | Ok H => forallb (fun bx => Qle_bool (Qabs (eval_red H (state_of (rev (bits_of_nat_list (fst bx)))) - snd bx)) (Qred (rel * Qabs (snd bx)))) samples
      end
  end.

(* what the model answers, for replay files *)
Definition show_ham (legacy : bool) (I : instance) (L : Z) (P : penalties) : result poly :=
  do H <- hamiltonian legacy P I L; Ok (normalize H).
Definition show_decode (I : instance) (L : Z) (bits : list nat) : result (list Z) :=
  do s <- translate I L (bits_of_nat_list bits); Ok (flat_starts s).
