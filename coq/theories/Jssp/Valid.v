(* Model of JobShopSchedulingResult._is_valid_solution / makespan / valid_schedule, and the
   specification (the JSSP definition) they are compared with.  Definitions only. *)
From QV Require Export Jssp.Instance.
Open Scope Z_scope.

(* a scheduled operation: the operation and its start time *)
Definition sop : Type := operation * Z.
Definition start_of (p : sop) : Z := snd p.
Definition end_of (p : sop) : Z := snd p + op_dur (fst p).
Definition mach_of (p : sop) : string := op_machine (fst p).

(* ensure_all_operations_are_scheduled: over every entry of the schedule dict *)
Definition is_sched (p : psop) : bool := match snd p with Some _ => true | None => false end.
Definition all_scheduled (s : schedule) : bool := forallb (fun kv => forallb is_sched (snd kv)) s.

(* the ScheduledOperations of a row (after the guard above nothing is dropped) *)
Definition strip (row : list psop) : list sop :=
  flat_map (fun p => match snd p with Some t => [(fst p, t)] | None => [] end) row.

(* "if scheduled_operation.start_time < previous_scheduled_operation.end_time: return False" along a list *)
Fixpoint neighbours_ok (l : list sop) : bool :=
  match l with
  | [] => true
  | a :: t => match t with
              | [] => true
              | b :: _ => (end_of a <=? start_of b) && neighbours_ok t
              end
  end.

(* sorted(..., key=start_time): Python's sort is stable; insertion sort that keeps the order of equal keys *)
Fixpoint insert_by_start (x : sop) (l : list sop) : list sop :=
  match l with
  | [] => [x]
  | y :: ys => if start_of x <=? start_of y then x :: l else y :: insert_by_start x ys
  end.
Definition sort_by_start (l : list sop) : list sop := fold_right insert_by_start [] l.

Fixpoint lookup_rows (s : schedule) (js : list job) : option (list (list psop)) :=
  match js with
  | [] => Some []
  | j :: js' => match sched_lookup s j, lookup_rows s js' with
                | Some r, Some rs => Some (r :: rs)
                | _, _ => None
                end
  end.

(* machine_operation_mapping[m], in the order the job loop appends *)
Definition on_machine (m : string) (flat : list sop) : list sop :=
  filter (fun p => String.eqb (mach_of p) m) flat.

Definition is_valid_impl (i : instance) (s : schedule) : result bool :=
  if negb (all_scheduled s) then Ok false
  else match lookup_rows s (inst_jobs i) with
       | None => Err "KeyError"
       | Some rows =>
           let srows := map strip rows in
           let flat := concat srows in
           Ok (forallb neighbours_ok srows
               && forallb (fun m => neighbours_ok (sort_by_start (on_machine m flat))) (inst_machines i))
       end.

Fixpoint last_opt {A} (l : list A) : option A :=
  match l with [] => None | [x] => Some x | _ :: t => last_opt t end.

Fixpoint max_list (l : list Z) : option Z :=
  match l with
  | [] => None
  | x :: t => match max_list t with None => Some x | Some m => Some (Z.max x m) end
  end.

(* makespan: None if invalid, else max over the schedule dict's values of the last operation's end.
   Err "IndexError" for an empty row, Err "ValueError" for max() of nothing (an instance without jobs). *)
Definition makespan_impl (i : instance) (s : schedule) : result (option Z) :=
  do v <- is_valid_impl i s;
  if negb v then Ok None
  else do ends <- mapM (fun kv => match last_opt (strip (snd kv)) with
                                  | Some p => Ok (end_of p)
                                  | None => Err "IndexError" end) s;
       match max_list ends with
       | Some m => Ok (Some m)
       | None => Err "ValueError"
       end.

(* valid_schedule accessor: raises iff invalid *)
Definition valid_schedule_impl (i : instance) (s : schedule) : result schedule :=
  do v <- is_valid_impl i s;
  if v then Ok s else Err JSSPException.

(* ---------------------------------------------------------------- specification *)
Definition no_overlap (a b : sop) : Prop := end_of a <= start_of b \/ end_of b <= start_of a.

Definition precedence_ok (row : list sop) : Prop :=
  forall k a b, nth_error row k = Some a -> nth_error row (S k) = Some b -> end_of a <= start_of b.

Record valid_spec (i : instance) (s : schedule) : Prop := {
  vs_all_scheduled : forall kv p, In kv s -> In p (snd kv) -> snd p <> None;
  vs_precedence : forall rows, lookup_rows s (inst_jobs i) = Some rows ->
                  forall row, In row rows -> precedence_ok (strip row);
  vs_machines : forall rows, lookup_rows s (inst_jobs i) = Some rows ->
                ForallOrdPairs (fun a b => mach_of a = mach_of b -> no_overlap a b) (concat (map strip rows))
}.

(* latest end time over all operations *)
Definition latest_end (rows : list (list sop)) : option Z := max_list (map end_of (concat rows)).
