(* C01, decoded states: when every start-time variable of a bitstring is decodable, the energy of the job-shop
   Hamiltonian (in its numeric form energy_val, see EncoderPure_proofs.hamiltonian_p_eval) on that basis state is
     p_prec * n_prec s + p_overlap * n_ov s + opt_part,   with opt_part in [0, p_opt].
   Main results: energy_val_decoded, opt_part_range, opt_makespan_mk_energy. *)
From QV Require Import Jssp.EncoderPure Jssp.Encoder_proofs Jssp.DomainWall_proofs Jssp.Grouping_proofs
  Jssp.Makespan_arith Jssp.ValidLink_proofs Jssp.EncoderPure_proofs.
From Coq Require Import Lqa Lia.
From Coq Require FinFun.
Open Scope Z_scope.
Open Scope list_scope.

(* ------------------------------------------------------------------ A. sums of rationals over lists *)
Lemma sumQl_cons x l : sumQl (x :: l) = (x + sumQl l)%Q.
Proof. reflexivity. Qed.

Lemma sumQl_nil : sumQl [] = 0%Q.
Proof. reflexivity. Qed.

Lemma sumQl_app l1 l2 : (sumQl (l1 ++ l2) == sumQl l1 + sumQl l2)%Q.
Proof.
  induction l1 as [|x r IH]; cbn [app]; [rewrite sumQl_nil; ring|].
  rewrite !sumQl_cons, IH. ring.
Qed.

Lemma sumQl_ext {A} (f g : A -> Q) l : (forall x, In x l -> f x == g x)%Q -> (sumQl (map f l) == sumQl (map g l))%Q.
Proof.
  induction l as [|x r IH]; intros H; [reflexivity|].
  cbn [map]. rewrite !sumQl_cons.
  rewrite IH by (intros y Hy; apply H; right; exact Hy). rewrite (H x (or_introl eq_refl)). reflexivity.
Qed.

Lemma sumQl_zero {A} (f : A -> Q) l : (forall x, In x l -> f x == 0)%Q -> (sumQl (map f l) == 0)%Q.
Proof.
  induction l as [|x r IH]; intros H; [reflexivity|].
  cbn [map]. rewrite !sumQl_cons.
  rewrite IH by (intros y Hy; apply H; right; exact Hy). rewrite (H x (or_introl eq_refl)). ring.
Qed.

(* a sum with at most one non-zero term *)
Lemma sumQl_single {A} (f : A -> Q) (x0 : A) (c : Q) l :
  NoDup l -> In x0 l -> (f x0 == c)%Q -> (forall x, In x l -> x <> x0 -> f x == 0)%Q -> (sumQl (map f l) == c)%Q.
Proof.
  induction l as [|y r IH]; intros Hnd Hin Hc Hz; [contradiction|].
  inversion Hnd as [|? ? Hny Hnd']; subst.
  cbn [map]. rewrite !sumQl_cons. destruct Hin as [->|Hin].
  - rewrite Hc, sumQl_zero; [ring|]. intros x Hx. apply Hz; [right; exact Hx|]. intros ->. contradiction.
  - rewrite IH; try assumption.
    + rewrite (Hz y); [ring | left; reflexivity |]. intros ->. contradiction.
    + intros x Hx. apply Hz. right. exact Hx.
Qed.

Lemma sumQl_concat_map {A B} (F : A -> list B) (g : B -> Q) l :
  (sumQl (map g (concat (map F l))) == sumQl (map (fun x => sumQl (map g (F x))) l))%Q.
Proof.
  induction l as [|x r IH]; [reflexivity|].
  cbn [map concat]. rewrite map_app, sumQl_app, IH. reflexivity.
Qed.

Lemma count_true_app l1 l2 : count_true (l1 ++ l2) = (count_true l1 + count_true l2)%nat.
Proof. unfold count_true. rewrite filter_app, app_length. reflexivity. Qed.

Lemma sumQl_ind_count {A} (f : A -> bool) l :
  (sumQl (map (fun x => ind (f x)) l) == inject_Z (Z.of_nat (count_true (map f l))))%Q.
Proof.
  induction l as [|x r IH]; [reflexivity|].
  cbn [map]. rewrite !sumQl_cons, IH, count_true_cons.
  rewrite Nat2Z.inj_add, inject_Z_plus. destruct (f x); unfold ind;
    [change (inject_Z (Z.of_nat 1)) with 1%Q | change (inject_Z (Z.of_nat 0)) with 0%Q]; ring.
Qed.

Lemma sumQl_fold {A} (f : A -> Q) l : fold_right (fun x acc => (f x + acc)%Q) 0%Q l = sumQl (map f l).
Proof. induction l as [|x r IH]; [reflexivity|]. cbn [map sumQl fold_right]. rewrite IH. reflexivity. Qed.

(* sum of c * x_i with a common factor *)
Lemma sumQl_scale {A} (c : Q) (g : A -> Z) l :
  (sumQl (map (fun x => c * inject_Z (g x)) l) == c * inject_Z (sumZ (map g l)))%Q.
Proof.
  induction l as [|x r IH]; [cbn [map]; rewrite sumQl_nil; change (inject_Z (sumZ [])) with 0%Q; ring|].
  cbn [map]. rewrite !sumQl_cons, IH. change (sumZ (g x :: map g r)) with (g x + sumZ (map g r)).
  rewrite inject_Z_plus. ring.
Qed.

(* ------------------------------------------------------------------ lists: products, neighbours, combinations *)
Lemma NoDup_app_intro {A} (l1 l2 : list A) :
  NoDup l1 -> NoDup l2 -> (forall x, In x l1 -> ~ In x l2) -> NoDup (l1 ++ l2).
Proof.
  induction l1 as [|x r IH]; intros H1 H2 H; [exact H2|].
  inversion H1; subst. cbn [app]. constructor.
  - rewrite in_app_iff. intros [Hx|Hx]; [contradiction|]. apply (H x); [left; reflexivity | exact Hx].
  - apply IH; try assumption. intros y Hy. apply H. right. exact Hy.
Qed.

Lemma NoDup_list_prod_ {A B} (l1 : list A) (l2 : list B) : NoDup l1 -> NoDup l2 -> NoDup (list_prod l1 l2).
Proof.
  induction l1 as [|x r IH]; intros H1 H2; [constructor|].
  inversion H1; subst. cbn [list_prod]. apply NoDup_app_intro.
  - apply FinFun.Injective_map_NoDup; [|exact H2]. intros a b E. inversion E. reflexivity.
  - apply IH; assumption.
  - intros [a c] Hin Hin'. apply in_map_iff in Hin as [c' [E _]]. inversion E; subst.
    apply in_prod_iff in Hin' as [Ha _]. contradiction.
Qed.

Lemma consecutive_map {A B} (f : A -> B) : forall l,
  consecutive (map f l) = map (fun ab => (f (fst ab), f (snd ab))) (consecutive l).
Proof.
  induction l as [|x r IH]; [reflexivity|].
  destruct r as [|y r']; [reflexivity|].
  change (consecutive (map f (x :: y :: r'))) with ((f x, f y) :: consecutive (map f (y :: r'))).
  rewrite IH. reflexivity.
Qed.

Lemma combs2_map {A B} (f : A -> B) : forall l,
  combs2 (map f l) = map (fun ab => (f (fst ab), f (snd ab))) (combs2 l).
Proof.
  induction l as [|x r IH]; [reflexivity|].
  cbn [map combs2]. rewrite map_app, IH, !map_map. reflexivity.
Qed.

Lemma last_opt_map {A B} (f : A -> B) : forall l, last_opt (map f l) = option_map f (last_opt l).
Proof.
  induction l as [|x r IH]; [reflexivity|].
  destruct r as [|y r']; [reflexivity|].
  change (last_opt (map f (x :: y :: r'))) with (last_opt (map f (y :: r'))). rewrite IH. reflexivity.
Qed.

Lemma combine_map_self {A B} (g : A -> B) : forall l, combine l (map g l) = map (fun k => (k, g k)) l.
Proof. induction l as [|x r IH]; [reflexivity|]. cbn [map combine]. rewrite IH. reflexivity. Qed.

Lemma in_combine_r_ex {A B} : forall (l1 : list A) (l2 : list B) y,
  List.length l1 = List.length l2 -> In y l2 -> exists x, In (x, y) (combine l1 l2).
Proof.
  induction l1 as [|a r IH]; intros [|c u] y Hl Hy; simpl in *; try discriminate; [contradiction|].
  destruct Hy as [->|Hy]; [exists a; left; reflexivity|].
  destruct (IH u y) as [x Hx]; [lia | exact Hy |]. exists x. right. exact Hx.
Qed.

Lemma mk_coef_eq J L x : (mk_coef J L x == inject_Z ((J + 1) ^ x) / inject_Z (J * (J + 1) ^ L))%Q.
Proof. unfold mk_coef, Qdiv. ring. Qed.

(* ------------------------------------------------------------------ B. a state on which every variable is decoded
   [b] the basis state, [tv v] the start time variable v holds. *)
Section Decoded.
Variable b : nat -> bool.
Variable tv : dwvar -> Z.

Definition sopv (v : dwvar) : sop := (v_op v, tv v).

(* v ranges over a window, holds a value of it, and its value terms are the indicators of that value *)
Definition decoded (v : dwvar) : Prop :=
  exists a N, v_values v = zrange a N /\ a <= tv v < a + N
              /\ forall t, a <= t < a + N -> (vt_val v b (idx v t) == ind (t =? tv v))%Q.

Lemma decoded_off v1 v2 st : decoded v1 -> decoded v2 -> In st (list_prod (v_values v1) (v_values v2)) ->
  st <> (tv v1, tv v2) -> (vt_val v1 b (idx v1 (fst st)) * vt_val v2 b (idx v2 (snd st)) == 0)%Q.
Proof.
  intros (a1 & N1 & E1 & B1 & V1) (a2 & N2 & E2 & B2 & V2) Hin Hne. destruct st as [x y].
  apply in_prod_iff in Hin as [Hx Hy]. rewrite E1 in Hx. rewrite E2 in Hy.
  apply DomainWall_proofs.zrange_In in Hx. apply DomainWall_proofs.zrange_In in Hy.
  cbn [fst snd]. rewrite (V1 x Hx), (V2 y Hy).
  destruct (Z.eqb_spec x (tv v1)) as [Ex|Ex]; destruct (Z.eqb_spec y (tv v2)) as [Ey|Ey]; unfold ind; try ring.
  exfalso. apply Hne. rewrite Ex, Ey. reflexivity.
Qed.

(* a pair term over a filtered product of the two windows is the indicator of the filter at the held pair *)
Lemma pairs_val_filter v1 v2 (p : Z * Z -> bool) : decoded v1 -> decoded v2 ->
  (pairs_val b (PPairs v1 v2 (filter p (list_prod (v_values v1) (v_values v2)))) == ind (p (tv v1, tv v2)))%Q.
Proof.
  intros D1 D2. pose proof (decoded_off v1 v2) as Hoff.
  destruct D1 as (a1 & N1 & E1 & B1 & V1). destruct D2 as (a2 & N2 & E2 & B2 & V2).
  assert (D1 : decoded v1) by (exists a1, N1; auto). assert (D2 : decoded v2) by (exists a2, N2; auto).
  cbn [pairs_val]. destruct (p (tv v1, tv v2)) eqn:Ep; unfold ind.
  - apply sumQl_single with (x0 := (tv v1, tv v2)).
    + apply NoDup_filter, NoDup_list_prod_; [rewrite E1 | rewrite E2]; apply DomainWall_proofs.zrange_NoDup.
    + apply filter_In. split; [|exact Ep]. apply in_prod_iff. rewrite E1, E2.
      split; apply DomainWall_proofs.zrange_In; assumption.
    + cbn [fst snd]. rewrite (V1 _ B1), (V2 _ B2), !Z.eqb_refl. unfold ind. ring.
    + intros st Hst Hne. apply filter_In in Hst as [Hst _]. apply Hoff; assumption.
  - apply sumQl_zero. intros st Hst. apply filter_In in Hst as [Hst Hp]. apply Hoff; try assumption.
    intros ->. congruence.
Qed.

Lemma decoded_minmax v : decoded v -> vmin_p v <= tv v <= vmax_p v.
Proof.
  intros (a & N & E & B & _). rewrite (vmin_p_zrange v a N E), (vmax_p_zrange v a N E) by lia. lia.
Qed.

(* the precedence term of an ordered pair of variables: 1 exactly when the pair is out of order *)
Lemma prec_plan_val v1 v2 : decoded v1 -> decoded v2 ->
  (pairs_val b (prec_plan_p v1 v2) == ind (negb (end_of (sopv v1) <=? start_of (sopv v2))))%Q.
Proof.
  intros D1 D2. pose proof (decoded_minmax v1 D1). pose proof (decoded_minmax v2 D2).
  unfold end_of, start_of, sopv. cbn [fst snd]. fold (v_dur v1).
  unfold prec_plan_p. destruct (Z.leb_spec (vmax_p v1 + v_dur v1) (vmin_p v2)).
  - destruct (Z.leb_spec (tv v1 + v_dur v1) (tv v2)); [reflexivity | lia].
  - unfold prec_pairs. rewrite (pairs_val_filter v1 v2 _ D1 D2). cbn [fst snd]. reflexivity.
Qed.

(* the overlap term of a pair of variables: 1 exactly when the two operations overlap in time *)
Lemma overlap_plan_val v1 v2 : decoded v1 -> decoded v2 ->
  (pairs_val b (overlap_plan_p v1 v2) == ind (overlaps (sopv v1) (sopv v2)))%Q.
Proof.
  intros D1 D2. pose proof (decoded_minmax v1 D1). pose proof (decoded_minmax v2 D2).
  unfold overlaps, end_of, start_of, sopv. cbn [fst snd]. fold (v_dur v1). fold (v_dur v2).
  unfold overlap_plan_p. destruct (Z.leb_spec (vmax_p v1 + v_dur v1) (vmin_p v2)).
  - destruct (Z.ltb_spec (tv v2) (tv v1 + v_dur v1)); [lia|]. rewrite andb_false_r. reflexivity.
  - destruct (Z.leb_spec (vmax_p v2 + v_dur v2) (vmin_p v1)).
    + destruct (Z.ltb_spec (tv v1) (tv v2 + v_dur v2)); [lia|]. reflexivity.
    + unfold overlap_pairs. rewrite (pairs_val_filter v1 v2 _ D1 D2). cbn [fst snd]. reflexivity.
Qed.

(* --- the precedence sum counts the consecutive pairs out of order *)
Definition out_of_order (ab : sop * sop) : bool := negb (end_of (fst ab) <=? start_of (snd ab)).

Lemma n_prec_row_map vs :
  n_prec_row (map sopv vs) = count_true (map (fun ab => out_of_order (sopv (fst ab), sopv (snd ab))) (consecutive vs)).
Proof. unfold n_prec_row. rewrite consecutive_map, map_map. reflexivity. Qed.

Lemma count_consecutive_rows (F : dwvar * dwvar -> bool) (vss : list (list dwvar)) :
  count_true (map F (concat (map consecutive vss)))
  = sumN (map (fun vs => count_true (map F (consecutive vs))) vss).
Proof.
  induction vss as [|vs r IH]; [reflexivity|].
  cbn [map concat sumN fold_right]. rewrite map_app, count_true_app, IH. reflexivity.
Qed.

Lemma prec_sum_decoded e : (forall v, In v (e_vars e) -> decoded v) ->
  (sumQl (map (pairs_val b) (prec_plans_p e))
   == inject_Z (Z.of_nat (sumN (map (fun vs => n_prec_row (map sopv vs)) (e_jobs e)))))%Q.
Proof.
  intros HD. unfold prec_plans_p. rewrite map_map.
  rewrite (sumQl_ext _ (fun ab => ind (out_of_order (sopv (fst ab), sopv (snd ab))))).
  - rewrite sumQl_ind_count. unfold prec_var_pairs. rewrite count_consecutive_rows.
    rewrite (map_ext _ _ n_prec_row_map). reflexivity.
  - intros [v1 v2] Hin. apply prec_var_pairs_members in Hin as [H1 H2]. cbn [fst snd].
    apply prec_plan_val; apply HD; assumption.
Qed.

(* --- the overlap sum counts the overlapping same-machine pairs *)
Definition clash (ab : sop * sop) : bool :=
  String.eqb (mach_of (fst ab)) (mach_of (snd ab)) && overlaps (fst ab) (snd ab).

Lemma overlap_sum_decoded e : (forall v, In v (e_vars e) -> decoded v) ->
  (sumQl (map (pairs_val b) (overlap_plans_p e))
   == inject_Z (Z.of_nat (count_true (map clash (combs2 (map sopv (e_vars e)))))))%Q.
Proof.
  intros HD. unfold overlap_plans_p. rewrite map_map.
  change (overlap_var_pairs e) with (machine_pairs (e_vars e)).
  rewrite <- sumQl_fold.
  rewrite (sum_machine_pairs (fun ab => pairs_val b (overlap_plan_p (fst ab) (snd ab))) (e_vars e)).
  rewrite (sumQl_fold (fun ab => if same_machine ab then pairs_val b (overlap_plan_p (fst ab) (snd ab)) else 0%Q)).
  rewrite (sumQl_ext _ (fun ab => ind (clash (sopv (fst ab), sopv (snd ab))))).
  - rewrite sumQl_ind_count, combs2_map, map_map. reflexivity.
  - intros [v1 v2] Hin. apply combs2_In in Hin as [H1 H2]. unfold clash, same_machine, mach_of, sopv. cbn [fst snd].
    destruct (String.eqb (op_machine (v_op v1)) (op_machine (v_op v2))); [|reflexivity].
    cbn [andb]. apply (overlap_plan_val v1 v2); apply HD; assumption.
Qed.

(* --- no anti-wall: the encoding-validity sum vanishes *)
Lemma viability_sum_decoded f (vars : list dwvar) : (forall v, In v vars -> n_antiwalls v b = 0%nat) ->
  (sumQl (map (viability_val f b) vars) == 0)%Q.
Proof.
  intros H. apply sumQl_zero. intros v Hv. unfold viability_val. rewrite (H v Hv).
  change (inject_Z (2 * Z.of_nat 0)) with 0%Q. ring.
Qed.

(* --- makespan part: each job contributes the coefficient of the end of its last operation *)
Lemma makespan_val_decoded e L : (forall v, In v (e_vars e) -> decoded v) ->
  (makespan_val e L b
   == sumQl (map (fun vs => match last_opt vs with
                            | None => 0
                            | Some v => mk_coef (Z.of_nat (List.length (e_jobs e))) L (end_of (sopv v))
                            end) (e_jobs e)))%Q.
Proof.
  intros HD. unfold makespan_val. apply sumQl_ext. intros vs Hvs.
  destruct (last_opt vs) as [v|] eqn:El; [|reflexivity].
  assert (Hv : In v (e_vars e)) by (eapply wf_row_vars; [exact Hvs | apply last_opt_In; exact El]).
  destruct (HD v Hv) as (a & N & E & B & V). rewrite E.
  apply sumQl_single with (x0 := tv v).
  - apply DomainWall_proofs.zrange_NoDup.
  - apply DomainWall_proofs.zrange_In. exact B.
  - rewrite (V _ B), Z.eqb_refl. unfold end_of, sopv, v_dur, ind. cbn [fst snd]. ring.
  - intros t Ht Hne. apply DomainWall_proofs.zrange_In in Ht. rewrite (V t Ht).
    destruct (Z.eqb_spec t (tv v)); [contradiction|]. unfold ind. ring.
Qed.

(* --- early-start part: each variable contributes its position in its window *)
Lemma enumerate_zrange a N :
  enumerate (zrange a N) = map (fun k => (k, a + Z.of_nat k)) (seq 0 (Z.to_nat N)).
Proof.
  unfold enumerate. rewrite DomainWall_proofs.zrange_length. unfold zrange. apply combine_map_self.
Qed.

Lemma early_var_decoded maxv v : decoded v ->
  (sumQl (map (fun it => early_coef maxv (fst it) * vt_val v b (idx v (snd it))) (tl (enumerate (v_values v))))
   == (1 # 1) / inject_Z maxv * inject_Z (tv v - vmin_p v))%Q.
Proof.
  intros (a & N & E & B & V). rewrite (vmin_p_zrange v a N E) by lia.
  set (F := fun it : nat * Z => (early_coef maxv (fst it) * vt_val v b (idx v (snd it)))%Q).
  assert (Hfull : (sumQl (map F (enumerate (v_values v))) == (1 # 1) / inject_Z maxv * inject_Z (tv v - a))%Q).
  { rewrite E, enumerate_zrange, map_map.
    apply sumQl_single with (x0 := Z.to_nat (tv v - a)).
    - apply seq_NoDup.
    - apply in_seq. lia.
    - unfold F. cbn [fst snd]. rewrite V by lia.
      replace (a + Z.of_nat (Z.to_nat (tv v - a))) with (tv v) by lia. rewrite Z.eqb_refl.
      unfold early_coef, ind. rewrite Z2Nat.id by lia. ring.
    - intros k Hk Hne. apply in_seq in Hk. unfold F. cbn [fst snd]. rewrite V by lia.
      destruct (Z.eqb_spec (a + Z.of_nat k) (tv v)); [exfalso; apply Hne; lia|]. unfold ind. ring. }
  rewrite <- Hfull. rewrite E, enumerate_zrange.
  destruct (Z.to_nat N) as [|n] eqn:En; [lia|].
  cbn [seq map tl sumQl fold_right]. unfold F at 2. cbn [fst]. unfold early_coef.
  change (inject_Z (Z.of_nat 0)) with 0%Q. ring.
Qed.

Lemma early_val_decoded e : (forall v, In v (e_vars e) -> decoded v) ->
  (early_val e b == (1 # 1) / inject_Z (Z.of_nat (sum_nq (e_vars e)))
                    * inject_Z (sumZ (map (fun v => (tv v - vmin_p v)%Z) (e_vars e))))%Q.
Proof.
  intros HD. unfold early_val. rewrite <- sumQl_scale. apply sumQl_ext. intros v Hv.
  apply early_var_decoded, HD, Hv.
Qed.

End Decoded.

(* ------------------------------------------------------------------ C. from translate to a decoded state *)
(* the start time a variable holds on a bit list (0 when it holds none: never used then) *)
Definition dval (bl : list bool) (v : dwvar) : Z :=
  match value_from_bits v bl with Ok (Some t) => t | _ => 0 end.

Definition psopv (bl : list bool) (v : dwvar) : psop := (v_op v, Some (dval bl v)).

Lemma row_functional bl vs row : Forall2 (dec_rel bl) vs row -> (forall p, In p row -> snd p <> None) ->
  row = map (psopv bl) vs /\ forall v, In v vs -> value_from_bits v bl = Ok (Some (dval bl v)).
Proof.
  induction 1 as [|v p vs row [Hv Hop] _ IH]; intros Hs; [split; [reflexivity | intros v []]|].
  destruct IH as [IH1 IH2]; [intros q Hq; apply Hs; right; exact Hq|].
  assert (Hp : snd p <> None) by (apply Hs; left; reflexivity).
  destruct p as [o [t|]]; [|contradiction]. cbn [fst snd] in *.
  assert (Ed : dval bl v = t) by (unfold dval; rewrite Hv; reflexivity).
  split.
  - cbn [map]. unfold psopv at 1. rewrite Ed, Hop, <- IH1. reflexivity.
  - intros w [<-|Hw]; [rewrite Ed; exact Hv | apply IH2; exact Hw].
Qed.

Lemma rows_functional bl vss rows : Forall2 (Forall2 (dec_rel bl)) vss rows ->
  (forall row p, In row rows -> In p row -> snd p <> None) ->
  rows = map (map (psopv bl)) vss /\ forall v, In v (concat vss) -> value_from_bits v bl = Ok (Some (dval bl v)).
Proof.
  induction 1 as [|vs row vss rows Hr _ IH]; intros Hs; [split; [reflexivity | intros v []]|].
  destruct IH as [IH1 IH2]; [intros r p Hr' Hp; apply (Hs r p); [right; exact Hr' | exact Hp]|].
  destruct (row_functional bl vs row Hr) as [R1 R2]; [intros p Hp; apply (Hs row p); [left; reflexivity | exact Hp]|].
  split.
  - cbn [map]. rewrite <- R1, <- IH1. reflexivity.
  - intros v Hv. cbn [concat] in Hv. apply in_app_or in Hv as [Hv|Hv]; [apply R2 | apply IH2]; exact Hv.
Qed.

(* a fully scheduled translation is the functional image of the variables *)
Lemma translate_decoded I L bits s : translate I L bits = Ok s -> all_scheduled s = true ->
  limit_ok I L /\ List.length (rev bits) = the_nq I L
  /\ s = combine (inst_jobs I) (map (map (psopv (rev bits))) (the_vars I L))
  /\ (forall v, In v (concat (the_vars I L)) -> value_from_bits v (rev bits) = Ok (Some (dval (rev bits) v)))
  /\ shaped I s.
Proof.
  intros Ht Hall. apply translate_inv in Ht as [Hl [Hlen [rows [Hd [-> _]]]]].
  pose proof (decoded_shape I L (rev bits) rows Hd) as Hsh.
  assert (Hlr : List.length (inst_jobs I) = List.length rows) by (apply (Forall2_len _ _ _ Hsh)).
  destruct (rows_functional (rev bits) (the_vars I L) rows Hd) as [R1 R2].
  { intros row p Hrow Hp. destruct (in_combine_r_ex (inst_jobs I) rows row Hlr Hrow) as [j Hj].
    apply (proj1 (vl_all_scheduled_spec _) Hall (j, row) p Hj Hp). }
  split; [exact Hl|]. split; [rewrite rev_length; exact Hlen|]. split; [rewrite R1; reflexivity|].
  split; [exact R2|]. split.
  - apply map_fst_combine, Hlr.
  - rewrite (map_snd_combine _ _ Hlr). exact Hsh.
Qed.

(* every variable of the encoding is decoded in the sense of section B *)
Lemma decoded_var I L bl v : limit_ok I L -> List.length bl = the_nq I L -> In v (concat (the_vars I L)) ->
  value_from_bits v bl = Ok (Some (dval bl v)) ->
  decoded (state_of bl) (dval bl) v /\ n_antiwalls v (state_of bl) = 0%nat.
Proof.
  intros Hl Hlen Hin Hv. unfold the_vars in Hin.
  pose proof (vars_of_jobs_wf I L v Hl Hin) as Hwf. fold (the_vars I L) in Hwf. fold (the_nq I L) in Hwf.
  assert (Hfit : (v_start v + var_nq v <= List.length bl)%nat) by (destruct Hwf as [_ [_ H]]; lia).
  split; [|apply (decoded_no_antiwall v _ bl Hwf Hfit _ Hv)].
  destruct (vars_of_jobs_values _ _ _ _ _ Hin) as [j [a [_ E]]].
  exists a, (L - job_total j + 1). split; [exact E|].
  pose proof (value_from_bits_In _ _ _ Hv) as Hmem. rewrite E in Hmem. apply DomainWall_proofs.zrange_In in Hmem.
  split; [exact Hmem|]. intros t Ht.
  assert (Htin : In t (v_values v)) by (rewrite E; apply DomainWall_proofs.zrange_In; exact Ht).
  assert (Hdin : In (dval bl v) (v_values v)) by (rewrite E; apply DomainWall_proofs.zrange_In; exact Hmem).
  destruct (index_of_In _ _ Htin) as [i Hi]. destruct (index_of_In _ _ Hdin) as [i0 Hi0].
  unfold idx. rewrite Hi.
  destruct (DomainWall_proofs.index_of_lt _ _ _ Hi) as [Hlt Hn]. destruct (DomainWall_proofs.index_of_lt _ _ _ Hi0) as [_ Hn0].
  rewrite (decoded_vt_val v _ bl Hwf Hfit _ i0 Hv Hi0 i) by (unfold var_nq; lia).
  destruct (Nat.eqb_spec i i0) as [Ei|Ei]; destruct (Z.eqb_spec t (dval bl v)) as [Et|Et]; try reflexivity; exfalso.
  - subst i0. rewrite Hn in Hn0. inversion Hn0. contradiction.
  - subst t. rewrite Hi in Hi0. inversion Hi0. contradiction.
Qed.

(* ------------------------------------------------------------------ D. the spec quantities of the functional schedule *)
Lemma strip_psopv bl vs : strip (map (psopv bl) vs) = map (sopv (dval bl)) vs.
Proof. induction vs as [|v r IH]; [reflexivity|]. cbn [map]. unfold strip in *. cbn [flat_map psopv snd fst app]. rewrite IH. reflexivity. Qed.

Lemma sched_sops_functional bl (jobs : list job) (vss : list (list dwvar)) : List.length jobs = List.length vss ->
  sched_sops (combine jobs (map (map (psopv bl)) vss)) = map (map (sopv (dval bl))) vss.
Proof.
  intros Hlen. rewrite vl_sched_sops_map, map_snd_combine by (rewrite map_length; exact Hlen).
  rewrite map_map. apply map_ext. intros vs. apply strip_psopv.
Qed.

Lemma the_vars_length I L : List.length (inst_jobs I) = List.length (the_vars I L).
Proof. unfold the_vars. symmetry. apply vars_of_jobs_length. Qed.

Lemma n_prec_functional bl I L :
  n_prec (combine (inst_jobs I) (map (map (psopv bl)) (the_vars I L)))
  = sumN (map (fun vs => n_prec_row (map (sopv (dval bl)) vs)) (the_vars I L)).
Proof. unfold n_prec. rewrite sched_sops_functional by apply the_vars_length. rewrite map_map. reflexivity. Qed.

Lemma n_ov_functional bl I L :
  n_ov (combine (inst_jobs I) (map (map (psopv bl)) (the_vars I L)))
  = count_true (map clash (combs2 (map (sopv (dval bl)) (concat (the_vars I L))))).
Proof. unfold n_ov. rewrite sched_sops_functional by apply the_vars_length. rewrite <- concat_map. reflexivity. Qed.

Lemma opt_makespan_fold (J L : Z) (rows : list (list sop)) :
  (fold_right (fun row acc => (match last_opt row with
                               | Some p => inject_Z ((J + 1) ^ end_of p) / inject_Z (J * (J + 1) ^ L)
                               | None => 0
                               end + acc)%Q) 0%Q rows
   == mk_energy J L (flat_map (fun row => match last_opt row with Some p => [end_of p] | None => [] end) rows))%Q.
Proof.
  induction rows as [|r t IH]; [reflexivity|].
  cbn [fold_right flat_map]. rewrite IH. destruct (last_opt r) as [p|]; cbn [app].
  - reflexivity.
  - ring.
Qed.

Lemma opt_makespan_functional bl I L :
  (opt_makespan L (combine (inst_jobs I) (map (map (psopv bl)) (the_vars I L)))
   == sumQl (map (fun vs => match last_opt vs with
                            | None => 0
                            | Some v => mk_coef (Z.of_nat (List.length (the_vars I L))) L (end_of (sopv (dval bl) v))
                            end) (the_vars I L)))%Q.
Proof.
  unfold opt_makespan. rewrite sched_sops_functional by apply the_vars_length.
  rewrite combine_length, map_length, <- the_vars_length, Nat.min_id, (the_vars_length I L).
  generalize (Z.of_nat (List.length (the_vars I L))) as J. intros J.
  induction (the_vars I L) as [|vs r IH]; [reflexivity|].
  cbn [map fold_right]. rewrite sumQl_cons, IH, last_opt_map.
  destruct (last_opt vs) as [v|]; cbn [option_map]; [rewrite mk_coef_eq|]; reflexivity.
Qed.

(* --- early-start part of the functional schedule *)
Lemma early_row_functional tv j vs : forall k0,
  (forall k v, nth_error vs k = Some v -> vmin_p v = head_of j (k0 + k)) ->
  early_row j k0 (map (sopv tv) vs) = sumZ (map (fun v => tv v - vmin_p v) vs).
Proof.
  induction vs as [|v r IH]; intros k0 H; [reflexivity|].
  cbn [map early_row]. change (sumZ (map (fun v => tv v - vmin_p v) (v :: r)))
    with (tv v - vmin_p v + sumZ (map (fun v => tv v - vmin_p v) r)).
  rewrite (IH (S k0)).
  - rewrite (H 0%nat v eq_refl), Nat.add_0_r. reflexivity.
  - intros k w Hk. rewrite (H (S k) w Hk). f_equal. lia.
Qed.

Definition window_rel (L : Z) (j : job) (vs : list dwvar) : Prop :=
  List.length vs = List.length (job_ops j) /\
  forall k v, nth_error vs k = Some v ->
              nth_error (job_ops j) k = Some (v_op v) /\ v_values v = zrange (head_of j k) (L - job_total j + 1).

Lemma early_sum_functional bl L jobs vss : (forall j, In j jobs -> job_total j <= L) ->
  Forall2 (window_rel L) jobs vss ->
  sumZ (map (fun kv => early_row (fst kv) 0 (strip (snd kv))) (combine jobs (map (map (psopv bl)) vss)))
  = sumZ (map (fun v => dval bl v - vmin_p v) (concat vss)).
Proof.
  intros Hl HF. induction HF as [|j vs jobs vss [_ Hw] _ IH]; [reflexivity|].
  cbn [map combine concat fst snd]. rewrite map_app, Encoder_proofs.sumZ_app, <- IH by (intros j' Hj'; apply Hl; right; exact Hj').
  change (sumZ (?x :: ?l)) with (x + sumZ l). f_equal.
  rewrite strip_psopv. apply early_row_functional. intros k v Hk.
  destruct (Hw k v Hk) as [_ E]. apply (vmin_p_zrange v _ _ E). specialize (Hl j (or_introl eq_refl)). lia.
Qed.

Lemma opt_early_functional bl I L n : limit_ok I L ->
  (opt_early n (combine (inst_jobs I) (map (map (psopv bl)) (the_vars I L)))
   == (1 # 1) / inject_Z (Z.of_nat n) * inject_Z (sumZ (map (fun v => (dval bl v - vmin_p v)%Z) (concat (the_vars I L)))))%Q.
Proof.
  intros Hl. unfold opt_early. rewrite (early_sum_functional bl L (inst_jobs I) (the_vars I L) Hl).
  - unfold Qdiv. ring.
  - apply vars_of_jobs_windows.
Qed.

(* ------------------------------------------------------------------ E. the energy of a decoded state *)
Theorem energy_val_decoded : forall I L P bits s n, wf_instance I = true -> n_qubits I L = Ok n ->
  translate I L bits = Ok s -> all_scheduled s = true ->
  (energy_val P L (enc_of I L) (state_of (rev bits))
   == p_prec P * inject_Z (Z.of_nat (n_prec s)) + p_overlap P * inject_Z (Z.of_nat (n_ov s)) + opt_part P L n s)%Q.
Proof.
  intros I L P bits s n _ Hn Ht Hall.
  destruct (translate_decoded I L bits s Ht Hall) as (Hl & Hlen & -> & Hvals & _).
  set (bl := rev bits) in *. set (b := state_of bl). set (tv := dval bl).
  pose proof (n_qubits_explicit I L n Hl Hn) as En.
  assert (HD : forall v, In v (e_vars (enc_of I L)) -> decoded b tv v).
  { intros v Hv. apply (decoded_var I L bl v Hl Hlen Hv (Hvals v Hv)). }
  assert (HA : forall v, In v (e_vars (enc_of I L)) -> n_antiwalls v b = 0%nat).
  { intros v Hv. apply (decoded_var I L bl v Hl Hlen Hv (Hvals v Hv)). }
  unfold energy_val, opt_part.
  rewrite (prec_sum_decoded b tv _ HD), (overlap_sum_decoded b tv _ HD), (viability_sum_decoded b _ _ HA),
    (makespan_val_decoded b tv _ L HD), (early_val_decoded b tv _ HD).
  rewrite n_prec_functional, n_ov_functional, opt_makespan_functional, (opt_early_functional bl I L n Hl).
  change (e_jobs (enc_of I L)) with (the_vars I L). change (e_vars (enc_of I L)) with (concat (the_vars I L)).
  rewrite En. fold tv. unfold the_vars. ring.
Qed.

(* for C02: the makespan part in terms of the ends of the jobs' last operations *)
Lemma opt_makespan_mk_energy : forall I L bits s, wf_instance I = true -> translate I L bits = Ok s ->
  all_scheduled s = true ->
  (opt_makespan L s == mk_energy (Z.of_nat (List.length (inst_jobs I))) L (last_ends s))%Q.
Proof.
  intros I L bits s _ Ht Hall. destruct (translate_decoded I L bits s Ht Hall) as (_ & _ & _ & _ & [Hk _]).
  unfold opt_makespan, last_ends. rewrite <- Hk, map_length. apply opt_makespan_fold.
Qed.

(* ------------------------------------------------------------------ F. ranges *)
Lemma strip_In row (p : sop) : In p (strip row) -> In (fst p, Some (snd p)) row.
Proof.
  induction row as [|[o [t|]] r IH]; cbn [strip flat_map fst snd app]; intros H; [contradiction | |].
  - destruct H as [<-|H]; [left; reflexivity | right; apply IH; exact H].
  - right. apply IH. exact H.
Qed.

Lemma last_ends_bounds : forall I L bits s e, wf_instance I = true -> translate I L bits = Ok s ->
  In e (last_ends s) -> 0 <= e <= L.
Proof.
  intros I L bits s e Hwf Ht He. unfold last_ends in He. apply in_flat_map in He as [row [Hrow He]].
  unfold sched_sops in Hrow. apply in_map_iff in Hrow as [[j prow] [<- Hkv]]. cbn [snd] in He.
  destruct (last_opt (strip prow)) as [p|] eqn:El; [|contradiction]. destruct He as [<-|[]].
  apply last_opt_In, strip_In, In_nth_error in El as [k Hk].
  destruct (encoder_bounds_op I L bits s j prow k _ _ Hwf Ht Hkv Hk) as [Ho [H0 H1]].
  assert (Hj : In j (inst_jobs I)).
  { apply translate_inv in Ht as [_ [_ [rows [_ [-> _]]]]]. eapply in_combine_l, Hkv. }
  destruct (vl_wf_job I j Hwf Hj) as [_ Hd]. specialize (Hd _ (nth_error_In _ _ Ho)).
  unfold end_of. lia.
Qed.

Lemma opt_makespan_range : forall I L bits s, wf_instance I = true -> inst_jobs I <> [] ->
  translate I L bits = Ok s -> all_scheduled s = true -> (0 < opt_makespan L s /\ opt_makespan L s <= 1)%Q.
Proof.
  intros I L bits s Hwf Hne Ht Hall. rewrite (opt_makespan_mk_energy I L bits s Hwf Ht Hall).
  destruct (translate_decoded I L bits s Ht Hall) as (_ & _ & _ & _ & Hsh).
  apply mk_energy_range.
  - destruct (inst_jobs I); [congruence|]. cbn [List.length]. lia.
  - rewrite (last_ends_length I s Hwf Hsh Hall). reflexivity.
  - intros e He. apply (last_ends_bounds I L bits s e Hwf Ht He).
Qed.

Lemma sum_positions_bound (g : dwvar -> Z) vs : (forall v, In v vs -> 0 <= g v <= Z.of_nat (var_nq v)) ->
  0 <= sumZ (map g vs) <= Z.of_nat (sum_nq vs).
Proof.
  induction vs as [|v r IH]; intros H; [cbn; lia|].
  change (sumZ (map g (v :: r))) with (g v + sumZ (map g r)).
  change (sum_nq (v :: r)) with (var_nq v + sum_nq r)%nat.
  specialize (H v (or_introl eq_refl)) as Hv. specialize (IH (fun w Hw => H w (or_intror Hw))). lia.
Qed.

Lemma opt_early_range : forall I L bits s n, n_qubits I L = Ok n -> (1 <= n)%nat ->
  translate I L bits = Ok s -> all_scheduled s = true -> (0 <= opt_early n s /\ opt_early n s <= 1)%Q.
Proof.
  intros I L bits s n Hn Hn1 Ht Hall.
  destruct (translate_decoded I L bits s Ht Hall) as (Hl & Hlen & -> & Hvals & _).
  pose proof (n_qubits_explicit I L n Hl Hn) as En. fold (the_vars I L) in En.
  unfold opt_early. rewrite (early_sum_functional (rev bits) L (inst_jobs I) (the_vars I L) Hl (vars_of_jobs_windows _ _ _ _)).
  assert (HB : 0 <= sumZ (map (fun v => dval (rev bits) v - vmin_p v) (concat (the_vars I L))) <= Z.of_nat n).
  { rewrite En. apply sum_positions_bound. intros v Hv.
    destruct (decoded_var I L (rev bits) v Hl Hlen Hv (Hvals v Hv)) as [(a & N & E & B & _) _].
    rewrite (vmin_p_zrange v a N E) by lia. unfold var_nq. rewrite E, DomainWall_proofs.zrange_length. lia. }
  assert (HnQ : (0 < inject_Z (Z.of_nat n))%Q) by (change 0%Q with (inject_Z 0); rewrite <- Zlt_Qlt; lia).
  destruct HB as [B0 B1]. split.
  - apply Qle_shift_div_l; [exact HnQ|]. rewrite Qmult_0_l. rewrite (Zle_Qle 0) in B0. exact B0.
  - apply Qle_shift_div_r; [exact HnQ|]. rewrite Qmult_1_l. rewrite Zle_Qle in B1. exact B1.
Qed.

Lemma opt_range_arith (W sh m e : Q) :
  (0 <= W -> 0 <= sh -> sh <= 1 -> 0 < m -> m <= 1 -> 0 <= e -> e <= 1 ->
   0 <= W * (1 - sh) * m + W * sh * e /\ W * (1 - sh) * m + W * sh * e <= W
   /\ (0 < W -> sh < 1 -> 0 < W * (1 - sh) * m + W * sh * e))%Q.
Proof.
  intros HW H0 H1 Hm0 Hm1 He0 He1.
  assert (A : (0 <= W * (1 - sh))%Q) by nra.
  assert (B : (0 <= W * sh)%Q) by nra.
  assert (A1 : (0 <= W * (1 - sh) * m)%Q) by nra.
  assert (A2 : (W * (1 - sh) * m <= W * (1 - sh))%Q) by nra.
  assert (B1 : (0 <= W * sh * e)%Q) by nra.
  assert (B2 : (W * sh * e <= W * sh)%Q) by nra.
  split; [lra|]. split; [lra|]. intros HWp Hsh.
  assert (A3 : (0 < W * (1 - sh))%Q) by nra.
  assert (A4 : (0 < W * (1 - sh) * m)%Q) by nra. lra.
Qed.

Theorem opt_part_range : forall I L P bits s n, wf_instance I = true -> inst_jobs I <> [] ->
  n_qubits I L = Ok n -> (1 <= n)%nat -> translate I L bits = Ok s -> all_scheduled s = true ->
  (0 <= p_opt P -> 0 <= p_share P -> p_share P <= 1 ->
   0 <= opt_part P L n s /\ opt_part P L n s <= p_opt P /\ (0 < p_opt P -> p_share P < 1 -> 0 < opt_part P L n s))%Q.
Proof.
  intros I L P bits s n Hwf Hne Hn Hn1 Ht Hall HW H0 H1.
  destruct (opt_makespan_range I L bits s Hwf Hne Ht Hall) as [Hm0 Hm1].
  destruct (opt_early_range I L bits s n Hn Hn1 Ht Hall) as [He0 He1].
  unfold opt_part. apply opt_range_arith; assumption.
Qed.

Print Assumptions energy_val_decoded.
Print Assumptions opt_part_range.
Print Assumptions opt_makespan_mk_energy.
