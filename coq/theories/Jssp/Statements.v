(* Vocabulary of the C01 / C02 property theorems that is not already in Energy.v.  Definitions only. *)
From QV Require Export Jssp.Energy.
Open Scope Z_scope.
Open Scope list_scope.

(* a result in the shape the decoder produces: one row per job in instance order, listing the job's operations *)
Definition shaped_like (I : instance) (s : schedule) : Prop :=
  map fst s = inst_jobs I /\ Forall2 (fun j (row : list psop) => map fst row = job_ops j) (inst_jobs I) (map snd s).

(* a feasible schedule of the instance that starts at or after time 0 and ends within the limit *)
Definition feasible_within (I : instance) (L : Z) (s : schedule) : Prop :=
  shaped_like I s /\ valid_spec I s
  /\ (forall j row o t, In (j, row) s -> In (o, Some t) row -> 0 <= t /\ t + op_dur o <= L).

(* b is a minimum-energy basis state among all bitstrings of length n *)
Definition ground_state (H : opexpr) (n : nat) (bits : list bool) : Prop :=
  List.length bits = n /\ forall bits', List.length bits' = n -> (energy H bits <= energy H bits')%Q.
