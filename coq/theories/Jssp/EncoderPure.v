(* Error-free ("pure") forms of the operator terms of Encoder.v / DomainWall.v.  Definitions only.
   The proofs show that whenever the circuit has at least one qubit and the variables are those of
   prepare_encoding, the monadic construction returns exactly these expressions; every energy theorem is then
   proved on the pure forms. *)
From QV Require Export Jssp.Energy.
Open Scope Z_scope.
Open Scope list_scope.

(* ---- one variable *)
Definition zd_e (v : dwvar) (i : Z) : opexpr :=
  if i =? -1 then OpScale (-1)%Q OpI
  else if i =? Z.of_nat (var_nq v) then OpI
  else OpZ (v_start v + Z.to_nat i).

Definition vlocal_p (v : dwvar) (i : Z) : opexpr :=
  OpScale (1 # 2)%Q (OpSub OpI (OpMul (zd_e v i) (zd_e v (i + 1)))).

Definition viability_p (v : dwvar) : opexpr :=
  if (var_nq v =? 0)%nat then OpScale 0%Q OpI
  else OpSum (map (vlocal_p v) (zrange (-1) (Z.of_nat (var_nq v) + 1)) ++ [OpScale (-1)%Q OpI]).

Definition value_term_p (v : dwvar) (i : nat) : opexpr :=
  if (var_nq v =? 0)%nat then OpI
  else OpScale (1 # 2)%Q (OpSub (zd_e v (Z.of_nat i)) (zd_e v (Z.of_nat i - 1))).

(* position of a start time among the values of a variable (0 for a time that is no value: never used then) *)
Definition idx (v : dwvar) (t : Z) : nat := match index_of t (v_values v) with Some i => i | None => 0%nat end.

(* ---- pair terms *)
Definition pair_local_p (v1 v2 : dwvar) (st : Z * Z) : opexpr :=
  OpMul (value_term_p v1 (idx v1 (fst st))) (value_term_p v2 (idx v2 (snd st))).

Definition plan_term_p (p : pterm) : opexpr :=
  match p with
  | PZero => OpScale 0%Q OpI
  | PPairs v1 v2 pairs => OpSum (map (pair_local_p v1 v2) pairs)
  end.

Definition vmin_p (v : dwvar) : Z := hd 0 (v_values v).
Definition vmax_p (v : dwvar) : Z := last (v_values v) 0.

Definition prec_plan_p (v1 v2 : dwvar) : pterm :=
  if vmax_p v1 + v_dur v1 <=? vmin_p v2 then PZero else PPairs v1 v2 (prec_pairs v1 v2).

Definition overlap_plan_p (v1 v2 : dwvar) : pterm :=
  if vmax_p v1 + v_dur v1 <=? vmin_p v2 then PZero
  else if vmax_p v2 + v_dur v2 <=? vmin_p v1 then PZero
  else PPairs v1 v2 (overlap_pairs v1 v2).

Definition prec_var_pairs (e : enc) : list (dwvar * dwvar) := concat (map consecutive (e_jobs e)).
Definition overlap_var_pairs (e : enc) : list (dwvar * dwvar) :=
  concat (map (fun ml => if (List.length (snd ml) <? 2)%nat then [] else combs2 (snd ml)) (machine_ops (e_vars e))).

Definition prec_plans_p (e : enc) : list pterm := map (fun ab => prec_plan_p (fst ab) (snd ab)) (prec_var_pairs e).
Definition overlap_plans_p (e : enc) : list pterm := map (fun ab => overlap_plan_p (fst ab) (snd ab)) (overlap_var_pairs e).

Definition counts_p (e : enc) : ctable := count_table (prec_plans_p e ++ overlap_plans_p e).

Definition weighted_viability_p (f : ctable) (v : dwvar) : opexpr :=
  OpScale (inject_Z (Z.of_nat (max_count f v + 1))) (viability_p v).

Definition pad_p (ts : list opexpr) : list opexpr := match ts with [] => [OpScale 0%Q OpI] | _ => ts end.

(* ---- optimisation terms *)
Definition mk_coef (n_jobs L t : Z) : Q :=
  ((1 # 1) / inject_Z (n_jobs * (n_jobs + 1) ^ L) * inject_Z ((n_jobs + 1) ^ t))%Q.

Definition makespan_local_p (n_jobs L : Z) (v : dwvar) (t : Z) : opexpr :=
  OpScale (mk_coef n_jobs L (t + v_dur v)) (value_term_p v (idx v t)).

Definition makespan_term_p (e : enc) (L : Z) : opexpr :=
  let n_jobs := Z.of_nat (List.length (e_jobs e)) in
  OpSum (concat (map (fun vs => match last_opt vs with
                                | None => []
                                | Some v => map (makespan_local_p n_jobs L v) (v_values v)
                                end) (e_jobs e))).

Definition early_coef (maxv : Z) (i : nat) : Q := ((1 # 1) / inject_Z maxv * inject_Z (Z.of_nat i))%Q.

Definition early_local_p (maxv : Z) (v : dwvar) (it : nat * Z) : opexpr :=
  OpScale (early_coef maxv (fst it)) (value_term_p v (idx v (snd it))).

Definition early_start_term_p (e : enc) : opexpr :=
  let maxv := Z.of_nat (sum_nq (e_vars e)) in
  OpSum (concat (map (fun v => map (early_local_p maxv v) (tl (enumerate (v_values v)))) (e_vars e))).

(* ---- the five weighted sums *)
Definition prec_sum_p (e : enc) : opexpr := OpSum (pad_p (map plan_term_p (prec_plans_p e))).
Definition overlap_sum_p (e : enc) : opexpr := OpSum (pad_p (map plan_term_p (overlap_plans_p e))).
Definition viability_sum_p (e : enc) : opexpr := OpSum (map (weighted_viability_p (counts_p e)) (e_vars e)).

Definition hamiltonian_p (P : penalties) (L : Z) (e : enc) : opexpr :=
  OpAdd (OpAdd (OpAdd (OpAdd (OpScale (p_prec P) (prec_sum_p e)) (OpScale (p_overlap P) (overlap_sum_p e)))
                      (OpScale (p_enc P) (viability_sum_p e)))
               (OpScale (p_opt P * (1 - p_share P))%Q (makespan_term_p e L)))
        (OpScale (p_opt P * p_share P)%Q (early_start_term_p e)).

(* the encoding of a well-formed instance under an accepted limit, in closed form *)
Definition enc_of (I : instance) (L : Z) : enc :=
  let js := vars_of_jobs L 0 0 (inst_jobs I) in mkEnc (sum_nq (concat js)) js.

(* ---- the numeric content of each part on a basis state (what the eigenvalue lemmas compute) *)
Definition sumQl (l : list Q) : Q := fold_right Qplus 0%Q l.

Definition pairs_val (b : nat -> bool) (p : pterm) : Q :=
  match p with
  | PZero => 0%Q
  | PPairs v1 v2 pairs => sumQl (map (fun st => (vt_val v1 b (idx v1 (fst st)) * vt_val v2 b (idx v2 (snd st)))%Q) pairs)
  end.

Definition viability_val (f : ctable) (b : nat -> bool) (v : dwvar) : Q :=
  (inject_Z (Z.of_nat (max_count f v + 1)) * inject_Z (2 * Z.of_nat (n_antiwalls v b)))%Q.

Definition makespan_val (e : enc) (L : Z) (b : nat -> bool) : Q :=
  let n_jobs := Z.of_nat (List.length (e_jobs e)) in
  sumQl (map (fun vs => match last_opt vs with
                        | None => 0%Q
                        | Some v => sumQl (map (fun t => (mk_coef n_jobs L (t + v_dur v) * vt_val v b (idx v t))%Q) (v_values v))
                        end) (e_jobs e)).

Definition early_val (e : enc) (b : nat -> bool) : Q :=
  let maxv := Z.of_nat (sum_nq (e_vars e)) in
  sumQl (map (fun v => sumQl (map (fun it => (early_coef maxv (fst it) * vt_val v b (idx v (snd it)))%Q) (tl (enumerate (v_values v))))) (e_vars e)).

Definition energy_val (P : penalties) (L : Z) (e : enc) (b : nat -> bool) : Q :=
  (p_prec P * sumQl (map (pairs_val b) (prec_plans_p e))
   + p_overlap P * sumQl (map (pairs_val b) (overlap_plans_p e))
   + p_enc P * sumQl (map (viability_val (counts_p e) b) (e_vars e))
   + p_opt P * (1 - p_share P) * makespan_val e L b
   + p_opt P * p_share P * early_val e b)%Q.

(* ---- what the proofs about the operator need to know about an encoding (all of it holds for enc_of I L when
   I is well formed and L is accepted; see Encoder_proofs.v) *)
Definition contiguous (v : dwvar) : Prop := exists a N, v_values v = zrange a N.
Definition enc_wf (e : enc) (L : Z) : Prop :=
  e_nq e = sum_nq (e_vars e) /\ 0 <= L /\ e_jobs e <> [] /\ (forall vs, In vs (e_jobs e) -> vs <> [])
  /\ (forall v, In v (e_vars e) -> var_wf v (e_nq e) /\ contiguous v).
