(* Model of JSSPDomainWallHamiltonianEncoder (domain_wall_hamiltonian_encoder.py).  Definitions only.
   - prepare_encoding: per job the ValueError for a too-short limit, per operation the start-time window
     [start_offset, limit - end_offset], the qubit offset, the construction index;
   - the pair terms (precedence, overlap) with their early exits and the constraint-count increments;
   - viability weights (max count + 1), makespan and early-start terms, the five weighted sums;
   - translate_result_bitstring (length check, reversal, per-operation decoding, result constructor).
   Dict look-ups keyed by Operation are modelled by carrying each variable next to its operation ([v_op]); the
   constraint-count dict, initialised to 0 for every (operation,start time), is a function with default 0.
   [legacy = true] is the behaviour before commit 3918627 (no padding of empty term lists). *)
From QV Require Export Jssp.DomainWall Jssp.Valid.
Open Scope Z_scope.
Open Scope list_scope.

Record penalties := mkPen { p_enc : Q; p_overlap : Q; p_prec : Q; p_opt : Q; p_share : Q }.

Record enc := mkEnc { e_nq : nat; e_jobs : list (list dwvar) }.
Definition e_vars (e : enc) : list dwvar := concat (e_jobs e).

Definition sum_nq (vs : list dwvar) : nat := fold_right (fun v acc => (var_nq v + acc)%nat) 0%nat vs.
Definition job_total (j : job) : Z := sumZ (map op_dur (job_ops j)).

(* the inner loop of _prepare_encoding over the operations of one job *)
Fixpoint prep_ops (L so eo : Z) (q id : nat) (ops : list operation) : result (list dwvar) :=
  match ops with
  | [] => Ok []
  | o :: r =>
      let n_start_times := L - (so + eo) + 1 in
      do v <- mk_dwvar id o q (zrange so n_start_times);
      do vs <- prep_ops L (so + op_dur o) (eo - op_dur o) (q + var_nq v)%nat (S id) r;
      Ok (v :: vs)
  end.

Fixpoint prep_jobs (L : Z) (q id : nat) (jobs : list job) : result (list (list dwvar)) :=
  match jobs with
  | [] => Ok []
  | j :: r =>
      let eo := job_total j in
      if eo >? L then Err ValueError
      else
        do vs <- prep_ops L 0 eo q id (job_ops j);
        do rest <- prep_jobs L (q + sum_nq vs)%nat (id + List.length vs)%nat r;
        Ok (vs :: rest)
  end.

Definition prepare_encoding (I : instance) (L : Z) : result enc :=
  do js <- prep_jobs L 0%nat 0%nat (inst_jobs I);
  Ok (mkEnc (sum_nq (concat js)) js).

(* n_qubits property *)
Definition n_qubits (I : instance) (L : Z) : result nat :=
  do e <- prepare_encoding I L; Ok (e_nq e).

(* _machine_operations: dict machine -> operations, both in insertion order *)
Fixpoint mo_add (v : dwvar) (mo : list (string * list dwvar)) : list (string * list dwvar) :=
  match mo with
  | [] => [(op_machine (v_op v), [v])]
  | (m, l) :: r => if String.eqb m (op_machine (v_op v)) then (m, l ++ [v]) :: r else (m, l) :: mo_add v r
  end.
Definition machine_ops (vars : list dwvar) : list (string * list dwvar) :=
  fold_left (fun mo v => mo_add v mo) vars [].

(* itertools.combinations(l, 2) *)
Fixpoint combs2 {A} (l : list A) : list (A * A) :=
  match l with [] => [] | x :: r => map (pair x) r ++ combs2 r end.

(* (job.operations[i], job.operations[i+1]) for i in range(len - 1) *)
Fixpoint consecutive {A} (l : list A) : list (A * A) :=
  match l with
  | [] => []
  | x :: r => match r with [] => [] | y :: _ => (x, y) :: consecutive r end
  end.

(* ------------------------------------------------------------------ pair terms *)
Definition v_dur (v : dwvar) : Z := op_dur (v_op v).

(* what a pair-term function decides: the early exit (zero operator) or the list of penalised start-time pairs *)
Inductive pterm := PZero | PPairs (v1 v2 : dwvar) (pairs : list (Z * Z)).

Definition prec_pairs (v1 v2 : dwvar) : list (Z * Z) :=
  filter (fun st => negb (fst st + v_dur v1 <=? snd st)) (list_prod (v_values v1) (v_values v2)).

Definition overlap_pairs (v1 v2 : dwvar) : list (Z * Z) :=
  filter (fun st => (fst st <? snd st + v_dur v2) && (snd st <? fst st + v_dur v1)) (list_prod (v_values v1) (v_values v2)).

(* values[0] / values[-1] *)
Definition vmin (v : dwvar) : result Z := match hd_error (v_values v) with Some x => Ok x | None => Err IndexError end.
Definition vmax (v : dwvar) : result Z := match last_opt (v_values v) with Some x => Ok x | None => Err IndexError end.

Definition prec_plan (v1 v2 : dwvar) : result pterm :=
  do mx1 <- vmax v1; do mn2 <- vmin v2;
  if mx1 + v_dur v1 <=? mn2 then Ok PZero
  else Ok (PPairs v1 v2 (prec_pairs v1 v2)).

Definition overlap_plan (v1 v2 : dwvar) : result pterm :=
  do mx1 <- vmax v1; do mn2 <- vmin v2;
  if mx1 + v_dur v1 <=? mn2 then Ok PZero
  else
    do mx2 <- vmax v2; do mn1 <- vmin v1;
    if mx2 + v_dur v2 <=? mn1 then Ok PZero
    else Ok (PPairs v1 v2 (overlap_pairs v1 v2)).

Definition pair_local (nq : nat) (v1 v2 : dwvar) (st : Z * Z) : result opexpr :=
  do a <- value_term v1 (fst st) nq;
  do b <- value_term v2 (snd st) nq;
  Ok (OpMul a b).

Definition plan_term (nq : nat) (p : pterm) : result opexpr :=
  match p with
  | PZero => do I <- pauli_identity_string nq; Ok (OpScale 0%Q I)
  | PPairs v1 v2 pairs => do ts <- mapM (pair_local nq v1 v2) pairs; sum_ops ts
  end.

(* _operation_constraint_counts *)
Definition ctable : Type := nat -> Z -> nat.
Definition ct_zero : ctable := fun _ _ => 0%nat.
Definition ct_bump (id : nat) (t : Z) (f : ctable) : ctable :=
  fun i s => if (i =? id)%nat && (s =? t) then S (f i s) else f i s.
Definition plan_bump (f : ctable) (p : pterm) : ctable :=
  match p with
  | PZero => f
  | PPairs v1 v2 pairs =>
      fold_left (fun g st => ct_bump (v_id v2) (snd st) (ct_bump (v_id v1) (fst st) g)) pairs f
  end.

Definition prec_plans (e : enc) : result (list pterm) :=
  mapM (fun ab => prec_plan (fst ab) (snd ab)) (concat (map consecutive (e_jobs e))).

Definition overlap_plans (e : enc) : result (list pterm) :=
  mapM (fun ab => overlap_plan (fst ab) (snd ab))
       (concat (map (fun ml => if (List.length (snd ml) <? 2)%nat then [] else combs2 (snd ml)) (machine_ops (e_vars e)))).

Definition count_table (plans : list pterm) : ctable := fold_left plan_bump plans ct_zero.

(* max over the variable's values of the count, starting from 0 *)
Definition max_count (f : ctable) (v : dwvar) : nat :=
  fold_left (fun m t => if (m <? f (v_id v) t)%nat then f (v_id v) t else m) (v_values v) 0%nat.

Definition weighted_viability (f : ctable) (nq : nat) (v : dwvar) : result opexpr :=
  do vt <- viability_term v nq;
  Ok (OpScale (inject_Z (Z.of_nat (max_count f v + 1))) vt).

(* ------------------------------------------------------------------ optimisation terms *)
Definition makespan_local (nq : nat) (n_jobs : Z) (maxv : Z) (v : dwvar) (t : Z) : result opexpr :=
  if maxv =? 0 then Err ZeroDivisionError
  else
    do vt <- value_term v t nq;
    Ok (OpScale ((1 # 1) / inject_Z maxv * inject_Z ((n_jobs + 1) ^ (t + v_dur v)))%Q vt).

Definition makespan_term (e : enc) (L : Z) : result opexpr :=
  let n_jobs := Z.of_nat (List.length (e_jobs e)) in
  let maxv := n_jobs * (n_jobs + 1) ^ L in
  do per_job <- mapM (fun vs => match last_opt vs with
                                 | None => Err IndexError
                                 | Some v => mapM (makespan_local (e_nq e) n_jobs maxv v) (v_values v)
                                 end) (e_jobs e);
  sum_ops (concat per_job).

Definition early_local (nq : nat) (maxv : Z) (v : dwvar) (it : nat * Z) : result opexpr :=
  if maxv =? 0 then Err ZeroDivisionError
  else
    do vt <- value_term v (snd it) nq;
    Ok (OpScale ((1 # 1) / inject_Z maxv * inject_Z (Z.of_nat (fst it)))%Q vt).

Definition enumerate {A} (l : list A) : list (nat * A) := combine (seq 0 (List.length l)) l.

Definition early_start_term (e : enc) : result opexpr :=
  let maxv := Z.of_nat (sum_nq (e_vars e)) in
  do per_var <- mapM (fun v => mapM (early_local (e_nq e) maxv v) (tl (enumerate (v_values v)))) (e_vars e);
  sum_ops (concat per_var).

(* ------------------------------------------------------------------ _prepare_hamiltonian *)
Definition pad_empty (legacy : bool) (nq : nat) (ts : list opexpr) : result (list opexpr) :=
  if legacy then Ok ts
  else match ts with
       | [] => do I <- pauli_identity_string nq; Ok [OpScale 0%Q I]
       | _ => Ok ts
       end.

Definition hamiltonian_of (legacy : bool) (P : penalties) (L : Z) (e : enc) : result opexpr :=
  let nq := e_nq e in
  do pplans <- prec_plans e;
  do pterms <- mapM (plan_term nq) pplans;
  do oplans <- overlap_plans e;
  do oterms <- mapM (plan_term nq) oplans;
  let f := count_table (pplans ++ oplans) in
  do vterms <- mapM (weighted_viability f nq) (e_vars e);
  do pterms' <- pad_empty legacy nq pterms;
  do oterms' <- pad_empty legacy nq oterms;
  do mk <- makespan_term e L;
  do es <- early_start_term e;
  do sp <- sum_ops pterms';
  do so <- sum_ops oterms';
  do sv <- sum_ops vterms;
  Ok (OpAdd (OpAdd (OpAdd (OpAdd (OpScale (p_prec P) sp) (OpScale (p_overlap P) so)) (OpScale (p_enc P) sv))
                   (OpScale (p_opt P * (1 - p_share P))%Q mk))
            (OpScale (p_opt P * p_share P)%Q es)).

(* get_problem_hamiltonian *)
Definition hamiltonian (legacy : bool) (P : penalties) (I : instance) (L : Z) : result opexpr :=
  do e <- prepare_encoding I L; hamiltonian_of legacy P L e.

(* ------------------------------------------------------------------ translate_result_bitstring
   The bitstring is a list of booleans in the order of its characters ('1' = true). *)
Definition decode_rows (e : enc) (bl : list bool) : result (list (list psop)) :=
  mapM (fun vs => mapM (fun v => do x <- value_from_bits v bl; Ok (v_op v, x)) vs) (e_jobs e).

Definition translate (I : instance) (L : Z) (bits : list bool) : result schedule :=
  do e <- prepare_encoding I L;
  if negb (List.length bits =? e_nq e)%nat then Err ValueError
  else
    do rows <- decode_rows e (rev bits);
    let s := combine (inst_jobs I) rows in
    if result_ok I s then Ok s else Err JSSPException.

(* energy the Hamiltonian assigns to the basis state named by a bitstring (Qiskit: character k of the string is
   qubit n-1-k) *)
Definition energy (H : opexpr) (bits : list bool) : Q := eval H (state_of (rev bits)).
