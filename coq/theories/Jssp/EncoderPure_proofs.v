(* The monadic construction of the problem Hamiltonian (Encoder.v: hamiltonian_of) returns the pure form
   hamiltonian_p of EncoderPure.v on every well-formed encoding with at least one qubit; the pure form only touches
   qubits below e_nq and its eigenvalue on a basis state is energy_val.  With zero qubits the construction raises
   ValueError; the legacy variant (no padding) raises QiskitError as soon as one of the two pair lists is empty. *)
From QV Require Import Jssp.EncoderPure Jssp.DomainWall_proofs Jssp.Zpoly_proofs Jssp.Grouping_proofs.
From Coq Require Import Lqa Lia.
Open Scope Z_scope.
Open Scope list_scope.

(* ------------------------------------------------------------------ generic list facts *)
Lemma in_nonempty {A} (x : A) l : In x l -> l <> [].
Proof. intros H E. subst. contradiction. Qed.

Lemma last_opt_last {A} (d : A) : forall l, l <> [] -> last_opt l = Some (last l d).
Proof.
  induction l as [|x xs IH]; intros H; [congruence|].
  destruct xs as [|y ys]; [reflexivity|].
  change (last_opt (x :: y :: ys)) with (last_opt (y :: ys)).
  change (last (x :: y :: ys) d) with (last (y :: ys) d). apply IH. discriminate.
Qed.

Lemma last_opt_In {A} : forall (l : list A) x, last_opt l = Some x -> In x l.
Proof.
  induction l as [|y ys IH]; intros x H; [discriminate|].
  destruct ys as [|z zs].
  - inversion H. left. reflexivity.
  - right. apply IH. exact H.
Qed.

Lemma last_opt_some {A} : forall (l : list A), l <> [] -> exists x, last_opt l = Some x /\ In x l.
Proof.
  intros l H. destruct l as [|d r]; [congruence|].
  exists (last (d :: r) d). pose proof (last_opt_last d (d :: r) H) as E. split; [exact E | apply last_opt_In; exact E].
Qed.

Lemma concat_map_nil {A B} (F : A -> list B) : forall l, concat (map F l) = [] -> forall x, In x l -> F x = [].
Proof.
  induction l as [|y ys IH]; intros E x Hx; [contradiction|].
  cbn [map concat] in E. apply app_eq_nil in E as [E1 E2].
  destruct Hx as [->|Hx]; [exact E1 | apply IH; assumption].
Qed.

Lemma In_tl {A} (x : A) l : In x (tl l) -> In x l.
Proof. destruct l; simpl; auto. Qed.

Lemma enumerate_In {A} (l : list A) i t : In (i, t) (enumerate l) -> In t l.
Proof. unfold enumerate. intros H. eapply in_combine_r. exact H. Qed.

Lemma enumerate_length {A} (l : list A) : List.length (enumerate l) = List.length l.
Proof. unfold enumerate. rewrite combine_length, seq_length. lia. Qed.

Lemma tl_length {A} (l : list A) : List.length (tl l) = (List.length l - 1)%nat.
Proof. destruct l; simpl; lia. Qed.

Lemma mapM_head_err {A B} (f : A -> result B) x l s : f x = Err s -> mapM f (x :: l) = Err s.
Proof. intros H. cbn [mapM]. rewrite H. reflexivity. Qed.

(* ------------------------------------------------------------------ 1. first / last value, non-empty pair lists *)
Lemma vmax_ok v : v_values v <> [] -> vmax v = Ok (vmax_p v).
Proof. intros H. unfold vmax, vmax_p. rewrite (last_opt_last 0 _ H). reflexivity. Qed.

Lemma vmin_ok v : v_values v <> [] -> vmin v = Ok (vmin_p v).
Proof. intros H. unfold vmin, vmin_p. destruct (v_values v); [congruence | reflexivity]. Qed.

Lemma vmax_p_In v : v_values v <> [] -> In (vmax_p v) (v_values v).
Proof. intros H. apply last_opt_In. unfold vmax_p. apply last_opt_last. exact H. Qed.

Lemma vmin_p_In v : v_values v <> [] -> In (vmin_p v) (v_values v).
Proof. intros H. unfold vmin_p. destruct (v_values v); [congruence | left; reflexivity]. Qed.

Lemma zrange_hd a N : 1 <= N -> hd 0 (zrange a N) = a.
Proof.
  intros H. unfold zrange. destruct (Z.to_nat N) as [|k] eqn:E; [lia|].
  cbn [seq map hd]. lia.
Qed.

Lemma zrange_last a N : 1 <= N -> last (zrange a N) 0 = a + N - 1.
Proof.
  intros H. unfold zrange. destruct (Z.to_nat N) as [|k] eqn:E; [lia|].
  rewrite seq_S, map_app. cbn [map]. rewrite last_last. lia.
Qed.

Lemma vmin_p_zrange v a N : v_values v = zrange a N -> 1 <= N -> vmin_p v = a.
Proof. intros E H. unfold vmin_p. rewrite E. apply zrange_hd. exact H. Qed.

Lemma vmax_p_zrange v a N : v_values v = zrange a N -> 1 <= N -> vmax_p v = a + N - 1.
Proof. intros E H. unfold vmax_p. rewrite E. apply zrange_last. exact H. Qed.

Lemma contiguous_bounds v : contiguous v -> v_values v <> [] ->
  exists a N, 1 <= N /\ v_values v = zrange a N /\ vmin_p v = a /\ vmax_p v = a + N - 1.
Proof.
  intros [a [N E]] Hne. exists a, N.
  assert (HN : 1 <= N).
  { destruct (Z_lt_le_dec N 1) as [Hlt|Hge]; [|exact Hge]. exfalso. apply Hne. rewrite E. unfold zrange.
    replace (Z.to_nat N) with 0%nat by lia. reflexivity. }
  repeat split; [exact HN | exact E | eapply vmin_p_zrange; eassumption | eapply vmax_p_zrange; eassumption].
Qed.

Lemma overlap_pairs_nonempty : forall v1 v2, contiguous v1 -> contiguous v2 -> v_values v1 <> [] -> v_values v2 <> [] ->
  0 < v_dur v1 -> 0 < v_dur v2 -> ~ (vmax_p v1 + v_dur v1 <= vmin_p v2) -> ~ (vmax_p v2 + v_dur v2 <= vmin_p v1) ->
  overlap_pairs v1 v2 <> [].
Proof.
  intros v1 v2 C1 C2 N1 N2 D1 D2 H1 H2.
  destruct (contiguous_bounds v1 C1 N1) as [a1 [n1 [Hn1 [E1 [Mi1 Ma1]]]]].
  destruct (contiguous_bounds v2 C2 N2) as [a2 [n2 [Hn2 [E2 [Mi2 Ma2]]]]].
  rewrite Mi1, Ma1, Mi2, Ma2 in *.
  assert (W : exists s t, a1 <= s < a1 + n1 /\ a2 <= t < a2 + n2 /\ s < t + v_dur v2 /\ t < s + v_dur v1).
  { destruct (Z_lt_le_dec (a1 + n1 - 1) a2) as [A|A].
    - exists (a1 + n1 - 1), a2. lia.
    - destruct (Z_lt_le_dec (a2 + n2 - 1) a1) as [B|B].
      + exists a1, (a2 + n2 - 1). lia.
      + exists (Z.max a1 a2), (Z.max a1 a2). lia. }
  destruct W as [s [t [Hs [Ht [Hst Hts]]]]].
  apply (in_nonempty (s, t)). unfold overlap_pairs. apply filter_In. split.
  - apply in_prod; [rewrite E1 | rewrite E2]; apply zrange_In; assumption.
  - cbn [fst snd]. apply andb_true_iff. split; apply Z.ltb_lt; assumption.
Qed.

Lemma prec_pairs_nonempty : forall v1 v2, v_values v1 <> [] -> v_values v2 <> [] ->
  ~ (vmax_p v1 + v_dur v1 <= vmin_p v2) -> prec_pairs v1 v2 <> [].
Proof.
  intros v1 v2 N1 N2 H.
  apply (in_nonempty (vmax_p v1, vmin_p v2)). unfold prec_pairs. apply filter_In. split.
  - apply in_prod; [apply vmax_p_In | apply vmin_p_In]; assumption.
  - cbn [fst snd]. apply negb_true_iff. apply Z.leb_gt. lia.
Qed.

Lemma prec_pairs_In v1 v2 st : In st (prec_pairs v1 v2) -> In (fst st) (v_values v1) /\ In (snd st) (v_values v2).
Proof.
  unfold prec_pairs. intros H. apply filter_In in H as [H _]. destruct st as [s t]. apply in_prod_iff in H. exact H.
Qed.

Lemma overlap_pairs_In v1 v2 st : In st (overlap_pairs v1 v2) -> In (fst st) (v_values v1) /\ In (snd st) (v_values v2).
Proof.
  unfold overlap_pairs. intros H. apply filter_In in H as [H _]. destruct st as [s t]. apply in_prod_iff in H. exact H.
Qed.

(* ------------------------------------------------------------------ what enc_wf gives *)
Lemma wf_var e L v : enc_wf e L -> In v (e_vars e) -> var_wf v (e_nq e) /\ contiguous v.
Proof. intros (_ & _ & _ & _ & H) Hv. apply H. exact Hv. Qed.

Lemma wf_values_ne e L v : enc_wf e L -> In v (e_vars e) -> v_values v <> [].
Proof.
  intros Hwf Hv. destruct (wf_var e L v Hwf Hv) as [[Hlen _] _]. intros E. rewrite E in Hlen. simpl in Hlen. lia.
Qed.

Lemma wf_row_vars e vs v : In vs (e_jobs e) -> In v vs -> In v (e_vars e).
Proof. intros H1 H2. unfold e_vars. apply in_concat. exists vs. split; assumption. Qed.

Lemma wf_vars_ne e L : enc_wf e L -> e_vars e <> [].
Proof.
  intros (_ & _ & Hj & Hr & _). destruct (e_jobs e) as [|vs rest] eqn:Ej; [congruence|].
  assert (Hvs : vs <> []) by (apply Hr; left; reflexivity).
  destruct vs as [|v r]; [congruence|]. apply (in_nonempty v). apply (wf_row_vars e (v :: r)).
  - rewrite Ej. left. reflexivity.
  - left. reflexivity.
Qed.

Lemma idx_le v t : (idx v t <= var_nq v)%nat.
Proof.
  unfold idx, var_nq. destruct (index_of t (v_values v)) as [i|] eqn:E; [|lia].
  apply index_of_lt in E as [E _]. lia.
Qed.

Lemma sum_nq_pos : forall vs, (1 <= sum_nq vs)%nat -> exists v, In v vs /\ (1 <= var_nq v)%nat.
Proof.
  induction vs as [|v r IH]; intros H; [simpl in H; lia|].
  cbn [sum_nq fold_right] in H. destruct (Nat.eq_dec (var_nq v) 0) as [E|E].
  - destruct IH as [w [Hw Hn]]; [unfold sum_nq; lia|]. exists w. split; [right; exact Hw | exact Hn].
  - exists v. split; [left; reflexivity | lia].
Qed.

Lemma sum_nq_zero : forall vs, sum_nq vs = 0%nat -> forall v, In v vs -> var_nq v = 0%nat.
Proof.
  induction vs as [|w r IH]; intros H v Hv; [contradiction|].
  cbn [sum_nq fold_right] in H. destruct Hv as [->|Hv]; [lia|]. apply IH; [unfold sum_nq; lia | exact Hv].
Qed.

(* ------------------------------------------------------------------ 2. the plans *)
Lemma consecutive_In {A} : forall (l : list A) a b, In (a, b) (consecutive l) -> In a l /\ In b l.
Proof.
  induction l as [|x r IH]; intros a b H; [contradiction|].
  destruct r as [|y r']; [contradiction|].
  change (consecutive (x :: y :: r')) with ((x, y) :: consecutive (y :: r')) in H.
  destruct H as [H|H].
  - inversion H; subst. split; [left | right; left]; reflexivity.
  - apply IH in H. destruct H. split; right; assumption.
Qed.

Lemma prec_var_pairs_members e a b : In (a, b) (prec_var_pairs e) -> In a (e_vars e) /\ In b (e_vars e).
Proof.
  unfold prec_var_pairs. intros H. apply in_concat in H as [l [Hl Hab]].
  apply in_map_iff in Hl as [vs [<- Hvs]]. apply consecutive_In in Hab as [Ha Hb].
  split; eapply wf_row_vars; eassumption.
Qed.

Lemma overlap_var_pairs_members e a b : In (a, b) (overlap_var_pairs e) -> In a (e_vars e) /\ In b (e_vars e).
Proof. intros H. apply (machine_pairs_members (e_vars e) a b). exact H. Qed.

Lemma prec_plan_ok a b : v_values a <> [] -> v_values b <> [] -> prec_plan a b = Ok (prec_plan_p a b).
Proof.
  intros Ha Hb. unfold prec_plan, prec_plan_p. rewrite (vmax_ok a Ha), (vmin_ok b Hb). cbn [bind].
  destruct (vmax_p a + v_dur a <=? vmin_p b); reflexivity.
Qed.

Lemma overlap_plan_ok a b : v_values a <> [] -> v_values b <> [] -> overlap_plan a b = Ok (overlap_plan_p a b).
Proof.
  intros Ha Hb. unfold overlap_plan, overlap_plan_p. rewrite (vmax_ok a Ha), (vmin_ok b Hb). cbn [bind].
  destruct (vmax_p a + v_dur a <=? vmin_p b); [reflexivity|].
  rewrite (vmax_ok b Hb), (vmin_ok a Ha). cbn [bind].
  destruct (vmax_p b + v_dur b <=? vmin_p a); reflexivity.
Qed.

Lemma prec_plans_ok e L : enc_wf e L -> prec_plans e = Ok (prec_plans_p e).
Proof.
  intros Hwf. unfold prec_plans, prec_plans_p. fold (prec_var_pairs e).
  apply mapM_ok_map. intros [a b] Hab. apply prec_var_pairs_members in Hab as [Ha Hb]. cbn [fst snd].
  apply prec_plan_ok; eapply wf_values_ne; eassumption.
Qed.

Lemma overlap_plans_ok e L : enc_wf e L -> overlap_plans e = Ok (overlap_plans_p e).
Proof.
  intros Hwf. unfold overlap_plans, overlap_plans_p. fold (overlap_var_pairs e).
  apply mapM_ok_map. intros [a b] Hab. apply overlap_var_pairs_members in Hab as [Ha Hb]. cbn [fst snd].
  apply overlap_plan_ok; eapply wf_values_ne; eassumption.
Qed.

(* ------------------------------------------------------------------ 3. plan terms *)
(* a plan whose pair list is non-empty and made of values of its two operands *)
Definition plan_good (p : pterm) : Prop :=
  match p with
  | PZero => True
  | PPairs v1 v2 pairs =>
      pairs <> [] /\ forall st, In st pairs -> In (fst st) (v_values v1) /\ In (snd st) (v_values v2)
  end.

Definition plan_vars_in (e : enc) (p : pterm) : Prop :=
  match p with PZero => True | PPairs v1 v2 _ => In v1 (e_vars e) /\ In v2 (e_vars e) end.

Definition plan_vars_wf (nq : nat) (p : pterm) : Prop :=
  match p with PZero => True | PPairs v1 v2 _ => var_wf v1 nq /\ var_wf v2 nq end.

Lemma prec_plan_p_good v1 v2 : v_values v1 <> [] -> v_values v2 <> [] -> plan_good (prec_plan_p v1 v2).
Proof.
  intros N1 N2. unfold prec_plan_p. destruct (Z.leb_spec (vmax_p v1 + v_dur v1) (vmin_p v2)) as [H|H]; [exact I|].
  split; [apply prec_pairs_nonempty; [assumption | assumption | lia] | apply prec_pairs_In].
Qed.

Lemma overlap_plan_p_good v1 v2 : contiguous v1 -> contiguous v2 -> v_values v1 <> [] -> v_values v2 <> [] ->
  0 < v_dur v1 -> 0 < v_dur v2 -> plan_good (overlap_plan_p v1 v2).
Proof.
  intros C1 C2 N1 N2 D1 D2. unfold overlap_plan_p.
  destruct (Z.leb_spec (vmax_p v1 + v_dur v1) (vmin_p v2)) as [H|H]; [exact I|].
  destruct (Z.leb_spec (vmax_p v2 + v_dur v2) (vmin_p v1)) as [H'|H']; [exact I|].
  split; [apply overlap_pairs_nonempty; try assumption; lia | apply overlap_pairs_In].
Qed.

Lemma prec_plan_p_vars e v1 v2 : In v1 (e_vars e) -> In v2 (e_vars e) -> plan_vars_in e (prec_plan_p v1 v2).
Proof. intros H1 H2. unfold prec_plan_p. destruct (_ <=? _); [exact I | split; assumption]. Qed.

Lemma overlap_plan_p_vars e v1 v2 : In v1 (e_vars e) -> In v2 (e_vars e) -> plan_vars_in e (overlap_plan_p v1 v2).
Proof.
  intros H1 H2. unfold overlap_plan_p. destruct (_ <=? _); [exact I|]. destruct (_ <=? _); [exact I | split; assumption].
Qed.

Lemma prec_plans_p_spec e L : enc_wf e L -> forall p, In p (prec_plans_p e) -> plan_good p /\ plan_vars_in e p.
Proof.
  intros Hwf p Hp. unfold prec_plans_p in Hp. apply in_map_iff in Hp as [[a b] [<- Hab]].
  apply prec_var_pairs_members in Hab as [Ha Hb]. cbn [fst snd]. split.
  - apply prec_plan_p_good; eapply wf_values_ne; eassumption.
  - apply prec_plan_p_vars; assumption.
Qed.

Lemma overlap_plans_p_spec e L : enc_wf e L -> (forall v, In v (e_vars e) -> 0 < v_dur v) ->
  forall p, In p (overlap_plans_p e) -> plan_good p /\ plan_vars_in e p.
Proof.
  intros Hwf Hdur p Hp. unfold overlap_plans_p in Hp. apply in_map_iff in Hp as [[a b] [<- Hab]].
  apply overlap_var_pairs_members in Hab as [Ha Hb]. cbn [fst snd]. split.
  - apply overlap_plan_p_good; try (eapply wf_values_ne; eassumption); try (apply Hdur; assumption).
    + apply (wf_var e L a Hwf Ha).
    + apply (wf_var e L b Hwf Hb).
  - apply overlap_plan_p_vars; assumption.
Qed.

Lemma plan_vars_in_wf e L p : enc_wf e L -> plan_vars_in e p -> plan_vars_wf (e_nq e) p.
Proof.
  intros Hwf. destruct p as [|v1 v2 pairs]; [exact (fun x => x)|]. intros [H1 H2].
  split; [apply (wf_var e L v1 Hwf H1) | apply (wf_var e L v2 Hwf H2)].
Qed.

Lemma pair_local_ok nq v1 v2 st : (1 <= nq)%nat -> var_wf v1 nq -> var_wf v2 nq ->
  In (fst st) (v_values v1) -> In (snd st) (v_values v2) -> pair_local nq v1 v2 st = Ok (pair_local_p v1 v2 st).
Proof.
  intros Hnq W1 W2 I1 I2.
  destruct (index_of_In _ _ I1) as [i1 E1]. destruct (index_of_In _ _ I2) as [i2 E2].
  unfold pair_local, pair_local_p, idx.
  rewrite (value_term_ok v1 nq Hnq W1 _ _ E1). cbn [bind]. rewrite (value_term_ok v2 nq Hnq W2 _ _ E2). cbn [bind].
  rewrite E1, E2. reflexivity.
Qed.

Lemma plan_term_ok_gen nq p : (1 <= nq)%nat -> plan_good p -> plan_vars_wf nq p -> plan_term nq p = Ok (plan_term_p p).
Proof.
  intros Hnq Hg Hw. destruct p as [|v1 v2 pairs]; cbn [plan_term plan_term_p].
  - rewrite (pis_ok nq Hnq). reflexivity.
  - destruct Hg as [Hne Hin]. destruct Hw as [W1 W2].
    rewrite (mapM_ok_map _ (pair_local_p v1 v2)).
    + cbn [bind]. destruct pairs; [congruence | reflexivity].
    + intros st Hst. destruct (Hin st Hst). apply pair_local_ok; assumption.
Qed.

Lemma plan_term_ok e L p : (1 <= e_nq e)%nat -> enc_wf e L -> (forall v, In v (e_vars e) -> 0 < v_dur v) ->
  In p (prec_plans_p e) \/ In p (overlap_plans_p e) -> plan_term (e_nq e) p = Ok (plan_term_p p).
Proof.
  intros Hnq Hwf Hdur [Hp|Hp].
  - destruct (prec_plans_p_spec e L Hwf p Hp) as [Hg Hv].
    apply plan_term_ok_gen; [assumption | assumption | eapply plan_vars_in_wf; eassumption].
  - destruct (overlap_plans_p_spec e L Hwf Hdur p Hp) as [Hg Hv].
    apply plan_term_ok_gen; [assumption | assumption | eapply plan_vars_in_wf; eassumption].
Qed.

(* ------------------------------------------------------------------ 4. the other parts *)
Lemma weighted_viability_ok f nq v : (1 <= nq)%nat -> var_wf v nq ->
  weighted_viability f nq v = Ok (weighted_viability_p f v).
Proof.
  intros Hnq W. unfold weighted_viability, weighted_viability_p. rewrite (viability_term_ok v nq Hnq W). reflexivity.
Qed.

Lemma pad_empty_ok nq ts : (1 <= nq)%nat -> pad_empty false nq ts = Ok (pad_p ts).
Proof. intros Hnq. unfold pad_empty, pad_p. destruct ts; [rewrite (pis_ok nq Hnq)|]; reflexivity. Qed.

Lemma sum_ops_pad_p ts : sum_ops (pad_p ts) = Ok (OpSum (pad_p ts)).
Proof. destruct ts; reflexivity. Qed.

Lemma jobs_count_pos e L : enc_wf e L -> 1 <= Z.of_nat (List.length (e_jobs e)).
Proof. intros (_ & _ & Hj & _). destruct (e_jobs e); [congruence | simpl List.length; lia]. Qed.

Lemma makespan_term_ok e L : (1 <= e_nq e)%nat -> enc_wf e L -> makespan_term e L = Ok (makespan_term_p e L).
Proof.
  intros Hnq Hwf. pose proof (jobs_count_pos e L Hwf) as HJ.
  destruct Hwf as (Hq & HL & Hj & Hr & Hv).
  unfold makespan_term, makespan_term_p. cbv zeta.
  set (J := Z.of_nat (List.length (e_jobs e))) in *.
  assert (Hmax : J * (J + 1) ^ L <> 0).
  { pose proof (Z.pow_pos_nonneg (J + 1) L ltac:(lia) HL). nia. }
  rewrite (mapM_ok_map _ (fun vs => match last_opt vs with
                                    | None => []
                                    | Some v => map (makespan_local_p J L v) (v_values v)
                                    end)).
  - cbn [bind]. match goal with |- sum_ops ?l = _ => destruct l eqn:E end; [exfalso | reflexivity].
    destruct (e_jobs e) as [|vs rest] eqn:Ej; [congruence|].
    pose proof (concat_map_nil _ _ E vs (or_introl eq_refl)) as E1. cbv beta in E1.
    destruct (last_opt_some vs (Hr vs (or_introl eq_refl))) as [v [Hl Hin]]. rewrite Hl in E1.
    apply map_eq_nil in E1.
    assert (Hve : In v (e_vars e)). { apply (wf_row_vars e vs); [rewrite Ej; left; reflexivity | exact Hin]. }
    destruct (Hv v Hve) as [[Hlen _] _]. rewrite E1 in Hlen. simpl in Hlen. lia.
  - intros vs Hvs. destruct (last_opt_some vs (Hr vs Hvs)) as [v [Hl Hin]]. rewrite Hl.
    assert (Hve : In v (e_vars e)) by (eapply wf_row_vars; eassumption).
    destruct (Hv v Hve) as [W _].
    apply mapM_ok_map. intros t Ht. unfold makespan_local, makespan_local_p, mk_coef.
    destruct (Z.eqb_spec (J * (J + 1) ^ L) 0); [contradiction|].
    destruct (index_of_In _ _ Ht) as [i Hi]. rewrite (value_term_ok v (e_nq e) Hnq W t i Hi). cbn [bind].
    unfold idx. rewrite Hi. reflexivity.
Qed.

Lemma early_start_term_ok e L : (1 <= e_nq e)%nat -> enc_wf e L -> early_start_term e = Ok (early_start_term_p e).
Proof.
  intros Hnq (Hq & HL & Hj & Hr & Hv).
  unfold early_start_term, early_start_term_p. cbv zeta.
  assert (Hs : (1 <= sum_nq (e_vars e))%nat) by (rewrite <- Hq; exact Hnq).
  set (M := Z.of_nat (sum_nq (e_vars e))) in *.
  assert (HM : M <> 0) by (unfold M; lia).
  rewrite (mapM_ok_map _ (fun v => map (early_local_p M v) (tl (enumerate (v_values v))))).
  - cbn [bind]. match goal with |- sum_ops ?l = _ => destruct l eqn:E end; [exfalso | reflexivity].
    destruct (sum_nq_pos _ Hs) as [v [Hin Hn]].
    pose proof (concat_map_nil _ _ E v Hin) as E1. cbv beta in E1. apply map_eq_nil in E1.
    apply (f_equal (@List.length _)) in E1. rewrite tl_length, enumerate_length in E1. simpl in E1.
    unfold var_nq in Hn. lia.
  - intros v Hin. destruct (Hv v Hin) as [W _]. apply mapM_ok_map. intros [i t] Hit.
    apply In_tl in Hit. apply enumerate_In in Hit.
    unfold early_local, early_local_p, early_coef. cbn [fst snd].
    destruct (Z.eqb_spec M 0); [contradiction|].
    destruct (index_of_In _ _ Hit) as [k Hk]. rewrite (value_term_ok v (e_nq e) Hnq W t k Hk). cbn [bind].
    unfold idx. rewrite Hk. reflexivity.
Qed.

(* the construction in terms of the pure parts, for both variants *)
Lemma hamiltonian_of_steps lg P L e : (1 <= e_nq e)%nat -> enc_wf e L -> (forall v, In v (e_vars e) -> 0 < v_dur v) ->
  hamiltonian_of lg P L e =
  (do pterms' <- pad_empty lg (e_nq e) (map plan_term_p (prec_plans_p e));
   do oterms' <- pad_empty lg (e_nq e) (map plan_term_p (overlap_plans_p e));
   do sp <- sum_ops pterms';
   do so <- sum_ops oterms';
   Ok (OpAdd (OpAdd (OpAdd (OpAdd (OpScale (p_prec P) sp) (OpScale (p_overlap P) so))
                           (OpScale (p_enc P) (viability_sum_p e)))
                    (OpScale (p_opt P * (1 - p_share P))%Q (makespan_term_p e L)))
             (OpScale (p_opt P * p_share P)%Q (early_start_term_p e)))).
Proof.
  intros Hnq Hwf Hdur. unfold hamiltonian_of. cbv zeta.
  rewrite (prec_plans_ok e L Hwf). cbn [bind].
  rewrite (mapM_ok_map (plan_term (e_nq e)) plan_term_p)
    by (intros p Hp; apply (plan_term_ok e L); auto).
  cbn [bind].
  rewrite (overlap_plans_ok e L Hwf). cbn [bind].
  rewrite (mapM_ok_map (plan_term (e_nq e)) plan_term_p)
    by (intros p Hp; apply (plan_term_ok e L); auto).
  cbn [bind].
  rewrite (mapM_ok_map _ (weighted_viability_p (counts_p e)))
    by (intros v Hv; apply weighted_viability_ok; [exact Hnq | apply (wf_var e L v Hwf Hv)]).
  cbn [bind].
  destruct (pad_empty lg (e_nq e) (map plan_term_p (prec_plans_p e))) as [pt|]; cbn [bind]; [|reflexivity].
  destruct (pad_empty lg (e_nq e) (map plan_term_p (overlap_plans_p e))) as [ot|]; cbn [bind]; [|reflexivity].
  rewrite (makespan_term_ok e L Hnq Hwf). cbn [bind].
  rewrite (early_start_term_ok e L Hnq Hwf). cbn [bind].
  destruct (sum_ops pt); cbn [bind]; [|reflexivity].
  destruct (sum_ops ot); cbn [bind]; [|reflexivity].
  unfold viability_sum_p.
  pose proof (wf_vars_ne e L Hwf) as Hne.
  destruct (e_vars e) as [|v r]; [congruence|]. reflexivity.
Qed.

Theorem hamiltonian_of_pure : forall P L e, (1 <= e_nq e)%nat -> enc_wf e L ->
  (forall v, In v (e_vars e) -> 0 < v_dur v) -> hamiltonian_of false P L e = Ok (hamiltonian_p P L e).
Proof.
  intros P L e Hnq Hwf Hdur. rewrite (hamiltonian_of_steps false P L e Hnq Hwf Hdur).
  rewrite !(pad_empty_ok _ _ Hnq). cbn [bind]. rewrite !sum_ops_pad_p. cbn [bind]. reflexivity.
Qed.

(* ------------------------------------------------------------------ 5. qubits *)
Lemma below_map {A} n (f : A -> opexpr) l :
  (forall x, In x l -> qubits_below n (f x) = true) -> forallb (qubits_below n) (map f l) = true.
Proof. intros H. apply forallb_forall. intros y Hy. apply in_map_iff in Hy as [x [<- Hx]]. apply H. exact Hx. Qed.

Lemma below_concat_map {A} n (F : A -> list opexpr) l :
  (forall x, In x l -> forallb (qubits_below n) (F x) = true) -> forallb (qubits_below n) (concat (map F l)) = true.
Proof.
  intros H. apply forallb_forall. intros y Hy. apply in_concat in Hy as [ys [Hys Hy]].
  apply in_map_iff in Hys as [x [<- Hx]]. specialize (H x Hx). rewrite forallb_forall in H. apply H. exact Hy.
Qed.

Lemma below_pad_p n ts : forallb (qubits_below n) ts = true -> forallb (qubits_below n) (pad_p ts) = true.
Proof. destruct ts; [reflexivity | exact (fun x => x)]. Qed.

Lemma value_term_p_idx_below nq v t : (1 <= nq)%nat -> var_wf v nq -> qubits_below nq (value_term_p v (idx v t)) = true.
Proof. intros Hnq W. apply value_term_p_below; [exact Hnq | exact W | apply idx_le]. Qed.

Lemma plan_term_p_below nq p : (1 <= nq)%nat -> plan_vars_wf nq p -> qubits_below nq (plan_term_p p) = true.
Proof.
  intros Hnq. destruct p as [|v1 v2 pairs]; [reflexivity|]. intros [W1 W2]. cbn [plan_term_p qubits_below].
  apply below_map. intros st _. unfold pair_local_p. cbn [qubits_below].
  rewrite !value_term_p_idx_below by assumption. reflexivity.
Qed.

Theorem hamiltonian_p_below : forall P L e, (1 <= e_nq e)%nat -> enc_wf e L ->
  (forall v, In v (e_vars e) -> 0 < v_dur v) -> qubits_below (e_nq e) (hamiltonian_p P L e) = true.
Proof.
  intros P L e Hnq Hwf Hdur. unfold hamiltonian_p. cbn [qubits_below].
  assert (A1 : qubits_below (e_nq e) (prec_sum_p e) = true).
  { unfold prec_sum_p. cbn [qubits_below]. apply below_pad_p, below_map. intros p Hp.
    apply plan_term_p_below; [exact Hnq|]. apply (plan_vars_in_wf e L p Hwf). apply (prec_plans_p_spec e L Hwf p Hp). }
  assert (A2 : qubits_below (e_nq e) (overlap_sum_p e) = true).
  { unfold overlap_sum_p. cbn [qubits_below]. apply below_pad_p, below_map. intros p Hp.
    apply plan_term_p_below; [exact Hnq|]. apply (plan_vars_in_wf e L p Hwf). apply (overlap_plans_p_spec e L Hwf Hdur p Hp). }
  assert (A3 : qubits_below (e_nq e) (viability_sum_p e) = true).
  { unfold viability_sum_p. cbn [qubits_below]. apply below_map. intros v Hv.
    unfold weighted_viability_p. cbn [qubits_below]. apply viability_p_below; [exact Hnq|]. apply (wf_var e L v Hwf Hv). }
  assert (A4 : qubits_below (e_nq e) (makespan_term_p e L) = true).
  { unfold makespan_term_p. cbv zeta. cbn [qubits_below]. apply below_concat_map. intros vs Hvs.
    destruct (last_opt vs) as [v|] eqn:El; [|reflexivity]. apply below_map. intros t _.
    unfold makespan_local_p. cbn [qubits_below]. apply value_term_p_idx_below; [exact Hnq|].
    apply (wf_var e L v Hwf). apply (wf_row_vars e vs v Hvs). apply last_opt_In. exact El. }
  assert (A5 : qubits_below (e_nq e) (early_start_term_p e) = true).
  { unfold early_start_term_p. cbv zeta. cbn [qubits_below]. apply below_concat_map. intros v Hv.
    apply below_map. intros it _. unfold early_local_p. cbn [qubits_below]. apply value_term_p_idx_below; [exact Hnq|].
    apply (wf_var e L v Hwf Hv). }
  rewrite A1, A2, A3, A4, A5. reflexivity.
Qed.

(* ------------------------------------------------------------------ 6. eigenvalues *)
Lemma eval_OpSum_map {A} (f : A -> opexpr) (g : A -> Q) b : forall l,
  (forall x, In x l -> (eval (f x) b == g x)%Q) -> (eval (OpSum (map f l)) b == sumQl (map g l))%Q.
Proof.
  induction l as [|x r IH]; intros H; [reflexivity|].
  cbn [map]. rewrite eval_sum_cons. change (sumQl (g x :: map g r)) with (g x + sumQl (map g r))%Q.
  rewrite IH by (intros y Hy; apply H; right; exact Hy). rewrite (H x (or_introl eq_refl)). reflexivity.
Qed.

Lemma eval_OpSum_concat_map {A} (F : A -> list opexpr) (g : A -> Q) b : forall l,
  (forall x, In x l -> (eval (OpSum (F x)) b == g x)%Q) -> (eval (OpSum (concat (map F l))) b == sumQl (map g l))%Q.
Proof.
  induction l as [|x r IH]; intros H; [reflexivity|].
  cbn [map concat]. rewrite eval_sum_app. change (sumQl (g x :: map g r)) with (g x + sumQl (map g r))%Q.
  rewrite IH by (intros y Hy; apply H; right; exact Hy). rewrite (H x (or_introl eq_refl)). reflexivity.
Qed.

Lemma eval_OpSum_pad_p ts b : (eval (OpSum (pad_p ts)) b == eval (OpSum ts) b)%Q.
Proof. destruct ts; [|reflexivity]. cbn [pad_p eval fold_right]. lra. Qed.

Lemma value_term_p_idx_eval v t b : (eval (value_term_p v (idx v t)) b == vt_val v b (idx v t))%Q.
Proof. apply value_term_p_eval. apply idx_le. Qed.

Lemma plan_term_p_eval p b : (eval (plan_term_p p) b == pairs_val b p)%Q.
Proof.
  destruct p as [|v1 v2 pairs]; cbn [plan_term_p pairs_val].
  - cbn [eval]. lra.
  - apply eval_OpSum_map. intros st _. unfold pair_local_p. cbn [eval]. rewrite !value_term_p_idx_eval. reflexivity.
Qed.

Lemma prec_sum_p_eval e b : (eval (prec_sum_p e) b == sumQl (map (pairs_val b) (prec_plans_p e)))%Q.
Proof.
  unfold prec_sum_p. rewrite eval_OpSum_pad_p. apply eval_OpSum_map. intros p _. apply plan_term_p_eval.
Qed.

Lemma overlap_sum_p_eval e b : (eval (overlap_sum_p e) b == sumQl (map (pairs_val b) (overlap_plans_p e)))%Q.
Proof.
  unfold overlap_sum_p. rewrite eval_OpSum_pad_p. apply eval_OpSum_map. intros p _. apply plan_term_p_eval.
Qed.

Lemma viability_sum_p_eval e b :
  (eval (viability_sum_p e) b == sumQl (map (viability_val (counts_p e) b) (e_vars e)))%Q.
Proof.
  unfold viability_sum_p. apply eval_OpSum_map. intros v _. unfold weighted_viability_p, viability_val.
  cbn [eval]. rewrite viability_p_eval. reflexivity.
Qed.

Lemma makespan_term_p_eval e L b : (eval (makespan_term_p e L) b == makespan_val e L b)%Q.
Proof.
  unfold makespan_term_p, makespan_val. cbv zeta. apply eval_OpSum_concat_map. intros vs _.
  destruct (last_opt vs) as [v|]; [|reflexivity].
  apply eval_OpSum_map. intros t _. unfold makespan_local_p. cbn [eval]. rewrite value_term_p_idx_eval. reflexivity.
Qed.

Lemma early_start_term_p_eval e b : (eval (early_start_term_p e) b == early_val e b)%Q.
Proof.
  unfold early_start_term_p, early_val. cbv zeta. apply eval_OpSum_concat_map. intros v _.
  apply eval_OpSum_map. intros it _. unfold early_local_p. cbn [eval]. rewrite value_term_p_idx_eval. reflexivity.
Qed.

(* holds for every encoding *)
Lemma hamiltonian_p_eval_any P L e b : (eval (hamiltonian_p P L e) b == energy_val P L e b)%Q.
Proof.
  unfold hamiltonian_p, energy_val. cbn [eval].
  rewrite prec_sum_p_eval, overlap_sum_p_eval, viability_sum_p_eval, makespan_term_p_eval, early_start_term_p_eval.
  reflexivity.
Qed.

Theorem hamiltonian_p_eval : forall P L e, (1 <= e_nq e)%nat -> enc_wf e L ->
  (forall v, In v (e_vars e) -> 0 < v_dur v) -> forall b, (eval (hamiltonian_p P L e) b == energy_val P L e b)%Q.
Proof. intros P L e _ _ _ b. apply hamiltonian_p_eval_any. Qed.

(* ------------------------------------------------------------------ 7. a circuit without qubits *)
Lemma value_term_zero v t : In t (v_values v) -> var_nq v = 0%nat -> value_term v t 0 = Err ValueError.
Proof.
  intros Ht Hn. unfold value_term. destruct (index_of_In _ _ Ht) as [i Hi]. rewrite Hi, Hn. reflexivity.
Qed.

Lemma plan_term_zero p : plan_good p ->
  match p with PZero => True | PPairs v1 _ _ => var_nq v1 = 0%nat end -> plan_term 0 p = Err ValueError.
Proof.
  destruct p as [|v1 v2 pairs]; intros Hg Hn; [reflexivity|].
  destruct Hg as [Hne Hin]. destruct pairs as [|st rest]; [congruence|].
  cbn [plan_term]. rewrite (mapM_head_err _ st rest ValueError); [reflexivity|].
  unfold pair_local. rewrite (value_term_zero v1 (fst st)); [reflexivity | apply (Hin st); left; reflexivity | exact Hn].
Qed.

Lemma weighted_viability_zero f v : var_nq v = 0%nat -> weighted_viability f 0 v = Err ValueError.
Proof. intros Hn. unfold weighted_viability, viability_term. rewrite Hn. reflexivity. Qed.

Theorem hamiltonian_zero_qubits : forall lg P L e, e_nq e = 0%nat -> enc_wf e L ->
  (forall v, In v (e_vars e) -> 0 < v_dur v) -> hamiltonian_of lg P L e = Err ValueError.
Proof.
  intros lg P L e H0 Hwf Hdur.
  assert (Hz : forall v, In v (e_vars e) -> var_nq v = 0%nat).
  { apply sum_nq_zero. destruct Hwf as [Hq _]. rewrite <- Hq. exact H0. }
  assert (Hplan : forall p, plan_good p /\ plan_vars_in e p -> plan_term 0 p = Err ValueError).
  { intros p [Hg Hv]. apply plan_term_zero; [exact Hg|]. destruct p as [|v1 v2 pairs]; [exact I|].
    apply Hz. apply Hv. }
  unfold hamiltonian_of. cbv zeta. rewrite H0.
  rewrite (prec_plans_ok e L Hwf). cbn [bind].
  pose proof (prec_plans_p_spec e L Hwf) as Sp.
  destruct (prec_plans_p e) as [|p ps].
  - cbn [mapM bind]. rewrite (overlap_plans_ok e L Hwf). cbn [bind].
    pose proof (overlap_plans_p_spec e L Hwf Hdur) as So.
    destruct (overlap_plans_p e) as [|p ps].
    + cbn [mapM bind]. pose proof (wf_vars_ne e L Hwf) as Hne.
      destruct (e_vars e) as [|v r]; [congruence|].
      rewrite (mapM_head_err _ v r ValueError); [reflexivity|].
      apply weighted_viability_zero. apply Hz. left. reflexivity.
    + rewrite (mapM_head_err _ p ps ValueError); [reflexivity|]. apply Hplan. apply So. left. reflexivity.
  - rewrite (mapM_head_err _ p ps ValueError); [reflexivity|]. apply Hplan. apply Sp. left. reflexivity.
Qed.

(* ------------------------------------------------------------------ 8. the legacy variant *)
Theorem hamiltonian_legacy_empty_sum : forall P L e, (1 <= e_nq e)%nat -> enc_wf e L ->
  (forall v, In v (e_vars e) -> 0 < v_dur v) -> (prec_var_pairs e = [] \/ overlap_var_pairs e = []) ->
  hamiltonian_of true P L e = Err QiskitError.
Proof.
  intros P L e Hnq Hwf Hdur Hempty. rewrite (hamiltonian_of_steps true P L e Hnq Hwf Hdur).
  unfold pad_empty. cbn [bind]. destruct Hempty as [E|E].
  - unfold prec_plans_p. rewrite E. reflexivity.
  - unfold overlap_plans_p at 1. rewrite E. cbn [map].
    destruct (map plan_term_p (prec_plans_p e)); reflexivity.
Qed.

Print Assumptions hamiltonian_of_pure.
Print Assumptions hamiltonian_p_below.
Print Assumptions hamiltonian_p_eval.
Print Assumptions hamiltonian_zero_qubits.
Print Assumptions hamiltonian_legacy_empty_sum.
