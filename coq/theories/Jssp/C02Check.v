(* Correspondence entry point of C02: the case type and checker are shared by C15 / C01 / C02 (Jssp/EncoderCheck.v). *)
From QV Require Export Jssp.EncoderCheck.
