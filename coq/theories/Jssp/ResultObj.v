(* The JobShopSchedulingResult object with its two caches (_is_valid, _makespan) as a state machine:
   queries in any order, on one object.  Definitions only. *)
From QV Require Export Jssp.Valid.
Open Scope Z_scope.

Record rcache := mkCache { c_valid : option bool; c_mk : option Z }.
Definition cache0 : rcache := mkCache None None.

Inductive query := QValid | QMakespan | QAccessor.
(* what a query returns: is_valid -> bool; makespan -> option Z; valid_schedule -> returns the schedule / raises *)
Inductive answer := AValid (b : bool) | AMakespan (m : option Z) | AAccessor (raises : bool).

(* property is_valid *)
Definition q_is_valid (i : instance) (s : schedule) (c : rcache) : result (bool * rcache) :=
  match c_valid c with
  | Some b => Ok (b, c)
  | None => do b <- is_valid_impl i s; Ok (b, mkCache (Some b) (c_mk c))
  end.

(* property valid_schedule: `if self.is_valid: return schedule; raise` *)
Definition q_accessor (i : instance) (s : schedule) (c : rcache) : result (bool * rcache) :=
  do bc <- q_is_valid i s c; Ok (negb (fst bc), snd bc).

(* property makespan *)
Definition q_makespan (i : instance) (s : schedule) (c : rcache) : result (option Z * rcache) :=
  do bc <- q_is_valid i s c;
  let c1 := snd bc in
  if negb (fst bc) then Ok (None, c1)
  else match c_mk c1 with
       | Some m => Ok (Some m, c1)
       | None =>
           (* max(...) over self.valid_schedule.values(): the accessor is read again (cached verdict) *)
           do rc <- q_accessor i s c1;
           if fst rc then Err JSSPException
           else do ends <- mapM (fun kv => match last_opt (strip (snd kv)) with
                                           | Some p => Ok (end_of p)
                                           | None => Err "IndexError"%string end) s;
                match max_list ends with
                | Some m => Ok (Some m, mkCache (c_valid (snd rc)) (Some m))
                | None => Err "ValueError"%string
                end
       end.

Definition step (i : instance) (s : schedule) (c : rcache) (q : query) : result (answer * rcache) :=
  match q with
  | QValid => do r <- q_is_valid i s c; Ok (AValid (fst r), snd r)
  | QMakespan => do r <- q_makespan i s c; Ok (AMakespan (fst r), snd r)
  | QAccessor => do r <- q_accessor i s c; Ok (AAccessor (fst r), snd r)
  end.

Fixpoint run_queries (i : instance) (s : schedule) (c : rcache) (qs : list query) : result (list answer) :=
  match qs with
  | [] => Ok []
  | q :: qs' => do r <- step i s c q; do rest <- run_queries i s (snd r) qs'; Ok (fst r :: rest)
  end.

(* the cache-free answers *)
Definition pure_answer (i : instance) (s : schedule) (q : query) : result answer :=
  match q with
  | QValid => do b <- is_valid_impl i s; Ok (AValid b)
  | QMakespan => do m <- makespan_impl i s; Ok (AMakespan m)
  | QAccessor => Ok (AAccessor (negb (is_ok (valid_schedule_impl i s))))
  end.

Definition answer_eqb (a b : answer) : bool :=
  match a, b with
  | AValid x, AValid y => Bool.eqb x y
  | AMakespan x, AMakespan y => option_eqb Z.eqb x y
  | AAccessor x, AAccessor y => Bool.eqb x y
  | _, _ => false
  end.

(* the `schedule` property and `schedule[j]`: the constructor stores the caller's mapping itself
   (`self._schedule = schedule`), the property returns it, indexing is the dictionary lookup *)
Definition stored_schedule (i : instance) (s : schedule) : schedule := s.
Definition schedule_of_job (i : instance) (s : schedule) (j : job) : option (list psop) :=
  sched_lookup (stored_schedule i s) j.

Definition psop_eqb (a b : psop) : bool := op_eqb (fst a) (fst b) && option_eqb Z.eqb (snd a) (snd b).
Definition schedule_eqb (a b : schedule) : bool :=
  list_eqb (fun x y => job_eqb (fst x) (fst y) && list_eqb psop_eqb (snd x) (snd y)) a b.
