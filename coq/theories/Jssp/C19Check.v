(* Correspondence entry point for C19: each case carries what the implementation answered;
   check_case says whether the model answers the same. *)
From QV Require Import Jssp.Valid Jssp.ResultObj.

Inductive c19case :=
| CVerdict (i : instance) (s : schedule) (valid : bool) (mk : option Z) (accessor_raises : bool)
| CQueries (i : instance) (s : schedule) (qs : list query) (answers : list answer)   (* property reads on ONE fresh object, in this order *)
| CMachine (n : string) (accepted : bool)
| COperation (o : operation) (accepted : bool)
| CJob (j : job) (accepted : bool)
| CInstance (i : instance) (accepted : bool)
| CResult (i : instance) (s : schedule) (accepted : bool)
| CStored (i : instance) (s : schedule) (per_key : schedule).   (* what result.schedule[k] holds for every key k the caller passed, in the caller's order *)

Definition check_case (c : c19case) : bool :=
  match c with
  | CVerdict i s v mk raises =>
      result_eqb Bool.eqb (is_valid_impl i s) (Ok v)
      && result_eqb (option_eqb Z.eqb) (makespan_impl i s) (Ok mk)
      && Bool.eqb (negb (is_ok (valid_schedule_impl i s))) raises
  | CQueries i s qs ans => result_eqb (list_eqb answer_eqb) (run_queries i s cache0 qs) (Ok ans)
  | CMachine n a => Bool.eqb (machine_ok n) a
  | COperation o a => Bool.eqb (operation_ok o) a
  | CJob j a => Bool.eqb (job_ok j) a
  | CInstance i a => Bool.eqb (instance_ok i) a
  | CResult i s a => Bool.eqb (result_ok i s) a
  | CStored i s per_key =>
      list_eqb (option_eqb (list_eqb psop_eqb)) (map (fun kv => schedule_of_job i s (fst kv)) s) (map (fun kv => Some (snd kv)) per_key)
      && list_eqb job_eqb (map fst s) (map fst per_key)
  end.
