(* The closed form [enc_of I L] of the encoding has the abstract properties ([enc_wf] and structural facts) the
   operator/energy proofs assume. *)
From QV Require Import Jssp.EncoderPure Jssp.Encoder_proofs.
From Coq Require Import Lia.
From QV Require Import Jssp.Valid_proofs.   (* Forall2_In_r *)
Open Scope Z_scope.
Open Scope list_scope.

Lemma prepare_encoding_enc_of : forall I L, limit_ok I L -> prepare_encoding I L = Ok (enc_of I L).
Proof. intros I L H. rewrite (prepare_encoding_explicit I L H). reflexivity. Qed.

Lemma n_qubits_enc_of : forall I L, limit_ok I L -> n_qubits I L = Ok (e_nq (enc_of I L)).
Proof. intros I L H. unfold n_qubits. rewrite (prepare_encoding_enc_of I L H). reflexivity. Qed.

(* ---- what well-formedness of the instance gives *)
Lemma wf_job_facts : forall I j, wf_instance I = true -> In j (inst_jobs I) ->
  job_ok j = true /\ forall o, In o (job_ops j) -> operation_ok o = true.
Proof.
  intros I j H Hj. unfold wf_instance in H. rewrite !andb_true_iff in H. destruct H as [_ H].
  rewrite forallb_forall in H. specialize (H j Hj). rewrite andb_true_iff in H. destruct H as [H1 H2].
  split; [exact H1|]. intros o Ho. rewrite forallb_forall in H2. specialize (H2 o Ho).
  rewrite andb_true_iff in H2. tauto.
Qed.

Lemma wf_jobs_nonempty_ops : forall I j, wf_instance I = true -> In j (inst_jobs I) -> job_ops j <> [].
Proof.
  intros I j H Hj. destruct (wf_job_facts I j H Hj) as [Hok _].
  unfold job_ok in Hok. rewrite !andb_true_iff in Hok. destruct Hok as [[[[_ Hlen] _] _] _].
  intros E. rewrite E in Hlen. discriminate.
Qed.

Lemma wf_durations : forall I j o, wf_instance I = true -> In j (inst_jobs I) -> In o (job_ops j) -> 0 < op_dur o.
Proof.
  intros I j o H Hj Ho. destruct (wf_job_facts I j H Hj) as [_ Hops]. specialize (Hops o Ho).
  unfold operation_ok in Hops. rewrite !andb_true_iff in Hops. destruct Hops as [_ Hd].
  apply Z.ltb_lt in Hd. exact Hd.
Qed.

Lemma wf_job_total_pos : forall I j, wf_instance I = true -> In j (inst_jobs I) -> 1 <= job_total j.
Proof.
  intros I j H Hj. pose proof (wf_jobs_nonempty_ops I j H Hj) as Hne.
  pose proof (fun o => wf_durations I j o H Hj) as Hd. unfold job_total.
  destruct (job_ops j) as [|o r]; [congruence|]. cbn [map].
  assert (E : sumZ (op_dur o :: map op_dur r) = op_dur o + sumZ (map op_dur r)) by reflexivity.
  rewrite E.
  assert (0 <= sumZ (map op_dur r)).
  { apply sumZ_map_nonneg. intros x Hx. specialize (Hd x (or_intror Hx)). lia. }
  specialize (Hd o (or_introl eq_refl)). lia.
Qed.

Lemma limit_nonneg : forall I L, wf_instance I = true -> inst_jobs I <> [] -> limit_ok I L -> 1 <= L.
Proof.
  intros I L H Hne Hlim. destruct (inst_jobs I) as [|j r] eqn:E; [congruence|].
  assert (Hj : In j (inst_jobs I)) by (rewrite E; left; reflexivity).
  pose proof (wf_job_total_pos I j H Hj). specialize (Hlim j Hj). lia.
Qed.

(* ---- structure of enc_of *)
Lemma enc_of_jobs_length : forall I L, length (e_jobs (enc_of I L)) = length (inst_jobs I).
Proof. intros I L. unfold enc_of. cbn [e_jobs]. apply vars_of_jobs_length. Qed.

Lemma enc_of_windows : forall I L,
  Forall2 (fun j vs => length vs = length (job_ops j) /\
                       forall k v, nth_error vs k = Some v ->
                                   nth_error (job_ops j) k = Some (v_op v)
                                   /\ v_values v = zrange (head_of j k) (L - job_total j + 1))
          (inst_jobs I) (e_jobs (enc_of I L)).
Proof. intros I L. unfold enc_of. cbn [e_jobs]. apply vars_of_jobs_windows. Qed.

(* every variable of the encoding: its job, its position in the job *)
Lemma enc_of_var_origin : forall I L v, In v (e_vars (enc_of I L)) ->
  exists j k, In j (inst_jobs I) /\ nth_error (job_ops j) k = Some (v_op v)
              /\ v_values v = zrange (head_of j k) (L - job_total j + 1).
Proof.
  intros I L v Hin. unfold e_vars in Hin. apply in_concat in Hin as [vs [Hvs Hv]].
  destruct (Forall2_In_r _ _ _ _ (enc_of_windows I L) Hvs) as [j [Hj [_ Hw]]].
  apply In_nth_error in Hv as [k Hk]. destruct (Hw k v Hk) as [H1 H2].
  exists j, k. split; [exact Hj|]. split; assumption.
Qed.

Lemma enc_of_durations : forall I L v, wf_instance I = true -> In v (e_vars (enc_of I L)) -> 0 < v_dur v.
Proof.
  intros I L v H Hin. destruct (enc_of_var_origin I L v Hin) as [j [k [Hj [Hk _]]]].
  apply nth_error_In in Hk. unfold v_dur. exact (wf_durations I j _ H Hj Hk).
Qed.

Lemma enc_of_ids_seq : forall I L, map v_id (e_vars (enc_of I L)) = seq 0 (length (e_vars (enc_of I L))).
Proof. intros I L. unfold e_vars, enc_of. cbn [e_jobs]. apply vars_of_jobs_ids. Qed.

Lemma enc_of_ids : forall I L, NoDup (map v_id (e_vars (enc_of I L))).
Proof. intros I L. rewrite enc_of_ids_seq. apply seq_NoDup. Qed.

Lemma head_of_nonneg : forall I j k, wf_instance I = true -> In j (inst_jobs I) -> 0 <= head_of j k.
Proof.
  intros I j k H Hj. unfold head_of. apply sumZ_map_nonneg. intros o Ho.
  assert (Ho' : In o (job_ops j)) by (rewrite <- (firstn_skipn k (job_ops j)); apply in_or_app; left; exact Ho).
  clear Ho. rename Ho' into Ho. pose proof (wf_durations I j o H Hj Ho). lia.
Qed.

Lemma enc_of_values_nonneg : forall I L v t, wf_instance I = true ->
  In v (e_vars (enc_of I L)) -> In t (v_values v) -> 0 <= t.
Proof.
  intros I L v t H Hin Ht. destruct (enc_of_var_origin I L v Hin) as [j [k [Hj [_ E]]]].
  rewrite E in Ht. apply zrange_In in Ht. pose proof (head_of_nonneg I j k H Hj). lia.
Qed.

(* ---- the abstract well-formedness predicate *)
Theorem enc_of_wf : forall I L, wf_instance I = true -> inst_jobs I <> [] -> limit_ok I L -> enc_wf (enc_of I L) L.
Proof.
  intros I L H Hne Hlim. unfold enc_wf. split; [reflexivity|].
  split; [pose proof (limit_nonneg I L H Hne Hlim); lia|].
  split.
  - intros E. apply (f_equal (@length _)) in E. rewrite enc_of_jobs_length in E.
    destruct (inst_jobs I); [congruence | discriminate].
  - split.
    + intros vs Hvs.
      destruct (Forall2_In_r _ _ _ _ (enc_of_windows I L) Hvs) as [j [Hj [Hlen _]]].
      pose proof (wf_jobs_nonempty_ops I j H Hj) as Hops. intros ->.
      destruct (job_ops j); [congruence | discriminate].
    + intros v Hv. split.
      * unfold e_vars, enc_of in *. cbn [e_jobs e_nq] in *. apply vars_of_jobs_wf; assumption.
      * unfold e_vars, enc_of in Hv. cbn [e_jobs] in Hv.
        destruct (vars_of_jobs_values _ _ _ _ _ Hv) as [j [a [_ E]]]. exists a. eexists. exact E.
Qed.

(* ---- the legacy defect in general form: no job with two operations, no consecutive pair *)
Lemma consecutive_single : forall {A} (l : list A), length l = 1%nat -> consecutive l = [].
Proof. intros A [|x [|y r]] Hl; simpl in *; try reflexivity; discriminate. Qed.

Lemma enc_of_no_prec_pairs : forall I L,
  (forall j, In j (inst_jobs I) -> length (job_ops j) = 1%nat) -> prec_var_pairs (enc_of I L) = [].
Proof.
  intros I L Hone. unfold prec_var_pairs.
  assert (HA : forall vs, In vs (e_jobs (enc_of I L)) -> consecutive vs = []).
  { intros vs Hvs. destruct (Forall2_In_r _ _ _ _ (enc_of_windows I L) Hvs) as [j [Hj [Hlen _]]].
    apply consecutive_single. rewrite Hlen. apply Hone, Hj. }
  induction (e_jobs (enc_of I L)) as [|vs r IH]; [reflexivity|].
  cbn [map concat]. rewrite (HA vs (or_introl eq_refl)). apply IH.
  intros ws Hws. apply HA. right. exact Hws.
Qed.

Print Assumptions enc_of_wf.
