(* Proofs about the encoder model: C15 (totality, bounds, injectivity, completeness). *)
From QV Require Import Jssp.Energy Jssp.Valid_proofs.
From Coq Require Import Lia FinFun.
Open Scope Z_scope.
Open Scope list_scope.

(* ------------------------------------------------------------------ the legacy variant is refuted by a concrete instance *)
Definition inst_one_op : instance :=
  mkInst "inst" ["m0"%string] [mkJob "j0" [mkOp "o0" "j0" "m0" 1]].
Definition default_pen : penalties := mkPen (300 # 1) (100 # 1) (100 # 1) (100 # 1) 0.

Lemma empty_sum_refuted :
  wf_instance inst_one_op = true
  /\ n_qubits inst_one_op 4 = Ok 3%nat
  /\ hamiltonian true default_pen inst_one_op 4 = Err QiskitError
  /\ is_ok (hamiltonian false default_pen inst_one_op 4) = true.
Proof. vm_compute. repeat split; reflexivity. Qed.

(* ------------------------------------------------------------------ elementary facts: ranges, duplicate check *)
Lemma zrange_length a n : length (zrange a n) = Z.to_nat n.
Proof. unfold zrange. rewrite map_length, seq_length. reflexivity. Qed.

Lemma zrange_In a n t : In t (zrange a n) <-> a <= t < a + n.
Proof.
  unfold zrange. rewrite in_map_iff. split.
  - intros [k [<- Hk]]. apply in_seq in Hk. lia.
  - intros H. exists (Z.to_nat (t - a)). split; [lia|]. apply in_seq. lia.
Qed.

Lemma zrange_NoDup a n : NoDup (zrange a n).
Proof.
  unfold zrange. apply Injective_map_NoDup; [|apply seq_NoDup]. intros x y H. lia.
Qed.

Lemma memZ_In x l : memZ x l = true <-> In x l.
Proof.
  induction l as [|y r IH]; simpl; [split; [discriminate | tauto]|].
  rewrite orb_true_iff, Z.eqb_eq, IH. split; intros [H|H]; auto.
Qed.

Lemma nodupZ_NoDup l : nodupZ l = true <-> NoDup l.
Proof.
  induction l as [|x r IH]; simpl.
  - split; [constructor | reflexivity].
  - rewrite andb_true_iff, negb_true_iff, IH. split.
    + intros [Hn Hd]. constructor; [|exact Hd]. intros Hin. apply memZ_In in Hin. congruence.
    + intros Hd. inversion Hd; subst. split; [|assumption].
      destruct (memZ x r) eqn:E; [|reflexivity]. apply memZ_In in E. contradiction.
Qed.

Lemma mk_dwvar_zrange id o q a N :
  1 <= N -> mk_dwvar id o q (zrange a N) = Ok (mkVar id o q (zrange a N)).
Proof.
  intros H. unfold mk_dwvar. rewrite zrange_length.
  destruct (Nat.ltb_spec (Z.to_nat N) 1); [lia|].
  rewrite (proj2 (nodupZ_NoDup _) (zrange_NoDup a N)). reflexivity.
Qed.

(* ------------------------------------------------------------------ task 1: the encoding in closed form *)
Lemma sum_nq_app a b : sum_nq (a ++ b) = (sum_nq a + sum_nq b)%nat.
Proof. induction a as [|v a IH]; simpl; [reflexivity|]. rewrite IH. lia. Qed.

Lemma vars_of_ops_length N so q id ops : length (vars_of_ops N so q id ops) = length ops.
Proof. revert so q id. induction ops as [|o r IH]; intros; simpl; [reflexivity|]. rewrite IH. reflexivity. Qed.

Lemma vars_of_ops_sum_nq N so q id ops :
  sum_nq (vars_of_ops N so q id ops) = (length ops * (Z.to_nat N - 1))%nat.
Proof.
  revert so q id. induction ops as [|o r IH]; intros; simpl; [reflexivity|].
  rewrite IH. unfold var_nq. simpl. rewrite zrange_length. reflexivity.
Qed.

Lemma prep_ops_explicit ops : forall L so eo q id,
  1 <= L - (so + eo) + 1 ->
  prep_ops L so eo q id ops = Ok (vars_of_ops (L - (so + eo) + 1) so q id ops).
Proof.
  induction ops as [|o r IH]; intros L so eo q id H; [reflexivity|].
  cbn [prep_ops vars_of_ops]. rewrite mk_dwvar_zrange by exact H. cbn [bind].
  rewrite IH by lia.
  replace (so + op_dur o + (eo - op_dur o)) with (so + eo) by lia.
  unfold var_nq; cbn [v_values bind]. rewrite zrange_length. reflexivity.
Qed.

Lemma prep_jobs_explicit jobs : forall L q id,
  (forall j, In j jobs -> job_total j <= L) ->
  prep_jobs L q id jobs = Ok (vars_of_jobs L q id jobs).
Proof.
  induction jobs as [|j r IH]; intros L q id H; [reflexivity|].
  cbn [prep_jobs vars_of_jobs].
  assert (Hj : job_total j <= L) by (apply H; left; reflexivity).
  destruct (Z.gtb_spec (job_total j) L) as [Hgt|_]; [lia|].
  pose proof (prep_ops_explicit (job_ops j) L 0 (job_total j) q id) as E.
  rewrite Z.add_0_l in E. rewrite E by lia. cbn [bind].
  rewrite vars_of_ops_sum_nq, vars_of_ops_length.
  rewrite IH by (intros j' Hj'; apply H; right; exact Hj'). reflexivity.
Qed.

Lemma prepare_encoding_explicit : forall I L, limit_ok I L ->
  prepare_encoding I L =
  Ok (mkEnc (sum_nq (concat (vars_of_jobs L 0 0 (inst_jobs I)))) (vars_of_jobs L 0 0 (inst_jobs I))).
Proof.
  intros I L H. unfold prepare_encoding. rewrite prep_jobs_explicit by exact H. reflexivity.
Qed.

(* ------------------------------------------------------------------ layout of the variables: ids and qubit ranges *)
(* [layout q id vs]: the variables sit one after the other from qubit q on, numbered from id on *)
Fixpoint layout (q id : nat) (vs : list dwvar) : Prop :=
  match vs with
  | [] => True
  | v :: r => v_start v = q /\ v_id v = id /\ layout (q + var_nq v) (S id) r
  end.

Lemma layout_app vs : forall q id ws,
  layout q id (vs ++ ws) <-> layout q id vs /\ layout (q + sum_nq vs) (id + length vs) ws.
Proof.
  induction vs as [|v r IH]; intros q id ws; simpl.
  - rewrite !Nat.add_0_r. tauto.
  - rewrite IH. rewrite Nat.add_assoc, Nat.add_succ_r. simpl. tauto.
Qed.

Lemma vars_of_ops_layout N ops : forall so q id, layout q id (vars_of_ops N so q id ops).
Proof.
  induction ops as [|o r IH]; intros so q id; simpl; [exact I|].
  repeat split. unfold var_nq; simpl. rewrite zrange_length. apply IH.
Qed.

Lemma vars_of_jobs_layout L jobs : forall q id, layout q id (concat (vars_of_jobs L q id jobs)).
Proof.
  induction jobs as [|j r IH]; intros q id; simpl; [exact I|].
  apply layout_app. split; [apply vars_of_ops_layout|].
  rewrite vars_of_ops_sum_nq, vars_of_ops_length. apply IH.
Qed.

(* the qubit range of every variable lies inside [q, q + total) *)
Lemma layout_bound vs : forall q id v, layout q id vs -> In v vs ->
  (q <= v_start v /\ v_start v + var_nq v <= q + sum_nq vs)%nat.
Proof.
  induction vs as [|w r IH]; intros q id v Hl Hin; [contradiction|].
  simpl in Hl. destruct Hl as [Hs [_ Hl]]. simpl. destruct Hin as [->|Hin].
  - lia.
  - specialize (IH _ _ _ Hl Hin). lia.
Qed.

(* position k: id and first qubit *)
Lemma layout_nth vs : forall q id k v, layout q id vs -> nth_error vs k = Some v ->
  v_id v = (id + k)%nat /\ v_start v = (q + sum_nq (firstn k vs))%nat.
Proof.
  induction vs as [|w r IH]; intros q id k v Hl Hk; [destruct k; discriminate|].
  simpl in Hl. destruct Hl as [Hs [Hi Hl]]. destruct k as [|k]; simpl in Hk.
  - inversion Hk; subst. simpl. lia.
  - specialize (IH _ _ _ _ Hl Hk). simpl. lia.
Qed.

Lemma layout_ids vs : forall q id, layout q id vs -> map v_id vs = seq id (length vs).
Proof.
  induction vs as [|w r IH]; intros q id Hl; [reflexivity|].
  simpl in Hl. destruct Hl as [_ [Hi Hl]]. simpl. rewrite Hi. f_equal. apply (IH _ _ Hl).
Qed.

Lemma sum_nq_firstn_le vs : forall i j, (i <= j)%nat -> (sum_nq (firstn i vs) <= sum_nq (firstn j vs))%nat.
Proof.
  induction vs as [|w r IH]; intros i j H; [rewrite !firstn_nil; lia|].
  destruct i as [|i]; [simpl; lia|]. destruct j as [|j]; [lia|]. simpl.
  specialize (IH i j). lia.
Qed.

(* the ranges of different variables are disjoint, in the order of the list *)
Lemma layout_disjoint vs q id i j v w :
  layout q id vs -> nth_error vs i = Some v -> nth_error vs j = Some w -> (i < j)%nat ->
  (v_start v + var_nq v <= v_start w)%nat.
Proof.
  intros Hl Hv Hw Hij.
  destruct (layout_nth _ _ _ _ _ Hl Hv) as [_ Ev]. destruct (layout_nth _ _ _ _ _ Hl Hw) as [_ Ew].
  pose proof (sum_nq_firstn_le vs (S i) j Hij) as Hle.
  assert (E : sum_nq (firstn (S i) vs) = (sum_nq (firstn i vs) + var_nq v)%nat).
  { clear - Hv. revert i Hv. induction vs as [|u r IH]; intros i Hv; [destruct i; discriminate|].
    destruct i as [|i]; simpl in Hv.
    - inversion Hv; subst. simpl. lia.
    - specialize (IH i Hv). simpl in *. lia. }
  lia.
Qed.

(* ------------------------------------------------------------------ shape of the variables: operations and windows *)
Lemma vars_of_ops_map_op N ops : forall so q id, map v_op (vars_of_ops N so q id ops) = ops.
Proof. induction ops as [|o r IH]; intros; simpl; [reflexivity|]. rewrite IH. reflexivity. Qed.

Lemma vars_of_jobs_map_op L jobs : forall q id,
  map v_op (concat (vars_of_jobs L q id jobs)) = concat (map job_ops jobs).
Proof.
  induction jobs as [|j r IH]; intros; simpl; [reflexivity|].
  rewrite map_app, vars_of_ops_map_op, IH. reflexivity.
Qed.

Lemma vars_of_jobs_length L jobs : forall q id, length (vars_of_jobs L q id jobs) = length jobs.
Proof. induction jobs as [|j r IH]; intros; simpl; [reflexivity|]. rewrite IH. reflexivity. Qed.

(* k-th variable of a job: its operation and its window *)
Lemma vars_of_ops_nth N ops : forall so q id k v,
  nth_error (vars_of_ops N so q id ops) k = Some v ->
  nth_error ops k = Some (v_op v) /\ v_values v = zrange (so + sumZ (map op_dur (firstn k ops))) N.
Proof.
  induction ops as [|o r IH]; intros so q id k v H; [destruct k; discriminate|].
  destruct k as [|k]; simpl in H.
  - inversion H; subst. simpl. rewrite Z.add_0_r. split; reflexivity.
  - destruct (IH _ _ _ _ _ H) as [H1 H2]. split; [exact H1|]. rewrite H2. simpl. f_equal. lia.
Qed.

Lemma vars_of_ops_values N ops : forall so q id v,
  In v (vars_of_ops N so q id ops) -> exists a, v_values v = zrange a N.
Proof.
  intros so q id v H. apply In_nth_error in H as [k Hk].
  apply vars_of_ops_nth in Hk as [_ E]. eexists; exact E.
Qed.

(* every job's variables are those of its operations, with N = L - job_total j + 1 start times *)
Lemma vars_of_jobs_shape L jobs : forall q id,
  Forall2 (fun j vs => exists q' id', vs = vars_of_ops (L - job_total j + 1) 0 q' id' (job_ops j))
          jobs (vars_of_jobs L q id jobs).
Proof.
  induction jobs as [|j r IH]; intros q id; simpl; constructor.
  - eexists; eexists; reflexivity.
  - apply IH.
Qed.

Lemma vars_of_jobs_values L jobs q id v :
  In v (concat (vars_of_jobs L q id jobs)) ->
  exists j a, In j jobs /\ v_values v = zrange a (L - job_total j + 1).
Proof.
  intros H. apply in_concat in H as [vs [Hvs Hv]].
  destruct (Forall2_In_r _ _ _ _ (vars_of_jobs_shape L jobs q id) Hvs) as [j [Hj [q' [id' E]]]].
  subst vs. apply vars_of_ops_values in Hv as [a Ha]. exists j, a. split; assumption.
Qed.

Lemma vars_of_jobs_nq I L v : limit_ok I L ->
  In v (concat (vars_of_jobs L 0 0 (inst_jobs I))) ->
  exists j, In j (inst_jobs I) /\ var_nq v = Z.to_nat (L - job_total j)
            /\ length (v_values v) = S (var_nq v).
Proof.
  intros Hlim H. apply vars_of_jobs_values in H as [j [a [Hj E]]]. exists j. split; [exact Hj|].
  specialize (Hlim j Hj). unfold var_nq. rewrite E, zrange_length. lia.
Qed.

Lemma vars_of_jobs_wf : forall I L v, limit_ok I L ->
  In v (concat (vars_of_jobs L 0 0 (inst_jobs I))) ->
  var_wf v (sum_nq (concat (vars_of_jobs L 0 0 (inst_jobs I)))).
Proof.
  intros I L v Hlim Hin. unfold var_wf.
  destruct (vars_of_jobs_values _ _ _ _ _ Hin) as [j [a [Hj E]]]. specialize (Hlim j Hj).
  rewrite E, zrange_length. split; [lia|]. split; [apply zrange_NoDup|].
  pose proof (layout_bound _ _ _ _ (vars_of_jobs_layout L (inst_jobs I) 0 0) Hin). lia.
Qed.

(* ------------------------------------------------------------------ task 2: a job longer than the limit *)
Lemma limit_dec I L : limit_ok I L \/ exists j, In j (inst_jobs I) /\ L < job_total j.
Proof.
  unfold limit_ok. induction (inst_jobs I) as [|j r IH].
  - left. intros j [].
  - destruct (Z_lt_le_dec L (job_total j)) as [Hlt|Hle].
    + right. exists j. split; [left; reflexivity | exact Hlt].
    + destruct IH as [IH|[j' [Hj' Hlt]]].
      * left. intros j' [<-|Hj']; [exact Hle | apply IH, Hj'].
      * right. exists j'. split; [right; exact Hj' | exact Hlt].
Qed.

Lemma prep_jobs_reject jobs : forall L q id,
  (exists j, In j jobs /\ L < job_total j) -> prep_jobs L q id jobs = Err ValueError.
Proof.
  induction jobs as [|a r IH]; intros L q id [j [Hin Hlt]]; [contradiction|].
  cbn [prep_jobs]. destruct (Z.gtb_spec (job_total a) L) as [_|Hle]; [reflexivity|].
  pose proof (prep_ops_explicit (job_ops a) L 0 (job_total a) q id) as E.
  rewrite Z.add_0_l in E. rewrite E by lia. cbn [bind].
  destruct Hin as [->|Hin]; [lia|].
  rewrite IH by (exists j; split; assumption). reflexivity.
Qed.

Lemma prepare_encoding_reject I L :
  (exists j, In j (inst_jobs I) /\ L < job_total j) -> prepare_encoding I L = Err ValueError.
Proof. intros H. unfold prepare_encoding. rewrite prep_jobs_reject by exact H. reflexivity. Qed.

Lemma prepare_encoding_Ok_limit I L e : prepare_encoding I L = Ok e -> limit_ok I L.
Proof.
  intros H. destruct (limit_dec I L) as [Hl|Hr]; [exact Hl|].
  rewrite (prepare_encoding_reject I L Hr) in H. discriminate.
Qed.

Lemma encoder_reject : forall I L, (exists j, In j (inst_jobs I) /\ L < job_total j) ->
  n_qubits I L = Err ValueError
  /\ (forall lg P, hamiltonian lg P I L = Err ValueError)
  /\ (forall bits, translate I L bits = Err ValueError).
Proof.
  intros I L H. unfold n_qubits, hamiltonian, translate.
  rewrite (prepare_encoding_reject I L H). repeat split.
Qed.

(* ------------------------------------------------------------------ task 3: the number of qubits *)
Lemma sum_nq_vars_of_jobs L jobs : forall q id,
  (forall j, In j jobs -> job_total j <= L) ->
  Z.of_nat (sum_nq (concat (vars_of_jobs L q id jobs)))
  = sumZ (map (fun j => Z.of_nat (length (job_ops j)) * (L - job_total j)) jobs).
Proof.
  induction jobs as [|j r IH]; intros q id H; [reflexivity|].
  cbn [vars_of_jobs concat map sumZ fold_right].
  rewrite sum_nq_app, vars_of_ops_sum_nq, Nat2Z.inj_add, Nat2Z.inj_mul.
  assert (Hj : job_total j <= L) by (apply H; left; reflexivity).
  replace (Z.of_nat (Z.to_nat (L - job_total j + 1) - 1)) with (L - job_total j) by lia.
  rewrite IH by (intros j' Hj'; apply H; right; exact Hj'). reflexivity.
Qed.

Lemma encoder_qubits : forall I L, limit_ok I L ->
  exists n, n_qubits I L = Ok n /\ Z.of_nat n = total_qubits I L.
Proof.
  intros I L H. unfold n_qubits. rewrite (prepare_encoding_explicit I L H). cbn [bind e_nq].
  eexists. split; [reflexivity|]. apply sum_nq_vars_of_jobs. exact H.
Qed.

Lemma n_qubits_explicit I L n : limit_ok I L -> n_qubits I L = Ok n ->
  n = sum_nq (concat (vars_of_jobs L 0 0 (inst_jobs I))).
Proof.
  intros H E. unfold n_qubits in E. rewrite (prepare_encoding_explicit I L H) in E. cbn in E. congruence.
Qed.

(* ------------------------------------------------------------------ list utilities *)
Lemma mapM_Ok_Forall2 {A B} (f : A -> result B) l : forall ys,
  mapM f l = Ok ys <-> Forall2 (fun x y => f x = Ok y) l ys.
Proof.
  induction l as [|x t IH]; intros ys; simpl.
  - split; intros H; [inversion H; constructor | inversion H; reflexivity].
  - split.
    + intros H. destruct (f x) as [y|] eqn:E; [|discriminate]. simpl in H.
      destruct (mapM f t) as [ys'|] eqn:E'; [|discriminate]. simpl in H. inversion H; subst.
      constructor; [exact E | apply IH; reflexivity].
    + intros H. inversion H as [|? y ? ys' Hxy Hr]; subst. rewrite Hxy. simpl.
      apply IH in Hr. rewrite Hr. reflexivity.
Qed.

Lemma Forall2_combine_In {A B} (R : A -> B -> Prop) l1 l2 a b :
  Forall2 R l1 l2 -> In (a, b) (combine l1 l2) -> R a b.
Proof.
  induction 1 as [|x y l1 l2 Hxy _ IH]; simpl; intros Hin; [contradiction|].
  destruct Hin as [E|Hin]; [inversion E; subst; exact Hxy | apply IH, Hin].
Qed.

Lemma Forall2_trans_combine {A B C} (R : A -> B -> Prop) (S : B -> C -> Prop) l1 l2 :
  Forall2 R l1 l2 -> forall l3 a c, Forall2 S l2 l3 -> In (a, c) (combine l1 l3) ->
  exists b, In b l2 /\ R a b /\ S b c.
Proof.
  induction 1 as [|x y l1 l2 Hxy _ IH]; intros l3 a c HS Hin; [contradiction|].
  inversion HS as [|? z ? l3' Hyz HS']; subst. simpl in Hin. destruct Hin as [E|Hin].
  - inversion E; subst. exists y. split; [left; reflexivity | split; assumption].
  - destruct (IH _ _ _ HS' Hin) as [b [Hb H]]. exists b. split; [right; exact Hb | exact H].
Qed.

Lemma Forall2_nth_error_r {A B} (R : A -> B -> Prop) l1 l2 :
  Forall2 R l1 l2 -> forall k y, nth_error l2 k = Some y -> exists x, nth_error l1 k = Some x /\ R x y.
Proof.
  induction 1 as [|x y l1 l2 Hxy _ IH]; intros k z Hk; [destruct k; discriminate|].
  destruct k as [|k]; simpl in Hk.
  - inversion Hk; subst. exists x. split; [reflexivity | exact Hxy].
  - apply IH, Hk.
Qed.

Lemma Forall2_and {A B} (R S : A -> B -> Prop) l1 l2 :
  Forall2 R l1 l2 -> Forall2 S l1 l2 -> Forall2 (fun x y => R x y /\ S x y) l1 l2.
Proof.
  induction 1 as [|x y l1 l2 Hxy _ IH]; intros HS; [constructor|].
  inversion HS; subst. constructor; [split; assumption | apply IH; assumption].
Qed.

Lemma Forall2_impl {A B} (R S : A -> B -> Prop) l1 l2 :
  (forall x y, In x l1 -> In y l2 -> R x y -> S x y) -> Forall2 R l1 l2 -> Forall2 S l1 l2.
Proof.
  intros H F. induction F as [|x y l1 l2 Hxy _ IH]; constructor.
  - apply H; [left; reflexivity | left; reflexivity | exact Hxy].
  - apply IH. intros x' y' Hx' Hy'. apply H; right; assumption.
Qed.

Lemma Forall2_len {A B} (R : A -> B -> Prop) l1 l2 : Forall2 R l1 l2 -> length l1 = length l2.
Proof. induction 1; simpl; [reflexivity | f_equal; assumption]. Qed.

Lemma map_fst_combine {A B} (l1 : list A) : forall (l2 : list B),
  length l1 = length l2 -> map fst (combine l1 l2) = l1.
Proof.
  induction l1 as [|x t IH]; intros [|y u] H; simpl in *; try discriminate; [reflexivity|].
  f_equal. apply IH. lia.
Qed.

Lemma map_snd_combine {A B} (l1 : list A) : forall (l2 : list B),
  length l1 = length l2 -> map snd (combine l1 l2) = l2.
Proof.
  induction l1 as [|x t IH]; intros [|y u] H; simpl in *; try discriminate; [reflexivity|].
  f_equal. apply IH. lia.
Qed.

Lemma combine_fst_snd {A B} (l : list (A * B)) : combine (map fst l) (map snd l) = l.
Proof. induction l as [|[a b] t IH]; simpl; [reflexivity|]. rewrite IH. reflexivity. Qed.

Lemma sumZ_app a b : sumZ (a ++ b) = sumZ a + sumZ b.
Proof. induction a as [|x a IH]; simpl; [reflexivity|]. rewrite IH. lia. Qed.

Lemma sumZ_map_nonneg {A} (f : A -> Z) l : (forall x, In x l -> 0 <= f x) -> 0 <= sumZ (map f l).
Proof.
  induction l as [|x t IH]; intros H; simpl; [lia|].
  specialize (H x (or_introl eq_refl)) as Hx. specialize (IH (fun y Hy => H y (or_intror Hy))). lia.
Qed.

Lemma head_from_total j k : head_of j k + from_of j k = job_total j.
Proof.
  unfold head_of, from_of, job_total. rewrite <- sumZ_app, <- map_app, firstn_skipn. reflexivity.
Qed.

Lemma skipn_nth_error {A} (l : list A) : forall k x, nth_error l k = Some x -> skipn k l = x :: skipn (S k) l.
Proof.
  induction l as [|y t IH]; intros k x H; [destruct k; discriminate|].
  destruct k as [|k]; simpl in H; [inversion H; reflexivity|]. apply (IH k x H).
Qed.

(* ------------------------------------------------------------------ decoding one variable *)
Lemma first_false_lt l : forall i, first_false l = Some i -> (i < length l)%nat.
Proof.
  induction l as [|x r IH]; intros i H; simpl in H; [discriminate|].
  destruct x; [|inversion H; simpl; lia].
  destruct (first_false r) as [i'|]; [|discriminate]. inversion H; subst. specialize (IH i' eq_refl). simpl. lia.
Qed.

Definition dw_index (v : dwvar) (bl : list bool) : nat :=
  match first_false (var_bits v bl) with Some i => i | None => var_nq v end.

Lemma var_bits_length_le v bl : (length (var_bits v bl) <= var_nq v)%nat.
Proof. unfold var_bits. apply firstn_le_length. Qed.

Lemma dw_index_le v bl : (dw_index v bl <= var_nq v)%nat.
Proof.
  unfold dw_index. destruct (first_false (var_bits v bl)) as [i|] eqn:E; [|lia].
  apply first_false_lt in E. pose proof (var_bits_length_le v bl). lia.
Qed.

(* value_from_bitlist never fails on a constructed variable *)
Lemma value_from_bits_total v bl :
  (1 <= length (v_values v))%nat -> exists x, value_from_bits v bl = Ok x.
Proof.
  intros H. unfold value_from_bits. fold (dw_index v bl).
  destruct (existsb _ _); [eexists; reflexivity|].
  destruct (nth_error (v_values v) (dw_index v bl)) eqn:E; [eexists; reflexivity|].
  apply nth_error_None in E. pose proof (dw_index_le v bl). unfold var_nq in *. lia.
Qed.

Lemma value_from_bits_In v bl t : value_from_bits v bl = Ok (Some t) -> In t (v_values v).
Proof.
  unfold value_from_bits. fold (dw_index v bl). destruct (existsb _ _); [discriminate|].
  destruct (nth_error (v_values v) (dw_index v bl)) eqn:E; [|discriminate].
  intros H. inversion H; subst. eapply nth_error_In, E.
Qed.

(* ------------------------------------------------------------------ decoding all rows *)
Definition dec_rel (bl : list bool) (v : dwvar) (p : psop) : Prop :=
  value_from_bits v bl = Ok (snd p) /\ fst p = v_op v.

Lemma dec1_spec bl v p :
  (do x <- value_from_bits v bl; Ok (v_op v, x)) = Ok p <-> dec_rel bl v p.
Proof.
  unfold dec_rel. destruct (value_from_bits v bl) as [x|]; simpl; split.
  - intros H. inversion H; subst. split; reflexivity.
  - intros [H1 H2]. destruct p; simpl in *. inversion H1; subst. reflexivity.
  - discriminate.
  - intros [H _]. discriminate.
Qed.

Lemma decode_rows_spec e bl rows :
  decode_rows e bl = Ok rows <-> Forall2 (Forall2 (dec_rel bl)) (e_jobs e) rows.
Proof.
  unfold decode_rows. rewrite mapM_Ok_Forall2. split; intros H.
  - eapply Forall2_impl; [|exact H]. intros vs row _ _ Hr. cbv beta in Hr. apply mapM_Ok_Forall2 in Hr.
    eapply Forall2_impl; [|exact Hr]. intros v p _ _ Hp. apply dec1_spec, Hp.
  - eapply Forall2_impl; [|exact H]. intros vs row _ _ Hr. apply mapM_Ok_Forall2.
    eapply Forall2_impl; [|exact Hr]. intros v p _ _ Hp. apply dec1_spec, Hp.
Qed.

Definition the_vars (I : instance) (L : Z) : list (list dwvar) := vars_of_jobs L 0 0 (inst_jobs I).
Definition the_nq (I : instance) (L : Z) : nat := sum_nq (concat (the_vars I L)).

Lemma translate_inv I L bits s : translate I L bits = Ok s ->
  limit_ok I L /\ length bits = the_nq I L /\
  exists rows, Forall2 (Forall2 (dec_rel (rev bits))) (the_vars I L) rows
               /\ s = combine (inst_jobs I) rows /\ result_ok I s = true.
Proof.
  intros H. unfold translate in H. destruct (prepare_encoding I L) as [e|] eqn:E; [|discriminate].
  pose proof (prepare_encoding_Ok_limit _ _ _ E) as Hl. split; [exact Hl|].
  rewrite (prepare_encoding_explicit I L Hl) in E. inversion E; subst e. clear E.
  cbn [bind e_nq] in H. fold (the_vars I L) in H. fold (the_nq I L) in H.
  destruct (Nat.eqb_spec (length bits) (the_nq I L)) as [El|]; [|discriminate]. split; [exact El|].
  cbn [negb] in H. destruct (decode_rows _ (rev bits)) as [rows|] eqn:Ed; [|discriminate]. cbn [bind] in H.
  apply decode_rows_spec in Ed. cbn [e_jobs] in Ed. exists rows. split; [exact Ed|].
  destruct (result_ok I (combine (inst_jobs I) rows)) eqn:Er; [|discriminate]. inversion H; subst.
  split; [reflexivity | exact Er].
Qed.

(* ------------------------------------------------------------------ task 5: decoded start times lie in the window *)
Lemma encoder_bounds : forall I L bits s j row k o t,
  wf_instance I = true -> translate I L bits = Ok s -> In (j, row) s ->
  nth_error row k = Some (o, Some t) -> head_of j k <= t /\ t + from_of j k <= L.
Proof.
  intros I L bits s j row k o t _ Ht Hin Hk.
  apply translate_inv in Ht as [Hl [_ [rows [Hd [-> _]]]]].
  destruct (Forall2_trans_combine _ _ _ _ (vars_of_jobs_shape L (inst_jobs I) 0%nat 0%nat) _ _ _ Hd Hin)
    as [vs [_ [[q' [id' Evs]] Hrow]]].
  destruct (Forall2_nth_error_r _ _ _ Hrow _ _ Hk) as [v [Hv [Hval _]]]. simpl in Hval.
  subst vs. apply vars_of_ops_nth in Hv as [_ Ev].
  apply value_from_bits_In in Hval. rewrite Ev in Hval. apply zrange_In in Hval.
  fold (head_of j k) in Hval. pose proof (head_from_total j k). lia.
Qed.

Lemma encoder_bounds_op : forall I L bits s j row k o t,
  wf_instance I = true -> translate I L bits = Ok s -> In (j, row) s ->
  nth_error row k = Some (o, Some t) ->
  nth_error (job_ops j) k = Some o /\ 0 <= t /\ t + op_dur o <= L.
Proof.
  intros I L bits s j row k o t Hwf Ht Hin Hk.
  destruct (encoder_bounds _ _ _ _ _ _ _ _ _ Hwf Ht Hin Hk) as [B1 B2].
  apply translate_inv in Ht as [Hl [_ [rows [Hd [-> _]]]]].
  assert (Hj : In j (inst_jobs I)) by (eapply in_combine_l, Hin).
  destruct (Forall2_trans_combine _ _ _ _ (vars_of_jobs_shape L (inst_jobs I) 0%nat 0%nat) _ _ _ Hd Hin)
    as [vs [_ [[q' [id' Evs]] Hrow]]].
  destruct (Forall2_nth_error_r _ _ _ Hrow _ _ Hk) as [v [Hv [_ Hop]]]. simpl in Hop.
  subst vs. apply vars_of_ops_nth in Hv as [Ho _]. rewrite <- Hop in Ho. split; [exact Ho|].
  assert (Hpos : forall o', In o' (job_ops j) -> 0 <= op_dur o').
  { intros o' Ho'. destruct (wf_operation I j o' Hwf Hj Ho'). lia. }
  assert (H0 : 0 <= head_of j k).
  { unfold head_of. apply sumZ_map_nonneg. intros o' Ho'. apply Hpos.
    rewrite <- (firstn_skipn k (job_ops j)). apply in_or_app. left. exact Ho'. }
  assert (H1 : op_dur o <= from_of j k).
  { unfold from_of. rewrite (skipn_nth_error _ _ _ Ho).
    assert (0 <= sumZ (map op_dur (skipn (S k) (job_ops j)))).
    { apply sumZ_map_nonneg. intros o' Ho'. apply Hpos.
      rewrite <- (firstn_skipn (S k) (job_ops j)). apply in_or_app. right. exact Ho'. }
    unfold sumZ in *. cbn [map fold_right]. lia. }
  lia.
Qed.

(* ------------------------------------------------------------------ task 4: every bitstring of the right length decodes *)
Lemma wf_jobs_NoDup I : wf_instance I = true -> NoDup (inst_jobs I).
Proof.
  intros H. unfold wf_instance in H. rewrite !andb_true_iff in H. destruct H as [[H _] _].
  apply instance_ok_spec in H as [_ [_ [H _]]]. eapply NoDup_map_inv, H.
Qed.

Lemma result_ok_combine I (rows : list (list psop)) :
  wf_instance I = true -> Forall2 (fun j (row : list psop) => map fst row = job_ops j) (inst_jobs I) rows ->
  result_ok I (combine (inst_jobs I) rows) = true.
Proof.
  intros Hwf HF. pose proof (Forall2_len _ _ _ HF) as Hlen.
  pose proof (map_fst_combine (inst_jobs I) rows Hlen) as Efst.
  apply result_ok_spec. repeat split.
  - intros j Hj. rewrite Efst. exact Hj.
  - intros [j row] Hkv. simpl. eapply in_combine_l, Hkv.
  - intros j Hj. rewrite <- Efst in Hj. apply in_map_iff in Hj as [[j' row] [E Hkv]]. simpl in E. subst j'.
    exists row. split.
    + apply (sched_lookup_own _ (j, row)); [|exact Hkv]. unfold keys_nodup. rewrite Efst.
      apply wf_jobs_NoDup, Hwf.
    + apply (Forall2_combine_In _ _ _ _ _ HF Hkv).
Qed.

(* the rows decoded from the variables of the instance have the instance's shape *)
Lemma decoded_shape I L bl (rows : list (list psop)) :
  Forall2 (Forall2 (dec_rel bl)) (the_vars I L) rows ->
  Forall2 (fun j (row : list psop) => map fst row = job_ops j) (inst_jobs I) rows.
Proof.
  unfold the_vars. generalize 0%nat at 1 as q. generalize 0%nat as id. revert rows.
  induction (inst_jobs I) as [|j r IH]; intros rows id q H; simpl in H; inversion H as [|? row ? rows' Hr Hrs]; subst.
  - constructor.
  - constructor; [|eapply IH, Hrs].
    rewrite <- (vars_of_ops_map_op (L - job_total j + 1) (job_ops j) 0 q id).
    clear - Hr. induction Hr as [|v p vs ps [_ Hp] _ IHr]; simpl; [reflexivity|]. rewrite Hp, IHr. reflexivity.
Qed.

Lemma decode_rows_total I L bl : limit_ok I L ->
  exists rows, Forall2 (Forall2 (dec_rel bl)) (the_vars I L) rows.
Proof.
  intros Hl.
  destruct (mapM_Forall2 (fun vs => mapM (fun v => do x <- value_from_bits v bl; Ok (v_op v, x)) vs) (the_vars I L))
    as [rows [E _]].
  - intros vs Hvs.
    destruct (mapM_Forall2 (fun v => do x <- value_from_bits v bl; Ok (v_op v, x)) vs) as [row [E _]].
    + intros v Hv. assert (Hin : In v (concat (the_vars I L))) by (apply in_concat; exists vs; split; assumption).
      destruct (vars_of_jobs_wf I L v Hl Hin) as [H1 _].
      destruct (value_from_bits_total v bl H1) as [x Ex]. rewrite Ex. eexists; reflexivity.
    + exists row. exact E.
  - exists rows. apply (decode_rows_spec (mkEnc (the_nq I L) (the_vars I L))). exact E.
Qed.

Lemma encoder_translate_total : forall I L bits n,
  wf_instance I = true -> limit_ok I L -> n_qubits I L = Ok n -> length bits = n ->
  exists s, translate I L bits = Ok s /\ map fst s = inst_jobs I
            /\ Forall2 (fun j row => map fst row = job_ops j) (inst_jobs I) (map snd s).
Proof.
  intros I L bits n Hwf Hl Hn Hlen.
  apply (n_qubits_explicit I L n Hl) in Hn. fold (the_vars I L) in Hn.
  destruct (decode_rows_total I L (rev bits) Hl) as [rows Hd].
  pose proof (decoded_shape I L _ _ Hd) as Hshape. pose proof (Forall2_len _ _ _ Hshape) as Hlen2.
  exists (combine (inst_jobs I) rows).
  rewrite (map_fst_combine _ _ Hlen2), (map_snd_combine _ _ Hlen2). split; [|split; [reflexivity | exact Hshape]].
  unfold translate. rewrite (prepare_encoding_explicit I L Hl). cbn [bind e_nq].
  fold (the_vars I L). rewrite Hlen, Hn, Nat.eqb_refl. cbn [negb].
  apply (decode_rows_spec (mkEnc (sum_nq (concat (the_vars I L))) (the_vars I L))) in Hd. rewrite Hd. cbn [bind].
  rewrite (result_ok_combine I rows Hwf Hshape). reflexivity.
Qed.

(* ------------------------------------------------------------------ task 6: the bits of a decodable variable are determined by its value *)
Lemma first_false_spec l : forall i,
  first_false l = Some i -> firstn i l = repeat true i /\ nth_error l i = Some false.
Proof.
  induction l as [|x r IH]; intros i H; simpl in H; [discriminate|].
  destruct x.
  - destruct (first_false r) as [i'|]; [|discriminate]. inversion H; subst.
    destruct (IH i' eq_refl) as [H1 H2]. simpl. rewrite H1. split; [reflexivity | exact H2].
  - inversion H; subst. split; reflexivity.
Qed.

Lemma first_false_None l : first_false l = None -> l = repeat true (length l).
Proof.
  induction l as [|x r IH]; intros H; simpl in *; [reflexivity|].
  destruct x; [|discriminate]. destruct (first_false r); [discriminate|]. f_equal. apply IH. reflexivity.
Qed.

Lemma existsb_id_false l : existsb (fun x : bool => x) l = false -> l = repeat false (length l).
Proof.
  induction l as [|x r IH]; intros H; simpl in *; [reflexivity|].
  destruct x; [discriminate|]. simpl in H. f_equal. apply IH, H.
Qed.

Lemma skipn_add {A} (l : list A) : forall a b, skipn b (skipn a l) = skipn (a + b) l.
Proof.
  induction l as [|x r IH]; intros a b; [rewrite !skipn_nil; reflexivity|].
  destruct a as [|a]; [reflexivity|]. simpl. apply IH.
Qed.

Lemma var_bits_length v bl :
  (v_start v + var_nq v <= length bl)%nat -> length (var_bits v bl) = var_nq v.
Proof. intros H. unfold var_bits. rewrite firstn_length, skipn_length. lia. Qed.

(* the domain-wall shape 1^i 0^(n-i) *)
Definition dw_bits (n i : nat) : list bool := repeat true i ++ repeat false (n - i).

Lemma dw_bits_length n i : (i <= n)%nat -> length (dw_bits n i) = n.
Proof. intros H. unfold dw_bits. rewrite app_length, !repeat_length. lia. Qed.

Lemma value_from_bits_shape v bl t :
  (v_start v + var_nq v <= length bl)%nat -> value_from_bits v bl = Ok (Some t) ->
  exists i, (i <= var_nq v)%nat /\ nth_error (v_values v) i = Some t /\ var_bits v bl = dw_bits (var_nq v) i.
Proof.
  intros Hlen H. pose proof (var_bits_length v bl Hlen) as Hl.
  unfold value_from_bits in H. fold (dw_index v bl) in H.
  destruct (existsb (fun x : bool => x) (skipn (dw_index v bl) (var_bits v bl))) eqn:Ex; [discriminate|].
  destruct (nth_error (v_values v) (dw_index v bl)) as [t'|] eqn:En; [|discriminate]. inversion H; subst t'.
  exists (dw_index v bl). split; [apply dw_index_le|]. split; [exact En|].
  apply existsb_id_false in Ex. rewrite skipn_length, Hl in Ex.
  rewrite <- (firstn_skipn (dw_index v bl) (var_bits v bl)) at 1. unfold dw_bits. rewrite Ex. f_equal.
  unfold dw_index. destruct (first_false (var_bits v bl)) as [i|] eqn:Ef.
  - apply first_false_spec in Ef as [Ef _]. exact Ef.
  - apply first_false_None in Ef. rewrite Hl in Ef. rewrite <- Hl at 1. rewrite firstn_all. exact Ef.
Qed.

Lemma var_bits_determined v bl1 bl2 t :
  NoDup (v_values v) -> (v_start v + var_nq v <= length bl1)%nat -> (v_start v + var_nq v <= length bl2)%nat ->
  value_from_bits v bl1 = Ok (Some t) -> value_from_bits v bl2 = Ok (Some t) ->
  var_bits v bl1 = var_bits v bl2.
Proof.
  intros Hnd H1 H2 E1 E2.
  destruct (value_from_bits_shape v bl1 t H1 E1) as [i1 [_ [N1 B1]]].
  destruct (value_from_bits_shape v bl2 t H2 E2) as [i2 [_ [N2 B2]]].
  assert (i1 = i2).
  { apply (proj1 (NoDup_nth_error (v_values v)) Hnd).
    - apply nth_error_Some. congruence.
    - congruence. }
  congruence.
Qed.

(* variables laid out one after the other: the bit list is the concatenation of their slices *)
Lemma layout_bits_eq vs : forall q id bl1 bl2,
  layout q id vs -> length bl1 = (q + sum_nq vs)%nat -> length bl2 = (q + sum_nq vs)%nat ->
  (forall v, In v vs -> var_bits v bl1 = var_bits v bl2) -> skipn q bl1 = skipn q bl2.
Proof.
  induction vs as [|v r IH]; intros q id bl1 bl2 Hl L1 L2 H.
  - simpl in L1, L2. rewrite !skipn_all2 by lia. reflexivity.
  - simpl in Hl, L1, L2. destruct Hl as [Hs [_ Hl]].
    rewrite <- (firstn_skipn (var_nq v) (skipn q bl1)), <- (firstn_skipn (var_nq v) (skipn q bl2)).
    rewrite !skipn_add. f_equal.
    + pose proof (H v (or_introl eq_refl)) as Hv. unfold var_bits in Hv. rewrite Hs in Hv. exact Hv.
    + apply (IH _ _ _ _ Hl); [lia | lia |]. intros w Hw. apply H. right. exact Hw.
Qed.

Lemma encoder_injective : forall I L b1 b2 s,
  translate I L b1 = Ok s -> translate I L b2 = Ok s -> all_scheduled s = true -> b1 = b2.
Proof.
  intros I L b1 b2 s T1 T2 Hall.
  apply translate_inv in T1 as [Hl [Len1 [rows1 [D1 [E1 _]]]]].
  apply translate_inv in T2 as [_ [Len2 [rows2 [D2 [E2 _]]]]].
  assert (Hlv : length (the_vars I L) = length (inst_jobs I)) by apply vars_of_jobs_length.
  assert (R1 : rows1 = map snd s).
  { rewrite E1. symmetry. apply map_snd_combine. rewrite <- (Forall2_len _ _ _ D1). symmetry. exact Hlv. }
  assert (R2 : rows2 = map snd s).
  { rewrite E2. symmetry. apply map_snd_combine. rewrite <- (Forall2_len _ _ _ D2). symmetry. exact Hlv. }
  subst rows2. rewrite <- R1 in D2.
  assert (Hsome : forall row p, In row rows1 -> In p row -> snd p <> None).
  { intros row p Hrow Hp. rewrite R1 in Hrow. apply in_map_iff in Hrow as [kv [<- Hkv]].
    apply (proj1 (all_scheduled_spec s) Hall kv p Hkv Hp). }
  assert (Hbits : forall v, In v (concat (the_vars I L)) -> var_bits v (rev b1) = var_bits v (rev b2)).
  { intros v Hv. destruct (vars_of_jobs_wf I L v Hl Hv) as [_ [Hnd Hb]].
    apply in_concat in Hv as [vs [Hvs Hv]].
    destruct (Forall2_In_l _ _ _ _ (Forall2_and _ _ _ _ D1 D2) Hvs) as [row [Hrow [F1 F2]]].
    destruct (Forall2_In_l _ _ _ _ (Forall2_and _ _ _ _ F1 F2) Hv) as [p [Hp [[V1 _] [V2 _]]]].
    specialize (Hsome row p Hrow Hp). destruct (snd p) as [t|] eqn:Et; [|congruence].
    apply (var_bits_determined v _ _ t Hnd); try assumption; rewrite rev_length; fold (the_vars I L) in Hb;
      unfold the_nq in *; lia. }
  pose proof (layout_bits_eq _ 0%nat 0%nat (rev b1) (rev b2) (vars_of_jobs_layout L (inst_jobs I) 0 0)) as H.
  fold (the_vars I L) in H. rewrite !rev_length in H. specialize (H Len1 Len2 Hbits). simpl in H.
  rewrite <- (rev_involutive b1), <- (rev_involutive b2), H. reflexivity.
Qed.

(* ------------------------------------------------------------------ task 7: every feasible schedule within the limit is a decoding *)
Lemma index_of_spec t l : In t l ->
  exists i, index_of t l = Some i /\ nth_error l i = Some t /\ (i < length l)%nat.
Proof.
  induction l as [|x r IH]; intros H; [contradiction|]. simpl.
  destruct (Z.eqb_spec x t) as [->|Hne].
  - exists 0%nat. repeat split. simpl. lia.
  - destruct H as [H|H]; [contradiction|]. destruct (IH H) as [i [E [N Hlt]]].
    exists (S i). rewrite E. repeat split; [exact N | simpl; lia].
Qed.

Lemma index_of_lt t l i : index_of t l = Some i -> (i < length l)%nat.
Proof.
  revert i. induction l as [|x r IH]; intros i H; simpl in H; [discriminate|].
  destruct (x =? t); [inversion H; simpl; lia|].
  destruct (index_of t r) as [i'|]; [|discriminate]. inversion H; subst. specialize (IH i' eq_refl). simpl. lia.
Qed.

(* the bits written for one variable: its value's index i as 1^i 0^(n-i) *)
Definition chunk (v : dwvar) (x : option Z) : list bool :=
  match x with
  | Some t => match index_of t (v_values v) with
              | Some i => dw_bits (var_nq v) i
              | None => repeat false (var_nq v)
              end
  | None => repeat false (var_nq v)
  end.

Definition encode_vars (vs : list dwvar) (ps : list psop) : list bool :=
  concat (map (fun vp => chunk (fst vp) (snd (snd vp))) (combine vs ps)).

(* the bitstring of a schedule: variables in construction order take the start times in job-major order; the string's
   character k is qubit n-1-k *)
Definition encode_sched (I : instance) (L : Z) (s : schedule) : list bool :=
  rev (encode_vars (concat (the_vars I L)) (concat (map snd s))).

Lemma chunk_length v x : length (chunk v x) = var_nq v.
Proof.
  unfold chunk. destruct x as [t|]; [|apply repeat_length].
  destruct (index_of t (v_values v)) as [i|] eqn:E; [|apply repeat_length].
  apply index_of_lt in E. apply dw_bits_length. unfold var_nq. lia.
Qed.

Lemma encode_vars_length vs : forall ps, length vs = length ps -> length (encode_vars vs ps) = sum_nq vs.
Proof.
  induction vs as [|v r IH]; intros [|p ps] H; simpl in H; try discriminate; [reflexivity|].
  unfold encode_vars. cbn [combine map concat fst snd sum_nq fold_right]. rewrite app_length, chunk_length.
  f_equal. apply IH. lia.
Qed.

Lemma first_false_dw i : forall n, (i <= n)%nat ->
  match first_false (dw_bits n i) with Some k => k | None => n end = i.
Proof.
  induction i as [|i IH]; intros n H.
  - unfold dw_bits. simpl. rewrite Nat.sub_0_r. destruct n; reflexivity.
  - destruct n as [|n]; [lia|]. unfold dw_bits. cbn [repeat app first_false]. rewrite Nat.sub_succ.
    specialize (IH n). unfold dw_bits in IH. destruct (first_false (repeat true i ++ repeat false (n - i))); simpl;
      f_equal; apply IH; lia.
Qed.

Lemma skipn_app_exact {A} (l1 l2 : list A) : skipn (length l1) (l1 ++ l2) = l2.
Proof. induction l1; simpl; [reflexivity | assumption]. Qed.

Lemma firstn_app_exact {A} (l1 l2 : list A) : firstn (length l1) (l1 ++ l2) = l1.
Proof. induction l1; simpl; [reflexivity | f_equal; assumption]. Qed.

Lemma existsb_repeat_false n : existsb (fun x : bool => x) (repeat false n) = false.
Proof. induction n; simpl; [reflexivity | assumption]. Qed.

Lemma value_from_bits_dw v bl i t :
  var_bits v bl = dw_bits (var_nq v) i -> (i <= var_nq v)%nat -> nth_error (v_values v) i = Some t ->
  value_from_bits v bl = Ok (Some t).
Proof.
  intros Hb Hi Hn. unfold value_from_bits. rewrite Hb, (first_false_dw i (var_nq v) Hi).
  unfold dw_bits at 1. rewrite <- (repeat_length true i) at 1. rewrite skipn_app_exact, existsb_repeat_false, Hn.
  reflexivity.
Qed.

(* what the completeness argument needs of (variable, entry): the entry is the variable's operation, scheduled at one
   of the variable's values *)
Definition win_rel (v : dwvar) (p : psop) : Prop :=
  fst p = v_op v /\ exists t, snd p = Some t /\ In t (v_values v).

Lemma encode_vars_decode vs : forall ps q id pre,
  layout q id vs -> length pre = q -> Forall2 win_rel vs ps ->
  Forall2 (dec_rel (pre ++ encode_vars vs ps)) vs ps.
Proof.
  induction vs as [|v r IH]; intros ps q id pre Hl Hpre HF; inversion HF as [|? p ? ps' Hvp HF']; subst; [constructor|].
  simpl in Hl. destruct Hl as [Hs [_ Hl]].
  assert (Eenc : encode_vars (v :: r) (p :: ps') = chunk v (snd p) ++ encode_vars r ps') by reflexivity.
  rewrite Eenc. constructor.
  - destruct Hvp as [Hop [t [Et Hin]]]. split; [|exact Hop]. rewrite Et.
    destruct (index_of_spec t _ Hin) as [i [Ei [Ni Hlt]]].
    apply (value_from_bits_dw v _ i t); [| unfold var_nq; lia | exact Ni].
    unfold var_bits. rewrite Hs, skipn_app_exact.
    pose proof (firstn_app_exact (chunk v (snd p)) (encode_vars r ps')) as Ef. rewrite chunk_length, Et in Ef. rewrite Ef.
    unfold chunk. rewrite Ei. reflexivity.
  - rewrite app_assoc. apply (IH ps' (length pre + var_nq v)%nat (S id)); [exact Hl | | exact HF'].
    rewrite app_length, chunk_length. reflexivity.
Qed.

(* ---- lists of lists *)
Lemma Forall2_concat {A B} (R : A -> B -> Prop) l1 l2 :
  Forall2 (Forall2 R) l1 l2 -> Forall2 R (concat l1) (concat l2).
Proof. induction 1; simpl; [constructor | apply Forall2_app; assumption]. Qed.

Lemma Forall2_app_split {A B} (R : A -> B -> Prop) a : forall b x y,
  length a = length b -> Forall2 R (a ++ x) (b ++ y) -> Forall2 R a b /\ Forall2 R x y.
Proof.
  induction a as [|u a IH]; intros [|w b] x y Hlen H; simpl in *; try discriminate.
  - split; [constructor | exact H].
  - inversion H; subst. destruct (IH b x y) as [H1 H2]; [lia | assumption |].
    split; [constructor; assumption | exact H2].
Qed.

Lemma Forall2_unconcat {A B} (R : A -> B -> Prop) (l1 : list (list A)) (l2 : list (list B)) :
  Forall2 (fun a b => length a = length b) l1 l2 -> Forall2 R (concat l1) (concat l2) -> Forall2 (Forall2 R) l1 l2.
Proof.
  induction 1 as [|a b l1 l2 Hab _ IH]; simpl; intros H; [constructor|].
  apply Forall2_app_split in H as [H1 H2]; [|exact Hab]. constructor; [exact H1 | apply IH, H2].
Qed.

Lemma Forall2_join {A B C} (R : A -> B -> Prop) (S : A -> C -> Prop) (T : B -> C -> Prop) l1 l2 :
  Forall2 R l1 l2 -> forall l3, Forall2 S l1 l3 -> (forall a b c, R a b -> S a c -> T b c) -> Forall2 T l2 l3.
Proof.
  induction 1 as [|a b l1 l2 Hab _ IH]; intros l3 HS HT; inversion HS; subst; constructor.
  - eapply HT; eassumption.
  - apply IH; assumption.
Qed.

Lemma Forall2_fst_snd {A B} (l l' : list (A * B)) :
  incl l l' -> Forall2 (fun a b => In (a, b) l') (map fst l) (map snd l).
Proof.
  induction l as [|[a b] r IH]; intros H; simpl; constructor.
  - apply H. left. reflexivity.
  - apply IH. intros x Hx. apply H. right. exact Hx.
Qed.

Lemma Forall2_nth_intro {A B} (R : A -> B -> Prop) l1 : forall l2,
  length l1 = length l2 ->
  (forall k x y, nth_error l1 k = Some x -> nth_error l2 k = Some y -> R x y) -> Forall2 R l1 l2.
Proof.
  induction l1 as [|a l1 IH]; intros [|b l2] Hlen H; simpl in Hlen; try discriminate; constructor.
  - apply (H 0%nat); reflexivity.
  - apply IH; [lia|]. intros k x y Hx Hy. apply (H (S k)); assumption.
Qed.

(* ---- precedence inside a job pushes every start into its window *)
Lemma prec_lower (srow : list sop) : forall base k p,
  precedence_ok srow -> (forall p0, nth_error srow 0 = Some p0 -> base <= start_of p0) ->
  nth_error srow k = Some p -> base + sumZ (map op_dur (firstn k (map fst srow))) <= start_of p.
Proof.
  induction srow as [|a r IH]; intros base k p Hprec Hbase Hk; [destruct k; discriminate|].
  destruct k as [|k]; simpl in Hk.
  - simpl. specialize (Hbase p Hk). lia.
  - cbn [map firstn]. unfold sumZ. cbn [fold_right]. fold (sumZ (map op_dur (firstn k (map fst r)))).
    specialize (IH (base + op_dur (fst a)) k p (precedence_ok_tl _ _ Hprec)).
    assert (Hb : forall p0, nth_error r 0 = Some p0 -> base + op_dur (fst a) <= start_of p0).
    { intros p0 Hp0. specialize (Hprec 0%nat a p0 eq_refl Hp0). specialize (Hbase a eq_refl).
      unfold end_of, start_of in *. lia. }
    specialize (IH Hb Hk). lia.
Qed.

Lemma prec_upper L (srow : list sop) : forall k p,
  precedence_ok srow -> (forall q, In q srow -> end_of q <= L) ->
  nth_error srow k = Some p -> start_of p + sumZ (map op_dur (skipn k (map fst srow))) <= L.
Proof.
  induction srow as [|a r IH]; intros k p Hprec Hend Hk; [destruct k; discriminate|].
  assert (Hend' : forall q, In q r -> end_of q <= L) by (intros q Hq; apply Hend; right; exact Hq).
  destruct k as [|k]; simpl in Hk.
  - inversion Hk; subst a. cbn [skipn map]. unfold sumZ. cbn [fold_right]. fold (sumZ (map op_dur (map fst r))).
    destruct r as [|b r'].
    + simpl. specialize (Hend p (or_introl eq_refl)). unfold end_of, start_of in *. lia.
    + specialize (IH 0%nat b (precedence_ok_tl _ _ Hprec) Hend' eq_refl). cbn [skipn] in IH.
      specialize (Hprec 0%nat p b eq_refl eq_refl). unfold end_of, start_of in *. lia.
  - cbn [map skipn]. apply IH; [eapply precedence_ok_tl, Hprec | exact Hend' | exact Hk].
Qed.

Lemma strip_nth row : forall k o t,
  forallb is_sched row = true -> nth_error row k = Some (o, Some t) -> nth_error (strip row) k = Some (o, t).
Proof.
  induction row as [|[o' [t'|]] r IH]; intros k o t Hs Hk; [destruct k; discriminate| |discriminate].
  simpl in Hs. destruct k as [|k]; simpl in Hk; [inversion Hk; reflexivity|]. apply (IH k o t Hs Hk).
Qed.

(* one job: its variables against a row that respects precedence and the time frame *)
Lemma job_window L j (row : list psop) q id :
  job_total j <= L -> map fst row = job_ops j -> forallb is_sched row = true ->
  precedence_ok (strip row) ->
  (forall o t, In (o, Some t) row -> 0 <= t /\ t + op_dur o <= L) ->
  Forall2 win_rel (vars_of_ops (L - job_total j + 1) 0 q id (job_ops j)) row.
Proof.
  intros Htot Hops Hsched Hprec Hb. apply Forall2_nth_intro.
  - rewrite vars_of_ops_length, <- Hops, map_length. reflexivity.
  - intros k v [o x] Hv Hp. apply vars_of_ops_nth in Hv as [Ho Hvals].
    assert (Eo : o = v_op v).
    { pose proof (map_nth_error fst _ _ Hp) as E. rewrite Hops, Ho in E. simpl in E. congruence. }
    split; [exact Eo|]. simpl.
    assert (Hx : is_sched (o, x) = true).
    { rewrite forallb_forall in Hsched. apply Hsched. eapply nth_error_In, Hp. }
    destruct x as [t|]; [|discriminate]. exists t. split; [reflexivity|].
    pose proof (strip_nth _ _ _ _ Hsched Hp) as Hsp.
    assert (Hfst : map fst (strip row) = job_ops j) by (rewrite strip_fst; assumption).
    assert (Hlo : 0 + sumZ (map op_dur (firstn k (map fst (strip row)))) <= start_of (o, t)).
    { apply (prec_lower _ 0 k _ Hprec); [|exact Hsp]. intros p0 Hp0. apply nth_error_In, In_strip, Hb in Hp0.
      unfold start_of. lia. }
    assert (Hhi : start_of (o, t) + sumZ (map op_dur (skipn k (map fst (strip row)))) <= L).
    { apply (prec_upper L _ k _ Hprec); [|exact Hsp]. intros p0 Hp0. apply In_strip, Hb in Hp0.
      unfold end_of. lia. }
    rewrite Hfst in Hlo, Hhi. fold (head_of j k) in Hlo. fold (from_of j k) in Hhi. fold (head_of j k) in Hvals.
    rewrite Hvals. apply zrange_In. pose proof (head_from_total j k). unfold start_of in *. simpl in *. lia.
Qed.

Lemma lookup_rows_own (s : schedule) : keys_nodup s -> forall l, incl l s ->
  lookup_rows s (map fst l) = Some (map snd l).
Proof.
  intros Hnd l. induction l as [|kv r IH]; intros H; simpl; [reflexivity|].
  rewrite (sched_lookup_own s kv Hnd (H kv (or_introl eq_refl))).
  rewrite IH by (intros x Hx; apply H; right; exact Hx). reflexivity.
Qed.

(* the facts completeness uses, derived from the lead's valid_spec *)
Lemma valid_spec_rows I s : wf_instance I = true -> map fst s = inst_jobs I -> valid_spec I s ->
  forall j row, In (j, row) s -> forallb is_sched row = true /\ precedence_ok (strip row).
Proof.
  intros Hwf Hfst [Hall Hprec _] j row Hin. split.
  - apply forallb_forall. intros p Hp. specialize (Hall (j, row) p Hin Hp). unfold is_sched.
    destruct (snd p); [reflexivity | contradiction].
  - assert (Hnd : keys_nodup s) by (unfold keys_nodup; rewrite Hfst; apply wf_jobs_NoDup, Hwf).
    pose proof (lookup_rows_own s Hnd s (incl_refl s)) as Hl. rewrite Hfst in Hl.
    apply (Hprec _ Hl row). apply (in_map snd) in Hin. exact Hin.
Qed.

Lemma encoder_complete_explicit : forall I L s,
  wf_instance I = true -> limit_ok I L ->
  map fst s = inst_jobs I ->
  Forall2 (fun j (row : list psop) => map fst row = job_ops j) (inst_jobs I) (map snd s) ->
  valid_spec I s ->
  (forall j row o t, In (j, row) s -> In (o, Some t) row -> 0 <= t /\ t + op_dur o <= L) ->
  length (encode_sched I L s) = the_nq I L /\ translate I L (encode_sched I L s) = Ok s.
Proof.
  intros I L s Hwf Hl Hfst Hshape Hvalid Hb.
  assert (Hwin : Forall2 (Forall2 win_rel) (the_vars I L) (map snd s)).
  { assert (HS : Forall2 (fun j (row : list psop) => In (j, row) s /\ map fst row = job_ops j)
                         (inst_jobs I) (map snd s)).
    { apply Forall2_and; [|exact Hshape]. rewrite <- Hfst. apply Forall2_fst_snd, incl_refl. }
    apply (Forall2_join _ _ _ _ _ (vars_of_jobs_shape L (inst_jobs I) 0%nat 0%nat) _ HS).
    intros j vs row [q' [id' ->]] [Hin Hops].
    destruct (valid_spec_rows I s Hwf Hfst Hvalid j row Hin) as [Hsched Hprec].
    apply job_window; try assumption.
    - apply Hl. rewrite <- Hfst. apply (in_map fst) in Hin. exact Hin.
    - intros o t Ho. apply (Hb j row o t Hin Ho). }
  pose proof (Forall2_concat _ _ _ Hwin) as Hflat.
  pose proof (encode_vars_decode _ _ 0%nat 0%nat [] (vars_of_jobs_layout L (inst_jobs I) 0 0) eq_refl Hflat) as Hdec.
  fold (the_vars I L) in Hdec. cbn [app] in Hdec.
  set (bl := encode_vars (concat (the_vars I L)) (concat (map snd s))) in *.
  assert (Hrows : Forall2 (Forall2 (dec_rel bl)) (the_vars I L) (map snd s)).
  { apply Forall2_unconcat; [|exact Hdec]. eapply Forall2_impl; [|exact Hwin].
    intros vs row _ _ H. apply (Forall2_len _ _ _ H). }
  assert (Hlen : length (encode_sched I L s) = the_nq I L).
  { unfold encode_sched. rewrite rev_length. apply encode_vars_length. apply (Forall2_len _ _ _ Hflat). }
  split; [exact Hlen|].
  unfold translate. rewrite (prepare_encoding_explicit I L Hl). cbn [bind e_nq].
  fold (the_vars I L). fold (the_nq I L). rewrite Hlen, Nat.eqb_refl. cbn [negb].
  unfold encode_sched. rewrite rev_involutive. fold bl.
  apply (decode_rows_spec (mkEnc (the_nq I L) (the_vars I L))) in Hrows. rewrite Hrows. cbn [bind].
  pose proof (result_ok_combine I (map snd s) Hwf Hshape) as Hr.
  cbv zeta. rewrite Hr. rewrite <- Hfst, combine_fst_snd. reflexivity.
Qed.

Lemma encoder_complete : forall I L s n,
  wf_instance I = true -> limit_ok I L -> n_qubits I L = Ok n ->
  map fst s = inst_jobs I ->
  Forall2 (fun j (row : list psop) => map fst row = job_ops j) (inst_jobs I) (map snd s) ->
  valid_spec I s ->
  (forall j row o t, In (j, row) s -> In (o, Some t) row -> 0 <= t /\ t + op_dur o <= L) ->
  exists bits, length bits = n /\ translate I L bits = Ok s.
Proof.
  intros I L s n Hwf Hl Hn Hfst Hshape Hvalid Hb.
  destruct (encoder_complete_explicit I L s Hwf Hl Hfst Hshape Hvalid Hb) as [H1 H2].
  exists (encode_sched I L s). split; [|exact H2]. rewrite H1. symmetry. apply (n_qubits_explicit I L n Hl Hn).
Qed.

(* the limit hypothesis follows from the existence of such a schedule (jobs are non-empty in a well-formed instance) *)
Lemma sched_rows_rel I (s : schedule) :
  map fst s = inst_jobs I ->
  Forall2 (fun j (row : list psop) => map fst row = job_ops j) (inst_jobs I) (map snd s) ->
  Forall2 (fun j (row : list psop) => In (j, row) s /\ map fst row = job_ops j) (inst_jobs I) (map snd s).
Proof.
  intros Hfst Hshape. apply Forall2_and; [|exact Hshape]. rewrite <- Hfst. apply Forall2_fst_snd, incl_refl.
Qed.

Lemma limit_from_schedule I L s :
  wf_instance I = true -> map fst s = inst_jobs I ->
  Forall2 (fun j (row : list psop) => map fst row = job_ops j) (inst_jobs I) (map snd s) ->
  valid_spec I s ->
  (forall j row o t, In (j, row) s -> In (o, Some t) row -> 0 <= t /\ t + op_dur o <= L) ->
  limit_ok I L.
Proof.
  intros Hwf Hfst Hshape Hvalid Hb j Hj.
  destruct (Forall2_In_l _ _ _ _ (sched_rows_rel I s Hfst Hshape) Hj) as [row [_ [Hin Hops]]].
  destruct (valid_spec_rows I s Hwf Hfst Hvalid j row Hin) as [Hsched Hprec].
  assert (Hne : job_ops j <> []).
  { unfold wf_instance in Hwf. rewrite !andb_true_iff, !forallb_forall in Hwf. destruct Hwf as [_ Hjobs].
    specialize (Hjobs j Hj). rewrite andb_true_iff in Hjobs. destruct Hjobs as [Hjob _].
    apply job_ok_spec in Hjob. tauto. }
  destruct row as [|[o x] r]; [simpl in Hops; congruence|].
  assert (Hx : is_sched (o, x) = true) by (simpl in Hsched; apply andb_true_iff in Hsched; tauto).
  destruct x as [t|]; [|discriminate].
  assert (H0 : 0 <= t) by (apply (Hb j _ o t Hin); left; reflexivity).
  set (row := (o, Some t) :: r) in *.
  assert (Hup : start_of (o, t) + sumZ (map op_dur (skipn 0 (map fst (strip row)))) <= L).
  { apply prec_upper; [exact Hprec | | reflexivity].
    intros p0 Hp0. apply In_strip, (Hb j _ _ _ Hin) in Hp0. unfold end_of. lia. }
  change (map fst row = job_ops j) in Hops. rewrite (strip_fst row Hsched), Hops in Hup. cbn [skipn] in Hup. fold (job_total j) in Hup.
  unfold start_of in Hup. simpl in Hup. lia.
Qed.

Lemma encoder_complete_valid : forall I L s n,
  wf_instance I = true -> n_qubits I L = Ok n ->
  map fst s = inst_jobs I ->
  Forall2 (fun j (row : list psop) => map fst row = job_ops j) (inst_jobs I) (map snd s) ->
  valid_spec I s ->
  (forall j row o t, In (j, row) s -> In (o, Some t) row -> 0 <= t /\ t + op_dur o <= L) ->
  length (encode_sched I L s) = n /\ translate I L (encode_sched I L s) = Ok s.
Proof.
  intros I L s n Hwf Hn Hfst Hshape Hvalid Hb.
  pose proof (limit_from_schedule I L s Hwf Hfst Hshape Hvalid Hb) as Hl.
  destruct (encoder_complete_explicit I L s Hwf Hl Hfst Hshape Hvalid Hb) as [H1 H2].
  split; [|exact H2]. rewrite H1. symmetry. apply (n_qubits_explicit I L n Hl Hn).
Qed.

(* ------------------------------------------------------------------ the hypotheses are satisfiable: 2 jobs x 2 machines, limit 4 *)
Definition ex22_a0 := mkOp "a" "j0" "m0" 1.
Definition ex22_b0 := mkOp "b" "j0" "m1" 1.
Definition ex22_a1 := mkOp "a" "j1" "m1" 1.
Definition ex22_b1 := mkOp "b" "j1" "m0" 1.
Definition ex22_j0 := mkJob "j0" [ex22_a0; ex22_b0].
Definition ex22_j1 := mkJob "j1" [ex22_a1; ex22_b1].
Definition ex22 : instance := mkInst "t" ["m0"%string; "m1"%string] [ex22_j0; ex22_j1].
Definition ex22_row0 : list psop := [(ex22_a0, Some 0); (ex22_b0, Some 1)].
Definition ex22_row1 : list psop := [(ex22_a1, Some 0); (ex22_b1, Some 1)].
Definition ex22_sched : schedule := [(ex22_j0, ex22_row0); (ex22_j1, ex22_row1)].
Definition ex22_bits : list bool := encode_sched ex22 4 ex22_sched.

Lemma ex22_limit_ok : limit_ok ex22 4.
Proof. intros j [<-|[<-|[]]]; vm_compute; discriminate. Qed.

Lemma ex22_reject_hyp :
  wf_instance ex22 = true /\ (exists j, In j (inst_jobs ex22) /\ 1 < job_total j)
  /\ n_qubits ex22 1 = Err ValueError.
Proof.
  split; [vm_compute; reflexivity|]. split; [|vm_compute; reflexivity].
  exists ex22_j0. split; [left; reflexivity | vm_compute; reflexivity].
Qed.

Lemma ex22_total_hyp :
  wf_instance ex22 = true /\ limit_ok ex22 4 /\ n_qubits ex22 4 = Ok 8%nat /\ length ex22_bits = 8%nat
  /\ total_qubits ex22 4 = 8.
Proof.
  split; [vm_compute; reflexivity|]. split; [exact ex22_limit_ok|]. repeat split; vm_compute; reflexivity.
Qed.

Lemma ex22_bounds_hyp :
  wf_instance ex22 = true /\ translate ex22 4 ex22_bits = Ok ex22_sched
  /\ In (ex22_j0, ex22_row0) ex22_sched /\ nth_error ex22_row0 1 = Some (ex22_b0, Some 1)
  /\ head_of ex22_j0 1 = 1 /\ from_of ex22_j0 1 = 1.
Proof.
  split; [vm_compute; reflexivity|]. split; [vm_compute; reflexivity|].
  split; [left; reflexivity|]. repeat split; vm_compute; reflexivity.
Qed.

Lemma ex22_injective_hyp :
  translate ex22 4 ex22_bits = Ok ex22_sched /\ all_scheduled ex22_sched = true.
Proof. split; vm_compute; reflexivity. Qed.

Lemma ex22_complete_hyp :
  wf_instance ex22 = true /\ n_qubits ex22 4 = Ok 8%nat
  /\ map fst ex22_sched = inst_jobs ex22
  /\ Forall2 (fun j (row : list psop) => map fst row = job_ops j) (inst_jobs ex22) (map snd ex22_sched)
  /\ valid_spec ex22 ex22_sched
  /\ (forall j row o t, In (j, row) ex22_sched -> In (o, Some t) row -> 0 <= t /\ t + op_dur o <= 4).
Proof.
  assert (Hwf : wf_instance ex22 = true) by (vm_compute; reflexivity).
  split; [exact Hwf|]. split; [vm_compute; reflexivity|]. split; [reflexivity|].
  split; [repeat constructor|]. split.
  - assert (Hres : result_ok ex22 ex22_sched = true) by (vm_compute; reflexivity).
    destruct (is_valid_impl_verdict ex22 ex22_sched Hwf Hres) as [b [E Hb]].
    vm_compute in E. inversion E; subst b. apply Hb. reflexivity.
  - intros j row o t [E|[E|[]]] Hin; inversion E; subst j row;
      (destruct Hin as [E'|[E'|[]]]; inversion E'; subst o t; vm_compute; split; discriminate).
Qed.

(* ------------------------------------------------------------------ further corollaries on the closed form (for the energy proofs) *)
Lemma vars_of_jobs_ids L jobs :
  map v_id (concat (vars_of_jobs L 0 0 jobs)) = seq 0 (length (concat (vars_of_jobs L 0 0 jobs))).
Proof. apply (layout_ids _ 0%nat 0%nat), vars_of_jobs_layout. Qed.

(* job by job: as many variables as operations; the k-th one belongs to the k-th operation and ranges over
   head_of j k, ..., head_of j k + (L - job_total j) *)
Lemma vars_of_jobs_windows L jobs : forall q id,
  Forall2 (fun j vs => length vs = length (job_ops j) /\
                       forall k v, nth_error vs k = Some v ->
                                   nth_error (job_ops j) k = Some (v_op v)
                                   /\ v_values v = zrange (head_of j k) (L - job_total j + 1))
          jobs (vars_of_jobs L q id jobs).
Proof.
  intros q id. eapply Forall2_impl; [|apply vars_of_jobs_shape].
  intros j vs _ _ [q' [id' ->]]. split; [apply vars_of_ops_length|].
  intros k v Hk. apply vars_of_ops_nth in Hk as [H1 H2]. split; [exact H1|]. rewrite H2. reflexivity.
Qed.

(* the last qubit range ends at the total: the ranges tile [0, n) *)
Lemma vars_of_jobs_tiling L jobs i j v w :
  nth_error (concat (vars_of_jobs L 0 0 jobs)) i = Some v ->
  nth_error (concat (vars_of_jobs L 0 0 jobs)) j = Some w -> (i < j)%nat ->
  (v_start v + var_nq v <= v_start w)%nat.
Proof. apply (layout_disjoint _ 0%nat 0%nat), vars_of_jobs_layout. Qed.

(* without "all scheduled" injectivity fails: two different bitstrings with an invalid first variable *)
Definition ex22_inv1 : list bool := rev ([false; true; false] ++ repeat false 9).
Definition ex22_inv2 : list bool := rev ([false; false; true] ++ repeat false 9).
Lemma ex22_unscheduled_not_injective :
  ex22_inv1 <> ex22_inv2 /\ is_ok (translate ex22 5 ex22_inv1) = true
  /\ translate ex22 5 ex22_inv1 = translate ex22 5 ex22_inv2.
Proof. split; [vm_compute; discriminate|]. split; vm_compute; reflexivity. Qed.
