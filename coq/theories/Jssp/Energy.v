(* Specification side for C15 / C01 / C02: the explicit form of the encoding (windows, offsets), the wall / anti-wall
   reading of a domain-wall variable on a basis state, and the quantities the energy of a decoded schedule is
   compared with.  Definitions only. *)
From QV Require Export Jssp.Encoder.
Open Scope Z_scope.
Open Scope list_scope.

(* ------------------------------------------------------------------ the encoding in closed form *)
Definition limit_ok (I : instance) (L : Z) : Prop := forall j, In j (inst_jobs I) -> job_total j <= L.

(* every operation of a job gets (L - job length) qubits *)
Definition total_qubits (I : instance) (L : Z) : Z :=
  sumZ (map (fun j => Z.of_nat (List.length (job_ops j)) * (L - job_total j)) (inst_jobs I)).

(* variables of the operations of one job: N start times each, windows shifted by the preceding durations *)
Fixpoint vars_of_ops (N : Z) (so : Z) (q id : nat) (ops : list operation) : list dwvar :=
  match ops with
  | [] => []
  | o :: r => mkVar id o q (zrange so N) :: vars_of_ops N (so + op_dur o) (q + (Z.to_nat N - 1))%nat (S id) r
  end.

Fixpoint vars_of_jobs (L : Z) (q id : nat) (jobs : list job) : list (list dwvar) :=
  match jobs with
  | [] => []
  | j :: r =>
      let N := L - job_total j + 1 in
      vars_of_ops N 0 q id (job_ops j)
      :: vars_of_jobs L (q + List.length (job_ops j) * (Z.to_nat N - 1))%nat (id + List.length (job_ops j))%nat r
  end.

(* head / tail processing times of the k-th operation of a job *)
Definition head_of (j : job) (k : nat) : Z := sumZ (map op_dur (firstn k (job_ops j))).
Definition from_of (j : job) (k : nat) : Z := sumZ (map op_dur (skipn k (job_ops j))).   (* own duration + tail *)

(* ------------------------------------------------------------------ walls and anti-walls
   Bits of variable v on the state b, with the virtual bits: position -1 holds 1, position n_qubits holds 0. *)
Definition vbit (v : dwvar) (b : nat -> bool) (i : Z) : bool :=
  if i <? 0 then true
  else if i <? Z.of_nat (var_nq v) then b (v_start v + Z.to_nat i)%nat
  else false.

(* position i (0 .. n_qubits) carries a wall "10" / an anti-wall "01" between positions i-1 and i *)
Definition wall (v : dwvar) (b : nat -> bool) (i : nat) : bool :=
  vbit v b (Z.of_nat i - 1) && negb (vbit v b (Z.of_nat i)).
Definition antiwall (v : dwvar) (b : nat -> bool) (i : nat) : bool :=
  negb (vbit v b (Z.of_nat i - 1)) && vbit v b (Z.of_nat i).

Definition ind (x : bool) : Q := if x then 1%Q else 0%Q.

(* eigenvalue of the value term of the i-th value *)
Definition vt_val (v : dwvar) (b : nat -> bool) (i : nat) : Q := (ind (wall v b i) - ind (antiwall v b i))%Q.

Definition count_true (l : list bool) : nat := List.length (filter (fun x => x) l).
(* number of walls / anti-walls of the variable (positions 0 .. n_qubits) *)
Definition n_walls (v : dwvar) (b : nat -> bool) : nat := count_true (map (wall v b) (seq 0 (S (var_nq v)))).
Definition n_antiwalls (v : dwvar) (b : nat -> bool) : nat := count_true (map (antiwall v b) (seq 0 (S (var_nq v)))).

(* a variable as the encoder creates it inside a circuit of nq qubits *)
Definition var_wf (v : dwvar) (nq : nat) : Prop :=
  (1 <= List.length (v_values v))%nat /\ NoDup (v_values v) /\ (v_start v + var_nq v <= nq)%nat.

(* ------------------------------------------------------------------ decoded schedules
   The starts of a fully scheduled result in job-major order, paired with their operations. *)
Definition sched_sops (s : schedule) : list (list sop) := map (fun kv => strip (snd kv)) s.

(* consecutive operations of a job out of order *)
Definition n_prec_row (row : list sop) : nat :=
  count_true (map (fun ab => negb (end_of (fst ab) <=? start_of (snd ab))) (consecutive row)).
Definition n_prec (s : schedule) : nat := sumN (map n_prec_row (sched_sops s)).

(* pairs of operations (in job-major order) on the same machine that overlap *)
Definition overlaps (a b : sop) : bool :=
  (start_of a <? end_of b) && (start_of b <? end_of a).
Definition n_ov (s : schedule) : nat :=
  count_true (map (fun ab => String.eqb (mach_of (fst ab)) (mach_of (snd ab)) && overlaps (fst ab) (snd ab))
                  (combs2 (concat (sched_sops s)))).

(* makespan part: sum over jobs of (J+1)^(end of last operation) / (J * (J+1)^L) *)
Definition opt_makespan (L : Z) (s : schedule) : Q :=
  let J := Z.of_nat (List.length s) in
  fold_right (fun row acc => (match last_opt row with
                              | Some p => inject_Z ((J + 1) ^ end_of p) / inject_Z (J * (J + 1) ^ L)
                              | None => 0
                              end + acc)%Q) 0%Q (sched_sops s).

(* early-start part: sum over operations of (start - head) / n_qubits ; k-th operation of job j has head head_of j k *)
Fixpoint early_row (j : job) (k : nat) (row : list sop) : Z :=
  match row with
  | [] => 0
  | p :: r => (start_of p - head_of j k) + early_row j (S k) r
  end.
Definition opt_early (nq : nat) (s : schedule) : Q :=
  (inject_Z (sumZ (map (fun kv => early_row (fst kv) 0 (strip (snd kv))) s)) / inject_Z (Z.of_nat nq))%Q.

Definition opt_part (P : penalties) (L : Z) (nq : nat) (s : schedule) : Q :=
  (p_opt P * (1 - p_share P) * opt_makespan L s + p_opt P * p_share P * opt_early nq s)%Q.

(* the documented regime *)
Definition regime (P : penalties) : Prop :=
  (0 < p_opt P /\ p_opt P <= p_prec P /\ p_opt P <= p_overlap P /\ p_prec P <= p_enc P /\ p_overlap P <= p_enc P
   /\ 0 <= p_share P /\ p_share P <= 1)%Q.

(* makespan of a fully scheduled result: the latest end over all operations *)
Definition makespan_of (s : schedule) : option Z := latest_end (sched_sops s).
