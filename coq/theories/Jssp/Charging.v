(* Abstract arithmetic behind DESIGN.md Appendix A.2 (C01, undecodable states):
   - [charging]: the negative part of the pair-penalty terms is bounded by the anti-wall counts weighted with
     the per-variable maximum of the encoder's touch-count table;
   - [wsum_nonneg], [wsum_upper]: the alternating wall / anti-wall sum of a non-negative non-decreasing
     coefficient sequence is non-negative (and bounded by any upper bound of the coefficients).
   Self-contained: only QArith and lists.  Keys are compared by Leibniz equality ([key_eqb] reflects it), so the
   indicator functions [a], [b] need not be setoid morphisms. *)
From QV Require Import Common.Base.
From Coq Require Import QArith Qabs Lqa Lia.

Local Open Scope Q_scope.

Definition key : Type := (nat * Z)%type.
Definition key_eqb (k1 k2 : key) : bool := Nat.eqb (fst k1) (fst k2) && Z.eqb (snd k1) (snd k2).
Definition entry : Type := (Q * key * key)%type.      (* weight, endpoint 1, endpoint 2 *)
Definition e_w (e : entry) : Q := fst (fst e).
Definition e_k1 (e : entry) : key := snd (fst e).
Definition e_k2 (e : entry) : key := snd e.
Definition sumQ (l : list Q) : Q := fold_right Qplus 0 l.
(* how many endpoints of the entry are k : what the encoder's table records *)
Definition touches (k : key) (e : entry) : nat :=
  ((if key_eqb (e_k1 e) k then 1 else 0) + (if key_eqb (e_k2 e) k then 1 else 0))%nat.
Definition cnt (es : list entry) (k : key) : nat := fold_right (fun e acc => touches k e + acc)%nat 0%nat es.

(* all keys of a list of variables (variable id, its values) *)
Definition allkeys (vars : list (nat * list Z)) : list key :=
  flat_map (fun ov => map (fun t => (fst ov, t)) (snd ov)) vars.

Lemma key_eqb_eq : forall k1 k2 : key, key_eqb k1 k2 = true <-> k1 = k2.
Proof.
  intros [o1 t1] [o2 t2]; unfold key_eqb; simpl.
  rewrite andb_true_iff, Nat.eqb_eq, Z.eqb_eq. split.
  - intros [-> ->]; reflexivity.
  - intros E; inversion E; auto.
Qed.

Lemma key_eqb_refl : forall k, key_eqb k k = true.
Proof. intros k; apply key_eqb_eq; reflexivity. Qed.

Lemma key_eqb_neq : forall k1 k2 : key, k1 <> k2 -> key_eqb k1 k2 = false.
Proof.
  intros k1 k2 N. destruct (key_eqb k1 k2) eqn:E; auto. apply key_eqb_eq in E. contradiction.
Qed.

(* ---------- sums over lists of rationals ---------- *)

Lemma sumQ_app : forall l1 l2, sumQ (l1 ++ l2) == sumQ l1 + sumQ l2.
Proof.
  induction l1 as [|x l1 IH]; intros l2; simpl.
  - lra.
  - rewrite IH. lra.
Qed.

Lemma sumQ_map_ext {A} : forall (f g : A -> Q) l,
  (forall x, In x l -> f x == g x) -> sumQ (map f l) == sumQ (map g l).
Proof.
  intros f g l; induction l as [|x l IH]; intros H; simpl.
  - reflexivity.
  - rewrite (H x (or_introl eq_refl)), IH; [reflexivity|]. intros y Hy; apply H; right; exact Hy.
Qed.

Lemma sumQ_map_le {A} : forall (f g : A -> Q) l,
  (forall x, In x l -> f x <= g x) -> sumQ (map f l) <= sumQ (map g l).
Proof.
  intros f g l; induction l as [|x l IH]; intros H; simpl.
  - lra.
  - assert (H1 := H x (or_introl eq_refl)).
    assert (H2 : sumQ (map f l) <= sumQ (map g l)) by (apply IH; intros y Hy; apply H; right; exact Hy).
    lra.
Qed.

Lemma sumQ_map_plus {A} : forall (f g : A -> Q) l,
  sumQ (map (fun x => f x + g x) l) == sumQ (map f l) + sumQ (map g l).
Proof.
  intros f g l; induction l as [|x l IH]; simpl.
  - lra.
  - rewrite IH. lra.
Qed.

Lemma sumQ_map_scale_l {A} : forall (c : Q) (f : A -> Q) l,
  sumQ (map (fun x => c * f x) l) == c * sumQ (map f l).
Proof.
  intros c f l; induction l as [|x l IH]; simpl.
  - lra.
  - rewrite IH. lra.
Qed.

Lemma sumQ_map_opp {A} : forall (f : A -> Q) l,
  sumQ (map (fun x => - f x) l) == - sumQ (map f l).
Proof.
  intros f l; induction l as [|x l IH]; simpl.
  - lra.
  - rewrite IH. lra.
Qed.

Lemma sumQ_map_zero {A} : forall (f : A -> Q) l,
  (forall x, In x l -> f x == 0) -> sumQ (map f l) == 0.
Proof.
  intros f l; induction l as [|x l IH]; intros H; simpl.
  - reflexivity.
  - rewrite (H x (or_introl eq_refl)), IH; [lra|]. intros y Hy; apply H; right; exact Hy.
Qed.

(* the sum over all keys, grouped per variable *)
Lemma sumQ_allkeys : forall (f : key -> Q) vars,
  sumQ (map f (allkeys vars)) ==
  sumQ (map (fun ov => sumQ (map (fun t => f (fst ov, t)) (snd ov))) vars).
Proof.
  intros f vars; induction vars as [|[o vals] vars IH]; simpl.
  - reflexivity.
  - unfold allkeys in *; simpl. rewrite map_app, sumQ_app, IH, map_map. reflexivity.
Qed.

(* ---------- the keys of a well-formed variable list ---------- *)

Lemma in_allkeys : forall vars (k : key),
  In k (allkeys vars) <-> exists vals, In (fst k, vals) vars /\ In (snd k) vals.
Proof.
  intros vars [o t]; unfold allkeys; rewrite in_flat_map; simpl. split.
  - intros [[o' vals] [Hin Hk]]; simpl in Hk. apply in_map_iff in Hk. destruct Hk as [t' [E Ht']].
    inversion E; subst. exists vals; split; assumption.
  - intros [vals [Hin Ht]]. exists (o, vals); split; [exact Hin|]. simpl. apply in_map_iff.
    exists t; split; [reflexivity|exact Ht].
Qed.

Lemma NoDup_allkeys : forall vars,
  NoDup (map fst vars) -> (forall o vals, In (o, vals) vars -> NoDup vals) -> NoDup (allkeys vars).
Proof.
  induction vars as [|[o vals] vars IH]; intros Hnd Hvals; simpl.
  - constructor.
  - unfold allkeys; simpl. fold (allkeys vars).
    simpl in Hnd. inversion Hnd as [|? ? Hnotin Hnd']; subst.
    assert (Hv : NoDup vals) by (apply (Hvals o); left; reflexivity).
    assert (Hrest : NoDup (allkeys vars)).
    { apply IH; [exact Hnd'|]. intros o' vals' Hin. apply (Hvals o'); right; exact Hin. }
    clear IH Hvals Hnd.
    induction vals as [|t vals IHv]; simpl.
    + exact Hrest.
    + inversion Hv as [|? ? Htn Hv']; subst. constructor.
      * intros Hin. apply in_app_or in Hin. destruct Hin as [Hin|Hin].
        -- apply in_map_iff in Hin. destruct Hin as [t' [E Ht']]. inversion E; subst. contradiction.
        -- apply in_allkeys in Hin. destruct Hin as [vals' [Hin _]]. simpl in Hin.
           apply Hnotin. apply in_map_iff. exists (o, vals'); split; [reflexivity|exact Hin].
      * apply IHv; exact Hv'.
Qed.

(* ---------- indicator sums over a duplicate-free key list ---------- *)

Definition ind (k k' : key) : Q := if key_eqb k k' then 1 else 0.

Lemma sum_ind_notin : forall (f : key -> Q) l k,
  ~ In k l -> sumQ (map (fun k' => f k' * ind k k') l) == 0.
Proof.
  intros f l k Hn. apply sumQ_map_zero. intros x Hx. unfold ind.
  rewrite key_eqb_neq; [lra|]. intros ->; contradiction.
Qed.

Lemma sum_ind_in : forall (f : key -> Q) l k,
  NoDup l -> In k l -> sumQ (map (fun k' => f k' * ind k k') l) == f k.
Proof.
  intros f l k; induction l as [|x l IH]; intros Hnd Hin; simpl.
  - destruct Hin.
  - inversion Hnd as [|? ? Hx Hnd']; subst. destruct Hin as [->|Hin].
    + rewrite (sum_ind_notin f l k Hx). unfold ind; rewrite key_eqb_refl. lra.
    + rewrite (IH Hnd' Hin). unfold ind. rewrite key_eqb_neq; [lra|].
      intros ->; contradiction.
Qed.

Lemma inject_touches : forall k e,
  inject_Z (Z.of_nat (touches k e)) == ind (e_k1 e) k + ind (e_k2 e) k.
Proof.
  intros k e; unfold touches, ind.
  destruct (key_eqb (e_k1 e) k), (key_eqb (e_k2 e) k); simpl; reflexivity.
Qed.

Lemma inject_cnt_cons : forall e es k,
  inject_Z (Z.of_nat (cnt (e :: es) k)) ==
  inject_Z (Z.of_nat (touches k e)) + inject_Z (Z.of_nat (cnt es k)).
Proof.
  intros e es k; simpl. rewrite Nat2Z.inj_add, inject_Z_plus. reflexivity.
Qed.

(* ---------- per-entry inequality ---------- *)

Lemma entry_bound : forall w Pe a1 b1 a2 b2 : Q,
  0 <= w -> w <= Pe ->
  (a1 == 0 \/ a1 == 1) -> (b1 == 0 \/ b1 == 1) -> (a2 == 0 \/ a2 == 1) -> (b2 == 0 \/ b2 == 1) ->
  a1 * b1 == 0 -> a2 * b2 == 0 ->
  - (Pe * (b1 + b2)) <= w * ((a1 - b1) * (a2 - b2)).
Proof.
  intros w Pe a1 b1 a2 b2 Hw0 HwP Ha1 Hb1 Ha2 Hb2 H1 H2.
  destruct Ha1 as [Ha1|Ha1], Hb1 as [Hb1|Hb1], Ha2 as [Ha2|Ha2], Hb2 as [Hb2|Hb2];
    rewrite ?Ha1, ?Hb1, ?Ha2, ?Hb2 in *; try lra.
Qed.

Section Charging.

  Variables a b : key -> Q.
  Hypothesis a01 : forall k, a k == 0 \/ a k == 1.
  Hypothesis b01 : forall k, b k == 0 \/ b k == 1.
  Hypothesis ab0 : forall k, a k * b k == 0.

  Variable Pe : Q.
  Hypothesis Pe_nonneg : 0 <= Pe.

  Variable es : list entry.
  Hypothesis es_w : forall e, In e es -> 0 <= e_w e /\ e_w e <= Pe.

  Variable vars : list (nat * list Z).      (* variable id, its values *)
  Hypothesis vars_nodup : NoDup (map fst vars).
  Hypothesis vals_nodup : forall o vals, In (o, vals) vars -> NoDup vals.

  Hypothesis endpoints : forall e, In e es ->
    (exists vals, In (fst (e_k1 e), vals) vars /\ In (snd (e_k1 e)) vals) /\
    (exists vals, In (fst (e_k2 e), vals) vars /\ In (snd (e_k2 e)) vals).

  Variable c : nat -> nat.
  Hypothesis c_bound : forall o vals t, In (o, vals) vars -> In t vals -> (cnt es (o, t) <= c o)%nat.

  Definition pair_energy : Q :=
    sumQ (map (fun e => e_w e * ((a (e_k1 e) - b (e_k1 e)) * (a (e_k2 e) - b (e_k2 e)))) es).
  (* number of anti-walls of variable o *)
  Definition anti (o : nat) (vals : list Z) : Q := sumQ (map (fun t => b (o, t)) vals).

  Let keys := allkeys vars.

  Lemma b_nonneg : forall k, 0 <= b k.
  Proof. intros k; destruct (b01 k) as [H|H]; rewrite H; lra. Qed.

  (* step 1 *)
  Lemma pair_energy_lower :
    - (Pe * sumQ (map (fun e => b (e_k1 e) + b (e_k2 e)) es)) <= pair_energy.
  Proof.
    unfold pair_energy. rewrite <- sumQ_map_scale_l, <- sumQ_map_opp.
    apply sumQ_map_le. intros e He. destruct (es_w e He) as [H0 H1].
    apply entry_bound; auto.
  Qed.

  (* step 2 : every endpoint is exactly one key; generalised over the entry list for the induction *)
  Lemma endpoint_sum_cnt : forall es',
    (forall e, In e es' -> In (e_k1 e) keys /\ In (e_k2 e) keys) ->
    sumQ (map (fun e => b (e_k1 e) + b (e_k2 e)) es') ==
    sumQ (map (fun k => b k * inject_Z (Z.of_nat (cnt es' k))) keys).
  Proof.
    assert (Hnd : NoDup keys) by (apply NoDup_allkeys; assumption).
    induction es' as [|e es' IH]; intros Hend.
    - simpl. symmetry. apply sumQ_map_zero. intros k _. unfold inject_Z; simpl. lra.
    - cbn [map sumQ fold_right]. fold (sumQ (map (fun e => b (e_k1 e) + b (e_k2 e)) es')).
      rewrite IH by (intros e' He'; apply Hend; right; exact He').
      destruct (Hend e (or_introl eq_refl)) as [H1 H2].
      rewrite (sumQ_map_ext (fun k => b k * inject_Z (Z.of_nat (cnt (e :: es') k)))
                 (fun k => (b k * ind (e_k1 e) k + b k * ind (e_k2 e) k)
                           + b k * inject_Z (Z.of_nat (cnt es' k)))).
      2:{ intros k _. rewrite inject_cnt_cons, inject_touches. lra. }
      rewrite sumQ_map_plus, sumQ_map_plus.
      rewrite (sum_ind_in b keys (e_k1 e) Hnd H1), (sum_ind_in b keys (e_k2 e) Hnd H2).
      reflexivity.
  Qed.

  Lemma endpoints_keys : forall e, In e es -> In (e_k1 e) keys /\ In (e_k2 e) keys.
  Proof.
    intros e He. destruct (endpoints e He) as [H1 H2]. split; apply in_allkeys; assumption.
  Qed.

  (* step 3 *)
  Lemma cnt_sum_le :
    sumQ (map (fun k => b k * inject_Z (Z.of_nat (cnt es k))) keys) <=
    sumQ (map (fun ov => inject_Z (Z.of_nat (c (fst ov))) * anti (fst ov) (snd ov)) vars).
  Proof.
    apply Qle_trans with (sumQ (map (fun k => inject_Z (Z.of_nat (c (fst k))) * b k) keys)).
    - apply sumQ_map_le. intros [o t] Hk. apply in_allkeys in Hk. destruct Hk as [vals [Hin Ht]].
      simpl in Hin, Ht. simpl fst.
      assert (Hc := c_bound o vals t Hin Ht).
      assert (HcQ : inject_Z (Z.of_nat (cnt es (o, t))) <= inject_Z (Z.of_nat (c o))).
      { rewrite <- Zle_Qle. apply Nat2Z.inj_le. exact Hc. }
      assert (Hb := b_nonneg (o, t)). nra.
    - unfold keys. rewrite sumQ_allkeys. apply Qle_lteq; right.
      apply sumQ_map_ext. intros [o vals] _. simpl. unfold anti.
      rewrite sumQ_map_scale_l. reflexivity.
  Qed.

  Theorem charging :
    - (Pe * sumQ (map (fun ov => inject_Z (Z.of_nat (c (fst ov))) * anti (fst ov) (snd ov)) vars))
    <= pair_energy.
  Proof.
    apply Qle_trans with (- (Pe * sumQ (map (fun e => b (e_k1 e) + b (e_k2 e)) es))).
    - assert (H := cnt_sum_le). rewrite <- (endpoint_sum_cnt es endpoints_keys) in H.
      nra.
    - apply pair_energy_lower.
  Qed.

End Charging.

(* ---------- alternating wall / anti-wall sums ---------- *)

Fixpoint wsum (kappa : nat -> Q) (prev : bool) (i : nat) (l : list bool) : Q :=
  match l with
  | [] => if prev then kappa i else 0         (* virtual trailing 0: a wall iff the last bit is 1 *)
  | x :: r => (if prev && negb x then kappa i else 0) - (if negb prev && x then kappa i else 0)
              + wsum kappa x (S i) r
  end.

Section Alternating.

  Variable kappa : nat -> Q.
  Hypothesis kappa_nonneg : forall i, 0 <= kappa i.
  Hypothesis kappa_mono : forall i j, (i <= j)%nat -> kappa i <= kappa j.

  Lemma wsum_nonneg_sec : forall l i, kappa i <= wsum kappa true i l /\ 0 <= wsum kappa false i l.
  Proof.
    induction l as [|x r IH]; intros i; simpl.
    - split; lra.
    - destruct (IH (S i)) as [Ht Hf].
      assert (Hm : kappa i <= kappa (S i)) by (apply kappa_mono; lia).
      assert (H0 := kappa_nonneg i).
      destruct x; simpl; split; lra.
  Qed.

  Variable M : Q.
  Hypothesis kappa_le : forall i, kappa i <= M.

  Lemma wsum_upper_strong_sec : forall l i,
    wsum kappa true i l <= M /\ wsum kappa false i l <= M - kappa i.
  Proof.
    induction l as [|x r IH]; intros i; simpl.
    - assert (H := kappa_le i). split; lra.
    - destruct (IH (S i)) as [Ht Hf].
      assert (Hm : kappa i <= kappa (S i)) by (apply kappa_mono; lia).
      assert (H := kappa_le i).
      destruct x; simpl; split; lra.
  Qed.

End Alternating.

Lemma wsum_nonneg : forall kappa, (forall i, 0 <= kappa i) -> (forall i j, (i <= j)%nat -> kappa i <= kappa j) ->
  forall l i, kappa i <= wsum kappa true i l /\ 0 <= wsum kappa false i l.
Proof. intros kappa H0 Hm. apply wsum_nonneg_sec; assumption. Qed.

(* stronger form, the induction invariant: from state "false" the first event is an anti-wall *)
Lemma wsum_upper_strong : forall kappa M,
  (forall i j, (i <= j)%nat -> kappa i <= kappa j) -> (forall i, kappa i <= M) ->
  forall l i, wsum kappa true i l <= M /\ wsum kappa false i l <= M - kappa i.
Proof. intros kappa M Hm HM. apply wsum_upper_strong_sec; assumption. Qed.

Lemma wsum_upper : forall kappa M,
  (forall i, 0 <= kappa i) -> (forall i j, (i <= j)%nat -> kappa i <= kappa j) -> (forall i, kappa i <= M) ->
  forall l i, wsum kappa true i l <= M /\ wsum kappa false i l <= M.
Proof.
  intros kappa M H0 Hm HM l i. destruct (wsum_upper_strong kappa M Hm HM l i) as [Ht Hf].
  assert (H := H0 i). split; lra.
Qed.

Print Assumptions charging.
Print Assumptions wsum_nonneg.
Print Assumptions wsum_upper.
