(* The pairs the overlap loop of the encoder visits (per machine, itertools.combinations of the machine's
   operations in insertion order) are, up to order, exactly the same-machine pairs of combinations(vars, 2). *)
From QV Require Import Jssp.Encoder.
From Coq Require Import Sorting.Permutation Lia.
From Coq Require Import QArith Lqa.
Open Scope list_scope.

Definition same_machine (ab : dwvar * dwvar) : bool :=
  String.eqb (op_machine (v_op (fst ab))) (op_machine (v_op (snd ab))).

Definition machine_pairs (vars : list dwvar) : list (dwvar * dwvar) :=
  concat (map (fun ml => if (length (snd ml) <? 2)%nat then [] else combs2 (snd ml)) (machine_ops vars)).

(* ------------------------------------------------------------------ generic list facts *)
Lemma combs2_short : forall {A} (l : list A), (length l < 2)%nat -> combs2 l = [].
Proof.
  intros A l H. destruct l as [|x [|y r]]; simpl in *; try reflexivity. lia.
Qed.

Lemma combs2_snoc_perm : forall {A} (l : list A) (v : A),
  Permutation (combs2 (l ++ [v])) (combs2 l ++ map (fun x => (x, v)) l).
Proof.
  intros A l v. induction l as [|x r IH]; simpl.
  - constructor.
  - rewrite map_app. simpl.
    rewrite <- !app_assoc.
    apply Permutation_app_head.
    change ((x, v) :: combs2 (r ++ [v])) with ([(x, v)] ++ combs2 (r ++ [v])).
    change ((x, v) :: map (fun x0 => (x0, v)) r) with ([(x, v)] ++ map (fun x0 => (x0, v)) r).
    rewrite IH.
    rewrite !app_assoc. apply Permutation_app_tail.
    apply Permutation_app_comm.
Qed.

Lemma combs2_In : forall {A} (l : list A) a b, In (a, b) (combs2 l) -> In a l /\ In b l.
Proof.
  intros A l. induction l as [|x r IH]; simpl; intros a b H.
  - contradiction.
  - apply in_app_or in H. destruct H as [H|H].
    + apply in_map_iff in H. destruct H as [y [E Hy]]. inversion E; subst. auto.
    + apply IH in H. tauto.
Qed.

Lemma Permutation_filter_ : forall {A} (p : A -> bool) (l l' : list A),
  Permutation l l' -> Permutation (filter p l) (filter p l').
Proof.
  intros A p l l' H. induction H; simpl.
  - constructor.
  - destruct (p x); auto.
  - destruct (p x), (p y); auto. constructor.
  - eapply Permutation_trans; eauto.
Qed.

(* ------------------------------------------------------------------ the machine dict *)
Definition mach (v : dwvar) : string := op_machine (v_op v).

(* dict look-up (first entry with the key), [] for a missing key *)
Fixpoint mo_lookup (m : string) (mo : list (string * list dwvar)) : list dwvar :=
  match mo with
  | [] => []
  | (m', l) :: r => if String.eqb m' m then l else mo_lookup m r
  end.

Lemma machine_ops_snoc : forall vars v, machine_ops (vars ++ [v]) = mo_add v (machine_ops vars).
Proof.
  intros vars v. unfold machine_ops. rewrite fold_left_app. reflexivity.
Qed.

Lemma mo_lookup_add : forall v m mo,
  mo_lookup m (mo_add v mo) = if String.eqb m (mach v) then mo_lookup m mo ++ [v] else mo_lookup m mo.
Proof.
  intros v m mo. induction mo as [|[m' l] r IH]; simpl.
  - fold (mach v). rewrite (String.eqb_sym (mach v) m). destruct (String.eqb m (mach v)); reflexivity.
  - fold (mach v). destruct (String.eqb m' (mach v)) eqn:E1; simpl.
    + apply String.eqb_eq in E1. subst m'.
      rewrite (String.eqb_sym (mach v) m). destruct (String.eqb m (mach v)); reflexivity.
    + destruct (String.eqb m' m) eqn:E2.
      * apply String.eqb_eq in E2. subst m'. rewrite E1. reflexivity.
      * exact IH.
Qed.

Lemma mo_lookup_machine_ops : forall vars m,
  mo_lookup m (machine_ops vars) = filter (fun x => String.eqb m (mach x)) vars.
Proof.
  intros vars. induction vars as [|v vars IH] using rev_ind; intros m.
  - reflexivity.
  - rewrite machine_ops_snoc, mo_lookup_add, filter_app, IH. simpl.
    destruct (String.eqb m (mach v)); [reflexivity | rewrite app_nil_r; reflexivity].
Qed.

Definition mo_good (vars : list dwvar) (mo : list (string * list dwvar)) : Prop :=
  forall m l, In (m, l) mo -> forall v, In v l -> In v vars /\ mach v = m.

Lemma mo_good_add : forall vars v mo, mo_good vars mo -> mo_good (vars ++ [v]) (mo_add v mo).
Proof.
  intros vars v mo. induction mo as [|[m' l'] r IH]; intros G m l Hin w Hw.
  - simpl in Hin. destruct Hin as [E|[]]. inversion E; subst. simpl in Hw. destruct Hw as [->|[]].
    split; [apply in_or_app; right; left; reflexivity | reflexivity].
  - simpl in Hin. fold (mach v) in Hin. destruct (String.eqb m' (mach v)) eqn:E1.
    + apply String.eqb_eq in E1. destruct Hin as [E|Hin].
      * inversion E; subst. apply in_app_or in Hw. destruct Hw as [Hw|[->|[]]].
        -- destruct (G (mach v) l' (or_introl eq_refl) w Hw) as [H1 H2].
           split; [apply in_or_app; left; exact H1 | exact H2].
        -- split; [apply in_or_app; right; left; reflexivity | reflexivity].
      * destruct (G m l (or_intror Hin) w Hw) as [H1 H2].
        split; [apply in_or_app; left; exact H1 | exact H2].
    + destruct Hin as [E|Hin].
      * inversion E; subst.
        destruct (G m l (or_introl eq_refl) w Hw) as [H1 H2].
        split; [apply in_or_app; left; exact H1 | exact H2].
      * apply (IH (fun m0 l0 H0 => G m0 l0 (or_intror H0)) m l Hin w Hw).
Qed.

Lemma machine_ops_members : forall vars m l, In (m, l) (machine_ops vars) ->
  forall v, In v l -> In v vars /\ op_machine (v_op v) = m.
Proof.
  intros vars. induction vars as [|v vars IH] using rev_ind.
  - intros m l H. contradiction.
  - rewrite machine_ops_snoc. apply (mo_good_add vars v (machine_ops vars)). exact IH.
Qed.

(* ------------------------------------------------------------------ pairs per group *)
Definition group_pairs (ml : string * list dwvar) : list (dwvar * dwvar) :=
  if (length (snd ml) <? 2)%nat then [] else combs2 (snd ml).

Lemma group_pairs_eq : forall ml, group_pairs ml = combs2 (snd ml).
Proof.
  intros ml. unfold group_pairs. destruct (Nat.ltb_spec (length (snd ml)) 2) as [H|H].
  - symmetry. apply combs2_short. exact H.
  - reflexivity.
Qed.

Lemma pairs_add_perm : forall v mo,
  Permutation (concat (map group_pairs (mo_add v mo)))
              (concat (map group_pairs mo) ++ map (fun x => (x, v)) (mo_lookup (mach v) mo)).
Proof.
  intros v mo. induction mo as [|[m l] r IH]; simpl.
  - constructor.
  - fold (mach v). destruct (String.eqb m (mach v)) eqn:E; simpl.
    + rewrite !group_pairs_eq. simpl.
      rewrite combs2_snoc_perm.
      rewrite <- !app_assoc. apply Permutation_app_head. apply Permutation_app_comm.
    + rewrite IH. rewrite <- app_assoc. reflexivity.
Qed.

Lemma filter_same_machine_map : forall v l,
  filter same_machine (map (fun x => (x, v)) l) = map (fun x => (x, v)) (filter (fun x => String.eqb (mach v) (mach x)) l).
Proof.
  intros v l. induction l as [|x r IH]; simpl.
  - reflexivity.
  - unfold same_machine at 1. simpl. fold (mach x) (mach v).
    rewrite (String.eqb_sym (mach x) (mach v)).
    destruct (String.eqb (mach v) (mach x)); simpl; rewrite IH; reflexivity.
Qed.

Theorem machine_pairs_perm : forall vars,
  Permutation (machine_pairs vars) (filter same_machine (combs2 vars)).
Proof.
  intros vars. unfold machine_pairs. fold group_pairs.
  induction vars as [|v vars IH] using rev_ind.
  - simpl. constructor.
  - rewrite machine_ops_snoc.
    rewrite pairs_add_perm.
    rewrite (Permutation_filter_ same_machine _ _ (combs2_snoc_perm vars v)).
    rewrite filter_app, filter_same_machine_map, mo_lookup_machine_ops.
    apply Permutation_app_tail. exact IH.
Qed.

(* ------------------------------------------------------------------ corollaries *)
Lemma machine_pairs_In : forall vars a b,
  In (a, b) (machine_pairs vars) <-> (In (a, b) (combs2 vars) /\ same_machine (a, b) = true).
Proof.
  intros vars a b. rewrite <- filter_In. split; intros H.
  - eapply Permutation_in; [apply machine_pairs_perm | exact H].
  - eapply Permutation_in; [apply Permutation_sym, machine_pairs_perm | exact H].
Qed.

Lemma machine_pairs_members : forall vars a b, In (a, b) (machine_pairs vars) -> In a vars /\ In b vars.
Proof.
  intros vars a b H. apply machine_pairs_In in H. destruct H as [H _]. apply combs2_In. exact H.
Qed.

Definition qsum {A} (f : A -> Q) (l : list A) : Q := fold_right (fun x acc => (f x + acc)%Q) 0%Q l.

Lemma qsum_perm : forall {A} (f : A -> Q) (l l' : list A), Permutation l l' -> qsum f l == qsum f l'.
Proof.
  intros A f l l' H. induction H; simpl.
  - reflexivity.
  - rewrite IHPermutation. reflexivity.
  - fold (qsum f l). lra.
  - rewrite IHPermutation1. exact IHPermutation2.
Qed.

Lemma qsum_filter : forall {A} (f : A -> Q) (p : A -> bool) (l : list A),
  qsum f (filter p l) == qsum (fun x => if p x then f x else 0%Q) l.
Proof.
  intros A f p l. induction l as [|x r IH]; simpl.
  - reflexivity.
  - destruct (p x); simpl; rewrite IH; lra.
Qed.

Lemma sum_machine_pairs : forall (f : dwvar * dwvar -> Q) vars,
  fold_right (fun ab acc => (f ab + acc)%Q) 0%Q (machine_pairs vars)
  == fold_right (fun ab acc => ((if same_machine ab then f ab else 0) + acc)%Q) 0%Q (combs2 vars).
Proof.
  intros f vars.
  change (qsum f (machine_pairs vars) == qsum (fun ab => if same_machine ab then f ab else 0%Q) (combs2 vars)).
  rewrite (qsum_perm f _ _ (machine_pairs_perm vars)).
  apply qsum_filter.
Qed.

Print Assumptions machine_pairs_perm.
Print Assumptions sum_machine_pairs.
