(* Operator expressions as the encoder builds them (pauli_identity_string, pauli_z_string, scalar *, +/-,
   compose, SparsePauliOp.sum) and their meaning on a computational basis state.  Definitions only.
   All operators built here are diagonal (products and sums of I and Z), a diagonal operator is its diagonal:
   [eval e b] is the eigenvalue of [e] on the basis state whose qubit q holds bit [b q]. *)
From QV Require Export Common.Base.
From Coq Require Export QArith Qabs.
Open Scope Q_scope.

Inductive opexpr : Type :=
| OpI                               (* SparsePauliOp("I"*n) *)
| OpZ (q : nat)                     (* one Z on qubit q, identities elsewhere *)
| OpScale (c : Q) (e : opexpr)      (* c * op, op * c *)
| OpAdd (a b : opexpr)              (* a + b ;  a - b is OpAdd a (OpScale (-1) b) *)
| OpMul (a b : opexpr)              (* a.compose(b) *)
| OpSum (es : list opexpr).         (* SparsePauliOp.sum(es) *)

Definition OpSub (a b : opexpr) : opexpr := OpAdd a (OpScale (-1) b).

(* eigenvalue of Z on |0> is +1, on |1> is -1 *)
Definition zsign (x : bool) : Q := if x then -1 else 1.

Fixpoint eval (e : opexpr) (b : nat -> bool) : Q :=
  match e with
  | OpI => 1
  | OpZ q => zsign (b q)
  | OpScale c e' => c * eval e' b
  | OpAdd x y => eval x b + eval y b
  | OpMul x y => eval x b * eval y b
  | OpSum es => fold_right (fun e' acc => eval e' b + acc) 0 es
  end.

(* same value, fractions kept in lowest terms (used when the model is executed) *)
Fixpoint eval_red (e : opexpr) (b : nat -> bool) : Q :=
  match e with
  | OpI => 1
  | OpZ q => zsign (b q)
  | OpScale c e' => Qred (c * eval_red e' b)
  | OpAdd x y => Qred (eval_red x b + eval_red y b)
  | OpMul x y => Qred (eval_red x b * eval_red y b)
  | OpSum es => fold_right (fun e' acc => Qred (eval_red e' b + acc)) 0 es
  end.

(* every Z sits on a qubit below n *)
Fixpoint qubits_below (n : nat) (e : opexpr) : bool :=
  match e with
  | OpI => true
  | OpZ q => (q <? n)%nat
  | OpScale _ e' => qubits_below n e'
  | OpAdd x y => qubits_below n x && qubits_below n y
  | OpMul x y => qubits_below n x && qubits_below n y
  | OpSum es => forallb (qubits_below n) es
  end.

(* ------------------------------------------------------------------ multilinear normal form
   A monomial is the (increasing) list of qubits carrying a Z; Z*Z = I.  Used only for the term-by-term comparison
   with the implementation's operator; no property theorem depends on it. *)
Definition mono : Type := list nat.
Definition poly : Type := list (mono * Q).

Fixpoint mono_mul (l1 : mono) : mono -> mono :=
  match l1 with
  | [] => fun l2 => l2
  | x :: xs =>
      fix aux (l2 : mono) : mono :=
        match l2 with
        | [] => l1
        | y :: ys => if (x <? y)%nat then x :: mono_mul xs l2
                     else if (y <? x)%nat then y :: aux ys
                     else mono_mul xs ys
        end
  end.

Definition mono_eqb (a b : mono) : bool := list_eqb Nat.eqb a b.

Fixpoint poly_add1 (m : mono) (c : Q) (p : poly) : poly :=
  match p with
  | [] => [(m, c)]
  | (m', c') :: r => if mono_eqb m m' then (m', Qred (c' + c)) :: r else (m', c') :: poly_add1 m c r
  end.

Definition poly_add (p1 p2 : poly) : poly := fold_left (fun acc mc => poly_add1 (fst mc) (snd mc) acc) p2 p1.
Definition poly_scale (c : Q) (p : poly) : poly := map (fun mc => (fst mc, Qred (c * snd mc))) p.
Definition poly_mul (p1 p2 : poly) : poly :=
  fold_left (fun acc mc1 =>
    fold_left (fun acc' mc2 => poly_add1 (mono_mul (fst mc1) (fst mc2)) (Qred (snd mc1 * snd mc2)) acc') p2 acc) p1 [].

Fixpoint normalize (e : opexpr) : poly :=
  match e with
  | OpI => [([], 1)]
  | OpZ q => [([q], 1)]
  | OpScale c e' => poly_scale c (normalize e')
  | OpAdd x y => poly_add (normalize x) (normalize y)
  | OpMul x y => poly_mul (normalize x) (normalize y)
  | OpSum es => fold_left (fun acc e' => poly_add acc (normalize e')) es []
  end.

Definition eval_mono (m : mono) (b : nat -> bool) : Q := fold_right (fun q acc => zsign (b q) * acc) 1 m.
Definition eval_nf (p : poly) (b : nat -> bool) : Q := fold_right (fun mc acc => snd mc * eval_mono (fst mc) b + acc) 0 p.

Definition poly_coef (m : mono) (p : poly) : Q :=
  match find (fun mc => mono_eqb m (fst mc)) p with Some mc => snd mc | None => 0 end.

(* |c1(m) - c2(m)| <= tol for every monomial of either polynomial *)
Definition poly_close (tol : Q) (p1 p2 : poly) : bool :=
  forallb (fun mc => Qle_bool (Qabs (snd mc - poly_coef (fst mc) p2)) tol) p1
  && forallb (fun mc => Qle_bool (Qabs (snd mc - poly_coef (fst mc) p1)) tol) p2.
