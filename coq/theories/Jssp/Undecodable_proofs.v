From QV Require Import Jssp.EncoderPure Jssp.DomainWall_proofs Jssp.Charging Jssp.Grouping_proofs.
From Coq Require Import Lqa Lia.
(* C01, DESIGN.md Appendix A.2: on EVERY computational basis state b the energy of the job-shop Hamiltonian (in its
   numeric form energy_val of EncoderPure.v) is at least
       p_enc * sum over the variables v of (c_v + 2) * (number of anti-walls of v on b),   c_v = max_count (counts_p e) v,
   hence at least 2 * p_enc as soon as one domain-wall variable is undecodable (has an anti-wall).
   Route: (1) the optimisation part is >= 0 on every state (alternating sums of Charging.v);
          (2) the two pair sums are the pair energy of a list of weighted entries (Charging.entry);
          (3) the encoder's count table is the number of entries touching a key;
          (4) Charging.charging bounds the pair part from below by - p_enc * sum c_v * A_v;
          (5) the viability part is p_enc * sum (c_v + 1) * 2 * A_v.
   Remark: the two sign conditions of struct_ok (values and durations >= 0) are not used by any proof below
   (Z.pow_le_mono_r needs no sign condition on the exponents); they are kept because the statement was fixed so. *)
Open Scope Z_scope.
Open Scope list_scope.

Definition struct_ok (e : enc) (L : Z) : Prop :=
  enc_wf e L /\ NoDup (map v_id (e_vars e))
  /\ (forall v t, In v (e_vars e) -> In t (v_values v) -> 0 <= t)
  /\ (forall v, In v (e_vars e) -> 0 <= v_dur v).

Definition pen_ok (P : penalties) : Prop :=
  (0 <= p_prec P /\ p_prec P <= p_enc P /\ 0 <= p_overlap P /\ p_overlap P <= p_enc P
   /\ 0 <= p_opt P /\ 0 <= p_share P /\ p_share P <= 1)%Q.

(* ------------------------------------------------------------------ generic facts *)
Lemma ud_sumQl_nonneg {A} (f : A -> Q) l : (forall x, In x l -> (0 <= f x)%Q) -> (0 <= sumQl (map f l))%Q.
Proof.
  induction l as [|x xs IH]; intros H; cbn [map sumQl fold_right]; [lra|].
  assert (H1 := H x (or_introl eq_refl)).
  assert (H2 : (0 <= sumQl (map f xs))%Q) by (apply IH; intros y Hy; apply H; right; exact Hy).
  unfold sumQl in H2. lra.
Qed.

Lemma ud_sum_ge_member {A} (f : A -> Q) l x :
  (forall y, In y l -> (0 <= f y)%Q) -> In x l -> (f x <= sumQl (map f l))%Q.
Proof.
  induction l as [|y ys IH]; intros H Hin; [contradiction|]. cbn [map sumQl fold_right].
  assert (H1 := H y (or_introl eq_refl)).
  assert (H2 : (0 <= sumQl (map f ys))%Q) by (apply ud_sumQl_nonneg; intros z Hz; apply H; right; exact Hz).
  unfold sumQl in *. destruct Hin as [->|Hin]; [lra|].
  assert (H3 : (f x <= fold_right Qplus 0 (map f ys))%Q) by (apply IH; [intros z Hz; apply H; right; exact Hz | exact Hin]).
  lra.
Qed.

Lemma ud_fold_sum {A} (f : A -> Q) l :
  fold_right (fun p acc => (f p + acc)%Q) 0%Q l = sumQl (map f l).
Proof. induction l as [|x xs IH]; [reflexivity|]. cbn [map sumQl fold_right]. rewrite IH. reflexivity. Qed.

Lemma ud_last_opt_In {A} : forall (l : list A) x, last_opt l = Some x -> In x l.
Proof.
  induction l as [|y ys IH]; intros x H; [discriminate|].
  destruct ys as [|z zs]; [inversion H; left; reflexivity|].
  right. apply IH. exact H.
Qed.

Lemma ud_row_vars e vs v : In vs (e_jobs e) -> In v vs -> In v (e_vars e).
Proof. intros H1 H2. unfold e_vars. apply in_concat. exists vs. split; assumption. Qed.

(* ------------------------------------------------------------------ one variable: positions *)
Lemma ud_vbit_neg v b : vbit v b (-1) = true.
Proof. reflexivity. Qed.

Lemma ud_vbit_end v b : vbit v b (Z.of_nat (var_nq v)) = false.
Proof.
  unfold vbit. destruct (Z.ltb_spec (Z.of_nat (var_nq v)) 0); [lia|].
  destruct (Z.ltb_spec (Z.of_nat (var_nq v)) (Z.of_nat (var_nq v))); [lia | reflexivity].
Qed.

Lemma ud_vbit_mid v b k : (k < var_nq v)%nat -> vbit v b (Z.of_nat k) = b (v_start v + k)%nat.
Proof.
  intros H. unfold vbit. destruct (Z.ltb_spec (Z.of_nat k) 0); [lia|].
  destruct (Z.ltb_spec (Z.of_nat k) (Z.of_nat (var_nq v))); [|lia]. rewrite Nat2Z.id. reflexivity.
Qed.

(* the weighted sum of the value-term eigenvalues over the positions k .. var_nq v is the alternating sum of
   Charging.v over the remaining bits *)
Lemma ud_positions_wsum_gen v b (kappa : nat -> Q) : forall m k, (k + m = var_nq v)%nat ->
  (sumQl (map (fun p => kappa p * vt_val v b p) (seq k (S m)))
   == wsum kappa (vbit v b (Z.of_nat k - 1)) k (map (fun i => b (v_start v + i)%nat) (seq k m)))%Q.
Proof.
  induction m as [|m IH]; intros k Hk.
  - cbn [seq map sumQl fold_right wsum]. unfold vt_val, wall, antiwall.
    replace k with (var_nq v) by lia. rewrite ud_vbit_end.
    destruct (vbit v b (Z.of_nat (var_nq v) - 1)); cbn [negb andb Energy.ind]; lra.
  - change (seq k (S (S m))) with (k :: seq (S k) (S m)).
    change (seq k (S m)) with (k :: seq (S k) m).
    cbn [map sumQl fold_right wsum].
    fold (sumQl (map (fun p => kappa p * vt_val v b p)%Q (seq (S k) (S m)))).
    rewrite (IH (S k)) by lia.
    replace (Z.of_nat (S k) - 1) with (Z.of_nat k) by lia.
    unfold vt_val, wall, antiwall. rewrite (ud_vbit_mid v b k) by lia.
    destruct (vbit v b (Z.of_nat k - 1)), (b (v_start v + k)%nat); cbn [negb andb Energy.ind]; lra.
Qed.

Lemma ud_positions_wsum v b kappa :
  (sumQl (map (fun p => kappa p * vt_val v b p) (seq 0 (S (var_nq v))))
   == wsum kappa true 0 (map (fun i => b (v_start v + i)%nat) (seq 0 (var_nq v))))%Q.
Proof. apply (ud_positions_wsum_gen v b kappa (var_nq v) 0%nat). lia. Qed.

Lemma ud_positions_nonneg v b kappa :
  (forall i, (0 <= kappa i)%Q) -> (forall i j, (i <= j)%nat -> (kappa i <= kappa j)%Q) ->
  (0 <= sumQl (map (fun p => kappa p * vt_val v b p) (seq 0 (S (var_nq v)))))%Q.
Proof.
  intros H0 Hm. rewrite ud_positions_wsum.
  destruct (wsum_nonneg kappa H0 Hm (map (fun i => b (v_start v + i)%nat) (seq 0 (var_nq v))) 0%nat) as [H _].
  specialize (H0 0%nat). lra.
Qed.

(* ------------------------------------------------------------------ values and positions of a contiguous variable *)
Lemma ud_values_length v a N : v_values v = zrange a N -> (1 <= List.length (v_values v))%nat ->
  Z.to_nat N = S (var_nq v).
Proof. intros E H. unfold var_nq. rewrite E in *. rewrite zrange_length in *. lia. Qed.

Lemma ud_idx_zrange v a N k : v_values v = zrange a N -> (k < Z.to_nat N)%nat -> idx v (a + Z.of_nat k) = k.
Proof.
  intros E H. unfold idx. rewrite E. rewrite index_of_zrange by lia. lia.
Qed.

Lemma ud_values_positions {B} v a N (G : Z -> nat -> B) :
  v_values v = zrange a N -> (1 <= List.length (v_values v))%nat ->
  map (fun t => G t (idx v t)) (v_values v) = map (fun k => G (a + Z.of_nat k) k) (seq 0 (S (var_nq v))).
Proof.
  intros E H. rewrite <- (ud_values_length v a N E H).
  rewrite E. unfold zrange. rewrite map_map. apply map_ext_in.
  intros k Hk. apply in_seq in Hk. rewrite (ud_idx_zrange v a N k E) by lia. reflexivity.
Qed.

Lemma ud_enumerate_zrange a N : enumerate (zrange a N) = map (fun k => (k, a + Z.of_nat k)) (seq 0 (Z.to_nat N)).
Proof.
  unfold enumerate. rewrite zrange_length. unfold zrange.
  generalize (seq 0 (Z.to_nat N)). induction l as [|x xs IH]; [reflexivity|]. cbn [map combine]. rewrite IH. reflexivity.
Qed.

(* ------------------------------------------------------------------ coefficients *)
Lemma ud_mk_coef_nonneg J L t : 0 <= J -> (0 <= mk_coef J L t)%Q.
Proof.
  intros HJ. unfold mk_coef.
  assert (H1 : (0 <= inject_Z (J * (J + 1) ^ L))%Q).
  { change 0%Q with (inject_Z 0). rewrite <- Zle_Qle. apply Z.mul_nonneg_nonneg; [lia|]. apply Z.pow_nonneg. lia. }
  assert (H2 : (0 <= inject_Z ((J + 1) ^ t))%Q).
  { change 0%Q with (inject_Z 0). rewrite <- Zle_Qle. apply Z.pow_nonneg. lia. }
  apply Qinv_le_0_compat in H1. unfold Qdiv. nra.
Qed.

Lemma ud_mk_coef_mono J L t1 t2 : 0 <= J -> t1 <= t2 -> (mk_coef J L t1 <= mk_coef J L t2)%Q.
Proof.
  intros HJ Ht. unfold mk_coef.
  assert (H1 : (0 <= inject_Z (J * (J + 1) ^ L))%Q).
  { change 0%Q with (inject_Z 0). rewrite <- Zle_Qle. apply Z.mul_nonneg_nonneg; [lia|]. apply Z.pow_nonneg. lia. }
  assert (H2 : (inject_Z ((J + 1) ^ t1) <= inject_Z ((J + 1) ^ t2))%Q).
  { rewrite <- Zle_Qle. apply Z.pow_le_mono_r; lia. }
  apply Qinv_le_0_compat in H1. unfold Qdiv. nra.
Qed.

Lemma ud_early_coef_zero maxv : (early_coef maxv 0 == 0)%Q.
Proof. unfold early_coef. change (inject_Z (Z.of_nat 0)) with 0%Q. lra. Qed.

Lemma ud_early_coef_mono maxv i j : 0 <= maxv -> (i <= j)%nat -> (early_coef maxv i <= early_coef maxv j)%Q.
Proof.
  intros Hm Hij. unfold early_coef.
  assert (H1 : (0 <= inject_Z maxv)%Q) by (change 0%Q with (inject_Z 0); rewrite <- Zle_Qle; exact Hm).
  assert (H2 : (inject_Z (Z.of_nat i) <= inject_Z (Z.of_nat j))%Q) by (rewrite <- Zle_Qle; lia).
  apply Qinv_le_0_compat in H1. unfold Qdiv. nra.
Qed.

Lemma ud_early_coef_nonneg maxv i : 0 <= maxv -> (0 <= early_coef maxv i)%Q.
Proof.
  intros Hm. rewrite <- (ud_early_coef_zero maxv). apply ud_early_coef_mono; [exact Hm | lia].
Qed.

(* ------------------------------------------------------------------ the optimisation part of one variable *)
Lemma ud_makespan_var_nonneg v b J L : 0 <= J -> contiguous v -> (1 <= List.length (v_values v))%nat ->
  (0 <= sumQl (map (fun t => (mk_coef J L (t + v_dur v) * vt_val v b (idx v t))%Q) (v_values v)))%Q.
Proof.
  intros HJ [a [N E]] Hlen.
  rewrite (ud_values_positions v a N (fun t p => (mk_coef J L (t + v_dur v) * vt_val v b p)%Q) E Hlen).
  apply (ud_positions_nonneg v b (fun k => mk_coef J L (a + Z.of_nat k + v_dur v))).
  - intros i. apply ud_mk_coef_nonneg. exact HJ.
  - intros i j Hij. apply ud_mk_coef_mono; [exact HJ | lia].
Qed.

Lemma ud_early_var_nonneg v b maxv : 0 <= maxv -> contiguous v -> (1 <= List.length (v_values v))%nat ->
  (0 <= sumQl (map (fun it => (early_coef maxv (fst it) * vt_val v b (idx v (snd it)))%Q) (tl (enumerate (v_values v)))))%Q.
Proof.
  intros Hm [a [N E]] Hlen.
  assert (HN := ud_values_length v a N E Hlen).
  assert (Q0 : (0 <= sumQl (map (fun k => early_coef maxv k * vt_val v b k) (seq 0 (S (var_nq v)))))%Q).
  { apply (ud_positions_nonneg v b (early_coef maxv)).
    - intros i. apply ud_early_coef_nonneg. exact Hm.
    - intros i j. apply ud_early_coef_mono. exact Hm. }
  rewrite E. rewrite ud_enumerate_zrange, HN.
  change (seq 0 (S (var_nq v))) with (0%nat :: seq 1 (var_nq v)) in *.
  cbn [map tl]. cbn [map sumQl fold_right] in Q0.
  fold (sumQl (map (fun k => (early_coef maxv k * vt_val v b k)%Q) (seq 1 (var_nq v)))) in Q0.
  rewrite (ud_early_coef_zero maxv) in Q0.
  rewrite map_map. cbn [fst snd].
  assert (EQ : map (fun x => (early_coef maxv x * vt_val v b (idx v (a + Z.of_nat x)))%Q) (seq 1 (var_nq v))
               = map (fun k => (early_coef maxv k * vt_val v b k)%Q) (seq 1 (var_nq v))).
  { apply map_ext_in. intros k Hk. apply in_seq in Hk. rewrite (ud_idx_zrange v a N k E) by lia. reflexivity. }
  rewrite EQ. lra.
Qed.

Lemma opt_val_nonneg : forall L e b, struct_ok e L -> (0 <= makespan_val e L b /\ 0 <= early_val e b)%Q.
Proof.
  intros L e b [[Hnq [HL [Hne [Hrows Hvars]]]] _]. split.
  - unfold makespan_val. cbv zeta. apply ud_sumQl_nonneg. intros vs Hvs.
    destruct (last_opt vs) as [v|] eqn:E; [|lra].
    apply ud_last_opt_In in E. destruct (Hvars v (ud_row_vars e vs v Hvs E)) as [[Hlen _] Hc].
    apply ud_makespan_var_nonneg; [lia | exact Hc | exact Hlen].
  - unfold early_val. cbv zeta. apply ud_sumQl_nonneg. intros v Hv.
    destruct (Hvars v Hv) as [[Hlen _] Hc].
    apply ud_early_var_nonneg; [lia | exact Hc | exact Hlen].
Qed.

(* ------------------------------------------------------------------ the plans only mention variables and values of e *)
Definition ud_plan_ok (e : enc) (p : pterm) : Prop :=
  match p with
  | PZero => True
  | PPairs v1 v2 pairs => In v1 (e_vars e) /\ In v2 (e_vars e)
      /\ forall st, In st pairs -> In (fst st) (v_values v1) /\ In (snd st) (v_values v2)
  end.

Lemma ud_prec_pairs_In v1 v2 st : In st (prec_pairs v1 v2) -> In (fst st) (v_values v1) /\ In (snd st) (v_values v2).
Proof.
  unfold prec_pairs. intros H. apply filter_In in H as [H _]. destruct st as [s t]. apply in_prod_iff in H. exact H.
Qed.

Lemma ud_overlap_pairs_In v1 v2 st : In st (overlap_pairs v1 v2) -> In (fst st) (v_values v1) /\ In (snd st) (v_values v2).
Proof.
  unfold overlap_pairs. intros H. apply filter_In in H as [H _]. destruct st as [s t]. apply in_prod_iff in H. exact H.
Qed.

Lemma ud_consecutive_In {A} : forall (l : list A) a b, In (a, b) (consecutive l) -> In a l /\ In b l.
Proof.
  induction l as [|x r IH]; intros a b H; [contradiction|].
  destruct r as [|y r']; [contradiction|].
  change (consecutive (x :: y :: r')) with ((x, y) :: consecutive (y :: r')) in H.
  destruct H as [H|H].
  - inversion H; subst. split; [left; reflexivity | right; left; reflexivity].
  - apply IH in H. destruct H as [H1 H2]. split; right; assumption.
Qed.

Lemma ud_prec_var_pairs_members e a b : In (a, b) (prec_var_pairs e) -> In a (e_vars e) /\ In b (e_vars e).
Proof.
  unfold prec_var_pairs. intros H. apply in_concat in H as [l [Hl Hin]].
  apply in_map_iff in Hl as [vs [<- Hvs]]. apply ud_consecutive_In in Hin as [H1 H2].
  split; eapply ud_row_vars; eassumption.
Qed.

Lemma ud_overlap_var_pairs_members e a b : In (a, b) (overlap_var_pairs e) -> In a (e_vars e) /\ In b (e_vars e).
Proof. intros H. apply (machine_pairs_members (e_vars e) a b). exact H. Qed.

Lemma ud_prec_plans_ok e p : In p (prec_plans_p e) -> ud_plan_ok e p.
Proof.
  unfold prec_plans_p. intros H. apply in_map_iff in H as [[a c] [<- Hin]]. cbn [fst snd].
  apply ud_prec_var_pairs_members in Hin as [Ha Hc]. unfold prec_plan_p.
  destruct (vmax_p a + v_dur a <=? vmin_p c); [exact I|]. cbn [ud_plan_ok].
  split; [exact Ha|]. split; [exact Hc|]. apply ud_prec_pairs_In.
Qed.

Lemma ud_overlap_plans_ok e p : In p (overlap_plans_p e) -> ud_plan_ok e p.
Proof.
  unfold overlap_plans_p. intros H. apply in_map_iff in H as [[a c] [<- Hin]]. cbn [fst snd].
  apply ud_overlap_var_pairs_members in Hin as [Ha Hc]. unfold overlap_plan_p.
  destruct (vmax_p a + v_dur a <=? vmin_p c); [exact I|].
  destruct (vmax_p c + v_dur c <=? vmin_p a); [exact I|]. cbn [ud_plan_ok].
  split; [exact Ha|]. split; [exact Hc|]. apply ud_overlap_pairs_In.
Qed.

(* ------------------------------------------------------------------ the entries of Charging.v *)
Definition find_var (vars : list dwvar) (o : nat) : option dwvar := find (fun v => Nat.eqb (v_id v) o) vars.

Definition ud_a (vars : list dwvar) (b : nat -> bool) (k : key) : Q :=
  match find_var vars (fst k) with Some v => Energy.ind (wall v b (idx v (snd k))) | None => 0%Q end.
Definition ud_b (vars : list dwvar) (b : nat -> bool) (k : key) : Q :=
  match find_var vars (fst k) with Some v => Energy.ind (antiwall v b (idx v (snd k))) | None => 0%Q end.
Definition ud_c (vars : list dwvar) (f : ctable) (o : nat) : nat :=
  match find_var vars o with Some v => max_count f v | None => 0%nat end.

Definition plan_entries (w : Q) (p : pterm) : list entry :=
  match p with
  | PZero => []
  | PPairs v1 v2 pairs => map (fun st => (w, (v_id v1, fst st), (v_id v2, snd st))) pairs
  end.

Definition ud_entries (P : penalties) (e : enc) : list entry :=
  flat_map (plan_entries (p_prec P)) (prec_plans_p e) ++ flat_map (plan_entries (p_overlap P)) (overlap_plans_p e).

Lemma ud_find_var_In : forall vars v, NoDup (map v_id vars) -> In v vars -> find_var vars (v_id v) = Some v.
Proof.
  induction vars as [|x xs IH]; intros v Hnd Hin; [contradiction|].
  cbn [map] in Hnd. inversion Hnd as [|? ? Hnot Hnd']; subst. unfold find_var. cbn [find].
  destruct Hin as [->|Hin].
  - rewrite Nat.eqb_refl. reflexivity.
  - destruct (Nat.eqb_spec (v_id x) (v_id v)) as [E|_].
    + exfalso. apply Hnot. rewrite E. apply in_map. exact Hin.
    + apply IH; assumption.
Qed.

Lemma ud_a01 vars b k : (ud_a vars b k == 0 \/ ud_a vars b k == 1)%Q.
Proof. unfold ud_a. destruct (find_var vars (fst k)); [|left; reflexivity]. destruct (wall _ _ _); [right|left]; reflexivity. Qed.

Lemma ud_b01 vars b k : (ud_b vars b k == 0 \/ ud_b vars b k == 1)%Q.
Proof. unfold ud_b. destruct (find_var vars (fst k)); [|left; reflexivity]. destruct (antiwall _ _ _); [right|left]; reflexivity. Qed.

Lemma ud_ab0 vars b k : (ud_a vars b k * ud_b vars b k == 0)%Q.
Proof.
  unfold ud_a, ud_b. destruct (find_var vars (fst k)) as [v|]; [|lra].
  pose proof (wall_antiwall_excl v b (idx v (snd k))) as H.
  destruct (wall v b (idx v (snd k))), (antiwall v b (idx v (snd k))); try discriminate; cbn [Energy.ind]; lra.
Qed.

Lemma ud_ab_vt vars b v t : find_var vars (v_id v) = Some v ->
  (ud_a vars b (v_id v, t) - ud_b vars b (v_id v, t) == vt_val v b (idx v t))%Q.
Proof. intros H. unfold ud_a, ud_b. cbn [fst snd]. rewrite H. unfold vt_val. reflexivity. Qed.

(* ---- (2) the pair part is the pair energy of the entries *)
Lemma ud_pair_energy_app a b l1 l2 : (pair_energy a b (l1 ++ l2) == pair_energy a b l1 + pair_energy a b l2)%Q.
Proof. unfold pair_energy. rewrite map_app. apply sumQ_app. Qed.

Lemma ud_plan_energy e b w p : NoDup (map v_id (e_vars e)) -> ud_plan_ok e p ->
  (w * pairs_val b p == pair_energy (ud_a (e_vars e) b) (ud_b (e_vars e) b) (plan_entries w p))%Q.
Proof.
  intros Hnd Hok. destruct p as [|v1 v2 pairs].
  - unfold pair_energy. cbn. lra.
  - destruct Hok as [H1 [H2 _]]. cbn [pairs_val plan_entries]. unfold pair_energy. rewrite map_map.
    change sumQl with sumQ. rewrite <- sumQ_map_scale_l. apply sumQ_map_ext. intros st _.
    unfold e_w, e_k1, e_k2. cbn [fst snd].
    rewrite (ud_ab_vt (e_vars e) b v1 (fst st)) by (apply ud_find_var_In; assumption).
    rewrite (ud_ab_vt (e_vars e) b v2 (snd st)) by (apply ud_find_var_In; assumption).
    reflexivity.
Qed.

Lemma ud_plans_energy e b w : forall plans, NoDup (map v_id (e_vars e)) -> (forall p, In p plans -> ud_plan_ok e p) ->
  (w * sumQl (map (pairs_val b) plans)
   == pair_energy (ud_a (e_vars e) b) (ud_b (e_vars e) b) (flat_map (plan_entries w) plans))%Q.
Proof.
  induction plans as [|p ps IH]; intros Hnd Hok.
  - unfold pair_energy. cbn. lra.
  - cbn [map sumQl fold_right flat_map]. rewrite ud_pair_energy_app.
    rewrite <- (ud_plan_energy e b w p Hnd (Hok p (or_introl eq_refl))).
    rewrite <- IH by (try exact Hnd; intros q Hq; apply Hok; right; exact Hq).
    unfold sumQl. lra.
Qed.

Lemma ud_pairs_energy P e b : NoDup (map v_id (e_vars e)) ->
  (p_prec P * sumQl (map (pairs_val b) (prec_plans_p e)) + p_overlap P * sumQl (map (pairs_val b) (overlap_plans_p e))
   == pair_energy (ud_a (e_vars e) b) (ud_b (e_vars e) b) (ud_entries P e))%Q.
Proof.
  intros Hnd. unfold ud_entries. rewrite ud_pair_energy_app.
  rewrite <- (ud_plans_energy e b (p_prec P) (prec_plans_p e) Hnd (ud_prec_plans_ok e)).
  rewrite <- (ud_plans_energy e b (p_overlap P) (overlap_plans_p e) Hnd (ud_overlap_plans_ok e)).
  reflexivity.
Qed.

(* ---- (3) the count table is the number of entries touching a key *)
Lemma ud_cnt_app l1 l2 k : cnt (l1 ++ l2) k = (cnt l1 k + cnt l2 k)%nat.
Proof. induction l1 as [|x xs IH]; [reflexivity|]. unfold cnt in *. cbn [app fold_right]. rewrite IH. lia. Qed.

Lemma ud_bump_touches w id1 t1 id2 t2 (g : ctable) o t :
  ct_bump id2 t2 (ct_bump id1 t1 g) o t = (touches (o, t) (w, (id1, t1), (id2, t2)) + g o t)%nat.
Proof.
  unfold ct_bump, touches, key_eqb, e_k1, e_k2. cbn [fst snd].
  rewrite (Nat.eqb_sym id1 o), (Nat.eqb_sym id2 o), (Z.eqb_sym t1 t), (Z.eqb_sym t2 t).
  destruct ((o =? id1)%nat && (t =? t1)), ((o =? id2)%nat && (t =? t2)); lia.
Qed.

Lemma ud_plan_bump_cnt w p : forall (f : ctable) o t, plan_bump f p o t = (f o t + cnt (plan_entries w p) (o, t))%nat.
Proof.
  destruct p as [|v1 v2 pairs]; intros f o t; [cbn; lia|].
  cbn [plan_bump plan_entries]. revert f. induction pairs as [|st ps IH]; intros f; [cbn; lia|].
  cbn [fold_left map cnt fold_right]. rewrite IH. rewrite (ud_bump_touches w). 
  fold (cnt (map (fun st0 : Z * Z => (w, (v_id v1, fst st0), (v_id v2, snd st0))) ps) (o, t)). lia.
Qed.

Lemma ud_fold_bump_cnt w : forall plans (f : ctable) o t,
  fold_left plan_bump plans f o t = (f o t + cnt (flat_map (plan_entries w) plans) (o, t))%nat.
Proof.
  induction plans as [|p ps IH]; intros f o t; [cbn; lia|].
  cbn [fold_left flat_map]. rewrite IH, ud_cnt_app, (ud_plan_bump_cnt w). lia.
Qed.

Lemma ud_counts_cnt P e o t : counts_p e o t = cnt (ud_entries P e) (o, t).
Proof.
  unfold counts_p, count_table, ud_entries. rewrite fold_left_app.
  rewrite (ud_fold_bump_cnt (p_overlap P)), (ud_fold_bump_cnt (p_prec P)), ud_cnt_app. unfold ct_zero. lia.
Qed.

Lemma ud_max_count_ge (f : ctable) v t : In t (v_values v) -> (f (v_id v) t <= max_count f v)%nat.
Proof.
  unfold max_count. generalize 0%nat as m0.
  assert (G : forall l m0, (m0 <= fold_left (fun m t => if (m <? f (v_id v) t)%nat then f (v_id v) t else m) l m0)%nat).
  { induction l as [|x xs IH]; intros m0; [cbn; lia|]. cbn [fold_left].
    destruct (Nat.ltb_spec m0 (f (v_id v) x)); [|apply IH]. etransitivity; [|apply IH]. lia. }
  induction (v_values v) as [|x xs IH]; intros m0 Hin; [contradiction|]. cbn [fold_left].
  destruct Hin as [->|Hin]; [|apply IH; exact Hin].
  destruct (Nat.ltb_spec m0 (f (v_id v) t)); [apply G|]. etransitivity; [|apply G]. lia.
Qed.

(* ---- (4) the charging inequality on the encoder's data *)
Definition ud_vars (e : enc) : list (nat * list Z) := map (fun v => (v_id v, v_values v)) (e_vars e).

Lemma ud_vars_In e o vals : In (o, vals) (ud_vars e) -> exists v, In v (e_vars e) /\ o = v_id v /\ vals = v_values v.
Proof.
  unfold ud_vars. intros H. apply in_map_iff in H as [v [E Hv]]. inversion E; subst. exists v. auto.
Qed.

Lemma ud_In_vars e v : In v (e_vars e) -> In (v_id v, v_values v) (ud_vars e).
Proof. intros H. unfold ud_vars. apply in_map_iff. exists v. split; [reflexivity | exact H]. Qed.

Lemma ud_entries_spec P e x : In x (ud_entries P e) ->
  exists w v1 v2 t1 t2, x = (w, (v_id v1, t1), (v_id v2, t2)) /\ (w = p_prec P \/ w = p_overlap P)
    /\ In v1 (e_vars e) /\ In v2 (e_vars e) /\ In t1 (v_values v1) /\ In t2 (v_values v2).
Proof.
  assert (G : forall w plans, (forall p, In p plans -> ud_plan_ok e p) -> In x (flat_map (plan_entries w) plans) ->
     exists v1 v2 t1 t2, x = (w, (v_id v1, t1), (v_id v2, t2))
       /\ In v1 (e_vars e) /\ In v2 (e_vars e) /\ In t1 (v_values v1) /\ In t2 (v_values v2)).
  { intros w plans Hok H. apply in_flat_map in H as [p [Hp Hx]]. specialize (Hok p Hp).
    destruct p as [|v1 v2 pairs]; [contradiction|]. cbn [plan_entries] in Hx.
    apply in_map_iff in Hx as [st [<- Hst]]. destruct Hok as [H1 [H2 H3]]. destruct (H3 st Hst) as [H4 H5].
    exists v1, v2, (fst st), (snd st). auto. }
  unfold ud_entries. intros H. apply in_app_or in H as [H|H].
  - destruct (G _ _ (ud_prec_plans_ok e) H) as [v1 [v2 [t1 [t2 [E R]]]]].
    exists (p_prec P), v1, v2, t1, t2. split; [exact E|]. split; [left; reflexivity | exact R].
  - destruct (G _ _ (ud_overlap_plans_ok e) H) as [v1 [v2 [t1 [t2 [E R]]]]].
    exists (p_overlap P), v1, v2, t1, t2. split; [exact E|]. split; [right; reflexivity | exact R].
Qed.

Lemma ud_anti_count e L v b : enc_wf e L -> NoDup (map v_id (e_vars e)) -> In v (e_vars e) ->
  (anti (ud_b (e_vars e) b) (v_id v) (v_values v) == inject_Z (Z.of_nat (n_antiwalls v b)))%Q.
Proof.
  intros [_ [_ [_ [_ Hvars]]]] Hnd Hv. destruct (Hvars v Hv) as [[Hlen _] [a [N E]]].
  unfold anti. rewrite <- sum_antiwalls, ud_fold_sum. change sumQl with sumQ.
  assert (M : map (fun t => ud_b (e_vars e) b (v_id v, t)) (v_values v)
              = map (fun t => Energy.ind (antiwall v b (idx v t))) (v_values v)).
  { apply map_ext. intros t. unfold ud_b. cbn [fst snd]. rewrite (ud_find_var_In _ _ Hnd Hv). reflexivity. }
  rewrite M. rewrite (ud_values_positions v a N (fun _ p => Energy.ind (antiwall v b p)) E Hlen). reflexivity.
Qed.

Lemma ud_charging P L e b : struct_ok e L -> pen_ok P ->
  (- (p_enc P * sumQl (map (fun v => inject_Z (Z.of_nat (max_count (counts_p e) v)) * inject_Z (Z.of_nat (n_antiwalls v b))) (e_vars e)))
   <= p_prec P * sumQl (map (pairs_val b) (prec_plans_p e)) + p_overlap P * sumQl (map (pairs_val b) (overlap_plans_p e)))%Q.
Proof.
  intros [Hwf [Hnd _]] [Hp0 [HpE [Ho0 [HoE _]]]].
  rewrite (ud_pairs_energy P e b Hnd).
  pose proof (charging (ud_a (e_vars e) b) (ud_b (e_vars e) b) (ud_a01 _ _) (ud_b01 _ _) (ud_ab0 _ _)
                (p_enc P) ltac:(lra) (ud_entries P e)) as CH.
  assert (Hw : forall x, In x (ud_entries P e) -> (0 <= e_w x <= p_enc P)%Q).
  { intros x Hx. apply ud_entries_spec in Hx as [w [v1 [v2 [t1 [t2 [-> [[->| ->] _]]]]]]]; unfold e_w; cbn [fst]; split; assumption. }
  specialize (CH Hw (ud_vars e)).
  assert (N1 : NoDup (map fst (ud_vars e))).
  { unfold ud_vars. rewrite map_map. cbn [fst]. exact Hnd. }
  assert (N2 : forall o vals, In (o, vals) (ud_vars e) -> NoDup vals).
  { intros o vals H. apply ud_vars_In in H as [v [Hv [_ ->]]].
    destruct Hwf as [_ [_ [_ [_ Hvars]]]]. destruct (Hvars v Hv) as [[_ [H _]] _]. exact H. }
  assert (EP : forall x, In x (ud_entries P e) ->
     (exists vals, In (fst (e_k1 x), vals) (ud_vars e) /\ In (snd (e_k1 x)) vals) /\
     (exists vals, In (fst (e_k2 x), vals) (ud_vars e) /\ In (snd (e_k2 x)) vals)).
  { intros x Hx. apply ud_entries_spec in Hx as [w [v1 [v2 [t1 [t2 [-> [_ [H1 [H2 [H3 H4]]]]]]]]]].
    unfold e_k1, e_k2. cbn [fst snd]. split.
    - exists (v_values v1). split; [apply ud_In_vars; exact H1 | exact H3].
    - exists (v_values v2). split; [apply ud_In_vars; exact H2 | exact H4]. }
  specialize (CH N1 N2 EP (ud_c (e_vars e) (counts_p e))).
  assert (CB : forall o vals t, In (o, vals) (ud_vars e) -> In t vals ->
     (cnt (ud_entries P e) (o, t) <= ud_c (e_vars e) (counts_p e) o)%nat).
  { intros o vals t H Ht. apply ud_vars_In in H as [v [Hv [-> ->]]].
    unfold ud_c. rewrite (ud_find_var_In _ _ Hnd Hv). rewrite <- (ud_counts_cnt P e).
    apply ud_max_count_ge. exact Ht. }
  specialize (CH CB).
  assert (EQ : (sumQ (map (fun ov => inject_Z (Z.of_nat (ud_c (e_vars e) (counts_p e) (fst ov))) * anti (ud_b (e_vars e) b) (fst ov) (snd ov)) (ud_vars e))
               == sumQl (map (fun v => inject_Z (Z.of_nat (max_count (counts_p e) v)) * inject_Z (Z.of_nat (n_antiwalls v b))) (e_vars e)))%Q).
  { unfold ud_vars. rewrite map_map. cbn [fst snd]. change sumQl with sumQ. apply sumQ_map_ext. intros v Hv.
    rewrite (ud_anti_count e L v b Hwf Hnd Hv). unfold ud_c. rewrite (ud_find_var_In _ _ Hnd Hv). reflexivity. }
  rewrite EQ in CH. exact CH.
Qed.

(* ---- (5) adding the viability part *)
Lemma ud_viability_split (f : ctable) b vars :
  (sumQl (map (viability_val f b) vars)
   == sumQl (map (fun v => inject_Z (Z.of_nat (max_count f v + 2)) * inject_Z (Z.of_nat (n_antiwalls v b))) vars)
      + sumQl (map (fun v => inject_Z (Z.of_nat (max_count f v)) * inject_Z (Z.of_nat (n_antiwalls v b))) vars))%Q.
Proof.
  change sumQl with sumQ. rewrite <- sumQ_map_plus. apply sumQ_map_ext. intros v _. unfold viability_val.
  rewrite !Nat2Z.inj_add, !inject_Z_plus, inject_Z_mult.
  change (inject_Z (Z.of_nat 1)) with 1%Q. change (inject_Z (Z.of_nat 2)) with 2%Q. change (inject_Z 2) with 2%Q. ring.
Qed.

Theorem energy_val_lower : forall P L e b, struct_ok e L -> pen_ok P ->
  (p_enc P * sumQl (map (fun v => inject_Z (Z.of_nat (max_count (counts_p e) v + 2)) * inject_Z (Z.of_nat (n_antiwalls v b))) (e_vars e))
   <= energy_val P L e b)%Q.
Proof.
  intros P L e b Hs Hp. unfold energy_val.
  pose proof (ud_charging P L e b Hs Hp) as CH.
  destruct (opt_val_nonneg L e b Hs) as [M0 E0].
  rewrite (ud_viability_split (counts_p e) b (e_vars e)).
  destruct Hp as [_ [_ [_ [_ [Ho [Hs0 Hs1]]]]]].
  assert (O1 : (0 <= p_opt P * (1 - p_share P) * makespan_val e L b)%Q).
  { apply Qmult_le_0_compat; [apply Qmult_le_0_compat|]; lra. }
  assert (O2 : (0 <= p_opt P * p_share P * early_val e b)%Q).
  { apply Qmult_le_0_compat; [apply Qmult_le_0_compat|]; lra. }
  set (X := sumQl (map (fun v => inject_Z (Z.of_nat (max_count (counts_p e) v + 2)) * inject_Z (Z.of_nat (n_antiwalls v b)))%Q (e_vars e))) in *.
  set (Y := sumQl (map (fun v => inject_Z (Z.of_nat (max_count (counts_p e) v)) * inject_Z (Z.of_nat (n_antiwalls v b)))%Q (e_vars e))) in *.
  lra.
Qed.

Corollary energy_val_undecodable : forall P L e b, struct_ok e L -> pen_ok P ->
  (exists v, In v (e_vars e) /\ (1 <= n_antiwalls v b)%nat) -> (2 * p_enc P <= energy_val P L e b)%Q.
Proof.
  intros P L e b Hs Hp [v [Hv Ha]].
  pose proof (energy_val_lower P L e b Hs Hp) as H.
  set (F := fun v => (inject_Z (Z.of_nat (max_count (counts_p e) v + 2)) * inject_Z (Z.of_nat (n_antiwalls v b)))%Q) in *.
  assert (F0 : forall y, In y (e_vars e) -> (0 <= F y)%Q).
  { intros y _. unfold F. apply Qmult_le_0_compat; change 0%Q with (inject_Z 0); rewrite <- Zle_Qle; lia. }
  assert (F2 : (2 <= F v)%Q).
  { unfold F. change 2%Q with (inject_Z 2). rewrite <- inject_Z_mult, <- Zle_Qle. nia. }
  pose proof (ud_sum_ge_member F (e_vars e) v F0 Hv) as HS.
  assert (HPe : (0 <= p_enc P)%Q) by (destruct Hp as [? [? _]]; lra).
  nra.
Qed.

(* ---- the hypotheses are satisfiable, with an undecodable state: two jobs of one unit operation each on the same
   machine, limit 3 (three start times, two qubits per operation); the state 01|10 has an anti-wall in the first
   variable *)
Definition ud_ex_inst : instance :=
  mkInst "i" ["m"] [mkJob "j1" [mkOp "a" "j1" "m" 1]; mkJob "j2" [mkOp "b" "j2" "m" 1]]%string.
Definition ud_ex_enc : enc := enc_of ud_ex_inst 3.
Definition ud_ex_pen : penalties := mkPen 300 150 100 20 (1 # 2).
Definition ud_ex_state : nat -> bool := fun q => Nat.eqb q 1 || Nat.eqb q 2.

Example ud_hypotheses_satisfiable :
  struct_ok ud_ex_enc 3 /\ pen_ok ud_ex_pen
  /\ (exists v, In v (e_vars ud_ex_enc) /\ (1 <= n_antiwalls v ud_ex_state)%nat)
  /\ overlap_plans_p ud_ex_enc <> [] /\ (600 <= energy_val ud_ex_pen 3 ud_ex_enc ud_ex_state)%Q.
Proof.
  assert (S : struct_ok ud_ex_enc 3).
  { split; [|split; [|split]].
    - split; [reflexivity|]. split; [lia|]. split; [discriminate|]. split.
      + intros vs [<-|[<-|[]]]; discriminate.
      + intros v [<-|[<-|[]]]; (split; [split; [vm_compute; lia | split; [apply (zrange_NoDup 0 3) | vm_compute; lia]] | exists 0, 3; reflexivity]).
    - cbn. repeat constructor; cbn; intuition discriminate.
    - intros v t [<-|[<-|[]]] Ht; apply (zrange_In 0 3) in Ht; lia.
    - intros v [<-|[<-|[]]]; cbn; lia. }
  assert (Pn : pen_ok ud_ex_pen) by (unfold pen_ok, ud_ex_pen; cbn; repeat split; lra).
  assert (U : exists v, In v (e_vars ud_ex_enc) /\ (1 <= n_antiwalls v ud_ex_state)%nat).
  { eexists. split; [left; reflexivity|]. vm_compute. lia. }
  split; [exact S|]. split; [exact Pn|]. split; [exact U|]. split; [vm_compute; discriminate|].
  apply (energy_val_undecodable ud_ex_pen 3 ud_ex_enc ud_ex_state S Pn U).
Qed.

Print Assumptions opt_val_nonneg.
Print Assumptions ud_hypotheses_satisfiable.
Print Assumptions energy_val_lower.
Print Assumptions energy_val_undecodable.
