(* Model of queasars/utility/pauli_strings.py and queasars/utility/domain_wall_variables.py.  Definitions only.
   A DomainWallVariable here also carries the operation it belongs to and its construction index (the encoder keeps
   them in dicts keyed by the operation; in a well-formed instance operations are pairwise different). *)
From QV Require Export Jssp.Zpoly Jssp.Instance.
Open Scope Z_scope.

Definition ValueError : string := "ValueError"%string.
Definition IndexError : string := "IndexError"%string.
Definition QiskitError : string := "QiskitError"%string.
Definition ZeroDivisionError : string := "ZeroDivisionError"%string.

(* pauli_strings.py *)
Definition pauli_identity_string (n : nat) : result opexpr :=
  if (n <? 1)%nat then Err ValueError else Ok OpI.

Definition pauli_z_string (q n : nat) : result opexpr :=
  if (n <? 1)%nat then Err ValueError
  else if negb (q <? n)%nat then Err ValueError
  else Ok (OpZ q).

(* SparsePauliOp.sum: raises QiskitError('Input list is empty') *)
Definition sum_ops (es : list opexpr) : result opexpr :=
  match es with [] => Err QiskitError | _ => Ok (OpSum es) end.

Record dwvar := mkVar { v_id : nat; v_op : operation; v_start : nat; v_values : list Z }.

Definition var_nq (v : dwvar) : nat := (List.length (v_values v) - 1)%nat.

Fixpoint memZ (x : Z) (l : list Z) : bool :=
  match l with [] => false | y :: r => (x =? y) || memZ x r end.
Fixpoint nodupZ (l : list Z) : bool :=
  match l with [] => true | x :: r => negb (memZ x r) && nodupZ r end.

(* DomainWallVariable.__init__ *)
Definition mk_dwvar (id : nat) (o : operation) (q : nat) (vals : list Z) : result dwvar :=
  if (List.length vals <? 1)%nat then Err ValueError
  else if negb (nodupZ vals) then Err ValueError
  else Ok (mkVar id o q vals).

(* _value_indices[value] *)
Fixpoint index_of (t : Z) (l : list Z) : option nat :=
  match l with
  | [] => None
  | x :: r => if x =? t then Some 0%nat else option_map S (index_of t r)
  end.

(* _z_dash_term(i): i ranges over -1 .. n_qubits *)
Definition z_dash (v : dwvar) (i : Z) (nq : nat) : result opexpr :=
  if (i <? -1) || (Z.of_nat (var_nq v) <? i) then Err ValueError
  else if i =? -1 then do I <- pauli_identity_string nq; Ok (OpScale (-1)%Q I)
  else if i =? Z.of_nat (var_nq v) then pauli_identity_string nq
  else pauli_z_string (v_start v + Z.to_nat i) nq.

(* range(a, a+n) *)
Definition zrange (a : Z) (n : Z) : list Z := map (fun k => a + Z.of_nat k) (seq 0 (Z.to_nat n)).

(* viability_term *)
Definition viability_local (v : dwvar) (nq : nat) (i : Z) : result opexpr :=
  do I <- pauli_identity_string nq;
  do a <- z_dash v i nq;
  do b <- z_dash v (i + 1) nq;
  Ok (OpScale (1 # 2)%Q (OpSub I (OpMul a b))).

Definition viability_term (v : dwvar) (nq : nat) : result opexpr :=
  if (var_nq v =? 0)%nat then do I <- pauli_identity_string nq; Ok (OpScale 0%Q I)
  else
    do locals <- mapM (viability_local v nq) (zrange (-1) (Z.of_nat (var_nq v) + 1));
    do I <- pauli_identity_string nq;
    sum_ops (locals ++ [OpScale (-1)%Q I]).

(* value_term *)
Definition value_term (v : dwvar) (t : Z) (nq : nat) : result opexpr :=
  match index_of t (v_values v) with
  | None => Err ValueError
  | Some i =>
      if (var_nq v =? 0)%nat then pauli_identity_string nq
      else
        do a <- z_dash v (Z.of_nat i) nq;
        do b <- z_dash v (Z.of_nat i - 1) nq;
        Ok (OpScale (1 # 2)%Q (OpSub a b))
  end.

(* value_from_bitlist; bit_list is the whole circuit's assignment (index = qubit) *)
Fixpoint first_false (l : list bool) : option nat :=
  match l with
  | [] => None
  | x :: r => if x then option_map S (first_false r) else Some 0%nat
  end.

Definition var_bits (v : dwvar) (bl : list bool) : list bool := firstn (var_nq v) (skipn (v_start v) bl).

Definition value_from_bits (v : dwvar) (bl : list bool) : result (option Z) :=
  let sl := var_bits v bl in
  let dwi := match first_false sl with Some i => i | None => var_nq v end in
  if existsb (fun x => x) (skipn dwi sl) then Ok None
  else match nth_error (v_values v) dwi with
       | Some t => Ok (Some t)
       | None => Err IndexError
       end.

(* the basis state a bit list denotes: qubit q holds bit number q *)
Definition state_of (bl : list bool) : nat -> bool := fun q => nth q bl false.
