(* C03 — proofs about Eval/Pipeline.v.  The laws of the quantum semantics are Section hypotheses here; after the
   section is closed they are explicit premises of every theorem. *)
From QV Require Import Eval.Pipeline.

(* ---------- list facts (no semantics) ---------- *)
Lemma slice_map_mid {A B} (f : A -> B) (b p a : list A) :
  slice (length b) (length p) (map f (b ++ p ++ a)) = Ok (map f p).
Proof.
  unfold slice. rewrite map_length, !app_length.
  replace (length b + length p <=? length b + (length p + length a))%nat with true
    by (symmetry; apply Nat.leb_le; lia).
  f_equal. rewrite !map_app.
  rewrite skipn_app, map_length, Nat.sub_diag, skipn_all2 by (rewrite map_length; lia).
  simpl. rewrite firstn_app, map_length, Nat.sub_diag. simpl.
  rewrite firstn_all2 by (rewrite map_length; lia). apply app_nil_r.
Qed.

Lemma combine_map_l {A B C} (f : A -> C) (l : list A) (l' : list B) :
  combine (map f l) l' = map (fun ab => (f (fst ab), snd ab)) (combine l l').
Proof.
  revert l'; induction l as [|x xs IH]; intros [|y ys]; simpl; auto. f_equal. apply IH.
Qed.

Lemma mapM_ok_map {A B} (f : A -> result B) (g : A -> B) (l : list A) :
  (forall x, In x l -> f x = Ok (g x)) -> mapM f l = Ok (map g l).
Proof.
  induction l as [|x xs IH]; intros H; simpl; auto.
  rewrite (H x) by (left; reflexivity). simpl. rewrite IH by (intros; apply H; right; assumption). reflexivity.
Qed.

(* ---------- wrappers around a pointwise primitive ---------- *)
Section Wrap.
  Context {circ layout P R : Type}.
  Variable tr : passmgr circ layout -> P -> P.
  Variable run1 : P -> R.
  Variable good : passmgr circ layout -> Prop.
  Hypothesis tr_inv : forall T pub, good T -> run1 (tr T pub) = run1 pub.

  Fixpoint stack_all (st : stack circ layout P) : Prop :=
    match st with
    | SRaw => True
    | SMutex s => stack_all s
    | STranspile T s => good T /\ stack_all s
    | SBatch _ _ s => stack_all s
    end.

  Lemma wrap_pointwise st : stack_all st -> forall pubs, wrap tr st (pointwise run1) pubs = Ok (map run1 pubs).
  Proof.
    induction st as [|s IH|T s IH|b a s IH]; simpl; intros Hok pubs.
    - reflexivity.
    - apply IH, Hok.
    - destruct Hok as [HT Hs]. rewrite IH by assumption. f_equal. rewrite map_map.
      apply map_ext. intros pub. apply tr_inv, HT.
    - rewrite IH by assumption. simpl. apply slice_map_mid.
  Qed.
End Wrap.

Section Laws.
  Context {circ state obs params layout wiring dist outcome bitfun : Type}.
  Variable sem : circ -> params -> state.
  Variable compose : circ -> circ -> circ.
  Variable apply : circ -> params -> state -> state.
  Variable permute : layout -> state -> state.
  Variable relabel : layout -> obs -> obs.
  Variable wid : circ -> wiring.
  Variable wmap : layout -> wiring -> wiring.
  Variable read : wiring -> state -> dist.
  Variable expect : obs -> state -> Q.
  Variable counts_of : Z -> dist -> list (outcome * Z).
  Variable agg_op : obs -> Q -> list (outcome * Q) -> Q.
  Variable agg_bits : bitfun -> Q -> list (outcome * Q) -> Q.

  (* ---- the laws ---- *)
  (* a.compose(c) prepares: first a, then the bound c applied to that state *)
  Hypothesis sem_compose : forall a c p, sem (compose a c) p = apply c p (sem a p).
  (* an observable moved along a layout has, in the state moved along the same layout, the same expectation value *)
  Hypothesis expect_relabel : forall pi ob s, expect (relabel pi ob) (permute pi s) = expect ob s.
  (* the classical register read through the re-wired measurements is layout invariant *)
  Hypothesis read_permute : forall pi w s, read (wmap pi w) (permute pi s) = read w s.

  (* the raw primitives: any pointwise oracle that agrees with the semantics *)
  Variable sampler1 : spub circ params wiring -> counts outcome.
  Variable estimator1 : epub circ obs params -> Q.
  Hypothesis sampler1_sem : forall pub, sampler1 pub = ideal_sampler1 sem read counts_of pub.
  Hypothesis estimator1_sem : forall pub, estimator1 pub = ideal_estimator1 sem expect pub.

  Local Notation sp := (sem_preserving sem permute).
  Local Notation ok := (stack_ok sem permute).

  Lemma stack_ok_all {P} (st : stack circ layout P) : ok st -> stack_all sp st.
  Proof. induction st; simpl; intuition. Qed.

  Lemma sampler1_tr T pub : sp T -> sampler1 (tr_spub wmap T pub) = sampler1 pub.
  Proof.
    intros HT. rewrite !sampler1_sem. destruct pub as [[[c w] p] shots]. simpl.
    rewrite HT, read_permute. reflexivity.
  Qed.

  Lemma estimator1_tr T pub : sp T -> estimator1 (tr_epub relabel false T pub) = estimator1 pub.
  Proof.
    intros HT. rewrite !estimator1_sem. destruct pub as [[c ob] p]. simpl.
    rewrite HT, expect_relabel. reflexivity.
  Qed.

  Lemma wrapped_sampler st pubs : ok st ->
    wrap_sampler wmap st (pointwise sampler1) pubs = Ok (map sampler1 pubs).
  Proof. intros H. apply (wrap_pointwise _ _ sp); [intros; apply sampler1_tr; assumption | apply stack_ok_all, H]. Qed.

  Lemma wrapped_estimator st pubs : ok st ->
    wrap_estimator relabel false st (pointwise estimator1) pubs = Ok (map estimator1 pubs).
  Proof. intros H. apply (wrap_pointwise _ _ sp); [intros; apply estimator1_tr; assumption | apply stack_ok_all, H]. Qed.

  Lemma to_quasi_ok shots (c : counts outcome) : shots <> 0%Z -> to_quasi shots c = Ok (quasi_of shots c).
  Proof.
    intros H. unfold to_quasi. destruct c; [reflexivity|].
    destruct (Z.eqb_spec shots 0); [contradiction | reflexivity].
  Qed.

  Lemma prepared_sem init c p : sem (with_init compose init c) p = prepared sem apply init c p.
  Proof. destruct init; simpl; [apply sem_compose | reflexivity]. Qed.

  Lemma mqd_spec st init circuits pvals shots : ok st -> shots <> 0%Z ->
    measure_quasi_distributions wid (wrap_sampler wmap st (pointwise sampler1)) (map (with_init compose init) circuits) pvals shots
    = Ok (map (fun cp => resolved sem compose apply wid read counts_of shots init (fst cp) (snd cp)) (combine circuits pvals)).
  Proof.
    intros Hok Hs. unfold measure_quasi_distributions. rewrite wrapped_sampler by assumption. simpl.
    rewrite (mapM_ok_map _ (quasi_of shots)) by (intros; apply to_quasi_ok; assumption).
    f_equal. rewrite !map_map, !combine_map_l, !map_map. apply map_ext. intros [c p]. simpl.
    rewrite sampler1_sem. unfold resolved. rewrite <- prepared_sem. reflexivity.
  Qed.

  (* ---- C03 ---- *)
  Theorem sampler_paths :
    forall (st : stack circ layout (spub circ params wiring)) (shots : Z) (alpha : Q) (init : option circ)
           (circuits : list circ) (pvals : list params),
      ok st -> shots <> 0%Z -> alpha_ok alpha = true ->
      (forall ob, eval_operator_sampler compose wid agg_op (wrap_sampler wmap st (pointwise sampler1)) shots ob alpha init circuits pvals
                  = Ok (map (objective_op sem compose apply wid read counts_of agg_op shots ob alpha init) (combine circuits pvals)))
      /\ (forall f, eval_bitstring compose wid agg_bits (wrap_sampler wmap st (pointwise sampler1)) shots f alpha init circuits pvals
                  = Ok (map (objective_bits sem compose apply wid read counts_of agg_bits shots f alpha init) (combine circuits pvals))).
  Proof.
    intros st shots alpha init circuits pvals Hok Hs Ha.
    split; intros x; unfold eval_operator_sampler, eval_bitstring; rewrite Ha; simpl;
      rewrite mqd_spec by assumption; simpl; rewrite map_map; reflexivity.
  Qed.

  Theorem estimator_path :
    forall (st : stack circ layout (epub circ obs params)) (ob : obs) (init : option circ)
           (circuits : list circ) (pvals : list params),
      ok st ->
      eval_estimator compose (wrap_estimator relabel false st (pointwise estimator1)) ob init circuits pvals
      = Ok (map (objective_est sem apply expect ob init) (combine circuits pvals)).
  Proof.
    intros st ob init circuits pvals Hok. unfold eval_estimator. rewrite wrapped_estimator by assumption.
    f_equal. rewrite map_map, combine_map_l, map_map. apply map_ext. intros [c p]. simpl.
    rewrite estimator1_sem. unfold objective_est. simpl. rewrite <- prepared_sem. reflexivity.
  Qed.

  (* results are positional: as many values as (circuit, parameter) pairs, in their order *)
  Corollary estimator_path_length st ob init circuits pvals r : ok st ->
    eval_estimator compose (wrap_estimator relabel false st (pointwise estimator1)) ob init circuits pvals = Ok r ->
    length r = Nat.min (length circuits) (length pvals).
  Proof. intros Hok. rewrite estimator_path by assumption. intros E; inversion E. rewrite map_length, combine_length. reflexivity. Qed.
End Laws.
