(* C03 — the laws of Eval/Pipeline_proofs.v hold in the classical instance, and its pass managers are
   semantics preserving.  Hence the hypotheses of the C03 theorems are satisfiable and the theorems apply to the
   executable instance. *)
From QV Require Import Eval.Pipeline Eval.Pipeline_proofs Eval.ClassicalInst.
Open Scope N_scope.

Lemma transp_invol a b i : transp a b (transp a b i) = i.
Proof.
  unfold transp.
  destruct (N.eqb_spec i a); [subst|].
  - destruct (N.eqb_spec b a); [congruence|]. rewrite N.eqb_refl. reflexivity.
  - destruct (N.eqb_spec i b); [subst|].
    + rewrite N.eqb_refl. reflexivity.
    + destruct (N.eqb_spec i a); [contradiction|]. destruct (N.eqb_spec i b); [contradiction|]. reflexivity.
Qed.

Lemma swapbits_spec a b x i : N.testbit (swapbits a b x) i = N.testbit x (transp a b i).
Proof.
  unfold swapbits, transp.
  destruct (Bool.eqb (N.testbit x a) (N.testbit x b)) eqn:E.
  - apply eqb_prop in E.
    destruct (N.eqb_spec i a); [subst; assumption|].
    destruct (N.eqb_spec i b); [subst; symmetry; assumption|]. reflexivity.
  - apply eqb_false_iff in E.
    rewrite !N.lxor_spec, !N.pow2_bits_eqb.
    destruct (N.eqb_spec i a); [subst|].
    + rewrite N.eqb_refl. destruct (N.eqb_spec b a); [subst; congruence|].
      simpl. destruct (N.testbit x a), (N.testbit x b); simpl; congruence.
    + destruct (N.eqb_spec a i); [congruence|]. simpl.
      destruct (N.eqb_spec i b); [subst|].
      * rewrite N.eqb_refl. destruct (N.testbit x a), (N.testbit x b); simpl; congruence.
      * destruct (N.eqb_spec b i); [congruence|]. apply xorb_false_r.
Qed.

Lemma swapbits_invol a b x : swapbits a b (swapbits a b x) = x.
Proof. apply N.bits_inj. intros i. rewrite !swapbits_spec, transp_invol. reflexivity. Qed.

Lemma swapbits_lxor a b x y : swapbits a b (N.lxor x y) = N.lxor (swapbits a b x) (swapbits a b y).
Proof. apply N.bits_inj. intros i. rewrite swapbits_spec, !N.lxor_spec, !swapbits_spec. reflexivity. Qed.

Lemma swapbits_pow2 a b q : swapbits a b (2 ^ q) = 2 ^ (transp a b q).
Proof.
  apply N.bits_inj. intros i. rewrite swapbits_spec, !N.pow2_bits_eqb.
  destruct (N.eqb_spec (transp a b q) i) as [E|E].
  - subst i. rewrite transp_invol. apply N.eqb_refl.
  - destruct (N.eqb_spec q (transp a b i)) as [E'|E']; [|reflexivity].
    subst q. rewrite transp_invol in E. contradiction.
Qed.

Lemma swapbits_0 a b : swapbits a b 0 = 0.
Proof. apply N.bits_inj. intros i. rewrite swapbits_spec, !N.bits_0. reflexivity. Qed.

(* ---- permN / permq ---- *)
Lemma permN_spec pi : forall x q, N.testbit (permN pi x) (permq pi q) = N.testbit x q.
Proof.
  unfold permN, permq. induction pi as [|[a b] pi IH]; intros x q; simpl; [reflexivity|].
  rewrite IH, swapbits_spec, transp_invol. reflexivity.
Qed.
Lemma permN_lxor pi : forall x y, permN pi (N.lxor x y) = N.lxor (permN pi x) (permN pi y).
Proof. unfold permN. induction pi as [|[a b] pi IH]; intros x y; simpl; [reflexivity|]. rewrite swapbits_lxor. apply IH. Qed.
Lemma permN_pow2 pi : forall q, permN pi (2 ^ q) = 2 ^ (permq pi q).
Proof. unfold permN, permq. induction pi as [|[a b] pi IH]; intros q; simpl; [reflexivity|]. rewrite swapbits_pow2. apply IH. Qed.
Lemma permN_0 pi : permN pi 0 = 0.
Proof. unfold permN. induction pi as [|[a b] pi IH]; simpl; [reflexivity|]. rewrite swapbits_0. apply IH. Qed.
Lemma permN_inj pi : forall x y, permN pi x = permN pi y -> x = y.
Proof.
  unfold permN. induction pi as [|[a b] pi IH]; intros x y; simpl; [auto|]. intros E. apply IH in E.
  rewrite <- (swapbits_invol a b x), <- (swapbits_invol a b y). congruence.
Qed.
Lemma permN_app p1 p2 x : permN (p1 ++ p2) x = permN p2 (permN p1 x).
Proof. unfold permN. apply fold_left_app. Qed.
Lemma permN_flip pi q x : permN pi (flip q x) = flip (permq pi q) (permN pi x).
Proof. unfold flip. rewrite permN_lxor, permN_pow2. reflexivity. Qed.
Lemma permN_swapbits pi a b x : permN pi (swapbits a b x) = swapbits (permq pi a) (permq pi b) (permN pi x).
Proof.
  unfold swapbits. rewrite !permN_spec.
  destruct (Bool.eqb (N.testbit x a) (N.testbit x b)); [reflexivity|].
  rewrite !permN_lxor, !permN_pow2. reflexivity.
Qed.

(* ---- law 1: measurements ---- *)
Lemma cread_permute : forall pi w s, cread (cwmap pi w) (cpermute pi s) = cread w s.
Proof.
  intros pi w s. unfold cread, cwmap, cpermute. rewrite map_map. apply map_ext. intros x.
  rewrite map_map. apply map_ext. intros q. apply permN_spec.
Qed.

(* ---- law 2: expectation values ---- *)
Lemma xmask_relabel pi t : xmask (relabel_term pi t) = permN pi (xmask t).
Proof.
  induction t as [|[q P] t IH]; simpl; [symmetry; apply permN_0|].
  destruct P; simpl; rewrite ?permN_flip; congruence.
Qed.
Lemma zpar_relabel pi t x : zpar (relabel_term pi t) (permN pi x) = zpar t x.
Proof. induction t as [|[q P] t IH]; simpl; [reflexivity|]. destruct P; simpl; rewrite ?permN_spec; congruence. Qed.
Lemma ycount_relabel pi t : ycount (relabel_term pi t) = ycount t.
Proof. unfold ycount. induction t as [|[q P] t IH]; simpl; [reflexivity|]. destruct P; simpl; congruence. Qed.
Lemma memN_permute pi y s : memN (permN pi y) (cpermute pi s) = memN y s.
Proof.
  unfold memN, cpermute. induction s as [|x s IH]; simpl; [reflexivity|]. rewrite IH. f_equal.
  destruct (N.eqb_spec y x) as [E|E]; [subst; apply N.eqb_refl|].
  apply N.eqb_neq. intros E'. apply permN_inj in E'. contradiction.
Qed.
Lemma term_expect_relabel pi t s : term_expect (relabel_term pi t) (cpermute pi s) = term_expect t s.
Proof.
  unfold term_expect. rewrite ycount_relabel. unfold cpermute at 2 3. rewrite map_length, map_map.
  do 4 f_equal. apply map_ext. intros x. unfold contrib.
  rewrite xmask_relabel, <- permN_lxor, memN_permute, zpar_relabel. reflexivity.
Qed.
Lemma cexpect_relabel : forall pi ob s, cexpect (crelabel pi ob) (cpermute pi s) = cexpect ob s.
Proof.
  intros pi ob s. unfold cexpect. f_equal. induction ob as [|[c t] ob IH]; simpl; [reflexivity|].
  rewrite term_expect_relabel, IH. reflexivity.
Qed.

(* ---- composition ---- *)
Lemma csem_compose a c p : csem (ccompose a c) p = capply c p (csem a p).
Proof. unfold csem, ccompose, capply, run_gates. simpl. apply fold_left_app. Qed.

(* ---- the instance's pass managers are semantics preserving ---- *)
Lemma apply_gate_rename pi p g s : apply_gate p (cpermute pi s) (rename_gate pi g) = cpermute pi (apply_gate p s g).
Proof.
  unfold cpermute. destruct g as [q|c t|a b|j q|q]; simpl.
  - rewrite !map_map. apply map_ext. intros x. symmetry. apply permN_flip.
  - rewrite !map_map. apply map_ext. intros x. rewrite permN_spec.
    destruct (N.testbit x c); [symmetry; apply permN_flip | reflexivity].
  - rewrite !map_map. apply map_ext. intros x. symmetry. apply permN_swapbits.
  - destruct (Z.odd (nth j p 0%Z)); [|reflexivity].
    rewrite !map_map. apply map_ext. intros x. symmetry. apply permN_flip.
  - rewrite map_app, !map_map. f_equal. apply map_ext. intros x. symmetry. apply permN_flip.
Qed.
Lemma run_gates_rename pi p gs : forall s, run_gates p (map (rename_gate pi) gs) (cpermute pi s) = cpermute pi (run_gates p gs s).
Proof.
  unfold run_gates. induction gs as [|g gs IH]; intros s; simpl; [reflexivity|].
  rewrite apply_gate_rename. apply IH.
Qed.
Lemma run_swaps p swaps : forall s, run_gates p (map (fun ab => GSWAP (fst ab) (snd ab)) swaps) s = cpermute swaps s.
Proof.
  unfold run_gates, cpermute. induction swaps as [|[a b] sw IH]; intros s; simpl.
  - symmetry. apply map_id.
  - rewrite IH, map_map. reflexivity.
Qed.
Lemma run_gates_app p g1 g2 s : run_gates p (g1 ++ g2) s = run_gates p g2 (run_gates p g1 s).
Proof. unfold run_gates. apply fold_left_app. Qed.
Lemma pm_route_preserving pi swaps : sem_preserving csem cpermute (pm_route pi swaps).
Proof.
  intros [n gs] p. unfold csem, pm_route. cbn [pm_run pm_layout fst snd].
  rewrite run_gates_app, run_swaps.
  replace [0] with (cpermute pi [0]) at 1 by (simpl; rewrite permN_0; reflexivity).
  rewrite run_gates_rename. unfold cpermute. rewrite map_map. apply map_ext. intros x. symmetry. apply permN_app.
Qed.
Lemma pm_identity_preserving : sem_preserving csem cpermute pm_identity.
Proof. intros c p. simpl. unfold cpermute. symmetry. apply map_id. Qed.

(* ---- the C03 theorems for the instance (no semantic premise is left) ---- *)
Definition csampler1 := ideal_sampler1 csem cread ccounts_of.
Definition cestimator1 := ideal_estimator1 csem cexpect.

(* The wf_* premises are not needed by the proofs (the functions
   are total); they delimit the inputs on which the instance describes Qiskit (no default is used). *)
Theorem classical_sampler_paths :
  forall st shots alpha init circuits pvals,
    stack_ok csem cpermute st -> shots <> 0%Z -> alpha_ok alpha = true ->
    wf_call init circuits pvals = true -> wf_sampler_call shots init circuits pvals = true ->
    (forall ob, eval_operator_sampler ccompose cwid cagg_op (wrap_sampler cwmap st (pointwise csampler1)) shots ob alpha init circuits pvals
                = Ok (map (objective_op csem ccompose capply cwid cread ccounts_of cagg_op shots ob alpha init) (combine circuits pvals)))
    /\ (forall f n, wf_table n f = true -> Forall (fun c : ccirc => fst c = n) circuits ->
                  eval_bitstring ccompose cwid cagg_bits (wrap_sampler cwmap st (pointwise csampler1)) shots f alpha init circuits pvals
                  = Ok (map (objective_bits csem ccompose capply cwid cread ccounts_of cagg_bits shots f alpha init) (combine circuits pvals))).
Proof.
  intros st shots alpha init circuits pvals Hok Hs Ha _ _.
  destruct (sampler_paths csem ccompose capply cpermute cwid cwmap cread ccounts_of cagg_op cagg_bits
              csem_compose cread_permute csampler1 (fun pub => eq_refl) st shots alpha init circuits pvals Hok Hs Ha) as [H1 H2].
  split; [exact H1 | intros f n _ _; apply H2].
Qed.

Theorem classical_estimator_path :
  forall st ob init circuits pvals,
    stack_ok csem cpermute st -> wf_call init circuits pvals = true ->
    eval_estimator ccompose (wrap_estimator crelabel false st (pointwise cestimator1)) ob init circuits pvals
    = Ok (map (objective_est csem capply cexpect ob init) (combine circuits pvals)).
Proof.
  intros st ob init circuits pvals Hok _.
  apply estimator_path with (permute := cpermute); auto using cexpect_relabel, csem_compose.
Qed.

(* ---- the legacy transpiling estimator (observable left on the virtual qubits) is refuted ---- *)
(* rx(pi) on qubit 0 of 3, observable Z on qubit 0 ("IIZ"), layout [2,1,0] = the transposition (0 2): F-C03 *)
Definition w_circ : ccirc := (3%nat, [GRX 0 0]).
Definition w_params : cparams := [1%Z].
Definition w_obs : cobs := [(1%Q, [(0, PZ)])].
Definition w_pm := pm_route [(0, 2)] [].
Definition w_stack : stack ccirc clayout (epub ccirc cobs cparams) := STranspile w_pm SRaw.

Lemma estimator_layout_refuted :
  stack_ok csem cpermute w_stack
  /\ eval_estimator ccompose (wrap_estimator crelabel true w_stack (pointwise cestimator1)) w_obs None [w_circ] [w_params] = Ok [1%Q]
  /\ map (objective_est csem capply cexpect w_obs None) (combine [w_circ] [w_params]) = [(-1)%Q]
  /\ eval_estimator ccompose (wrap_estimator crelabel false w_stack (pointwise cestimator1)) w_obs None [w_circ] [w_params] = Ok [(-1)%Q].
Proof.
  split; [split; [apply pm_route_preserving | exact I]|].
  split; [vm_compute; reflexivity|]. split; vm_compute; reflexivity.
Qed.

(* ---- a non-trivial run of the instance: sampler path, CVaR 1/2, initial state, transpiling (layout + routing swap)
        around batching (one foreign pub before, two after) around mutex ---- *)
Definition ex_init : ccirc := (2%nat, [GX 1]).
Definition ex_bell : ccirc := (2%nat, [GH 0; GCX 0 1]).
Definition ex_flip : ccirc := (2%nat, [GRX 0 1]).
Definition ex_other : spub ccirc cparams cwiring := (measure_all cwid (2%nat, [GX 1]), [], 1024%Z).  (* a foreign pub with ITS OWN shots *)
Definition ex_obs : cobs := [(1%Q, [(0, PZ); (1, PZ)]); ((1 # 2)%Q, [(0, PZ)])].
Definition ex_stack : stack ccirc clayout (spub ccirc cparams cwiring) :=
  STranspile (pm_route [(0, 2)] [(1, 2)]) (SBatch [ex_other] [ex_other; ex_other] (SMutex SRaw)).

Lemma example_batch_sampler :
  stack_ok csem cpermute ex_stack
  /\ eval_operator_sampler ccompose cwid cagg_op (wrap_sampler cwmap ex_stack (pointwise csampler1)) 64 ex_obs (1 # 2)
                           (Some ex_init) [ex_bell; ex_flip] [[]; [3%Z]] = Ok [(-3 # 2)%Q; (3 # 2)%Q]
  /\ map (objective_op csem ccompose capply cwid cread ccounts_of cagg_op 64 ex_obs (1 # 2) (Some ex_init))
         (combine [ex_bell; ex_flip] [[]; [3%Z]]) = [(-3 # 2)%Q; (3 # 2)%Q]
  /\ wf_call (Some ex_init) [ex_bell; ex_flip] [[]; [3%Z]] = true
  /\ wf_sampler_call 64 (Some ex_init) [ex_bell; ex_flip] [[]; [3%Z]] = true.
Proof.
  split; [split; [apply pm_route_preserving | exact I]|].
  repeat split; vm_compute; reflexivity.
Qed.

(* ---- unsimplified operators: repeated Pauli strings add up (the value is the sum over ALL terms) ---- *)
Lemma diag_value_app a b k : (diag_value (a ++ b) k == diag_value a k + diag_value b k)%Q.
Proof.
  unfold diag_value. induction a as [|[c t] a IH]; simpl.
  - ring.
  - rewrite IH. ring.
Qed.
Lemma cexpect_app a b s : (cexpect (a ++ b) s == cexpect a s + cexpect b s)%Q.
Proof.
  unfold cexpect. rewrite !Qred_correct. induction a as [|[c t] a IH]; simpl.
  - ring.
  - rewrite IH. ring.
Qed.
Definition rep_obs2 : cobs :=
  [(1%Q, [(0%N, PZ)]); ((1 # 2)%Q, [(0%N, PZ)]); (2%Q, []); (1%Q, []); ((3 # 2)%Q, [(1%N, PZ)]); ((-3 # 2)%Q, [(1%N, PZ)])].
Definition rep_obs1 : cobs := [(1%Q, [(0%N, PZ)]); ((1 # 2)%Q, [(0%N, PZ)]); (2%Q, []); (1%Q, [])].
Lemma repeated_terms_example :
  (diag_value rep_obs2 [true; true] == 3 # 2)%Q /\ (cexpect rep_obs1 [1%N] == 3 # 2)%Q.
Proof. split; vm_compute; reflexivity. Qed.
