(* Correspondence entry point for C03: a case is one evaluate_circuits() call of a real evaluator (classical-instance
   circuits, exact primitives) through a wrapper stack, together with what the implementation returned.
   check_case says whether the model returns the same (values within 1e-9). *)
From QV Require Import Eval.Pipeline Eval.ClassicalInst.
From Coq Require Import Qabs.

Inductive layer : Type :=
| LMutex
| LTr (pi swaps : clayout)                                            (* transpiling wrapper; layout pi, routing swaps *)
| LBatch (before after : list (ccirc * cobs * cparams * Z)).         (* pubs of the callers that entered before / after:
                                                                         circuit, their observable (estimator), parameters, THEIR shots (sampler) *)

Inductive ekind : Type :=
| KOpSampler (ob : cobs) (alpha : Q) (shots : Z)
| KBits (f : cbitfun) (alpha : Q) (shots : Z)
| KEst (ob : cobs).

Record c03case : Type := mkcase {
  c_kind : ekind; c_init : option ccirc; c_circuits : list ccirc; c_pvals : list cparams;
  c_layers : list layer;        (* outermost first *)
  c_legacy : bool;              (* which transpiling-estimator variant to run *)
  c_tol : Q;                    (* comparison tolerance: relative resolution x sum of |coefficients| (or max |table entry|) *)
  c_expected : result (list Q)  (* what the implementation returned *)
}.

Definition sstack (ls : list layer) : stack ccirc clayout (spub ccirc cparams cwiring) :=
  fold_right (fun l s => match l with
                         | LMutex => SMutex s
                         | LTr pi sw => STranspile (pm_route pi sw) s
                         | LBatch b a =>
                             let mk := map (fun cops : ccirc * cobs * cparams * Z =>
                                             (measure_all cwid (fst (fst (fst cops))), snd (fst cops), snd cops)) in
                             SBatch (mk b) (mk a) s
                         end) SRaw ls.
Definition estack (ls : list layer) : stack ccirc clayout (epub ccirc cobs cparams) :=
  fold_right (fun l s => match l with
                         | LMutex => SMutex s
                         | LTr pi sw => STranspile (pm_route pi sw) s
                         | LBatch b a => SBatch (map fst b) (map fst a) s
                         end) SRaw ls.

Definition raw_sampler : sprim ccirc cparams cwiring coutcome := pointwise (ideal_sampler1 csem cread ccounts_of).
Definition raw_estimator : eprim ccirc cobs cparams := pointwise (ideal_estimator1 csem cexpect).

Definition model_run (c : c03case) : result (list Q) :=
  match c_kind c with
  | KOpSampler ob alpha shots =>
      eval_operator_sampler ccompose cwid cagg_op (wrap_sampler cwmap (sstack (c_layers c)) raw_sampler)
                            shots ob alpha (c_init c) (c_circuits c) (c_pvals c)
  | KBits f alpha shots =>
      eval_bitstring ccompose cwid cagg_bits (wrap_sampler cwmap (sstack (c_layers c)) raw_sampler)
                     shots f alpha (c_init c) (c_circuits c) (c_pvals c)
  | KEst ob =>
      eval_estimator ccompose (wrap_estimator crelabel (c_legacy c) (estack (c_layers c)) raw_estimator)
                     ob (c_init c) (c_circuits c) (c_pvals c)
  end.

(* the objective, without any wrapper (the right-hand side of the C03 theorems) *)
Definition model_objective (c : c03case) : list Q :=
  match c_kind c with
  | KOpSampler ob alpha shots =>
      map (objective_op csem ccompose capply cwid cread ccounts_of cagg_op shots ob alpha (c_init c)) (combine (c_circuits c) (c_pvals c))
  | KBits f alpha shots =>
      map (objective_bits csem ccompose capply cwid cread ccounts_of cagg_bits shots f alpha (c_init c)) (combine (c_circuits c) (c_pvals c))
  | KEst ob => map (objective_est csem capply cexpect ob (c_init c)) (combine (c_circuits c) (c_pvals c))
  end.

(* the case lies in the domain on which the instance describes Qiskit: no default of ClassicalInst.v is used *)
Definition wf_case (c : c03case) : bool :=
  wf_call (c_init c) (c_circuits c) (c_pvals c)
  && match c_kind c with
     | KOpSampler _ alpha shots => alpha_ok alpha && wf_sampler_call shots (c_init c) (c_circuits c) (c_pvals c)
     | KBits f alpha shots =>
         alpha_ok alpha && wf_sampler_call shots (c_init c) (c_circuits c) (c_pvals c)
         && forallb (fun cc : ccirc => wf_table (fst cc) f) (c_circuits c)
     | KEst _ => true
     end.

(* values are compared relative to the scale of the objective (the tolerance is part of the case), never to an absolute constant *)
Definition close (tol x y : Q) : bool := Qle_bool (Qabs (x - y)) tol.
Definition check_case (c : c03case) : bool := wf_case c && result_eqb (list_eqb (close (c_tol c))) (model_run c) (c_expected c).
Definition check_objective (c : c03case) : bool := result_eqb (list_eqb (close (c_tol c))) (Ok (model_objective c)) (c_expected c).
Definition show_case (c : c03case) : bool * result (list Q) * list Q := (wf_case c, model_run c, model_objective c).
