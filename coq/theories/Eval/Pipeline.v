(* C03 — the evaluation pipeline of queasars/circuit_evaluation: the glue between a circuit evaluator and a
   Qiskit primitive, through the transpiling / mutex / batching wrappers.

   Qiskit's primitives and transpiler are not modelled.  The quantum semantics is an explicit parameter
   (Section variables below); its laws are Section hypotheses of Eval/Pipeline_proofs.v and therefore premises
   of every theorem.  Eval/ClassicalInst.v instantiates the parameters executably and proves the laws for it.

   Definitions only.  Anchors (files under /repo/queasars/circuit_evaluation):
     measure_quasi_distributions  circuit_evaluation.py:29-59
     the three evaluators         circuit_evaluation.py:147-157, 200-215, 271-287
     transpiling wrappers         transpiling_primitives.py:38-49, 67-88
     mutex wrappers               mutex_primitives.py:216-219, 281-284
     batching wrappers            mutex_primitives.py:253-260, 317-324 (result slice [start, start+n)) *)
From QV Require Export Common.Base.
From Coq Require Export QArith.
Set Implicit Arguments.

Section Pipeline.
  (* ---- the quantum semantics: parameters ---- *)
  Variables circ state obs params layout wiring dist outcome bitfun : Type.
  Variable sem : circ -> params -> state.            (* state prepared from |0..0> by the bound circuit *)
  Variable compose : circ -> circ -> circ.            (* a.compose(c) *)
  Variable apply : circ -> params -> state -> state.  (* the bound circuit acting on a given state; the law
                                                         sem (compose a c) p = apply c p (sem a p) ("first a, then c") is a
                                                         premise of the theorems (Pipeline_proofs.v) *)
  Variable permute : layout -> state -> state.        (* the state with its qubits moved along a layout *)
  Variable relabel : layout -> obs -> obs.            (* ObservablesArray.apply_layout *)
  Variable wid : circ -> wiring.                      (* measure_all: clbit i of "meas" reads qubit i *)
  Variable wmap : layout -> wiring -> wiring.         (* what a pass manager does to the measurements *)
  Variable read : wiring -> state -> dist.            (* distribution of the classical register *)
  Variable expect : obs -> state -> Q.                (* real part of <s|ob|s> *)
  Variable counts_of : Z -> dist -> list (outcome * Z). (* what the raw sampler reports for `shots` shots *)
  Variable agg_op : obs -> Q -> list (outcome * Q) -> Q.     (* get_expectation_with_operator (C14) *)
  Variable agg_bits : bitfun -> Q -> list (outcome * Q) -> Q. (* get_expectation_with_bitstring_evaluator (C14) *)

  (* ---- pubs, primitives ---- *)
  Definition counts : Type := list (outcome * Z).
  Definition quasi : Type := list (outcome * Q).
  Definition mcirc : Type := (circ * wiring)%type.                (* a circuit with its final measurements *)
  Definition spub : Type := (mcirc * params * Z)%type.            (* (circuit, parameter values, shots) *)
  Definition epub : Type := (circ * obs * params)%type.           (* (circuit, observable, parameter values) *)
  Definition sprim : Type := list spub -> result (list counts).
  Definition eprim : Type := list epub -> result (list Q).

  (* A primitive is a pointwise oracle: run pubs = map run1 pubs. *)
  Definition pointwise {P R : Type} (run1 : P -> R) : list P -> result (list R) := fun pubs => Ok (map run1 pubs).

  (* The ideal raw primitives determined by the semantics. *)
  Definition ideal_sampler1 (pub : spub) : counts :=
    let '((c, w), p, shots) := pub in counts_of shots (read w (sem c p)).
  Definition ideal_estimator1 (pub : epub) : Q :=
    let '(c, ob, p) := pub in expect ob (sem c p).

  (* ---- pass managers ---- *)
  Record passmgr : Type := { pm_run : circ -> circ; pm_layout : circ -> layout }.

  (* "semantics-preserving": the transpiled circuit prepares the same state, on the qubits its layout names *)
  Definition sem_preserving (T : passmgr) : Prop :=
    forall c p, sem (pm_run T c) p = permute (pm_layout T c) (sem c p).

  (* TranspilingSamplerV2.run: (pass_manager.run(pub[0]), *pub[1:]), shots passed on *)
  Definition tr_spub (T : passmgr) (pub : spub) : spub :=
    let '((c, w), p, shots) := pub in ((pm_run T c, wmap (pm_layout T c) w), p, shots).

  (* TranspilingEstimatorV2.run.  legacy = true: the behaviour before fix c0786a5 (observable left on the
     virtual qubits); legacy = false: observables.apply_layout(circuit.layout). *)
  Definition tr_epub (legacy : bool) (T : passmgr) (pub : epub) : epub :=
    let '(c, ob, p) := pub in (pm_run T c, if legacy then ob else relabel (pm_layout T c) ob, p).

  (* ---- wrapper stacks ---- *)
  Inductive stack (P : Type) : Type :=
  | SRaw                                                  (* the raw primitive *)
  | SMutex (s : stack P)                                  (* MutexSampler / MutexEstimator *)
  | STranspile (T : passmgr) (s : stack P)                (* TranspilingSamplerV2 / TranspilingEstimatorV2 *)
  | SBatch (before after : list P) (s : stack P).         (* BatchingMutex*: this caller's pubs sit between the
                                                             pubs of the callers that entered before / after *)
  Arguments SRaw {P}.

  (* [result[i] for i in range(start, start + n)] *)
  Definition slice {A : Type} (start n : nat) (l : list A) : result (list A) :=
    if (start + n <=? length l)%nat then Ok (firstn n (skipn start l)) else Err "IndexError".

  Fixpoint wrap {P R : Type} (tr : passmgr -> P -> P) (st : stack P)
           (raw : list P -> result (list R)) (pubs : list P) : result (list R) :=
    match st with
    | SRaw => raw pubs
    | SMutex s => wrap tr s raw pubs
    | STranspile T s => wrap tr s raw (map (tr T) pubs)
    | SBatch b a s => do r <- wrap tr s raw (b ++ pubs ++ a); slice (length b) (length pubs) r
    end.

  Definition wrap_sampler (st : stack spub) (raw : sprim) : sprim := wrap tr_spub st raw.
  Definition wrap_estimator (legacy : bool) (st : stack epub) (raw : eprim) : eprim := wrap (tr_epub legacy) st raw.

  Fixpoint stack_ok {P : Type} (st : stack P) : Prop :=
    match st with
    | SRaw => True
    | SMutex s => stack_ok s
    | STranspile T s => sem_preserving T /\ stack_ok s
    | SBatch _ _ s => stack_ok s
    end.

  (* ---- measure_quasi_distributions ---- *)
  Definition quasi_of (shots : Z) (c : counts) : quasi :=
    map (fun kc => (fst kc, inject_Z (snd kc) / inject_Z shots)) c.
  Definition to_quasi (shots : Z) (c : counts) : result quasi :=
    match c with
    | [] => Ok []
    | _ => if (shots =? 0)%Z then Err "ZeroDivisionError" else Ok (quasi_of shots c)
    end.
  Definition measure_all (c : circ) : mcirc := (c, wid c).

  Definition measure_quasi_distributions (sampler : sprim) (circuits : list circ) (pvals : list params)
             (shots : Z) : result (list quasi) :=
    let mcs := map measure_all circuits in
    let pubs := map (fun cp => (fst cp, snd cp, shots)) (combine mcs pvals) in
    do cs <- sampler pubs;
    mapM (to_quasi shots) cs.

  (* ---- evaluators ---- *)
  Definition with_init (init : option circ) (c : circ) : circ :=
    match init with Some a => compose a c | None => c end.

  Definition alpha_ok (alpha : Q) : bool := negb (Qle_bool alpha 0) && Qle_bool alpha 1.

  Definition eval_operator_sampler (sampler : sprim) (shots : Z) (ob : obs) (alpha : Q) (init : option circ)
             (circuits : list circ) (pvals : list params) : result (list Q) :=
    if negb (alpha_ok alpha) then Err "ValueError" else
    do qd <- measure_quasi_distributions sampler (map (with_init init) circuits) pvals shots;
    Ok (map (agg_op ob alpha) qd).

  Definition eval_bitstring (sampler : sprim) (shots : Z) (f : bitfun) (alpha : Q) (init : option circ)
             (circuits : list circ) (pvals : list params) : result (list Q) :=
    if negb (alpha_ok alpha) then Err "ValueError" else
    do qd <- measure_quasi_distributions sampler (map (with_init init) circuits) pvals shots;
    Ok (map (agg_bits f alpha) qd).

  Definition eval_estimator (estimator : eprim) (ob : obs) (init : option circ)
             (circuits : list circ) (pvals : list params) : result (list Q) :=
    estimator (map (fun cp => (fst cp, ob, snd cp)) (combine (map (with_init init) circuits) pvals)).

  (* ---- the objective (specification side) ---- *)
  (* the state of "initial state followed by the bound circuit": the bound circuit APPLIED TO the state the initial-state
     circuit prepares — stated with `apply`, not with `compose`, so that the theorems say in which order the evaluators
     must compose *)
  Definition prepared (init : option circ) (c : circ) (p : params) : state :=
    match init with Some a => apply c p (sem a p) | None => sem c p end.
  (* its measurement distribution at the resolution of the primitive: what the raw sampler reports, as probabilities *)
  Definition resolved (shots : Z) (init : option circ) (c : circ) (p : params) : quasi :=
    quasi_of shots (counts_of shots (read (wid (with_init init c)) (prepared init c p))).
  Definition objective_op (shots : Z) (ob : obs) (alpha : Q) (init : option circ) (cp : circ * params) : Q :=
    agg_op ob alpha (resolved shots init (fst cp) (snd cp)).
  Definition objective_bits (shots : Z) (f : bitfun) (alpha : Q) (init : option circ) (cp : circ * params) : Q :=
    agg_bits f alpha (resolved shots init (fst cp) (snd cp)).
  Definition objective_est (ob : obs) (init : option circ) (cp : circ * params) : Q :=
    expect ob (prepared init (fst cp) (snd cp)).
End Pipeline.
Arguments SRaw {circ layout P}.
