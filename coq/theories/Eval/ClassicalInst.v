(* C03 — an executable instance of the semantics parameters of Eval/Pipeline.v.

   Circuits: X, CX, SWAP, RX(k*pi) with an integer parameter k, and H on a qubit that is still |0> and
   unentangled ("fresh").  Every such circuit prepares, up to a global phase, a uniform superposition with equal
   positive amplitudes over a set S of computational basis states; the state is represented by the list S.
   A basis state is an N (bit q = qubit q), so equal states are equal terms.  All probabilities are dyadic and
   all expectation values exact rationals.  The laws of Pipeline_proofs.v are proved for this instance in
   Eval/ClassicalInst_proofs.v, for all gate lists (the functions below are total; they describe Qiskit only on
   circuits whose H gates are fresh, which is what the harness generates).  Definitions only. *)
From QV Require Export Eval.Pipeline.
From Coq Require Export NArith.
Set Implicit Arguments.

Inductive gate : Type :=
| GX (q : N)
| GCX (c t : N)
| GSWAP (a b : N)
| GRX (j : nat) (q : N)      (* rx(theta_j), theta_j = k_j * pi, k_j the j-th parameter value *)
| GH (q : N).

Definition ccirc : Type := (nat * list gate)%type.      (* number of qubits, gates *)
Definition cparams : Type := list Z.                    (* parameter j is k_j (angle k_j * pi) *)
Definition cstate : Type := list N.
Definition clayout : Type := list (N * N).              (* a product of transpositions of qubit positions, applied left to right:
                                                           always a bijection, any width *)
Definition cwiring : Type := list N.                    (* clbit j reads qubit (nth j w) *)
Definition coutcome : Type := list bool.                (* clbit 0 first *)
Definition cdist : Type := list coutcome.               (* the uniform distribution over the entries (with multiplicity) *)

Definition flip (q x : N) : N := N.lxor x (2 ^ q).
Definition swapbits (a b x : N) : N :=
  if Bool.eqb (N.testbit x a) (N.testbit x b) then x else N.lxor x (N.lxor (2 ^ a) (2 ^ b)).
Definition transp (a b i : N) : N := if (i =? a)%N then b else if (i =? b)%N then a else i.

Definition apply_gate (p : cparams) (s : cstate) (g : gate) : cstate :=
  match g with
  | GX q => map (flip q) s
  | GCX c t => map (fun x => if N.testbit x c then flip t x else x) s
  | GSWAP a b => map (swapbits a b) s
  | GRX j q => if Z.odd (nth j p 0%Z) then map (flip q) s else s
  | GH q => s ++ map (flip q) s
  end.
Definition run_gates (p : cparams) (gs : list gate) (s : cstate) : cstate := fold_left (apply_gate p) gs s.
Definition csem (c : ccirc) (p : cparams) : cstate := run_gates p (snd c) [0%N].
Definition ccompose (a c : ccirc) : ccirc := (Nat.max (fst a) (fst c), snd a ++ snd c).
Definition capply (c : ccirc) (p : cparams) (s : cstate) : cstate := run_gates p (snd c) s.

Definition permq (pi : clayout) (q : N) : N := fold_left (fun q ab => transp (fst ab) (snd ab) q) pi q.
Definition permN (pi : clayout) (x : N) : N := fold_left (fun x ab => swapbits (fst ab) (snd ab) x) pi x.
Definition cpermute (pi : clayout) (s : cstate) : cstate := map (permN pi) s.

(* observables: real linear combinations of Pauli strings, a string given by its non-identity factors *)
Inductive pauli : Type := PX | PY | PZ.
Definition pterm : Type := list (N * pauli).
Definition cobs : Type := list (Q * pterm).
Definition relabel_term (pi : clayout) (t : pterm) : pterm := map (fun qp => (permq pi (fst qp), snd qp)) t.
Definition crelabel (pi : clayout) (ob : cobs) : cobs := map (fun ct => (fst ct, relabel_term pi (snd ct))) ob.

(* P = i^ny X^a Z^b  (Y = i X Z):  <S|P|S> = i^ny / |S| * sum_{x in S} (-1)^(b.x) [x xor a in S] *)
Definition xmask (t : pterm) : N :=
  fold_right (fun qp m => match snd qp with PZ => m | _ => flip (fst qp) m end) 0%N t.
Definition zpar (t : pterm) (x : N) : bool :=
  fold_right (fun qp b => match snd qp with PX => b | _ => xorb (N.testbit x (fst qp)) b end) false t.
Definition ycount (t : pterm) : nat := length (filter (fun qp => match snd qp with PY => true | _ => false end) t).
Definition yphase (n : nat) : Z := match (n mod 4)%nat with 0%nat => 1 | 2%nat => -1 | _ => 0 end.
Definition memN (y : N) (s : cstate) : bool := existsb (N.eqb y) s.
Definition contrib (t : pterm) (s : cstate) (x : N) : Z :=
  if memN (N.lxor x (xmask t)) s then (if zpar t x then -1 else 1)%Z else 0%Z.
Definition term_expect (t : pterm) (s : cstate) : Q :=
  inject_Z (yphase (ycount t) * sumZ (map (contrib t s) s)) / inject_Z (Z.of_nat (length s)).
Definition cexpect (ob : cobs) (s : cstate) : Q :=
  Qred (fold_right (fun ct acc => fst ct * term_expect (snd ct) s + acc) 0 ob).

(* measurements *)
Definition cwid (c : ccirc) : cwiring := map N.of_nat (seq 0 (fst c)).
Definition cwmap (pi : clayout) (w : cwiring) : cwiring := map (permq pi) w.
Definition cread (w : cwiring) (s : cstate) : cdist := map (fun x => map (N.testbit x) w) s.

Definition outcome_eqb : coutcome -> coutcome -> bool := list_eqb Bool.eqb.
Fixpoint dedup (d : cdist) : cdist :=
  match d with
  | [] => []
  | k :: t => k :: filter (fun k' => negb (outcome_eqb k k')) (dedup t)
  end.
Definition occurrences (k : coutcome) (d : cdist) : Z := Z.of_nat (length (filter (outcome_eqb k) d)).
(* an exact sampler: counts proportional to the probabilities (exact whenever shots * multiplicity is divisible) *)
Definition ccounts_of (shots : Z) (d : cdist) : list (coutcome * Z) :=
  map (fun k => (k, (shots * occurrences k d / Z.of_nat (length d))%Z)) (dedup d).

(* aggregation (the specification of C14: mean over the lowest-valued alpha mass) *)
Fixpoint insert_v (x : Q * Q) (l : list (Q * Q)) : list (Q * Q) :=
  match l with
  | [] => [x]
  | y :: ys => if Qle_bool (fst x) (fst y) then x :: l else y :: insert_v x ys
  end.
Definition sort_v (l : list (Q * Q)) : list (Q * Q) := fold_right insert_v [] l.
Fixpoint take_mass (l : list (Q * Q)) (rem : Q) : Q :=
  match l with
  | [] => 0
  | (v, p) :: t => let q := if Qle_bool p rem then p else rem in Qred (q * v + take_mass t (Qred (rem - q)))
  end.
Definition cvar (alpha : Q) (l : list (Q * Q)) : Q := Qred (take_mass (sort_v l) alpha / alpha).

(* value of a diagonal operator (I/Z strings) on an outcome; bit q of the outcome is qubit q *)
Definition bit_of (k : coutcome) (q : N) : bool := nth (N.to_nat q) k false.
Definition diag_term (t : pterm) (k : coutcome) : Q :=
  if fold_right (fun qp b => xorb (bit_of k (fst qp)) b) false t then -1 else 1.
Definition diag_value (ob : cobs) (k : coutcome) : Q :=
  fold_right (fun ct acc => fst ct * diag_term (snd ct) k + acc) 0 ob.
Definition cagg_op (ob : cobs) (alpha : Q) (qd : list (coutcome * Q)) : Q :=
  cvar alpha (map (fun kp => (diag_value ob (fst kp), snd kp)) qd).

(* bitstring functions: a table indexed by int(bitstring, 2), i.e. sum_q bit_q 2^q *)
Definition cbitfun : Type := list Q.
Fixpoint int_of (k : coutcome) : nat := match k with [] => 0 | b :: t => (if b then 1 else 0) + 2 * int_of t end.
Definition cagg_bits (f : cbitfun) (alpha : Q) (qd : list (coutcome * Q)) : Q :=
  cvar alpha (map (fun kp => (nth (int_of (fst kp)) f 0, snd kp)) qd).

(* ---- well-formedness: the inputs on which the total functions above describe Qiskit ----
   The functions of this file are total and use defaults (a missing parameter reads as 0, a missing table entry as 0,
   counts are floor(shots * p), H on a touched qubit is computed as on a fresh one).  The laws and theorems hold for all
   inputs; they MEAN Qiskit's behaviour only where no default is used.  wf_call / wf_sampler_call / wf_table say so
   explicitly; they are premises of the classical theorems in Props/C03.v, and EvalCheck.check_case fails for a case that
   violates them (so every generated case is asserted to satisfy them on every run). *)
Definition qubit_ok (n : nat) (q : N) : bool := (N.to_nat q <? n)%nat.
Definition touched (q : N) (t : list N) : bool := existsb (N.eqb q) t.
(* returns the touched qubits after the gates, None if some gate is ill-formed: qubit out of range, parameter index out of
   range, control = target, H on a qubit that is not fresh *)
Fixpoint wf_gates (n np : nat) (t : list N) (gs : list gate) : option (list N) :=
  match gs with
  | [] => Some t
  | g :: gs' =>
      match g with
      | GX q => if qubit_ok n q then wf_gates n np (q :: t) gs' else None
      | GCX c x => if qubit_ok n c && qubit_ok n x && negb (c =? x)%N then wf_gates n np (c :: x :: t) gs' else None
      | GSWAP a b => if qubit_ok n a && qubit_ok n b && negb (a =? b)%N then wf_gates n np (a :: b :: t) gs' else None
      | GRX j q => if (j <? np)%nat && qubit_ok n q then wf_gates n np (q :: t) gs' else None
      | GH q => if qubit_ok n q && negb (touched q t) then wf_gates n np (q :: t) gs' else None
      end
  end.
(* one evaluate_circuits call: circuit i has exactly as many parameters as its value vector is long (parameter indices
   beyond it are ill-formed); the initial-state circuit has none and the same width *)
Definition wf_pair (t : list N) (cp : ccirc * cparams) : bool :=
  match wf_gates (fst (fst cp)) (length (snd cp)) t (snd (fst cp)) with Some _ => true | None => false end.
Definition wf_call (init : option ccirc) (circuits : list ccirc) (pvals : list cparams) : bool :=
  (length circuits =? length pvals)%nat
  && match init with
     | None => forallb (wf_pair []) (combine circuits pvals)
     | Some a =>
         match wf_gates (fst a) 0 [] (snd a) with
         | None => false
         | Some t => forallb (fun cp : ccirc * cparams => (fst (fst cp) =? fst a)%nat && wf_pair t cp) (combine circuits pvals)
         end
     end.
(* the exact sampler's counts are exact: shots * multiplicity is divisible by the number of support elements *)
Definition counts_exact (shots : Z) (d : cdist) : bool :=
  (0 <? shots)%Z && negb (length d =? 0)%nat
  && forallb (fun k => (shots * occurrences k d mod Z.of_nat (length d) =? 0)%Z) (dedup d).
Definition wf_sampler_call (shots : Z) (init : option ccirc) (circuits : list ccirc) (pvals : list cparams) : bool :=
  forallb (fun cp : ccirc * cparams =>
             let c := with_init ccompose init (fst cp) in counts_exact shots (cread (cwid c) (csem c (snd cp))))
          (combine circuits pvals).
Definition wf_table (n : nat) (f : list Q) : bool := (length f =? 2 ^ n)%nat.

(* pass managers of the instance: place virtual qubit q on position (permq pi q), then append swaps (routing);
   the reported layout is pi followed by the swaps *)
Definition rename_gate (pi : clayout) (g : gate) : gate :=
  match g with
  | GX q => GX (permq pi q)
  | GCX c t => GCX (permq pi c) (permq pi t)
  | GSWAP a b => GSWAP (permq pi a) (permq pi b)
  | GRX j q => GRX j (permq pi q)
  | GH q => GH (permq pi q)
  end.
Definition pm_route (pi : clayout) (swaps : clayout) : passmgr ccirc clayout :=
  {| pm_run := fun c => (fst c, map (rename_gate pi) (snd c) ++ map (fun ab => GSWAP (fst ab) (snd ab)) swaps);
     pm_layout := fun _ => pi ++ swaps |}.
(* the trivial pass manager (what the level-0 preset manager without a coupling map amounts to) *)
Definition pm_identity : passmgr ccirc clayout := {| pm_run := fun c => c; pm_layout := fun _ => [] |}.
