(* C12 — termination limits are honoured.
   Property theorems only: each closed by `exact <lemma>` and followed (after the section) by Print Assumptions.

   Model: Solver/Loop.v.  `trace cfg wd fuel` is the ghost trace of the run: TStart (operator started, with the ledger,
   n_generations and estimate as they were then), TEv (callback invoked), TCrit (criterion consulted, with its answer).
   The statements about the trace hold for EVERY run — whatever its outcome (returned, raised, operator raised, out
   of fuel) and for every fuel — so in particular for every prefix of every run.

   Hypothesis `single_result` (no operator application reports two results): this is the documented callback protocol
   (OperatorContext.result_callback "marks the end of the current generation after the current operation has
   finished"), it holds for every EVQE operator, and the two clauses that carry it are FALSE without it — the loop
   consults its limits only between applications, and `terminate` is assigned (not or-ed) from the criterion's
   answer: see C12_criterion_stops_needs_single_result.  The hypothesis-free forms are C12_start_sees_generations
   and C12_criterion_last_answer.

   evqe_shape (the hypothesis of the *_evqe theorems) is a statement about the world; here it is an assumption checked on
   every recorded real run.  builder-repro composes this loop model with the models of the EVQE operators
   (Repro/Compose.v) and instantiates the *_evqe theorems for that composed model without the shape hypothesis; those
   closed instances are stated in Props/C17.v (names C17_run_...), not here. *)
From QV Require Import Common.Base Solver.Loop Solver.Ledger Solver.Ledger_proofs Solver.Loop_proofs Solver.Exact_proofs
  Solver.Shape_proofs Solver.SolverCheck.
From Coq Require Import QArith.

Section C12.
  Variables Ind R Pop Op W Init Dist AuxEv AV : Type.
  Variable best_value : R -> Q.
  Variable best_ind : R -> Ind.
  Notation config := (config Ind R Op Init AuxEv).
  Notation world := (world Ind R Pop Op W Init Dist AuxEv AV).
  Notation solve := (solve Ind R Pop Op W Init Dist AuxEv AV best_value best_ind).
  Notation run := (run Ind R Pop Op W Init Dist AuxEv AV best_value best_ind).
  Notation trace := (trace Ind R Pop Op W Init Dist AuxEv AV best_value best_ind).
  Notation events_of := (events_of Ind R Pop Op).
  Notation n_results := (n_results Ind R Pop Op).
  Notation is_start := (is_start Ind R Pop Op).
  Notation single_result := (single_result Ind R Pop Op).
  Notation last_crit := (last_crit Ind R Pop Op).

  (* never more generations than the maximum (a negative maximum counts as 0) *)
  Theorem C12_max_generations : forall (cfg : config) (wd : world) fuel G,
    cfg_max_generations _ _ _ _ _ cfg = Some G ->
    single_result (trace cfg wd fuel) ->
    (Z.of_nat (n_results (trace cfg wd fuel)) <= Z.max 0 G)%Z.
  Proof. exact (max_generations_respected Ind R Pop Op W Init Dist AuxEv AV best_value best_ind). Qed.

  (* hypothesis-free form: an operator is only ever started while n_generations < max_generations, and the
     n_generations it sees is the number of results reported before *)
  Theorem C12_start_sees_generations : forall (cfg : config) (wd : world) fuel t1 op pop led ng est t2,
    trace cfg wd fuel = t1 ++ TStart op pop led ng est :: t2 ->
    ng = n_results t1 /\ forall G, cfg_max_generations _ _ _ _ _ cfg = Some G -> (Z.of_nat ng < G)%Z.
  Proof. exact (start_sees_generations Ind R Pop Op W Init Dist AuxEv AV best_value best_ind). Qed.

  (* Why G + 1 passes of fuel and not G: the loop notices that the maximum is reached only at the limit check in front
     of the NEXT operator.  If the G-th result is reported by the last operator of a pass, that pass ends with
     `terminate` still False, `while not terminate` enters one more pass, and its first limit check sets the flag and
     breaks without starting anything — Python needs that extra (empty) pass as well; with fuel G the model answers
     Err OutOfFuel for such operator lists (e.g. steady_world: fuel 3 for G = 3 is an error, fuel 4 returns).
     max_generations = G >= 1 the only limit, applications report at most one result and do not raise, every complete
     pass over the operators reports a result, fuel for G + 1 passes: the run returns, with exactly G generations, and
     the last application that was started is one that reported a result (nothing is started after the G-th result) *)
  Theorem C12_max_generations_exact : forall (cfg : config) (wd : world) G,
    cfg_max_generations _ _ _ _ _ cfg = Some G ->
    cfg_max_evals _ _ _ _ _ cfg = None ->
    cfg_criterion _ _ _ _ _ cfg = None ->
    (1 <= G)%Z ->
    (forall op w pop, (length (results_of R (fst (fst (w_apply _ _ _ _ _ _ _ _ _ wd op w pop)))) <= 1)%nat) ->
    (forall op w pop, exists p, snd (fst (w_apply _ _ _ _ _ _ _ _ _ wd op w pop)) = Ok p) ->
    (forall w pop, (1 <= pass_results Ind R Pop Op W Init Dist AuxEv AV wd (cfg_ops _ _ _ _ _ cfg) w pop)%nat) ->
    forall fuel, (Z.to_nat G + 1 <= fuel)%nat ->
    exists tr res, solve cfg wd fuel = (tr, Ok res)
      /\ Z.of_nat (sr_generations _ _ _ _ _ res) = G
      /\ Z.of_nat (n_results tr) = G
      /\ last_app_has_result Ind R Pop Op tr.
  Proof. exact (max_generations_exact Ind R Pop Op W Init Dist AuxEv AV best_value best_ind). Qed.

  (* max_generations <= 0 (whatever the other limits): nothing is started and the solve raises *)
  Theorem C12_max_generations_nonpositive : forall (cfg : config) (wd : world) fuel G,
    cfg_max_generations _ _ _ _ _ cfg = Some G -> (G <= 0)%Z -> cfg_ops _ _ _ _ _ cfg <> [] -> (1 <= fuel)%nat ->
    solve cfg wd fuel = ([], Err NothingEvaluated).
  Proof. exact (max_generations_nonpositive Ind R Pop Op W Init Dist AuxEv AV best_value best_ind). Qed.

  (* at the start of every application the ledger sums to everything reported so far, that sum is below the budget,
     and so is sum + estimate when the operator gave an estimate *)
  Theorem C12_budget : forall (cfg : config) (wd : world) fuel B t1 op pop led ng est t2,
    cfg_max_evals _ _ _ _ _ cfg = Some B ->
    trace cfg wd fuel = t1 ++ TStart op pop led ng est :: t2 ->
    sumZ led = sumZ (counts_of R (events_of t1))
    /\ (sumZ led < B)%Z
    /\ (forall e, est = Some e -> (sumZ led + e < B)%Z).
  Proof. exact (budget_respected Ind R Pop Op W Init Dist AuxEv AV best_value best_ind). Qed.

  (* once the criterion answered 'terminate' no further operator is applied *)
  Theorem C12_criterion_stops : forall (cfg : config) (wd : world) fuel t1 r bi bv t2,
    single_result (trace cfg wd fuel) ->
    trace cfg wd fuel = t1 ++ TCrit r bi bv true :: t2 ->
    existsb is_start t2 = false.
  Proof. exact (criterion_stops Ind R Pop Op W Init Dist AuxEv AV best_value best_ind). Qed.

  (* hypothesis-free form: whenever an operator is started, the most recent answer of the criterion (if any) was
     'continue' — the last answer given during an application decides *)
  Theorem C12_criterion_last_answer : forall (cfg : config) (wd : world) fuel t1 op pop led ng est t2,
    trace cfg wd fuel = t1 ++ TStart op pop led ng est :: t2 -> last_crit t1 <> Some true.
  Proof. exact (criterion_last_answer Ind R Pop Op W Init Dist AuxEv AV best_value best_ind). Qed.

  (* single_result (and counted) hold in every world whose operator applications report what the EVQE operators report
     (nothing / one count / one count then one result), so for those worlds the two clauses need no hypothesis *)
  Theorem C12_evqe_shape_single_result : forall (cfg : config) (wd : world) fuel,
    (forall op w pop, evqe_shape R (fst (fst (w_apply _ _ _ _ _ _ _ _ _ wd op w pop)))) ->
    single_result (trace cfg wd fuel) /\ counted R (events_of (trace cfg wd fuel)).
  Proof. exact (evqe_shape_hypotheses Ind R Pop Op W Init Dist AuxEv AV best_value best_ind). Qed.

  Theorem C12_max_generations_evqe : forall (cfg : config) (wd : world) fuel G,
    (forall op w pop, evqe_shape R (fst (fst (w_apply _ _ _ _ _ _ _ _ _ wd op w pop)))) ->
    cfg_max_generations _ _ _ _ _ cfg = Some G ->
    (Z.of_nat (n_results (trace cfg wd fuel)) <= Z.max 0 G)%Z.
  Proof. exact (max_generations_evqe Ind R Pop Op W Init Dist AuxEv AV best_value best_ind). Qed.

  Theorem C12_criterion_stops_evqe : forall (cfg : config) (wd : world) fuel t1 r bi bv t2,
    (forall op w pop, evqe_shape R (fst (fst (w_apply _ _ _ _ _ _ _ _ _ wd op w pop)))) ->
    trace cfg wd fuel = t1 ++ TCrit r bi bv true :: t2 ->
    existsb is_start t2 = false.
  Proof. exact (criterion_stops_evqe Ind R Pop Op W Init Dist AuxEv AV best_value best_ind). Qed.

  (* no population evaluated: the solve does not return a result; if the loop itself ended (no operator exception,
     fuel not exhausted) what it raises is the nothing-evaluated exception *)
  Theorem C12_raises_when_empty : forall (cfg : config) (wd : world) fuel tr out,
    solve cfg wd fuel = (tr, out) ->
    n_results tr = 0%nat ->
    (exists e, out = Err e) /\ (l_err _ _ _ _ _ (run cfg wd fuel) = None -> out = Err NothingEvaluated).
  Proof. exact (raises_when_empty Ind R Pop Op W Init Dist AuxEv AV best_value best_ind). Qed.
End C12.

Print Assumptions C12_max_generations.
Print Assumptions C12_start_sees_generations.
Print Assumptions C12_max_generations_exact.
Print Assumptions C12_max_generations_nonpositive.
Print Assumptions C12_budget.
Print Assumptions C12_criterion_stops.
Print Assumptions C12_criterion_last_answer.
Print Assumptions C12_evqe_shape_single_result.
Print Assumptions C12_max_generations_evqe.
Print Assumptions C12_criterion_stops_evqe.
Print Assumptions C12_raises_when_empty.

(* Why single_result is there: one application reports two results, the criterion answers 'terminate' for the first
   and 'continue' for the second — `terminate` is overwritten and the next operator IS started (and, with
   max_generations = 1 instead of 3, two generations would have been evaluated).  Outside the callback protocol; kept
   as a documented witness, run against the implementation as corpus/C12/criterion_overwrite.json. *)
Theorem C12_criterion_stops_needs_single_result :
  exists tr t1 r bi bv t2,
    fst (s_solve ex_overwrite) = tr
    /\ tr = t1 ++ TCrit r bi bv true :: t2
    /\ existsb (is_start Z cR Z nat) t2 = true
    /\ ~ single_result Z cR Z nat tr.
Proof.
  exists (fst (s_solve ex_overwrite)), (firstn 2 (fst (s_solve ex_overwrite))), ex_r0, 3%Z, (Qmake 1 2),
         (skipn 3 (fst (s_solve ex_overwrite))).
  split; [reflexivity|]. split; [vm_compute; reflexivity|]. split; [vm_compute; reflexivity|].
  intros H.
  specialize (H [TStart 0%nat 0%Z [] 0%nat None] ex_r0 [TCrit ex_r0 3%Z (Qmake 1 2) true] ex_r1
                (skipn 4 (fst (s_solve ex_overwrite))) ltac:(vm_compute; reflexivity)).
  discriminate.
Qed.
Print Assumptions C12_criterion_stops_needs_single_result.

(* Non-vacuity of C12_criterion_stops / C12_max_generations / C12_budget: concrete runs satisfying single_result in
   which the criterion does answer 'terminate', the budget is configured and operators are started *)
Example C12_example_criterion :
  single_result Z cR Z nat (fst (s_solve ex_crit_stop))
  /\ exists t1 r bi bv t2, fst (s_solve ex_crit_stop) = t1 ++ TCrit r bi bv true :: t2 /\ t1 <> []
  /\ exists res, snd (s_solve ex_crit_stop) = Ok res /\ sr_generations _ _ _ _ _ res = 1%nat.
Proof.
  split; [apply single_result_b_sound; vm_compute; reflexivity|].
  exists (firstn 3 (fst (s_solve ex_crit_stop))), ex_r0, 3%Z, (Qmake 1 2), (skipn 4 (fst (s_solve ex_crit_stop))).
  split; [vm_compute; reflexivity|]. split; [vm_compute; discriminate|].
  eexists. split; vm_compute; reflexivity.
Qed.
Print Assumptions C12_example_criterion.

Example C12_example_limits :
  single_result Z cR Z nat (fst (s_solve ex_run))
  /\ c_max_evals ex_run = Some 100%Z /\ c_max_generations ex_run = Some 2%Z
  /\ n_starts Z cR Z nat (fst (s_solve ex_run)) = 6%nat
  /\ n_results Z cR Z nat (fst (s_solve ex_run)) = 2%nat.
Proof.
  split; [apply single_result_b_sound; vm_compute; reflexivity|]. vm_compute. repeat split; reflexivity.
Qed.
Print Assumptions C12_example_limits.

(* Non-vacuity of C12_budget with a budget that BINDS (in C12_example_limits the budget of 100 is never reached): the
   only limit is max_circuit_evaluations = 5; two applications start (with 0 and 3 evaluations reported), 5 are then
   reported, the third application of the script is never started and the run returns with ledger [5] *)
Example C12_example_budget_binds :
  c_max_evals ex_budget = Some 5%Z /\ c_max_generations ex_budget = None /\ c_criterion ex_budget = None
  /\ length (sc_apps (c_script ex_budget)) = 3%nat
  /\ map (fun x => match x with (_, _, led, _, _) => led end) (m_starts (fst (s_solve ex_budget))) = [[]; [3%Z]]
  /\ exists res, snd (s_solve ex_budget) = Ok res /\ sr_circuit_evaluations _ _ _ _ _ res = [5%Z]
       /\ sr_generations _ _ _ _ _ res = 1%nat.
Proof.
  repeat (split; [vm_compute; reflexivity|]). eexists. repeat split; vm_compute; reflexivity.
Qed.
Print Assumptions C12_example_budget_binds.

(* Non-vacuity of C12_max_generations_exact: the steady world satisfies all its hypotheses for G = 3, and the run is
   what the theorem says *)
Example C12_example_exact :
  (forall op w pop, (length (results_of cR (fst (fst (w_apply _ _ _ _ _ _ _ _ _ steady_world op w pop)))) <= 1)%nat)
  /\ (forall op w pop, exists p, snd (fst (w_apply _ _ _ _ _ _ _ _ _ steady_world op w pop)) = Ok p)
  /\ (forall w pop, (1 <= pass_results Z cR Z nat unit Z Z Z Z steady_world (cfg_ops _ _ _ _ _ (steady_config 3)) w pop)%nat)
  /\ exists tr res, solve Z cR Z nat unit Z Z Z Z c_best_value c_best_ind (steady_config 3) steady_world 4 = (tr, Ok res)
       /\ sr_generations _ _ _ _ _ res = 3%nat /\ n_starts Z cR Z nat tr = 3%nat
       /\ sr_circuit_evaluations _ _ _ _ _ res = [2%Z; 2%Z; 2%Z].
Proof.
  split; [intros; simpl; lia|]. split; [intros; simpl; eauto|]. split; [intros; simpl; lia|].
  do 2 eexists. split; [vm_compute; reflexivity|]. vm_compute. repeat split; reflexivity.
Qed.
Print Assumptions C12_example_exact.

Example C12_example_empty :
  solve Z cR Z nat unit Z Z Z Z c_best_value c_best_ind (steady_config 0) steady_world 4 = ([], Err NothingEvaluated).
Proof. vm_compute. reflexivity. Qed.
Print Assumptions C12_example_empty.
