(* C15 — JSSP encoding is total, complete and injective.
   Property theorems only: each closed by `exact <lemma>` and followed by Print Assumptions. *)
From QV Require Import Jssp.Energy Jssp.Encoder_proofs.
From QV Require Import Jssp.Statements Jssp.Assembly_proofs.
Open Scope Z_scope.

(* The behaviour before commit 3918627 (legacy = true: SparsePauliOp.sum of an empty list): a single job with a single
   operation at limit 4 needs 3 qubits, yet no Hamiltonian is produced.  The repaired variant produces one. *)
Theorem C15_empty_sum_refuted :
  wf_instance inst_one_op = true
  /\ n_qubits inst_one_op 4 = Ok 3%nat
  /\ hamiltonian true default_pen inst_one_op 4 = Err QiskitError
  /\ is_ok (hamiltonian false default_pen inst_one_op 4) = true.
Proof. exact empty_sum_refuted. Qed.
Print Assumptions C15_empty_sum_refuted.

(* Some job does not fit into the time limit: every entry point raises ValueError. *)
Theorem C15_reject : forall I L, (exists j, In j (inst_jobs I) /\ L < job_total j) ->
  n_qubits I L = Err ValueError
  /\ (forall lg P, hamiltonian lg P I L = Err ValueError)
  /\ (forall bits, translate I L bits = Err ValueError).
Proof. exact encoder_reject. Qed.
Print Assumptions C15_reject.

Example C15_reject_nonvacuous :
  wf_instance ex22 = true /\ (exists j, In j (inst_jobs ex22) /\ 1 < job_total j)
  /\ n_qubits ex22 1 = Err ValueError.
Proof. exact ex22_reject_hyp. Qed.
Print Assumptions C15_reject_nonvacuous.

(* Otherwise the circuit has (L - length of the job) qubits per operation. *)
Theorem C15_qubits : forall I L, limit_ok I L ->
  exists n, n_qubits I L = Ok n /\ Z.of_nat n = total_qubits I L.
Proof. exact encoder_qubits. Qed.
Print Assumptions C15_qubits.

(* The encoding in closed form, and every variable is well-formed inside the circuit. *)
Theorem C15_encoding_explicit : forall I L, limit_ok I L ->
  prepare_encoding I L =
  Ok (mkEnc (sum_nq (concat (vars_of_jobs L 0 0 (inst_jobs I)))) (vars_of_jobs L 0 0 (inst_jobs I))).
Proof. exact prepare_encoding_explicit. Qed.
Print Assumptions C15_encoding_explicit.

Theorem C15_vars_wf : forall I L v, limit_ok I L ->
  In v (concat (vars_of_jobs L 0 0 (inst_jobs I))) ->
  var_wf v (sum_nq (concat (vars_of_jobs L 0 0 (inst_jobs I)))).
Proof. exact vars_of_jobs_wf. Qed.
Print Assumptions C15_vars_wf.

(* Every bitstring of the right length decodes to a result of the instance's shape. *)
Theorem C15_translate_total : forall I L bits n,
  wf_instance I = true -> limit_ok I L -> n_qubits I L = Ok n -> length bits = n ->
  exists s, translate I L bits = Ok s /\ map fst s = inst_jobs I
            /\ Forall2 (fun j (row : list psop) => map fst row = job_ops j) (inst_jobs I) (map snd s).
Proof. exact encoder_translate_total. Qed.
Print Assumptions C15_translate_total.

Example C15_total_nonvacuous :
  wf_instance ex22 = true /\ limit_ok ex22 4 /\ n_qubits ex22 4 = Ok 8%nat /\ length ex22_bits = 8%nat
  /\ total_qubits ex22 4 = 8.
Proof. exact ex22_total_hyp. Qed.
Print Assumptions C15_total_nonvacuous.

(* Every decoded start time lies in the operation's window: after the preceding operations of its job, early enough
   for itself and the following ones. *)
Theorem C15_bounds : forall I L bits s j row k o t,
  wf_instance I = true -> translate I L bits = Ok s -> In (j, row) s ->
  nth_error row k = Some (o, Some t) -> head_of j k <= t /\ t + from_of j k <= L.
Proof. exact encoder_bounds. Qed.
Print Assumptions C15_bounds.

Theorem C15_bounds_op : forall I L bits s j row k o t,
  wf_instance I = true -> translate I L bits = Ok s -> In (j, row) s ->
  nth_error row k = Some (o, Some t) ->
  nth_error (job_ops j) k = Some o /\ 0 <= t /\ t + op_dur o <= L.
Proof. exact encoder_bounds_op. Qed.
Print Assumptions C15_bounds_op.

Example C15_bounds_nonvacuous :
  wf_instance ex22 = true /\ translate ex22 4 ex22_bits = Ok ex22_sched
  /\ In (ex22_j0, ex22_row0) ex22_sched /\ nth_error ex22_row0 1 = Some (ex22_b0, Some 1)
  /\ head_of ex22_j0 1 = 1 /\ from_of ex22_j0 1 = 1.
Proof. exact ex22_bounds_hyp. Qed.
Print Assumptions C15_bounds_nonvacuous.

(* Two bitstrings that decode to the same fully scheduled result are equal. *)
Theorem C15_injective : forall I L b1 b2 s,
  translate I L b1 = Ok s -> translate I L b2 = Ok s -> all_scheduled s = true -> b1 = b2.
Proof. exact encoder_injective. Qed.
Print Assumptions C15_injective.

Example C15_injective_nonvacuous :
  translate ex22 4 ex22_bits = Ok ex22_sched /\ all_scheduled ex22_sched = true.
Proof. exact ex22_injective_hyp. Qed.
Print Assumptions C15_injective_nonvacuous.

(* Every valid schedule of the instance's shape that starts at or after 0 and ends within the limit is the decoding of
   the bitstring encode_sched writes for it (the limit is then necessarily long enough for every job). *)
Theorem C15_complete : forall I L s n,
  wf_instance I = true -> n_qubits I L = Ok n ->
  map fst s = inst_jobs I ->
  Forall2 (fun j (row : list psop) => map fst row = job_ops j) (inst_jobs I) (map snd s) ->
  valid_spec I s ->
  (forall j row o t, In (j, row) s -> In (o, Some t) row -> 0 <= t /\ t + op_dur o <= L) ->
  length (encode_sched I L s) = n /\ translate I L (encode_sched I L s) = Ok s.
Proof. exact encoder_complete_valid. Qed.
Print Assumptions C15_complete.

Example C15_complete_nonvacuous :
  wf_instance ex22 = true /\ n_qubits ex22 4 = Ok 8%nat
  /\ map fst ex22_sched = inst_jobs ex22
  /\ Forall2 (fun j (row : list psop) => map fst row = job_ops j) (inst_jobs ex22) (map snd ex22_sched)
  /\ valid_spec ex22 ex22_sched
  /\ (forall j row o t, In (j, row) ex22_sched -> In (o, Some t) row -> 0 <= t /\ t + op_dur o <= 4).
Proof. exact ex22_complete_hyp. Qed.
Print Assumptions C15_complete_nonvacuous.

(* "all scheduled" cannot be dropped from C15_injective: two different bitstrings whose first variable holds no valid
   domain wall decode to the same (partly unscheduled) result. *)
Example C15_injective_needs_all_scheduled :
  ex22_inv1 <> ex22_inv2 /\ is_ok (translate ex22 5 ex22_inv1) = true
  /\ translate ex22 5 ex22_inv1 = translate ex22 5 ex22_inv2.
Proof. exact ex22_unscheduled_not_injective. Qed.
Print Assumptions C15_injective_needs_all_scheduled.

(* ------------------------------------------------------------------ assembled statements *)

(* The limit accommodates every job: the qubit count is the closed form; the (repaired) Hamiltonian exists exactly when
   there is at least one qubit -- then the instance has a job and every qubit index in H is below the count -- and is
   a ValueError with zero qubits (pauli_identity_string(0)); every bitstring of that length decodes to a result of the
   instance's shape. *)
Theorem C15_total : forall I L P, wf_instance I = true -> limit_ok I L ->
  exists n, n_qubits I L = Ok n /\ Z.of_nat n = total_qubits I L
  /\ ((1 <= n)%nat -> inst_jobs I <> [] /\ exists H, hamiltonian false P I L = Ok H /\ qubits_below n H = true)
  /\ (n = 0%nat -> hamiltonian false P I L = Err ValueError)
  /\ (forall bits, length bits = n -> exists s, translate I L bits = Ok s /\ shaped_like I s).
Proof. exact asm_C15_total. Qed.
Print Assumptions C15_total.

(* The defect fixed by 3918627 in general form: whenever every job consists of a single operation (no consecutive
   pair, hence an empty list of precedence terms) the legacy variant raises QiskitError although qubits exist. *)
Theorem C15_legacy_empty_sum : forall I L P n, wf_instance I = true -> limit_ok I L -> n_qubits I L = Ok n ->
  (1 <= n)%nat -> (forall j, In j (inst_jobs I) -> length (job_ops j) = 1%nat) ->
  hamiltonian true P I L = Err QiskitError.
Proof. exact asm_C15_legacy_empty_sum. Qed.
Print Assumptions C15_legacy_empty_sum.
