(* C08 — every call completes under every schedule (provided the wrapped primitive returns).
   Repaired variant (HEAD: timed retry wait + repaired failure path, any linger); every number of threads, finite call
   lists, pubs; every schedule.
     * C08_strong_fair_termination  LIVENESS: along every infinite schedule sigma : nat -> tid * choice that is strongly
                               fair (a thread that is enabled infinitely often takes a step infinitely often; picks whose
                               operation is not enabled with the offered choice are skipped) the run from the initial
                               state reaches a state in which every submitted call has returned (the outcomes of every
                               thread are exactly its call list, in order), and the state never changes afterwards.
                               Choice fairness is part of the hypothesis in the only form needed: taking a step requires
                               an admissible choice, so a timed wait that is enabled infinitely often eventually gets the
                               timeout, a notify an in-range waiter, the primitive's result() eventually comes back.
                               Proof (Batch/FairBase_proofs.v, FairStag_proofs.v, Fair_proofs.v): a variant V that no step
                               increases and every step outside the two polling loops (retry loop E0..F5, executor loop
                               R0..R7) decreases; if V stagnated for ever, fairness and the invariant exclude, one after
                               the other, every thread outside the loops, the polling executor, and finally force a
                               retrying thread through a successful try-acquire.  Uses excluded middle
                               (Classical_Prop.classic) and nothing else: the argument is by contradiction on infinite runs.
     * C08_weak_fairness_insufficient  the same statement with WEAK fairness is false for the model (a reachable cycle of
                               the polling executor in which a member is enabled only intermittently and never scheduled).
     * C08_no_stuck_state      no deadlock: while a call is unfinished some thread can take a step;
     * C08_waiters_have_wakers no lost wake-up: every thread blocked in an untimed wait or blocking acquire waits for a
                               specific other live thread;
     * C08_can_always_finish   no trap: from every reachable state some finite schedule completes every submitted call
                               (constructive: explicit drain policy and measure, Batch/DrainMu_proofs.v, Drain_proofs.v);
     * C08_legacy_refuted      the untimed retry wait (before fix cf627d8) does deadlock: concrete two-thread schedule.
   Modelled, not verified: that the runtime is strongly fair in this sense (CPython eventually runs every thread that is
   runnable infinitely often and lets it win a lock race it can win infinitely often; wait(0.5) really times out).
   All theorems except C08_strong_fair_termination are closed under the global context.
   Property theorems only. *)
From QV Require Import Common.Base Batch.Monitor Batch.ListX Batch.Inv Batch.Route Batch.Live Batch.Live_proofs Batch.Drain_proofs Batch.Fair Batch.Fair_proofs.

Theorem C08_legacy_refuted :
  exists st, run legacy_wait (init_state c08_calls) c08_sched = Some st
    /\ (forall t c, step legacy_wait st t c = None)
    /\ (exists th0 th1, threads st = [th0; th1] /\ t_pc th0 = Done /\ t_pc th1 = F4 /\ wqX (sh st) = [1]
        /\ t_outs th0 = [([1], RetOk 0 0)] /\ t_outs th1 = []).
Proof. exact c08_legacy_witness. Qed.
Print Assumptions C08_legacy_refuted.

(* the same schedule on HEAD's variant: the waiter's timeout can fire, the run goes on *)
Theorem C08_witness_repaired_goes_on :
  exists st, run (head false) (init_state c08_calls) c08_sched = Some st /\ exists st', step (head false) st 1 1 = Some st'.
Proof. exact c08_witness_repaired_goes_on. Qed.
Print Assumptions C08_witness_repaired_goes_on.

Theorem C08_no_stuck_state : forall v st,
  ext_wait_timed v = true -> failure_path_repaired v = true -> reachable v st ->
  some_unfinished st -> can_step v st.
Proof. exact no_stuck. Qed.
Print Assumptions C08_no_stuck_state.

Theorem C08_waiters_have_wakers : forall v st, failure_path_repaired v = true -> reachable v st ->
  (forall t th, nth_error (threads st) t = Some th -> t_pc th = N4 -> In t (wqI (sh st)) -> waker_of_member st t)
  /\ (forall t th u, nth_error (threads st) t = Some th -> (t_pc th = E0 \/ t_pc th = X1) -> lkE (sh st) = Some u ->
        u <> t /\ exists thu, nth_error (threads st) u = Some thu /\ holdsE thu = true)
  /\ (forall t th u, nth_error (threads st) t = Some th -> (t_pc th = G0 \/ t_pc th = H0 \/ t_pc th = C0) -> lkV (sh st) = Some u ->
        u <> t /\ exists thu, nth_error (threads st) u = Some thu /\ holdsV thu = true).
Proof. exact waiters_have_wakers. Qed.
Print Assumptions C08_waiters_have_wakers.

Theorem C08_can_always_finish : forall v st,
  ext_wait_timed v = true -> failure_path_repaired v = true -> reachable v st ->
  exists sched st', run v st sched = Some st' /\ all_done st' = true.
Proof. exact can_always_finish. Qed.
Print Assumptions C08_can_always_finish.

Theorem C08_strong_fair_termination : forall v calls sigma,
  ext_wait_timed v = true -> failure_path_repaired v = true -> strongly_fair v (init_state calls) sigma ->
  exists n, all_returned calls (rs v (init_state calls) sigma n)
            /\ forall m, n <= m -> rs v (init_state calls) sigma m = rs v (init_state calls) sigma n.
Proof. exact strong_fair_termination. Qed.
Print Assumptions C08_strong_fair_termination.

(* the hypotheses are satisfiable: the three-thread demo schedule (padded with idle picks) is strongly fair and its run
   returns every call *)
Example C08_fair_nonvacuous :
  strongly_fair (head true) (init_state demo_calls) demo_sigma
  /\ all_returned demo_calls (rs (head true) (init_state demo_calls) demo_sigma 77).
Proof. exact demo_fair_run. Qed.
Print Assumptions C08_fair_nonvacuous.

(* Weak fairness is not enough (hence strong fairness in C08_strong_fair_termination): a reachable
   state st and a non-empty schedule of the polling executor alone that returns to st, while member T0 is enabled in st
   (so it is enabled infinitely often), disabled after the second step of the cycle (the executor holds the condition lock) (so it is not continuously enabled),
   and never scheduled. *)
Theorem C08_weak_fairness_insufficient :
  exists st, run (head false) (init_state lasso_calls) lasso_prefix = Some st
    /\ run (head false) st lasso_cycle = Some st
    /\ (exists th0, nth_error (threads st) 0 = Some th0 /\ t_pc th0 = N2)
    /\ (exists st', step (head false) st 0 0 = Some st')
    /\ (exists st1 st2, run (head false) st (firstn 2 lasso_cycle) = Some st1 /\ step (head false) st1 0 0 = None
                        /\ run (head false) st (firstn 3 lasso_cycle) = Some st2).
Proof. exact polling_cycle. Qed.
Print Assumptions C08_weak_fairness_insufficient.

Example C08_nonvacuous :
  exists st, run (head true) (init_state demo_calls) demo_sched = Some st /\ all_done st = true
    /\ map t_outs (threads st) = [[([1;2], RetOk 0 0)]; [([3], RetOk 0 2)]; [([4;5;6], RetOk 1 0)]]
    /\ log (sh st) = [([1;2;3], true); ([4;5;6], true)].
Proof. exact demo_run. Qed.
Print Assumptions C08_nonvacuous.
