(* C08 — every call completes under every schedule (provided the wrapped primitive returns).
   Level: PARTIAL.  Proved for the repaired variant (HEAD: timed retry wait + repaired failure path, any linger), for
   every reachable state of any number of threads/calls and every schedule:
     * C08_no_stuck_state      no deadlock: while a call is unfinished some thread can take a step;
     * C08_waiters_have_wakers no lost wake-up: every thread blocked in an untimed wait or blocking acquire waits for a
                               specific other live thread (member -> a thread still to be counted / the executor, which
                               has not left its re-notify loop; lock waiter -> the holder);
     * C08_legacy_refuted      the untimed retry wait (before fix cf627d8) does deadlock: concrete two-thread schedule.
     * C08_can_always_finish   no trap: from every reachable state some finite schedule completes every submitted call
                               (explicit drain policy + a natural-number measure that decreases at every policy step:
                               Batch/DrainMu_proofs.v, Batch/Drain_proofs.v); the wrapper never reaches a state from which
                               completion is impossible and never stops accepting batches.
   NOT proved (stated here in full, not claimed; this is why the level is partial):
     * C08_fair_termination, with
         trace v st0 sigma n       := run v st0 (map sigma (seq 0 n))            (sigma : nat -> tid * nat, an infinite schedule)
         enabled_at v st t         := exists c st', step v st t c = Some st'
         strongly_fair v st0 sigma := forall t, (forall n, exists m st, n <= m /\ trace v st0 sigma m = Some st /\ enabled_at v st t)
                                                -> forall n, exists m, n <= m /\ fst (sigma m) = t
       the statement
         forall v calls sigma, ext_wait_timed v = true -> failure_path_repaired v = true ->
           (forall n, trace v (init_state calls) sigma n <> None) -> strongly_fair v (init_state calls) sigma ->
           exists n st, trace v (init_state calls) sigma n = Some st /\ all_done st = true
       (every strongly fair infinite schedule completes every call).  With WEAK fairness the statement is false for the
       model: C08_weak_fairness_insufficient below exhibits a reachable cycle of the polling executor during which a
       member is enabled only intermittently and never scheduled.  The theorems above exclude deadlock, lost wake-ups and
       traps; they do not exclude starvation by a scheduler/lock that never lets a thread win a race it can win
       infinitely often (in the real code the executor sleeps in wait(0.5) with the condition's lock released).
   Property theorems only. *)
From QV Require Import Common.Base Batch.Monitor Batch.ListX Batch.Inv Batch.Route Batch.Live Batch.Live_proofs Batch.Drain_proofs.

Theorem C08_legacy_refuted :
  exists st, run legacy_wait (init_state c08_calls) c08_sched = Some st
    /\ (forall t c, step legacy_wait st t c = None)
    /\ (exists th0 th1, threads st = [th0; th1] /\ t_pc th0 = Done /\ t_pc th1 = F4 /\ wqX (sh st) = [1]
        /\ t_outs th0 = [([1], RetOk 0 0)] /\ t_outs th1 = []).
Proof. exact c08_legacy_witness. Qed.
Print Assumptions C08_legacy_refuted.

(* the same schedule on HEAD's variant: the waiter's timeout can fire, the run goes on *)
Theorem C08_witness_repaired_goes_on :
  exists st, run (head false) (init_state c08_calls) c08_sched = Some st /\ exists st', step (head false) st 1 1 = Some st'.
Proof. exact c08_witness_repaired_goes_on. Qed.
Print Assumptions C08_witness_repaired_goes_on.

Theorem C08_no_stuck_state : forall v st,
  ext_wait_timed v = true -> failure_path_repaired v = true -> reachable v st ->
  some_unfinished st -> can_step v st.
Proof. exact no_stuck. Qed.
Print Assumptions C08_no_stuck_state.

Theorem C08_waiters_have_wakers : forall v st, failure_path_repaired v = true -> reachable v st ->
  (forall t th, nth_error (threads st) t = Some th -> t_pc th = N4 -> In t (wqI (sh st)) -> waker_of_member st t)
  /\ (forall t th u, nth_error (threads st) t = Some th -> (t_pc th = E0 \/ t_pc th = X1) -> lkE (sh st) = Some u ->
        u <> t /\ exists thu, nth_error (threads st) u = Some thu /\ holdsE thu = true)
  /\ (forall t th u, nth_error (threads st) t = Some th -> (t_pc th = G0 \/ t_pc th = H0 \/ t_pc th = C0) -> lkV (sh st) = Some u ->
        u <> t /\ exists thu, nth_error (threads st) u = Some thu /\ holdsV thu = true).
Proof. exact waiters_have_wakers. Qed.
Print Assumptions C08_waiters_have_wakers.

Theorem C08_can_always_finish : forall v st,
  ext_wait_timed v = true -> failure_path_repaired v = true -> reachable v st ->
  exists sched st', run v st sched = Some st' /\ all_done st' = true.
Proof. exact can_always_finish. Qed.
Print Assumptions C08_can_always_finish.

(* Weak fairness is not enough (hence the strong-fairness form of the unproved C08_fair_termination above): a reachable
   state st and a non-empty schedule of the polling executor alone that returns to st, while member T0 is enabled in st
   (so it is enabled infinitely often), disabled after the second step of the cycle (the executor holds the condition lock) (so it is not continuously enabled),
   and never scheduled. *)
Theorem C08_weak_fairness_insufficient :
  exists st, run (head false) (init_state lasso_calls) lasso_prefix = Some st
    /\ run (head false) st lasso_cycle = Some st
    /\ (exists th0, nth_error (threads st) 0 = Some th0 /\ t_pc th0 = N2)
    /\ (exists st', step (head false) st 0 0 = Some st')
    /\ (exists st1 st2, run (head false) st (firstn 2 lasso_cycle) = Some st1 /\ step (head false) st1 0 0 = None
                        /\ run (head false) st (firstn 3 lasso_cycle) = Some st2).
Proof. exact polling_cycle. Qed.
Print Assumptions C08_weak_fairness_insufficient.

Example C08_nonvacuous :
  exists st, run (head true) (init_state demo_calls) demo_sched = Some st /\ all_done st = true
    /\ map t_outs (threads st) = [[([1;2], RetOk 0 0)]; [([3], RetOk 0 2)]; [([4;5;6], RetOk 1 0)]]
    /\ log (sh st) = [([1;2;3], true); ([4;5;6], true)].
Proof. exact demo_run. Qed.
Print Assumptions C08_nonvacuous.
