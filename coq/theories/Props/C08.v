(* C08 — property theorems (under construction; see Batch/*_proofs.v). *)
From QV Require Import Batch.Monitor.
