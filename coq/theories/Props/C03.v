(* C03 — circuit evaluators return the true objective through every primitive wrapper.
   Property theorems only: each closed by `exact <lemma>` and followed by Print Assumptions.
   Level: partial.  The quantum semantics (sem, compose, apply, permute, relabel, wid, wmap, read, expect, counts_of) and
   the aggregation functions of C14 are universally quantified; the laws (composition means "first a, then the bound c":
   sem (compose a c) p = apply c p (sem a p); layout invariance of expectation values and of measurements) and "the raw primitive is a pointwise
   oracle that agrees with the semantics" are premises.  That Qiskit satisfies them is tested by the harness, not proved.
   The classical instance (Eval/ClassicalInst.v) satisfies every premise, provably (C03_premises_satisfiable). *)
From QV Require Import Eval.Pipeline Eval.Pipeline_proofs Eval.ClassicalInst Eval.ClassicalInst_proofs.

(* Sampler paths (operator + sampler, bitstring): for every stack of transpiling (semantics-preserving pass managers,
   any layouts) / mutex / batching wrappers (any pubs of other callers before and after: every batch position), the
   evaluator returns, position by position, the aggregate of the distribution the raw sampler reports for
   "initial state followed by the bound circuit" measured on all qubits. *)
Theorem C03_sampler_paths :
  forall (circ state obs params layout wiring dist outcome bitfun : Type)
         (sem : circ -> params -> state) (compose : circ -> circ -> circ) (apply : circ -> params -> state -> state)
         (permute : layout -> state -> state) (wid : circ -> wiring) (wmap : layout -> wiring -> wiring)
         (read : wiring -> state -> dist) (counts_of : Z -> dist -> list (outcome * Z))
         (agg_op : obs -> Q -> list (outcome * Q) -> Q) (agg_bits : bitfun -> Q -> list (outcome * Q) -> Q),
    (forall a c p, sem (compose a c) p = apply c p (sem a p)) ->
    (forall pi w s, read (wmap pi w) (permute pi s) = read w s) ->
    forall sampler1 : spub circ params wiring -> counts outcome,
    (forall pub, sampler1 pub = ideal_sampler1 sem read counts_of pub) ->
    forall (st : stack circ layout (spub circ params wiring)) (shots : Z) (alpha : Q) (init : option circ)
           (circuits : list circ) (pvals : list params),
      stack_ok sem permute st -> shots <> 0%Z -> alpha_ok alpha = true ->
      (forall ob : obs,
          eval_operator_sampler compose wid agg_op (wrap_sampler wmap st (pointwise sampler1)) shots ob alpha init circuits pvals
          = Ok (map (objective_op sem compose apply wid read counts_of agg_op shots ob alpha init) (combine circuits pvals)))
      /\ (forall f : bitfun,
          eval_bitstring compose wid agg_bits (wrap_sampler wmap st (pointwise sampler1)) shots f alpha init circuits pvals
          = Ok (map (objective_bits sem compose apply wid read counts_of agg_bits shots f alpha init) (combine circuits pvals))).
Proof. exact @sampler_paths. Qed.
Print Assumptions C03_sampler_paths.

(* Estimator path, repaired transpiling wrapper (observables moved along the transpiled circuit's layout). *)
Theorem C03_estimator_path :
  forall (circ state obs params layout : Type)
         (sem : circ -> params -> state) (compose : circ -> circ -> circ) (apply : circ -> params -> state -> state)
         (permute : layout -> state -> state) (relabel : layout -> obs -> obs) (expect : obs -> state -> Q),
    (forall a c p, sem (compose a c) p = apply c p (sem a p)) ->
    (forall pi ob s, expect (relabel pi ob) (permute pi s) = expect ob s) ->
    forall estimator1 : epub circ obs params -> Q,
    (forall pub, estimator1 pub = ideal_estimator1 sem expect pub) ->
    forall (st : stack circ layout (epub circ obs params)) (ob : obs) (init : option circ)
           (circuits : list circ) (pvals : list params),
      stack_ok sem permute st ->
      eval_estimator compose (wrap_estimator relabel false st (pointwise estimator1)) ob init circuits pvals
      = Ok (map (objective_est sem apply expect ob init) (combine circuits pvals)).
Proof. exact @estimator_path. Qed.
Print Assumptions C03_estimator_path.

(* The premises are satisfiable: the classical instance satisfies both laws, composition means "first a, then c",
   and its layout-changing / swap-inserting pass managers are semantics preserving. *)
Example C03_premises_satisfiable :
  (forall pi ob s, cexpect (crelabel pi ob) (cpermute pi s) = cexpect ob s)
  /\ (forall pi w s, cread (cwmap pi w) (cpermute pi s) = cread w s)
  /\ (forall a c p, csem (ccompose a c) p = capply c p (csem a p))
  /\ (forall pi swaps, sem_preserving csem cpermute (pm_route pi swaps))
  /\ sem_preserving csem cpermute pm_identity.
Proof. exact (conj cexpect_relabel (conj cread_permute (conj csem_compose (conj pm_route_preserving pm_identity_preserving)))). Qed.
Print Assumptions C03_premises_satisfiable.

(* Hence, for the executable instance, nothing semantic is left as a premise. *)
(* wf_call / wf_sampler_call / wf_table (Eval/ClassicalInst.v): the inputs on which the total functions of the instance
   use no default (qubits in range, parameter indices within the circuit's own value vector, H only on fresh qubits, exact counts, full table). *)
Theorem C03_classical_sampler_paths :
  forall st shots alpha init circuits pvals,
    stack_ok csem cpermute st -> shots <> 0%Z -> alpha_ok alpha = true ->
    wf_call init circuits pvals = true -> wf_sampler_call shots init circuits pvals = true ->
    (forall ob, eval_operator_sampler ccompose cwid cagg_op (wrap_sampler cwmap st (pointwise csampler1)) shots ob alpha init circuits pvals
                = Ok (map (objective_op csem ccompose capply cwid cread ccounts_of cagg_op shots ob alpha init) (combine circuits pvals)))
    /\ (forall f n, wf_table n f = true -> Forall (fun c : ccirc => fst c = n) circuits ->
                  eval_bitstring ccompose cwid cagg_bits (wrap_sampler cwmap st (pointwise csampler1)) shots f alpha init circuits pvals
                  = Ok (map (objective_bits csem ccompose capply cwid cread ccounts_of cagg_bits shots f alpha init) (combine circuits pvals))).
Proof. exact classical_sampler_paths. Qed.
Print Assumptions C03_classical_sampler_paths.

Theorem C03_classical_estimator_path :
  forall st ob init circuits pvals,
    stack_ok csem cpermute st -> wf_call init circuits pvals = true ->
    eval_estimator ccompose (wrap_estimator crelabel false st (pointwise cestimator1)) ob init circuits pvals
    = Ok (map (objective_est csem capply cexpect ob init) (combine circuits pvals)).
Proof. exact classical_estimator_path. Qed.
Print Assumptions C03_classical_estimator_path.

(* The legacy transpiling estimator (before fix c0786a5: observable left on the virtual qubits) violates the property:
   rx(pi) on qubit 0 of 3, observable Z_0, semantics-preserving pass manager with layout [2,1,0]:
   the legacy wrapper returns +1, the objective is -1 (and the repaired wrapper returns -1). *)
Theorem C03_estimator_layout_refuted :
  stack_ok csem cpermute w_stack
  /\ eval_estimator ccompose (wrap_estimator crelabel true w_stack (pointwise cestimator1)) w_obs None [w_circ] [w_params] = Ok [1%Q]
  /\ map (objective_est csem capply cexpect w_obs None) (combine [w_circ] [w_params]) = [(-1)%Q]
  /\ eval_estimator ccompose (wrap_estimator crelabel false w_stack (pointwise cestimator1)) w_obs None [w_circ] [w_params] = Ok [(-1)%Q].
Proof. exact estimator_layout_refuted. Qed.
Print Assumptions C03_estimator_layout_refuted.

(* A non-trivial run of the instance (hypotheses satisfiable, values not all equal): operator+sampler, alpha = 1/2,
   initial state x(1), circuits [h(0); cx(0,1)] and [rx(3 pi) on qubit 1], observable Z0 Z1 + 1/2 Z0, through
   Transpiling(layout (0 2), routing swap (1 2)) around Batching(1 foreign pub before, 2 after, each with 1024 shots while
   this evaluator uses 64: shots are per pub, also in C03_sampler_paths where the foreign pubs are arbitrary) around Mutex. *)
Example C03_example_batch_sampler :
  stack_ok csem cpermute ex_stack
  /\ eval_operator_sampler ccompose cwid cagg_op (wrap_sampler cwmap ex_stack (pointwise csampler1)) 64 ex_obs (1 # 2)
                           (Some ex_init) [ex_bell; ex_flip] [[]; [3%Z]] = Ok [(-3 # 2)%Q; (3 # 2)%Q]
  /\ map (objective_op csem ccompose capply cwid cread ccounts_of cagg_op 64 ex_obs (1 # 2) (Some ex_init))
         (combine [ex_bell; ex_flip] [[]; [3%Z]]) = [(-3 # 2)%Q; (3 # 2)%Q]
  /\ wf_call (Some ex_init) [ex_bell; ex_flip] [[]; [3%Z]] = true
  /\ wf_sampler_call 64 (Some ex_init) [ex_bell; ex_flip] [[]; [3%Z]] = true.
Proof. exact example_batch_sampler. Qed.
Print Assumptions C03_example_batch_sampler.

(* Unsimplified operators (e.g. the JSSP encoder's Hamiltonian): repeated Pauli strings add up, in the diagonal value
   used on the sampler path and in the expectation value of the estimator path. *)
Theorem C03_repeated_terms_add :
  (forall a b k, diag_value (a ++ b) k == diag_value a k + diag_value b k)%Q
  /\ (forall a b s, cexpect (a ++ b) s == cexpect a s + cexpect b s)%Q.
Proof. exact (conj diag_value_app cexpect_app). Qed.
Print Assumptions C03_repeated_terms_add.

(* Z0 + 1/2 Z0 + 2 I + I + 3/2 Z1 - 3/2 Z1 on the outcome 11: -3/2 + 3 = 3/2; the first four terms in the state |01>. *)
Example C03_repeated_terms_example :
  (diag_value rep_obs2 [true; true] == 3 # 2)%Q /\ (cexpect rep_obs1 [1%N] == 3 # 2)%Q.
Proof. exact repeated_terms_example. Qed.
Print Assumptions C03_repeated_terms_example.
