(* C07 — the wrapped primitive is never used concurrently.
   Batching wrappers: Batch/Monitor.v, `in_use th` = between f-begin (f(...) called) and f-end (.result() returned or
   raised).  Plain mutex wrappers: Batch/Mutex.v, `m_using th` = inside the wrapped primitive's run().
   Property theorems only. *)
From QV Require Import Common.Base Batch.Monitor Batch.Inv Batch.Route Batch.Route_proofs Batch.Mutex Batch.Mutex_proofs Batch.Live Batch.Live_proofs.

(* In every reachable state at most one thread is using the primitive, and it owns the variable lock and the entry lock. *)
Theorem C07_batching_exclusive : forall v st, failure_path_repaired v = true -> reachable v st ->
  (forall t1 t2 th1 th2, nth_error (threads st) t1 = Some th1 -> nth_error (threads st) t2 = Some th2 ->
     in_use th1 = true -> in_use th2 = true -> t1 = t2)
  /\ (forall t th, nth_error (threads st) t = Some th -> in_use th = true ->
        lkV (sh st) = Some t /\ lkE (sh st) = Some t).
Proof. exact batching_exclusive. Qed.
Print Assumptions C07_batching_exclusive.

Theorem C07_mutex_exclusive : forall st, mreachable st ->
  (forall t1 t2 th1 th2, nth_error (mths st) t1 = Some th1 -> nth_error (mths st) t2 = Some th2 ->
     m_using th1 = true -> m_using th2 = true -> t1 = t2)
  /\ (forall t th, nth_error (mths st) t = Some th -> m_using th = true -> mlk st = Some t).
Proof. exact mutex_exclusive. Qed.
Print Assumptions C07_mutex_exclusive.

(* the plain mutex wrappers never deadlock either *)
Theorem C07_mutex_no_stuck : forall st, mreachable st ->
  (exists t th, nth_error (mths st) t = Some th /\ m_pc th <> MDone) -> exists t st', mstep st t = Some st'.
Proof. exact mutex_no_stuck. Qed.
Print Assumptions C07_mutex_no_stuck.

(* The lock must exist before the first run(): in the variant that creates it lazily by an unsynchronised check-then-act
   (seeded mutation C07-m1; Batch/Mutex.v, zstep) two threads are inside the wrapped primitive at once, each under its own
   lock.  For the real wrappers "the constructor creates the one lock" is checked by the harness on freshly constructed
   wrappers on every run (the Mutex model above has the lock from the start). *)
Theorem C07_lazy_lock_refuted :
  exists st th0 th1, zrun (z_init 2) [0; 1; 0; 0; 0; 0; 1; 1; 1; 1] = Some st
    /\ nth_error (z_ths st) 0 = Some th0 /\ nth_error (z_ths st) 1 = Some th1
    /\ z_using th0 = true /\ z_using th1 = true /\ z_lock th0 <> z_lock th1.
Proof. exact lazy_lock_refuted. Qed.
Print Assumptions C07_lazy_lock_refuted.

(* What the solver's constructor puts in front of the raw primitive (the constructor itself is compared with `install`
   by the harness): with mutual exclusion requested the evaluators never see an unguarded primitive. *)
Theorem C07_installed :
  install true ThreadPool Raw = TranspilingW (BatchingMutexW Raw)
  /\ install true DaskClient Raw = TranspilingW (MutexW Raw)
  /\ (forall ex, guarded (install true ex Raw) = true)
  /\ (forall ex, install false ex Raw = TranspilingW Raw).
Proof. exact installed_wrappers. Qed.
Print Assumptions C07_installed.

(* The constructor wraps what it is given: wrappers already in front of the primitive (e.g. a mutex shared with another
   solver) stay in the chain handed to the evaluators, in order.  The harness checks the real constructor against this by
   object identity on pre-wrapped primitives and by a two-solver concurrent run (seeded mutation C07-p1). *)
Theorem C07_install_keeps_wrappers : forall me ex p, exists pre, chain (install me ex p) = pre ++ chain p.
Proof. exact install_keeps_wrappers. Qed.
Print Assumptions C07_install_keeps_wrappers.

(* a reachable state in which the primitive is in use exists: the theorem is not about an empty set *)
Example C07_nonvacuous :
  exists st, reachable (head true) st /\ exists t th, nth_error (threads st) t = Some th /\ in_use th = true.
Proof. exact demo_in_use. Qed.
Print Assumptions C07_nonvacuous.
