From QV Require Import Common.Base Agg.Cvar Agg.Cvar_proofs.
From Coq Require Import QArith Qabs Qminmax Permutation Sorted NArith.
Open Scope Q_scope.

(* C14 — CVaR aggregation (queasars/circuit_evaluation/expectation_calculation.py).  Every result below is proved in
   Agg/Cvar_proofs.v about the model Agg/Cvar.v.  Vocabulary from Cvar_proofs.v:
     nonneg e := 0 <= fst e;  adm w e := 0 <= w /\ w <= fst e;  sumQ ws, wsum ws l := the mass / the weighted value sum
     of a choice of weights;  sorted_by_value := StronglySorted by snd;  entries op d := the (probability, value) list
     both paths build from a distribution d;  states_fit n d := every state of d is below 2^n.
     B_op alpha V R := if isclose alpha 1 then (1 - alpha) * R else rtol * V;
     B_bs alpha V R := if isclose alpha 1 then (rtol + atol) * (R + V) / alpha else rtol * V   (R = hi - lo).
   HEAD (get_expectation, loop break on isclose(gathered, alpha, atol=0)): outside the band isclose alpha 1, i.e.
   |alpha - 1| <= rtol + atol = 1.001e-5 (C14_near_one_band), the result is within rtol * V = 1e-5 * V of the
   definition on both paths (and the two paths return the same number); inside the band the constants are
   (1 - alpha) * R <= (rtol + atol) * R for the operator path and (rtol + atol) * (R + V) / alpha for the unsorted
   bitstring path.  get_expectation_legacy is the variant before the fix (break on isclose(gathered, alpha) with its
   absolute tolerance): its bound is (rtol + atol / alpha) * V, and C14_atol_break_refuted shows it really is off by
   a hundred times rtol.  Nothing is left unfinished: there are no _partial results. *)

(* ---- the specification: sorting, least-ness, order independence, monotonicity, bounds *)
Theorem C14_sort_perm : forall l, Permutation (sort_by_value l) l.
Proof. exact sort_perm. Qed.
Print Assumptions C14_sort_perm.

Theorem C14_sort_sorted : forall l, Sorted (fun a b : entry => snd a <= snd b) (sort_by_value l).
Proof. exact sort_Sorted. Qed.
Print Assumptions C14_sort_sorted.

Theorem C14_plain_expectation_perm : forall l l', Permutation l l' -> plain_expectation l == plain_expectation l'.
Proof. exact plain_expectation_perm. Qed.
Print Assumptions C14_plain_expectation_perm.

Theorem C14_fill_least : forall l, sorted_by_value l -> Forall nonneg l ->
  forall ws m M c, Forall2 adm ws l -> M == sumQ ws -> 0 <= m -> m <= M -> Forall (fun e => c <= snd e) l ->
  fill m l 0 + (M - m) * c <= wsum ws l.
Proof. exact fill_least. Qed.
Print Assumptions C14_fill_least.

Theorem C14_cvar_least : forall l ws alpha,
  Forall nonneg l -> 0 < alpha -> Forall2 adm ws l -> sumQ ws == alpha -> cvar l alpha <= wsum ws l / alpha.
Proof. exact cvar_least. Qed.
Print Assumptions C14_cvar_least.

Theorem C14_cvar_attained : forall l alpha, Forall nonneg l -> 0 < alpha -> alpha <= total_mass l ->
  exists ws, Forall2 adm ws (sort_by_value l) /\ sumQ ws == alpha /\
             cvar l alpha == wsum ws (sort_by_value l) / alpha.
Proof. exact cvar_attained. Qed.
Print Assumptions C14_cvar_attained.

Theorem C14_cvar_perm : forall l l' alpha,
  Permutation l l' -> is_dist l -> 0 < alpha -> alpha <= 1 -> cvar l alpha == cvar l' alpha.
Proof. exact cvar_perm. Qed.
Print Assumptions C14_cvar_perm.

Theorem C14_cvar_perm_gen : forall l l' alpha, Permutation l l' -> Forall nonneg l -> cvar l alpha == cvar l' alpha.
Proof. exact cvar_perm_gen. Qed.
Print Assumptions C14_cvar_perm_gen.

Theorem C14_cvar_mono : forall l a1 a2, is_dist l -> 0 < a1 -> a1 <= a2 -> a2 <= 1 -> cvar l a1 <= cvar l a2.
Proof. exact cvar_mono. Qed.
Print Assumptions C14_cvar_mono.

Theorem C14_cvar_bounds : forall l alpha lo hi, is_dist l -> 0 < alpha -> alpha <= 1 -> values_within lo hi l ->
  lo <= cvar l alpha /\ cvar l alpha <= expectation l.
Proof. exact cvar_bounds. Qed.
Print Assumptions C14_cvar_bounds.

(* ---- _get_expectation against the specification, alpha not isclose 1 *)
Theorem C14_exact_or_close : forall l alpha V,
  is_dist l -> 0 < alpha -> alpha <= 1 -> isclose alpha 1 = false -> abs_values_le V l ->
  exists r, get_expectation l alpha = Ok r /\ Qabs (r - cvar l alpha) <= rtol * V.
Proof. exact exact_or_close. Qed.
Print Assumptions C14_exact_or_close.

Theorem C14_exact_or_close_legacy : forall l alpha V,
  is_dist l -> 0 < alpha -> alpha <= 1 -> isclose alpha 1 = false -> abs_values_le V l ->
  exists r, get_expectation_legacy l alpha = Ok r /\ Qabs (r - cvar l alpha) <= (rtol + atol / alpha) * V.
Proof. exact exact_or_close_legacy. Qed.
Print Assumptions C14_exact_or_close_legacy.

Theorem C14_exact_when_no_break : forall l alpha,
  is_dist l -> 0 < alpha -> alpha <= 1 -> isclose alpha 1 = false ->
  (forall k, (1 <= k)%nat ->
             let G := total_mass (firstn k (sort_by_value l)) in G < alpha -> rtol * alpha < alpha - G) ->
  exists r, get_expectation l alpha = Ok r /\ r == cvar l alpha.
Proof. exact exact_when_no_break. Qed.
Print Assumptions C14_exact_when_no_break.

(* a tail fraction no larger than any single probability: the result is exactly the smallest value *)
Theorem C14_exact_below_smallest_probability : forall (l : list entry) alpha,
  is_dist l -> 0 < alpha -> alpha <= 1 -> isclose alpha 1 = false -> Forall (fun e => alpha <= fst e) l ->
  exists r, get_expectation l alpha = Ok r /\ r == cvar l alpha /\
            (forall e, In e l -> r <= snd e) /\ (exists e, In e l /\ r == snd e).
Proof. exact exact_below_smallest_probability. Qed.
Print Assumptions C14_exact_below_smallest_probability.

Theorem C14_exact_below_smallest_probability_paths : forall n d op alpha,
  states_fit n d -> is_dist (entries op d) -> 0 < alpha -> alpha <= 1 -> isclose alpha 1 = false ->
  Forall (fun e => alpha <= fst e) (entries op d) ->
  exists r, expectation_with_operator d op alpha = Ok r /\ expectation_with_bitstring n d n op alpha = Ok r /\
            r == cvar (entries op d) alpha /\
            (forall e, In e (entries op d) -> r <= snd e) /\ (exists e, In e (entries op d) /\ r == snd e).
Proof. exact exact_below_smallest_probability_paths. Qed.
Print Assumptions C14_exact_below_smallest_probability_paths.

(* concerns only the legacy bound of C14_exact_or_close_legacy: below atol it exceeds the value scale *)
Theorem C14_legacy_bound_vacuous_below_atol : forall alpha V,
  0 < alpha -> alpha <= atol -> 0 <= V -> V <= (rtol + atol / alpha) * V.
Proof. exact legacy_bound_vacuous_below_atol. Qed.
Print Assumptions C14_legacy_bound_vacuous_below_atol.

(* the absolute break tolerance refuted: 100000 shots, one on -1, alpha = 1.001e-5 *)
Theorem C14_atol_break_refuted :
  is_dist [(1 # 100000, - (1)); (99999 # 100000, 1)] /\ abs_values_le 1 [(1 # 100000, - (1)); (99999 # 100000, 1)] /\
  isclose (1001 # 100000000) 1 = false /\
  exists r_legacy r_head,
    get_expectation_legacy [(1 # 100000, - (1)); (99999 # 100000, 1)] (1001 # 100000000) = Ok r_legacy /\
    get_expectation [(1 # 100000, - (1)); (99999 # 100000, 1)] (1001 # 100000000) = Ok r_head /\
    cvar [(1 # 100000, - (1)); (99999 # 100000, 1)] (1001 # 100000000) == - (999 # 1001) /\
    r_head == cvar [(1 # 100000, - (1)); (99999 # 100000, 1)] (1001 # 100000000) /\
    r_legacy == - (1000 # 1001) /\
    Qabs (r_legacy - cvar [(1 # 100000, - (1)); (99999 # 100000, 1)] (1001 # 100000000)) == 1 # 1001 /\
    rtol * 1 < Qabs (r_legacy - cvar [(1 # 100000, - (1)); (99999 # 100000, 1)] (1001 # 100000000)).
Proof. exact atol_break_refuted. Qed.
Print Assumptions C14_atol_break_refuted.

(* ---- alpha = 1 *)
Theorem C14_alpha_one_operator : forall d op,
  expectation_with_operator d op 1 = Ok (plain_expectation (map (fun sp => (snd sp, eval_diag op (fst sp))) d)).
Proof. exact alpha_one_operator. Qed.
Print Assumptions C14_alpha_one_operator.

Theorem C14_alpha_one_cvar : forall l, is_dist l -> cvar l 1 == expectation l.
Proof. exact alpha_one_cvar. Qed.
Print Assumptions C14_alpha_one_cvar.

Theorem C14_alpha_one_bitstring : forall l V, is_dist l -> abs_values_le V l ->
  exists r, get_expectation l 1 = Ok r /\ Qabs (r - expectation l) <= (rtol + atol) * V /\
            (Forall (fun e => rtol + atol < fst e) l -> r == expectation l).
Proof. exact alpha_one_bitstring. Qed.
Print Assumptions C14_alpha_one_bitstring.

Theorem C14_alpha_one_bitstring_sharp : forall l V, is_dist l -> abs_values_le V l ->
  exists r, get_expectation l 1 = Ok r /\ Qabs (r - expectation l) <= rtol * V /\
            (Forall (fun e => rtol < fst e) l -> r == expectation l).
Proof. exact alpha_one_bitstring_sharp. Qed.
Print Assumptions C14_alpha_one_bitstring_sharp.

(* ---- alpha isclose 1 *)
Theorem C14_near_one_cvar : forall l alpha lo hi, is_dist l -> 0 < alpha -> alpha <= 1 -> values_within lo hi l ->
  Qabs (expectation l - cvar l alpha) <= (1 - alpha) * (hi - lo).
Proof. exact near_one_cvar. Qed.
Print Assumptions C14_near_one_cvar.

Theorem C14_near_one_operator : forall d op alpha lo hi,
  is_dist (entries op d) -> 0 < alpha -> alpha <= 1 -> isclose alpha 1 = true ->
  values_within lo hi (entries op d) ->
  exists r, expectation_with_operator d op alpha = Ok r /\
            Qabs (r - cvar (entries op d) alpha) <= (1 - alpha) * (hi - lo) /\ 1 - alpha <= rtol + atol.
Proof. exact near_one_operator_path. Qed.
Print Assumptions C14_near_one_operator.

Theorem C14_near_one_get_expectation : forall l alpha lo hi V,
  is_dist l -> 0 < alpha -> alpha <= 1 -> isclose alpha 1 = true -> values_within lo hi l -> abs_values_le V l ->
  exists r, get_expectation l alpha = Ok r /\
            Qabs (r - cvar l alpha) <= (rtol + atol) * ((hi - lo) + V) / alpha.
Proof. exact near_one_bitstring. Qed.
Print Assumptions C14_near_one_get_expectation.

Theorem C14_near_one_bitstring : forall n d op alpha lo hi V,
  states_fit n d -> is_dist (entries op d) -> 0 < alpha -> alpha <= 1 -> isclose alpha 1 = true ->
  values_within lo hi (entries op d) -> abs_values_le V (entries op d) ->
  exists r, expectation_with_bitstring n d n op alpha = Ok r /\
            Qabs (r - cvar (entries op d) alpha) <= (rtol + atol) * ((hi - lo) + V) / alpha.
Proof. exact near_one_bitstring_path. Qed.
Print Assumptions C14_near_one_bitstring.

(* ---- the operator path and the bitstring path *)
Theorem C14_bitstring_key : forall n s,
  state_of_bits (bitstring_of n s) = s /\ ((s < 2 ^ N.of_nat n)%N -> length (bitstring_of n s) = n).
Proof. exact (fun n s => conj (state_of_bits_bitstring_of n s) (length_bitstring_of n s)). Qed.
Print Assumptions C14_bitstring_key.

Theorem C14_bitstring_path : forall n d op alpha, states_fit n d ->
  expectation_with_bitstring n d n op alpha =
  if negb (alpha_ok alpha) then Err "ValueError" else get_expectation (entries op d) alpha.
Proof. exact bitstring_path. Qed.
Print Assumptions C14_bitstring_path.

Theorem C14_paths_equal : forall n d op alpha, states_fit n d -> isclose alpha 1 = false ->
  expectation_with_operator d op alpha = expectation_with_bitstring n d n op alpha.
Proof. exact paths_equal. Qed.
Print Assumptions C14_paths_equal.

Theorem C14_paths_agree : forall n d op alpha lo hi V,
  states_fit n d -> is_dist (entries op d) -> values_within lo hi (entries op d) -> abs_values_le V (entries op d) ->
  0 < alpha -> alpha <= 1 ->
  exists r1 r2,
    expectation_with_operator d op alpha = Ok r1 /\ expectation_with_bitstring n d n op alpha = Ok r2 /\
    (isclose alpha 1 = false ->
       r1 = r2 /\ Qabs (r1 - cvar (entries op d) alpha) <= rtol * V) /\
    (isclose alpha 1 = true ->
       Qabs (r1 - cvar (entries op d) alpha) <= (1 - alpha) * (hi - lo) /\
       Qabs (r2 - cvar (entries op d) alpha) <= (rtol + atol) * ((hi - lo) + V) / alpha /\
       Qabs (r1 - r2) <= (1 - alpha) * (hi - lo) + (rtol + atol) * ((hi - lo) + V) / alpha).
Proof. exact paths_agree. Qed.
Print Assumptions C14_paths_agree.

(* ---- the implementation inherits monotonicity in alpha and the range [smallest value, expectation] from the
   specification, up to the resolutions of the two evaluations *)
Theorem C14_impl_mono : forall l a1 a2 V,
  is_dist l -> 0 < a1 -> a1 <= a2 -> a2 <= 1 -> isclose a1 1 = false -> isclose a2 1 = false -> abs_values_le V l ->
  exists r1 r2, get_expectation l a1 = Ok r1 /\ get_expectation l a2 = Ok r2 /\
                r1 <= r2 + rtol * V + rtol * V.
Proof. exact impl_mono. Qed.
Print Assumptions C14_impl_mono.

Theorem C14_impl_range : forall l alpha lo hi V,
  is_dist l -> 0 < alpha -> alpha <= 1 -> isclose alpha 1 = false -> values_within lo hi l -> abs_values_le V l ->
  exists r, get_expectation l alpha = Ok r /\
            lo - rtol * V <= r /\ r <= expectation l + rtol * V.
Proof. exact impl_range. Qed.
Print Assumptions C14_impl_range.

(* ---- the same for every alpha in (0, 1], with the explicit slack of the band isclose alpha 1 *)
Theorem C14_near_one_band : forall alpha,
  0 < alpha -> alpha <= 1 -> (isclose alpha 1 = true <-> 1 - alpha <= 1001 # 100000000).
Proof. exact near_one_band. Qed.
Print Assumptions C14_near_one_band.

Theorem C14_get_expectation_close : forall l alpha lo hi V,
  is_dist l -> 0 < alpha -> alpha <= 1 -> values_within lo hi l -> abs_values_le V l ->
  exists r, get_expectation l alpha = Ok r /\ Qabs (r - cvar l alpha) <= B_bs alpha V (hi - lo).
Proof. exact get_expectation_close. Qed.
Print Assumptions C14_get_expectation_close.

Theorem C14_operator_close : forall d op alpha lo hi V,
  is_dist (entries op d) -> 0 < alpha -> alpha <= 1 ->
  values_within lo hi (entries op d) -> abs_values_le V (entries op d) ->
  exists r, expectation_with_operator d op alpha = Ok r /\
            Qabs (r - cvar (entries op d) alpha) <= B_op alpha V (hi - lo).
Proof. exact operator_close. Qed.
Print Assumptions C14_operator_close.

Theorem C14_impl_mono_all : forall l a1 a2 lo hi V,
  is_dist l -> 0 < a1 -> a1 <= a2 -> a2 <= 1 -> values_within lo hi l -> abs_values_le V l ->
  exists r1 r2, get_expectation l a1 = Ok r1 /\ get_expectation l a2 = Ok r2 /\
                r1 <= r2 + B_bs a1 V (hi - lo) + B_bs a2 V (hi - lo).
Proof. exact impl_mono_all. Qed.
Print Assumptions C14_impl_mono_all.

Theorem C14_impl_range_all : forall l alpha lo hi V,
  is_dist l -> 0 < alpha -> alpha <= 1 -> values_within lo hi l -> abs_values_le V l ->
  exists r, get_expectation l alpha = Ok r /\
            lo - B_bs alpha V (hi - lo) <= r /\ r <= expectation l + B_bs alpha V (hi - lo).
Proof. exact impl_range_all. Qed.
Print Assumptions C14_impl_range_all.

Theorem C14_operator_mono_all : forall d op a1 a2 lo hi V,
  is_dist (entries op d) -> 0 < a1 -> a1 <= a2 -> a2 <= 1 ->
  values_within lo hi (entries op d) -> abs_values_le V (entries op d) ->
  exists r1 r2, expectation_with_operator d op a1 = Ok r1 /\ expectation_with_operator d op a2 = Ok r2 /\
                r1 <= r2 + B_op a1 V (hi - lo) + B_op a2 V (hi - lo).
Proof. exact operator_mono_all. Qed.
Print Assumptions C14_operator_mono_all.

Theorem C14_operator_range_all : forall d op alpha lo hi V,
  is_dist (entries op d) -> 0 < alpha -> alpha <= 1 ->
  values_within lo hi (entries op d) -> abs_values_le V (entries op d) ->
  exists r, expectation_with_operator d op alpha = Ok r /\
            lo - B_op alpha V (hi - lo) <= r /\ r <= expectation (entries op d) + B_op alpha V (hi - lo).
Proof. exact operator_range_all. Qed.
Print Assumptions C14_operator_range_all.

(* ---- the hypotheses are satisfiable *)
Example C14_example_is_dist : is_dist [(1 # 4, 3); (1 # 4, 1); (1 # 2, 2)].
Proof. exact example_dist_is_dist. Qed.
Print Assumptions C14_example_is_dist.

Example C14_example_exact_when_no_break :
  exists r, get_expectation [(1 # 4, 3); (1 # 4, 1); (1 # 2, 2)] (1 # 2) = Ok r /\
            r == cvar [(1 # 4, 3); (1 # 4, 1); (1 # 2, 2)] (1 # 2).
Proof. exact exact_when_no_break_example. Qed.
Print Assumptions C14_example_exact_when_no_break.

Example C14_example_tiny_alpha :
  exists r, get_expectation [(1 # 4, 3); (1 # 4, - (2)); (1 # 2, 1)] (1 # 1000000000000) = Ok r /\ r == - (2) /\
            r == cvar [(1 # 4, 3); (1 # 4, - (2)); (1 # 2, 1)] (1 # 1000000000000) /\
            (forall e, In e [(1 # 4, 3); (1 # 4, - (2)); (1 # 2, 1)] -> r <= snd e).
Proof. exact tiny_alpha_example. Qed.
Print Assumptions C14_example_tiny_alpha.

Example C14_example_isclose : isclose (999999 # 1000000) 1 = true /\ isclose (1 # 2) 1 = false.
Proof. exact near_one_example. Qed.
Print Assumptions C14_example_isclose.

Example C14_example_paths :
  states_fit 2 [(0%N, 1 # 4); (1%N, 1 # 4); (3%N, 1 # 2)] /\
  is_dist (entries [(1, 1%N); (2, 2%N)] [(0%N, 1 # 4); (1%N, 1 # 4); (3%N, 1 # 2)]) /\
  values_within (-(3)) 3 (entries [(1, 1%N); (2, 2%N)] [(0%N, 1 # 4); (1%N, 1 # 4); (3%N, 1 # 2)]) /\
  abs_values_le 3 (entries [(1, 1%N); (2, 2%N)] [(0%N, 1 # 4); (1%N, 1 # 4); (3%N, 1 # 2)]).
Proof. exact (conj example_d_fits (conj example_d_is_dist example_d_values)). Qed.
Print Assumptions C14_example_paths.
