(* C02 -- shorter makespan means lower energy; a ground state decodes to an optimal schedule (share = 0).
   Property theorems only: each closed by `exact <lemma>` and followed by Print Assumptions. *)
From QV Require Import Jssp.Statements Jssp.Encoder_proofs Jssp.Assembly_proofs.
Open Scope Z_scope.

Theorem C02_makespan_monotone : forall I L P b1 b2 s1 s2 H M1 M2, wf_instance I = true -> regime P ->
  (p_share P == 0)%Q -> hamiltonian false P I L = Ok H ->
  translate I L b1 = Ok s1 -> translate I L b2 = Ok s2 -> valid_spec I s1 -> valid_spec I s2 ->
  makespan_of s1 = Some M1 -> makespan_of s2 = Some M2 -> M1 < M2 -> (energy H b1 < energy H b2)%Q.
Proof. exact asm_C02_makespan_monotone. Qed.
Print Assumptions C02_makespan_monotone.

(* If the instance has a feasible schedule within the limit at all, every minimum-energy basis state decodes to a
   feasible schedule whose makespan is at most that of every feasible schedule within the limit. *)
Theorem C02_ground_state : forall I L P H n bits, wf_instance I = true -> regime P -> (p_share P == 0)%Q ->
  hamiltonian false P I L = Ok H -> n_qubits I L = Ok n -> ground_state H n bits ->
  (exists s0, feasible_within I L s0) ->
  exists s M, translate I L bits = Ok s /\ valid_spec I s /\ makespan_of s = Some M
              /\ forall s' M', feasible_within I L s' -> makespan_of s' = Some M' -> M <= M'.
Proof. exact asm_C02_ground_state. Qed.
Print Assumptions C02_ground_state.

(* On the 2x2 instance at limit 4 with the default penalties (share 0): two feasible states of makespan 2 and 3, a
   feasible schedule within the limit, and (by enumeration of all 256 basis states) a ground state. *)
Example C02_nonvacuous :
  wf_instance ex22 = true /\ regime default_pen /\ (p_share default_pen == 0)%Q
  /\ is_ok (hamiltonian false default_pen ex22 4) = true /\ n_qubits ex22 4 = Ok 8%nat
  /\ (exists s1 s2,
        translate ex22 4 [false; false; false; false; false; false; false; false] = Ok s1
        /\ translate ex22 4 [false; true; false; false; false; false; false; false] = Ok s2
        /\ valid_spec ex22 s1 /\ valid_spec ex22 s2 /\ makespan_of s1 = Some 2 /\ makespan_of s2 = Some 3)
  /\ feasible_within ex22 4 ex22_sched
  /\ (exists H, hamiltonian false default_pen ex22 4 = Ok H
                /\ ground_state H 8 [false; false; false; false; false; false; false; false]).
Proof. exact asm_C02_nonvacuous. Qed.
Print Assumptions C02_nonvacuous.
