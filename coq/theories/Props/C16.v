(* C16 — structural mutations obey their algebra and keep the denoted state.
   Model: the operations of Evqe/Genome.v (shared), the circuits of Evqe/Circuit.v, the denotation of
   Evqe/Denote.v; proofs: Evqe/GenomeOps_proofs.v, Evqe/Denote_proofs.v, Evqe/C16_proofs.v.
   Quantifiers: every valid individual (including layers without parameters and 1-qubit individuals), every k,
   every layer id (any integer, taken modulo the layer count), every value vector; values of an arbitrary type V. *)
From QV Require Import Evqe.Genome Evqe.GenomeOps_proofs Evqe.Stream Evqe.RandLayer Evqe.RandLayer_proofs Evqe.Circuit
  Evqe.Denote Evqe.Denote_proofs Evqe.C16_proofs.
Open Scope Z_scope.

(* appended layers keep all layers and values as a prefix, every old layer keeps its value slice, the result is
   valid; accepted exactly for layer objects of the right width with the right number of new values *)
Theorem C16_append_prefix : forall (V : Type) (i : individual V) new nv,
  individual_is_valid i = true ->
  (good_layers (i_qubits i) new /\ Z.of_nat (length nv) = n_params_of new ->
   exists i', add_layers i new nv = Ok i' /\ individual_is_valid i' = true /\
              i_qubits i' = i_qubits i /\ i_layers i' = i_layers i ++ new /\ i_values i' = i_values i ++ nv /\
              forall k, (k < length (i_layers i))%nat -> layer_values i' k = layer_values i k) /\
  (~ (good_layers (i_qubits i) new /\ Z.of_nat (length nv) = n_params_of new) ->
   add_layers i new nv = Err IndividualException).
Proof. exact @add_layers_spec. Qed.
Print Assumptions C16_append_prefix.

(* the random append of the generation model (C20) IS add_layers, with all-zero values unless randomised *)
Theorem C16_random_append_is_append : forall legacy (i : individual Z) n_layers randomize seed s fuel i' rest,
  add_random_layers legacy i n_layers randomize seed s fuel = Ok (i', rest) ->
  exists new vs, add_layers i new vs = Ok i' /\ (randomize = false -> vs = repeat 0 (Z.to_nat (n_params_of new))).
Proof. exact add_random_layers_is_add_layers. Qed.
Print Assumptions C16_random_append_is_append.

(* add_random_layers with n_layers >= 1 on a valid individual with at least one qubit: whenever the decision
   stream is long enough (no stream error, enough fuel) it returns a valid individual with all layers and values
   kept as a prefix - it never raises.  (Same statement as C20_append_chain; restated here because it is C16's
   "returns a valid individual or raises the documented exception" clause for this operation.) *)
Theorem C16_random_append_total : forall (i : individual Z) n_layers randomize seed s fuel,
  individual_is_valid i = true -> 1 <= i_qubits i -> 1 <= n_layers ->
  match add_random_layers false i n_layers randomize seed s fuel with
  | Ok (i', _) =>
      individual_is_valid i' = true /\ i_qubits i' = i_qubits i /\
      exists new vs, i_layers i' = i_layers i ++ new /\ i_values i' = i_values i ++ vs /\
                     Z.of_nat (length new) = n_layers /\
                     (forall lst, last_res (i_layers i) = Ok lst -> chain_ok (lst :: new) = true) /\
                     (chain_ok (i_layers i) = true -> chain_ok (i_layers i') = true)
  | Err e => is_stream_error e = true
  end.
Proof. exact add_random_layers_spec. Qed.
Print Assumptions C16_random_append_total.

(* the one exception: an individual on 0 qubits is valid (the constructors accept it), and appending to it raises
   EVQECircuitLayerException ("A circuit layer may not have fewer than one qubit") - not an out-of-range argument
   of add_random_layers.  Observed on the implementation; part of the correspondence. *)
Theorem C16_random_append_zero_qubits : forall legacy (i : individual Z) n_layers randomize seed s fuel,
  individual_is_valid i = true -> i_qubits i = 0 -> 1 <= n_layers ->
  exists e, add_random_layers legacy i n_layers randomize seed s fuel = Err e /\
            (e = LayerException \/ is_draw_error e = true).
Proof. exact add_random_layers_zero_qubits. Qed.
Print Assumptions C16_random_append_zero_qubits.

(* the property clause in one statement: a zero-initialised RANDOM append (randomize_parameter_values = False)
   leaves the denotation of get_quantum_circuit() unchanged (values = integer tokens, token 0 = the value 0) *)
Theorem C16_random_append_zero_identity :
  forall (M : Type) (mul : M -> M -> M) (one : M) (sem : instr Z -> M),
  (forall m, mul m one = m) ->
  (forall q, sem (IId q) = one) ->
  (forall q, sem (IU q (AVal 0) (AVal 0) (AVal 0)) = one) ->
  (forall c t, sem (ICU3 c t (AVal 0) (AVal 0) (AVal 0)) = one) ->
  forall legacy (i : individual Z) n_layers seed s fuel i' rest,
  individual_is_valid i = true ->
  add_random_layers legacy i n_layers false seed s fuel = Ok (i', rest) ->
  Z.of_nat (length (i_layers i')) <= 1000000 ->
  exists c c', concrete false i = Ok c /\ concrete false i' = Ok c' /\ den mul one sem c' = den mul one sem c.
Proof. exact @random_append_zero_identity. Qed.
Print Assumptions C16_random_append_zero_identity.

(* zero-initialised append: the denotation of get_quantum_circuit() is unchanged, for ANY semantics of the
   instructions in any structure (M, mul, one) with m * one = m in which id, U(0,0,0) and CU3(0,0,0) denote one.
   (fewer than 10^6 layers after the append: the bound of C04, needed to know what get_quantum_circuit() binds) *)
Theorem C16_append_zero_identity :
  forall (V M : Type) (mul : M -> M -> M) (one : M) (sem : instr V -> M) (zero : V),
  (forall m, mul m one = m) ->
  (forall q, sem (IId q) = one) ->
  (forall q, sem (IU q (AVal zero) (AVal zero) (AVal zero)) = one) ->
  (forall c t, sem (ICU3 c t (AVal zero) (AVal zero) (AVal zero)) = one) ->
  forall (i : individual V) (new : list layer) (m : nat) (i' : individual V),
  individual_is_valid i = true ->
  Z.of_nat (length (i_layers i) + length new) <= 1000000 ->
  add_layers i new (repeat zero m) = Ok i' ->
  exists c c', concrete false i = Ok c /\ concrete false i' = Ok c' /\ den mul one sem c' = den mul one sem c.
Proof. exact @append_zero_identity. Qed.
Print Assumptions C16_append_zero_identity.

(* remove_layers (repaired, = /repo HEAD): for 0 < k < #layers it succeeds for EVERY valid individual, keeps the
   first #layers - k layers and exactly their values (every remaining layer keeps its slice), result valid;
   otherwise the documented exception *)
Theorem C16_remove_total : forall (V : Type) (i : individual V) k,
  individual_is_valid i = true ->
  (0 < k < Z.of_nat (length (i_layers i)) ->
   exists i', remove_layers false i k = Ok i' /\ individual_is_valid i' = true /\ i_qubits i' = i_qubits i /\
              i_layers i' = firstn (length (i_layers i) - Z.to_nat k) (i_layers i) /\
              i_values i' = firstn (Z.to_nat (n_params_of (i_layers i'))) (i_values i) /\
              forall j, (j < length (i_layers i'))%nat -> layer_values i' j = layer_values i j) /\
  (~ (0 < k < Z.of_nat (length (i_layers i))) -> remove_layers false i k = Err IndividualException).
Proof. exact @remove_layers_spec. Qed.
Print Assumptions C16_remove_total.

Theorem C16_remove_undoes_append : forall (V : Type) (i : individual V) new nv i',
  individual_is_valid i = true -> new <> [] ->
  add_layers i new nv = Ok i' ->
  remove_layers false i' (Z.of_nat (length new)) = Ok i.
Proof. exact @remove_undoes_append. Qed.
Print Assumptions C16_remove_undoes_append.

(* both change operations alter nothing but the addressed values *)
Theorem C16_change_only_values : forall (V : Type) (i : individual V),
  individual_is_valid i = true ->
  (forall vs, Z.of_nat (length vs) = n_params_of (i_layers i) ->
     exists i', change_parameter_values i vs = Ok i' /\ individual_is_valid i' = true /\
                i_qubits i' = i_qubits i /\ i_layers i' = i_layers i /\ i_values i' = vs) /\
  (forall layer_id vs,
     let k := wrap_layer_id i layer_id in
     (k < length (i_layers i))%nat /\
     (length vs = layer_count (i_layers i) k ->
      exists i', change_layer_parameter_values i layer_id vs = Ok i' /\ individual_is_valid i' = true /\
                 i_qubits i' = i_qubits i /\ i_layers i' = i_layers i /\
                 layer_values i' k = vs /\
                 (forall j, j <> k -> layer_values i' j = layer_values i j) /\
                 length (i_values i') = length (i_values i))).
Proof. exact C16_change_only_values_proof. Qed.
Print Assumptions C16_change_only_values.

(* when the operations raise: exactly for out-of-range arguments, always the documented exception class *)
Theorem C16_errors : forall (V : Type) (i : individual V),
  individual_is_valid i = true ->
  (forall k, remove_layers false i k = Err IndividualException <-> ~ (0 < k < Z.of_nat (length (i_layers i)))) /\
  (forall k, is_ok (remove_layers false i k) = true <-> 0 < k < Z.of_nat (length (i_layers i))) /\
  (forall vs, change_parameter_values i vs = Err IndividualException <-> Z.of_nat (length vs) <> n_params_of (i_layers i)) /\
  (forall vs, is_ok (change_parameter_values i vs) = true <-> Z.of_nat (length vs) = n_params_of (i_layers i)) /\
  (forall layer_id vs, change_layer_parameter_values i layer_id vs = Err IndividualException
                       <-> length vs <> layer_count (i_layers i) (wrap_layer_id i layer_id)) /\
  (forall layer_id vs, is_ok (change_layer_parameter_values i layer_id vs) = true
                       <-> length vs = layer_count (i_layers i) (wrap_layer_id i layer_id)) /\
  (forall new nv, add_layers i new nv = Err IndividualException
                  <-> ~ (good_layers (i_qubits i) new /\ Z.of_nat (length nv) = n_params_of new)).
Proof. exact C16_errors_proof. Qed.
Print Assumptions C16_errors.

Theorem C16_errors_append_count : forall legacy (i : individual Z) n_layers randomize seed s fuel,
  n_layers < 1 -> add_random_layers legacy i n_layers randomize seed s fuel = Err IndividualException.
Proof. exact add_random_layers_too_few. Qed.
Print Assumptions C16_errors_append_count.

(* the code before fix fd49449: 1 qubit, layer parameter counts [3,0,3,0] - removing 1 or 3 layers raises
   IndexError (the first removed layer has no parameters), removing 2 works; the repaired code removes 1 *)
Theorem C16_remove_empty_layer_refuted :
  individual_is_valid c16_witness = true /\
  remove_layers true c16_witness 1 = Err "IndexError"%string /\
  remove_layers true c16_witness 3 = Err "IndexError"%string /\
  remove_layers true c16_witness 2 = Ok (mkInd 1 [mkLayer 1 [GRot 0]; mkLayer 1 [GId 0]] [1; 2; 3]) /\
  remove_layers false c16_witness 1 = Ok (mkInd 1 [mkLayer 1 [GRot 0]; mkLayer 1 [GId 0]; mkLayer 1 [GRot 0]] [1; 2; 3; 4; 5; 6]).
Proof. exact legacy_remove_fails. Qed.
Print Assumptions C16_remove_empty_layer_refuted.

(* ---- non-vacuity *)
Example C16_example_append_remove :
  let i := mkInd 2 [mkLayer 2 [GRot 0; GId 1]; mkLayer 2 [GId 0; GId 1]] [7; 8; 9] in
  let new := [mkLayer 2 [GCRot 0 1; GCtrl 1 0]; mkLayer 2 [GId 0; GId 1]] in
  individual_is_valid i = true /\
  add_layers i new [0; 0; 0] = Ok (mkInd 2 (i_layers i ++ new) [7; 8; 9; 0; 0; 0]) /\
  remove_layers false (mkInd 2 (i_layers i ++ new) [7; 8; 9; 0; 0; 0]) 2 = Ok i /\
  change_layer_parameter_values i (-2) [1; 2; 3] = Ok (mkInd 2 (i_layers i) [1; 2; 3]) /\
  change_layer_parameter_values i 1 [1] = Err IndividualException.
Proof. vm_compute. repeat split; reflexivity. Qed.
Print Assumptions C16_example_append_remove.
