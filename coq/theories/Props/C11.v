(* C11 — operators never modify their input population or recorded history (placeholder while the proofs are being written). *)
From QV Require Import Evqe.Heap Evqe.Ops_proofs.

Theorem C11_placeholder : forall A (l : list A) i x l', set_nth l i x = Ok l' -> length l' = length l.
Proof. exact @set_nth_length. Qed.
Print Assumptions C11_placeholder.
