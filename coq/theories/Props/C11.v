(* C11 — operators never modify their input population or recorded history.
   Property theorems only.  Model: Evqe/Heap.v — the list object behind species_representatives lives in a heap
   cell, populations hold a reference; apply_h is one operator application on (heap, population reference);
   run_h runs an operator sequence and records every observation (argument of apply_operator, population inside a
   result_callback payload, returned population) together with the heap of that moment, and the history (the
   result_callback payloads in order, as the solver's population_evaluation_results list holds them).
   legacy_spec = false is HEAD (88eddcc), legacy_spec = true the code before it. *)
From QV Require Import Evqe.Heap Evqe.Heap_proofs Evqe.History_proofs Solver.Loop.
Open Scope Z_scope.

(* every operator sequence, every log, every evaluator: whatever was observed at any earlier point denotes in the
   final heap the value it denoted when it was observed *)
Theorem C11_frame :
  forall (V : Type) (veqb : V -> V -> bool) (ieq : individual V -> individual V -> bool) (zero : V)
         (ev : individual V -> result Q) (legacy_opt : bool)
         (steps : list (op * oplog V)) (h : heap (V := V)) (arg : hpop (V := V)),
    hp_ok h arg ->
    let r := run_h veqb ieq zero ev legacy_opt false steps h arg [] [] in
    forall o, In o (hr_obs r) -> deref (hr_heap r) (o_pop o) = deref (o_heap o) (o_pop o).
Proof. exact @frame. Qed.
Print Assumptions C11_frame.

(* the per-generation history describes each generation as it was when evaluated *)
Theorem C11_history_stable :
  forall (V : Type) (veqb : V -> V -> bool) (ieq : individual V -> individual V -> bool) (zero : V)
         (ev : individual V -> result Q) (legacy_opt : bool)
         (steps : list (op * oplog V)) (h : heap (V := V)) (arg : hpop (V := V)),
    hp_ok h arg ->
    let r := run_h veqb ieq zero ev legacy_opt false steps h arg [] [] in
    forall h_t hp vs b bv, In (h_t, HResult hp vs b bv) (hr_history r) -> deref (hr_heap r) hp = deref h_t hp.
Proof. exact @history_stable. Qed.
Print Assumptions C11_history_stable.

(* The same for the operator sequence the SOLVER produces (Solver/Loop.v: _solve_by_evolution with its limit checks, break,
   callbacks and termination criterion), instantiated with the EVQE operators on the heap: for every solver
   configuration (operators in any number and order, limits, criterion), every estimate function, every supply of logs
   and every fuel, each entry of the history list — in particular of population_evaluation_results inside the solver
   result — dereferences in the heap at the end of the run to the population it denoted when result_callback was
   called.  (hr_at r is the heap of that moment, carried as ghost data in the entry.) *)
Theorem C11_solver_history_stable :
  forall (V : Type) (veqb : V -> V -> bool) (ieq : individual V -> individual V -> bool) (zero : V)
         (ev : individual V -> result Q) (legacy_opt : bool)
         (estimate : op -> hpop (V := V) -> option Z) (Init Dist AuxEv AV : Type)
         (measure : option Init -> individual V -> Dist) (aux_eval : AuxEv -> individual V -> AV)
         (cfg : config (individual V) (hres (V := V)) op Init AuxEv)
         (h0 : heap (V := V)) (pop0 : hpop (V := V)) (logs : list (oplog V)) (fuel : nat) res,
    hp_ok h0 pop0 ->
    let wd := evqe_world veqb ieq zero ev legacy_opt estimate Init Dist AuxEv AV measure aux_eval h0 pop0 logs in
    let s := run (individual V) hres hpop op eworld Init Dist AuxEv AV hr_best_value hr_best cfg wd fuel in
    finish (individual V) hres hpop op eworld Init Dist AuxEv AV cfg wd s = Ok res ->
    forall r, In r (sr_history _ _ _ _ _ res) ->
              deref (fst (l_w _ _ _ _ _ s)) (hr_pop r) = deref (hr_at r) (hr_pop r).
Proof. exact @solver_result_history_stable. Qed.
Print Assumptions C11_solver_history_stable.

(* A LATER solve with the same solver object cannot touch what an earlier result describes: the second solve starts in
   the world the first one left behind (heap with every list object created so far), with any configuration, initial
   population, logs and fuel; every entry of the history in the FIRST result still dereferences, in the heap after the
   second solve, to the population it denoted when it was reported.  The history LIST of a result is a value in this
   model; that results of different solves share no list object in the implementation is tested by the two-solve
   sequences of harness/props/c11.py (solver family), not proved. *)
Theorem C11_later_solves_leave_results :
  forall (V : Type) (veqb : V -> V -> bool) (ieq : individual V -> individual V -> bool) (zero : V)
         (ev : individual V -> result Q) (legacy_opt : bool)
         (estimate : op -> hpop (V := V) -> option Z) (Init Dist AuxEv AV : Type)
         (measure : option Init -> individual V -> Dist) (aux_eval : AuxEv -> individual V -> AV)
         (cfg1 cfg2 : config (individual V) (hres (V := V)) op Init AuxEv)
         (h0 : heap (V := V)) (pop0 : hpop (V := V)) (logs1 : list (oplog V)) (fuel1 : nat) res1
         (pop0' : hpop (V := V)) (logs2 : list (oplog V)) (fuel2 : nat),
    hp_ok h0 pop0 ->
    let wd1 := evqe_world veqb ieq zero ev legacy_opt estimate Init Dist AuxEv AV measure aux_eval h0 pop0 logs1 in
    let s1 := run (individual V) hres hpop op eworld Init Dist AuxEv AV hr_best_value hr_best cfg1 wd1 fuel1 in
    finish (individual V) hres hpop op eworld Init Dist AuxEv AV cfg1 wd1 s1 = Ok res1 ->
    hp_ok (fst (l_w _ _ _ _ _ s1)) pop0' ->
    let wd2 := evqe_world veqb ieq zero ev legacy_opt estimate Init Dist AuxEv AV measure aux_eval (fst (l_w _ _ _ _ _ s1)) pop0' logs2 in
    let s2 := run (individual V) hres hpop op eworld Init Dist AuxEv AV hr_best_value hr_best cfg2 wd2 fuel2 in
    forall r, In r (sr_history _ _ _ _ _ res1) ->
              deref (fst (l_w _ _ _ _ _ s2)) (hr_pop r) = deref (hr_at r) (hr_pop r).
Proof. exact @later_solve_leaves_result. Qed.
Print Assumptions C11_later_solves_leave_results.

Example C11_two_solves_example :
  hp_ok [] Heap_proofs.w_init /\ hp_ok (fst (l_w _ _ _ _ _ ex_s1)) Heap_proofs.w_init
  /\ match finish _ _ _ _ _ _ _ _ _ ex_cfg (ex_world []) ex_s1,
           finish _ _ _ _ _ _ _ _ _ ex_cfg (ex_world (fst (l_w _ _ _ _ _ ex_s1))) ex_s2 with
     | Ok r1, Ok r2 => length (sr_history _ _ _ _ _ r1) = 1%nat /\ length (sr_history _ _ _ _ _ r2) = 1%nat
                       /\ length (fst (l_w _ _ _ _ _ ex_s1)) = 1%nat /\ length (fst (l_w _ _ _ _ _ ex_s2)) = 2%nat
     | _, _ => False
     end.
Proof. exact two_solves_example. Qed.
Print Assumptions C11_two_solves_example.

(* write-once cells: in the repaired variant an application only appends cells *)
Theorem C11_cells_write_once :
  forall (V : Type) (veqb : V -> V -> bool) (ieq : individual V -> individual V -> bool) (zero : V)
         (ev : individual V -> result Q) (legacy_opt : bool) (o : op) (lgs : oplog V)
         (h : heap (V := V)) (arg : hpop (V := V)) h' cbs r,
    hp_ok h arg ->
    apply_h veqb ieq zero ev legacy_opt false o lgs h arg = (h', cbs, r) ->
    (exists ext, h' = h ++ ext)
    /\ (forall out, r = Ok out -> hp_ok h' out)
    /\ (forall c, In c cbs -> match c with HResult hp _ _ _ => hp = arg | HCount _ => True end).
Proof. exact @apply_h_repaired. Qed.
Print Assumptions C11_cells_write_once.

(* the heap level refines the value level of C10 (both variants): same populations, same exceptions *)
Theorem C11_heap_refines_values :
  forall (V : Type) (veqb : V -> V -> bool) (ieq : individual V -> individual V -> bool) (zero : V)
         (ev : individual V -> result Q) (legacy_opt legacy_spec : bool) (o : op) (lgs : oplog V)
         (h : heap (V := V)) (arg : hpop (V := V)) (p : population V),
    deref h arg = Ok p ->
    let '(h', cbs, r) := apply_h veqb ieq zero ev legacy_opt legacy_spec o lgs h arg in
    let oc := run_op veqb ieq zero ev legacy_opt o lgs p in
    match r, snd oc with
    | Ok out, Ok p' => deref h' out = Ok p'
    | Err e, Err e' => e = e'
    | _, _ => False
    end.
Proof. exact @apply_h_refines. Qed.
Print Assumptions C11_heap_refines_values.

(* legacy variant: speciation; selection; topological search; speciation — a population recorded earlier
   dereferences to a longer representatives list afterwards *)
Theorem C11_legacy_refuted :
  is_ok (hr_result (w_run true)) = true
  /\ map fst w_steps = [OSpeciation 0; OSelection (mkSel 0 0 (Some 1%nat)); OMutation MTopological 1; OSpeciation 0]
  /\ exists o, In o (hr_obs (w_run true)) /\ deref (hr_heap (w_run true)) (o_pop o) <> deref (o_heap o) (o_pop o).
Proof. exact legacy_refuted. Qed.
Print Assumptions C11_legacy_refuted.

(* non-vacuity: the same four-operator run in the repaired variant completes with 6 observations and one history
   entry, none of which changes *)
Example C11_example_run :
  is_ok (hr_result (w_run false)) = true
  /\ length (hr_obs (w_run false)) = 6%nat /\ length (hr_history (w_run false)) = 1%nat
  /\ existsb (obs_changed (hr_heap (w_run false))) (hr_obs (w_run false)) = false.
Proof. exact repaired_witness_stable. Qed.
Print Assumptions C11_example_run.

(* Scope of the heap: only the representatives list is a heap cell.  individuals (tuple of frozen objects),
   species_members and species_membership are immutable VALUES of the population record in this model; that the
   implementation never shares or mutates those objects is checked on every run by the snapshot oracle and the
   object-identity graph (harness/props/c11.py), not proved.
   The termination criterion of Solver/Loop.v receives the history; criteria that keep references to populations
   are covered because the heap is part of the world, not of the criterion. *)
