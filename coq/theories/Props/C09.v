(* C09 — a failed primitive job reaches exactly the callers of its batch; the wrapper stays usable.
   Repaired variant = HEAD (after fix b099965); `choice = 1` at f-end makes an invocation fail.  Property theorems only. *)
From QV Require Import Common.Base Batch.Monitor Batch.ListX Batch.Inv Batch.Route Batch.Route_proofs Batch.Live Batch.Live_proofs.

(* before the fix: one thread, first invocation fails -> its next call can never start (entry lock owned by itself) *)
Theorem C09_legacy_refuted :
  exists st, run legacy_failure (init_state c09_calls1) c09_sched1 = Some st
    /\ (forall t c, step legacy_failure st t c = None)
    /\ (exists th0, threads st = [th0] /\ t_pc th0 = E0 /\ t_outs th0 = [([1], RetExc 0 0)] /\ t_pubs th0 = [2]
        /\ lkE (sh st) = Some 0 /\ bpubs (sh st) = [1] /\ exc (sh st) = Some 0).
Proof. exact c09_legacy_witness1. Qed.
Print Assumptions C09_legacy_refuted.

(* before the fix: a member that had not started waiting when the failing executor notified hangs; so does a newcomer *)
Theorem C09_legacy_refuted_member :
  exists st, run legacy_failure (init_state c09_calls3) c09_sched3 = Some st
    /\ (forall t c, step legacy_failure st t c = None)
    /\ (exists th0 th1 th2, threads st = [th0; th1; th2] /\ t_pc th0 = N4 /\ wqI (sh st) = [0] /\ t_pc th1 = Done
        /\ t_outs th1 = [([2], RetExc 0 1)] /\ t_pc th2 = E0 /\ lkE (sh st) = Some 1).
Proof. exact c09_legacy_witness3. Qed.
Print Assumptions C09_legacy_refuted_member.

(* Every call that came back belongs to exactly one invocation k (its pubs occupy the slot idx of k's argument) and
   came back with k's result if k succeeded and with k's exception if k failed: a failure reaches every member of its
   batch that returns, nobody outside the batch, and nobody gets a result of a failed batch. *)
Theorem C09_failure_delivered : forall v st pubs o,
  failure_path_repaired v = true -> reachable v st -> returned st pubs o ->
  exists k idx arg ok, nth_error (log (sh st)) k = Some (arg, ok) /\ slice_at arg idx pubs
                       /\ o = (if ok then RetOk k idx else RetExc k idx).
Proof. exact failure_delivered. Qed.
Print Assumptions C09_failure_delivered.

(* The other direction, for uniquely tagged pubs: if invocation k failed, every call that has a pub in k's argument and has
   returned, returned k's exception (and its pubs occupy a slot of k's argument).  That every such call does return is
   C08_strong_fair_termination. *)
Theorem C09_failed_batch_members : forall v calls sched st pubs o k arg p,
  failure_path_repaired v = true -> NoDup (submitted calls) -> run v (init_state calls) sched = Some st ->
  returned st pubs o -> nth_error (log (sh st)) k = Some (arg, false) -> In p pubs -> In p arg ->
  exists idx, o = RetExc k idx /\ slice_at arg idx pubs.
Proof. exact failed_batch_members. Qed.
Print Assumptions C09_failed_batch_members.

(* Whenever no batch is open, the shared fields have their initial values and the variable lock is free, however many
   earlier invocations failed; so C06/C07/C08 apply to the continuation unchanged. *)
Theorem C09_reset_after_failure : forall v st,
  failure_path_repaired v = true -> reachable v st -> no_open_batch st ->
  fields_initial (sh st) /\ lkV (sh st) = None.
Proof. exact reset_when_no_batch. Qed.
Print Assumptions C09_reset_after_failure.

Theorem C09_quiescent_initial : forall v st,
  failure_path_repaired v = true -> reachable v st -> quiescent st ->
  fields_initial (sh st) /\ lkE (sh st) = None /\ lkV (sh st) = None /\ lkI (sh st) = None /\ lkX (sh st) = None
  /\ wqI (sh st) = [] /\ wqX (sh st) = [].
Proof. exact quiescent_initial. Qed.
Print Assumptions C09_quiescent_initial.

(* nobody hangs after a failure: C08's theorem does not depend on which invocations fail *)
Theorem C09_no_stuck_after_failure : forall v st,
  ext_wait_timed v = true -> failure_path_repaired v = true -> reachable v st ->
  some_unfinished st -> can_step v st.
Proof. exact no_stuck. Qed.
Print Assumptions C09_no_stuck_after_failure.

(* HEAD's variant, one thread, two calls, first invocation fails: Err then Ok, quiescent *)
Example C09_nonvacuous :
  exists st, run (head false) (init_state c09_calls1) c09_head_sched = Some st /\ all_done st = true
    /\ map t_outs (threads st) = [[([1], RetExc 0 0); ([2], RetOk 1 0)]]
    /\ log (sh st) = [([1], false); ([2], true)].
Proof. exact c09_head_run. Qed.
Print Assumptions C09_nonvacuous.
