(* C20 — random genome generation yields valid, redundancy-free structures.
   Model: Evqe/RandLayer.v (random.Random as a decision stream, Evqe/Stream.v); proofs: Evqe/RandLayer_proofs.v.
   Property theorems only: each closed by `exact <lemma>` and followed by Print Assumptions.
   Quantifiers: every qubit count n >= 1, every previous layer accepted by the layer constructor (or none),
   every seed, every decision stream, every fuel.  What is NOT claimed: termination for every stream
   (a stream may reject forever; for Python's generator termination is a probability-one statement). *)
From QV Require Import Evqe.Genome Evqe.Stream Evqe.RandLayer Evqe.RandLayer_proofs Evqe.RandLayer_exists_proofs.
Open Scope Z_scope.

(* random_layer: the result is a valid layer on n qubits with 3 parameters per (controlled) rotation that
   repeats no rotation / controlled rotation of the previous layer; the only way not to return is a stream
   that ends, mismatches or keeps rejecting until the fuel is used up (never an exception of the code). *)
Theorem C20_layer_valid : forall n prev seed s fuel,
  1 <= n -> prev_good n prev ->
  match random_layer n prev seed s fuel with
  | Ok (l, _) =>
      layer_wf l = true /\ l_qubits l = n /\
      layer_n_parameters l = 3 * (count_gates gate_is_rot l + count_gates is_crot l) /\
      match prev with None => True | Some p => no_repeat p l = true end
  | Err e => is_stream_error e = true
  end.
Proof. exact C20_layer_valid_proof. Qed.
Print Assumptions C20_layer_valid.

(* the retry loop: without a previous layer every draw is accepted; with one, a rejected ordered pair (r, c) is
   accepted in the other order, so a state with two candidates always has an accepted draw; every accepted draw
   removes two candidates (at most floor(n/2) accepted draws), every iteration uses one unit of fuel, and the
   loop runs out of fuel only if fuel < floor(n/2) + number of rejected draws. *)
Theorem C20_no_forced_livelock :
  (forall r c, accepts None r c = true) /\
  (forall p r c, layer_wf p = true -> accepts (Some p) r c = false -> accepts (Some p) c r = true) /\
  (forall n prev seed s fuel, 1 <= n -> prev_good n prev ->
     match random_layer_pairs n prev seed s fuel with
     | (accepted, rejected, r) =>
         (2 * accepted <= Z.to_nat n)%nat /\ (accepted + rejected <= fuel)%nat /\
         (r = Err OutOfFuel -> (fuel < Z.to_nat n / 2 + rejected)%nat)
     end).
Proof. exact C20_no_forced_livelock_proof. Qed.
Print Assumptions C20_no_forced_livelock.

(* ... and the loop CAN always be left: for every n >= 1, previous layer and seed there is a decision stream and
   a fuel on which random_layer returns a layer and consumes the stream exactly (built from draws that are all
   accepted: if (r, c) is rejected the stream draws (c, r)) *)
Theorem C20_termination_possible : forall n prev seed,
  1 <= n -> prev_good n prev ->
  exists s fuel l, random_layer n prev seed s fuel = Ok (l, []).
Proof. exact random_layer_exists. Qed.
Print Assumptions C20_termination_possible.

(* quantitative form: in EVERY state of the pairing loop (any candidate list) at least half of the outcomes of
   sample(candidates, 2) - the ordered pairs of different candidates, len*(len-1) of them - are accepted.
   (With a generator whose draws are independent and uniform the loop therefore ends with probability one;
   that statement about CPython's generator is outside the model.) *)
Theorem C20_accept_probability_half : forall prev crq,
  prev_wf prev ->
  (length (ordered_pairs crq) <= 2 * length (accepted_pairs prev crq))%nat /\
  length (ordered_pairs crq) = (length crq * (length crq - 1))%nat /\
  (NoDup crq -> forall a b, In (a, b) (ordered_pairs crq) <-> In a crq /\ In b crq /\ a <> b).
Proof. exact (fun prev crq PW => conj (accept_half prev crq PW) (conj (ordered_pairs_length crq) (ordered_pairs_in crq))). Qed.
Print Assumptions C20_accept_probability_half.

(* random_individual: valid, n qubits, n_layers layers, every adjacent pair of layers free of repeats *)
Theorem C20_individual_chain : forall n n_layers randomize seed s fuel,
  1 <= n -> 1 <= n_layers ->
  match random_individual n n_layers randomize seed s fuel with
  | Ok (i, _) =>
      individual_is_valid i = true /\ i_qubits i = n /\ Z.of_nat (length (i_layers i)) = n_layers /\
      chain_ok (i_layers i) = true
  | Err e => is_stream_error e = true
  end.
Proof. exact random_individual_spec. Qed.
Print Assumptions C20_individual_chain.

(* add_random_layers (repaired, = /repo HEAD): any number of appended layers; the old layers and values are a
   prefix; the chain last old layer :: new layers is free of repeats, hence a repeat-free individual stays so *)
Theorem C20_append_chain : forall (i : individual Z) n_layers randomize seed s fuel,
  individual_is_valid i = true -> 1 <= i_qubits i -> 1 <= n_layers ->
  match add_random_layers false i n_layers randomize seed s fuel with
  | Ok (i', _) =>
      individual_is_valid i' = true /\ i_qubits i' = i_qubits i /\
      exists new vs, i_layers i' = i_layers i ++ new /\ i_values i' = i_values i ++ vs /\
                     Z.of_nat (length new) = n_layers /\
                     (forall lst, last_res (i_layers i) = Ok lst -> chain_ok (lst :: new) = true) /\
                     (chain_ok (i_layers i) = true -> chain_ok (i_layers i') = true)
  | Err e => is_stream_error e = true
  end.
Proof. exact add_random_layers_spec. Qed.
Print Assumptions C20_append_chain.

(* the code before fix a5547f2 (previous_layer = the OLD last layer for every appended layer): 1 qubit, last
   layer an identity, two appended layers are both rotations - the second repeats the first *)
Theorem C20_append_chain_refuted :
  individual_is_valid legacy_witness_ind = true /\
  exists i', add_random_layers true legacy_witness_ind 2 false (Some 7) legacy_witness_stream 5 = Ok (i', []) /\
             individual_is_valid i' = true /\
             i_layers i' = [mkLayer 1 [GId 0]; mkLayer 1 [GRot 0]; mkLayer 1 [GRot 0]] /\
             chain_ok (i_layers i') = false.
Proof. exact legacy_append_repeats. Qed.
Print Assumptions C20_append_chain_refuted.

(* random_population: n_individuals members, all valid and repeat-free *)
Theorem C20_population : forall n n_layers n_individuals randomize seed s fuel,
  1 <= n -> 1 <= n_layers ->
  match random_population n n_layers n_individuals randomize seed s fuel with
  | Ok (is, _) =>
      length is = Z.to_nat n_individuals /\
      Forall (fun i => individual_is_valid i = true /\ i_qubits i = n /\ Z.of_nat (length (i_layers i)) = n_layers /\
                       chain_ok (i_layers i) = true) is
  | Err e => is_stream_error e = true
  end.
Proof. exact random_population_spec. Qed.
Print Assumptions C20_population.

(* ---- non-vacuity: concrete runs of the model (vm_compute) *)
(* 3 qubits after [R; CR 1<-2; C 2->1]: qubit 0 is a forced candidate, qubits 1 and 2 choose "controlled";
   the first draw (1, 2) is rejected (the previous layer holds CR 1<-2), the second (2, 1) is accepted *)
Definition ex_prev : layer := mkLayer 3 [GRot 0; GCRot 1 2; GCtrl 2 1].
Definition ex_stream : stream :=
  [DSeed (Some 5); DChoice 2 1; DChoice 2 1; DSample 3 2 [1; 2]%nat; DSample 3 2 [2; 1]%nat].

Example C20_example_reject_then_accept :
  prev_good 3 (Some ex_prev) /\
  accepts (Some ex_prev) 1 2 = false /\ accepts (Some ex_prev) 2 1 = true /\
  random_layer_pairs 3 (Some ex_prev) (Some 5) ex_stream 2
  = (1%nat, 1%nat, Ok (mkLayer 3 [GId 0; GCtrl 1 2; GCRot 2 1], [])) /\
  random_layer_pairs 3 (Some ex_prev) (Some 5) ex_stream 1 = (0%nat, 1%nat, Err OutOfFuel).
Proof. vm_compute. repeat split; reflexivity. Qed.
Print Assumptions C20_example_reject_then_accept.

Example C20_example_individual :
  random_individual 2 2 true (Some 1)
    [DSeed (Some 1); DRandint 0 SEED_MAX 3; DSeed (Some 3); DChoice 2 0; DChoice 2 1;
     DRandint 0 SEED_MAX 4; DSeed (Some 4); DSample 2 2 [0; 1]%nat;
     DRandom 21; DRandom 22; DRandom 23; DRandom 24; DRandom 25; DRandom 26; DRandom 27; DRandom 28; DRandom 29] 3
  = Ok (mkInd 2 [mkLayer 2 [GRot 0; GRot 1]; mkLayer 2 [GCRot 0 1; GCtrl 1 0]]
              [21; 22; 23; 24; 25; 26; 27; 28; 29], []).
Proof. vm_compute. reflexivity. Qed.
Print Assumptions C20_example_individual.
