(* C10 — evolutionary operators preserve population invariants (placeholder while the proofs are being written). *)
From QV Require Import Evqe.Heap Evqe.Ops_proofs.

Theorem C10_placeholder : forall A (l : list A) i x l', set_nth l i x = Ok l' -> length l' = length l.
Proof. exact @set_nth_length. Qed.
Print Assumptions C10_placeholder.
