(* C10 — evolutionary operators preserve population invariants.
   Property theorems only: each closed by `exact <lemma>` and followed by Print Assumptions.
   Models: Evqe/{Population,Speciation,Selection,Mutation,Heap}.v (over Evqe/Genome.v).  Universally quantified in every
   theorem: the type V of parameter values, the equality `ieq` used as `==` on individuals (ANY equivalence relation;
   the implementation's hash equality individual_heq is one, C10_eq_is_equivalence), the evaluator oracle `ev`,
   thresholds, probabilities, decision streams, per-task logs (optimiser answers, generated layers), completion
   orders pi, and the variant flag of optimize_layer where it does not matter. *)
From QV Require Import Evqe.Heap Evqe.Speciation_proofs Evqe.Ops_proofs Evqe.Heap_proofs Evqe.Completes_proofs Evqe.TopoC20_proofs.
From QV Require Evqe.Stream Evqe.RandLayer.
From Coq Require Import Permutation Sorting.Sorted.
Open Scope Z_scope.

(* ---- size / validity / qubits: every operator, every log *)
Theorem C10_size_valid :
  forall (V : Type) (veqb : V -> V -> bool) (ieq : individual V -> individual V -> bool) (zero : V),
    (forall x, ieq x x = true) -> (forall x y, ieq x y = true -> ieq y x = true) ->
    (forall x y z, ieq x y = true -> ieq y z = true -> ieq x z = true) ->
  forall (ev : individual V -> result Q) (legacy_opt : bool) (n : Z) (o : op) (lgs : oplog V) (p : population V) cbs p',
    pop_valid n p = true ->
    run_op veqb ieq zero ev legacy_opt o lgs p = (cbs, Ok p') ->
    pop_valid n p' = true /\ length (p_inds p') = length (p_inds p).
Proof. exact @op_size_valid. Qed.
Print Assumptions C10_size_valid.

(* ---- speciation: partition, for all incoming representative lists (stale, duplicate), thresholds, streams *)
Theorem C10_speciation_partition :
  forall (V : Type) (ieq : individual V -> individual V -> bool),
    (forall x, ieq x x = true) -> (forall x y, ieq x y = true -> ieq y x = true) ->
    (forall x y z, ieq x y = true -> ieq y z = true -> ieq x z = true) ->
  forall (thr : Z) (p : population V) (s : ostream) p' ext s',
    speciate ieq thr p s = Ok (p', ext, s') ->
    exists mem ms,
      p_inds p' = p_inds p /\ p_members p' = Some mem /\ p_membership p' = Some ms /\ p_reps p' = Some (map fst mem) /\
      Permutation (concat (map snd mem)) (seq 0 (length (p_inds p))) /\
      (forall r l, In (r, l) mem -> l <> [] /\ exists i, In i l /\ nth_error (p_inds p) i = Some r) /\
      (forall i r, dict_get Nat.eqb ms i = Some r <-> exists l, In (r, l) mem /\ In i l) /\
      kd ieq mem /\ (forall r l, In (r, l) mem -> dict_get ieq mem r = Some l).
Proof. exact @speciation_partition. Qed.
Print Assumptions C10_speciation_partition.

(* speciation completes: the only way the model fails is a stream that is not a stream of this program *)
Theorem C10_speciation_never_raises :
  forall (V : Type) (ieq : individual V -> individual V -> bool),
    (forall x, ieq x x = true) -> (forall x y, ieq x y = true -> ieq y x = true) ->
    (forall x y z, ieq x y = true -> ieq y z = true -> ieq x z = true) ->
  forall (thr : Z) (p : population V) (s : ostream) e, speciate ieq thr p s = Err e -> e = StreamMismatch.
Proof. exact @speciation_no_exception. Qed.
Print Assumptions C10_speciation_never_raises.

(* ---- the executor: collection by index is aligned for EVERY completion order, and completes for every permutation *)
Theorem C10_executor_alignment :
  forall (R : Type) (tasks : list R) (pi : list nat),
    (forall done, exec_run tasks pi = Ok done -> done = tasks)
    /\ (Permutation pi (seq 0 (length tasks)) -> exec_run tasks pi = Ok tasks).
Proof. intros R tasks pi. split; [exact (@exec_run_aligned R tasks pi)|exact (@exec_run_permutation R tasks pi)]. Qed.
Print Assumptions C10_executor_alignment.

Theorem C10_as_completed_refuted :
  exists (tasks : list nat) pi, Permutation pi (seq 0 (length tasks)) /\ exec_run_as_completed tasks pi <> Ok tasks.
Proof. exact exec_run_as_completed_misaligned. Qed.
Print Assumptions C10_as_completed_refuted.

(* ---- selection *)
(* expectation_values[i] is the evaluator's answer for individuals[i], whatever the completion order *)
Theorem C10_selection_alignment :
  forall (V : Type) (ieq : individual V -> individual V -> bool) (ev : individual V -> result Q)
         (cfg : sel_config) (p : population V) (pi : list nat) (s : ostream),
    Permutation pi (seq 0 (length (p_inds p))) ->
    selection_op ieq ev cfg p pi s =
    match mapM ev (p_inds p) with
    | Err e => ([], Err e)
    | Ok values => select_after_eval ieq cfg p values s
    end.
Proof. exact @selection_alignment. Qed.
Print Assumptions C10_selection_alignment.

Theorem C10_selection_values :
  forall (V : Type) (ieq : individual V -> individual V -> bool) (ev : individual V -> result Q)
         (cfg : sel_config) (p : population V) (pi : list nat) (s : ostream) cbs r,
    selection_op ieq ev cfg p pi s = (cbs, r) ->
    (cbs = [] /\ exists e, r = Err e) \/
    (exists values, Forall2 (fun x v => ev x = Ok v) (p_inds p) values /\ select_after_eval ieq cfg p values s = (cbs, r)).
Proof. exact @selection_values. Qed.
Print Assumptions C10_selection_values.

(* one evaluation per individual reported, best = first minimum, output drawn from the input, same size *)
Theorem C10_selection :
  forall (V : Type) (ieq : individual V -> individual V -> bool) (cfg : sel_config) (p : population V)
         (values : list Q) (s : ostream) cbs p',
    length values = length (p_inds p) ->
    select_after_eval ieq cfg p values s = (cbs, Ok p') ->
    (exists bi bx bv, cbs = [CbCount (Z.of_nat (length (p_inds p))); CbResult (mkRes p values bx bv)]
                      /\ nth_error (p_inds p) bi = Some bx /\ nth_error values bi = Some bv /\ first_min values bi)
    /\ length (p_inds p') = length (p_inds p)
    /\ (forall x, In x (p_inds p') -> In x (p_inds p))
    /\ p_reps p' = p_reps p /\ p_reps p <> None /\ p_members p' = None /\ p_membership p' = None.
Proof. exact @selection_spec. Qed.
Print Assumptions C10_selection.

(* ---- mutation *)
Theorem C10_mutation_contracts :
  forall (V : Type) (veqb : V -> V -> bool) (zero : V) (legacy_opt : bool) (k : mut_kind) (prob : Q)
         (p : population V) (pi : list nat) (s : ostream) (tls : list (task_log V)) cbs p',
    Forall (fun x => individual_is_valid x = true) (p_inds p) ->
    mutation_op veqb zero legacy_opt k prob p pi s tls = (cbs, Ok p') ->
    Forall2 (fun x x' => x' = x \/ contract k x x') (p_inds p) (p_inds p')
    /\ p_reps p' = p_reps p /\ p_members p' = None /\ p_membership p' = None
    /\ exists total, cbs = [CbCount total].
Proof. exact @mutation_contracts. Qed.
Print Assumptions C10_mutation_contracts.

(* repaired variant: a layer without parameters is left alone *)
Theorem C10_parameterless_layer_left_alone :
  forall (V : Type) (veqb : V -> V -> bool) (x : individual V) (layer_id : Z) (s : list (titem V)),
    i_layers x <> [] -> get_layer_parameter_values x layer_id = [] ->
    optimize_layer veqb false x layer_id s = Ok (x, 0, s).
Proof. exact @optimize_layer_empty. Qed.
Print Assumptions C10_parameterless_layer_left_alone.

(* only the slice of the optimised layer changes *)
Theorem C10_parameter_search_slice :
  forall (V : Type) (veqb : V -> V -> bool) (lg : bool) (x : individual V) (lid : Z) s x' n s',
    optimize_layer veqb lg x lid s = Ok (x', n, s') ->
    x' = x \/ exists new, let k := wrap_layer_id x lid in
                          i_values x' = firstn (layer_offset (i_layers x) k) (i_values x) ++ new
                                        ++ skipn (layer_offset (i_layers x) k + layer_count (i_layers x) k) (i_values x).
Proof. exact @optimize_layer_values. Qed.
Print Assumptions C10_parameter_search_slice.

(* write-back by index does not depend on the completion order *)
Theorem C10_mutation_order_independent :
  forall (V : Type) (veqb : V -> V -> bool) (zero : V) (lg : bool) (k : mut_kind) (prob : Q) (p : population V)
         (pi1 pi2 : list nat) (s : ostream) (tls : list (task_log V)) (m : nat),
    Permutation pi1 (seq 0 m) -> Permutation pi2 (seq 0 m) -> length tls = m ->
    mutation_op veqb zero lg k prob p pi1 s tls = mutation_op veqb zero lg k prob p pi2 s tls.
Proof. exact @mutation_order_independent. Qed.
Print Assumptions C10_mutation_order_independent.

(* per-task seeds are drawn in submission order, tasks are submitted in population order *)
Theorem C10_seeds_in_submission_order :
  forall (V : Type) (p : Q) (xs : list (individual V)) (i : nat) (s : ostream) subs s',
    submit_all p i xs s = Ok (subs, s') ->
    exists used, s = used ++ s' /\ map snd subs = randints used
                 /\ StronglySorted lt (map (fun t => fst (fst t)) subs)
                 /\ Forall (fun t => (i <= fst (fst t))%nat) subs.
Proof. exact @submit_all_seeds. Qed.
Print Assumptions C10_seeds_in_submission_order.

Theorem C10_legacy_empty_layer_refuted :
  pop_valid 1 legacy_witness = true
  /\ mutation_op Z.eqb 0 true MLastLayer 1 legacy_witness [0%nat] legacy_witness_stream legacy_witness_tasks = ([], Err "ValueError"%string)
  /\ mutation_op Z.eqb 0 false MLastLayer 1 legacy_witness [0%nat] legacy_witness_stream legacy_witness_tasks
     = ([CbCount 0], Ok legacy_witness).
Proof. exact legacy_empty_layer_refuted. Qed.
Print Assumptions C10_legacy_empty_layer_refuted.

(* ---- sequences *)
Theorem C10_sequences :
  forall (V : Type) (veqb : V -> V -> bool) (ieq : individual V -> individual V -> bool) (zero : V),
    (forall x, ieq x x = true) -> (forall x y, ieq x y = true -> ieq y x = true) ->
    (forall x y z, ieq x y = true -> ieq y z = true -> ieq x z = true) ->
  forall (ev : individual V -> result Q) (lg : bool) (n : Z) (steps : list (op * oplog V)) (p : population V),
    pop_valid n p = true ->
    Forall (fun oc => forall p', snd oc = Ok p' -> pop_valid n p' = true /\ length (p_inds p') = length (p_inds p))
           (run_seq veqb ieq zero ev lg steps p).
Proof. exact @seq_size_valid. Qed.
Print Assumptions C10_sequences.

(* the documented precondition: a selection not directly preceded by a speciation raises *)
Theorem C10_sequences_missing_speciation :
  forall (V : Type) (veqb : V -> V -> bool) (ieq : individual V -> individual V -> bool) (zero : V),
    (forall x, ieq x x = true) -> (forall x y, ieq x y = true -> ieq y x = true) ->
    (forall x y z, ieq x y = true -> ieq y z = true -> ieq x z = true) ->
  forall (ev : individual V -> result Q) (lg : bool) o1 lg1 cfg lg2 rest (p : population V),
    (match o1 with OSpeciation _ => False | _ => True end) ->
    forall ocs, run_seq veqb ieq zero ev lg ((o1, lg1) :: (OSelection cfg, lg2) :: rest) p = ocs ->
    match ocs with
    | [oc1] => exists e, snd oc1 = Err e
    | [oc1; oc2] => exists e, snd oc2 = Err e
    | _ => False
    end.
Proof. exact @seq_selection_needs_speciation. Qed.
Print Assumptions C10_sequences_missing_speciation.

(* ---- the implementation's `==` (hash equality) is an equivalence relation, so all of the above applies to it *)
Theorem C10_eq_is_equivalence :
  (forall x : individual Z, individual_heq Z.eqb x x = true)
  /\ (forall x y : individual Z, individual_heq Z.eqb x y = true -> individual_heq Z.eqb y x = true)
  /\ (forall x y z : individual Z, individual_heq Z.eqb x y = true -> individual_heq Z.eqb y z = true -> individual_heq Z.eqb x z = true).
Proof.
  exact (conj (individual_heq_refl Z.eqb Z.eqb_refl)
           (conj (individual_heq_sym Z.eqb (fun x y H => eq_trans (Z.eqb_sym y x) H))
                 (individual_heq_trans Z.eqb (fun x y z H1 H2 => proj2 (Z.eqb_eq x z) (eq_trans (proj1 (Z.eqb_eq x y) H1) (proj1 (Z.eqb_eq y z) H2)))))).
Qed.
Print Assumptions C10_eq_is_equivalence.

(* ... and it is strictly coarser than structural equality: two valid individuals with different circuits (genetic
   distance 1) compare equal, because the generated dataclass hashes of the gates ignore the gate class.  Recorded
   because it decides what "the same representative" means in every dict of the population. *)
Theorem C10_eq_identifies_different_individuals :
  exists a b : individual Z,
    individual_is_valid a = true /\ individual_is_valid b = true
    /\ individual_eqb Z.eqb a b = false /\ individual_heq Z.eqb a b = true /\ genetic_distance a b = 1.
Proof. exact heq_identifies_different_individuals. Qed.
Print Assumptions C10_eq_identifies_different_individuals.

(* ---- non-vacuity: a concrete four-operator run (speciation; selection; topological search; speciation) on a valid
   population completes, satisfies the sequence precondition, and its speciations return partitions *)
Example C10_example_run :
  let ocs := run_seq Z.eqb (individual_heq Z.eqb) 0 w_ev false w_steps w_pop in
  length ocs = 4%nat /\ forallb (fun oc => is_ok (snd oc)) ocs = true
  /\ pop_valid 1 w_pop = true
  /\ selection_after_speciation false (map fst w_steps) = true
  /\ forallb (fun oc => match snd oc with
                        | Ok p => match p_members p with Some _ => partition_ok (individual_heq Z.eqb) p | None => true end
                        | Err _ => false end) ocs = true.
Proof. exact witness_run_seq. Qed.
Print Assumptions C10_example_run.

(* ---- "applying any sequence ... completes": no operator raises a Python exception *)
(* One application.  step_ok: alpha, beta >= 0 and tournament size >= 1 (selection); the optimiser answers with as many
   values as it was given (mutation; a generated layer that is not a valid layer on the same qubits is reported as
   OracleContract by the model itself).  species_consistent: species information as speciation returns it. *)
Theorem C10_operator_completes :
  forall (V : Type) (veqb : V -> V -> bool) (ieq : individual V -> individual V -> bool) (zero : V),
    (forall x, ieq x x = true) -> (forall x y, ieq x y = true -> ieq y x = true) ->
    (forall x y z, ieq x y = true -> ieq y z = true -> ieq x z = true) ->
  forall (ev : individual V -> result Q), (forall x, exists v, ev x = Ok v) ->
  forall (n : Z) (o : op) (lgs : oplog V) (p : population V) cbs e,
    pop_valid n p = true -> p_inds p <> [] -> step_ok (o, lgs) ->
    (match o with OSelection _ => species_consistent ieq p | _ => True end) ->
    run_op veqb ieq zero ev false o lgs p = (cbs, Err e) -> is_log_error e = true.
Proof. exact @op_completes. Qed.
Print Assumptions C10_operator_completes.

(* Any operator sequence in which each selection is directly preceded by a speciation, on a valid non-empty population
   (individuals whose last layer carries no parameters included: validity does not exclude them), for all streams, logs
   and completion orders: every Err of the run is an artefact of the log (StreamMismatch / OracleContract / a completion
   order that is no permutation), never a Python exception.  Repaired variant (legacy_opt = false); the legacy variant
   is refuted by C10_legacy_empty_layer_refuted. *)
Theorem C10_completes :
  forall (V : Type) (veqb : V -> V -> bool) (ieq : individual V -> individual V -> bool) (zero : V),
    (forall x, ieq x x = true) -> (forall x y, ieq x y = true -> ieq y x = true) ->
    (forall x y z, ieq x y = true -> ieq y z = true -> ieq x z = true) ->
  forall (ev : individual V -> result Q), (forall x, exists v, ev x = Ok v) ->
  forall (n : Z) (steps : list (op * oplog V)) (p : population V) (prev_spec : bool),
    pop_valid n p = true -> p_inds p <> [] ->
    (prev_spec = true -> species_consistent ieq p) ->
    selection_after_speciation prev_spec (map fst steps) = true ->
    Forall step_ok steps ->
    Forall (fun oc => forall e, snd oc = Err e -> is_log_error e = true) (run_seq veqb ieq zero ev false steps p).
Proof. exact @seq_completes. Qed.
Print Assumptions C10_completes.

(* the boundary of the roulette arithmetic is inside the hypotheses of C10_operator_completes (alpha = beta = 0 and a best
   expectation value of exactly 0 are allowed: 0 <= alpha, 0 <= beta, any evaluator): the model's guard is `bv <= 0`, the
   offset is 1, selection completes.  A strict guard `bv < 0` would give fitness 0 and a ZeroDivisionError. *)
Example C10_roulette_zero_boundary :
  species_consistent (individual_heq Z.eqb) z_pop
  /\ selection_op (individual_heq Z.eqb) (fun _ => Ok 0%Q) (mkSel 0 0 None) z_pop [0%nat] [KChoices 1 (Some [1 # 2]) [0%nat]]
     = ([CbCount 1; CbResult (mkRes z_pop [0%Q] w_a 0%Q)], Ok (mkPop [w_a] (Some [w_a]) None None)).
Proof. exact roulette_zero_boundary. Qed.
Print Assumptions C10_roulette_zero_boundary.

(* C10 x C20: in the models above the layer generated by topological search is an oracle input whose contract (a
   well-formed layer on the individual's qubits) the model checks itself (OracleContract otherwise, a log error in
   C10_completes).  Instantiated with the model of EVQECircuitLayer.random_layer (Evqe/RandLayer.v, C20_layer_valid):
   whenever random_layer returns a layer for the individual's qubit count and last layer, the task log built from it
   passes the contract and the task returns a valid individual one layer longer.  (The full composition of a whole EVQE
   run with random_layer in place of the oracle is Repro/Compose.v, C17.) *)
Theorem C10_topological_search_with_random_layer :
  forall (V : Type) (zero : V) (x : individual V) (last : layer) (seed layer_seed : Z)
         (s : Stream.stream) (fuel : nat) (l : layer) s',
    individual_is_valid x = true -> 1 <= i_qubits x ->
    (exists pre, i_layers x = pre ++ [last]) ->
    0 <= layer_seed <= SEED_MAX ->
    RandLayer.random_layer (i_qubits x) (Some last) (Some layer_seed) s fuel = Ok (l, s') ->
    exists x', topological_task zero x seed [TSeed seed; TDec (KRandint 0 SEED_MAX layer_seed); TLayer l] = Ok (x', 0, [])
               /\ individual_is_valid x' = true /\ i_qubits x' = i_qubits x /\ i_layers x' = i_layers x ++ [l].
Proof. exact @topological_task_with_random_layer. Qed.
Print Assumptions C10_topological_search_with_random_layer.

Example C10_completes_hypotheses_satisfiable :
  Forall (step_ok (V := Z)) w_steps /\ (forall x, exists v, w_ev x = Ok v)
  /\ pop_valid 1 w_pop = true /\ p_inds w_pop <> [] /\ selection_after_speciation false (map fst w_steps) = true.
Proof. exact witness_steps_ok. Qed.
Print Assumptions C10_completes_hypotheses_satisfiable.
