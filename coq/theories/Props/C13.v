From QV Require Import Common.Base Crit.Criteria Crit.Spsa Crit.Criteria_proofs Crit.Spsa_proofs.
From Coq Require Import QArith Qabs.
Open Scope Q_scope.

(* C13 — termination criteria and SPSA termination checker (termination_criteria.py, spsa_termination.py).  Every result
   below is proved in Crit/Criteria_proofs.v / Crit/Spsa_proofs.v about the models Crit/Criteria.v / Crit/Spsa.v
   (repaired = /repo HEAD; legacy_* = the three pre-fix behaviours).  Nothing is left unfinished: no _partial results. *)

(* ------------------------------------------------------------------------------------------------ refinement: machine = documented decision *)
Theorem C13_best_refines : forall thr v h, run (bc_step thr v) best_init h = spec_answers (below_best thr) v h.
Proof. exact bc_refines. Qed.
Print Assumptions C13_best_refines.

Theorem C13_bestrel_refines : forall thr v h,
  run (br_step repaired thr v) best_init h = spec_answers (below_best_rel thr) v h.
Proof. exact br_refines. Qed.
Print Assumptions C13_bestrel_refines.

Theorem C13_pop_refines : forall thr v h, Forall nonempty h ->
  run (pc_step thr v) (pop_init repaired thr v) h = spec_answers (below_pop thr) v h.
Proof. exact pc_refines. Qed.
Print Assumptions C13_pop_refines.

Theorem C13_poprel_refines : forall thr v h, Forall nonempty h ->
  run (pr_step repaired thr v) (pop_init repaired thr v) h = spec_answers (below_pop_rel thr) v h.
Proof. exact pr_refines. Qed.
Print Assumptions C13_poprel_refines.

(* the hypothesis is satisfiable and the conclusion is not vacuous: a history on which the criterion fires *)
Example C13_nonempty_history :
  Forall nonempty example_history
  /\ run (pr_step repaired (1 # 2) 1) (pop_init repaired (1 # 2) 1) example_history = [Ok false; Ok false; Ok true; Ok true]
  /\ run (pc_step (1 # 2) 1) (pop_init repaired (1 # 2) 1) example_history = [Ok false; Ok false; Ok false; Ok true].
Proof.
  split.
  - unfold example_history. repeat (constructor; [discriminate|]). constructor.
  - vm_compute. split; reflexivity.
Qed.
Print Assumptions C13_nonempty_history.

Theorem C13_pop_distance_defined : forall p c, nonempty p -> nonempty c -> exists d, pop_distance p c = Ok d /\ 0 <= d.
Proof. exact pop_distance_defined. Qed.
Print Assumptions C13_pop_distance_defined.

Theorem C13_median_defined : forall l, l <> [] -> exists m, median l = Ok m.
Proof. exact median_defined. Qed.
Print Assumptions C13_median_defined.

Theorem C13_terminate_at_reading : forall below v h k,
  terminate_at below v h k = true <->
  (v + 1 <= k)%nat /\ forall i, (i <= v)%nat -> below_at below h (k - i) = true.
Proof. exact terminate_at_reading. Qed.
Print Assumptions C13_terminate_at_reading.

(* the multiplicative form of the specification is the quotient form for a non-zero reference, false for a zero one *)
Theorem C13_rel_quotient_form : forall thr p c,
  (~ best p == 0 -> below_best_rel thr p c = Qltb (Qabs (best p - best c) / Qabs (best p)) thr)
  /\ (best p == 0 -> below_best_rel thr p c = false).
Proof. intros; split; [apply rel_quotient_form | apply rel_zero_reference]. Qed.
Print Assumptions C13_rel_quotient_form.

Theorem C13_poprel_quotient_form : forall thr p c m, median (somes (values p)) = Ok m ->
  (forall d, pop_distance p c = Ok d -> ~ m == 0 -> below_pop_rel thr p c = Qltb (d / Qabs m) thr)
  /\ (m == 0 -> below_pop_rel thr p c = false).
Proof.
  intros thr p c m Em; split; [intros d E H; exact (poprel_quotient_form thr p c d m E Em H) | apply poprel_zero_reference; exact Em].
Qed.
Print Assumptions C13_poprel_quotient_form.

(* ------------------------------------------------------------------------------------------------ SPSA termination checker *)
Theorem C13_spsa_refines : forall thr v maxfev h,
  spsa_run repaired thr v maxfev spsa_init h = spsa_spec thr v maxfev [] 0 false h.
Proof. exact spsa_refines. Qed.
Print Assumptions C13_spsa_refines.

(* a callback sequence whose second part is recognised as a new optimiser run (the previous callback was answered
   "terminate" by the change criterion, or the evaluation counter does not increase) is answered run by run *)
Theorem C13_spsa_segments : forall thr v maxfev h1 h2,
  match h2 with
  | [] => True
  | i :: _ => done (spsa_state_after repaired thr v maxfev spsa_init h1) = true
              \/ (si_n i <= nfe (spsa_state_after repaired thr v maxfev spsa_init h1))%Z
  end ->
  spsa_run repaired thr v maxfev spsa_init (h1 ++ h2)
  = spsa_run repaired thr v maxfev spsa_init h1 ++ spsa_run repaired thr v maxfev spsa_init h2.
Proof. exact spsa_segments. Qed.
Print Assumptions C13_spsa_segments.

(* what the premise means: the stored counter is the one of the last callback ... *)
Theorem C13_spsa_nfe_last : forall fl thr v maxfev h1 d, h1 <> [] ->
  nfe (spsa_state_after fl thr v maxfev spsa_init h1) = si_n (last h1 d).
Proof. exact spsa_nfe_last. Qed.
Print Assumptions C13_spsa_nfe_last.

(* ... and "done" says that the change criterion, not the evaluation budget, answered the last callback with True *)
Theorem C13_spsa_done_iff : forall thr v maxfev h i,
  done (spsa_state_after repaired thr v maxfev spsa_init (h ++ [i])) = true
  <-> last (spsa_run repaired thr v maxfev spsa_init (h ++ [i])) (Ok false) = Ok true
      /\ maxfev_hit maxfev (si_n i) = false.
Proof. exact spsa_done_iff. Qed.
Print Assumptions C13_spsa_done_iff.

(* any number of runs, any flags; [recognised_start fl s h2]: h2 is empty, or s is done, or the first counter of h2
   hits the boundary test of the variant ([boundary_hit fl]: <= stored counter; before fix 05ee1f9: <) *)
Theorem C13_spsa_segments_list : forall fl thr v maxfev (runs : list (list spsa_in)),
  (forall j, (0 < j < length runs)%nat ->
     recognised_start fl (spsa_state_after fl thr v maxfev spsa_init (concat (firstn j runs))) (nth j runs [])) ->
  spsa_run fl thr v maxfev spsa_init (concat runs) = concat (map (spsa_run fl thr v maxfev spsa_init) runs).
Proof. exact spsa_segments_list. Qed.
Print Assumptions C13_spsa_segments_list.

(* the premise of C13_spsa_segments is satisfiable with non-trivial answers: first run closed by the criterion,
   second run recognised by the decreasing counter *)
Example C13_spsa_segments_example :
  let h1 := [mk_in 2 4; mk_in 4 3] in
  let h2 := [mk_in 2 4; mk_in 4 1; mk_in 6 1] in
  let h3 := [mk_in 2 8] in
  done (spsa_state_after repaired (1 # 2) 0 None spsa_init h1) = true
  /\ (si_n (mk_in 2 8) < nfe (spsa_state_after repaired (1 # 2) 0 None spsa_init (h1 ++ h2)))%Z
  /\ spsa_run repaired (1 # 2) 0 None spsa_init h1 = [Ok false; Ok true]
  /\ spsa_run repaired (1 # 2) 0 None spsa_init h2 = [Ok false; Ok false; Ok true]
  /\ spsa_run repaired (1 # 2) 0 None spsa_init (h1 ++ h2) = [Ok false; Ok true; Ok false; Ok false; Ok true].
Proof. vm_compute. repeat split. Qed.
Print Assumptions C13_spsa_segments_example.

(* Which optimiser behaviour the implicit reset covers.  Within one run of qiskit_algorithms' SPSA the evaluation
   counter strictly increases from callback to callback.  WITHOUT blocking every run of one optimiser configuration
   issues its first callback with the same counter; then the first counter of a new run never exceeds the last counter
   of the previous run and "counter did not increase" recognises every run start: no premise about checker states is
   needed (C13_spsa_segments_runs, C13_spsa_first_count_constant — conditional theorems).
   Before fix 05ee1f9 the reset required a strictly smaller counter, which misses a new run starting with the same
   counter as the last callback of a single-callback run (C13_spsa_run_boundary_refuted).
   With SPSA(blocking=True) the premise is FALSE: rejected iterations skip the checker call while the counter grows, so a
   run's first call carries a varying counter.  NOT recognisable — the KNOWN FINDING of C13 (known_findings.txt, key
   answer-spsa-run-boundary-increasing-count; no repair without an explicit reset signal in the callback interface):
   a new run whose first counter is larger than the last counter of the previous run that was not ended by the change
   criterion is indistinguishable from a continuation and is merged with it
   (C13_spsa_known_finding_increasing_count, C13_spsa_unrecognisable_example are the model-level witnesses). *)
Theorem C13_spsa_segments_runs : forall thr v maxfev runs,
  Forall run_wf runs ->
  (forall j r r', nth_error runs j = Some r -> nth_error runs (S j) = Some r' ->
     forall a b, first_n r' = Some a -> last_n r = Some b -> (a <= b)%Z) ->
  spsa_run repaired thr v maxfev spsa_init (concat runs)
  = concat (map (spsa_run repaired thr v maxfev spsa_init) runs).
Proof. exact spsa_segments_runs. Qed.
Print Assumptions C13_spsa_segments_runs.

Theorem C13_spsa_first_count_constant : forall thr v maxfev runs c,
  Forall run_wf runs ->
  Forall (fun r => option_map si_n (hd_error r) = Some c) runs ->
  spsa_run repaired thr v maxfev spsa_init (concat runs)
  = concat (map (spsa_run repaired thr v maxfev spsa_init) runs).
Proof. exact spsa_first_count_constant. Qed.
Print Assumptions C13_spsa_first_count_constant.

(* hypotheses satisfiable: three runs all starting at counter 2, the second a single callback *)
Theorem C13_spsa_first_count_example :
  Forall run_wf example_runs
  /\ Forall (fun r => option_map si_n (hd_error r) = Some 2%Z) example_runs
  /\ adjacent_runs_ok example_runs
  /\ spsa_run repaired (1 # 2) 0 None spsa_init (concat example_runs)
     = [Ok false; Ok true; Ok false; Ok false; Ok false; Ok true]
  /\ concat (map (spsa_run repaired (1 # 2) 0 None spsa_init) example_runs)
     = [Ok false; Ok true; Ok false; Ok false; Ok false; Ok true].
Proof. exact spsa_first_count_example. Qed.
Print Assumptions C13_spsa_first_count_example.

Theorem C13_spsa_run_boundary_refuted :
  exists thr v h1 h2,
    (exists n f1 f2, h1 = [mk_in n f1] /\ h2 = [mk_in n f2])
    /\ spsa_run legacy_run_boundary thr v None spsa_init (h1 ++ h2)
       <> spsa_run legacy_run_boundary thr v None spsa_init h1 ++ spsa_run legacy_run_boundary thr v None spsa_init h2
    /\ spsa_run repaired thr v None spsa_init (h1 ++ h2)
       = spsa_run repaired thr v None spsa_init h1 ++ spsa_run repaired thr v None spsa_init h2.
Proof. exact spsa_run_boundary_refuted. Qed.
Print Assumptions C13_spsa_run_boundary_refuted.

Theorem C13_spsa_run_boundary_answers :
  spsa_run legacy_run_boundary (1 # 2) 0 None spsa_init ([mk_in 2 5] ++ [mk_in 2 6]) = [Ok false; Ok true]
  /\ spsa_run legacy_run_boundary (1 # 2) 0 None spsa_init [mk_in 2 5]
     ++ spsa_run legacy_run_boundary (1 # 2) 0 None spsa_init [mk_in 2 6] = [Ok false; Ok false]
  /\ spsa_run repaired (1 # 2) 0 None spsa_init ([mk_in 2 5] ++ [mk_in 2 6]) = [Ok false; Ok false].
Proof. exact spsa_run_boundary_answers. Qed.
Print Assumptions C13_spsa_run_boundary_answers.

Theorem C13_spsa_unrecognisable_example :
  spsa_run repaired (1 # 2) 0 None spsa_init ([mk_in 2 5] ++ [mk_in 3 6]) = [Ok false; Ok true]
  /\ spsa_run repaired (1 # 2) 0 None spsa_init [mk_in 2 5] ++ spsa_run repaired (1 # 2) 0 None spsa_init [mk_in 3 6]
     = [Ok false; Ok false]
  /\ spsa_run repaired (1 # 2) 0 None spsa_init ([mk_in 2 5] ++ [mk_in 3 6])
     <> spsa_run repaired (1 # 2) 0 None spsa_init [mk_in 2 5] ++ spsa_run repaired (1 # 2) 0 None spsa_init [mk_in 3 6].
Proof. exact spsa_unrecognisable_example. Qed.
Print Assumptions C13_spsa_unrecognisable_example.

(* the known finding on the history kept in corpus/C13/spsa-blocking-increasing-first-count.json: the premise of
   C13_spsa_segments fails and the answers of the joined sequence differ from the per-run answers *)
Theorem C13_spsa_known_finding_increasing_count :
  spsa_run repaired (1 # 2) 0 None spsa_init ([mk_in 4 5] ++ [mk_in 7 6]) = [Ok false; Ok true]
  /\ spsa_run repaired (1 # 2) 0 None spsa_init [mk_in 4 5] ++ spsa_run repaired (1 # 2) 0 None spsa_init [mk_in 7 6]
     = [Ok false; Ok false]
  /\ ~ (match [mk_in 7 6] with
        | [] => True
        | i :: _ => done (spsa_state_after repaired (1 # 2) 0 None spsa_init [mk_in 4 5]) = true
                    \/ (si_n i <= nfe (spsa_state_after repaired (1 # 2) 0 None spsa_init [mk_in 4 5]))%Z
        end).
Proof. exact spsa_known_finding_increasing_count. Qed.
Print Assumptions C13_spsa_known_finding_increasing_count.

Theorem C13_spsa_best_value : forall thr v maxfev h seg lastn closed,
  spsa_seg_after thr v maxfev [] 0 false h = (seg, lastn, closed) ->
  let s := spsa_state_after repaired thr v maxfev spsa_init h in
  let R := map si_f (filter (recorded maxfev) seg) in
  fv_hist s = R /\ nfe s = lastn /\ done s = closed
  /\ (R = [] -> best_f s = Inf)
  /\ (R <> [] -> exists m, best_f s = Fin m /\ In m R /\ forall x, In x R -> m <= x).
Proof. exact spsa_best_value. Qed.
Print Assumptions C13_spsa_best_value.

(* ------------------------------------------------------------------------------------------------ threshold criterion *)
Theorem C13_threshold : forall thr h, run (th_step thr) tt h = map (fun ev => Ok (Qltb (best ev) thr)) h.
Proof. exact th_refines. Qed.
Print Assumptions C13_threshold.

(* ------------------------------------------------------------------------------------------------ resets *)
Theorem C13_best_reset : forall thr v h1 h2,
  run (bc_step thr v) (best_reset (state_after (bc_step thr v) best_init h1)) h2 = run (bc_step thr v) best_init h2
  /\ run_ops (bc_step thr v) best_reset best_init (map Step h1 ++ Reset :: map Step h2)
     = run (bc_step thr v) best_init h1 ++ run (bc_step thr v) best_init h2.
Proof. intros; split; [exact (bc_reset_ok thr v h1 h2) | exact (bc_reset_ops thr v h1 h2)]. Qed.
Print Assumptions C13_best_reset.

Theorem C13_bestrel_reset : forall fl thr v h1 h2,
  run (br_step fl thr v) (best_reset (state_after (br_step fl thr v) best_init h1)) h2 = run (br_step fl thr v) best_init h2
  /\ run_ops (br_step fl thr v) best_reset best_init (map Step h1 ++ Reset :: map Step h2)
     = run (br_step fl thr v) best_init h1 ++ run (br_step fl thr v) best_init h2.
Proof. intros; split; [exact (br_reset_ok fl thr v h1 h2) | exact (br_reset_ops fl thr v h1 h2)]. Qed.
Print Assumptions C13_bestrel_reset.

Theorem C13_threshold_reset : forall thr h1 h2,
  run (th_step thr) ((fun u : unit => u) (state_after (th_step thr) tt h1)) h2 = run (th_step thr) tt h2
  /\ run_ops (th_step thr) (fun u => u) tt (map Step h1 ++ Reset :: map Step h2)
     = run (th_step thr) tt h1 ++ run (th_step thr) tt h2.
Proof. intros; split; [exact (th_reset_ok thr h1 h2) | exact (th_reset_ops thr h1 h2)]. Qed.
Print Assumptions C13_threshold_reset.

Theorem C13_pop_reset : forall fl thr v h1 h2,
  run (pc_step thr v) (pop_reset fl thr v (state_after (pc_step thr v) (pop_init fl thr v) h1)) h2
  = run (pc_step thr v) (pop_init fl thr v) h2
  /\ run_ops (pc_step thr v) (pop_reset fl thr v) (pop_init fl thr v) (map Step h1 ++ Reset :: map Step h2)
     = run (pc_step thr v) (pop_init fl thr v) h1 ++ run (pc_step thr v) (pop_init fl thr v) h2.
Proof. intros; split; [exact (pc_reset_ok fl thr v h1 h2) | exact (pc_reset_ops fl thr v h1 h2)]. Qed.
Print Assumptions C13_pop_reset.

Theorem C13_poprel_reset : forall fl thr v h1 h2,
  run (pr_step fl thr v) (pop_reset fl thr v (state_after (pr_step fl thr v) (pop_init fl thr v) h1)) h2
  = run (pr_step fl thr v) (pop_init fl thr v) h2
  /\ run_ops (pr_step fl thr v) (pop_reset fl thr v) (pop_init fl thr v) (map Step h1 ++ Reset :: map Step h2)
     = run (pr_step fl thr v) (pop_init fl thr v) h1 ++ run (pr_step fl thr v) (pop_init fl thr v) h2.
Proof. intros; split; [exact (pr_reset_ok fl thr v h1 h2) | exact (pr_reset_ops fl thr v h1 h2)]. Qed.
Print Assumptions C13_poprel_reset.

(* ------------------------------------------------------------------------------------------------ legacy variants refuted *)
Theorem C13_poprel_negative_refuted :
  exists thr v h, Forall nonempty h /\
    run (pr_step legacy_signed thr v) (pop_init legacy_signed thr v) h <> spec_answers (below_pop_rel thr) v h.
Proof. exact poprel_negative_refuted. Qed.
Print Assumptions C13_poprel_negative_refuted.

Theorem C13_zero_reference_refuted :
  exists thr v h, In (Err "ZeroDivisionError") (run (br_step legacy_zero thr v) best_init h).
Proof. exact zero_reference_refuted. Qed.
Print Assumptions C13_zero_reference_refuted.

Theorem C13_zero_reference_answers :
  run (br_step legacy_zero (1 # 2) 0) best_init [mk_ev 0 []; mk_ev 1 []; mk_ev 2 []]
  = [Ok false; Err "ZeroDivisionError"; Err "ZeroDivisionError"]
  /\ run (br_step repaired (1 # 2) 0) best_init [mk_ev 0 []; mk_ev 1 []; mk_ev 2 []] = [Ok false; Ok false; Ok false].
Proof. exact zero_reference_answers. Qed.
Print Assumptions C13_zero_reference_answers.

Theorem C13_negative_threshold_refuted :
  exists thr v ev, nonempty ev /\
    run (pc_step thr v) (pop_init legacy_sentinel thr v) [ev] = [Ok true] /\
    spec_answers (below_pop thr) v [ev] = [Ok false].
Proof. exact negative_threshold_refuted. Qed.
Print Assumptions C13_negative_threshold_refuted.

Theorem C13_spsa_negative_refuted :
  exists thr v h, (length h <= 3)%nat /\ Forall (fun i => si_acc i = true /\ si_f i < 0) h /\
    spsa_run legacy_signed thr v None spsa_init h <> spsa_spec thr v None [] 0 false h.
Proof. exact spsa_negative_refuted. Qed.
Print Assumptions C13_spsa_negative_refuted.

Theorem C13_spsa_zero_refuted :
  exists thr v h, map si_f h = [0; 1] /\ In (Err "ZeroDivisionError") (spsa_run legacy_zero thr v None spsa_init h).
Proof. exact spsa_zero_refuted. Qed.
Print Assumptions C13_spsa_zero_refuted.

(* ------------------------------------------------------------------------------------------------ corollaries: whole operation sequences, no exception *)
(* any interleaving of evaluations and resets, all five criteria, including the constructor check *)
Theorem C13_criterion_refines : forall k thr v ops, Forall (Forall nonempty) (segments ops) ->
  run_criterion repaired k thr v ops
  = if ctor_ok k thr v then Ok (concat (map (kind_spec k thr (Z.to_nat v)) (segments ops))) else Err "ValueError".
Proof. exact run_criterion_refines. Qed.
Print Assumptions C13_criterion_refines.

Theorem C13_spec_never_raises : forall below v h,
  length (spec_answers below v h) = length h /\ Forall (fun a => is_ok a = true) (spec_answers below v h).
Proof. exact spec_answers_ok. Qed.
Print Assumptions C13_spec_never_raises.

Theorem C13_spsa_no_exception : forall thr v maxfev h,
  length (spsa_run repaired thr v maxfev spsa_init h) = length h
  /\ Forall (fun a => is_ok a = true) (spsa_run repaired thr v maxfev spsa_init h).
Proof. exact spsa_no_exception. Qed.
Print Assumptions C13_spsa_no_exception.

Theorem C13_bestrel_refines_guarded : forall fl thr v h, zero_guard fl = true ->
  run (br_step fl thr v) best_init h = spec_answers (below_best_rel thr) v h.
Proof. exact br_refines_guarded. Qed.
Print Assumptions C13_bestrel_refines_guarded.

Example C13_segments_example :
  segments [Step (mk_ev 1 [Some 1]); Step (mk_ev 2 [Some 2]); Reset; Step (mk_ev 3 [Some 3])]
  = [[mk_ev 1 [Some 1]; mk_ev 2 [Some 2]]; [mk_ev 3 [Some 3]]]
  /\ Forall (Forall nonempty) (segments [Step (mk_ev 1 [Some 1]); Step (mk_ev 2 [Some 2]); Reset; Step (mk_ev 3 [Some 3])]).
Proof. split; [reflexivity|]. simpl. repeat (constructor; try discriminate). Qed.
Print Assumptions C13_segments_example.

(* ------------------------------------------------------------------------------------------------ limit of the model: double range *)
(* KNOWN FINDING answer-intermediate-overflow-beyond-double-range: the exact-rational model (= the documented decision)
   answers "do not terminate" on the two corpus witnesses corpus/C13/poprel-median-overflow-*.json, the double-precision
   implementation answers True; the model does not represent the double range, the class is decided by the oracle only. *)
Theorem C13_poprel_exact_answer_on_overflow_witness :
  Forall nonempty overflow_witness_1 /\ Forall nonempty overflow_witness_2
  /\ run (pr_step repaired (1 # 2) 1) (pop_init repaired (1 # 2) 1) overflow_witness_1 = [Ok false; Ok false; Ok false]
  /\ run (pr_step repaired (1 # 100) 0) (pop_init repaired (1 # 100) 0) overflow_witness_2 = [Ok false; Ok false].
Proof. exact poprel_exact_answer_on_overflow_witness. Qed.
Print Assumptions C13_poprel_exact_answer_on_overflow_witness.

(* KNOWN FINDING answer-intermediate-underflow-below-double-range (corpus/C13/poprel-median-underflow-zero-reference.json):
   the exact model answers "terminate" at the second evaluation, the reference median 2.47e-324 being non-zero; the
   double-precision implementation computes the median as 0.0 and answers False.  Not modelled: the double range. *)
Theorem C13_poprel_exact_answer_on_underflow_witness :
  Forall nonempty underflow_witness
  /\ run (pr_step repaired (3 # 4) 0) (pop_init repaired (3 # 4) 0) underflow_witness = [Ok false; Ok true]
  /\ (exists m, median (somes (values (mk_ev (-(4)) [Some ((1)%Z # 202402253307310618352495346718917307049556649764142118356901358027430339567995346891960383701437124495187077864316811911389808737385793476867013399940738509921517424276566361364466907742093216341239767678472745068562007483424692698618103355649159556340810056512358769552333414615230502532186327508646006263307707741093494784%positive); Some (-(4)); Some 0; Some 1]))) = Ok m /\ ~ m == 0).
Proof. exact poprel_exact_answer_on_underflow_witness. Qed.
Print Assumptions C13_poprel_exact_answer_on_underflow_witness.
