(* C04 — all circuit views of an individual denote the same unitary.
   Model: Evqe/Names.v (parameter names, code-point order, sorting), Evqe/Circuit.v (instruction lists,
   positional binding over sorted names); proofs: Evqe/Names_proofs.v, Evqe/Circuit_proofs.v.
   The unitary of a circuit is a function of its bound instruction list, so the theorems state EQUALITY OF BOUND
   INSTRUCTION LISTS, which implies equality of unitaries under any gate semantics.
   Bound, written into every statement: fewer than 10^6 layers (the width of the zero-padded layer id of the
   repaired name prefix `layer{layer_id:06d}_`).  Values are of an arbitrary type V. *)
From QV Require Import Evqe.Genome Evqe.Names Evqe.Circuit Evqe.Names_proofs Evqe.Circuit_proofs.
Open Scope Z_scope.

(* every partially parameterised circuit (any set S of symbolic layers, ids taken modulo the layer count), bound
   positionally with the per-layer values of its symbolic layers in layer order, is get_quantum_circuit()
   (= the fully parameterised circuit bound with parameter_values), which is also the circuit in which every
   layer is bound to its own values (S = {}) *)
Theorem C04_views_agree : forall (V : Type) (i : individual V) (S : list Z),
  individual_is_valid i = true -> Z.of_nat (length (i_layers i)) <= 1000000 ->
  exists c full,
    partially_parameterized false i S = Ok c /\
    concrete false i = Ok full /\ by_layer false i = Ok full /\
    assign_positional c (values_for (layer_values i) (wrap_set i S) (length (i_layers i))) = Ok full.
Proof. exact @views_agree. Qed.
Print Assumptions C04_views_agree.

(* replacing the values of layer k (= layer_id mod #layers): get_quantum_circuit() of the new individual is the
   circuit with only layer k symbolic bound with the new values; per layer, the instructions of all other
   layers are the same as before *)
Theorem C04_layer_update : forall (V : Type) (i : individual V) (layer_id : Z) (vs : list V) (i' : individual V),
  individual_is_valid i = true -> Z.of_nat (length (i_layers i)) <= 1000000 ->
  change_layer_parameter_values i layer_id vs = Ok i' ->
  let k := wrap_layer_id i layer_id in
  exists c bs bs',
    partially_parameterized false i [layer_id] = Ok c /\
    assign_positional c vs = concrete false i' /\
    layer_blocks false i = Ok bs /\ layer_blocks false i' = Ok bs' /\
    concrete false i = Ok (concat bs) /\ concrete false i' = Ok (concat bs') /\
    length bs' = length bs /\
    forall j, j <> k -> nth_error bs' j = nth_error bs j.
Proof. exact @layer_update. Qed.
Print Assumptions C04_layer_update.

(* name order = layer order below 10^6 layers, whatever follows the prefix (qubit index, angle name);
   the legacy prefix layer{layer_id}_ is not ordered: "layer10_" < "layer2_" *)
Theorem C04_name_order :
  (forall i j x y, 0 <= i < j -> j < 1000000 ->
     lex_lt (layer_prefix false i ++ x) (layer_prefix false j ++ y) = true) /\
  lex_lt (layer_prefix true 10) (layer_prefix true 2) = true.
Proof. exact (conj prefix_lt legacy_prefix_not_ordered). Qed.
Print Assumptions C04_name_order.

(* the code before fix c0eba1b: 1 qubit, 11 rotation layers with values 1..33 - get_quantum_circuit() is not
   the circuit with every layer bound to its own values (with the repaired names it is) *)
Theorem C04_legacy_refuted :
  individual_is_valid c04_witness = true /\ length (i_layers c04_witness) = 11%nat /\
  exists a b, concrete true c04_witness = Ok a /\ by_layer true c04_witness = Ok b /\ a <> b /\
              concrete false c04_witness = Ok b /\ by_layer false c04_witness = Ok b.
Proof. exact legacy_views_differ. Qed.
Print Assumptions C04_legacy_refuted.

(* ---- non-vacuity: sorted parameter names of a layer (lambda < phi < theta), q10 before q2; the value slice goes to the
   qubits in STRING order of their index, (lambda, phi, theta) each *)
Example C04_example_string_order :
  sort_names (circuit_params (V := Z) (layer_circuit false 3 (mkLayer 3 [GRot 0; GCRot 1 2; GCtrl 2 1])))
  = map (fun s => layer_prefix false 3 ++ s)
        [ [113; 48; 95] ++ s_lambda; [113; 48; 95] ++ s_phi; [113; 48; 95] ++ s_theta;
          [113; 49; 95] ++ s_lambda; [113; 49; 95] ++ s_phi; [113; 49; 95] ++ s_theta ]%nat /\
  lex_lt (param_name (layer_prefix false 0) 10 s_theta) (param_name (layer_prefix false 0) 2 s_lambda) = true /\
  concrete false (mkInd 2 [mkLayer 2 [GRot 0; GId 1]; mkLayer 2 [GCRot 0 1; GCtrl 1 0]] [1; 2; 3; 4; 5; 6])
  = Ok [IU 0 (AVal 3) (AVal 2) (AVal 1); IId 1; ICU3 1 0 (AVal 6) (AVal 5) (AVal 4)].
Proof. vm_compute. repeat split; reflexivity. Qed.
Print Assumptions C04_example_string_order.
