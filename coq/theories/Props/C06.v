(* C06 — batching wrapper: every caller gets exactly the results of its own pubs; every pub reaches the primitive once.
   Model: Batch/Monitor.v (BatchingMutexPrimitiveJobRunner.run as a transition system; `reachable v st` = any number of
   threads, any calls per thread, any pubs per call, any schedule).  All theorems are for every variant whose failure
   path is the repaired one (HEAD); they do not depend on `ext_wait_timed` or `linger`.
   The invariant `Inv` (Batch/Inv.v, preserved by every step: Batch/InvNum_proofs.v, Batch/Inv_proofs.v) realises the
   invariants of DESIGN.md C06 without a ghost batch list, by counting threads per phase:
     (L) inv_E inv_V inv_I inv_X (owner = Some t iff t's program counter holds the lock);
     (W) inv_wqI inv_wqX and the N4 clause of th_ok;   (B) inv_tc inv_ec inv_blen and the slice clause of th_ok;
     (P) inv_one inv_noent inv_ready inv_exec inv_handed inv_inflight;   (Q) inv_idle (+ Route_proofs.reset_when_no_batch);
     (K) Route_proofs.accounted_step (the permutation is preserved by every step).
   Property theorems only: each closed by `exact <lemma>` and followed by Print Assumptions. *)
From QV Require Import Common.Base Batch.Monitor Batch.ListX Batch.Inv Batch.Route Batch.Route_proofs Batch.Live Batch.Live_proofs.
From Coq Require Import Permutation.

(* A call that returned got the result object of ONE invocation k and a start index such that the wrapper's slice
   [result[i] for i in range(idx, idx+n)] is exactly R k p for its own pubs p, in order (no IndexError), and its pubs
   occupy exactly that slot of the argument of invocation k. *)
Theorem C06_slice : forall (A : Type) (R : nat -> pub -> A) v st pubs k idx,
  failure_path_repaired v = true -> reachable v st -> returned st pubs (RetOk k idx) ->
  wrapper_return R (log (sh st)) pubs (RetOk k idx) = Ok (results R k pubs)
  /\ exists arg, nth_error (log (sh st)) k = Some (arg, true) /\ firstn (length pubs) (skipn idx arg) = pubs.
Proof. exact @slice_returned. Qed.
Print Assumptions C06_slice.

(* No call ends in the wrapper's own "Result was not yet ready to retrieve!" ValueError. *)
Theorem C06_no_spurious_error : forall v st pubs,
  failure_path_repaired v = true -> reachable v st -> ~ returned st pubs RetValueError.
Proof. exact never_value_error. Qed.
Print Assumptions C06_no_spurious_error.

(* In every reachable state: completed invocations ++ invocation in progress ++ open batch ++ not yet entered
   is a permutation of everything submitted. *)
Theorem C06_exactly_once : forall v calls sched st,
  failure_path_repaired v = true -> run v (init_state calls) sched = Some st ->
  Permutation (accounted st) (submitted calls).
Proof. exact exactly_once. Qed.
Print Assumptions C06_exactly_once.

(* At quiescence the primitive has seen every submitted pub exactly once. *)
Theorem C06_exactly_once_quiescent : forall v calls sched st,
  failure_path_repaired v = true -> run v (init_state calls) sched = Some st -> all_done st = true ->
  Permutation (logged (sh st)) (submitted calls).
Proof. exact exactly_once_quiescent. Qed.
Print Assumptions C06_exactly_once_quiescent.

(* The invariant all of the above are corollaries of, for every reachable state. *)
Theorem C06_invariant : forall v st, failure_path_repaired v = true -> reachable v st -> Inv st.
Proof. exact Inv_proofs.reachable_inv. Qed.
Print Assumptions C06_invariant.

(* Three threads: T0 and T1 share one batch, T2 forms the next one; quiescent, all three calls returned their slices. *)
Example C06_nonvacuous :
  exists st, run (head true) (init_state demo_calls) demo_sched = Some st /\ all_done st = true
    /\ map t_outs (threads st) = [[([1;2], RetOk 0 0)]; [([3], RetOk 0 2)]; [([4;5;6], RetOk 1 0)]]
    /\ log (sh st) = [([1;2;3], true); ([4;5;6], true)].
Proof. exact demo_run. Qed.
Print Assumptions C06_nonvacuous.
