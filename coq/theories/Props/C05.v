(* C05 — the solver result is consistent with its own evaluation history.
   Property theorems only: each closed by `exact <lemma>` and followed (after the section) by Print Assumptions.

   Model: Solver/Loop.v (`solve` = EvolvingAnsatzMinimumEigensolver._solve_by_evolution as a state machine over oracles);
   specification over the trace of callback events: Solver/Ledger.v.  Every theorem is for ALL types of individuals /
   results / populations / operators / world states, ALL configurations (operator list, limits, criterion as an
   arbitrary function of the history, initial state, aux evaluators), ALL oracles (what an application reports and
   returns, what the estimate answers) and ALL fuel, under the only premise that the run returned:
   `solve cfg wd fuel = (tr, Ok res)` (so Err OutOfFuel, operator exceptions and the nothing-evaluated raise are excluded).

   The per-evaluation alignment clause (value i belongs to individual i, best = min) is about EVQESelection, not about
   the loop: theorem C10_selection_alignment (Props/C10.v); here it is checked on every recorded real run by the
   oracle (harness/vlib/solvercases.py: oracle_evqe_c05), as is the re-evaluation of the best individual.

   C05_result_assembly only fixes what the model's `finish` returns: WHICH individual the eigenstate and the aux values
   are computed from.  That `w_measure init i` means "the circuit of i composed BEHIND init, measured" is the reading
   of an abstract function, and the Python lines that assemble the result are not covered by the translation tie: the
   clause "eigenstate = distribution of the best individual behind the initial state, aux values = its objectives" is
   DECIDED BY THE ORACLE on real runs (eigenstate-not-of-best / aux-not-of-best, with initial states that do not
   commute with the ansatz, aux operators as list and dict, estimator / sampler / bitstring evaluators).

   builder-repro composes this loop model with the models of the EVQE operators (Repro/Compose.v) and instantiates
   C05_ledger_shape_evqe for the composed model without the shape hypothesis; those closed instances are stated in
   Props/C17.v (C17_run_ledger_shape etc.), not here. *)
From QV Require Import Common.Base Solver.Loop Solver.Ledger Solver.Ledger_proofs Solver.Loop_proofs Solver.Shape_proofs
  Solver.SolverCheck.
From Coq Require Import QArith.

Section C05.
  Variables Ind R Pop Op W Init Dist AuxEv AV : Type.
  Variable best_value : R -> Q.       (* evaluation_result.best_expectation_value *)
  Variable best_ind : R -> Ind.       (* evaluation_result.best_individual *)
  Notation config := (config Ind R Op Init AuxEv).
  Notation world := (world Ind R Pop Op W Init Dist AuxEv AV).
  Notation solve := (solve Ind R Pop Op W Init Dist AuxEv AV best_value best_ind).
  Notation events_of := (events_of Ind R Pop Op).

  (* eigenvalue = minimum of best_expectation_value over the history; best individual = the individual of the FIRST
     entry attaining it (first_min: nth_error hist i = Some r, r minimal, every earlier entry strictly larger);
     the history is exactly the reported results in order *)
  Theorem C05_eigenvalue_is_min : forall (cfg : config) (wd : world) fuel tr res,
    solve cfg wd fuel = (tr, Ok res) ->
    sr_history _ _ _ _ _ res = results_of R (events_of tr)
    /\ exists i r, first_min R best_value (sr_history _ _ _ _ _ res) i r
                   /\ sr_eigenvalue _ _ _ _ _ res = best_value r
                   /\ sr_best_individual _ _ _ _ _ res = best_ind r.
  Proof. exact (eigenvalue_is_min Ind R Pop Op W Init Dist AuxEv AV best_value best_ind). Qed.

  (* generations = number of recorded evaluations = number of Result events *)
  Theorem C05_generations : forall (cfg : config) (wd : world) fuel tr res,
    solve cfg wd fuel = (tr, Ok res) ->
    sr_generations _ _ _ _ _ res = length (sr_history _ _ _ _ _ res)
    /\ sr_generations _ _ _ _ _ res = n_results Ind R Pop Op tr.
  Proof. exact (generations_count Ind R Pop Op W Init Dist AuxEv AV best_value best_ind). Qed.

  (* the ledger sums to everything the operators reported *)
  Theorem C05_ledger_sum : forall (cfg : config) (wd : world) fuel tr res,
    solve cfg wd fuel = (tr, Ok res) ->
    sumZ (sr_circuit_evaluations _ _ _ _ _ res) = sumZ (counts_of R (events_of tr)).
  Proof. exact (ledger_sum Ind R Pop Op W Init Dist AuxEv AV best_value best_ind). Qed.

  (* shape: never more than generations + 1 entries; if every result was preceded (since the previous result) by a
     count report, the ledger IS the specification (entry g = sum of the counts reported between results g-1 and g,
     plus one trailing entry iff something was reported after the last result), hence generations <= length *)
  Theorem C05_ledger_shape : forall (cfg : config) (wd : world) fuel tr res,
    solve cfg wd fuel = (tr, Ok res) ->
    (length (sr_circuit_evaluations _ _ _ _ _ res) <= sr_generations _ _ _ _ _ res + 1)%nat
    /\ (counted R (events_of tr) ->
        sr_circuit_evaluations _ _ _ _ _ res = ledger_spec R (events_of tr)
        /\ (sr_generations _ _ _ _ _ res <= length (sr_circuit_evaluations _ _ _ _ _ res))%nat).
  Proof. exact (ledger_shape Ind R Pop Op W Init Dist AuxEv AV best_value best_ind). Qed.

  (* the same without the hypothesis, for every world whose operator applications report what the EVQE operators
     report (nothing / one count / one count then one result: Ledger.evqe_shape): one entry per evaluated generation
     plus at most one trailing entry, each entry the sum of what was reported in its generation *)
  Theorem C05_ledger_shape_evqe : forall (cfg : config) (wd : world) fuel tr res,
    (forall op w pop, evqe_shape R (fst (fst (w_apply _ _ _ _ _ _ _ _ _ wd op w pop)))) ->
    solve cfg wd fuel = (tr, Ok res) ->
    sr_circuit_evaluations _ _ _ _ _ res = ledger_spec R (events_of tr)
    /\ (sr_generations _ _ _ _ _ res <= length (sr_circuit_evaluations _ _ _ _ _ res) <= sr_generations _ _ _ _ _ res + 1)%nat.
  Proof. exact (ledger_shape_evqe Ind R Pop Op W Init Dist AuxEv AV best_value best_ind). Qed.

  (* eigenstate and aux values are computed from the returned best individual (behind the initial state) *)
  Theorem C05_result_assembly : forall (cfg : config) (wd : world) fuel tr res,
    solve cfg wd fuel = (tr, Ok res) ->
    sr_eigenstate _ _ _ _ _ res
      = w_measure _ _ _ _ _ _ _ _ _ wd (cfg_init _ _ _ _ _ cfg) (sr_best_individual _ _ _ _ _ res)
    /\ sr_aux _ _ _ _ _ res
      = aux_map (fun a => w_aux_eval _ _ _ _ _ _ _ _ _ wd a (sr_best_individual _ _ _ _ _ res)) (cfg_aux _ _ _ _ _ cfg)
    /\ sr_initial_state _ _ _ _ _ res = cfg_init _ _ _ _ _ cfg.
  Proof. exact (result_assembly Ind R Pop Op W Init Dist AuxEv AV best_value best_ind). Qed.
End C05.

Print Assumptions C05_eigenvalue_is_min.
Print Assumptions C05_generations.
Print Assumptions C05_ledger_sum.
Print Assumptions C05_ledger_shape.
Print Assumptions C05_ledger_shape_evqe.
Print Assumptions C05_result_assembly.

(* Without `counted` the shape fails: an application that reports two results and only then a count leaves a ledger
   with ONE entry for TWO generations.  (Not reachable from EVQEMinimumEigensolverConfiguration: EVQESelection
   reports its count before its result.) *)
Theorem C05_ledger_shape_needs_counted :
  exists tr res, s_solve ex_uncounted = (tr, Ok res)
    /\ ~ counted cR (events_of Z cR Z nat tr)
    /\ (length (sr_circuit_evaluations _ _ _ _ _ res) < sr_generations _ _ _ _ _ res)%nat.
Proof.
  do 2 eexists. split; [vm_compute; reflexivity|]. split.
  - vm_compute. intros H. inversion H as [|x l Hx _]. apply Hx. reflexivity.
  - vm_compute. lia.
Qed.
Print Assumptions C05_ledger_shape_needs_counted.

(* Non-vacuity: a concrete EVQE-shaped run returns, satisfies `counted`, and its result is what the theorems say
   (two generations, the LATER one better: eigenvalue 1/2 of generation 1, individual 3, eigenstate 3 xor 5 = 6,
   ledger [6; 6], aux 1000 + 6). *)
Example C05_example_run :
  exists tr res, s_solve ex_run = (tr, Ok res)
    /\ counted cR (events_of Z cR Z nat tr)
    /\ sr_eigenvalue _ _ _ _ _ res = Qmake 1 2 /\ sr_best_individual _ _ _ _ _ res = 3%Z
    /\ sr_circuit_evaluations _ _ _ _ _ res = [6%Z; 6%Z] /\ sr_generations _ _ _ _ _ res = 2%nat
    /\ sr_eigenstate _ _ _ _ _ res = 6%Z /\ sr_aux _ _ _ _ _ res = AList [1006%Z].
Proof.
  do 2 eexists. split; [vm_compute; reflexivity|]. split.
  - vm_compute. repeat constructor; discriminate.
  - vm_compute. repeat split; reflexivity.
Qed.
Print Assumptions C05_example_run.

(* Non-vacuity of "first": with a tie the earlier generation's individual is returned *)
Example C05_example_tie :
  exists tr res, s_solve ex_uncounted = (tr, Ok res)
    /\ map c_best_value (sr_history _ _ _ _ _ res) = [Qmake 1 2; Qmake 1 2]
    /\ map c_best_ind (sr_history _ _ _ _ _ res) = [3%Z; 5%Z]
    /\ sr_best_individual _ _ _ _ _ res = 3%Z.
Proof. do 2 eexists. split; [vm_compute; reflexivity|]. vm_compute. repeat split; reflexivity. Qed.
Print Assumptions C05_example_tie.
