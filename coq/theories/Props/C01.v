(* C01 -- feasible schedules lie strictly below every infeasible state.
   Property theorems only: each closed by `exact <lemma>` and followed by Print Assumptions.
   energy H bits = eval H (state_of (rev bits)): the eigenvalue of the diagonal operator H on the basis state named by
   the bitstring (Qiskit order: character k of the string is qubit n-1-k). *)
From QV Require Import Jssp.Statements Jssp.Zpoly_proofs Jssp.DomainWall_proofs Jssp.Encoder_proofs Jssp.Assembly_proofs.
Open Scope Z_scope.

(* ------------------------------------------------------------------ one domain-wall variable *)
(* the value term of the i-th value reads [wall at i] - [anti-wall at i] *)
Theorem C01_value_term_eigen : forall v nq t i b, (1 <= nq)%nat -> var_wf v nq ->
  index_of t (v_values v) = Some i ->
  exists e, value_term v t nq = Ok e /\ (eval e b == vt_val v b i)%Q /\ qubits_below nq e = true.
Proof. exact DomainWall_proofs.C01_value_term_eigen_l. Qed.
Print Assumptions C01_value_term_eigen.

(* the viability term reads 2 (walls - 1); walls = anti-walls + 1 *)
Theorem C01_viability_eigen : forall v nq b, (1 <= nq)%nat -> var_wf v nq ->
  exists e, viability_term v nq = Ok e
    /\ (eval e b == inject_Z (2 * (Z.of_nat (n_walls v b) - 1)))%Q
    /\ qubits_below nq e = true
    /\ n_walls v b = S (n_antiwalls v b).
Proof. exact DomainWall_proofs.C01_viability_eigen_l. Qed.
Print Assumptions C01_viability_eigen.

(* ... which is zero exactly when the variable decodes to a value *)
Theorem C01_viability_zero_iff : forall v nq bl, (1 <= nq)%nat -> var_wf v nq ->
  (v_start v + var_nq v <= length bl)%nat ->
  (n_walls v (state_of bl) = 1%nat <-> exists t, value_from_bits v bl = Ok (Some t)).
Proof. exact DomainWall_proofs.C01_viability_zero_iff_l. Qed.
Print Assumptions C01_viability_zero_iff.

(* the executable normal form used for the term-by-term comparison with Qiskit's simplify() has the same value *)
Theorem C01_normal_form_sound : forall e b, (eval_nf (normalize e) b == eval e b)%Q.
Proof. exact normalize_sound. Qed.
Print Assumptions C01_normal_form_sound.

(* ------------------------------------------------------------------ the energy of a basis state *)
(* every variable decodes: the energy is the weighted number of violated precedence / overlap pairs plus the
   optimisation part, which lies in [0, W] (and is positive unless the whole weight is on the early-start term) *)
Theorem C01_energy_decoded : forall I L P bits s H n, wf_instance I = true -> hamiltonian false P I L = Ok H ->
  n_qubits I L = Ok n -> translate I L bits = Ok s -> all_scheduled s = true ->
  (energy H bits == p_prec P * inject_Z (Z.of_nat (n_prec s)) + p_overlap P * inject_Z (Z.of_nat (n_ov s)) + opt_part P L n s)%Q
  /\ (regime P -> 0 <= opt_part P L n s /\ opt_part P L n s <= p_opt P /\ (p_share P < 1 -> 0 < opt_part P L n s))%Q.
Proof. exact asm_C01_energy_decoded. Qed.
Print Assumptions C01_energy_decoded.

Theorem C01_feasible_range : forall I L P bits s H, wf_instance I = true -> regime P ->
  hamiltonian false P I L = Ok H -> translate I L bits = Ok s -> valid_spec I s ->
  (0 <= energy H bits /\ energy H bits <= p_opt P)%Q.
Proof. exact asm_C01_feasible_range. Qed.
Print Assumptions C01_feasible_range.

(* some operation is left unscheduled by the decoding (its variable holds no valid domain wall) *)
Theorem C01_undecodable : forall I L P bits s H, wf_instance I = true -> regime P ->
  hamiltonian false P I L = Ok H -> translate I L bits = Ok s -> all_scheduled s = false ->
  (2 * p_enc P <= energy H bits /\ p_enc P <= energy H bits)%Q.
Proof. exact asm_C01_undecodable. Qed.
Print Assumptions C01_undecodable.

(* feasible below infeasible-or-undecodable, strictly, if the constraint penalties strictly exceed the optimisation
   weight or the makespan term takes part in the optimisation part *)
Theorem C01_separation : forall I L P b1 b2 s1 s2 H, wf_instance I = true -> regime P ->
  hamiltonian false P I L = Ok H -> translate I L b1 = Ok s1 -> valid_spec I s1 ->
  translate I L b2 = Ok s2 -> ~ valid_spec I s2 ->
  ((p_opt P < p_prec P /\ p_opt P < p_overlap P) \/ p_share P < 1)%Q -> (energy H b1 < energy H b2)%Q.
Proof. exact asm_C01_separation. Qed.
Print Assumptions C01_separation.

(* The suite's 2x2 instance (j0 = a@m0, b@m1; j1 = a@m1, b@m0; unit durations) at limit 4 with the default penalties
   (300, 100, 100, 100, share 0) is inside the regime, has a Hamiltonian on 8 qubits, a feasible state, a fully decoded
   infeasible state (j0's second operation starts together with its first) and an undecodable state. *)
Example C01_nonvacuous :
  wf_instance ex22 = true /\ regime default_pen /\ (p_share default_pen < 1)%Q
  /\ is_ok (hamiltonian false default_pen ex22 4) = true /\ n_qubits ex22 4 = Ok 8%nat
  /\ (exists s, translate ex22 4 [false; false; false; false; false; false; false; false] = Ok s /\ valid_spec ex22 s)
  /\ (exists s, translate ex22 4 [false; false; false; false; false; false; false; true] = Ok s
                /\ all_scheduled s = true /\ ~ valid_spec ex22 s)
  /\ (exists s, translate ex22 4 [true; false; false; false; false; false; false; false] = Ok s
                /\ all_scheduled s = false /\ ~ valid_spec ex22 s).
Proof. exact asm_C01_nonvacuous. Qed.
Print Assumptions C01_nonvacuous.
