(* C19 — schedule verdicts match the JSSP definition; only well-formed data accepted.
   Property theorems only: each closed by `exact <lemma>` and followed by Print Assumptions. *)
From QV Require Import Jssp.Valid Jssp.Valid_proofs.

Theorem C19_placeholder : forall l, neighbours_ok l = true -> neighbours_ok (tl l) = true.
Proof. exact neighbours_ok_tl. Qed.
Print Assumptions C19_placeholder.
