(* C19 — schedule verdicts match the JSSP definition; only well-formed data accepted.
   Property theorems only: each closed by `exact <lemma>` and followed by Print Assumptions.
   Model: Jssp/Instance.v (constructors), Jssp/Valid.v (is_valid / makespan / valid_schedule + the spec).
   Hypotheses: wf_instance (the object passed every constructor), result_ok (the result constructor accepted the
   schedule), keys_nodup (the schedule is a dict), at least one job (otherwise no latest end time exists). *)
From QV Require Import Jssp.Valid Jssp.Valid_proofs Jssp.ResultObj Jssp.ResultObj_proofs.
Open Scope string_scope.

(* The verdict computed neighbour-wise over start-time-sorted machine lists is the pairwise JSSP definition:
   all scheduled /\ each operation starts no earlier than its predecessor's end /\ no two operations on one machine
   overlap (valid_spec: over every ordered pair of the flattened schedule, not only sorted neighbours). *)
Theorem C19_verdict : forall i s,
  wf_instance i = true -> result_ok i s = true ->
  exists b, is_valid_impl i s = Ok b /\ (b = true <-> valid_spec i s).
Proof. exact is_valid_impl_verdict. Qed.
Print Assumptions C19_verdict.

(* The pairwise verdict does not depend on how ties are ordered: for ANY permutation sorted by start time the
   neighbour check is the pairwise check (durations > 0). *)
Theorem C19_sorted_neighbours_pairwise : forall l,
  Forall pos_dur l -> Sorted.StronglySorted le_start l ->
  (neighbours_ok l = true <-> ForallOrdPairs no_overlap l).
Proof. exact sorted_neighbours_pairwise. Qed.
Print Assumptions C19_sorted_neighbours_pairwise.

(* what the pairwise clause of valid_spec means, by positions: any two distinct occurrences *)
Theorem C19_pairwise_meaning : forall (R : sop -> sop -> Prop) l,
  ForallOrdPairs R l <->
  (forall x y a b, (x < y)%nat -> nth_error l x = Some a -> nth_error l y = Some b -> R a b).
Proof. exact (@FOP_nth sop). Qed.
Print Assumptions C19_pairwise_meaning.

(* makespan = latest end time over all operations when valid, absent otherwise *)
Theorem C19_makespan : forall i s,
  wf_instance i = true -> result_ok i s = true -> keys_nodup s -> inst_jobs i <> [] ->
  (valid_spec i s ->
     exists m, makespan_impl i s = Ok (Some m) /\
               latest_end (map (fun kv => strip (snd kv)) s) = Some m) /\
  (~ valid_spec i s -> makespan_impl i s = Ok None).
Proof. exact makespan_impl_spec. Qed.
Print Assumptions C19_makespan.

(* the valid-schedule accessor raises exactly when invalid *)
Theorem C19_accessor : forall i s,
  wf_instance i = true -> result_ok i s = true ->
  (valid_spec i s -> valid_schedule_impl i s = Ok s) /\
  (~ valid_spec i s -> valid_schedule_impl i s = Err JSSPException).
Proof. exact valid_schedule_impl_spec. Qed.
Print Assumptions C19_accessor.

(* The result object caches its verdict and makespan. Reading is_valid / makespan / valid_schedule in ANY order and
   any number of times on one object gives what the cache-free functions above give. *)
Theorem C19_query_sequences : forall i s qs,
  wf_instance i = true -> result_ok i s = true -> keys_nodup s -> inst_jobs i <> [] ->
  run_queries i s cache0 qs = mapM (pure_answer i s) qs.
Proof. exact result_object_sequences. Qed.
Print Assumptions C19_query_sequences.

(* constructors accept exactly the documented well-formedness rules *)
Theorem C19_wellformed_machine : forall n, machine_ok n = true <-> n <> "".
Proof. exact machine_ok_spec. Qed.
Print Assumptions C19_wellformed_machine.

Theorem C19_wellformed_operation : forall o,
  operation_ok o = true <-> op_name o <> "" /\ op_job o <> "" /\ (1 <= op_dur o)%Z.
Proof. exact operation_ok_spec. Qed.
Print Assumptions C19_wellformed_operation.

Theorem C19_wellformed_job : forall j,
  job_ok j = true <->
  job_name j <> "" /\ job_ops j <> [] /\ NoDup (map op_name (job_ops j)) /\
  (forall o, In o (job_ops j) -> op_job o = job_name j) /\ NoDup (map op_machine (job_ops j)).
Proof. exact job_ok_spec. Qed.
Print Assumptions C19_wellformed_job.

Theorem C19_wellformed_instance : forall i,
  instance_ok i = true <->
  inst_name i <> "" /\ NoDup (inst_machines i) /\ NoDup (map job_name (inst_jobs i)) /\
  (forall j o, In j (inst_jobs i) -> In o (job_ops j) -> In (op_machine o) (inst_machines i)).
Proof. exact instance_ok_spec. Qed.
Print Assumptions C19_wellformed_instance.

Theorem C19_wellformed_result : forall i s,
  result_ok i s = true <->
  (forall j, In j (inst_jobs i) -> In j (map fst s)) /\
  (forall kv, In kv s -> In (fst kv) (inst_jobs i)) /\
  (forall j, In j (inst_jobs i) -> exists row, sched_lookup s j = Some row /\ map fst row = job_ops j).
Proof. exact result_ok_spec. Qed.
Print Assumptions C19_wellformed_result.

(* "schedule matching the instance" for the object the constructor returns: for every job of the instance,
   result.schedule[job] is the row the caller passed under that job and wraps exactly that job's operations in order;
   every key of the caller's mapping reads back its own row and is a job of the instance; the valid-schedule accessor
   returns that same mapping. *)
Theorem C19_stored_schedule_matches_instance : forall i s,
  result_ok i s = true -> keys_nodup s ->
  (forall j, In j (inst_jobs i) ->
     exists row, schedule_of_job i s j = Some row /\ map fst row = job_ops j /\ In (j, row) s) /\
  (forall kv, In kv s -> schedule_of_job i s (fst kv) = Some (snd kv) /\ In (fst kv) (inst_jobs i)) /\
  (forall s', valid_schedule_impl i s = Ok s' -> s' = s).
Proof. exact stored_schedule_matches. Qed.
Print Assumptions C19_stored_schedule_matches_instance.

(* non-vacuity: the 2x2 instance of the test-suite meets every hypothesis, with a valid schedule of makespan 3,
   an invalid one (machine overlap) and one with an unscheduled operation *)
Example C19_nonvacuous :
  wf_instance ex_inst = true /\ inst_jobs ex_inst <> [] /\
  result_ok ex_inst (ex_sched (Some 0) (Some 1) (Some 0) (Some 1))%Z = true /\
  keys_nodup (ex_sched (Some 0) (Some 1) (Some 0) (Some 1))%Z /\
  is_valid_impl ex_inst (ex_sched (Some 0) (Some 1) (Some 0) (Some 1))%Z = Ok true /\
  makespan_impl ex_inst (ex_sched (Some 0) (Some 1) (Some 0) (Some 1))%Z = Ok (Some 3%Z) /\
  is_valid_impl ex_inst (ex_sched (Some 0) (Some 1) (Some 1) (Some 2))%Z = Ok false /\
  is_valid_impl ex_inst (ex_sched (Some 0) None (Some 0) (Some 1))%Z = Ok false.
Proof. exact ex_hypotheses. Qed.
Print Assumptions C19_nonvacuous.
