(* C18 — JSON round-trips preserve every serialisable object.
   Property theorems only: each closed by `exact <lemma>` and followed by Print Assumptions. *)
From QV Require Import Json.JsonCheck Json.Codec_proofs.

(* legacy (pre-fix) variants are refuted by concrete witnesses *)
Theorem C18_generations_refuted :
  exists r y, result_roundtrip (mkFlags true false) (of_solver_result r) = Ok y /\ y <> of_solver_result r.
Proof. exact generations_refuted. Qed.
Print Assumptions C18_generations_refuted.

Theorem C18_aux_refuted :
  (exists r y, result_roundtrip (mkFlags false true) (of_solver_result r) = Ok y /\ y <> of_solver_result r
               /\ exists l, r_aux r = AuxList l)
  /\ (exists r y, result_roundtrip (mkFlags false true) (of_solver_result r) = Ok y /\ y <> of_solver_result r
               /\ exists l, r_aux r = AuxDict l).
Proof. exact aux_refuted. Qed.
Print Assumptions C18_aux_refuted.

Example C18_head_witnesses_roundtrip :
  forallb (fun r => result_eqb pyval_eqb (result_roundtrip head_flags (of_solver_result r)) (Ok (of_solver_result r)))
          [wR_min; wR_aux; wR_auxd; wR_full] = true.
Proof. exact head_witnesses_roundtrip. Qed.
Print Assumptions C18_head_witnesses_roundtrip.
