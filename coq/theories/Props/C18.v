(* C18 — JSON round-trips preserve every serialisable object.
   Property theorems only: each closed by `exact <lemma>` and followed by Print Assumptions.

   Reading guide.  `of_*` embed the typed data (Jssp/Instance.v, Evqe/Genome.v, Json/ResultCodec.v) as the Python
   objects the codecs handle (Json/PyVal.v); `*_roundtrip v` is `json.loads(json.dumps(v, cls=Enc), cls=Dec)` in the
   model of json's tree protocol with the encoder's default() and the decoder's object_hook transcribed from /repo.
   The hypotheses are the constructors' checks as boolean predicates (objects exist only if their constructor
   accepted them) plus "dict keys are pairwise different" (keys_distinct: it is a dict).

   Statelessness.  In the model `encode` and `decode` are functions of the *value*: the theorems say nothing about an
   implementation that remembers anything between calls (by object identity, per encoder instance, per class or per
   module).  That /repo's encoders keep no such state is NOT proved; it is tested on every run by the harness's
   operation sequences in one process (encode, change a mutable component in place, encode again; series of
   short-lived objects with garbage collection in between; two encoder instances and json.dumps(cls=...); codecs
   interleaved), each step judged by the same oracle: decode(encode(x)) equals x as it is now. *)
From QV Require Import Json.JsonCheck Json.Protocol_proofs Json.Codec_proofs Json.Jssp_proofs Json.Evqe_proofs Json.Result_proofs.

(* ---------------------------------------------------------------- job-shop codec *)
Theorem C18_jssp_roundtrip :
  (forall m, machine_ok m = true -> jssp_roundtrip (of_machine m) = Ok (of_machine m))
  /\ (forall o, op_wf o = true -> jssp_roundtrip (of_op o) = Ok (of_op o))
  /\ (forall j, job_wf j = true -> jssp_roundtrip (of_job j) = Ok (of_job j))
  /\ (forall i, wf_instance i = true -> jssp_roundtrip (of_instance i) = Ok (of_instance i))
  /\ (forall i s, wf_instance i = true -> schedule_wf s = true -> result_ok i s = true ->
        jssp_roundtrip (of_result i s) = Ok (of_result i s)).
Proof. exact jssp_roundtrip_all. Qed.
Print Assumptions C18_jssp_roundtrip.

(* a well-formed instance with names equal to marker keys, and a result that is invalid, has start time 0 twice,
   an unscheduled operation and a schedule dict in reverse job order, satisfies the hypotheses *)
Example C18_jssp_hypotheses_satisfiable :
  wf_instance ex_inst = true /\ schedule_wf ex_sched = true /\ result_ok ex_inst ex_sched = true.
Proof. exact jssp_example. Qed.
Print Assumptions C18_jssp_hypotheses_satisfiable.

(* ---------------------------------------------------------------- circuit-layer codec and population codec *)
Theorem C18_evqe_roundtrip :
  (forall g, layer_roundtrip (of_gate g) = Ok (of_gate g))
  /\ (forall l, layer_wf l = true -> layer_roundtrip (of_layer l) = Ok (of_layer l))
  /\ (forall g, evqe_roundtrip (of_gate g) = Ok (of_gate g))
  /\ (forall l, layer_wf l = true -> evqe_roundtrip (of_layer l) = Ok (of_layer l))
  /\ (forall i, ind_wf i = true -> evqe_roundtrip (of_ind i) = Ok (of_ind i))
  /\ (forall p, pop_wf p = true -> evqe_roundtrip (of_population p) = Ok (of_population p)).
Proof. exact evqe_roundtrip_all. Qed.
Print Assumptions C18_evqe_roundtrip.

Example C18_evqe_hypotheses_satisfiable : layer_wf ex_L = true /\ ind_wf ex_I = true /\ pop_wf ex_P = true.
Proof. exact evqe_example. Qed.
Print Assumptions C18_evqe_hypotheses_satisfiable.

(* ---------------------------------------------------------------- solver-result codec (HEAD: head_flags) *)
(* individuals and populations through the result codec (it delegates), population evaluation results, and complete
   solver results: eigenvalue None / real / complex, auxiliary values absent / list / dict (values None, real, complex;
   keys str or int), eigenstate absent or a QuasiDistribution with shots and bound each None or a number and with its bit
   width (the length of the keys of binary_probabilities(); quasi_wf: outcomes >= 0 that fit into the width, width 0
   exactly for the empty distribution - what qiskit's constructor establishes), best
   individual, circuit_evaluations, generations, history (None, empty or any list), initial-state circuit token.
   result_wf: complex parts are floats (they are, in Python), dict keys pairwise different, individuals valid. *)
Theorem C18_result_roundtrip :
  (forall i, ind_wf i = true -> result_roundtrip head_flags (of_ind i) = Ok (of_ind i))
  /\ (forall p, pop_wf p = true -> result_roundtrip head_flags (of_population p) = Ok (of_population p))
  /\ (forall e, popeval_wf e = true -> result_roundtrip head_flags (of_popeval e) = Ok (of_popeval e))
  /\ (forall r, result_wf r = true -> result_roundtrip head_flags (of_solver_result r) = Ok (of_solver_result r)).
Proof. exact result_roundtrip_all. Qed.
Print Assumptions C18_result_roundtrip.

Example C18_result_hypotheses_satisfiable :
  result_wf wR_full = true
  /\ popeval_wf (mkPopEval ex_P [Some (NFloat 1 (-1)); None; Some (NInt 2)] ex_I (NFloat 1 1)) = true.
Proof. exact result_example. Qed.
Print Assumptions C18_result_hypotheses_satisfiable.

(* ---------------------------------------------------------------- solver-result codec: legacy variants refuted *)
Theorem C18_generations_refuted :
  exists r y, result_roundtrip (mkFlags true false false) (of_solver_result r) = Ok y /\ y <> of_solver_result r.
Proof. exact generations_refuted. Qed.
Print Assumptions C18_generations_refuted.

Theorem C18_aux_refuted :
  (exists r y, result_roundtrip (mkFlags false true false) (of_solver_result r) = Ok y /\ y <> of_solver_result r
               /\ exists l, r_aux r = AuxList l)
  /\ (exists r y, result_roundtrip (mkFlags false true false) (of_solver_result r) = Ok y /\ y <> of_solver_result r
               /\ exists l, r_aux r = AuxDict l).
Proof. exact aux_refuted. Qed.
Print Assumptions C18_aux_refuted.

(* F-C18d (fix 110f6bc): without "quasidistribution_num_bits" the eigenstate {'010': 1.0} (outcome 2, width 3) comes back
   with width 2: binary_probabilities() gives '10' *)
Theorem C18_eigenstate_width_refuted :
  quasi_binary_keys [(PInt 2, PNum (NFloat 1 0))] 3 = Ok ["010"%string]
  /\ result_roundtrip (mkFlags false false true) (of_solver_result wR_width)
     = Ok (of_solver_result (mkResult (SNum (NFloat (-1) (-1))) AuxNone
                               (Some (mkQuasi [(2, NFloat 1 0)] (Some (NInt 1000)) None 2)) None None None None None))
  /\ quasi_binary_keys [(PInt 2, PNum (NFloat 1 0))] 2 = Ok ["10"%string].
Proof. exact eigenstate_width_refuted. Qed.
Print Assumptions C18_eigenstate_width_refuted.

Example C18_head_witnesses_roundtrip :
  forallb (fun r => result_eqb pyval_eqb (result_roundtrip head_flags (of_solver_result r)) (Ok (of_solver_result r)))
          [wR_min; wR_aux; wR_auxd; wR_full; wR_width] = true.
Proof. exact head_witnesses_roundtrip. Qed.
Print Assumptions C18_head_witnesses_roundtrip.
