(* C17 — seeded single-worker runs are bitwise reproducible; every random constructor is a function of its
   arguments and seed only.
   Model: Repro/Seeding.v (the seeding discipline of evqe.py / mutation.py / speciation.py / selection.py as traces of
   decisions, random_job_shop_scheduling_instance over a decision stream, a worker pool) on top of Evqe/Stream.v and
   Evqe/RandLayer.v; proofs: Repro/Seeding_proofs.v.  Property theorems only, each closed by `exact <lemma>` and
   followed by Print Assumptions.

   LEVEL: partial.  A Gallina function is deterministic by construction; what these theorems add is (1) which inputs
   the model has - the decision streams - and that the master generator is asked exactly the documented questions in
   the documented order whatever happens during the evolution, (2) that the models of the random constructors read a
   prefix of their stream and nothing else, (3) that collecting pool results by index does not depend on the
   completion order.  That the IMPLEMENTATION has no further, hidden input (hash order, global random state, object
   identity, time) is established by harness/props/c17.py: agreement of fingerprints and complete decision logs
   across repetitions, ambient random states, processes and PYTHONHASHSEED values, and the replay of the logged
   traces through this model - differential testing, not proof.

   WHICH CLAUSE IS DECIDED HOW.  Every theorem of this file is a statement about the MODEL (none carries the suffix
   _partial because each is the full statement about the model it names; none is, by itself, the property's clause
   about the implementation).  The property's clauses "two solves from freshly constructed solvers produce identical
   results, in one process and across hash seeds" and "every random constructor is a function of its arguments and
   seed only" are decided for the IMPLEMENTATION by the differential runs of harness/props/c17.py alone; the theorems
   decide, for the model that the replays tie to the implementation: the seeding order (C17_seed_order and its two variants), that model
   constructors and the composed run read nothing but a prefix of their logs (C17_constructor_functional, C17_constructor_equal_prefix, C17_run_functional),
   independence of completion orders (C17_completion_independent, its operator-level form, C17_run_completion_independent), and consistency / ledger
   shape / generation limit of the composed run (C17_run_consistent, C17_run_ledger_shape, C17_run_max_generations). *)
From QV Require Import Repro.Seeding Repro.Seeding_proofs.
From Coq Require Import Permutation.
Open Scope Z_scope.
Open Scope list_scope.

(* ---------------------------------------------------------------- C17_seed_order *)
(* (a) The master generator's own stream.  One solver object performing n_solves solves asks its master generator:
   its construction with the configured seed, then exactly 6 + n_solves seeds (each randint(0, 2^31-1)), handed out
   in the order last-layer search, speciation, selection, parameter search, topological search, layer removal, then
   one population seed per solve (drawn lazily when the population initializer runs) - and the model accepts nothing
   else (iff). *)
Theorem C17_seed_order : forall seed n_solves s seeds rest,
  master_session seed n_solves s = Ok (seeds, rest) <->
  exists vs, length vs = (6 + n_solves)%nat /\
             s = DSeed seed :: map (DRandint 0 SEED_MAX) vs ++ rest /\
             seeds = combine ([CLastLayer; CSpeciation; CSelection; CParamSearch; CTopological; CLayerRemoval]
                              ++ repeat CPopulation n_solves) vs /\
             Forall (fun v => 0 <= v <= SEED_MAX) vs.
Proof. exact master_session_spec. Qed.
Print Assumptions C17_seed_order.

(* (b) Program order of EVQEMinimumEigensolver.__init__: master constructed (generator 0), then for each operator, in
   the documented order, one seed drawn from the master and at once handed to the operator's own new generator
   (generators 1..6) - exactly this trace and no other. *)
Theorem C17_seed_order_construct : forall seed t sd t',
  evqe_construct seed t = Ok (sd, t') <->
  t = (G_MASTER, DSeed seed)
        :: (G_MASTER, DRandint 0 SEED_MAX (sd_last_layer sd)) :: (G_LAST, DSeed (Some (sd_last_layer sd)))
        :: (G_MASTER, DRandint 0 SEED_MAX (sd_speciation sd)) :: (G_SPEC, DSeed (Some (sd_speciation sd)))
        :: (G_MASTER, DRandint 0 SEED_MAX (sd_selection sd)) :: (G_SEL, DSeed (Some (sd_selection sd)))
        :: (G_MASTER, DRandint 0 SEED_MAX (sd_param_search sd)) :: (G_PARAM, DSeed (Some (sd_param_search sd)))
        :: (G_MASTER, DRandint 0 SEED_MAX (sd_topological sd)) :: (G_TOPO, DSeed (Some (sd_topological sd)))
        :: (G_MASTER, DRandint 0 SEED_MAX (sd_layer_removal sd)) :: (G_REMOVE, DSeed (Some (sd_layer_removal sd)))
        :: t'
  /\ Forall (fun v => 0 <= v <= SEED_MAX)
       [sd_last_layer sd; sd_speciation sd; sd_selection sd; sd_param_search sd; sd_topological sd; sd_layer_removal sd].
Proof. exact evqe_construct_spec. Qed.
Print Assumptions C17_seed_order_construct.

(* (c) The number of master draws is independent of the evolution.  For EVERY configuration, number of generations and
   main-thread trace the model accepts as construction + one solve - whatever the operators drew from their own
   generators, whatever the evaluator and optimiser answered (these decide how the rest of the trace looks) - the
   events of the master generator in that trace are exactly: construction, the six operator seeds, one population
   seed, in this order; i.e. the master's own stream is a master_session with one solve, completely consumed. *)
Theorem C17_seed_order_independent_of_evolution : forall cfg seed t mp rest,
  main_run cfg seed t = Ok (mp, rest) ->
  exists used, t = used ++ rest /\
    master_events used =
      DSeed seed :: map (DRandint 0 SEED_MAX)
        [sd_last_layer (mp_seeds mp); sd_speciation (mp_seeds mp); sd_selection (mp_seeds mp);
         sd_param_search (mp_seeds mp); sd_topological (mp_seeds mp); sd_layer_removal (mp_seeds mp); mp_pop_seed mp]
    /\ master_session seed 1 (master_events used) =
       Ok ([(CLastLayer, sd_last_layer (mp_seeds mp)); (CSpeciation, sd_speciation (mp_seeds mp));
            (CSelection, sd_selection (mp_seeds mp)); (CParamSearch, sd_param_search (mp_seeds mp));
            (CTopological, sd_topological (mp_seeds mp)); (CLayerRemoval, sd_layer_removal (mp_seeds mp));
            (CPopulation, mp_pop_seed mp)], []).
Proof. exact main_run_master. Qed.
Print Assumptions C17_seed_order_independent_of_evolution.

(* the hypothesis of (c) is satisfiable: a complete main-thread trace of a 1-qubit, 2-individual, 1-generation run *)
Definition ev (g : nat) (d : decision) : tev := (g, d).
Definition example_trace : trace :=
  [ev 0 (DSeed (Some 5)); ev 0 (DRandint 0 SEED_MAX 11); ev 1 (DSeed (Some 11)); ev 0 (DRandint 0 SEED_MAX 12); ev 2 (DSeed (Some 12));
   ev 0 (DRandint 0 SEED_MAX 13); ev 3 (DSeed (Some 13)); ev 0 (DRandint 0 SEED_MAX 14); ev 4 (DSeed (Some 14));
   ev 0 (DRandint 0 SEED_MAX 15); ev 5 (DSeed (Some 15)); ev 0 (DRandint 0 SEED_MAX 16); ev 6 (DSeed (Some 16));
   ev 0 (DRandint 0 SEED_MAX 17); ev 7 (DSeed (Some 17));
   ev 7 (DRandint 0 SEED_MAX 21); ev 8 (DSeed (Some 21)); ev 8 (DRandint 0 SEED_MAX 31); ev 9 (DSeed (Some 31)); ev 9 (DChoice 2 0);
   ev 7 (DRandint 0 SEED_MAX 22); ev 10 (DSeed (Some 22)); ev 10 (DRandint 0 SEED_MAX 32); ev 11 (DSeed (Some 32)); ev 11 (DChoice 2 1);
   ev 1 (DRandom 100); ev 1 (DRandint 0 SEED_MAX 41); ev 1 (DRandom 200); ev 1 (DRandint 0 SEED_MAX 42);
   ev 2 (DChoice 2 1); ev 3 (DChoices 2 2 [1%nat; 1%nat])].
Example C17_seed_order_example :
  exists mp, main_run (mkCfg 1 1 2 false (1 # 2) (1 # 2) 0 None 1) (Some 5) example_trace = Ok (mp, [])
             /\ mp_pop_seed mp = 17 /\ map pl_last (mp_generations mp) = [[(0%nat, 41); (1%nat, 42)]].
Proof. eexists. vm_compute. repeat split. Qed.
Print Assumptions C17_seed_order_example.

(* ---------------------------------------------------------------- C17_constructor_functional *)
(* What is proved: every model of a random constructor is PREFIX-DETERMINED - a successful call reads a prefix `used`
   of the decision stream, hands the rest back untouched, and on any other stream starting with `used` returns the
   same value and exactly what follows `used`.  So the value is a function of (arguments, consumed decisions) only.
   (That the functions are functions of their arguments is true of every Gallina term; the content is: no
   read-ahead, no dependence on what follows, nothing else consumed.)  Nothing is claimed for failing calls. *)
Theorem C17_constructor_functional :
  (forall n prev seed fuel, prefix_determined (fun s => random_layer n prev seed s fuel)) /\
  (forall n n_layers randomize seed fuel, prefix_determined (fun s => random_individual n n_layers randomize seed s fuel)) /\
  (forall n n_layers n_individuals randomize seed fuel,
      prefix_determined (fun s => random_population n n_layers n_individuals randomize seed s fuel)) /\
  (forall legacy i n_layers randomize seed fuel,
      prefix_determined (fun s => add_random_layers legacy i n_layers randomize seed s fuel)) /\
  (forall name n_jobs n_machines rel dur seed, prefix_determined (random_jssp_instance name n_jobs n_machines rel dur seed)).
Proof.
  exact (conj pd_random_layer (conj pd_random_individual (conj pd_random_population (conj pd_add_random_layers pd_random_jssp_instance)))).
Qed.
Print Assumptions C17_constructor_functional.

(* spelled out: equal consumed prefixes give equal results and equal remainders *)
Theorem C17_constructor_equal_prefix : forall A (f : stream -> result (A * stream)),
  prefix_determined f ->
  (forall used rest1 rest2 x, f (used ++ rest1) = Ok (x, rest1) -> f (used ++ rest2) = Ok (x, rest2)) /\
  (forall s1 s2 x1 x2 r1 r2 used, f s1 = Ok (x1, r1) -> f s2 = Ok (x2, r2) -> s1 = used ++ r1 ->
     (exists t, s2 = used ++ t) -> x1 = x2 /\ s2 = used ++ r2).
Proof. intros A f H. exact (conj (pd_equal_prefix f H) (pd_functional f H)). Qed.
Print Assumptions C17_constructor_equal_prefix.

(* ---------------------------------------------------------------- C17_completion_independent *)
(* Tasks are submitted in order, complete in ANY order in which each completes exactly once, and are collected by
   index (futures[i].result(), as selection.py and mutation.py do): the collected results are the results of the
   submitted tasks in submission order - a function of the submitted tasks only.  One worker is the special case
   order = 0, 1, ..., n-1. *)
Theorem C17_completion_independent : forall (T R : Type) (run : T -> R) (submitted : list T),
  (forall order, Permutation order (seq 0 (length submitted)) ->
     pool_results run submitted order = map (fun t => Some (run t)) submitted) /\
  (forall o1 o2, Permutation o1 (seq 0 (length submitted)) -> Permutation o2 (seq 0 (length submitted)) ->
     pool_results run submitted o1 = pool_results run submitted o2) /\
  pool_results run submitted (single_worker_order (length submitted)) = map (fun t => Some (run t)) submitted.
Proof.
  intros T R run submitted.
  exact (conj (pool_order_independent run submitted) (conj (pool_two_orders run submitted) (pool_single_worker run submitted))).
Qed.
Print Assumptions C17_completion_independent.

(* collecting in completion order instead (which the code does not do) would depend on the scheduler *)
Theorem C17_as_completed_refuted :
  exists (submitted : list nat) o1 o2,
    Permutation o1 (seq 0 (length submitted)) /\ Permutation o2 (seq 0 (length submitted)) /\
    pool_results_as_completed (fun x => x) submitted o1 <> pool_results_as_completed (fun x => x) submitted o2.
Proof. exact pool_as_completed_depends_on_order. Qed.
Print Assumptions C17_as_completed_refuted.

(* The same statement for builder-ops' models of the real operators (Evqe/Selection.v, Evqe/Mutation.v; the theorems are
   those of Evqe/Ops_proofs.v, also exported as C10_selection_alignment / C10_mutation_order_independent): for every
   completion order the selection operator uses values[i] = the evaluator's answer for individuals[i], and a mutation
   operator's whole outcome (callbacks and returned population) is the same for any two completion orders. *)
From QV Require Evqe.Ops_proofs.
Theorem C17_completion_independent_operators :
  (forall (V : Type) (ieq : individual V -> individual V -> bool) (ev : individual V -> result Q)
          (cfg : QV.Evqe.Selection.sel_config) (p : QV.Evqe.Population.population V) (pi : list nat)
          (s : QV.Evqe.Population.ostream),
      Permutation pi (seq 0 (length (QV.Evqe.Population.p_inds p))) ->
      QV.Evqe.Selection.selection_op ieq ev cfg p pi s =
      match mapM ev (QV.Evqe.Population.p_inds p) with
      | Err e => ([], Err e)
      | Ok values => QV.Evqe.Selection.select_after_eval ieq cfg p values s
      end) /\
  (forall (V : Type) (veqb : V -> V -> bool) (zero : V) (lg : bool) (k : QV.Evqe.Mutation.mut_kind) (prob : Q)
          (p : QV.Evqe.Population.population V) (pi1 pi2 : list nat) (s : QV.Evqe.Population.ostream)
          (tls : list (QV.Evqe.Mutation.task_log V)) (m : nat),
      Permutation pi1 (seq 0 m) -> Permutation pi2 (seq 0 m) -> length tls = m ->
      QV.Evqe.Mutation.mutation_op veqb zero lg k prob p pi1 s tls =
      QV.Evqe.Mutation.mutation_op veqb zero lg k prob p pi2 s tls).
Proof.
  exact (conj (@QV.Evqe.Ops_proofs.selection_alignment) (@QV.Evqe.Ops_proofs.mutation_order_independent)).
Qed.
Print Assumptions C17_completion_independent_operators.

(* ================================================================ the COMPOSITION: a whole solve *)
(* Repro/Compose.v: evqe_run = Solver/Loop.v (the loop of _solve_by_evolution) instantiated with the EVQE operator list
   in the order evqe.py builds it, each operator being builder-ops' value-level model (Evqe/Heap.v run_op), the initial
   population RandLayer.random_population driven by the population seed the master generator hands out
   (Repro/Seeding.v master_session), randomness as per-generator decision streams (Evqe/Stream.v decisions bridged to
   odecision), optimiser / evaluator / generated layers as oracle logs.  harness/props/c17.py replays whole real
   solves through it (every population, every callback payload, the final result).  Proofs: Repro/Compose_proofs.v. *)
From QV Require Repro.Compose Repro.Compose_proofs Repro.ComposeCheck Repro.ComposeExample.
From QV Require Solver.Ledger.

Section ComposedRun.
  Import QV.Repro.Compose QV.Repro.Compose_proofs.
  Variable ev : zind -> result Q.                           (* the circuit evaluator: any oracle *)
  Variables Init Dist AuxEv AV : Type.
  Variable measure : option Init -> zind -> Dist.
  Variable aux_eval : AuxEv -> zind -> AV.
  Notation evqe_run := (evqe_run ev Init Dist AuxEv AV measure aux_eval).
  Notation l_err := (Loop.l_err zind cres (population Z) op cworld).
  Notation l_w := (Loop.l_w zind cres (population Z) op cworld).
  Notation l_st := (Loop.l_st zind cres (population Z) op cworld).
  Notation l_pop := (Loop.l_pop zind cres (population Z) op cworld).
  Notation l_tr := (Loop.l_tr zind cres (population Z) op cworld).

  (* C17_run_functional.  The composed result is a function of (configuration, seed, master stream, initializer stream,
     application logs [operator draws, task logs, optimiser answers], evaluator oracle) only, and of no more of the
     logs than it consumes: a run whose loop ends without a pending exception consumed prefixes um / ui / ua of the three
     logs, and ANY run on logs that start with these prefixes returns the same seeds, the same initial population, the
     same loop state (trace of every operator application with its argument population and callback payloads, ledger,
     generations, best individual and value, history, last population) and the same result, and hands back exactly
     what follows the prefixes.  Hence two runs whose logs agree on the consumed prefixes return equal results and
     equal remainders. *)
  Theorem C17_run_functional : forall c seed init aux m os i a ifuel fuel out,
    evqe_run c seed init aux (mkLogs m os i a) ifuel fuel = Ok out ->
    l_err (o_ls Init Dist AV out) = None ->
    exists um ui ua,
      m = um ++ o_master_rest Init Dist AV out /\ i = ui ++ o_init_rest Init Dist AV out /\
      a = ua ++ l_w (o_ls Init Dist AV out) /\
      forall tm ti ta,
        evqe_run c seed init aux (mkLogs (um ++ tm) os (ui ++ ti) (ua ++ ta)) ifuel fuel
        = Ok (mkOut Init Dist AV (o_seeds Init Dist AV out) (o_pop0 Init Dist AV out)
                (Loop.with_w zind cres (population Z) op cworld ta (o_ls Init Dist AV out))
                (o_result Init Dist AV out) tm ti).
  Proof. exact (evqe_run_functional ev Init Dist AuxEv AV measure aux_eval). Qed.

  (* C17_run_completion_independent.  For every completion order of every executor batch: two supplies of application
     logs that differ only in the completion orders (each a rearrangement of the other's) give - if the first run ends
     without a pending exception - the same seeds, initial population, trace, callback state, last population and
     result.  (Lifts selection_alignment / mutation_order_independent through the loop.) *)
  Theorem C17_run_completion_independent : forall c seed init aux m os i a a' ifuel fuel out,
    Forall2 app_perm a a' ->
    evqe_run c seed init aux (mkLogs m os i a) ifuel fuel = Ok out ->
    l_err (o_ls Init Dist AV out) = None ->
    exists s', evqe_run c seed init aux (mkLogs m os i a') ifuel fuel
               = Ok (mkOut Init Dist AV (o_seeds Init Dist AV out) (o_pop0 Init Dist AV out) s' (o_result Init Dist AV out)
                       (o_master_rest Init Dist AV out) (o_init_rest Init Dist AV out))
               /\ l_st s' = l_st (o_ls Init Dist AV out) /\ l_pop s' = l_pop (o_ls Init Dist AV out)
               /\ l_tr s' = l_tr (o_ls Init Dist AV out) /\ l_err s' = None
               /\ Forall2 app_perm (l_w (o_ls Init Dist AV out)) (l_w s').
  Proof. exact (evqe_run_completion_independent ev Init Dist AuxEv AV measure aux_eval). Qed.

  (* C17_run_consistent.  The composed run satisfies C05's clauses (builder-solver's theorems of Solver/Loop_proofs.v
     instantiated at the composition): the history is the sequence of reported results, the eigenvalue and the best
     individual are those of the FIRST minimum of the history, generations = length of the history = number of result
     callbacks, the ledger sums to everything the operators reported. *)
  Theorem C17_run_consistent : forall c seed init aux lgs ifuel fuel out res,
    evqe_run c seed init aux lgs ifuel fuel = Ok out -> o_result Init Dist AV out = Ok res ->
    let tr := l_tr (o_ls Init Dist AV out) in
    Loop.sr_history _ _ _ _ _ res = Ledger.results_of cres (Ledger.events_of zind cres (population Z) op tr)
    /\ (exists k r, Ledger.first_min cres r_best_value (Loop.sr_history _ _ _ _ _ res) k r
                    /\ Loop.sr_eigenvalue _ _ _ _ _ res = r_best_value r /\ Loop.sr_best_individual _ _ _ _ _ res = r_best r)
    /\ Loop.sr_generations _ _ _ _ _ res = length (Loop.sr_history _ _ _ _ _ res)
    /\ Loop.sr_generations _ _ _ _ _ res = Ledger.n_results zind cres (population Z) op tr
    /\ sumZ (Loop.sr_circuit_evaluations _ _ _ _ _ res)
       = sumZ (Ledger.counts_of cres (Ledger.events_of zind cres (population Z) op tr)).
  Proof. exact (evqe_run_consistent ev Init Dist AuxEv AV measure aux_eval). Qed.
End ComposedRun.
Print Assumptions C17_run_functional.
Print Assumptions C17_run_completion_independent.
Print Assumptions C17_run_consistent.

(* A complete 2-generation run (recorded from /repo: 1 qubit, 2 individuals, tournament selection, seed 11, two workers
   with forced completion orders), evaluated by vm_compute: the composed model accepts it completely, returns after
   exactly two generations with the ledger [16; 16], no pending exception, every log used up - so the hypotheses of
   the three theorems above are satisfiable by a real run. *)
Example C17_run_example :
  QV.Repro.ComposeCheck.check_case QV.Repro.ComposeExample.example_run = true
  /\ exists out res,
       QV.Repro.ComposeCheck.the_run QV.Repro.ComposeExample.example_run = Ok out
       /\ Loop.l_err _ _ _ _ _ (QV.Repro.Compose.o_ls unit unit unit out) = None
       /\ Loop.l_w _ _ _ _ _ (QV.Repro.Compose.o_ls unit unit unit out) = []
       /\ QV.Repro.Compose.o_result unit unit unit out = Ok res
       /\ Loop.sr_generations _ _ _ _ _ res = 2%nat
       /\ Loop.sr_circuit_evaluations _ _ _ _ _ res = [16; 16]
       /\ length (Loop.sr_history _ _ _ _ _ res) = 2%nat.
Proof. split; [vm_compute; reflexivity|]. do 2 eexists. vm_compute. repeat split. Qed.
Print Assumptions C17_run_example.

(* ================================================================ shape of what the EVQE operators report, discharged *)
(* builder-solver's theorems C05_ledger_shape_evqe / C12_max_generations_evqe / C12_evqe_shape_single_result carry the
   hypothesis that every operator application reports nothing, one count, or one count followed by one result
   (Ledger.evqe_shape).  Repro/Shape_proofs.v PROVES that hypothesis for builder-ops' operator models (run_op_shape) and
   hence for the composed world (c_apply_shape); the theorems below are those `_evqe` theorems instantiated at the
   composition WITHOUT any shape hypothesis.  The composition is configured without a termination criterion
   (cfg_criterion = None), so there is no counterpart of C12_criterion_stops_evqe: no criterion is ever consulted. *)
From QV Require Repro.Shape_proofs.

Section ComposedRunShape.
  Import QV.Repro.Compose.
  Variable ev : zind -> result Q.
  Variables Init Dist AuxEv AV : Type.
  Variable measure : option Init -> zind -> Dist.
  Variable aux_eval : AuxEv -> zind -> AV.
  Notation evqe_run := (evqe_run ev Init Dist AuxEv AV measure aux_eval).
  Notation l_tr := (Loop.l_tr zind cres (population Z) op cworld).

  (* every operator application of the composed world has the EVQE shape - for every operator, log and population *)
  Theorem C17_run_evqe_shape : forall o w pop,
    Ledger.evqe_shape cres (fst (fst (c_apply ev o w pop))).
  Proof. exact (QV.Repro.Shape_proofs.c_apply_shape ev). Qed.

  (* hence: never two results within one application, every result preceded (since the previous one) by a count *)
  Theorem C17_run_single_result_counted : forall c seed init aux lgs ifuel fuel out,
    evqe_run c seed init aux lgs ifuel fuel = Ok out ->
    Ledger.single_result zind cres (population Z) op (l_tr (o_ls Init Dist AV out))
    /\ Ledger.counted cres (Ledger.events_of zind cres (population Z) op (l_tr (o_ls Init Dist AV out))).
  Proof. exact (QV.Repro.Shape_proofs.evqe_run_single_result_counted ev Init Dist AuxEv AV measure aux_eval). Qed.

  (* the ledger IS its specification: entry g = sum of the counts reported between results g-1 and g, plus one trailing
     entry iff something was reported after the last result; generations <= |ledger| <= generations + 1 *)
  Theorem C17_run_ledger_shape : forall c seed init aux lgs ifuel fuel out res,
    evqe_run c seed init aux lgs ifuel fuel = Ok out -> o_result Init Dist AV out = Ok res ->
    Loop.sr_circuit_evaluations _ _ _ _ _ res
      = Ledger.ledger_spec cres (Ledger.events_of zind cres (population Z) op (l_tr (o_ls Init Dist AV out)))
    /\ (Loop.sr_generations _ _ _ _ _ res <= length (Loop.sr_circuit_evaluations _ _ _ _ _ res)
         <= Loop.sr_generations _ _ _ _ _ res + 1)%nat.
  Proof. exact (QV.Repro.Shape_proofs.evqe_run_ledger_shape ev Init Dist AuxEv AV measure aux_eval). Qed.

  (* max_generations = G: the composed run makes at most max(0, G) result callbacks (generations) *)
  Theorem C17_run_max_generations : forall c seed init aux lgs ifuel fuel out G,
    e_max_generations c = Some G ->
    evqe_run c seed init aux lgs ifuel fuel = Ok out ->
    (Z.of_nat (Ledger.n_results zind cres (population Z) op (l_tr (o_ls Init Dist AV out))) <= Z.max 0 G)%Z.
  Proof. exact (QV.Repro.Shape_proofs.evqe_run_max_generations ev Init Dist AuxEv AV measure aux_eval). Qed.
End ComposedRunShape.
Print Assumptions C17_run_evqe_shape.
Print Assumptions C17_run_single_result_counted.
Print Assumptions C17_run_ledger_shape.
Print Assumptions C17_run_max_generations.
