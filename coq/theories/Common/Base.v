(* Common definitions for all models: results with explicit errors, strings from bytes, small list utilities.
   Definitions only plus a few elementary lemmas; no axioms. *)
From Coq Require Export ZArith List Bool Lia String Ascii.
Export ListNotations.
(* String's length/concat shadow the list functions once String is imported: restore the list ones. *)
Notation length := List.length (only parsing).
Notation concat := List.concat (only parsing).

(* The exception class the implementation raises, by name (e.g. "JobShopSchedulingProblemException",
   "IndexError", "ZeroDivisionError"). *)
Inductive result (A : Type) : Type :=
| Ok (a : A)
| Err (e : string).
Arguments Ok {A} a.
Arguments Err {A} e.

Definition bind {A B} (r : result A) (f : A -> result B) : result B :=
  match r with Ok a => f a | Err e => Err e end.
Notation "'do' x <- r ; k" := (bind r (fun x => k)) (at level 200, x name, r at level 100, k at level 200).

Definition is_ok {A} (r : result A) : bool := match r with Ok _ => true | Err _ => false end.

(* strings given as UTF-8 bytes (used by generated case files for non-ASCII names) *)
Definition sbytes (l : list nat) : string :=
  fold_right (fun c s => String (ascii_of_nat c) s) EmptyString l.

Fixpoint mapM {A B} (f : A -> result B) (l : list A) : result (list B) :=
  match l with
  | [] => Ok []
  | x :: xs => do y <- f x; do ys <- mapM f xs; Ok (y :: ys)
  end.

Definition sumZ (l : list Z) : Z := fold_right Z.add 0%Z l.
Definition sumN (l : list nat) : nat := fold_right Nat.add 0 l.

Fixpoint list_eqb {A} (eqb : A -> A -> bool) (l1 l2 : list A) : bool :=
  match l1, l2 with
  | [], [] => true
  | x :: xs, y :: ys => eqb x y && list_eqb eqb xs ys
  | _, _ => false
  end.

Definition option_eqb {A} (eqb : A -> A -> bool) (o1 o2 : option A) : bool :=
  match o1, o2 with
  | None, None => true
  | Some x, Some y => eqb x y
  | _, _ => false
  end.

Definition result_eqb {A} (eqb : A -> A -> bool) (r1 r2 : result A) : bool :=
  match r1, r2 with
  | Ok x, Ok y => eqb x y
  | Err e1, Err e2 => String.eqb e1 e2
  | _, _ => false
  end.

Lemma list_eqb_eq {A} (eqb : A -> A -> bool) :
  (forall x y, eqb x y = true <-> x = y) -> forall l1 l2, list_eqb eqb l1 l2 = true <-> l1 = l2.
Proof.
  intros H l1; induction l1 as [|x xs IH]; intros [|y ys]; simpl; split; intros E; try congruence; try discriminate.
  - apply andb_true_iff in E as [E1 E2]. apply H in E1. apply IH in E2. congruence.
  - inversion E; subst. apply andb_true_iff; split; [apply H | apply IH]; reflexivity.
Qed.

(* membership / duplicates on strings, as booleans *)
Definition mem_str (s : string) (l : list string) : bool := existsb (String.eqb s) l.

Fixpoint nodup_str (l : list string) : bool :=
  match l with
  | [] => true
  | x :: xs => negb (mem_str x xs) && nodup_str xs
  end.

Lemma mem_str_In s l : mem_str s l = true <-> In s l.
Proof.
  unfold mem_str. rewrite existsb_exists. split.
  - intros [x [Hin Heq]]. apply String.eqb_eq in Heq. subst; assumption.
  - intros Hin. exists s. split; [assumption | apply String.eqb_refl].
Qed.

Lemma nodup_str_NoDup l : nodup_str l = true <-> NoDup l.
Proof.
  induction l as [|x xs IH]; simpl.
  - split; [constructor | reflexivity].
  - rewrite andb_true_iff, negb_true_iff, IH. split.
    + intros [Hn Hd]. constructor; [|assumption]. intros Hin. apply mem_str_In in Hin. congruence.
    + intros Hd. inversion Hd as [|? ? Hn Hd']; subst. split; [|assumption].
      destruct (mem_str x xs) eqn:E; [|reflexivity]. apply mem_str_In in E. contradiction.
Qed.
