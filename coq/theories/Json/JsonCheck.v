(* C18 — correspondence entry point: each case carries what the implementation produced;
   check_case says whether the model produces the same. *)
From QV Require Export Json.JsspCodec Json.ResultCodec.

Inductive codec := KJssp | KLayer | KEvqe | KResult.

Definition encode (k : codec) (fl : flags) (v : pyval) : result json :=
  match k with
  | KJssp => jssp_encode v
  | KLayer => layer_encode v
  | KEvqe => evqe_encode v
  | KResult => result_encode fl v
  end.

Definition decode (k : codec) (fl : flags) (j : json) : result pyval :=
  match k with
  | KJssp => jssp_decode j
  | KLayer => layer_decode j
  | KEvqe => evqe_decode j
  | KResult => result_decode fl j
  end.

(* the round trips the property is about *)
Definition layer_roundtrip (v : pyval) : result pyval := do t <- layer_encode v; layer_decode t.
Definition evqe_roundtrip (v : pyval) : result pyval := do t <- evqe_encode v; evqe_decode t.
Definition result_roundtrip (fl : flags) (v : pyval) : result pyval :=
  do t <- result_encode fl v; result_decode fl t.

Inductive c18case :=
(* x; json.loads(json.dumps(x, cls=Enc)) read without a hook (or the exception class);
      json.loads(json.dumps(x, cls=Enc), cls=Dec) converted field by field (or the exception class) *)
| CRound (k : codec) (x : pyval) (tree : result json) (decoded : result pyval)
(* a JSON tree given to the decoder directly *)
| CDecode (k : codec) (tree : json) (decoded : result pyval).

Definition check_case (c : c18case) : bool :=
  match c with
  | CRound k x tree decoded =>
      result_eqb json_eqb (encode k head_flags x) tree
      && match tree with
         | Ok t => result_eqb pyval_eqb (decode k head_flags t) decoded
         | Err _ => true
         end
  | CDecode k tree decoded =>
      (* a damaged tree may put a value of an undocumented type into a field: the model then answers
         Err ModelScope, the case is counted (out_of_scope) and not compared *)
      match decode k head_flags tree with
      | Err "ModelScope" => true
      | r => result_eqb pyval_eqb r decoded
      end
  end.

Definition out_of_scope (c : c18case) : bool :=
  match c with
  | CRound _ _ _ _ => false
  | CDecode k tree _ => match decode k head_flags tree with Err "ModelScope" => true | _ => false end
  end.

(* for replays: what the model answers *)
Definition show_case (c : c18case) : result json * result pyval :=
  match c with
  | CRound k x _ _ => (encode k head_flags x, do t <- encode k head_flags x; decode k head_flags t)
  | CDecode k tree _ => (Ok tree, decode k head_flags tree)
  end.
