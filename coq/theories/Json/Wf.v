(* C18 — the hypotheses of the round-trip theorems as boolean predicates on the typed data: the constructors'
   checks (objects exist only if their constructor accepted them) and "the keys of a dict are pairwise different".
   Definitions only. *)
From QV Require Export Json.JsonCheck.
Open Scope string_scope.

(* the keys of a Python dict are pairwise different under == (earlier key on the left, as dict insertion tests it) *)
Fixpoint keys_distinct (l : list pyval) : bool :=
  match l with
  | [] => true
  | k :: r => forallb (fun k' => negb (py_eqb k k')) r && keys_distinct r
  end.


(* ---------------------------------------------------------------- job-shop data *)
Definition op_wf (o : operation) : bool := operation_ok o && machine_ok (op_machine o).
Definition job_wf (j : job) : bool := job_ok j && forallb op_wf (job_ops j).

(* the schedule of a result object: a dict (keys pairwise different) of job objects to tuples of (un)scheduled operation objects *)
Definition schedule_wf (s : schedule) : bool :=
  keys_distinct (map (fun kv => of_job (fst kv)) s)
  && forallb (fun kv => job_wf (fst kv) && forallb (fun p => op_wf (fst p)) (snd kv)) s.


(* ---------------------------------------------------------------- EVQE data *)
Definition ind_wf (i : ind) : bool := individual_is_valid i.
Definition pop_wf (p : population) : bool :=
  forallb ind_wf (p_individuals p)
  && match p_representatives p with None => true | Some l => forallb ind_wf l end
  && match p_members p with
     | None => true
     | Some l => forallb ind_wf (map fst l) && keys_distinct (map (fun kv => of_ind (fst kv)) l)
     end
  && match p_membership p with
     | None => true
     | Some l => forallb ind_wf (map snd l) && keys_distinct (map (fun kv => PInt (fst kv)) l)
     end.


(* ---------------------------------------------------------------- solver results *)
Definition is_float (n : num) : bool := match n with NFloat _ _ => true | NInt _ => false end.
(* the parts of a Python complex are floats *)
Definition scalar_wf (s : scalar) : bool :=
  match s with SComplex re im => is_float re && is_float im | _ => true end.
(* a QuasiDistribution as its constructor leaves it: int outcomes >= 0, pairwise different; no width without data;
   otherwise every outcome fits into the width (binary_probabilities() renders all keys with that many digits) *)
Definition fits (w k : Z) : bool :=
  match bin_str k with Ok b => (slen b <=? w)%Z | Err _ => false end.
Definition quasi_wf (q : quasi) : bool :=
  keys_distinct (map (fun kv => PInt (fst kv)) (q_data q))
  && match q_data q with
     | [] => Z.eqb (q_width q) 0
     | _ => forallb (fun kv => (0 <=? fst kv)%Z && fits (q_width q) (fst kv)) (q_data q)
     end.
Definition popeval_wf (e : popeval) : bool := pop_wf (pe_population e) && ind_wf (pe_best e).
Definition aux_wf (a : aux) : bool :=
  match a with
  | AuxNone => true
  | AuxList l => forallb scalar_wf l
  | AuxDict l => forallb scalar_wf (map snd l) && keys_distinct (map (fun kv => of_auxkey (fst kv)) l)
  end.
Definition opt_wf {A} (f : A -> bool) (o : option A) : bool := match o with None => true | Some x => f x end.
Definition result_wf (r : solver_result) : bool :=
  scalar_wf (r_eigenvalue r) && aux_wf (r_aux r) && opt_wf quasi_wf (r_eigenstate r) && opt_wf ind_wf (r_best r)
  && opt_wf (forallb popeval_wf) (r_history r).

