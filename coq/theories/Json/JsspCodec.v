(* C18 — queasars/job_shop_scheduling/serialization.py transcribed clause by clause:
   JSSPJSONEncoder.default and JSSPJSONDecoder.object_hook with its parse_* methods, the constructors'
   checks (Jssp/Instance.v) evaluated on the typed view of the field values.  Definitions only. *)
From QV Require Export Json.PyVal Jssp.Instance.
Open Scope string_scope.

(* ---------------------------------------------------------------- typed data <-> Python objects *)
Definition of_machine (m : string) : pyval := PObj CMachine [PStr m].
Definition of_op (o : operation) : pyval :=
  PObj COperation [PStr (op_name o); PStr (op_job o); of_machine (op_machine o); PInt (op_dur o)].
Definition of_job (j : job) : pyval := PObj CJob [PStr (job_name j); PTuple (map of_op (job_ops j))].
Definition of_instance (i : instance) : pyval :=
  PObj CInstance [PStr (inst_name i); PTuple (map of_machine (inst_machines i)); PTuple (map of_job (inst_jobs i))].
Definition of_psop (p : psop) : pyval :=
  match snd p with
  | None => PObj CUnscheduled [of_op (fst p)]
  | Some t => PObj CScheduled [of_op (fst p); PInt t]
  end.
Definition of_schedule (s : schedule) : pyval :=
  PDict (map (fun kv => (of_job (fst kv), PTuple (map of_psop (snd kv)))) s).
Definition of_result (i : instance) (s : schedule) : pyval := PObj CJsspResult [of_instance i; of_schedule s].

Definition as_machine (v : pyval) : result string :=
  match v with PObj CMachine [PStr m] => Ok m | _ => Err ModelScope end.
Definition as_op (v : pyval) : result operation :=
  match v with
  | PObj COperation [PStr n; PStr j; m; PNum (NInt d)] => do ms <- as_machine m; Ok (mkOp n j ms d)
  | _ => Err ModelScope
  end.
Definition as_job (v : pyval) : result job :=
  match v with
  | PObj CJob [PStr n; PTuple ops] => do os <- mapM as_op ops; Ok (mkJob n os)
  | _ => Err ModelScope
  end.
Definition as_instance (v : pyval) : result instance :=
  match v with
  | PObj CInstance [PStr n; PTuple ms; PTuple js] =>
      do ms' <- mapM as_machine ms; do js' <- mapM as_job js; Ok (mkInst n ms' js')
  | _ => Err ModelScope
  end.
Definition as_psop (v : pyval) : result psop :=
  match v with
  | PObj CUnscheduled [o] => do o' <- as_op o; Ok (o', None)
  | PObj CScheduled [o; PNum (NInt t)] => do o' <- as_op o; Ok (o', Some t)
  | _ => Err ModelScope
  end.
Definition as_schedule (v : pyval) : result schedule :=
  match v with
  | PDict kvs =>
      mapM (fun kv => do j <- as_job (fst kv);
                      do row <- as_tuple (snd kv);
                      do row' <- mapM as_psop row; Ok (j, row')) kvs
  | _ => Err ModelScope
  end.

(* ---------------------------------------------------------------- JSSPJSONEncoder.default *)
Definition K (s : string) : pyval := PStr s.   (* dict-literal keys *)

Fixpoint jssp_default (o : pyval) : pyval :=
  match o with
  (* if isinstance(o, tuple): return {"tuple": [self.default(entry) for entry in o]} *)
  | PTuple l => PDict [(K "tuple", PList (map jssp_default l))]
  (* if isinstance(o, list): return [self.default(entry) for entry in o] *)
  | PList l => PList (map jssp_default l)
  (* if isinstance(o, dict): return {"dict": self.default(list(o.items()))}
     -- the list clause applied to the items, the tuple clause applied to every (key, value) item *)
  | PDict kvs =>
      PDict [(K "dict", PList (map (fun kv => let '(k, v) := kv in
                                     PDict [(K "tuple", PList [jssp_default k; jssp_default v])]) kvs))]
  | PObj CQuasiDist (PDict kvs :: _) =>      (* a dict subclass is a dict *)
      PDict [(K "dict", PList (map (fun kv => let '(k, v) := kv in
                                     PDict [(K "tuple", PList [jssp_default k; jssp_default v])]) kvs))]
  | PObj CMachine [name] => PDict [(K "machine_name", name)]
  | PObj COperation [name; job_name; machine; duration] =>
      PDict [(K "operation_name", name);
             (K "operation_job_name", job_name);
             (K "operation_machine", jssp_default machine);
             (K "operation_processing_duration", duration)]
  | PObj CJob [name; operations] =>
      PDict [(K "job_name", name); (K "job_operations", jssp_default operations)]
  | PObj CInstance [name; machines; jobs] =>
      PDict [(K "jssp_instance_name", name);
             (K "jssp_instance_machines", jssp_default machines);
             (K "jssp_instance_jobs", jssp_default jobs)]
  | PObj CUnscheduled [operation] => PDict [(K "unscheduled_operation", jssp_default operation)]
  | PObj CScheduled [operation; start_time] =>
      PDict [(K "scheduled_operation", jssp_default operation);
             (K "scheduled_start_time", jssp_default start_time)]
  | PObj CJsspResult [problem_instance; schedule] =>
      PDict [(K "jssp_result_problem_instance", jssp_default problem_instance);
             (K "jssp_result_schedule", jssp_default schedule)]
  (* return o *)
  | _ => o
  end.

(* ---------------------------------------------------------------- constructors (with __post_init__ / __init__) *)
Definition raise_unless {A} (ok : bool) (a : A) : result A := if ok then Ok a else Err JSSPException.

Definition mk_machine (name : pyval) : result pyval :=
  do n <- as_str name; raise_unless (machine_ok n) (PObj CMachine [name]).

Definition mk_operation (name job_name machine duration : pyval) : result pyval :=
  do n <- as_str name; do j <- as_str job_name; do m <- as_machine machine; do d <- as_int duration;
  raise_unless (operation_ok (mkOp n j m d)) (PObj COperation [name; job_name; machine; duration]).

Definition mk_job (name operations : pyval) : result pyval :=
  do j <- as_job (PObj CJob [name; operations]);
  raise_unless (job_ok j) (PObj CJob [name; operations]).

Definition mk_instance (name machines jobs : pyval) : result pyval :=
  do i <- as_instance (PObj CInstance [name; machines; jobs]);
  raise_unless (instance_ok i) (PObj CInstance [name; machines; jobs]).

Definition mk_result (problem_instance schedule : pyval) : result pyval :=
  do i <- as_instance problem_instance; do s <- as_schedule schedule;
  raise_unless (result_ok i s) (PObj CJsspResult [problem_instance; schedule]).

(* ---------------------------------------------------------------- JSSPJSONDecoder *)
Definition len1 (d : sdict) : bool := Nat.eqb (length d) 1.

Definition jssp_parse_tuple (d : sdict) := do x <- dget "tuple" d; py_tuple x.
Definition jssp_parse_dict (d : sdict) := do x <- dget "dict" d; py_dict x.
Definition jssp_parse_machine (d : sdict) := do n <- dget "machine_name" d; mk_machine n.
Definition jssp_parse_operation (d : sdict) :=
  do n <- dget "operation_name" d; do j <- dget "operation_job_name" d;
  do m <- dget "operation_machine" d; do p <- dget "operation_processing_duration" d;
  mk_operation n j m p.
Definition jssp_parse_job (d : sdict) := do n <- dget "job_name" d; do o <- dget "job_operations" d; mk_job n o.
Definition jssp_parse_instance (d : sdict) :=
  do n <- dget "jssp_instance_name" d; do m <- dget "jssp_instance_machines" d; do j <- dget "jssp_instance_jobs" d;
  mk_instance n m j.
Definition jssp_parse_unscheduled (d : sdict) :=
  do o <- dget "unscheduled_operation" d; Ok (PObj CUnscheduled [o]).
Definition jssp_parse_scheduled (d : sdict) :=
  do o <- dget "scheduled_operation" d; do t <- dget "scheduled_start_time" d; Ok (PObj CScheduled [o; t]).
Definition jssp_parse_result (d : sdict) :=
  do i <- dget "jssp_result_problem_instance" d; do s <- dget "jssp_result_schedule" d; mk_result i s.

Definition jssp_hook (d : sdict) : result pyval :=
  if has "tuple" d && len1 d then jssp_parse_tuple d
  else if has "dict" d && len1 d then jssp_parse_dict d
  else if has "machine_name" d then jssp_parse_machine d
  else if has "operation_name" d || has "operation_job_name" d || has "operation_machine" d
          || has "operation_processing_duration" d then jssp_parse_operation d
  else if has "job_name" d || has "job_operations" d then jssp_parse_job d
  else if has "jssp_instance_name" d || has "jssp_instance_machines" d || has "jssp_instance_jobs" d
       then jssp_parse_instance d
  else if has "unscheduled_operation" d then jssp_parse_unscheduled d
  else if has "scheduled_operation" d || has "scheduled_start_time" d then jssp_parse_scheduled d
  else if has "jssp_result_problem_instance" d || has "jssp_result_schedule" d then jssp_parse_result d
  else Ok PNone.     (* the method ends: None *)

Definition jssp_encode (v : pyval) : result json := dumps (fun o => Ok (jssp_default o)) v.
Definition jssp_decode (j : json) : result pyval := loads jssp_hook j.
Definition jssp_roundtrip (v : pyval) : result pyval := do j <- jssp_encode v; jssp_decode j.
