(* C18 — proofs about the codec models (round trips, legacy witnesses). *)
From QV Require Import Json.JsonCheck.
Open Scope string_scope.
Open Scope Z_scope.

(* ---------------------------------------------------------------- witnesses *)
Definition wL : layer := mkLayer 2 [GCRot 0 1; GCtrl 1 0].
Definition wI : ind := mkInd 2 [wL] [NInt 0; NFloat 1 (-1); NFloat 1 0].
Definition wP : population := mkPop [wI; wI] (Some [wI]) (Some [(wI, [0; 1])]) (Some [(0, wI); (1, wI)]).
Definition wR_min : solver_result :=
  mkResult (SNum (NFloat (-1) (-1))) AuxNone None None None (Some 3) None None.
Definition wR_aux : solver_result :=
  mkResult (SNum (NFloat (-1) (-1))) (AuxList [SNum (NFloat 1 (-2))]) None None None None None None.
Definition wR_auxd : solver_result :=
  mkResult (SNum (NFloat (-1) (-1))) (AuxDict [(AKStr "n", SNum (NFloat 1 (-2)))]) None None None None None None.
Definition wR_full : solver_result :=
  mkResult (SComplex (NFloat 1 0) (NFloat 1 1))
    (AuxDict [(AKStr "type", SNum (NInt 1)); (AKInt 3, SComplex (NFloat 1 0) (NFloat 0 0))])
    (Some (mkQuasi [(0, NFloat 1 (-1)); (3, NFloat 1 (-1))] (Some (NInt 10)) None 3)) (Some wI) (Some [3; 4]) (Some 2)
    (Some [mkPopEval wP [Some (NFloat 1 (-1)); None] wI (NFloat 1 (-1))]) (Some "QPY0").

(* F-C18a: with the decoder writing result.generation, a result with generations = 3 comes back with None *)
Lemma generations_refuted :
  exists r y, result_roundtrip (mkFlags true false false) (of_solver_result r) = Ok y /\ y <> of_solver_result r.
Proof. exists wR_min. eexists. split; [vm_compute; reflexivity | intro H; discriminate H]. Qed.

(* F-C18b: list-valued and dict-valued auxiliary results come back as None *)
Lemma aux_refuted :
  (exists r y, result_roundtrip (mkFlags false true false) (of_solver_result r) = Ok y /\ y <> of_solver_result r
               /\ exists l, r_aux r = AuxList l)
  /\ (exists r y, result_roundtrip (mkFlags false true false) (of_solver_result r) = Ok y /\ y <> of_solver_result r
               /\ exists l, r_aux r = AuxDict l).
Proof.
  split.
  - exists wR_aux. eexists. split; [vm_compute; reflexivity | split; [intro H; discriminate H | eexists; reflexivity]].
  - exists wR_auxd. eexists. split; [vm_compute; reflexivity | split; [intro H; discriminate H | eexists; reflexivity]].
Qed.

(* F-C18d: measure_quasi_distributions builds the eigenstate from bitstring keys; '010' measured with probability 1 is the
   distribution {2: 1.0} of width 3.  Without the stored width the round trip yields width 2 ('10'). *)
Definition wQ_010 : quasi := mkQuasi [(2, NFloat 1 0)] (Some (NInt 1000)) None 3.
Definition wR_width : solver_result := mkResult (SNum (NFloat (-1) (-1))) AuxNone (Some wQ_010) None None None None None.
Lemma eigenstate_width_refuted :
  quasi_binary_keys [(PInt 2, PNum (NFloat 1 0))] 3 = Ok ["010"]
  /\ result_roundtrip (mkFlags false false true) (of_solver_result wR_width)
     = Ok (of_solver_result (mkResult (SNum (NFloat (-1) (-1))) AuxNone
                               (Some (mkQuasi [(2, NFloat 1 0)] (Some (NInt 1000)) None 2)) None None None None None))
  /\ quasi_binary_keys [(PInt 2, PNum (NFloat 1 0))] 2 = Ok ["10"].
Proof. repeat split; vm_compute; reflexivity. Qed.

(* the same witnesses round-trip under HEAD's behaviour *)
Lemma head_witnesses_roundtrip :
  forallb (fun r => result_eqb pyval_eqb (result_roundtrip head_flags (of_solver_result r)) (Ok (of_solver_result r)))
          [wR_min; wR_aux; wR_auxd; wR_full; wR_width] = true.
Proof. vm_compute. reflexivity. Qed.
