(* C18 — general facts about the tree protocol (PyVal.v): equations of dumps/loads, values that need no
   default() encode the same with any fuel, dict(items) rebuilds a dict whose keys are pairwise different. *)
From QV Require Export Json.JsonCheck Json.Wf.
Open Scope string_scope.
Open Scope list_scope.

Lemma mapR_mapM {A B} (f : A -> result B) l : mapR f l = mapM f l.
Proof. induction l as [|x xs IH]; simpl; [reflexivity|]. rewrite IH. reflexivity. Qed.

Lemma mapR_map {A B C} (f : B -> result C) (g : A -> B) (h : A -> C) l :
  (forall x, In x l -> f (g x) = Ok (h x)) -> mapR f (map g l) = Ok (map h l).
Proof.
  induction l as [|x xs IH]; intros H; simpl; [reflexivity|].
  rewrite (H x (or_introl eq_refl)). simpl. rewrite IH; [reflexivity|]. intros y Hy. apply H. right. exact Hy.
Qed.

Lemma mapM_map {A B C} (f : B -> result C) (g : A -> B) (h : A -> C) l :
  (forall x, In x l -> f (g x) = Ok (h x)) -> mapM f (map g l) = Ok (map h l).
Proof. rewrite <- mapR_mapM. apply mapR_map. Qed.

Lemma mapM_map_id {A B} (f : B -> result A) (g : A -> B) l :
  (forall x, In x l -> f (g x) = Ok x) -> mapM f (map g l) = Ok l.
Proof. intros H. rewrite (mapM_map f g (fun x => x) l H). rewrite map_id. reflexivity. Qed.

Lemma mapR_ext {A B} (f g : A -> result B) l : (forall x, In x l -> f x = g x) -> mapR f l = mapR g l.
Proof.
  induction l as [|x xs IH]; intros H; simpl; [reflexivity|].
  rewrite (H x (or_introl eq_refl)). rewrite IH; [reflexivity|]. intros y Hy. apply H. right. exact Hy.
Qed.

(* ---------------------------------------------------------------- equations *)
Section Eqs.
  Variable d : pyval -> result pyval.

  Definition member (f : nat) (kv : pyval * pyval) : result (string * json) :=
    let '(k, x) := kv in do s <- key_str k; do j <- dumps_fuel d f x; Ok (s, j).

  Lemma dumps_list f l : dumps_fuel d f (PList l) = do js <- mapR (dumps_fuel d f) l; Ok (JArr js).
  Proof. destruct f; reflexivity. Qed.
  Lemma dumps_tuple f l : dumps_fuel d f (PTuple l) = do js <- mapR (dumps_fuel d f) l; Ok (JArr js).
  Proof. destruct f; reflexivity. Qed.
  Lemma dumps_dict f kvs : dumps_fuel d f (PDict kvs) = do js <- mapR (member f) kvs; Ok (JObj js).
  Proof. destruct f; reflexivity. Qed.
  Lemma dumps_none f : dumps_fuel d f PNone = Ok JNull. Proof. destruct f; reflexivity. Qed.
  Lemma dumps_bool f b : dumps_fuel d f (PBool b) = Ok (JBool b). Proof. destruct f; reflexivity. Qed.
  Lemma dumps_num f n : dumps_fuel d f (PNum n) = Ok (JNum n). Proof. destruct f; reflexivity. Qed.
  Lemma dumps_str f s : dumps_fuel d f (PStr s) = Ok (JStr s). Proof. destruct f; reflexivity. Qed.
  Lemma dumps_obj f c l : c <> CQuasiDist ->
    dumps_fuel d (S f) (PObj c l) = do v <- d (PObj c l); dumps_fuel d f v.
  Proof. intros H. destruct c; try reflexivity. contradiction. Qed.
  Lemma dumps_complex f re im : dumps_fuel d (S f) (PComplex re im) = do v <- d (PComplex re im); dumps_fuel d f v.
  Proof. reflexivity. Qed.
  Lemma dumps_circuit f t : dumps_fuel d (S f) (PCircuit t) = do v <- d (PCircuit t); dumps_fuel d f v.
  Proof. reflexivity. Qed.
End Eqs.

Section LoadEqs.
  Variable hook : sdict -> result pyval.
  Definition lmember (kv : string * json) : result (string * pyval) :=
    let '(k, x) := kv in do v <- loads hook x; Ok (k, v).
  Lemma loads_arr l : loads hook (JArr l) = do vs <- mapR (loads hook) l; Ok (PList vs).
  Proof. reflexivity. Qed.
  Lemma loads_obj kvs : loads hook (JObj kvs) = do ms <- mapR lmember kvs; hook (sdict_of_pairs ms).
  Proof. reflexivity. Qed.
End LoadEqs.

(* ---------------------------------------------------------------- induction over pyval *)
Section PyvalInd.
  Variable P : pyval -> Prop.
  Hypothesis HNone : P PNone.
  Hypothesis HBool : forall b, P (PBool b).
  Hypothesis HNum : forall n, P (PNum n).
  Hypothesis HStr : forall s, P (PStr s).
  Hypothesis HTuple : forall l, Forall P l -> P (PTuple l).
  Hypothesis HList : forall l, Forall P l -> P (PList l).
  Hypothesis HDict : forall kvs, Forall (fun kv => P (fst kv) /\ P (snd kv)) kvs -> P (PDict kvs).
  Hypothesis HComplex : forall re im, P (PComplex re im).
  Hypothesis HCircuit : forall t, P (PCircuit t).
  Hypothesis HObj : forall c l, Forall P l -> P (PObj c l).

  Fixpoint pyval_ind' (v : pyval) : P v :=
    let fix go (l : list pyval) : Forall P l :=
      match l with [] => Forall_nil _ | x :: xs => Forall_cons _ (pyval_ind' x) (go xs) end in
    match v with
    | PNone => HNone
    | PBool b => HBool b
    | PNum n => HNum n
    | PStr s => HStr s
    | PTuple l => HTuple l (go l)
    | PList l => HList l (go l)
    | PDict kvs =>
        HDict kvs ((fix gok (l : list (pyval * pyval)) : Forall (fun kv => P (fst kv) /\ P (snd kv)) l :=
                      match l with
                      | [] => Forall_nil _
                      | (k, x) :: xs => Forall_cons (k, x) (conj (pyval_ind' k) (pyval_ind' x)) (gok xs)
                      end) kvs)
    | PComplex re im => HComplex re im
    | PCircuit t => HCircuit t
    | PObj c l => HObj c l (go l)
    end.
End PyvalInd.

Lemma mapR_mono {A B} (f g : A -> result B) l : forall js,
  mapR g l = Ok js -> (forall x, In x l -> forall j, g x = Ok j -> f x = Ok j) -> mapR f l = Ok js.
Proof.
  induction l as [|x xs IH]; intros js H Hm; simpl in *; [exact H|].
  destruct (g x) as [j|] eqn:E; [|discriminate]. simpl in H.
  destruct (mapR g xs) as [js'|] eqn:E2; [|discriminate]. simpl in H.
  rewrite (Hm x (or_introl eq_refl) j E). simpl.
  rewrite (IH js' eq_refl); [exact H|]. intros y Hy. apply Hm. right. exact Hy.
Qed.

(* a value that encodes without default() encodes to the same tree with any fuel *)
Lemma dumps_fuel_native d v : forall j, dumps_fuel d 0 v = Ok j -> forall f, dumps_fuel d f v = Ok j.
Proof.
  induction v using pyval_ind'; intros j H0 f;
    try (rewrite ?dumps_none, ?dumps_bool, ?dumps_num, ?dumps_str in *; assumption);
    try discriminate.
  - rewrite dumps_tuple in *. destruct (mapR (dumps_fuel d 0) l) as [js|] eqn:E; [|discriminate].
    rewrite (mapR_mono (dumps_fuel d f) (dumps_fuel d 0) l js E); [exact H0|].
    rewrite Forall_forall in H. intros x Hx j' Hj. apply H; assumption.
  - rewrite dumps_list in *. destruct (mapR (dumps_fuel d 0) l) as [js|] eqn:E; [|discriminate].
    rewrite (mapR_mono (dumps_fuel d f) (dumps_fuel d 0) l js E); [exact H0|].
    rewrite Forall_forall in H. intros x Hx j' Hj. apply H; assumption.
  - rewrite dumps_dict in *. destruct (mapR (member d 0) kvs) as [js|] eqn:E; [|discriminate].
    rewrite (mapR_mono (member d f) (member d 0) kvs js E); [exact H0|].
    rewrite Forall_forall in H. intros [k x] Hx j'. unfold member.
    destruct (key_str k); cbn [bind]; [|intros Hj; discriminate Hj].
    destruct (dumps_fuel d 0 x) as [jx|] eqn:Ex; cbn [bind]; [|intros Hj; discriminate Hj].
    rewrite (proj2 (H (k, x) Hx) jx Ex). intros Hj; exact Hj.
  - (* objects: only a QuasiDistribution (a dict) encodes without default() *)
    destruct c; try discriminate. destruct l as [|[] tl]; try discriminate.
    change (dumps_fuel d 0 (PObj CQuasiDist (PDict kvs :: tl))) with (dumps_fuel d 0 (PDict kvs)) in H0.
    replace (dumps_fuel d f (PObj CQuasiDist (PDict kvs :: tl))) with (dumps_fuel d f (PDict kvs)) by (destruct f; reflexivity).
    inversion H as [|? ? HP _]; subst. apply HP. exact H0.
Qed.

(* ---------------------------------------------------------------- dict(items) *)
Lemma pdict_set_fresh acc k v :
  forallb (fun kv => negb (py_eqb (fst kv) k)) acc = true -> pdict_set acc k v = acc ++ [(k, v)].
Proof.
  induction acc as [|[k' v'] r IH]; intros H; simpl in *; [reflexivity|].
  apply andb_true_iff in H as [H1 H2]. apply negb_true_iff in H1. rewrite H1. rewrite IH; [reflexivity|exact H2].
Qed.

Lemma keys_distinct_app a k r :
  keys_distinct (a ++ k :: r) = true ->
  forallb (fun k' => negb (py_eqb k' k)) a = true /\ keys_distinct ((a ++ [k]) ++ r) = true.
Proof.
  induction a as [|x xs IH]; intros H; simpl in *.
  - split; [reflexivity|exact H].
  - apply andb_true_iff in H as [H1 H2]. destruct (IH H2) as [I1 I2].
    rewrite forallb_app in H1. apply andb_true_iff in H1 as [H1a H1b]. simpl in H1b.
    apply andb_true_iff in H1b as [H1k H1r]. split.
    + rewrite H1k, I1. reflexivity.
    + rewrite I2, andb_true_r. rewrite !forallb_app. rewrite H1a, H1r. simpl. rewrite H1k. reflexivity.
Qed.

Definition item (tup : bool) (kv : pyval * pyval) : pyval :=
  if tup then PTuple [fst kv; snd kv] else PList [fst kv; snd kv].

Lemma pdict_of_items_distinct tup l : forall acc,
  forallb hashable (map fst l) = true ->
  keys_distinct (map fst acc ++ map fst l) = true ->
  pdict_of_items acc (map (item tup) l) = Ok (acc ++ l).
Proof.
  induction l as [|[k v] r IH]; intros acc Hh Hd.
  - simpl. rewrite app_nil_r. reflexivity.
  - cbn [map fst snd forallb] in Hh, Hd. cbn [map].
    apply andb_true_iff in Hh as [Hk Hr].
    destruct (keys_distinct_app _ _ _ Hd) as [Hf Hd'].
    assert (E : pdict_of_items acc (item tup (k, v) :: map (item tup) r)
                = pdict_of_items (pdict_set acc k v) (map (item tup) r)).
    { destruct tup; simpl; rewrite Hk; reflexivity. }
    rewrite E. rewrite pdict_set_fresh.
    + rewrite IH; [rewrite <- app_assoc; reflexivity|exact Hr|].
      rewrite map_app. simpl. exact Hd'.
    + rewrite forallb_forall in *. intros [k' v'] Hin. apply (Hf k'). apply in_map_iff. exists (k', v'). split; [reflexivity|exact Hin].
Qed.

Lemma py_dict_items tup l :
  forallb hashable (map fst l) = true -> keys_distinct (map fst l) = true ->
  py_dict (PList (map (item tup) l)) = Ok (PDict l).
Proof. intros Hh Hd. unfold py_dict. rewrite (pdict_of_items_distinct tup l []); [reflexivity|exact Hh|exact Hd]. Qed.

Lemma py_dict_items_tuple tup l :
  forallb hashable (map fst l) = true -> keys_distinct (map fst l) = true ->
  py_dict (PTuple (map (item tup) l)) = Ok (PDict l).
Proof. intros Hh Hd. unfold py_dict. rewrite (pdict_of_items_distinct tup l []); [reflexivity|exact Hh|exact Hd]. Qed.
