(* C18 — round trip of the circuit-layer codec and the population codec (EvqeCodec.v). *)
From QV Require Import Json.Protocol_proofs.
Open Scope string_scope.
Open Scope list_scope.

Local Arguments make_layer : simpl never.
Local Arguments make_individual : simpl never.
Local Arguments layer_is_valid : simpl never.
Local Arguments individual_is_valid : simpl never.

Definition JInt (z : Z) : json := JNum (NInt z).

(* ---------------------------------------------------------------- what default() returns, and the trees *)
Definition n_gate (g : gate) : pyval :=
  match g with
  | GId q => PDict [(K "evqe_gate_type", K "identity"); (K "evqe_qubit_index", PInt q)]
  | GRot q => PDict [(K "evqe_gate_type", K "rotation"); (K "evqe_qubit_index", PInt q)]
  | GCtrl q c => PDict [(K "evqe_gate_type", K "control"); (K "evqe_qubit_index", PInt q); (K "evqe_controlled_qubit_index", PInt c)]
  | GCRot q c => PDict [(K "evqe_gate_type", K "controlled_rotation"); (K "evqe_qubit_index", PInt q); (K "evqe_control_qubit_index", PInt c)]
  end.
Definition t_gate (g : gate) : json :=
  match g with
  | GId q => JObj [("evqe_gate_type", JStr "identity"); ("evqe_qubit_index", JInt q)]
  | GRot q => JObj [("evqe_gate_type", JStr "rotation"); ("evqe_qubit_index", JInt q)]
  | GCtrl q c => JObj [("evqe_gate_type", JStr "control"); ("evqe_qubit_index", JInt q); ("evqe_controlled_qubit_index", JInt c)]
  | GCRot q c => JObj [("evqe_gate_type", JStr "controlled_rotation"); ("evqe_qubit_index", JInt q); ("evqe_control_qubit_index", JInt c)]
  end.
Definition n_layer (l : layer) : pyval :=
  PDict [(K "evqe_circuit_layer_n_qubits", PInt (l_qubits l)); (K "evqe_circuit_layer_gates", PList (map n_gate (l_gates l)))].
Definition t_layer (l : layer) : json :=
  JObj [("evqe_circuit_layer_n_qubits", JInt (l_qubits l)); ("evqe_circuit_layer_gates", JArr (map t_gate (l_gates l)))].
Definition n_ind (i : ind) : pyval :=
  PDict [(K "evqe_individual_n_qubits", PInt (i_qubits i));
         (K "evqe_individual_layers", PList (map n_layer (i_layers i)));
         (K "evqe_individual_parameter_values", PList (map PNum (i_values i)))].
Definition t_ind (i : ind) : json :=
  JObj [("evqe_individual_n_qubits", JInt (i_qubits i));
        ("evqe_individual_layers", JArr (map t_layer (i_layers i)));
        ("evqe_individual_parameter_values", JArr (map JNum (i_values i)))].

Definition n_opt {A} (f : A -> pyval) (o : option A) : pyval := match o with None => PNone | Some x => f x end.
Definition t_opt {A} (f : A -> json) (o : option A) : json := match o with None => JNull | Some x => f x end.

Definition n_member (kv : ind * list Z) : pyval := PList [n_ind (fst kv); PList (map PInt (snd kv))].
Definition t_member (kv : ind * list Z) : json := JArr [t_ind (fst kv); JArr (map JInt (snd kv))].
Definition n_membership (kv : Z * ind) : pyval := PList [PInt (fst kv); n_ind (snd kv)].
Definition t_membership (kv : Z * ind) : json := JArr [JInt (fst kv); t_ind (snd kv)].
Definition n_pop (p : population) : pyval :=
  PDict [(K "evqe_population_individuals", PList (map n_ind (p_individuals p)));
         (K "evqe_population_species_representatives", n_opt (fun l => PList (map n_ind l)) (p_representatives p));
         (K "evqe_population_species_members", n_opt (fun l => PList (map n_member l)) (p_members p));
         (K "evqe_population_species_membership", n_opt (fun l => PList (map n_membership l)) (p_membership p))].
Definition t_pop (p : population) : json :=
  JObj [("evqe_population_individuals", JArr (map t_ind (p_individuals p)));
        ("evqe_population_species_representatives", t_opt (fun l => JArr (map t_ind l)) (p_representatives p));
        ("evqe_population_species_members", t_opt (fun l => JArr (map t_member l)) (p_members p));
        ("evqe_population_species_membership", t_opt (fun l => JArr (map t_membership l)) (p_membership p))].

(* ---------------------------------------------------------------- default() on the embedded objects *)
Lemma layer_default_gate g : layer_default (of_gate g) = Ok (n_gate g).
Proof. destruct g; reflexivity. Qed.
Lemma layer_default_layer l : layer_default (of_layer l) = Ok (n_layer l).
Proof.
  destruct l as [n gs]. unfold of_layer, n_layer. cbn [l_qubits l_gates]. cbn [layer_default].
  rewrite (mapR_map _ _ n_gate); [reflexivity|]. intros; apply layer_default_gate.
Qed.
Lemma evqe_default_gate g : evqe_default (of_gate g) = Ok (n_gate g).
Proof. destruct g; reflexivity. Qed.
Lemma evqe_default_layer l : evqe_default (of_layer l) = Ok (n_layer l).
Proof.
  replace (evqe_default (of_layer l)) with (layer_default (of_layer l)) by (destruct l; reflexivity).
  apply layer_default_layer.
Qed.
Lemma evqe_default_ind i : evqe_default (of_ind i) = Ok (n_ind i).
Proof.
  destruct i as [n ls vs]. unfold of_ind, n_ind. cbn [i_qubits i_layers i_values]. cbn [evqe_default is_layer_type].
  rewrite (mapR_map _ _ n_layer); [reflexivity|]. intros; apply evqe_default_layer.
Qed.
Lemma evqe_default_pop p : evqe_default (of_population p) = Ok (n_pop p).
Proof.
  destruct p as [inds reps mem mship]. unfold of_population, n_pop.
  cbn [p_individuals p_representatives p_members p_membership]. cbn [evqe_default is_layer_type].
  assert (Hr : match of_opt (fun l => PList (map of_ind l)) reps with
               | PNone => Ok PNone
               | PTuple l | PList l => do r <- mapR evqe_default l; Ok (PList r)
               | _ => Err ModelScope
               end = Ok (n_opt (fun l => PList (map n_ind l)) reps)).
  { destruct reps as [l|]; cbn [of_opt n_opt]; [|reflexivity].
    rewrite (mapR_map _ _ n_ind); [reflexivity|]. intros; apply evqe_default_ind. }
  rewrite Hr. cbn [bind].
  assert (Hm : match of_opt (fun d => PDict (map (fun kv => (of_ind (fst kv), PList (map PInt (snd kv)))) d)) mem with
               | PNone => Ok PNone
               | PDict kvs | PObj CQuasiDist (PDict kvs :: _) => do r <- mapR (fun kv : pyval * pyval => let '(k, v) := kv in do y <- evqe_default k; Ok (PList [y; v])) kvs; Ok (PList r)
               | _ => Err ModelScope
               end = Ok (n_opt (fun l => PList (map n_member l)) mem)).
  { destruct mem as [l|]; cbn [of_opt n_opt]; [|reflexivity].
    rewrite (mapR_map _ _ n_member); [reflexivity|]. intros [k v] _. cbn [fst snd]. rewrite evqe_default_ind. reflexivity. }
  rewrite Hm. cbn [bind].
  assert (Hs : match of_opt (fun d => PDict (map (fun kv => (PInt (fst kv), of_ind (snd kv))) d)) mship with
               | PNone => Ok PNone
               | PDict kvs | PObj CQuasiDist (PDict kvs :: _) => do r <- mapR (fun kv : pyval * pyval => let '(k, v) := kv in do y <- evqe_default v; Ok (PList [k; y])) kvs; Ok (PList r)
               | _ => Err ModelScope
               end = Ok (n_opt (fun l => PList (map n_membership l)) mship)).
  { destruct mship as [l|]; cbn [of_opt n_opt]; [|reflexivity].
    rewrite (mapR_map _ _ n_membership); [reflexivity|]. intros [k v] _. cbn [fst snd]. rewrite evqe_default_ind. reflexivity. }
  rewrite Hs. cbn [bind].
  rewrite (mapR_map _ _ n_ind); [reflexivity|]. intros; apply evqe_default_ind.
Qed.

(* ---------------------------------------------------------------- the native values encode to the trees, whatever default and fuel *)
Ltac enc_cbn := unfold PInt, JInt, EvqeCodec.K; cbn [mapR member key_str bind fst snd].
Ltac enc :=
  enc_cbn;
  repeat (first [rewrite dumps_dict | rewrite dumps_list | rewrite dumps_tuple | rewrite dumps_str
                | rewrite dumps_num | rewrite dumps_none | rewrite dumps_bool]; enc_cbn).

Section Native.
  Variable d : pyval -> result pyval.
  Variable f : nat.

  Lemma nat_gate g : dumps_fuel d f (n_gate g) = Ok (t_gate g).
  Proof. destruct g; unfold n_gate, t_gate; enc; reflexivity. Qed.

  Lemma nat_list {A} (n : A -> pyval) (t : A -> json) l :
    (forall x, dumps_fuel d f (n x) = Ok (t x)) -> dumps_fuel d f (PList (map n l)) = Ok (JArr (map t l)).
  Proof. intros H. rewrite dumps_list. rewrite (mapR_map _ _ t); [reflexivity|]. intros; apply H. Qed.

  Lemma nat_mapR {A} (n : A -> pyval) (t : A -> json) l :
    (forall x, dumps_fuel d f (n x) = Ok (t x)) -> mapR (dumps_fuel d f) (map n l) = Ok (map t l).
  Proof. intros H. apply mapR_map. intros; apply H. Qed.

  Lemma nat_layer l : dumps_fuel d f (n_layer l) = Ok (t_layer l).
  Proof. unfold n_layer, t_layer. enc. rewrite (nat_mapR n_gate t_gate); [reflexivity|apply nat_gate]. Qed.

  Lemma nat_num n : dumps_fuel d f (PNum n) = Ok (JNum n). Proof. apply dumps_num. Qed.
  Lemma nat_int z : dumps_fuel d f (PInt z) = Ok (JInt z). Proof. apply dumps_num. Qed.

  Lemma nat_ind i : dumps_fuel d f (n_ind i) = Ok (t_ind i).
  Proof.
    unfold n_ind, t_ind. enc. rewrite (nat_mapR n_layer t_layer); [|apply nat_layer]. cbn [bind].
    rewrite (nat_mapR PNum JNum); [reflexivity|apply nat_num].
  Qed.

  Lemma nat_member kv : dumps_fuel d f (n_member kv) = Ok (t_member kv).
  Proof.
    unfold n_member, t_member. rewrite dumps_list. cbn [mapR]. rewrite nat_ind. cbn [bind].
    rewrite (nat_list PInt JInt); [reflexivity|apply nat_int].
  Qed.
  Lemma nat_membership kv : dumps_fuel d f (n_membership kv) = Ok (t_membership kv).
  Proof. unfold n_membership, t_membership. rewrite dumps_list. cbn [mapR]. rewrite nat_int, nat_ind. reflexivity. Qed.

  Lemma nat_opt {A} (n : A -> pyval) (t : A -> json) o :
    (forall x, dumps_fuel d f (n x) = Ok (t x)) -> dumps_fuel d f (n_opt n o) = Ok (t_opt t o).
  Proof. intros H. destruct o; cbn [n_opt t_opt]; [apply H|apply dumps_none]. Qed.

  Lemma nat_pop p : dumps_fuel d f (n_pop p) = Ok (t_pop p).
  Proof.
    unfold n_pop, t_pop. rewrite dumps_dict. unfold EvqeCodec.K. cbn [mapR member key_str bind].
    rewrite (nat_list n_ind t_ind); [|apply nat_ind]. cbn [bind].
    rewrite (nat_opt (fun l => PList (map n_ind l)) (fun l => JArr (map t_ind l))); [|intros; apply nat_list; apply nat_ind]. cbn [bind].
    rewrite (nat_opt (fun l => PList (map n_member l)) (fun l => JArr (map t_member l))); [|intros; apply nat_list; apply nat_member]. cbn [bind].
    rewrite (nat_opt (fun l => PList (map n_membership l)) (fun l => JArr (map t_membership l))); [|intros; apply nat_list; apply nat_membership].
    reflexivity.
  Qed.
End Native.

(* ---------------------------------------------------------------- decoding, for any hook that delegates like the three decoders *)
Ltac dec_cbn := unfold JInt; cbn [mapR lmember loads bind fst snd].
Ltac pairs_cbn := unfold sdict_of_pairs; cbn [fold_left sdict_set fst snd String.eqb Ascii.eqb Bool.eqb].
Ltac has_cbn := cbn [has existsb fst snd String.eqb Ascii.eqb Bool.eqb orb andb].
Ltac dget_cbn := cbn [dget fst snd String.eqb Ascii.eqb Bool.eqb bind].

Lemma layer_wf_valid l : layer_wf l = true -> layer_is_valid l = Ok true.
Proof. unfold layer_wf. destruct (layer_is_valid l) as [[|]|]; simpl; congruence. Qed.

Lemma as_gate_of_gate g : as_gate (of_gate g) = Ok g.
Proof. destruct g; reflexivity. Qed.
Lemma as_layer_of_layer l : as_layer (of_layer l) = Ok l.
Proof.
  destruct l as [n gs]. unfold of_layer, as_layer, PInt. cbn [l_qubits l_gates].
  rewrite mapM_map_id; [reflexivity|]. intros; apply as_gate_of_gate.
Qed.
Lemma as_ind_of_ind i : as_ind (of_ind i) = Ok i.
Proof.
  destruct i as [n ls vs]. unfold of_ind, as_ind, PInt. cbn [i_qubits i_layers i_values].
  rewrite mapM_map_id; [|intros; apply as_layer_of_layer]. cbn [bind].
  rewrite mapM_map_id; [reflexivity|]. reflexivity.
Qed.

Lemma ind_wf_layers i l : ind_wf i = true -> In l (i_layers i) -> layer_wf l = true.
Proof.
  unfold ind_wf, individual_is_valid. intros H Hin.
  apply andb_true_iff in H as [H _]. apply andb_true_iff in H as [_ H].
  rewrite forallb_forall in H. specialize (H l Hin). apply andb_true_iff in H as [H _]. exact H.
Qed.

Lemma hashable_of_ind i : hashable (of_ind i) = true.
Proof.
  destruct i as [n ls vs]. unfold of_ind. cbn [hashable i_qubits i_layers i_values forallb PInt].
  assert (forallb hashable (map of_layer ls) = true) as ->.
  { induction ls as [|l r IH]; [reflexivity|]. cbn [map forallb]. rewrite IH, andb_true_r.
    destruct l as [m gs]. unfold of_layer. cbn [hashable l_qubits l_gates forallb PInt].
    assert (forallb hashable (map of_gate gs) = true) as ->; [|reflexivity].
    induction gs as [|g gr IHg]; [reflexivity|]. cbn [map forallb]. rewrite IHg. destruct g; reflexivity. }
  assert (forallb hashable (map PNum vs) = true) as ->; [|reflexivity].
  induction vs as [|v r IH]; [reflexivity|]. cbn [map forallb]. rewrite IH. reflexivity.
Qed.

Section Decode.
  Variable H : sdict -> result pyval.
  Hypothesis HL : forall d, any_key_in layer_identifying_keys d = true -> H d = layer_hook d.

  Lemma dec_gate g : loads H (t_gate g) = Ok (of_gate g).
  Proof.
    destruct g; unfold t_gate; rewrite loads_obj; dec_cbn; pairs_cbn; rewrite HL by reflexivity; reflexivity.
  Qed.

  Lemma dec_list {A} (t : A -> json) (of : A -> pyval) l :
    (forall x, In x l -> loads H (t x) = Ok (of x)) -> loads H (JArr (map t l)) = Ok (PList (map of l)).
  Proof. intros Hx. rewrite loads_arr. rewrite (mapR_map _ _ of l Hx). reflexivity. Qed.

  Lemma dec_layer l : layer_wf l = true -> loads H (t_layer l) = Ok (of_layer l).
  Proof.
    intros Hw. unfold t_layer. rewrite loads_obj. cbn [mapR lmember bind].
    rewrite (dec_list t_gate of_gate); [|intros; apply dec_gate]. dec_cbn. pairs_cbn.
    rewrite HL by reflexivity. unfold layer_hook. has_cbn. unfold parse_circuit_layer. dget_cbn.
    cbn [py_tuple bind]. unfold mk_layer.
    change (PObj CLayer [PNum (NInt (l_qubits l)); PTuple (map of_gate (l_gates l))]) with (of_layer l).
    rewrite as_layer_of_layer. cbn [bind]. unfold make_layer.
    replace (mkLayer (l_qubits l) (l_gates l)) with l by (destruct l; reflexivity).
    rewrite (layer_wf_valid l Hw). reflexivity.
  Qed.

  Hypothesis HE : forall d, any_key_in layer_identifying_keys d = false -> any_key_in evqe_own_keys d = true -> H d = evqe_hook d.

  Lemma dec_ind i : ind_wf i = true -> loads H (t_ind i) = Ok (of_ind i).
  Proof.
    intros Hw. unfold t_ind. rewrite loads_obj. cbn [mapR lmember bind].
    rewrite (dec_list t_layer of_layer); [|intros l Hin; apply dec_layer; apply (ind_wf_layers i l Hw Hin)].
    cbn [bind]. rewrite (dec_list JNum PNum); [|reflexivity]. dec_cbn. pairs_cbn.
    rewrite HE by reflexivity. unfold evqe_hook.
    replace (any_key_in layer_identifying_keys _) with false by reflexivity.
    has_cbn. unfold parse_individual. dget_cbn. cbn [py_tuple bind]. unfold mk_individual.
    change (PObj CIndividual [PNum (NInt (i_qubits i)); PTuple (map of_layer (i_layers i)); PTuple (map PNum (i_values i))]) with (of_ind i).
    rewrite as_ind_of_ind. cbn [bind]. unfold make_individual.
    replace (mkInd (i_qubits i) (i_layers i) (i_values i)) with i by (destruct i; reflexivity).
    unfold ind_wf in Hw. rewrite Hw. reflexivity.
  Qed.

  Lemma dec_opt {A} (t : A -> json) (of : A -> pyval) o :
    (forall x, o = Some x -> loads H (t x) = Ok (of x)) -> loads H (t_opt t o) = Ok (of_opt of o).
  Proof. intros Hx. destruct o; cbn [t_opt of_opt]; [apply Hx; reflexivity|reflexivity]. Qed.

  Definition member_kv (kv : ind * list Z) : pyval * pyval := (of_ind (fst kv), PList (map PInt (snd kv))).
  Definition membership_kv (kv : Z * ind) : pyval * pyval := (PInt (fst kv), of_ind (snd kv)).

  Lemma dec_member kv : ind_wf (fst kv) = true -> loads H (t_member kv) = Ok (item false (member_kv kv)).
  Proof.
    intros Hw. unfold t_member. rewrite loads_arr. cbn [mapR]. rewrite (dec_ind _ Hw). cbn [bind].
    rewrite (dec_list JInt PInt); [reflexivity|reflexivity].
  Qed.
  Lemma dec_membership kv : ind_wf (snd kv) = true -> loads H (t_membership kv) = Ok (item false (membership_kv kv)).
  Proof. intros Hw. unfold t_membership. rewrite loads_arr. cbn [mapR]. rewrite (dec_ind _ Hw). reflexivity. Qed.

  Lemma dec_pop p : pop_wf p = true -> loads H (t_pop p) = Ok (of_population p).
  Proof.
    intros Hw. unfold pop_wf in Hw. destruct p as [inds reps mem mship].
    cbn [p_individuals p_representatives p_members p_membership] in Hw.
    apply andb_true_iff in Hw as [Hw Hs]. apply andb_true_iff in Hw as [Hw Hm]. apply andb_true_iff in Hw as [Hi Hr].
    rewrite forallb_forall in Hi.
    unfold t_pop. cbn [p_individuals p_representatives p_members p_membership].
    rewrite loads_obj. cbn [mapR lmember bind].
    rewrite (dec_list t_ind of_ind); [|intros x Hx; apply dec_ind; apply Hi; exact Hx]. cbn [bind].
    rewrite (dec_opt (fun l => JArr (map t_ind l)) (fun l => PList (map of_ind l))).
    2:{ intros l ->. rewrite forallb_forall in Hr. apply dec_list. intros x Hx. apply dec_ind. apply Hr. exact Hx. }
    cbn [bind].
    rewrite (dec_opt (fun l => JArr (map t_member l)) (fun l => PList (map (item false) (map member_kv l)))).
    2:{ intros l ->. apply andb_true_iff in Hm as [Hm _]. rewrite forallb_forall in Hm.
        rewrite map_map. apply (dec_list t_member (fun kv => item false (member_kv kv))).
        intros x Hx. apply dec_member. apply Hm. apply in_map. exact Hx. }
    cbn [bind].
    rewrite (dec_opt (fun l => JArr (map t_membership l)) (fun l => PList (map (item false) (map membership_kv l)))).
    2:{ intros l ->. apply andb_true_iff in Hs as [Hs _]. rewrite forallb_forall in Hs.
        rewrite map_map. apply (dec_list t_membership (fun kv => item false (membership_kv kv))).
        intros x Hx. apply dec_membership. apply Hs. apply in_map. exact Hx. }
    cbn [bind]. pairs_cbn.
    rewrite HE by reflexivity. unfold evqe_hook.
    replace (any_key_in layer_identifying_keys _) with false by reflexivity.
    has_cbn. unfold parse_population. dget_cbn. cbn [py_tuple bind].
    assert (Hhm : forall l : list (ind * list Z), forallb hashable (map fst (map member_kv l)) = true).
    { intros l. rewrite map_map. apply forallb_forall. intros x Hx. apply in_map_iff in Hx as [kv [<- _]]. apply hashable_of_ind. }
    assert (Hhs : forall l : list (Z * ind), forallb hashable (map fst (map membership_kv l)) = true).
    { intros l. rewrite map_map. apply forallb_forall. intros x Hx. apply in_map_iff in Hx as [kv [<- _]]. reflexivity. }
    destruct mem as [lm|]; cbn [of_opt py_tuple bind].
    - apply andb_true_iff in Hm as [_ Hkm].
      rewrite py_dict_items_tuple; [|apply Hhm|rewrite map_map; exact Hkm]. cbn [bind].
      destruct mship as [ls|]; cbn [of_opt bind].
      + apply andb_true_iff in Hs as [_ Hks].
        rewrite py_dict_items; [|apply Hhs|rewrite map_map; exact Hks]. reflexivity.
      + reflexivity.
    - destruct mship as [ls|]; cbn [of_opt bind].
      + apply andb_true_iff in Hs as [_ Hks].
        rewrite py_dict_items; [|apply Hhs|rewrite map_map; exact Hks]. reflexivity.
      + reflexivity.
  Qed.
End Decode.

(* ---------------------------------------------------------------- the round trips *)
Lemma HL_layer d : any_key_in layer_identifying_keys d = true -> layer_hook d = layer_hook d.
Proof. reflexivity. Qed.
Lemma HL_evqe d : any_key_in layer_identifying_keys d = true -> evqe_hook d = layer_hook d.
Proof. intros E. unfold evqe_hook. rewrite E. reflexivity. Qed.
Lemma HE_evqe d : any_key_in layer_identifying_keys d = false -> any_key_in evqe_own_keys d = true -> evqe_hook d = evqe_hook d.
Proof. reflexivity. Qed.

Lemma top_roundtrip (dflt : pyval -> result pyval) (hook : sdict -> result pyval) c l n t :
  c <> CQuasiDist -> dflt (PObj c l) = Ok n -> (forall f, dumps_fuel dflt f n = Ok t) -> loads hook t = Ok (PObj c l) ->
  (do j <- dumps dflt (PObj c l); loads hook j) = Ok (PObj c l).
Proof.
  intros Hc Hd Hn Hl. unfold dumps, DEFAULT_FUEL. rewrite dumps_obj by exact Hc. rewrite Hd. cbn [bind].
  rewrite Hn. cbn [bind]. exact Hl.
Qed.

Lemma of_gate_obj g : exists c l, of_gate g = PObj c l /\ c <> CQuasiDist.
Proof. destruct g; eexists; eexists; (split; [reflexivity|discriminate]). Qed.

Lemma evqe_roundtrip_all :
  (forall g, layer_roundtrip (of_gate g) = Ok (of_gate g))
  /\ (forall l, layer_wf l = true -> layer_roundtrip (of_layer l) = Ok (of_layer l))
  /\ (forall g, evqe_roundtrip (of_gate g) = Ok (of_gate g))
  /\ (forall l, layer_wf l = true -> evqe_roundtrip (of_layer l) = Ok (of_layer l))
  /\ (forall i, ind_wf i = true -> evqe_roundtrip (of_ind i) = Ok (of_ind i))
  /\ (forall p, pop_wf p = true -> evqe_roundtrip (of_population p) = Ok (of_population p)).
Proof.
  repeat split.
  - intros g. destruct (of_gate_obj g) as [c [l [E Hc]]]. unfold layer_roundtrip, layer_encode, layer_decode. rewrite E.
    apply (top_roundtrip _ _ c l (n_gate g) (t_gate g) Hc); try rewrite <- E;
      [apply layer_default_gate | intros; apply nat_gate | apply dec_gate; apply HL_layer].
  - intros l Hw. unfold layer_roundtrip, layer_encode, layer_decode, of_layer.
    apply (top_roundtrip _ _ _ _ (n_layer l) (t_layer l)); [discriminate | apply layer_default_layer | intros; apply nat_layer |].
    apply dec_layer; [apply HL_layer | exact Hw].
  - intros g. destruct (of_gate_obj g) as [c [l [E Hc]]]. unfold evqe_roundtrip, evqe_encode, evqe_decode. rewrite E.
    apply (top_roundtrip _ _ c l (n_gate g) (t_gate g) Hc); try rewrite <- E;
      [apply evqe_default_gate | intros; apply nat_gate | apply dec_gate; apply HL_evqe].
  - intros l Hw. unfold evqe_roundtrip, evqe_encode, evqe_decode, of_layer.
    apply (top_roundtrip _ _ _ _ (n_layer l) (t_layer l)); [discriminate | apply evqe_default_layer | intros; apply nat_layer |].
    apply dec_layer; [apply HL_evqe | exact Hw].
  - intros i Hw. unfold evqe_roundtrip, evqe_encode, evqe_decode, of_ind.
    apply (top_roundtrip _ _ _ _ (n_ind i) (t_ind i)); [discriminate | apply evqe_default_ind | intros; apply nat_ind |].
    apply dec_ind; [apply HL_evqe | apply HE_evqe | exact Hw].
  - intros p Hw. unfold evqe_roundtrip, evqe_encode, evqe_decode, of_population.
    apply (top_roundtrip _ _ _ _ (n_pop p) (t_pop p)); [discriminate | apply evqe_default_pop | intros; apply nat_pop |].
    apply dec_pop; [apply HL_evqe | apply HE_evqe | exact Hw].
Qed.

(* non-vacuity: a valid population with species information, a duplicated member, an int and an integer-valued float *)
Definition ex_L : layer := mkLayer 2 [GCRot 0 1; GCtrl 1 0].
Definition ex_L2 : layer := mkLayer 2 [GRot 0; GId 1].
Definition ex_I : ind := mkInd 2 [ex_L; ex_L2] [NInt 0; NFloat 1 (-1); NFloat 1 0; NFloat 1 1; NInt 2; NFloat 0 0].
Definition ex_I2 : ind := mkInd 2 [ex_L2] [NFloat 1 0; NFloat 1 0; NFloat 1 0].
Definition ex_P : population :=
  mkPop [ex_I; ex_I2; ex_I] (Some [ex_I; ex_I2]) (Some [(ex_I, [0; 2]%Z); (ex_I2, [1]%Z)]) (Some [(0, ex_I); (1, ex_I2); (2, ex_I)]%Z).
Lemma evqe_example : layer_wf ex_L = true /\ ind_wf ex_I = true /\ pop_wf ex_P = true.
Proof. vm_compute. repeat split. Qed.
