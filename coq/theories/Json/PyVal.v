(* C18 — the Python values the JSON encoders' `default` methods and the decoders' `object_hook`s see
   and produce, and the tree protocol of Python's json module over them.  Definitions only.

   Objects are untyped, as in Python: a class tag and the field values in declaration order.  The
   typed data models (Jssp/Instance.v, Evqe/Genome.v) are embedded by the of_* functions of the codec
   files; constructors' validation is evaluated on the typed view (as_* functions), and a field value
   outside the documented type makes the model answer `Err "ModelScope"` (never compared, never
   generated) instead of guessing which Python exception the duck-typed code would raise. *)
From Coq Require Import DecimalString.
From QV Require Export Json.Json.
Open Scope string_scope.

Definition ModelScope : string := "ModelScope".

Inductive cls :=
| CMachine | COperation | CJob | CInstance | CUnscheduled | CScheduled | CJsspResult
| CIdentityGate | CRotationGate | CControlGate | CControlledRotationGate | CLayer | CIndividual | CPopulation
| CQuasiDist        (* qiskit QuasiDistribution: a dict subclass; fields [data dict; shots; stddev_upper_bound] *)
| CPopEval          (* BasePopulationEvaluationResult *)
| CSolverResult.    (* EvolvingAnsatzMinimumEigensolverResult *)

Definition cls_eqb (a b : cls) : bool :=
  match a, b with
  | CMachine, CMachine | COperation, COperation | CJob, CJob | CInstance, CInstance
  | CUnscheduled, CUnscheduled | CScheduled, CScheduled | CJsspResult, CJsspResult
  | CIdentityGate, CIdentityGate | CRotationGate, CRotationGate | CControlGate, CControlGate
  | CControlledRotationGate, CControlledRotationGate | CLayer, CLayer | CIndividual, CIndividual
  | CPopulation, CPopulation | CQuasiDist, CQuasiDist | CPopEval, CPopEval | CSolverResult, CSolverResult => true
  | _, _ => false
  end.

Inductive pyval :=
| PNone
| PBool (b : bool)
| PNum (n : num)
| PStr (s : string)
| PTuple (l : list pyval)
| PList (l : list pyval)
| PDict (kvs : list (pyval * pyval))      (* insertion order; keys pairwise different under == *)
| PComplex (re im : num)                   (* Python complex; both parts are floats *)
| PCircuit (tok : string)                  (* qiskit QuantumCircuit, an opaque token (QPY is Qiskit's) *)
| PObj (c : cls) (fields : list pyval).

(* ---------------------------------------------------------------- equalities *)
(* strict: same shape, same types (int 1 <> float 1.0 <> True, tuple <> list, dict order matters).
   Used by the correspondence to compare what the implementation produced with the model's answer. *)
Fixpoint pyval_eqb (a b : pyval) {struct a} : bool :=
  let fix go (l m : list pyval) {struct l} : bool :=
    match l, m with
    | [], [] => true
    | x :: xs, y :: ys => pyval_eqb x y && go xs ys
    | _, _ => false
    end in
  match a, b with
  | PNone, PNone => true
  | PBool x, PBool y => Bool.eqb x y
  | PNum x, PNum y => num_eqb x y
  | PStr x, PStr y => String.eqb x y
  | PTuple l, PTuple m => go l m
  | PList l, PList m => go l m
  | PDict l, PDict m =>
      (fix gok (l m : list (pyval * pyval)) {struct l} : bool :=
         match l, m with
         | [], [] => true
         | (k, x) :: xs, (k', y) :: ys => pyval_eqb k k' && pyval_eqb x y && gok xs ys
         | _, _ => false
         end) l m
  | PComplex r i, PComplex r' i' => num_eqb r r' && num_eqb i i'
  | PCircuit s, PCircuit t => String.eqb s t
  | PObj c l, PObj d m => cls_eqb c d && go l m
  | _, _ => false
  end.

(* Python's `==` as the codecs' dict constructions use it on keys: numbers by value (1 == 1.0 == True),
   sequences of the same type element-wise, frozen dataclasses field-wise.  EVQEIndividual.__eq__ compares
   hashes of (n_qubits, layers, parameter_values); hash collisions of *different* values (CPython:
   hash(-1) == hash(-2)) are not modelled, so this relation is finer than the implementation's on individuals.
   Dicts inside keys do not occur (unhashable); they are compared in order. *)
Definition num_of_bool (b : bool) : num := NInt (if b then 1 else 0)%Z.

Fixpoint py_eqb (a b : pyval) {struct a} : bool :=
  let fix go (l m : list pyval) {struct l} : bool :=
    match l, m with
    | [], [] => true
    | x :: xs, y :: ys => py_eqb x y && go xs ys
    | _, _ => false
    end in
  match a, b with
  | PNone, PNone => true
  | PBool x, PBool y => Bool.eqb x y
  | PBool x, PNum y => num_pyeq (num_of_bool x) y
  | PNum x, PBool y => num_pyeq x (num_of_bool y)
  | PNum x, PNum y => num_pyeq x y
  | PStr x, PStr y => String.eqb x y
  | PTuple l, PTuple m => go l m
  | PList l, PList m => go l m
  | PDict l, PDict m =>
      (fix gok (l m : list (pyval * pyval)) {struct l} : bool :=
         match l, m with
         | [], [] => true
         | (k, x) :: xs, (k', y) :: ys => py_eqb k k' && py_eqb x y && gok xs ys
         | _, _ => false
         end) l m
  | PComplex r i, PComplex r' i' => num_pyeq r r' && num_pyeq i i'
  | PCircuit s, PCircuit t => String.eqb s t
  | PObj c l, PObj d m => cls_eqb c d && go l m
  | _, _ => false
  end.

(* hashable(v): may v be a dict key?  lists, dicts and objects of non-frozen dataclasses are not. *)
Fixpoint hashable (v : pyval) : bool :=
  match v with
  | PNone | PBool _ | PNum _ | PStr _ | PComplex _ _ => true
  | PTuple l => forallb hashable l
  | PList _ | PDict _ => false
  | PCircuit _ => true
  | PObj c l =>
      match c with
      | CPopulation | CPopEval | CQuasiDist => false
      | _ => forallb hashable l
      end
  end.

(* ---------------------------------------------------------------- str-keyed dicts (what object_hook receives) *)
Definition sdict : Type := list (string * pyval).

Definition has (k : string) (d : sdict) : bool := existsb (fun kv => String.eqb (fst kv) k) d.

(* d[k]: KeyError when absent *)
Fixpoint dget (k : string) (d : sdict) : result pyval :=
  match d with
  | [] => Err "KeyError"
  | (k', v) :: r => if String.eqb k' k then Ok v else dget k r
  end.

(* d[k] = v on an insertion-ordered dict: an existing key keeps its position *)
Fixpoint sdict_set (d : sdict) (k : string) (v : pyval) : sdict :=
  match d with
  | [] => [(k, v)]
  | (k', v') :: r => if String.eqb k' k then (k', v) :: r else (k', v') :: sdict_set r k v
  end.

(* the dict json builds from the members of a JSON object: a repeated name overwrites *)
Definition sdict_of_pairs (l : list (string * pyval)) : sdict :=
  fold_left (fun d kv => sdict_set d (fst kv) (snd kv)) l [].

Definition sdict_to_py (d : sdict) : pyval := PDict (map (fun kv => (PStr (fst kv), snd kv)) d).

(* ---------------------------------------------------------------- tuple(x), dict(x) *)
(* tuple(x) for the values the hooks can meet *)
Definition py_tuple (v : pyval) : result pyval :=
  match v with
  | PList l | PTuple l => Ok (PTuple l)
  | PDict kvs => Ok (PTuple (map fst kvs))
  | PNone | PBool _ | PNum _ | PComplex _ _ => Err "TypeError"
  | _ => Err ModelScope
  end.

(* list(x) *)
Definition py_list (v : pyval) : result pyval :=
  match v with
  | PList l | PTuple l => Ok (PList l)
  | PDict kvs => Ok (PList (map fst kvs))
  | PNone | PBool _ | PNum _ | PComplex _ _ => Err "TypeError"
  | _ => Err ModelScope
  end.

(* d[k] = v with Python key equality; the first inserted key object stays *)
Fixpoint pdict_set (d : list (pyval * pyval)) (k v : pyval) : list (pyval * pyval) :=
  match d with
  | [] => [(k, v)]
  | (k', v') :: r => if py_eqb k' k then (k', v) :: r else (k', v') :: pdict_set r k v
  end.

(* dict(x): x a dict, or a sequence of 2-element sequences with hashable first elements *)
Fixpoint pdict_of_items (acc : list (pyval * pyval)) (items : list pyval) : result (list (pyval * pyval)) :=
  match items with
  | [] => Ok acc
  | it :: r =>
      match it with
      | PList [k; v] | PTuple [k; v] =>
          if hashable k then pdict_of_items (pdict_set acc k v) r else Err "TypeError"
      | PList _ | PTuple _ => Err "ValueError"      (* dictionary update sequence element has length n; 2 is required *)
      | PNone | PBool _ | PNum _ | PComplex _ _ => Err "TypeError"
      | _ => Err ModelScope
      end
  end.

Definition py_dict (v : pyval) : result pyval :=
  match v with
  | PList l | PTuple l => do d <- pdict_of_items [] l; Ok (PDict d)
  | PDict kvs => Ok (PDict kvs)
  | PNone | PBool _ | PNum _ | PComplex _ _ => Err "TypeError"
  | _ => Err ModelScope
  end.

(* ---------------------------------------------------------------- json.dumps: tree protocol *)
Definition z_to_string (z : Z) : string := NilZero.string_of_int (Z.to_int z).

(* JSON object member names from Python dict keys: str as is; int, bool, None through their JSON text;
   float keys need float repr (text layer): outside the model; anything else: TypeError *)
Definition key_str (k : pyval) : result string :=
  match k with
  | PStr s => Ok s
  | PNum (NInt z) => Ok (z_to_string z)
  | PBool true => Ok "true"
  | PBool false => Ok "false"
  | PNone => Ok "null"
  | PNum (NFloat _ _) => Err ModelScope
  | _ => Err "TypeError"
  end.

(* The fuel counts applications of `default` on one path (Python: bounded by the recursion limit; a
   `default` returning its argument is a "Circular reference" ValueError there).  Four is more than any
   object of the three codecs needs (a result -> its aux list -> a complex number: two). *)
Definition DEFAULT_FUEL : nat := 4.

(* mapM with the function outside the fixpoint, so that nested recursive calls through it are guarded *)
Definition mapR {A B} (f : A -> result B) : list A -> result (list B) :=
  fix go (l : list A) : result (list B) :=
    match l with
    | [] => Ok []
    | x :: xs => do y <- f x; do ys <- go xs; Ok (y :: ys)
    end.

Section Dumps.
  Variable default : pyval -> result pyval.

  Fixpoint dumps_fuel (fuel : nat) : pyval -> result json :=
    fix go (v : pyval) : result json :=
      let member := fun kv : pyval * pyval =>
        let '(k, x) := kv in do s <- key_str k; do j <- go x; Ok (s, j) in
      match v with
      | PNone => Ok JNull
      | PBool b => Ok (JBool b)
      | PNum n => Ok (JNum n)
      | PStr s => Ok (JStr s)
      | PTuple l | PList l => do js <- mapR go l; Ok (JArr js)     (* tuples are arrays: default() never sees them *)
      | PDict kvs => do js <- mapR member kvs; Ok (JObj js)
      | PObj CQuasiDist (PDict kvs :: _) => do js <- mapR member kvs; Ok (JObj js)   (* isinstance(o, dict): encoded natively *)
      | _ => match fuel with
             | O => Err "ValueError"
             | S f => do v' <- default v; dumps_fuel f v'     (* default(o), and its output encoded recursively *)
             end
      end.

  Definition dumps (v : pyval) : result json := dumps_fuel DEFAULT_FUEL v.
End Dumps.

(* ---------------------------------------------------------------- json.loads: tree protocol *)
Section Loads.
  (* object_hook: called bottom-up on every JSON object; whatever it returns replaces the object *)
  Variable hook : sdict -> result pyval.

  Fixpoint loads (j : json) : result pyval :=
    match j with
    | JNull => Ok PNone
    | JBool b => Ok (PBool b)
    | JNum n => Ok (PNum n)
    | JStr s => Ok (PStr s)
    | JArr l => do vs <- mapR loads l; Ok (PList vs)
    | JObj kvs =>
        do ms <- mapR (fun kv : string * json => let '(k, x) := kv in do v <- loads x; Ok (k, v)) kvs;
        hook (sdict_of_pairs ms)
    end.
End Loads.

(* json.loads without a hook *)
Definition no_hook (d : sdict) : result pyval := Ok (sdict_to_py d).

(* ---------------------------------------------------------------- typed views of field values *)
Definition as_str (v : pyval) : result string := match v with PStr s => Ok s | _ => Err ModelScope end.
Definition as_int (v : pyval) : result Z := match v with PNum (NInt z) => Ok z | _ => Err ModelScope end.
Definition as_num (v : pyval) : result num := match v with PNum n => Ok n | _ => Err ModelScope end.
Definition as_tuple (v : pyval) : result (list pyval) := match v with PTuple l => Ok l | _ => Err ModelScope end.
Definition as_list (v : pyval) : result (list pyval) := match v with PList l => Ok l | _ => Err ModelScope end.
Definition as_opt {A} (f : pyval -> result A) (v : pyval) : result (option A) :=
  match v with PNone => Ok None | _ => do x <- f v; Ok (Some x) end.
Definition of_opt {A} (f : A -> pyval) (o : option A) : pyval := match o with None => PNone | Some x => f x end.
Definition PInt (z : Z) : pyval := PNum (NInt z).
