(* C18 — which generated objects the round-trip theorems cover: the typed view of a Python object (inverse of
   the of_* embeddings), the theorem's hypotheses evaluated on it, and the embedding checked to give the object back.
   Used by the harness to measure that the objects it builds through the public constructors satisfy the
   hypotheses of C18_jssp_roundtrip / C18_evqe_roundtrip / C18_result_roundtrip.  Definitions only. *)
From QV Require Export Json.JsonCheck Json.Wf.
Open Scope string_scope.

Definition as_ind_seq (l : list pyval) : result (list ind) := mapM as_ind l.

Definition as_population (v : pyval) : result population :=
  match v with
  | PObj CPopulation [PTuple inds; reps; mem; mship] =>
      do i <- as_ind_seq inds;
      do r <- as_opt (fun x => do l <- as_list x; as_ind_seq l) reps;
      do m <- as_opt (fun x => match x with
                               | PDict kvs => mapM (fun kv : pyval * pyval =>
                                                      do k <- as_ind (fst kv); do l <- as_list (snd kv);
                                                      do zs <- mapM as_int l; Ok (k, zs)) kvs
                               | _ => Err ModelScope
                               end) mem;
      do s <- as_opt (fun x => match x with
                               | PDict kvs => mapM (fun kv : pyval * pyval =>
                                                      do k <- as_int (fst kv); do i <- as_ind (snd kv); Ok (k, i)) kvs
                               | _ => Err ModelScope
                               end) mship;
      Ok (mkPop i r m s)
  | _ => Err ModelScope
  end.

Definition as_scalar (v : pyval) : result scalar :=
  match v with
  | PNone => Ok SNone
  | PNum n => Ok (SNum n)
  | PComplex re im => Ok (SComplex re im)
  | _ => Err ModelScope
  end.

Definition as_quasi (v : pyval) : result quasi :=
  match v with
  | PObj CQuasiDist [PDict kvs; shots; bound; PNum (NInt w)] =>
      do d <- mapM (fun kv : pyval * pyval => do k <- as_int (fst kv); do x <- as_num (snd kv); Ok (k, x)) kvs;
      do s <- as_opt as_num shots; do b <- as_opt as_num bound; Ok (mkQuasi d s b w)
  | _ => Err ModelScope
  end.

Definition as_popeval (v : pyval) : result popeval :=
  match v with
  | PObj CPopEval [pop; PTuple vals; best; PNum bv] =>
      do p <- as_population pop; do vs <- mapM (as_opt as_num) vals; do b <- as_ind best; Ok (mkPopEval p vs b bv)
  | _ => Err ModelScope
  end.

Definition as_auxkey (v : pyval) : result auxkey :=
  match v with PStr s => Ok (AKStr s) | PNum (NInt z) => Ok (AKInt z) | _ => Err ModelScope end.

Definition as_aux (v : pyval) : result aux :=
  match v with
  | PNone => Ok AuxNone
  | PList l => do ss <- mapM as_scalar l; Ok (AuxList ss)
  | PDict kvs => do d <- mapM (fun kv : pyval * pyval => do k <- as_auxkey (fst kv); do s <- as_scalar (snd kv); Ok (k, s)) kvs;
                 Ok (AuxDict d)
  | _ => Err ModelScope
  end.

Definition as_solver_result (v : pyval) : result solver_result :=
  match v with
  | PObj CSolverResult [ev; aux; es; best; evals; gens; hist; qc] =>
      do ev' <- as_scalar ev; do aux' <- as_aux aux; do es' <- as_opt as_quasi es; do best' <- as_opt as_ind best;
      do evals' <- as_opt (fun x => do l <- as_list x; mapM as_int l) evals;
      do gens' <- as_opt as_int gens;
      do hist' <- as_opt (fun x => do l <- as_list x; mapM as_popeval l) hist;
      do qc' <- as_opt (fun x => match x with PCircuit t => Ok t | _ => Err ModelScope end) qc;
      Ok (mkResult ev' aux' es' best' evals' gens' hist' qc')
  | _ => Err ModelScope
  end.

(* typed view exists, embeds back to the very object, and satisfies the theorem's hypotheses *)
Definition covers {A} (view : pyval -> result A) (embed : A -> pyval) (hyp : A -> bool) (x : pyval) : bool :=
  match view x with
  | Ok a => pyval_eqb (embed a) x && hyp a
  | Err _ => false
  end.

Definition covered (k : codec) (x : pyval) : bool :=
  match x with
  | PObj c fields =>
      match c with
      | CMachine => covers as_machine of_machine machine_ok x
      | COperation => covers as_op of_op op_wf x
      | CJob => covers as_job of_job job_wf x
      | CInstance => covers as_instance of_instance wf_instance x
      | CJsspResult =>
          match fields with
          | [i; s] => match as_instance i, as_schedule s with
                      | Ok i', Ok s' => pyval_eqb (of_result i' s') x && wf_instance i' && schedule_wf s' && result_ok i' s'
                      | _, _ => false
                      end
          | _ => false
          end
      | CIdentityGate | CRotationGate | CControlGate | CControlledRotationGate =>
          covers as_gate of_gate (fun _ => true) x
      | CLayer => covers as_layer of_layer layer_wf x
      | CIndividual => covers as_ind of_ind ind_wf x
      | CPopulation => covers as_population of_population pop_wf x
      | CPopEval => covers as_popeval of_popeval popeval_wf x
      | CSolverResult => covers as_solver_result of_solver_result result_wf x
      | _ => false
      end
  | _ => false
  end.

Definition case_covered (c : c18case) : bool :=
  match c with CRound k x _ _ => covered k x | CDecode _ _ _ => false end.
