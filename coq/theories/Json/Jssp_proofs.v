(* C18 — round trip of the job-shop codec (JsspCodec.v). *)
From QV Require Import Json.Protocol_proofs.
Open Scope string_scope.

Local Arguments machine_ok : simpl never.
Local Arguments operation_ok : simpl never.
Local Arguments job_ok : simpl never.
Local Arguments instance_ok : simpl never.
Local Arguments result_ok : simpl never.

Definition D : pyval -> result pyval := fun o => Ok (jssp_default o).

(* ---------------------------------------------------------------- the trees the encoder writes *)
Definition t_tuple (l : list json) : json := JObj [("tuple", JArr l)].
Definition t_machine (m : string) : json := JObj [("machine_name", JStr m)].
Definition t_op (o : operation) : json :=
  JObj [("operation_name", JStr (op_name o)); ("operation_job_name", JStr (op_job o));
        ("operation_machine", t_machine (op_machine o)); ("operation_processing_duration", JNum (NInt (op_dur o)))].
Definition t_job (j : job) : json :=
  JObj [("job_name", JStr (job_name j)); ("job_operations", t_tuple (map t_op (job_ops j)))].
Definition t_instance (i : instance) : json :=
  JObj [("jssp_instance_name", JStr (inst_name i));
        ("jssp_instance_machines", t_tuple (map t_machine (inst_machines i)));
        ("jssp_instance_jobs", t_tuple (map t_job (inst_jobs i)))].
Definition t_psop (p : psop) : json :=
  match snd p with
  | None => JObj [("unscheduled_operation", t_op (fst p))]
  | Some t => JObj [("scheduled_operation", t_op (fst p)); ("scheduled_start_time", JNum (NInt t))]
  end.
Definition t_row (kv : job * list psop) : json := t_tuple [t_job (fst kv); t_tuple (map t_psop (snd kv))].
Definition t_schedule (s : schedule) : json := JObj [("dict", JArr (map t_row s))].
Definition t_result (i : instance) (s : schedule) : json :=
  JObj [("jssp_result_problem_instance", t_instance i); ("jssp_result_schedule", t_schedule s)].

Ltac enc_cbn := unfold PInt, JsspCodec.K, EvqeCodec.K; cbn [mapR member key_str bind fst snd].
Ltac enc :=
  enc_cbn;
  repeat (first [rewrite dumps_dict | rewrite dumps_list | rewrite dumps_tuple | rewrite dumps_str
                | rewrite dumps_num | rewrite dumps_none | rewrite dumps_bool]; enc_cbn).

(* ---------------------------------------------------------------- encoding *)
Lemma enc_machine f m : dumps_fuel D f (jssp_default (of_machine m)) = Ok (t_machine m).
Proof. cbn [jssp_default of_machine]. enc. reflexivity. Qed.

Lemma enc_op f o : dumps_fuel D f (jssp_default (of_op o)) = Ok (t_op o).
Proof. destruct o. simpl. enc. reflexivity. Qed.

Lemma enc_list {A} (of : A -> pyval) (t : A -> json) f l :
  (forall x, dumps_fuel D f (jssp_default (of x)) = Ok (t x)) ->
  mapR (dumps_fuel D f) (map jssp_default (map of l)) = Ok (map t l).
Proof. intros H. rewrite map_map. apply mapR_map. intros x _. apply H. Qed.

Lemma enc_job f j : dumps_fuel D f (jssp_default (of_job j)) = Ok (t_job j).
Proof.
  destruct j. simpl. enc.
  rewrite (enc_list of_op t_op); [|apply enc_op]. reflexivity.
Qed.

Lemma enc_instance f i : dumps_fuel D f (jssp_default (of_instance i)) = Ok (t_instance i).
Proof.
  destruct i. simpl. enc.
  rewrite (enc_list of_machine t_machine); [|apply enc_machine]. cbn [bind]. enc.
  rewrite (enc_list of_job t_job); [|apply enc_job]. reflexivity.
Qed.

Lemma enc_psop f p : dumps_fuel D f (jssp_default (of_psop p)) = Ok (t_psop p).
Proof.
  destruct p as [o [t|]]; unfold of_psop, t_psop; cbn [fst snd jssp_default]; enc; rewrite enc_op; cbn [bind jssp_default]; enc; reflexivity.
Qed.

Lemma enc_schedule f s : dumps_fuel D f (jssp_default (of_schedule s)) = Ok (t_schedule s).
Proof.
  unfold of_schedule. cbn [jssp_default]. enc. rewrite map_map.
  rewrite (mapR_map _ _ t_row); [reflexivity|].
  intros [j row] _. cbn [fst snd]. enc. rewrite enc_job. cbn [bind jssp_default]. enc.
  rewrite (enc_list of_psop t_psop); [|apply enc_psop]. reflexivity.
Qed.

Lemma enc_result f i s : dumps_fuel D f (jssp_default (of_result i s)) = Ok (t_result i s).
Proof.
  unfold of_result. cbn [jssp_default]. enc. rewrite enc_instance. cbn [bind].
  rewrite enc_schedule. reflexivity.
Qed.

(* ---------------------------------------------------------------- decoding *)
Ltac dec_cbn := cbn [mapR lmember loads bind fst snd].

Lemma as_op_of_op o : as_op (of_op o) = Ok o.
Proof. destruct o. reflexivity. Qed.
Lemma as_job_of_job j : as_job (of_job j) = Ok j.
Proof.
  destruct j as [n ops]. unfold of_job, as_job. cbn [job_name job_ops].
  rewrite mapM_map_id; [reflexivity|]. intros; apply as_op_of_op.
Qed.
Lemma as_instance_of_instance i : as_instance (of_instance i) = Ok i.
Proof.
  destruct i as [n ms js]. unfold of_instance, as_instance. cbn [inst_name inst_machines inst_jobs].
  rewrite mapM_map_id; [|reflexivity]. cbn [bind].
  rewrite mapM_map_id; [reflexivity|]. intros; apply as_job_of_job.
Qed.
Lemma as_psop_of_psop p : as_psop (of_psop p) = Ok p.
Proof. destruct p as [o [t|]]; unfold of_psop, as_psop; cbn [fst snd]; rewrite as_op_of_op; reflexivity. Qed.
Lemma as_schedule_of_schedule s : as_schedule (of_schedule s) = Ok s.
Proof.
  unfold of_schedule, as_schedule. apply mapM_map_id. intros [j row] _. cbn [fst snd].
  rewrite as_job_of_job. cbn [bind as_tuple]. rewrite mapM_map_id; [reflexivity|]. intros; apply as_psop_of_psop.
Qed.

Lemma dec_machine m : machine_ok m = true -> loads jssp_hook (t_machine m) = Ok (of_machine m).
Proof. intros H. unfold t_machine. rewrite loads_obj. dec_cbn. cbv -[machine_ok]. rewrite H. reflexivity. Qed.

Lemma dec_op o : operation_ok o = true -> machine_ok (op_machine o) = true -> loads jssp_hook (t_op o) = Ok (of_op o).
Proof.
  intros H Hm. destruct o as [n j m d]. unfold t_op. cbn [op_name op_job op_machine op_dur] in *.
  rewrite loads_obj. dec_cbn. rewrite (dec_machine m Hm). dec_cbn.
  cbv -[operation_ok]. rewrite H. reflexivity.
Qed.

Lemma dec_tuple {A} (t : A -> json) (of : A -> pyval) l :
  (forall x, In x l -> loads jssp_hook (t x) = Ok (of x)) ->
  loads jssp_hook (t_tuple (map t l)) = Ok (PTuple (map of l)).
Proof.
  intros H. unfold t_tuple. rewrite loads_obj. dec_cbn. rewrite ?loads_arr.
  rewrite (mapR_map _ _ of l H). reflexivity.
Qed.

Lemma dec_job j : job_wf j = true -> loads jssp_hook (t_job j) = Ok (of_job j).
Proof.
  intros H. apply andb_true_iff in H as [Hj Ho]. rewrite forallb_forall in Ho.
  unfold t_job. rewrite loads_obj. dec_cbn.
  rewrite (dec_tuple t_op of_op).
  2:{ intros o Hin. specialize (Ho o Hin). apply andb_true_iff in Ho as [H1 H2]. apply dec_op; assumption. }
  dec_cbn. unfold sdict_of_pairs. cbn [fold_left sdict_set fst snd String.eqb Ascii.eqb Bool.eqb].
  unfold jssp_hook.
  cbn [has existsb fst snd String.eqb Ascii.eqb Bool.eqb orb andb len1 length Nat.eqb].
  unfold jssp_parse_job. cbn [dget fst snd String.eqb Ascii.eqb Bool.eqb bind].
  unfold mk_job. change (PObj CJob [PStr (job_name j); PTuple (map of_op (job_ops j))]) with (of_job j).
  rewrite as_job_of_job. cbn [bind]. rewrite Hj. reflexivity.
Qed.

Ltac hook_cbn :=
  unfold sdict_of_pairs; cbn [fold_left sdict_set fst snd String.eqb Ascii.eqb Bool.eqb];
  unfold jssp_hook;
  cbn [has existsb fst snd String.eqb Ascii.eqb Bool.eqb orb andb len1 length Nat.eqb].
Ltac dget_cbn := cbn [dget fst snd String.eqb Ascii.eqb Bool.eqb bind].

Lemma dec_instance i : wf_instance i = true -> loads jssp_hook (t_instance i) = Ok (of_instance i).
Proof.
  intros H. unfold wf_instance in H. apply andb_true_iff in H as [H Hj]. apply andb_true_iff in H as [Hi Hm].
  rewrite forallb_forall in Hm, Hj.
  unfold t_instance. rewrite loads_obj. dec_cbn.
  rewrite (dec_tuple t_machine of_machine).
  2:{ intros m Hin. apply dec_machine. apply Hm. exact Hin. }
  dec_cbn. rewrite (dec_tuple t_job of_job).
  2:{ intros j Hin. apply dec_job. specialize (Hj j Hin). unfold job_wf, op_wf. exact Hj. }
  dec_cbn. hook_cbn. unfold jssp_parse_instance. dget_cbn.
  unfold mk_instance.
  change (PObj CInstance [PStr (inst_name i); PTuple (map of_machine (inst_machines i)); PTuple (map of_job (inst_jobs i))])
    with (of_instance i).
  rewrite as_instance_of_instance. cbn [bind]. rewrite Hi. reflexivity.
Qed.

Lemma dec_psop p : op_wf (fst p) = true -> loads jssp_hook (t_psop p) = Ok (of_psop p).
Proof.
  intros H. apply andb_true_iff in H as [H1 H2]. destruct p as [o [t|]]; unfold t_psop, of_psop; cbn [fst snd] in *;
    rewrite loads_obj; dec_cbn; rewrite (dec_op o H1 H2); dec_cbn; reflexivity.
Qed.

Lemma hashable_of_op o : hashable (of_op o) = true.
Proof. destruct o. reflexivity. Qed.
Lemma hashable_of_job j : hashable (of_job j) = true.
Proof.
  destruct j as [n ops]. unfold of_job. cbn [hashable job_name job_ops forallb]. 
  assert (forallb hashable (map of_op ops) = true) as ->; [|reflexivity].
  induction ops as [|o r IH]; [reflexivity|]. cbn [map forallb]. rewrite hashable_of_op, IH. reflexivity.
Qed.

Definition sched_item (kv : job * list psop) : pyval * pyval := (of_job (fst kv), PTuple (map of_psop (snd kv))).

Lemma dec_schedule s : schedule_wf s = true -> loads jssp_hook (t_schedule s) = Ok (of_schedule s).
Proof.
  intros H. apply andb_true_iff in H as [Hd Hw]. rewrite forallb_forall in Hw.
  unfold t_schedule. rewrite loads_obj. dec_cbn.
  rewrite (mapR_map _ _ (fun kv => item true (sched_item kv))).
  2:{ intros [j row] Hin. specialize (Hw _ Hin). cbn [fst snd] in Hw. apply andb_true_iff in Hw as [Hj Hr].
      rewrite forallb_forall in Hr.
      unfold t_row. cbn [fst snd]. unfold t_tuple at 1. rewrite loads_obj. dec_cbn. rewrite (dec_job j Hj). dec_cbn.
      rewrite (dec_tuple t_psop of_psop).
      2:{ intros p Hp. apply dec_psop. apply Hr. exact Hp. }
      dec_cbn. reflexivity. }
  dec_cbn. hook_cbn. unfold jssp_parse_dict. dget_cbn.
  rewrite <- (map_map sched_item (item true)).
  rewrite py_dict_items.
  - unfold of_schedule. reflexivity.
  - rewrite map_map. cbn [sched_item fst]. apply forallb_forall. intros x Hx. apply in_map_iff in Hx as [kv [<- _]]. apply hashable_of_job.
  - rewrite map_map. exact Hd.
Qed.

Lemma jssp_result_roundtrip_fuel f i s :
  wf_instance i = true -> schedule_wf s = true -> result_ok i s = true ->
  (do t <- dumps_fuel D (S f) (of_result i s); loads jssp_hook t) = Ok (of_result i s).
Proof.
  intros Hi Hs Hr. unfold of_result at 1. rewrite dumps_obj by discriminate.
  unfold D at 1. cbn [bind]. fold (of_result i s). rewrite enc_result. cbn [bind].
  unfold t_result. rewrite loads_obj. dec_cbn. rewrite (dec_instance i Hi). dec_cbn.
  rewrite (dec_schedule s Hs). dec_cbn. hook_cbn. unfold jssp_parse_result. dget_cbn.
  unfold mk_result. rewrite as_instance_of_instance, as_schedule_of_schedule. cbn [bind]. rewrite Hr. reflexivity.
Qed.

(* ---------------------------------------------------------------- the round trip *)
Lemma jssp_top c l t :
  c <> CQuasiDist -> (forall f, dumps_fuel D f (jssp_default (PObj c l)) = Ok t) ->
  loads jssp_hook t = Ok (PObj c l) -> jssp_roundtrip (PObj c l) = Ok (PObj c l).
Proof.
  intros Hc He Hd. unfold jssp_roundtrip, jssp_encode, dumps, DEFAULT_FUEL.
  change (fun o => Ok (jssp_default o)) with D. rewrite dumps_obj by exact Hc.
  unfold D at 1. cbn [bind]. rewrite He. cbn [bind]. exact Hd.
Qed.

Lemma jssp_roundtrip_all :
  (forall m, machine_ok m = true -> jssp_roundtrip (of_machine m) = Ok (of_machine m))
  /\ (forall o, op_wf o = true -> jssp_roundtrip (of_op o) = Ok (of_op o))
  /\ (forall j, job_wf j = true -> jssp_roundtrip (of_job j) = Ok (of_job j))
  /\ (forall i, wf_instance i = true -> jssp_roundtrip (of_instance i) = Ok (of_instance i))
  /\ (forall i s, wf_instance i = true -> schedule_wf s = true -> result_ok i s = true ->
        jssp_roundtrip (of_result i s) = Ok (of_result i s)).
Proof.
  repeat split.
  - intros m H. apply (jssp_top _ _ (t_machine m)); [discriminate | intros; apply enc_machine | apply dec_machine; exact H].
  - intros o H. apply andb_true_iff in H as [H1 H2].
    apply (jssp_top _ _ (t_op o)); [discriminate | intros; apply enc_op | apply dec_op; assumption].
  - intros j H. apply (jssp_top _ _ (t_job j)); [discriminate | intros; apply enc_job | apply dec_job; exact H].
  - intros i H. apply (jssp_top _ _ (t_instance i)); [discriminate | intros; apply enc_instance | apply dec_instance; exact H].
  - intros i s Hi Hs Hr. unfold jssp_roundtrip, jssp_encode, dumps, DEFAULT_FUEL.
    change (fun o => Ok (jssp_default o)) with D. apply jssp_result_roundtrip_fuel; assumption.
Qed.

(* non-vacuity: a well-formed instance with a result that is invalid (overlap) and has an unscheduled operation *)
Definition ex_o1 := mkOp "tuple" "j0" "m0" 2%Z.
Definition ex_o2 := mkOp "b" "j0" "dict" 1%Z.
Definition ex_o3 := mkOp "a" "type" "m0" 3%Z.
Definition ex_j0 := mkJob "j0" [ex_o1; ex_o2].
Definition ex_j1 := mkJob "type" [ex_o3].
Definition ex_inst := mkInst "values" ["m0"; "dict"] [ex_j0; ex_j1].
Definition ex_sched : schedule := [(ex_j1, [(ex_o3, Some 0%Z)]); (ex_j0, [(ex_o1, Some 0%Z); (ex_o2, None)])].
Lemma jssp_example : wf_instance ex_inst = true /\ schedule_wf ex_sched = true /\ result_ok ex_inst ex_sched = true.
Proof. vm_compute. repeat split. Qed.
