(* C18 — round trip of the solver-result codec (ResultCodec.v, HEAD's behaviour: head_flags). *)
From QV Require Import Json.Protocol_proofs Json.Evqe_proofs Json.Codec_proofs.
Open Scope string_scope.
Open Scope list_scope.

Local Arguments make_layer : simpl never.
Local Arguments make_individual : simpl never.
Local Arguments individual_is_valid : simpl never.

Definition RD : pyval -> result pyval := result_default head_flags.
Definition RH : sdict -> result pyval := result_hook head_flags.

(* ---------------------------------------------------------------- what default() returns, and the trees *)
Definition n_complex (re im : num) : pyval :=
  PDict [(K "complex_number_real_value", PNum (to_float re)); (K "complex_number_imaginary_value", PNum (to_float im))].
Definition t_complex (re im : num) : json :=
  JObj [("complex_number_real_value", JNum (to_float re)); ("complex_number_imaginary_value", JNum (to_float im))].
Definition t_scalar (s : scalar) : json :=
  match s with SNone => JNull | SNum n => JNum n | SComplex re im => t_complex re im end.
Definition n_eig (s : scalar) : pyval :=
  match s with SComplex re im => n_complex re im | _ => of_scalar s end.

Definition quasi_kv (kv : Z * num) : pyval * pyval := (PInt (fst kv), PNum (snd kv)).
Definition n_quasi (q : quasi) : pyval :=
  PDict [(K "quasidistribution_data", PList (map (fun kv => item false (quasi_kv kv)) (q_data q)));
         (K "quasidistribution_shots", of_opt PNum (q_shots q));
         (K "quasidistribution_stdev_bound", of_opt PNum (q_bound q));
         (K "quasidistribution_num_bits", match q_data q with [] => PNone | _ => PInt (q_width q) end)].
Definition t_quasi (q : quasi) : json :=
  JObj [("quasidistribution_data", JArr (map (fun kv => JArr [JInt (fst kv); JNum (snd kv)]) (q_data q)));
        ("quasidistribution_shots", t_opt JNum (q_shots q));
        ("quasidistribution_stdev_bound", t_opt JNum (q_bound q));
        ("quasidistribution_num_bits", match q_data q with [] => JNull | _ => JInt (q_width q) end)].

Definition n_circuit (tok : string) : pyval := PDict [(K "qiskit_quantum_circuit", PStr tok)].
Definition t_circuit (tok : string) : json := JObj [("qiskit_quantum_circuit", JStr tok)].

Definition n_popeval (e : popeval) : pyval :=
  PDict [(K "base_population_evaluation_population", n_pop (pe_population e));
         (K "base_population_evaluation_expectation_values", PList (map (of_opt PNum) (pe_values e)));
         (K "base_population_evaluation_best_individual", n_ind (pe_best e));
         (K "base_population_evaluation_best_expectation_value", PNum (pe_best_value e))].
Definition t_popeval (e : popeval) : json :=
  JObj [("base_population_evaluation_population", t_pop (pe_population e));
        ("base_population_evaluation_expectation_values", JArr (map (t_opt JNum) (pe_values e)));
        ("base_population_evaluation_best_individual", t_ind (pe_best e));
        ("base_population_evaluation_best_expectation_value", JNum (pe_best_value e))].

Definition aux_kv (kv : auxkey * scalar) : pyval * pyval := (of_auxkey (fst kv), of_scalar (snd kv)).
Definition t_auxkey (k : auxkey) : json := match k with AKStr s => JStr s | AKInt z => JInt z end.
(* the aux wrapper still holds the raw values: complex numbers in it go through default() one level deeper *)
Definition n_aux (a : aux) : pyval :=
  match a with
  | AuxNone => PNone
  | AuxList l => PDict [(K "type", K "list"); (K "values", PList (map of_scalar l))]
  | AuxDict l => PDict [(K "type", K "dict"); (K "values", PList (map (fun kv => item false (aux_kv kv)) l))]
  end.
Definition t_aux (a : aux) : json :=
  match a with
  | AuxNone => JNull
  | AuxList l => JObj [("type", JStr "list"); ("values", JArr (map t_scalar l))]
  | AuxDict l => JObj [("type", JStr "dict"); ("values", JArr (map (fun kv => JArr [t_auxkey (fst kv); t_scalar (snd kv)]) l))]
  end.

Definition n_result (r : solver_result) : pyval :=
  PDict [(K "evolving_ansatz_result_eigenvalue", n_eig (r_eigenvalue r));
         (K "evolving_ansatz_result_aux_operators_evaluated", n_aux (r_aux r));
         (K "evolving_ansatz_result_eigenstate", n_opt n_quasi (r_eigenstate r));
         (K "evolving_ansatz_result_best_individual", n_opt n_ind (r_best r));
         (K "evolving_ansatz_result_circuit_evaluations", of_opt (fun l => PList (map PInt l)) (r_evaluations r));
         (K "evolving_ansatz_result_generations", of_opt PInt (r_generations r));
         (K "evolving_ansatz_population_evaluation_results", n_opt (fun l => PList (map n_popeval l)) (r_history r));
         (K "evolving_ansatz_population_initial_state_circuit", n_opt n_circuit (r_circuit r))].
Definition t_result (r : solver_result) : json :=
  JObj [("evolving_ansatz_result_eigenvalue", t_scalar (r_eigenvalue r));
        ("evolving_ansatz_result_aux_operators_evaluated", t_aux (r_aux r));
        ("evolving_ansatz_result_eigenstate", t_opt t_quasi (r_eigenstate r));
        ("evolving_ansatz_result_best_individual", t_opt t_ind (r_best r));
        ("evolving_ansatz_result_circuit_evaluations", t_opt (fun l => JArr (map JInt l)) (r_evaluations r));
        ("evolving_ansatz_result_generations", t_opt JInt (r_generations r));
        ("evolving_ansatz_population_evaluation_results", t_opt (fun l => JArr (map t_popeval l)) (r_history r));
        ("evolving_ansatz_population_initial_state_circuit", t_opt t_circuit (r_circuit r))].

(* ---------------------------------------------------------------- default() *)
Lemma RD_ind i : RD (of_ind i) = Ok (n_ind i).
Proof. replace (RD (of_ind i)) with (evqe_default (of_ind i)) by (destruct i; reflexivity). apply evqe_default_ind. Qed.
Lemma RD_pop p : RD (of_population p) = Ok (n_pop p).
Proof. replace (RD (of_population p)) with (evqe_default (of_population p)) by (destruct p; reflexivity). apply evqe_default_pop. Qed.
Lemma RD_complex re im : RD (PComplex re im) = Ok (n_complex re im).
Proof. reflexivity. Qed.
(* ---- bitstrings *)
Definition bstr (k : Z) : string := match bin_str k with Ok b => b | Err _ => "" end.

Lemma bin_str_bstr k : (0 <=? k)%Z = true -> bin_str k = Ok (bstr k).
Proof. unfold bstr. destruct k; [reflexivity|reflexivity|discriminate]. Qed.

Lemma length_append a b : String.length (a ++ b)%string = (String.length a + String.length b)%nat.
Proof. induction a as [|c a IH]; simpl; [reflexivity|]. rewrite IH. reflexivity. Qed.
Lemma length_zeros n : String.length (zeros n) = n.
Proof. induction n as [|n IH]; simpl; [reflexivity|]. rewrite IH. reflexivity. Qed.

Lemma slen_zfill w b : (slen b <= w)%Z -> slen (zfill w b) = w.
Proof. intros H. unfold zfill, slen in *. rewrite length_append, length_zeros. lia. Qed.

Lemma parse_from_app acc a b :
  parse_bits_from acc (a ++ b)%string = do x <- parse_bits_from acc a; parse_bits_from x b.
Proof.
  revert acc. induction a as [|c a IH]; intros acc; simpl; [reflexivity|].
  destruct (bit_of c); [apply IH|reflexivity].
Qed.
Lemma parse_from_zeros n : parse_bits_from 0 (zeros n) = Ok 0%Z.
Proof. induction n as [|n IH]; [reflexivity|]. simpl. exact IH. Qed.
Lemma parse_from_pos p : parse_bits_from 0 (pos_bin p) = Ok (Zpos p).
Proof.
  induction p as [p IH|p IH|].
  - cbn [pos_bin]. rewrite parse_from_app, IH. reflexivity.
  - cbn [pos_bin]. rewrite parse_from_app, IH. reflexivity.
  - reflexivity.
Qed.
Lemma bstr_nonempty k : bstr k <> EmptyString -> True. Proof. trivial. Qed.

Lemma parse_zfill w k : (0 <=? k)%Z = true -> parse_bits (zfill w (bstr k)) = Ok k.
Proof.
  intros Hk. assert (E : parse_bits_from 0 (zfill w (bstr k)) = Ok k).
  { unfold zfill. rewrite parse_from_app, parse_from_zeros. cbn [bind].
    destruct k; [reflexivity|apply parse_from_pos|discriminate]. }
  unfold parse_bits. destruct (zfill w (bstr k)) eqn:Z0; [|exact E].
  exfalso. assert (L : String.length (zfill w (bstr k)) = 0%nat) by (rewrite Z0; reflexivity).
  unfold zfill in L. rewrite length_append in L.
  assert (String.length (bstr k) <> 0)%nat; [|lia].
  destruct k as [|p|p]; [unfold bstr; simpl; lia| |discriminate Hk].
  unfold bstr. cbn [bin_str]. destruct p; cbn [pos_bin]; rewrite ?length_append; simpl; lia.
Qed.

Definition wf_key (w : Z) (kv : Z * num) : bool := (0 <=? fst kv)%Z && fits w (fst kv).

Lemma fits_slen w k : (0 <=? k)%Z = true -> fits w k = true -> (slen (bstr k) <= w)%Z.
Proof. intros Hk. unfold fits. rewrite (bin_str_bstr k Hk). intros H. apply Z.leb_le. exact H. Qed.

Lemma binary_keys_wf w data :
  forallb (wf_key w) data = true ->
  quasi_binary_keys (map quasi_kv data) w = Ok (map (fun kv => zfill w (bstr (fst kv))) data).
Proof.
  intros H. unfold quasi_binary_keys. apply mapM_map. intros [k v] Hin. rewrite forallb_forall in H.
  specialize (H _ Hin). apply andb_true_iff in H as [Hk _]. cbn [fst] in *.
  unfold key_nat, quasi_kv, PInt. cbn [fst]. replace (k <? 0)%Z with false by (apply Z.leb_le in Hk; symmetry; apply Z.ltb_ge; exact Hk).
  cbn [bind]. rewrite (bin_str_bstr k Hk). reflexivity.
Qed.

Lemma quasi_wf_keys q : quasi_wf q = true ->
  match q_data q with [] => q_width q = 0%Z | _ => forallb (wf_key (q_width q)) (q_data q) = true end.
Proof.
  unfold quasi_wf. intros H. apply andb_true_iff in H as [_ H]. destruct (q_data q); [apply Z.eqb_eq; exact H|exact H].
Qed.

Lemma RD_quasi q : quasi_wf q = true -> RD (of_quasi q) = Ok (n_quasi q).
Proof.
  intros Hw. pose proof (quasi_wf_keys q Hw) as Hk.
  destruct q as [data shots bound w]. unfold of_quasi, n_quasi, RD in *. cbn [q_data q_shots q_bound q_width] in *.
  cbn [result_default is_evqe_serializable is_evqe_type legacy_width head_flags].
  change (as_int (PInt w)) with (Ok w : result Z). cbn [bind].
  change (fun kv : Z * num => (PInt (fst kv), PNum (snd kv))) with quasi_kv.
  destruct data as [|kv0 r].
  - reflexivity.
  - rewrite (binary_keys_wf w _ Hk). cbn [bind map app]. rewrite map_map.
    cbn [forallb] in Hk. apply andb_true_iff in Hk as [H0 _]. apply andb_true_iff in H0 as [H0 H1].
    rewrite (slen_zfill w _ (fits_slen w _ H0 H1)). reflexivity.
Qed.
Lemma RD_popeval e : RD (of_popeval e) = Ok (n_popeval e).
Proof.
  destruct e as [p vs b bv]. unfold of_popeval, n_popeval. cbn [pe_population pe_values pe_best pe_best_value].
  unfold RD. cbn [result_default is_evqe_serializable is_evqe_type].
  fold RD. rewrite RD_pop. cbn [bind py_list]. rewrite RD_ind. reflexivity.
Qed.

Lemma RD_opt {A} (of : A -> pyval) (n : A -> pyval) o :
  (forall x, o = Some x -> RD (of x) = Ok (n x)) -> RD (of_opt of o) = Ok (n_opt n o).
Proof. intros Hx. destruct o; cbn [of_opt n_opt]; [apply Hx; reflexivity|reflexivity]. Qed.

Lemma RD_result r : opt_wf quasi_wf (r_eigenstate r) = true -> RD (of_solver_result r) = Ok (n_result r).
Proof.
  intros Hq.   destruct r as [ev aux es best evals gens hist qc]. unfold of_solver_result, n_result.
  cbn [r_eigenvalue r_aux r_eigenstate r_best r_evaluations r_generations r_history r_circuit].
  unfold RD. cbn [result_default is_evqe_serializable is_evqe_type]. fold RD.
  assert (Eev : match of_scalar ev with PComplex _ _ => RD (of_scalar ev) | _ => Ok (of_scalar ev) end = Ok (n_eig ev)).
  { destruct ev; reflexivity. }
  rewrite Eev. cbn [bind].
  assert (Eaux : match of_aux aux with
                 | PList l => do vals <- (if legacy_aux head_flags then mapR RD l else Ok l);
                              Ok (PDict [(K "type", K "list"); (K "values", PList vals)])
                 | PDict kvs | PObj CQuasiDist (PDict kvs :: _) =>
                     do vals <- (if legacy_aux head_flags
                                 then mapR (fun kv : pyval * pyval => let '(k, v) := kv in do y <- RD v; Ok (PList [k; y])) kvs
                                 else Ok (map (fun kv => PList [fst kv; snd kv]) kvs));
                     Ok (PDict [(K "type", K "dict"); (K "values", PList vals)])
                 | _ => Ok PNone
                 end = Ok (n_aux aux)).
  { destruct aux as [|l|l]; cbn [of_aux n_aux legacy_aux head_flags bind]; [reflexivity|reflexivity|].
    rewrite map_map. reflexivity. }
  rewrite Eaux. cbn [bind].
  assert (Eh : match of_opt (fun l => PList (map of_popeval l)) hist with
               | PList l => do hs <- mapR RD l; Ok (PList hs)
               | _ => Ok PNone
               end = Ok (n_opt (fun l => PList (map n_popeval l)) hist)).
  { destruct hist as [l|]; cbn [of_opt n_opt]; [|reflexivity].
    rewrite (mapR_map _ _ n_popeval); [reflexivity|]. intros; apply RD_popeval. }
  rewrite Eh. cbn [bind].
  rewrite (RD_opt of_quasi n_quasi); [|intros q E; subst es; apply RD_quasi; exact Hq]. cbn [bind].
  rewrite (RD_opt of_ind n_ind); [|intros; apply RD_ind]. cbn [bind].
  rewrite (RD_opt PCircuit n_circuit); [|reflexivity]. reflexivity.
Qed.

(* ---------------------------------------------------------------- encoding of what default() returned *)
Ltac enc_cbn := unfold PInt, JInt, EvqeCodec.K; cbn [mapR member key_str bind fst snd].
Ltac enc :=
  enc_cbn;
  repeat (first [rewrite dumps_dict | rewrite dumps_list | rewrite dumps_tuple | rewrite dumps_str
                | rewrite dumps_num | rewrite dumps_none | rewrite dumps_bool]; enc_cbn).

Section Native.
  Variable d : pyval -> result pyval.
  Variable f : nat.

  Lemma nat_complex re im : dumps_fuel d f (n_complex re im) = Ok (t_complex re im).
  Proof. unfold n_complex, t_complex. enc. reflexivity. Qed.
  Lemma nat_circuit t : dumps_fuel d f (n_circuit t) = Ok (t_circuit t).
  Proof. unfold n_circuit, t_circuit. enc. reflexivity. Qed.
  Lemma nat_optnum o : dumps_fuel d f (of_opt PNum o) = Ok (t_opt JNum o).
  Proof. destruct o; cbn [of_opt t_opt]; [apply dumps_num|apply dumps_none]. Qed.
  Lemma nat_quasi q : dumps_fuel d f (n_quasi q) = Ok (t_quasi q).
  Proof.
    unfold n_quasi, t_quasi. rewrite dumps_dict. unfold EvqeCodec.K. cbn [mapR member key_str bind].
    rewrite (nat_list d f (fun kv => item false (quasi_kv kv)) (fun kv => JArr [JInt (fst kv); JNum (snd kv)])).
    2:{ intros [k v]. unfold item, quasi_kv. cbn [fst snd]. rewrite dumps_list. cbn [mapR]. rewrite nat_int, nat_num. reflexivity. }
    cbn [bind]. rewrite !nat_optnum. cbn [bind].
    assert (E : dumps_fuel d f (match q_data q with [] => PNone | _ => PInt (q_width q) end)
                = Ok (match q_data q with [] => JNull | _ => JInt (q_width q) end)).
    { destruct (q_data q); [apply dumps_none|apply nat_int]. }
    rewrite E. reflexivity.
  Qed.
  Lemma nat_popeval e : dumps_fuel d f (n_popeval e) = Ok (t_popeval e).
  Proof.
    unfold n_popeval, t_popeval. rewrite dumps_dict. unfold EvqeCodec.K. cbn [mapR member key_str bind].
    rewrite nat_pop. cbn [bind]. rewrite (nat_list d f (of_opt PNum) (t_opt JNum)); [|apply nat_optnum]. cbn [bind].
    rewrite nat_ind. cbn [bind]. rewrite dumps_num. reflexivity.
  Qed.
End Native.

Lemma enc_scalar f s : dumps_fuel RD (S f) (of_scalar s) = Ok (t_scalar s).
Proof.
  destruct s as [|n|re im]; cbn [of_scalar t_scalar]; [apply dumps_none|apply dumps_num|].
  rewrite dumps_complex. rewrite RD_complex. cbn [bind]. apply nat_complex.
Qed.

Lemma enc_aux f a : dumps_fuel RD (S f) (n_aux a) = Ok (t_aux a).
Proof.
  destruct a as [|l|l]; cbn [n_aux t_aux]; [apply dumps_none| |].
  - rewrite dumps_dict. unfold EvqeCodec.K. cbn [mapR member key_str bind]. rewrite dumps_str. cbn [bind].
    rewrite dumps_list. rewrite (mapR_map _ _ t_scalar); [reflexivity|]. intros; apply enc_scalar.
  - rewrite dumps_dict. unfold EvqeCodec.K. cbn [mapR member key_str bind]. rewrite dumps_str. cbn [bind].
    rewrite dumps_list. rewrite (mapR_map _ _ (fun kv => JArr [t_auxkey (fst kv); t_scalar (snd kv)])); [reflexivity|].
    intros [k v] _. unfold item, aux_kv. cbn [fst snd]. rewrite dumps_list. cbn [mapR]. rewrite enc_scalar.
    destruct k; cbn [of_auxkey t_auxkey]; [rewrite dumps_str|unfold PInt, JInt; rewrite dumps_num]; reflexivity.
Qed.

Lemma enc_result f r : dumps_fuel RD (S f) (n_result r) = Ok (t_result r).
Proof.
  unfold n_result, t_result. rewrite dumps_dict. unfold EvqeCodec.K. cbn [mapR member key_str bind].
  assert (Eev : dumps_fuel RD (S f) (n_eig (r_eigenvalue r)) = Ok (t_scalar (r_eigenvalue r))).
  { destruct (r_eigenvalue r); cbn [n_eig of_scalar t_scalar]; [apply dumps_none|apply dumps_num|apply nat_complex]. }
  rewrite Eev. cbn [bind]. rewrite enc_aux. cbn [bind].
  rewrite (nat_opt RD (S f) n_quasi t_quasi); [|apply nat_quasi]. cbn [bind].
  rewrite (nat_opt RD (S f) n_ind t_ind); [|apply nat_ind]. cbn [bind].
  assert (Ee : dumps_fuel RD (S f) (of_opt (fun l => PList (map PInt l)) (r_evaluations r))
               = Ok (t_opt (fun l => JArr (map JInt l)) (r_evaluations r))).
  { destruct (r_evaluations r); cbn [of_opt t_opt]; [|apply dumps_none]. apply nat_list. apply nat_int. }
  rewrite Ee. cbn [bind].
  assert (Eg : dumps_fuel RD (S f) (of_opt PInt (r_generations r)) = Ok (t_opt JInt (r_generations r))).
  { destruct (r_generations r); cbn [of_opt t_opt]; [apply nat_int|apply dumps_none]. }
  rewrite Eg. cbn [bind].
  rewrite (nat_opt RD (S f) (fun l => PList (map n_popeval l)) (fun l => JArr (map t_popeval l))); [|intros; apply nat_list; apply nat_popeval].
  cbn [bind]. rewrite (nat_opt RD (S f) n_circuit t_circuit); [|apply nat_circuit]. reflexivity.
Qed.

(* ---------------------------------------------------------------- decoding *)
Ltac dec_cbn := unfold JInt; cbn [mapR lmember loads bind fst snd].
Ltac pairs_cbn := unfold sdict_of_pairs; cbn [fold_left sdict_set fst snd String.eqb Ascii.eqb Bool.eqb].
Ltac has_cbn := cbn [has existsb fst snd String.eqb Ascii.eqb Bool.eqb orb andb negb legacy_width head_flags].
Ltac dget_cbn := cbn [dget fst snd String.eqb Ascii.eqb Bool.eqb bind].

Lemma any_key_in_app a b d : any_key_in (a ++ b) d = any_key_in a d || any_key_in b d.
Proof.
  unfold any_key_in. induction d as [|[k v] r IH]; [reflexivity|]. cbn [existsb fst].
  rewrite IH. unfold mem_str. rewrite existsb_app.
  destruct (existsb (String.eqb k) a), (existsb (String.eqb k) b),
    (existsb (fun kv : string * pyval => existsb (String.eqb (fst kv)) a) r),
    (existsb (fun kv : string * pyval => existsb (String.eqb (fst kv)) b) r); reflexivity.
Qed.

Lemma HL_result d : any_key_in layer_identifying_keys d = true -> RH d = layer_hook d.
Proof.
  intros E. unfold RH, result_hook, evqe_identifying_keys. rewrite any_key_in_app, E, orb_true_r. apply HL_evqe. exact E.
Qed.
Lemma HE_result d : any_key_in layer_identifying_keys d = false -> any_key_in evqe_own_keys d = true -> RH d = evqe_hook d.
Proof. intros E1 E2. unfold RH, result_hook, evqe_identifying_keys. rewrite any_key_in_app, E2. reflexivity. Qed.

Definition dec_ind_R := dec_ind RH HL_result HE_result.
Definition dec_pop_R := dec_pop RH HL_result HE_result.

Lemma to_float_float n : is_float n = true -> to_float n = n.
Proof. destruct n; [discriminate|reflexivity]. Qed.

(* a dict the hook does not recognise *)
Ltac rh_cbn :=
  unfold RH, result_hook;
  replace (any_key_in evqe_identifying_keys _) with false by reflexivity;
  has_cbn.

Lemma dec_scalar s : scalar_wf s = true -> loads RH (t_scalar s) = Ok (of_scalar s).
Proof.
  intros Hw. destruct s as [|n|re im]; cbn [t_scalar of_scalar]; [reflexivity|reflexivity|].
  cbn [scalar_wf] in Hw. apply andb_true_iff in Hw as [H1 H2].
  unfold t_complex. rewrite loads_obj. dec_cbn. pairs_cbn. rh_cbn.
  unfold parse_complex_number. dget_cbn. unfold mk_complex. cbn [as_num bind].
  rewrite !(to_float_float re H1), !(to_float_float im H2). reflexivity.
Qed.

Lemma dec_optnum o : loads RH (t_opt JNum o) = Ok (of_opt PNum o).
Proof. destruct o; reflexivity. Qed.

Lemma fold_width w (data : list (Z * num)) :
  (0 <= w)%Z -> forallb (wf_key w) data = true -> data <> [] ->
  fold_right (fun s acc => Z.max (slen s) acc) 0%Z (map (fun kv => zfill w (bstr (fst kv))) data) = w.
Proof.
  intros Hw0 H Hne. induction data as [|kv r IH]; [contradiction|].
  cbn [map fold_right forallb] in *. apply andb_true_iff in H as [H0 Hr]. apply andb_true_iff in H0 as [Hk Hf].
  rewrite (slen_zfill w _ (fits_slen w _ Hk Hf)).
  destruct r as [|kv' r']; [cbn; lia|]. rewrite IH; [lia|exact Hr|discriminate].
Qed.

Lemma dec_quasi q : quasi_wf q = true -> loads RH (t_quasi q) = Ok (of_quasi q).
Proof.
  intros Hw. pose proof (quasi_wf_keys q Hw) as Hk.
  unfold quasi_wf in Hw. apply andb_true_iff in Hw as [Hd _].
  unfold t_quasi. rewrite loads_obj. cbn [mapR lmember bind].
  rewrite (dec_list RH (fun kv => JArr [JInt (fst kv); JNum (snd kv)]) (fun kv => item false (quasi_kv kv))); [|reflexivity].
  cbn [bind]. rewrite !dec_optnum. cbn [bind].
  assert (En : loads RH (match q_data q with [] => JNull | _ => JInt (q_width q) end)
               = Ok (match q_data q with [] => PNone | _ => PInt (q_width q) end)) by (destruct (q_data q); reflexivity).
  rewrite En. cbn [bind]. pairs_cbn. rh_cbn.
  unfold parse_quasidistribution. dget_cbn.
  rewrite <- (map_map quasi_kv (item false)). rewrite py_dict_items;
    [|rewrite map_map; apply forallb_forall; intros x Hx; apply in_map_iff in Hx as [kv [<- _]]; reflexivity|rewrite map_map; exact Hd].
  cbn [bind legacy_width head_flags]. unfold dget_or_none. dget_cbn.
  destruct q as [data shots bound w]. cbn [q_data q_shots q_bound q_width] in *.
  destruct data as [|kv0 r].
  - subst w. reflexivity.
  - pose proof Hk as Hk0. cbn [forallb] in Hk0. apply andb_true_iff in Hk0 as [H0 _]. apply andb_true_iff in H0 as [H0k H0f].
    assert (Hw0 : (0 <= w)%Z) by (pose proof (fits_slen w _ H0k H0f); unfold slen in *; lia).
    unfold PInt at 1. cbn [format_keys].
    replace (w <? 0)%Z with false by (symmetry; apply Z.ltb_ge; exact Hw0).
    rewrite (mapM_map _ quasi_kv (fun kv => (PStr (zfill w (bstr (fst kv))), PNum (snd kv)))).
    2:{ intros [k v] Hin. rewrite forallb_forall in Hk. specialize (Hk _ Hin). apply andb_true_iff in Hk as [Hkk _]. cbn [fst] in Hkk.
        unfold key_nat, quasi_kv, PInt. cbn [fst snd].
        replace (k <? 0)%Z with false by (apply Z.leb_le in Hkk; symmetry; apply Z.ltb_ge; exact Hkk).
        cbn [bind]. rewrite (bin_str_bstr k Hkk). reflexivity. }
    cbn [bind]. unfold mk_quasi. cbn [map]. cbn [fst snd].
    unfold is_bits. rewrite (parse_zfill w _ H0k).
    change ((PStr (zfill w (bstr (fst kv0))), PNum (snd kv0)) :: map (fun kv : Z * num => (PStr (zfill w (bstr (fst kv))), PNum (snd kv))) r)
      with (map (fun kv : Z * num => (PStr (zfill w (bstr (fst kv))), PNum (snd kv))) (kv0 :: r)).
    rewrite (mapM_map _ _ (fun kv : Z * num => zfill w (bstr (fst kv)))); [|reflexivity]. cbn [bind].
    rewrite (mapM_map _ _ quasi_kv).
    2:{ intros [k v] Hin. rewrite forallb_forall in Hk. specialize (Hk _ Hin). apply andb_true_iff in Hk as [Hkk _]. cbn [fst snd] in *.
        rewrite (parse_zfill w k Hkk). reflexivity. }
    cbn [bind]. rewrite (fold_width w (kv0 :: r) Hw0 Hk); [|discriminate]. reflexivity.
Qed.

Lemma dec_circuit t : loads RH (t_circuit t) = Ok (PCircuit t).
Proof. reflexivity. Qed.

Lemma dec_popeval e : popeval_wf e = true -> loads RH (t_popeval e) = Ok (of_popeval e).
Proof.
  intros Hw. apply andb_true_iff in Hw as [Hp Hb].
  unfold t_popeval. rewrite loads_obj. cbn [mapR lmember bind].
  rewrite (dec_pop_R _ Hp). cbn [bind].
  rewrite (dec_list RH (t_opt JNum) (of_opt PNum)); [|intros; apply dec_optnum]. cbn [bind].
  rewrite (dec_ind_R _ Hb). dec_cbn. pairs_cbn. rh_cbn.
  unfold parse_base_population_evaluation. dget_cbn. reflexivity.
Qed.

Lemma dec_aux a : aux_wf a = true -> loads RH (t_aux a) = Ok (n_aux a).
Proof.
  intros Hw. destruct a as [|l|l]; cbn [t_aux n_aux aux_wf] in *; [reflexivity| |].
  - rewrite forallb_forall in Hw. rewrite loads_obj. cbn [mapR lmember bind loads].
    rewrite (mapR_map _ _ of_scalar); [|intros s Hs; apply dec_scalar; apply Hw; exact Hs].
    cbn [bind]. pairs_cbn. rh_cbn. reflexivity.
  - apply andb_true_iff in Hw as [Hw _]. rewrite forallb_forall in Hw.
    rewrite loads_obj. cbn [mapR lmember bind loads].
    rewrite (mapR_map _ _ (fun kv => item false (aux_kv kv))).
    2:{ intros [k v] Hin. cbn [fst snd]. rewrite loads_arr. cbn [mapR].
        assert (Ek : loads RH (t_auxkey k) = Ok (of_auxkey k)) by (destruct k; reflexivity).
        rewrite Ek. cbn [bind]. rewrite dec_scalar; [reflexivity|]. apply Hw. apply in_map_iff. exists (k, v). split; [reflexivity|exact Hin]. }
    cbn [bind]. pairs_cbn. rh_cbn. reflexivity.
Qed.

Lemma unwrap_aux_n_aux a : aux_wf a = true -> unwrap_aux (n_aux a) = Ok (of_aux a).
Proof.
  intros Hw. destruct a as [|l|l]; cbn [n_aux of_aux aux_wf] in *; [reflexivity|reflexivity|].
  apply andb_true_iff in Hw as [_ Hk].
  unfold unwrap_aux, EvqeCodec.K.
  cbn [pdict_get py_eqb String.eqb Ascii.eqb Bool.eqb bind].
  rewrite <- (map_map aux_kv (item false)). rewrite py_dict_items; [reflexivity| |rewrite map_map; exact Hk].
  rewrite map_map. apply forallb_forall. intros x Hx. apply in_map_iff in Hx as [[k v] [<- _]]. destruct k; reflexivity.
Qed.

Lemma dec_result r : result_wf r = true -> loads RH (t_result r) = Ok (of_solver_result r).
Proof.
  intros Hw. unfold result_wf in Hw.
  apply andb_true_iff in Hw as [Hw Hh]. apply andb_true_iff in Hw as [Hw Hb]. apply andb_true_iff in Hw as [Hw Hq].
  apply andb_true_iff in Hw as [He Ha].
  unfold t_result. rewrite loads_obj. cbn [mapR lmember bind].
  rewrite (dec_scalar _ He). cbn [bind]. rewrite (dec_aux _ Ha). cbn [bind].
  rewrite (dec_opt RH t_quasi of_quasi).
  2:{ intros q E. rewrite E in Hq. apply dec_quasi. exact Hq. }
  cbn [bind]. rewrite (dec_opt RH t_ind of_ind).
  2:{ intros i E. rewrite E in Hb. apply dec_ind_R. exact Hb. }
  cbn [bind]. rewrite (dec_opt RH (fun l => JArr (map JInt l)) (fun l => PList (map PInt l))).
  2:{ intros l _. apply dec_list. reflexivity. }
  cbn [bind]. rewrite (dec_opt RH JInt PInt); [|reflexivity].
  cbn [bind]. rewrite (dec_opt RH (fun l => JArr (map t_popeval l)) (fun l => PList (map of_popeval l))).
  2:{ intros l E. rewrite E in Hh. cbn [opt_wf] in Hh. rewrite forallb_forall in Hh. apply dec_list. intros e Hin. apply dec_popeval. apply Hh. exact Hin. }
  cbn [bind]. rewrite (dec_opt RH t_circuit PCircuit); [|intros; apply dec_circuit].
  cbn [bind]. pairs_cbn. rh_cbn.
  unfold parse_evolving_ansatz_result. dget_cbn.
  rewrite (unwrap_aux_n_aux _ Ha). cbn [bind legacy_generation head_flags]. reflexivity.
Qed.

(* ---------------------------------------------------------------- the round trips *)
Lemma result_roundtrip_all :
  (forall i, ind_wf i = true -> result_roundtrip head_flags (of_ind i) = Ok (of_ind i))
  /\ (forall p, pop_wf p = true -> result_roundtrip head_flags (of_population p) = Ok (of_population p))
  /\ (forall e, popeval_wf e = true -> result_roundtrip head_flags (of_popeval e) = Ok (of_popeval e))
  /\ (forall r, result_wf r = true -> result_roundtrip head_flags (of_solver_result r) = Ok (of_solver_result r)).
Proof.
  repeat split.
  - intros i Hw. unfold result_roundtrip, result_encode, result_decode, of_ind.
    apply (top_roundtrip _ _ _ _ (n_ind i) (t_ind i)); [discriminate | apply RD_ind | intros; apply nat_ind | apply dec_ind_R; exact Hw].
  - intros p Hw. unfold result_roundtrip, result_encode, result_decode, of_population.
    apply (top_roundtrip _ _ _ _ (n_pop p) (t_pop p)); [discriminate | apply RD_pop | intros; apply nat_pop | apply dec_pop_R; exact Hw].
  - intros e Hw. unfold result_roundtrip, result_encode, result_decode, of_popeval.
    apply (top_roundtrip _ _ _ _ (n_popeval e) (t_popeval e)); [discriminate | apply RD_popeval | intros; apply nat_popeval | apply dec_popeval; exact Hw].
  - intros r Hw. unfold result_roundtrip, result_encode, result_decode, dumps, DEFAULT_FUEL, of_solver_result.
    rewrite dumps_obj by discriminate. fold (of_solver_result r). fold RD.
    rewrite RD_result by (unfold result_wf in Hw; apply andb_true_iff in Hw as [Hw _]; apply andb_true_iff in Hw as [Hw _]; apply andb_true_iff in Hw as [_ Hq]; exact Hq).
    cbn [bind].
    rewrite enc_result. cbn [bind]. apply dec_result. exact Hw.
Qed.

Lemma result_example : result_wf wR_full = true /\ popeval_wf (mkPopEval ex_P [Some (NFloat 1 (-1)); None; Some (NInt 2)] ex_I (NFloat 1 1)) = true.
Proof. vm_compute. split; reflexivity. Qed.
