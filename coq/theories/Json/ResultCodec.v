(* C18 — queasars/minimum_eigensolvers/base/serialization.py transcribed clause by clause:
   EvolvingAnsatzMinimumEigensolverResultJSONEncoder.default and ...JSONDecoder.object_hook / parse_*.
   Two flags select the behaviour before the fix: commits (DESIGN.md section 4, F-C18a/b):
     legacy_generation : parse_evolving_ansatz_result assigns `result.generation` (c33d61e reverted);
     legacy_aux        : the encoder maps the auxiliary values through self.default() and the object_hook
                         ends without returning unrecognised dicts (cf4a99e reverted);
     legacy_width      : the QuasiDistribution clauses neither write nor read "quasidistribution_num_bits"
                         (110f6bc reverted): the bit width of the eigenstate is lost.
   /repo HEAD is `head_flags`.  Definitions only. *)
From QV Require Export Json.EvqeCodec.
Open Scope string_scope.

Record flags := mkFlags { legacy_generation : bool; legacy_aux : bool; legacy_width : bool }.
Definition head_flags : flags := mkFlags false false false.

(* ---------------------------------------------------------------- typed data *)
(* a Python float given as int is kept as such; complex parts are always floats *)
Inductive scalar := SNone | SNum (n : num) | SComplex (re im : num).

Record quasi := mkQuasi {
  q_data : list (Z * num);        (* int outcome -> quasi-probability, insertion order, keys pairwise different *)
  q_shots : option num;
  q_bound : option num;
  q_width : Z                     (* _num_bits: the length of the keys of binary_probabilities() *)
}.

Record popeval := mkPopEval {
  pe_population : population;
  pe_values : list (option num);   (* tuple[Optional[float], ...] *)
  pe_best : ind;
  pe_best_value : num
}.

Inductive auxkey := AKStr (s : string) | AKInt (z : Z).
Inductive aux :=
| AuxNone
| AuxList (l : list scalar)
| AuxDict (l : list (auxkey * scalar)).   (* keys pairwise different *)

Record solver_result := mkResult {
  r_eigenvalue : scalar;
  r_aux : aux;
  r_eigenstate : option quasi;
  r_best : option ind;
  r_evaluations : option (list Z);
  r_generations : option Z;
  r_history : option (list popeval);
  r_circuit : option string          (* opaque QPY token *)
}.

Definition of_scalar (s : scalar) : pyval :=
  match s with SNone => PNone | SNum n => PNum n | SComplex re im => PComplex re im end.
Definition of_quasi (q : quasi) : pyval :=
  PObj CQuasiDist [PDict (map (fun kv => (PInt (fst kv), PNum (snd kv))) (q_data q));
                   of_opt PNum (q_shots q); of_opt PNum (q_bound q); PInt (q_width q)].
Definition of_popeval (e : popeval) : pyval :=
  PObj CPopEval [of_population (pe_population e); PTuple (map (of_opt PNum) (pe_values e));
                 of_ind (pe_best e); PNum (pe_best_value e)].
Definition of_auxkey (k : auxkey) : pyval := match k with AKStr s => PStr s | AKInt z => PInt z end.
Definition of_aux (a : aux) : pyval :=
  match a with
  | AuxNone => PNone
  | AuxList l => PList (map of_scalar l)
  | AuxDict l => PDict (map (fun kv => (of_auxkey (fst kv), of_scalar (snd kv))) l)
  end.
(* field order: eigenvalue, aux_operators_evaluated, eigenstate, best_individual, circuit_evaluations,
   generations, population_evaluation_results, initial_state_circuit *)
Definition of_solver_result (r : solver_result) : pyval :=
  PObj CSolverResult
    [of_scalar (r_eigenvalue r); of_aux (r_aux r); of_opt of_quasi (r_eigenstate r); of_opt of_ind (r_best r);
     of_opt (fun l => PList (map PInt l)) (r_evaluations r); of_opt PInt (r_generations r);
     of_opt (fun l => PList (map of_popeval l)) (r_history r); of_opt PCircuit (r_circuit r)].

(* ---------------------------------------------------------------- bitstrings (qiskit QuasiDistribution) *)
(* A QuasiDistribution value is PObj CQuasiDist [items; shots; stddev_upper_bound; _num_bits].  _num_bits is private
   but observable: binary_probabilities() renders every key as format(key, "b").zfill(_num_bits).  The constructor
   sets it to 0 for empty data, to len(bin(max key)) - 2 for int keys, to the longest key for bitstring keys.
   Keys are non-negative ints (negative ones: ModelScope). *)
Fixpoint pos_bin (p : positive) : string :=
  match p with xH => "1" | xO q => pos_bin q ++ "0" | xI q => pos_bin q ++ "1" end.
(* format(z, "b") *)
Definition bin_str (z : Z) : result string :=
  match z with Z0 => Ok "0" | Zpos p => Ok (pos_bin p) | Zneg _ => Err ModelScope end.
Definition slen (s : string) : Z := Z.of_nat (String.length s).
Fixpoint zeros (n : nat) : string := match n with O => "" | S m => String "0" (zeros m) end.
(* s.zfill(n) for a string of digits; also format(key, f"0{n}b") = zfill n (format(key, "b")) *)
Definition zfill (n : Z) (s : string) : string := zeros (Z.to_nat (n - slen s)) ++ s.

Definition key_nat (kv : pyval * pyval) : result Z :=
  match fst kv with PNum (NInt z) => if (z <? 0)%Z then Err ModelScope else Ok z | _ => Err ModelScope end.

(* list(o.binary_probabilities().keys()): distinct ints have distinct renderings, the comprehension merges nothing *)
Definition quasi_binary_keys (data : list (pyval * pyval)) (n : Z) : result (list string) :=
  mapM (fun kv => do k <- key_nat kv; do b <- bin_str k; Ok (zfill n b)) data.

(* int(s, 2) for a string of binary digits; ValueError otherwise *)
Definition bit_of (c : ascii) : option Z :=
  if Ascii.eqb c "0" then Some 0%Z else if Ascii.eqb c "1" then Some 1%Z else None.
Fixpoint parse_bits_from (acc : Z) (s : string) : result Z :=
  match s with
  | EmptyString => Ok acc
  | String c r => match bit_of c with Some b => parse_bits_from (2 * acc + b)%Z r | None => Err "ValueError" end
  end.
Definition parse_bits (s : string) : result Z :=
  match s with EmptyString => Err "ValueError" | _ => parse_bits_from 0%Z s end.

(* ---------------------------------------------------------------- encoder *)
Definition is_evqe_serializable (o : pyval) : bool := is_evqe_type o.   (* EVQEPopulationJSONEncoder.serializable_types() *)

Definition to_float (n : num) : num := match n with NInt z => float_of_Z z | f => f end.

Section Encoder.
  Variable fl : flags.

  Fixpoint result_default (o : pyval) : result pyval :=
    let each := mapR result_default in     (* [self.default(x) for x in l] *)
    let each_val :=                         (* [[k, self.default(v)] for k, v in d.items()] *)
      mapR (fun kv : pyval * pyval => let '(k, v) := kv in do y <- result_default v; Ok (PList [k; y])) in
    (* if any(isinstance(o, t) for t in self._evqe_encoder.serializable_types()): *)
    if is_evqe_serializable o then evqe_default o
    else match o with
    | PNone => Ok PNone
    | PComplex re im =>
        Ok (PDict [(K "complex_number_real_value", PNum (to_float re));
                   (K "complex_number_imaginary_value", PNum (to_float im))])
    | PObj CQuasiDist [PDict data; shots; bound; width] =>
        let base := [(K "quasidistribution_data", PList (map (fun kv => PList [fst kv; snd kv]) data));
                     (K "quasidistribution_shots", shots);
                     (K "quasidistribution_stdev_bound", bound)] in
        if legacy_width fl then Ok (PDict base)
        else
          (* bitstrings = list(o.binary_probabilities().keys());  len(bitstrings[0]) if len(bitstrings) > 0 else None *)
          do w <- as_int width;
          do bitstrings <- quasi_binary_keys data w;
          Ok (PDict (base ++ [(K "quasidistribution_num_bits",
                               match bitstrings with [] => PNone | b :: _ => PInt (slen b) end)]))
    | PCircuit tok => Ok (PDict [(K "qiskit_quantum_circuit", PStr tok)])     (* b64(qpy_dump(o)) *)
    | PObj CPopEval [population; values; best; best_value] =>
        do p <- result_default population;
        do vs <- py_list values;
        do b <- result_default best;
        Ok (PDict [(K "base_population_evaluation_population", p);
                   (K "base_population_evaluation_expectation_values", vs);
                   (K "base_population_evaluation_best_individual", b);
                   (K "base_population_evaluation_best_expectation_value", best_value)])
    | PObj CSolverResult [eigenvalue; aux; eigenstate; best; evaluations; generations; history; circuit] =>
        do ev <- match eigenvalue with PComplex _ _ => result_default eigenvalue | _ => Ok eigenvalue end;
        do av <- match aux with
                 | PList l =>
                     do vals <- (if legacy_aux fl then each l else Ok l);
                     Ok (PDict [(K "type", K "list"); (K "values", PList vals)])
                 | PDict kvs | PObj CQuasiDist (PDict kvs :: _) =>     (* isinstance(…, dict): also a dict subclass *)
                     do vals <- (if legacy_aux fl then each_val kvs
                                 else Ok (map (fun kv => PList [fst kv; snd kv]) kvs));
                     Ok (PDict [(K "type", K "dict"); (K "values", PList vals)])
                 | _ => Ok PNone
                 end;
        do hist <- match history with
                   | PList l => do hs <- each l; Ok (PList hs)
                   | _ => Ok PNone
                   end;
        do es <- result_default eigenstate;
        do bi <- result_default best;
        do ic <- result_default circuit;
        Ok (PDict [(K "evolving_ansatz_result_eigenvalue", ev);
                   (K "evolving_ansatz_result_aux_operators_evaluated", av);
                   (K "evolving_ansatz_result_eigenstate", es);
                   (K "evolving_ansatz_result_best_individual", bi);
                   (K "evolving_ansatz_result_circuit_evaluations", evaluations);
                   (K "evolving_ansatz_result_generations", generations);
                   (K "evolving_ansatz_population_evaluation_results", hist);
                   (K "evolving_ansatz_population_initial_state_circuit", ic)])
    | _ => Ok PNone     (* the method ends: None *)
    end.
End Encoder.

(* ---------------------------------------------------------------- decoder *)
(* complex(real=a, imag=b) for numbers *)
Definition mk_complex (a b : pyval) : result pyval :=
  do x <- as_num a; do y <- as_num b; Ok (PComplex (to_float x) (to_float y)).

(* QuasiDistribution(data, shots, stddev_upper_bound) — qiskit's constructor on the data the decoder hands it:
   empty: width 0; int keys: kept, width = len(bin(max key)) - 2; bitstring keys (the first key decides; it must match
   ^[01]+$): width = the longest key, keys = int(key, 2).  Renderings of distinct ints parse back to distinct ints: the
   constructor's comprehension merges nothing.  "0x"/"0b" prefixed keys: outside the model. *)
Definition is_bits (s : string) : bool :=
  match parse_bits s with Ok _ => true | Err _ => false end.

Definition mk_quasi (data shots bound : pyval) : result pyval :=
  match data with
  | PDict [] => Ok (PObj CQuasiDist [data; shots; bound; PInt 0])
  | PDict (((PNum (NInt _), _) :: _) as kvs) =>
      do ks <- mapM key_nat kvs;
      do b <- bin_str (fold_right Z.max 0%Z ks);
      Ok (PObj CQuasiDist [data; shots; bound; PInt (slen b)])
  | PDict (((PStr s0, _) :: _) as kvs) =>
      if is_bits s0 then
        do ss <- mapM (fun kv : pyval * pyval => match fst kv with PStr s => Ok s | _ => Err ModelScope end) kvs;
        let width := fold_right (fun s acc => Z.max (slen s) acc) 0%Z ss in
        do kvs' <- mapM (fun kv : pyval * pyval =>
                           match fst kv with PStr s => do k <- parse_bits s; Ok (PInt k, snd kv) | _ => Err ModelScope end) kvs;
        Ok (PObj CQuasiDist [PDict kvs'; shots; bound; PInt width])
      else Err ModelScope
  | _ => Err ModelScope
  end.

(* d[k] on a Python dict value with Python key equality *)
Fixpoint pdict_get (k : pyval) (d : list (pyval * pyval)) : result pyval :=
  match d with
  | [] => Err "KeyError"
  | (k', v) :: r => if py_eqb k' k then Ok v else pdict_get k r
  end.

Definition parse_complex_number (d : sdict) : result pyval :=
  do a <- dget "complex_number_real_value" d; do b <- dget "complex_number_imaginary_value" d; mk_complex a b.

(* {format(key, f"0{num_bits}b"): value for key, value in data.items()} *)
Definition format_keys (num_bits data : pyval) : result pyval :=
  match data, num_bits with
  | PDict kvs, PNum (NInt w) =>
      if (w <? 0)%Z then Err ModelScope
      else do l <- mapM (fun kv : pyval * pyval => do k <- key_nat kv; do b <- bin_str k; Ok (PStr (zfill w b), snd kv)) kvs;
           Ok (PDict l)
  | _, _ => Err ModelScope
  end.

(* object_dict.get(k) *)
Definition dget_or_none (k : string) (d : sdict) : pyval := match dget k d with Ok v => v | Err _ => PNone end.

Definition parse_quasidistribution (fl : flags) (d : sdict) : result pyval :=
  do x <- dget "quasidistribution_data" d; do data <- py_dict x;
  do data' <- (if legacy_width fl then Ok data
               else match dget_or_none "quasidistribution_num_bits" d with
                    | PNone => Ok data
                    | num_bits => format_keys num_bits data
                    end);
  do s <- dget "quasidistribution_shots" d; do b <- dget "quasidistribution_stdev_bound" d;
  mk_quasi data' s b.

(* qpy_load(b64decode(s))[0]: trusted to invert the encoder's qpy_dump (the token) *)
Definition parse_quantum_circuit (d : sdict) : result pyval :=
  do s <- dget "qiskit_quantum_circuit" d;
  match s with PStr tok => Ok (PCircuit tok) | _ => Err ModelScope end.

Definition parse_base_population_evaluation (d : sdict) : result pyval :=
  do p <- dget "base_population_evaluation_population" d;
  do v <- dget "base_population_evaluation_expectation_values" d; do vt <- py_tuple v;
  do b <- dget "base_population_evaluation_best_individual" d;
  do bv <- dget "base_population_evaluation_best_expectation_value" d;
  Ok (PObj CPopEval [p; vt; b; bv]).

Definition result_own_keys : list string :=
  ["evolving_ansatz_result_eigenvalue"; "evolving_ansatz_result_aux_operators_evaluated";
   "evolving_ansatz_result_eigenstate"; "evolving_ansatz_result_best_individual";
   "evolving_ansatz_result_circuit_evaluations"; "evolving_ansatz_result_generations";
   "evolving_ansatz_population_evaluation_results"; "evolving_ansatz_population_initial_state_circuit"].

(* the aux_operators_evaluated part of parse_evolving_ansatz_result *)
Definition unwrap_aux (a : pyval) : result pyval :=
  match a with
  | PDict kvs | PObj CQuasiDist (PDict kvs :: _) =>       (* isinstance(aux_operators_evaluated, dict): also a dict
                                                             subclass (a QuasiDistribution has no "type" key: KeyError) *)
      do t <- pdict_get (K "type") kvs;
      if py_eqb t (K "list") then pdict_get (K "values") kvs
      else do t' <- pdict_get (K "type") kvs;
           if py_eqb t' (K "dict") then do v <- pdict_get (K "values") kvs; py_dict v
           else Ok PNone
  | _ => Ok PNone
  end.

Section Decoder.
  Variable fl : flags.

  Definition parse_evolving_ansatz_result (d : sdict) : result pyval :=
    do eigenvalue <- dget "evolving_ansatz_result_eigenvalue" d;
    do a <- dget "evolving_ansatz_result_aux_operators_evaluated" d;
    do aux <- unwrap_aux a;
    do eigenstate <- dget "evolving_ansatz_result_eigenstate" d;
    do best <- dget "evolving_ansatz_result_best_individual" d;
    do evaluations <- dget "evolving_ansatz_result_circuit_evaluations" d;
    do g <- dget "evolving_ansatz_result_generations" d;
    (* legacy: `result.generation = ...` creates a new attribute; `generations` keeps the constructor's None *)
    let generations := if legacy_generation fl then PNone else g in
    do history <- dget "evolving_ansatz_population_evaluation_results" d;
    do circuit <- dget "evolving_ansatz_population_initial_state_circuit" d;
    Ok (PObj CSolverResult [eigenvalue; aux; eigenstate; best; evaluations; generations; history; circuit]).

  Definition result_hook (d : sdict) : result pyval :=
    if any_key_in evqe_identifying_keys d then evqe_hook d
    else if has "complex_number_real_value" d || has "complex_number_imaginary_value" d then parse_complex_number d
    else if has "quasidistribution_data" d || has "quasidistribution_shots" d || has "quasidistribution_stdev_bound" d
            || (negb (legacy_width fl) && has "quasidistribution_num_bits" d)
         then parse_quasidistribution fl d
    else if has "qiskit_quantum_circuit" d then parse_quantum_circuit d
    else if has "base_population_evaluation_population" d || has "base_population_evaluation_expectation_values" d
            || has "base_population_evaluation_best_individual" d
            || has "base_population_evaluation_best_expectation_value" d
         then parse_base_population_evaluation d
    else if any_key_in result_own_keys d then parse_evolving_ansatz_result d
    else if legacy_aux fl then Ok PNone          (* the method ends: None *)
    else Ok (sdict_to_py d).                      (* return object_dict *)
End Decoder.

Definition result_encode (fl : flags) (v : pyval) : result json := dumps (result_default fl) v.
Definition result_decode (fl : flags) (j : json) : result pyval := loads (result_hook fl) j.
