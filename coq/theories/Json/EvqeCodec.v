(* C18 — queasars/minimum_eigensolvers/evqe/quantum_circuit/serialization.py (EVQECircuitLayerEncoder /
   EVQECircuitLayerDecoder) and queasars/minimum_eigensolvers/evqe/serialization.py (EVQEPopulationJSONEncoder /
   EVQEPopulationJSONDecoder) transcribed clause by clause, including the delegation between the nested
   encoders/decoders and the implicit `return None` when no clause matches.  Definitions only. *)
From QV Require Export Json.PyVal Evqe.Genome.
Open Scope string_scope.

Definition K (s : string) : pyval := PStr s.

(* ---------------------------------------------------------------- typed data <-> Python objects *)
Definition ind : Type := individual num.

(* EVQEPopulation: a plain dataclass, no validation *)
Record population := mkPop {
  p_individuals : list ind;                          (* tuple *)
  p_representatives : option (list ind);             (* Optional[list] *)
  p_members : option (list (ind * list Z));          (* Optional[dict[EVQEIndividual, list[int]]] *)
  p_membership : option (list (Z * ind))             (* Optional[dict[int, EVQEIndividual]] *)
}.

Definition of_gate (g : gate) : pyval :=
  match g with
  | GId q => PObj CIdentityGate [PInt q]
  | GRot q => PObj CRotationGate [PInt q]
  | GCtrl q c => PObj CControlGate [PInt q; PInt c]
  | GCRot q c => PObj CControlledRotationGate [PInt q; PInt c]
  end.
Definition of_layer (l : layer) : pyval := PObj CLayer [PInt (l_qubits l); PTuple (map of_gate (l_gates l))].
Definition of_ind (i : ind) : pyval :=
  PObj CIndividual [PInt (i_qubits i); PTuple (map of_layer (i_layers i)); PTuple (map PNum (i_values i))].
Definition of_population (p : population) : pyval :=
  PObj CPopulation
    [PTuple (map of_ind (p_individuals p));
     of_opt (fun l => PList (map of_ind l)) (p_representatives p);
     of_opt (fun d => PDict (map (fun kv => (of_ind (fst kv), PList (map PInt (snd kv)))) d)) (p_members p);
     of_opt (fun d => PDict (map (fun kv => (PInt (fst kv), of_ind (snd kv))) d)) (p_membership p)].

Definition as_gate (v : pyval) : result gate :=
  match v with
  | PObj CIdentityGate [PNum (NInt q)] => Ok (GId q)
  | PObj CRotationGate [PNum (NInt q)] => Ok (GRot q)
  | PObj CControlGate [PNum (NInt q); PNum (NInt c)] => Ok (GCtrl q c)
  | PObj CControlledRotationGate [PNum (NInt q); PNum (NInt c)] => Ok (GCRot q c)
  | _ => Err ModelScope
  end.
Definition as_layer (v : pyval) : result layer :=
  match v with
  | PObj CLayer [PNum (NInt n); PTuple gs] => do gl <- mapM as_gate gs; Ok (mkLayer n gl)
  | _ => Err ModelScope
  end.
Definition as_ind (v : pyval) : result ind :=
  match v with
  | PObj CIndividual [PNum (NInt n); PTuple ls; PTuple vs] =>
      do ll <- mapM as_layer ls; do vl <- mapM as_num vs; Ok (mkInd n ll vl)
  | _ => Err ModelScope
  end.

(* ---------------------------------------------------------------- constructors *)
(* the gate dataclasses check nothing *)
(* EVQECircuitLayer(n_qubits, gates): __post_init__ -> is_valid() *)
Definition mk_layer (n_qubits gates : pyval) : result pyval :=
  do l <- as_layer (PObj CLayer [n_qubits; gates]);
  do _ <- make_layer (l_qubits l) (l_gates l);
  Ok (PObj CLayer [n_qubits; gates]).
(* EVQEIndividual(n_qubits, layers, parameter_values): __post_init__ -> is_valid() *)
Definition mk_individual (n_qubits layers values : pyval) : result pyval :=
  do i <- as_ind (PObj CIndividual [n_qubits; layers; values]);
  do _ <- make_individual (i_qubits i) (i_layers i) (i_values i);
  Ok (PObj CIndividual [n_qubits; layers; values]).

(* ---------------------------------------------------------------- EVQECircuitLayerEncoder.default *)
(* `for x in field`: tuples and lists iterate; anything else is outside the documented types *)
Definition iter (v : pyval) : result (list pyval) :=
  match v with PTuple l | PList l => Ok l | _ => Err ModelScope end.

Definition is_layer_type (o : pyval) : bool :=
  match o with
  | PObj (CLayer | CIdentityGate | CRotationGate | CControlGate | CControlledRotationGate) _ => true
  | _ => false
  end.

Fixpoint layer_default (o : pyval) : result pyval :=
  let each := mapR layer_default in      (* [self.default(x) for x in l] *)
  match o with
  | PObj CLayer [n_qubits; gates] =>
      do gs <- match gates with PTuple l | PList l => each l | _ => Err ModelScope end;
      Ok (PDict [(K "evqe_circuit_layer_n_qubits", n_qubits); (K "evqe_circuit_layer_gates", PList gs)])
  | PObj CIdentityGate [q] => Ok (PDict [(K "evqe_gate_type", K "identity"); (K "evqe_qubit_index", q)])
  | PObj CRotationGate [q] => Ok (PDict [(K "evqe_gate_type", K "rotation"); (K "evqe_qubit_index", q)])
  | PObj CControlGate [q; c] =>
      Ok (PDict [(K "evqe_gate_type", K "control"); (K "evqe_qubit_index", q); (K "evqe_controlled_qubit_index", c)])
  | PObj CControlledRotationGate [q; c] =>
      Ok (PDict [(K "evqe_gate_type", K "controlled_rotation"); (K "evqe_qubit_index", q);
                 (K "evqe_control_qubit_index", c)])
  | _ => Ok PNone     (* the method ends: None *)
  end.

(* ---------------------------------------------------------------- EVQEPopulationJSONEncoder.default *)
Definition is_evqe_type (o : pyval) : bool :=
  match o with PObj (CIndividual | CPopulation) _ => true | _ => false end.

Fixpoint evqe_default (o : pyval) : result pyval :=
  let each := mapR evqe_default in       (* [self.default(x) for x in l] *)
  let each_key :=                         (* [[self.default(k), v] for k, v in d.items()] *)
    mapR (fun kv : pyval * pyval => let '(k, v) := kv in do y <- evqe_default k; Ok (PList [y; v])) in
  let each_val :=                         (* [[k, self.default(v)] for k, v in d.items()] *)
    mapR (fun kv : pyval * pyval => let '(k, v) := kv in do y <- evqe_default v; Ok (PList [k; y])) in
  (* if any(isinstance(o, t) for t in self._circuit_layer_encoder.serializable_types()) *)
  if is_layer_type o then layer_default o
  else match o with
  | PObj CIndividual [n_qubits; layers; values] =>
      do ls <- match layers with PTuple l | PList l => each l | _ => Err ModelScope end;
      do vs <- py_list values;
      Ok (PDict [(K "evqe_individual_n_qubits", n_qubits);
                 (K "evqe_individual_layers", PList ls);
                 (K "evqe_individual_parameter_values", vs)])
  | PObj CPopulation [individuals; representatives; members; membership] =>
      do reps <- match representatives with
                 | PNone => Ok PNone
                 | PTuple l | PList l => do r <- each l; Ok (PList r)
                 | _ => Err ModelScope
                 end;
      do mem <- match members with
                | PNone => Ok PNone
                | PDict kvs | PObj CQuasiDist (PDict kvs :: _) => do r <- each_key kvs; Ok (PList r)   (* .items(): a dict or a dict subclass *)
                | _ => Err ModelScope
                end;
      do mship <- match membership with
                  | PNone => Ok PNone
                  | PDict kvs | PObj CQuasiDist (PDict kvs :: _) => do r <- each_val kvs; Ok (PList r)
                  | _ => Err ModelScope
                  end;
      do inds <- match individuals with PTuple l | PList l => each l | _ => Err ModelScope end;
      Ok (PDict [(K "evqe_population_individuals", PList inds);
                 (K "evqe_population_species_representatives", reps);
                 (K "evqe_population_species_members", mem);
                 (K "evqe_population_species_membership", mship)])
  | _ => Ok PNone     (* the method ends: None *)
  end.

(* ---------------------------------------------------------------- EVQECircuitLayerDecoder *)
Definition layer_identifying_keys : list string :=
  ["evqe_circuit_layer_n_qubits"; "evqe_circuit_layer_gates"; "evqe_gate_type"; "evqe_qubit_index";
   "evqe_controlled_qubit_index"; "evqe_control_qubit_index"].

Definition parse_circuit_layer (d : sdict) : result pyval :=
  do n <- dget "evqe_circuit_layer_n_qubits" d;
  do g <- dget "evqe_circuit_layer_gates" d;
  do gt <- py_tuple g;
  mk_layer n gt.

Definition parse_evqe_gate (d : sdict) : result pyval :=
  do t <- dget "evqe_gate_type" d;
  if py_eqb t (K "identity") then do q <- dget "evqe_qubit_index" d; Ok (PObj CIdentityGate [q])
  else if py_eqb t (K "rotation") then do q <- dget "evqe_qubit_index" d; Ok (PObj CRotationGate [q])
  else if py_eqb t (K "control") then
         do q <- dget "evqe_qubit_index" d; do c <- dget "evqe_controlled_qubit_index" d; Ok (PObj CControlGate [q; c])
  else if py_eqb t (K "controlled_rotation") then
         do q <- dget "evqe_qubit_index" d; do c <- dget "evqe_control_qubit_index" d;
         Ok (PObj CControlledRotationGate [q; c])
  else Err "ValueError".

Definition layer_hook (d : sdict) : result pyval :=
  if has "evqe_circuit_layer_n_qubits" d || has "evqe_circuit_layer_gates" d then parse_circuit_layer d
  else if has "evqe_gate_type" d || has "evqe_qubit_index" d then parse_evqe_gate d
  else Ok PNone.

(* ---------------------------------------------------------------- EVQEPopulationJSONDecoder *)
Definition evqe_own_keys : list string :=
  ["evqe_individual_n_qubits"; "evqe_individual_layers"; "evqe_individual_parameter_values";
   "evqe_population_individuals"; "evqe_population_species_representatives";
   "evqe_population_species_members"; "evqe_population_species_membership"].
Definition evqe_identifying_keys : list string := evqe_own_keys ++ layer_identifying_keys.

(* any(key in keys for key in object_dict.keys()) *)
Definition any_key_in (keys : list string) (d : sdict) : bool := existsb (fun kv => mem_str (fst kv) keys) d.

Definition parse_individual (d : sdict) : result pyval :=
  do n <- dget "evqe_individual_n_qubits" d;
  do l <- dget "evqe_individual_layers" d; do lt <- py_tuple l;
  do v <- dget "evqe_individual_parameter_values" d; do vt <- py_tuple v;
  mk_individual n lt vt.

Definition parse_population (d : sdict) : result pyval :=
  do i <- dget "evqe_population_individuals" d; do individuals <- py_tuple i;
  do representatives <- dget "evqe_population_species_representatives" d;
  do m <- dget "evqe_population_species_members" d;
  do members <- match m with PNone => Ok PNone | _ => do t <- py_tuple m; py_dict t end;
  do ms <- dget "evqe_population_species_membership" d;
  do membership <- match ms with PNone => Ok PNone | _ => py_dict ms end;
  Ok (PObj CPopulation [individuals; representatives; members; membership]).

Definition evqe_hook (d : sdict) : result pyval :=
  if any_key_in layer_identifying_keys d then layer_hook d
  else if has "evqe_individual_n_qubits" d || has "evqe_individual_layers" d
          || has "evqe_individual_parameter_values" d then parse_individual d
  else if has "evqe_population_individuals" d || has "evqe_population_species_representatives" d
          || has "evqe_population_species_members" d || has "evqe_population_species_membership" d
       then parse_population d
  else Ok PNone.

Definition layer_encode (v : pyval) : result json := dumps layer_default v.
Definition layer_decode (j : json) : result pyval := loads layer_hook j.
Definition evqe_encode (v : pyval) : result json := dumps evqe_default v.
Definition evqe_decode (j : json) : result pyval := loads evqe_hook j.
