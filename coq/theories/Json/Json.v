(* C18 — JSON trees as Python's json module produces and consumes them (the *tree protocol*; the text
   layer — escaping, number formatting, float repr round trip — is trusted and exercised by the
   correspondence on every run).  Definitions only.

   Numbers keep Python's int/float distinction: the text `1` parses to int 1, `1.0` to float 1.0.
   A float is an opaque exact token: the (finite) double m * 2^e in canonical form (m odd, or m = e = 0),
   which keeps the literals of denormals and of 1.8e308 short.  NaN and the infinities are outside the model (nan != nan, so no
   codec could satisfy the property for them; the harness never generates them). *)
From QV Require Export Common.Base.

Inductive num :=
| NInt (z : Z)                     (* Python int *)
| NFloat (m : Z) (e : Z).          (* Python float, value m * 2^e, m odd or m = e = 0 *)

Definition num_eqb (a b : num) : bool :=
  match a, b with
  | NInt x, NInt y => Z.eqb x y
  | NFloat n d, NFloat m e => Z.eqb n m && Z.eqb d e
  | _, _ => false
  end.

(* Python's == on numbers: by value, whatever the type.  A canonical float with a negative exponent is not
   an integer; two canonical floats are equal iff they are the same token. *)
Definition num_pyeq (a b : num) : bool :=
  match a, b with
  | NInt x, NInt y => Z.eqb x y
  | NInt x, NFloat m e | NFloat m e, NInt x => (0 <=? e)%Z && Z.eqb x (m * 2 ^ e)
  | NFloat n d, NFloat m e => Z.eqb n m && Z.eqb d e
  end.

(* float(z) for an int that a double represents exactly (|z| < 2^53, all the codecs meet) *)
Fixpoint strip_twos (p : positive) (e : Z) : positive * Z :=
  match p with xO q => strip_twos q (e + 1)%Z | _ => (p, e) end.
Definition float_of_Z (z : Z) : num :=
  match z with
  | Z0 => NFloat 0 0
  | Zpos p => let '(m, e) := strip_twos p 0%Z in NFloat (Zpos m) e
  | Zneg p => let '(m, e) := strip_twos p 0%Z in NFloat (Zneg m) e
  end.

Inductive json :=
| JNull
| JBool (b : bool)
| JNum (n : num)
| JStr (s : string)
| JArr (l : list json)
| JObj (kvs : list (string * json)).   (* members in document order; duplicate names possible in a text *)

Fixpoint json_eqb (a b : json) {struct a} : bool :=
  match a, b with
  | JNull, JNull => true
  | JBool x, JBool y => Bool.eqb x y
  | JNum x, JNum y => num_eqb x y
  | JStr x, JStr y => String.eqb x y
  | JArr l, JArr m =>
      (fix go (l m : list json) {struct l} : bool :=
         match l, m with
         | [], [] => true
         | x :: xs, y :: ys => json_eqb x y && go xs ys
         | _, _ => false
         end) l m
  | JObj l, JObj m =>
      (fix go (l m : list (string * json)) {struct l} : bool :=
         match l, m with
         | [], [] => true
         | (k, x) :: xs, (k', y) :: ys => String.eqb k k' && json_eqb x y && go xs ys
         | _, _ => false
         end) l m
  | _, _ => false
  end.
