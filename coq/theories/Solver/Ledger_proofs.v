(* Solver/Ledger_proofs.v — lemmas about the trace specification functions of Solver/Ledger.v
   (how each of them changes when one item is appended to the trace; decompositions of traces). *)
From QV Require Import Common.Base Solver.Loop Solver.Ledger.
From Coq Require Import QArith.

Lemma sumZ_app (a b : list Z) : sumZ (a ++ b) = (sumZ a + sumZ b)%Z.
Proof. induction a; simpl; lia. Qed.

Lemma Qltb_lt (x y : Q) : Qltb x y = true <-> (x < y)%Q.
Proof.
  unfold Qltb. rewrite negb_true_iff. split; intros H.
  - apply Qnot_le_lt. intros Hle. apply Qle_bool_iff in Hle. congruence.
  - destruct (Qle_bool y x) eqn:E; [|reflexivity]. apply Qle_bool_iff in E. exfalso. apply (Qlt_not_le _ _ H E).
Qed.

Lemma Qltb_ge (x y : Q) : Qltb x y = false <-> (y <= x)%Q.
Proof.
  unfold Qltb. rewrite negb_false_iff. apply Qle_bool_iff.
Qed.

(* l ++ [x] split around an element: either that element is the appended one or the split is one of l *)
Lemma snoc_split {A} (l : list A) x t1 y t2 :
  l ++ [x] = t1 ++ y :: t2 ->
  (t2 = [] /\ l = t1 /\ x = y) \/ (exists t2', t2 = t2' ++ [x] /\ l = t1 ++ y :: t2').
Proof.
  intros H. induction t2 as [|z t2' _] using rev_ind.
  - left. apply app_inj_tail in H. tauto.
  - right. change (t1 ++ y :: t2' ++ [z]) with (t1 ++ (y :: t2') ++ [z]) in H. rewrite app_assoc in H.
    apply app_inj_tail in H as [H1 H2]. subst. exists t2'. split; reflexivity.
Qed.

Section LedgerProofs.
  Variables Ind R Pop Op : Type.
  Variable best_value : R -> Q.
  Variable best_ind : R -> Ind.
  Notation event := (event R).
  Notation titem := (titem Ind R Pop Op).
  Notation events_of := (events_of Ind R Pop Op).
  Notation results_of := (results_of R).
  Notation counts_of := (counts_of R).
  Notation split_gens := (split_gens R).
  Notation ledger_spec := (ledger_spec R).
  Notation counted := (counted R).
  Notation is_start := (is_start Ind R Pop Op).
  Notation last_crit := (last_crit Ind R Pop Op).
  Notation single_result := (single_result Ind R Pop Op).
  Notation first_min := (first_min R best_value).

  Lemma events_of_app (a b : list titem) : events_of (a ++ b) = events_of a ++ events_of b.
  Proof. apply flat_map_app. Qed.
  Lemma results_of_app (a b : list event) : results_of (a ++ b) = results_of a ++ results_of b.
  Proof. apply flat_map_app. Qed.
  Lemma counts_of_app (a b : list event) : counts_of (a ++ b) = counts_of a ++ counts_of b.
  Proof. apply flat_map_app. Qed.

  (* ---------------------------------------------------------------- split_gens, one event appended *)
  Lemma split_gens_snoc_count evs n :
    split_gens (evs ++ [EvalCount n]) = let '(g, t) := split_gens evs in (g, t ++ [n]).
  Proof.
    induction evs as [|e evs IH]; simpl; [reflexivity|].
    destruct e as [m | r]; rewrite IH; destruct (split_gens evs) as [g t]; [destruct g|]; reflexivity.
  Qed.

  Lemma split_gens_snoc_result evs r :
    split_gens (evs ++ [Result r]) = let '(g, t) := split_gens evs in (g ++ [t], []).
  Proof.
    induction evs as [|e evs IH]; simpl; [reflexivity|].
    destruct e as [m | r']; rewrite IH; destruct (split_gens evs) as [g t]; [destruct g|]; reflexivity.
  Qed.

  Lemma split_gens_length evs : length (fst (split_gens evs)) = length (results_of evs).
  Proof.
    induction evs as [|e evs IH]; simpl; [reflexivity|].
    destruct e as [m | r]; destruct (split_gens evs) as [g t]; simpl in *; [destruct g; simpl in *; lia | lia].
  Qed.

  Lemma split_gens_sum evs :
    (sumZ (map sumZ (fst (split_gens evs))) + sumZ (snd (split_gens evs)) = sumZ (counts_of evs))%Z.
  Proof.
    induction evs as [|e evs IH]; simpl; [reflexivity|].
    destruct e as [m | r]; destruct (split_gens evs) as [g t]; simpl in *; [destruct g; simpl in *; lia | lia].
  Qed.

  Lemma counted_snoc_count evs n : counted (evs ++ [EvalCount n]) <-> counted evs.
  Proof.
    unfold counted. rewrite split_gens_snoc_count. destruct (split_gens evs); reflexivity.
  Qed.

  Lemma counted_snoc_result evs r : counted (evs ++ [Result r]) <-> counted evs /\ snd (split_gens evs) <> [].
  Proof.
    unfold counted. rewrite split_gens_snoc_result. destruct (split_gens evs) as [g t]; simpl.
    rewrite Forall_app. split; intros [H1 H2]; split; auto. inversion H2; auto.
  Qed.

  Lemma counted_nil : counted [].
  Proof. constructor. Qed.

  (* ---------------------------------------------------------------- last_crit *)
  Lemma last_crit_app a b :
    last_crit (a ++ b) = match last_crit b with Some x => Some x | None => last_crit a end.
  Proof.
    induction a as [|x a IH]; simpl.
    - destruct (last_crit b); reflexivity.
    - rewrite IH. destruct (last_crit b); reflexivity.
  Qed.

  Lemma last_crit_some (tr : list titem) b :
    last_crit tr = Some b -> exists t1 r bi bv t2, tr = t1 ++ TCrit r bi bv b :: t2 /\ last_crit t2 = None.
  Proof.
    induction tr as [|x tr IH]; simpl; [discriminate|].
    destruct (last_crit tr) as [b'|] eqn:E.
    - intros H; inversion H; subst. destruct (IH eq_refl) as (t1 & r & bi & bv & t2 & H1 & H2).
      exists (x :: t1), r, bi, bv, t2. subst; auto.
    - destruct x; try discriminate. intros H; inversion H; subst. exists [], r, bi, bv, tr. auto.
  Qed.

  (* ---------------------------------------------------------------- decompositions *)
  Lemma existsb_is_start_app (a b : list titem) : existsb is_start (a ++ b) = existsb is_start a || existsb is_start b.
  Proof. apply existsb_app. Qed.

  (* the last start of a trace *)
  Lemma last_start_split (tr : list titem) :
    existsb is_start tr = false \/
    exists t1 x t2, tr = t1 ++ x :: t2 /\ is_start x = true /\ existsb is_start t2 = false.
  Proof.
    induction tr as [|y tr IH]; [left; reflexivity|].
    destruct IH as [IH | (t1 & x & t2 & H1 & H2 & H3)].
    - destruct (is_start y) eqn:E.
      + right. exists [], y, tr. auto.
      + left. simpl. rewrite E, IH. reflexivity.
    - right. exists (y :: t1), x, t2. subst. auto.
  Qed.

  (* the first start of a trace *)
  Lemma first_start_split (tr : list titem) :
    existsb is_start tr = true ->
    exists t1 x t2, tr = t1 ++ x :: t2 /\ is_start x = true /\ existsb is_start t1 = false.
  Proof.
    induction tr as [|y tr IH]; simpl; [discriminate|].
    destruct (is_start y) eqn:E.
    - intros _. exists [], y, tr. auto.
    - simpl. intros H. destruct (IH H) as (t1 & x & t2 & H1 & H2 & H3).
      exists (y :: t1), x, t2. subst. simpl. rewrite E. auto.
  Qed.

  Lemma events_nonempty_split (tr : list titem) :
    events_of tr <> [] -> exists t1 e t2, tr = t1 ++ TEv e :: t2.
  Proof.
    induction tr as [|y tr IH]; simpl; [congruence|].
    destruct y; simpl; try (intros H; destruct (IH H) as (t1 & e' & t2 & ->); eexists (_ :: t1), e', t2; reflexivity).
    intros _. exists [], e, tr. reflexivity.
  Qed.

  (* the first result of a trace *)
  Lemma results_split (tr : list titem) r rest :
    results_of (events_of tr) = r :: rest ->
    exists a c, tr = a ++ TEv (Result r) :: c /\ results_of (events_of c) = rest.
  Proof.
    induction tr as [|y tr IH]; simpl; [discriminate|].
    destruct y as [op pop l g e | e | r' bi bv b]; simpl.
    - intros H. destruct (IH H) as (a & c & -> & H2). exists (TStart op pop l g e :: a), c. auto.
    - destruct e as [n | r']; simpl.
      + intros H. destruct (IH H) as (a & c & -> & H2). exists (TEv (EvalCount n) :: a), c. auto.
      + intros H. inversion H; subst. exists [], tr. auto.
    - intros H. destruct (IH H) as (a & c & -> & H2). exists (TCrit r' bi bv b :: a), c. auto.
  Qed.

  (* under single_result a stretch of trace without a start holds at most one result *)
  Lemma single_result_tail (t1 t2 : list titem) :
    single_result (t1 ++ t2) -> existsb is_start t2 = false -> (length (results_of (events_of t2)) <= 1)%nat.
  Proof.
    intros Hs Hn.
    destruct (results_of (events_of t2)) as [|r1 [|r2 rest]] eqn:E; simpl; try lia.
    exfalso.
    destruct (results_split _ _ _ E) as (a & c & -> & Hc).
    destruct (results_split _ _ _ Hc) as (b & d & -> & _).
    specialize (Hs (t1 ++ a) r1 b r2 d). rewrite <- app_assoc in Hs. specialize (Hs eq_refl).
    rewrite existsb_is_start_app in Hn. simpl in Hn. rewrite existsb_is_start_app in Hn.
    rewrite Hs in Hn. simpl in Hn. destruct (existsb is_start a); simpl in Hn; discriminate.
  Qed.

  Lemma single_result_b_sound_aux (tr : list titem) : forall seen,
    single_result_b Ind R Pop Op seen tr = true ->
    single_result tr
    /\ (seen = true -> forall a r c, tr = a ++ TEv (Result r) :: c -> existsb is_start a = true).
  Proof.
    induction tr as [|x tr IH]; intros seen H.
    - split.
      + intros a r1 b r2 c E. destruct a; discriminate.
      + intros _ a r c E. destruct a; discriminate.
    - destruct x as [op pop l g e | e | r' bi bv b].
      + simpl in H. destruct (IH false H) as [P1 _]. split.
        * intros a r1 b r2 c E. destruct a as [|y a]; [discriminate|]. inversion E; subst. eapply P1; reflexivity.
        * intros _ a r c E. destruct a as [|y a]; [discriminate|]. inversion E; subst. reflexivity.
      + destruct e as [n | r0].
        * simpl in H. destruct (IH seen H) as [P1 P2]. split.
          -- intros a r1 b r2 c E. destruct a as [|y a]; [discriminate|]. inversion E; subst. eapply P1; reflexivity.
          -- intros Hs a r c E. destruct a as [|y a]; [discriminate|]. inversion E; subst. simpl. eapply P2; eauto.
        * simpl in H. apply andb_true_iff in H as [Hn H]. apply negb_true_iff in Hn. subst seen.
          destruct (IH true H) as [P1 P2]. split.
          -- intros a r1 b r2 c E. destruct a as [|y a].
             ++ inversion E; subst. eapply P2; eauto.
             ++ inversion E; subst. eapply P1; reflexivity.
          -- discriminate.
      + simpl in H. destruct (IH seen H) as [P1 P2]. split.
        * intros a r1 b0 r2 c E. destruct a as [|y a]; [discriminate|]. inversion E; subst. eapply P1; reflexivity.
        * intros Hs a r c E. destruct a as [|y a]; [discriminate|]. inversion E; subst. simpl. eapply P2; eauto.
  Qed.

  Lemma single_result_b_sound (tr : list titem) : single_result_b Ind R Pop Op false tr = true -> single_result tr.
  Proof. intros H. apply (single_result_b_sound_aux tr false H). Qed.

  (* ---------------------------------------------------------------- first_min, one result appended *)
  Lemma first_min_snoc_keep hist i r r0 :
    first_min hist i r -> (best_value r <= best_value r0)%Q -> first_min (hist ++ [r0]) i r.
  Proof.
    intros (H1 & H2 & H3) Hle. split; [|split].
    - rewrite nth_error_app1; [assumption|]. apply nth_error_Some. congruence.
    - intros r' Hin. apply in_app_or in Hin as [Hin | [<- | []]]; auto.
    - intros j r' Hj Hn. apply (H3 j r' Hj).
      rewrite nth_error_app1 in Hn; [assumption|].
      assert (i < length hist)%nat by (apply nth_error_Some; congruence). lia.
  Qed.

  Lemma first_min_snoc_new hist i r r0 :
    first_min hist i r -> (best_value r0 < best_value r)%Q -> first_min (hist ++ [r0]) (length hist) r0.
  Proof.
    intros (H1 & H2 & H3) Hlt. split; [|split].
    - rewrite nth_error_app2, Nat.sub_diag; [reflexivity | lia].
    - intros r' Hin. apply in_app_or in Hin as [Hin | [<- | []]].
      + apply Qlt_le_weak. eapply Qlt_le_trans; [exact Hlt | apply H2; assumption].
      + apply Qle_refl.
    - intros j r' Hj Hn. rewrite nth_error_app1 in Hn by assumption.
      eapply Qlt_le_trans; [exact Hlt | apply H2; eapply nth_error_In; eassumption].
  Qed.

  Lemma first_min_single r0 : first_min [r0] 0 r0.
  Proof.
    split; [reflexivity | split].
    - intros r' [<- | []]. apply Qle_refl.
    - intros j r' Hj. lia.
  Qed.

End LedgerProofs.
