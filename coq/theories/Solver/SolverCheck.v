(* Solver/SolverCheck.v — correspondence entry point for C05/C12 (and reusable by C11/C17): the loop model
   instantiated with scripted oracles.  A case carries the limits, the script (what each operator application
   reported through the callbacks and which population token it returned, what each estimate call answered, what the
   criterion answered) and everything the implementation was observed to do; check_case says whether the model does
   the same.  Definitions only. *)
From QV Require Import Common.Base Solver.Loop Solver.Ledger.
From Coq Require Import QArith.

(* individuals, populations, aux evaluators, distributions: integer tokens; a result = (id, best individual, best value) *)
Definition cR : Type := (Z * Z * Q)%type.
Definition c_best_value (r : cR) : Q := snd r.
Definition c_best_ind (r : cR) : Z := snd (fst r).
Definition c_rid (r : cR) : Z := fst (fst r).

Definition cevent := event cR.
Definition ctitem := titem Z cR Z nat.

(* the remaining script = the world state *)
Record script : Type := {
  sc_apps : list (list cevent * result Z);   (* per application: callback events, then returned token or exception *)
  sc_ests : list (option Z);                 (* per call of get_n_expected_circuit_evaluations *)
}.

Definition ScriptExhausted : string := "ScriptExhausted".

Definition s_apply (_ : nat) (w : script) (_ : Z) : list cevent * result Z * script :=
  match sc_apps w with
  | [] => ([], Err ScriptExhausted, w)
  | (evs, rp) :: rest => (evs, rp, {| sc_apps := rest; sc_ests := sc_ests w |})
  end.

Definition s_estimate (_ : nat) (w : script) (_ : Z) : option Z * script :=
  match sc_ests w with
  | [] => (None, w)
  | e :: rest => (e, {| sc_apps := sc_apps w; sc_ests := rest |})
  end.

(* scripted criterion: the k-th call answers the k-th entry, false once the entries are used up *)
Definition s_criterion (answers : list bool) (hist : list cR) (_ : Z) (_ : Q) : bool :=
  nth (length hist - 1) answers false.

(* tokens: the distribution of individual i behind initial state x is the token (x xor i);
   aux evaluator a (which was constructed with the same initial state) yields 1000 a + that token *)
Definition s_measure (init : option Z) (i : Z) : Z := Z.lxor (match init with Some x => x | None => 0%Z end) i.
Definition s_aux_eval (init : option Z) (a : Z) (i : Z) : Z := (1000 * a + s_measure init i)%Z.

Definition s_world (sc : script) (pop0 : Z) (init : option Z) : world Z cR Z nat script Z Z Z Z :=
  {| w_apply := s_apply; w_estimate := s_estimate; w_measure := s_measure; w_aux_eval := s_aux_eval init;
     w_pop0 := pop0; w_init := sc |}.

Record scase : Type := {
  (* configuration and script *)
  c_n_ops : nat;
  c_max_generations : option Z;
  c_max_evals : option Z;
  c_criterion : option (list bool);
  c_init : option Z;
  c_aux : aux_shape Z;
  c_pop0 : Z;
  c_script : script;
  (* observed on the implementation *)
  x_starts : list (nat * Z * option (list Z) * option nat * option Z);
      (* per apply_operator call: operator index, population token received, ledger and n_generations then
         (None when they could not be observed), estimate that operator had just answered *)
  x_crits : list (Z * Z * Q * bool);     (* per criterion call: result id, best individual, best value, answer *)
  x_outcome : result (Q * Z * list Z * nat * list Z * option Z * aux_shape Z);
      (* eigenvalue, best individual, circuit_evaluations, generations, ids of the history, eigenstate token
         (None: not compared), aux values *)
}.

Definition s_config (c : scase) : config Z cR nat Z Z :=
  {| cfg_ops := seq 0 (c_n_ops c);
     cfg_max_generations := c_max_generations c;
     cfg_max_evals := c_max_evals c;
     cfg_criterion := option_map s_criterion (c_criterion c);
     cfg_init := c_init c;
     cfg_aux := c_aux c |}.

(* every pass that does not end the loop starts at least one application, so this fuel is never the limit *)
Definition s_fuel (c : scase) : nat := length (sc_apps (c_script c)) + 2.

Definition s_solve (c : scase) : list ctitem * result (solve_result Z cR Z Z Z) :=
  solve Z cR Z nat script Z Z Z Z c_best_value c_best_ind (s_config c) (s_world (c_script c) (c_pop0 c) (c_init c)) (s_fuel c).

Definition m_starts (tr : list ctitem) : list (nat * Z * list Z * nat * option Z) :=
  flat_map (fun x => match x with TStart op pop l g e => [(op, pop, l, g, e)] | _ => [] end) tr.
Definition m_crits (tr : list ctitem) : list (Z * Z * Q * bool) :=
  flat_map (fun x => match x with TCrit r bi bv b => [(c_rid r, bi, bv, b)] | _ => [] end) tr.

Definition opt_agrees {A} (eqb : A -> A -> bool) (observed : option A) (model : A) : bool :=
  match observed with None => true | Some x => eqb x model end.

Definition start_eqb (o : nat * Z * option (list Z) * option nat * option Z) (m : nat * Z * list Z * nat * option Z) : bool :=
  let '(oop, opop, ol, og, oe) := o in
  let '(mop, mpop, ml, mg, me) := m in
  Nat.eqb oop mop && Z.eqb opop mpop && opt_agrees (list_eqb Z.eqb) ol ml && opt_agrees Nat.eqb og mg
  && option_eqb Z.eqb oe me.

Fixpoint list_eqb2 {A B} (eqb : A -> B -> bool) (l1 : list A) (l2 : list B) : bool :=
  match l1, l2 with
  | [], [] => true
  | x :: xs, y :: ys => eqb x y && list_eqb2 eqb xs ys
  | _, _ => false
  end.

Definition crit_eqb (o m : Z * Z * Q * bool) : bool :=
  let '(orid, oi, ov, ob) := o in
  let '(mrid, mi, mv, mb) := m in
  Z.eqb orid mrid && Z.eqb oi mi && Qeq_bool ov mv && Bool.eqb ob mb.

Definition aux_eqb (a b : aux_shape Z) : bool :=
  match a, b with
  | ANone, ANone => true
  | AList l1, AList l2 => list_eqb Z.eqb l1 l2
  | ADict l1, ADict l2 => list_eqb (fun x y => String.eqb (fst x) (fst y) && Z.eqb (snd x) (snd y)) l1 l2
  | _, _ => false
  end.

Definition outcome_eqb (o : Q * Z * list Z * nat * list Z * option Z * aux_shape Z) (m : solve_result Z cR Z Z Z) : bool :=
  let '(ev, bi, led, gen, hist, es, aux) := o in
  Qeq_bool ev (sr_eigenvalue _ _ _ _ _ m)
  && Z.eqb bi (sr_best_individual _ _ _ _ _ m)
  && list_eqb Z.eqb led (sr_circuit_evaluations _ _ _ _ _ m)
  && Nat.eqb gen (sr_generations _ _ _ _ _ m)
  && list_eqb Z.eqb hist (map c_rid (sr_history _ _ _ _ _ m))
  && opt_agrees Z.eqb es (sr_eigenstate _ _ _ _ _ m)
  && aux_eqb aux (sr_aux _ _ _ _ _ m).

Definition check_case (c : scase) : bool :=
  let '(tr, out) := s_solve c in
  list_eqb2 start_eqb (x_starts c) (m_starts tr)
  && list_eqb crit_eqb (x_crits c) (m_crits tr)
  && match x_outcome c, out with
     | Ok o, Ok m => outcome_eqb o m
     | Err e1, Err e2 => String.eqb e1 e2
     | _, _ => false
     end.

(* C12's view of the same case: the sequence of operator starts (with ledger, n_generations, estimate), which result
   the criterion was consulted for and what it answered, whether the solve returned or what it raised, and the
   number of generations.  Which individual is the best one is C05's subject and not compared here. *)
Definition crit_answer_eqb (o m : Z * Z * Q * bool) : bool :=
  let '(orid, _, _, ob) := o in
  let '(mrid, _, _, mb) := m in
  Z.eqb orid mrid && Bool.eqb ob mb.

Definition check_case_limits (c : scase) : bool :=
  let '(tr, out) := s_solve c in
  list_eqb2 start_eqb (x_starts c) (m_starts tr)
  && list_eqb crit_answer_eqb (x_crits c) (m_crits tr)
  && match x_outcome c, out with
     | Ok (_, _, _, gen, _, _, _), Ok m => Nat.eqb gen (sr_generations _ _ _ _ _ m)
     | Err e1, Err e2 => String.eqb e1 e2
     | _, _ => false
     end.

(* what the model answers, for replay files *)
Definition show_case (c : scase) :=
  let '(tr, out) := s_solve c in
  (m_starts tr, m_crits tr,
   match out with
   | Ok m => Ok (sr_eigenvalue _ _ _ _ _ m, sr_best_individual _ _ _ _ _ m, sr_circuit_evaluations _ _ _ _ _ m,
                 sr_generations _ _ _ _ _ m, map c_rid (sr_history _ _ _ _ _ m), sr_eigenstate _ _ _ _ _ m,
                 sr_aux _ _ _ _ _ m)
   | Err e => Err e
   end).


(* ------------------------------------------------------------------------------------------------------------------
   Concrete cases used by the Examples / witnesses of Props/C05.v and Props/C12.v (observation fields unused). *)
Definition ex_r0 : cR := (0%Z, 3%Z, Qmake 1 2).
Definition ex_r1 : cR := (1%Z, 5%Z, Qmake 1 2).
Definition ex_r2 : cR := (2%Z, 6%Z, Qmake 3 2).

(* EVQE-shaped: three operators, the third reports count + result; two generations, the later one is better;
   budget 100, estimates given, criterion never answers terminate before max_generations = 2 stops the run *)
Definition ex_run : scase :=
  Build_scase 3 (Some 2%Z) (Some 100%Z) (Some [false; false; true]) (Some 5%Z) (AList [1%Z]) 0%Z
    (Build_script [([EvalCount 4], Ok 1%Z); ([], Ok 2%Z); ([EvalCount 2; Result ex_r2], Ok 3%Z);
                   ([EvalCount 4], Ok 4%Z); ([], Ok 5%Z); ([EvalCount 2; Result ex_r0], Ok 6%Z);
                   ([EvalCount 7], Ok 7%Z)] [Some 4%Z; None; Some 2%Z])
    [] [] (Err ""%string).

(* one application reports two results and only then a count: the ledger has fewer entries than generations *)
Definition ex_uncounted : scase :=
  Build_scase 1 (Some 2%Z) None None None ANone 0%Z
    (Build_script [([Result ex_r0; Result ex_r1; EvalCount 5], Ok 1%Z)] [])
    [] [] (Err ""%string).

(* one application reports two results; the criterion answers terminate for the first and continue for the second *)
Definition ex_overwrite : scase :=
  Build_scase 1 (Some 3%Z) None (Some [true; false]) None ANone 0%Z
    (Build_script [([Result ex_r0; Result ex_r1], Ok 1%Z); ([EvalCount 1; Result ex_r2], Ok 2%Z)] [])
    [] [] (Err ""%string).

(* the criterion answers terminate at the first result (one result per application) *)
Definition ex_crit_stop : scase :=
  Build_scase 2 None None (Some [true]) None ANone 0%Z
    (Build_script [([EvalCount 3; Result ex_r0], Ok 1%Z); ([EvalCount 9], Ok 2%Z)] [])
    [] [] (Err ""%string).

(* the budget binds: 3 + 2 = 5 evaluations reported reach max_circuit_evaluations = 5, the third application (which
   would report 9 more) is never started *)
Definition ex_budget : scase :=
  Build_scase 2 None (Some 5%Z) None None ANone 0%Z
    (Build_script [([EvalCount 3], Ok 1%Z); ([EvalCount 2; Result ex_r0], Ok 2%Z); ([EvalCount 9], Ok 3%Z)] [])
    [] [] (Err ""%string).

(* a world in which every application of the single operator reports one count and one result, forever *)
Definition steady_world : world Z cR Z nat unit Z Z Z Z :=
  {| w_apply := fun _ _ p => ([EvalCount 2; Result ex_r0], Ok p, tt);
     w_estimate := fun _ _ _ => (None, tt);
     w_measure := s_measure; w_aux_eval := s_aux_eval None; w_pop0 := 0%Z; w_init := tt |}.
Definition steady_config (G : Z) : config Z cR nat Z Z :=
  {| cfg_ops := [0%nat]; cfg_max_generations := Some G; cfg_max_evals := None; cfg_criterion := None;
     cfg_init := None; cfg_aux := ANone |}.
