(* Solver/Loop_proofs.v — the invariant of the evolution loop and what follows from it.
   SInv relates the callbacks' variables to the events reported so far; LInv adds the facts about the ghost trace
   (what held at every operator start).  Both are proved by induction over the loop: events of one application
   (fold_left do_event), operators of one pass (for_ops), passes (while_loop on fuel). *)
From QV Require Import Common.Base Solver.Loop Solver.Ledger Solver.Ledger_proofs.
From Coq Require Import QArith.

(* ------------------------------------------------------------------------------------------ add_at *)
Lemma add_at_ok i e l :
  (i < length l)%nat -> exists l', add_at i e l = Ok l' /\ length l' = length l /\ sumZ l' = (sumZ l + e)%Z.
Proof.
  revert i; induction l as [|x xs IH]; intros i H; simpl in H; [lia|].
  destruct i as [|i]; simpl.
  - eexists; split; [reflexivity|]. simpl. split; lia.
  - destruct (IH i ltac:(lia)) as (l' & -> & H2 & H3). simpl. eexists; split; [reflexivity|]. simpl. split; lia.
Qed.

Lemma add_at_last l x e : add_at (length l) e (l ++ [x]) = Ok (l ++ [(x + e)%Z]).
Proof.
  induction l as [|y ys IH]; simpl; [reflexivity|]. rewrite IH. reflexivity.
Qed.

Ltac splits := repeat match goal with |- _ /\ _ => split end.

Section LoopProofs.
  Variables Ind R Pop Op W Init Dist AuxEv AV : Type.
  Variable best_value : R -> Q.
  Variable best_ind : R -> Ind.

  Notation event := (event R).
  Notation titem := (titem Ind R Pop Op).
  Notation config := (config Ind R Op Init AuxEv).
  Notation world := (world Ind R Pop Op W Init Dist AuxEv AV).
  Notation state := (state Ind R).
  Notation ls := (ls Ind R Pop Op W).
  Notation events_of := (events_of Ind R Pop Op).
  Notation results_of := (results_of R).
  Notation counts_of := (counts_of R).
  Notation split_gens := (split_gens R).
  Notation ledger_spec := (ledger_spec R).
  Notation counted := (counted R).
  Notation is_start := (is_start Ind R Pop Op).
  Notation last_crit := (last_crit Ind R Pop Op).
  Notation single_result := (single_result Ind R Pop Op).
  Notation n_results := (n_results Ind R Pop Op).
  Notation first_min := (first_min R best_value).
  Notation result_callback := (result_callback Ind R Pop Op Init AuxEv best_value best_ind).
  Notation circuit_evaluation_callback := (circuit_evaluation_callback Ind R).
  Notation do_event := (do_event Ind R Pop Op W Init AuxEv best_value best_ind).
  Notation for_ops := (for_ops Ind R Pop Op W Init Dist AuxEv AV best_value best_ind).
  Notation while_loop := (while_loop Ind R Pop Op W Init Dist AuxEv AV best_value best_ind).
  Notation run := (run Ind R Pop Op W Init Dist AuxEv AV best_value best_ind).
  Notation solve := (solve Ind R Pop Op W Init Dist AuxEv AV best_value best_ind).
  Notation finish := (finish Ind R Pop Op W Init Dist AuxEv AV).
  Notation limit_checks := (limit_checks Ind R Op Init AuxEv).

  (* ======================================================================================== callbacks *)
  Definition best_inv (hist : list R) (bi : option Ind) (bv : option Q) : Prop :=
    (hist = [] /\ bi = None /\ bv = None)
    \/ (exists i r, first_min hist i r /\ bi = Some (best_ind r) /\ bv = Some (best_value r)).

  Record SInv (st : state) (evs : list event) : Prop := {
    si_hist : st_hist _ _ st = results_of evs;
    si_ngen : st_ngen _ _ st = length (st_hist _ _ st);
    si_sum : sumZ (st_ledger _ _ st) = sumZ (counts_of evs);
    si_len : (length (st_ledger _ _ st) <= st_ngen _ _ st + 1)%nat;
    si_best : best_inv (st_hist _ _ st) (st_best_ind _ _ st) (st_best_val _ _ st);
    si_shape : counted evs -> st_ledger _ _ st = ledger_spec evs;
  }.

  Lemma SInv_init : SInv (state0 Ind R) [].
  Proof.
    split; simpl; auto; try lia. left; auto.
  Qed.

  Lemma ledger_spec_unfold evs :
    ledger_spec evs = map sumZ (fst (split_gens evs)) ++ match snd (split_gens evs) with [] => [] | _ => [sumZ (snd (split_gens evs))] end.
  Proof. unfold Ledger.ledger_spec. destruct (split_gens evs); reflexivity. Qed.

  Lemma cb_count st evs n :
    SInv st evs ->
    exists st', circuit_evaluation_callback n st = Ok st'
      /\ SInv st' (evs ++ [EvalCount n])
      /\ st_term _ _ st' = st_term _ _ st /\ st_ngen _ _ st' = st_ngen _ _ st /\ st_hist _ _ st' = st_hist _ _ st.
  Proof.
    intros [Hh Hg Hs Hl Hb Hsh]. unfold Loop.circuit_evaluation_callback.
    destruct (Nat.ltb_spec (length (st_ledger _ _ st)) (st_ngen _ _ st + 1)) as [Hlt | Hge].
    - eexists; split; [reflexivity|]. split; [|auto]. split; simpl; auto.
      + rewrite results_of_app, app_nil_r; assumption.
      + rewrite sumZ_app, counts_of_app, sumZ_app, Hs. reflexivity.
      + rewrite app_length; simpl; lia.
      + intros Hc. apply counted_snoc_count in Hc. specialize (Hsh Hc).
        rewrite ledger_spec_unfold, split_gens_snoc_count.
        rewrite ledger_spec_unfold in Hsh.
        pose proof (split_gens_length R evs) as Hlen. rewrite <- Hh, <- Hg in Hlen.
        destruct (split_gens evs) as [g t]; simpl in *.
        destruct t as [|t0 ts]; simpl.
        * rewrite Hsh, app_nil_r. f_equal. f_equal. lia.
        * exfalso. rewrite Hsh, app_length, map_length in Hlt. simpl in Hlt. lia.
    - assert (Hidx : (st_ngen _ _ st < length (st_ledger _ _ st))%nat) by lia.
      destruct (add_at_ok _ n _ Hidx) as (l' & Hadd & Hlen' & Hsum').
      rewrite Hadd. simpl. eexists; split; [reflexivity|]. split; [|auto]. split; simpl; auto.
      + rewrite results_of_app, app_nil_r; assumption.
      + rewrite Hsum', counts_of_app, sumZ_app, Hs. simpl. lia.
      + lia.
      + intros Hc. apply counted_snoc_count in Hc. specialize (Hsh Hc).
        rewrite ledger_spec_unfold, split_gens_snoc_count.
        rewrite ledger_spec_unfold in Hsh.
        pose proof (split_gens_length R evs) as Hlen. rewrite <- Hh, <- Hg in Hlen.
        destruct (split_gens evs) as [g t]; simpl in *.
        destruct t as [|t0 ts].
        * exfalso. rewrite Hsh, app_nil_r, map_length in Hge. lia.
        * rewrite Hsh in Hadd. rewrite <- Hlen, <- (map_length sumZ g) in Hadd.
          rewrite add_at_last in Hadd. inversion Hadd; subst l'.
          f_equal. simpl. destruct (ts ++ [n]) eqn:E; [destruct ts; discriminate|]. rewrite <- E.
          f_equal. change (t0 :: ts ++ [n]) with ((t0 :: ts) ++ [n]). rewrite sumZ_app. simpl. lia.
  Qed.

  (* what the criterion call of a result looks like *)
  Definition crit_of (cfg : config) (r : R) (st' : state) (oc : option titem) : Prop :=
    match cfg_criterion _ _ _ _ _ cfg with
    | None => oc = None
    | Some c => exists i v, oc = Some (TCrit r i v (st_term _ _ st'))
    end.

  Lemma cb_result cfg st evs r :
    SInv st evs ->
    exists st' oc, result_callback cfg r st = Ok (st', oc)
      /\ SInv st' (evs ++ [Result r])
      /\ crit_of cfg r st' oc
      /\ (cfg_criterion _ _ _ _ _ cfg = None -> st_term _ _ st' = st_term _ _ st)
      /\ st_ngen _ _ st' = S (st_ngen _ _ st)
      /\ st_ledger _ _ st' = st_ledger _ _ st.
  Proof.
    intros [Hh Hg Hs Hl Hb Hsh]. unfold Loop.result_callback.
    set (bb := match st_best_ind _ _ st, st_best_val _ _ st with
               | Some i, Some v => if Qltb (best_value r) v then (Some (best_ind r), Some (best_value r)) else (Some i, Some v)
               | _, _ => (Some (best_ind r), Some (best_value r)) end).
    assert (Hbb : exists i v, bb = (Some i, Some v) /\ best_inv (st_hist _ _ st ++ [r]) (Some i) (Some v)).
    { subst bb. destruct Hb as [(He & Hi & Hv) | (i & r0 & Hfm & Hi & Hv)]; rewrite Hi; try rewrite Hv.
      - do 2 eexists; split; [reflexivity|]. right. exists 0%nat, r. rewrite He. split; [apply first_min_single | auto].
      - destruct (Qltb (best_value r) (best_value r0)) eqn:E.
        + do 2 eexists; split; [reflexivity|]. right. exists (length (st_hist _ _ st)), r. split; auto.
          eapply first_min_snoc_new; [eassumption | apply Qltb_lt; assumption].
        + do 2 eexists; split; [reflexivity|]. right. exists i, r0. split; auto.
          eapply first_min_snoc_keep; [eassumption | apply Qltb_ge; assumption]. }
    destruct Hbb as (i & v & -> & Hbi).
    assert (Hcommon : forall b, SInv {| st_ledger := st_ledger _ _ st; st_ngen := S (st_ngen _ _ st); st_term := b;
                                        st_best_ind := Some i; st_best_val := Some v; st_hist := st_hist _ _ st ++ [r] |}
                                     (evs ++ [Result r])).
    { intros b. split; simpl.
      - rewrite results_of_app, Hh. reflexivity.
      - rewrite app_length; simpl; lia.
      - rewrite counts_of_app, sumZ_app, Hs. simpl. lia.
      - lia.
      - exact Hbi.
      - intros Hc. apply counted_snoc_result in Hc as [Hc Ht]. specialize (Hsh Hc).
        rewrite ledger_spec_unfold, split_gens_snoc_result. rewrite ledger_spec_unfold in Hsh.
        destruct (split_gens evs) as [g t]; simpl in *.
        destruct t as [|t0 ts]; [congruence|]. rewrite Hsh, map_app, app_nil_r. reflexivity. }
    unfold crit_of. destruct (cfg_criterion _ _ _ _ _ cfg) as [c|].
    - do 2 eexists; split; [reflexivity|]. split; [apply Hcommon|]. simpl. split; [eauto|]. split; [discriminate | auto].
    - do 2 eexists; split; [reflexivity|]. split; [apply Hcommon|]. simpl. auto.
  Qed.

  (* ======================================================================================== the trace invariant *)
  (* what held when an operator was started, in terms of the trace before the start *)
  Definition start_ok (cfg : config) (t1 : list titem) (led : list Z) (ng : nat) (est : option Z) : Prop :=
    sumZ led = sumZ (counts_of (events_of t1))
    /\ ng = length (results_of (events_of t1))
    /\ (forall B, cfg_max_evals _ _ _ _ _ cfg = Some B -> (sumZ led < B)%Z /\ forall e, est = Some e -> (sumZ led + e < B)%Z)
    /\ (forall G, cfg_max_generations _ _ _ _ _ cfg = Some G -> (Z.of_nat ng < G)%Z)
    /\ last_crit t1 <> Some true.

  (* facts about the trace alone *)
  Record TInv (cfg : config) (tr : list titem) : Prop := {
    ti_start : forall t1 op pop led ng est t2,
        tr = t1 ++ TStart op pop led ng est :: t2 -> start_ok cfg t1 led ng est;
    ti_wf_ev : forall t1 e t2, tr = t1 ++ TEv e :: t2 -> existsb is_start t1 = true;
    ti_wf_crit : forall t1 r bi bv b t2,
        tr = t1 ++ TCrit r bi bv b :: t2 -> exists t1', t1 = t1' ++ [TEv (Result r)];
  }.

  Notation tr_of s := (l_tr _ _ _ _ _ s).
  Notation st_of s := (l_st _ _ _ _ _ s).
  Notation err_of s := (l_err _ _ _ _ _ s).

  Record LInv (cfg : config) (s : ls) : Prop := {
    li_s : SInv (st_of s) (events_of (tr_of s));
    li_crit : last_crit (tr_of s) = Some true -> st_term _ _ (st_of s) = true;
    li_t : TInv cfg (tr_of s);
  }.

  Lemma TInv_nil cfg : TInv cfg [].
  Proof.
    split.
    - intros t1 ? ? ? ? ? t2 H. destruct t1; discriminate.
    - intros t1 ? t2 H. destruct t1; discriminate.
    - intros t1 ? ? ? ? t2 H. destruct t1; discriminate.
  Qed.

  Lemma LInv_init cfg wd : LInv cfg (ls0 Ind R Pop Op W Init Dist AuxEv AV wd).
  Proof.
    split; simpl; [apply SInv_init | discriminate | apply TInv_nil].
  Qed.

  Lemma TInv_snoc_ev cfg tr e : TInv cfg tr -> existsb is_start tr = true -> TInv cfg (tr ++ [TEv e]).
  Proof.
    intros [H1 H2 H3] Hs. split.
    - intros t1 op pop led ng est t2 H. apply snoc_split in H as [(_ & _ & H) | (t2' & _ & H)]; [discriminate | eauto].
    - intros t1 e' t2 H. apply snoc_split in H as [(_ & H & _) | (t2' & _ & H)]; [subst; assumption | eauto].
    - intros t1 r bi bv b t2 H. apply snoc_split in H as [(_ & _ & H) | (t2' & _ & H)]; [discriminate | eauto].
  Qed.

  Lemma TInv_snoc_crit cfg tr r bi bv b :
    TInv cfg (tr ++ [TEv (Result r)]) -> TInv cfg ((tr ++ [TEv (Result r)]) ++ [TCrit r bi bv b]).
  Proof.
    intros [H1 H2 H3]. split.
    - intros t1 op pop led ng est t2 H. apply snoc_split in H as [(_ & _ & H) | (t2' & _ & H)]; [discriminate | eauto].
    - intros t1 e' t2 H. apply snoc_split in H as [(_ & _ & H) | (t2' & _ & H)]; [discriminate | eauto].
    - intros t1 r' bi' bv' b' t2 H. apply snoc_split in H as [(_ & H & H') | (t2' & _ & H)]; [|eauto].
      inversion H'; subst. eauto.
  Qed.

  Lemma TInv_snoc_start cfg tr op pop led ng est :
    TInv cfg tr -> start_ok cfg tr led ng est -> TInv cfg (tr ++ [TStart op pop led ng est]).
  Proof.
    intros [H1 H2 H3] Hok. split.
    - intros t1 op' pop' led' ng' est' t2 H. apply snoc_split in H as [(_ & H & H') | (t2' & _ & H)]; [|eauto].
      inversion H'; subst. assumption.
    - intros t1 e' t2 H. apply snoc_split in H as [(_ & _ & H) | (t2' & _ & H)]; [discriminate | eauto].
    - intros t1 r bi bv b t2 H. apply snoc_split in H as [(_ & _ & H) | (t2' & _ & H)]; [discriminate | eauto].
  Qed.

  Lemma limit_checks_false cfg st est :
    limit_checks cfg st est = false ->
    st_term _ _ st = false
    /\ (forall B, cfg_max_evals _ _ _ _ _ cfg = Some B ->
          (sumZ (st_ledger _ _ st) < B)%Z /\ forall e, est = Some e -> (sumZ (st_ledger _ _ st) + e < B)%Z)
    /\ (forall G, cfg_max_generations _ _ _ _ _ cfg = Some G -> (Z.of_nat (st_ngen _ _ st) < G)%Z).
  Proof.
    unfold Loop.limit_checks. intros H.
    destruct (cfg_max_generations _ _ _ _ _ cfg) as [G|]; destruct (cfg_max_evals _ _ _ _ _ cfg) as [B|]; destruct est as [e|];
      repeat match type of H with context [(?a >=? ?b)%Z] => destruct (Z.geb_spec a b) end; try discriminate;
      (split; [assumption|]); split; intros X HX; try discriminate; inversion HX; subst; try lia;
      (split; [lia|]); intros e' He'; try discriminate; inversion He'; subst; lia.
  Qed.


  Lemma SInv_set_term b st evs : SInv st evs -> SInv (set_term _ _ b st) evs.
  Proof. intros [H1 H2 H3 H4 H5 H6]. split; simpl; assumption. Qed.

  Lemma last_crit_snoc_other (tr : list titem) x :
    (forall r bi bv b, x <> TCrit r bi bv b) -> last_crit (tr ++ [x]) = last_crit tr.
  Proof.
    intros H. rewrite last_crit_app. simpl. destruct x; try reflexivity. exfalso. eapply H. reflexivity.
  Qed.

  (* ======================================================================================== one callback event *)
  Lemma do_event_inv cfg s e :
    LInv cfg s -> existsb is_start (tr_of s) = true ->
    let s' := do_event cfg s e in
    LInv cfg s' /\ existsb is_start (tr_of s') = true
    /\ l_pop _ _ _ _ _ s' = l_pop _ _ _ _ _ s /\ l_w _ _ _ _ _ s' = l_w _ _ _ _ _ s
    /\ (err_of s = None -> err_of s' = None)
    /\ (cfg_criterion _ _ _ _ _ cfg = None -> st_term _ _ (st_of s') = st_term _ _ (st_of s))
    /\ exists items, tr_of s' = tr_of s ++ items /\ existsb is_start items = false
                     /\ (err_of s = None -> events_of items = [e]).
  Proof.
    intros Hinv Hst. pose proof Hinv as [Hs Hc Ht]. unfold Loop.do_event.
    destruct (err_of s) eqn:Herr.
    { simpl. splits; auto; try discriminate. exists []. rewrite app_nil_r. splits; auto. discriminate. }
    destruct e as [n | r]; simpl.
    - destruct (cb_count _ _ n Hs) as (st' & Hcb & Hs' & Hterm & Hng & Hh).
      rewrite Hcb. simpl. splits; simpl; auto.
      + split; simpl.
        * rewrite events_of_app. simpl. assumption.
        * rewrite last_crit_snoc_other by (intros; discriminate). rewrite Hterm. assumption.
        * apply TInv_snoc_ev; assumption.
      + rewrite existsb_is_start_app, Hst. reflexivity.
      + exists [TEv (EvalCount n)]. splits; auto.
    - destruct (cb_result cfg _ _ r Hs) as (st' & oc & Hcb & Hs' & Hcr & Hterm & Hng & Hled).
      rewrite Hcb. unfold crit_of in Hcr.
      destruct (cfg_criterion _ _ _ _ _ cfg) as [c|] eqn:Hcrit.
      + destruct Hcr as (i & v & ->). simpl. splits; simpl; auto; try discriminate.
        * split; simpl.
          -- rewrite !events_of_app. simpl. rewrite app_nil_r. assumption.
          -- rewrite last_crit_app. simpl. intros H; inversion H; reflexivity.
          -- apply TInv_snoc_crit. apply TInv_snoc_ev; assumption.
        * rewrite !existsb_is_start_app, Hst. reflexivity.
        * exists [TEv (Result r); TCrit r i v (st_term _ _ st')]. rewrite <- app_assoc. splits; auto.
      + subst oc. simpl. splits; simpl; auto.
        * split; simpl.
          -- rewrite events_of_app. simpl. assumption.
          -- rewrite last_crit_snoc_other by (intros; discriminate). rewrite (Hterm eq_refl). assumption.
          -- apply TInv_snoc_ev; assumption.
        * rewrite existsb_is_start_app, Hst. reflexivity.
        * exists [TEv (Result r)]. splits; auto.
  Qed.

  (* ======================================================================================== one application *)
  Lemma fold_events_inv cfg evs : forall s,
    LInv cfg s -> existsb is_start (tr_of s) = true ->
    let s' := fold_left (do_event cfg) evs s in
    LInv cfg s' /\ existsb is_start (tr_of s') = true
    /\ l_pop _ _ _ _ _ s' = l_pop _ _ _ _ _ s /\ l_w _ _ _ _ _ s' = l_w _ _ _ _ _ s
    /\ (err_of s = None -> err_of s' = None)
    /\ (cfg_criterion _ _ _ _ _ cfg = None -> st_term _ _ (st_of s') = st_term _ _ (st_of s))
    /\ exists items, tr_of s' = tr_of s ++ items /\ existsb is_start items = false
                     /\ (err_of s = None -> events_of items = evs).
  Proof.
    induction evs as [|e evs IH]; intros s Hinv Hst; simpl.
    - splits; auto. exists []. rewrite app_nil_r. auto.
    - destruct (do_event_inv cfg s e Hinv Hst) as (H1 & H2 & H3 & H4 & H5 & H6 & items1 & H7 & H8 & H9).
      destruct (IH _ H1 H2) as (I1 & I2 & I3 & I4 & I5 & I6 & items2 & I7 & I8 & I9).
      splits; auto; try congruence.
      + intros Hc. rewrite (I6 Hc). auto.
      + exists (items1 ++ items2). rewrite I7, H7, <- app_assoc. splits; auto.
        * rewrite existsb_is_start_app, H8, I8. reflexivity.
        * intros He. rewrite events_of_app, (H9 He), (I9 (H5 He)). reflexivity.
  Qed.

  (* ======================================================================================== one pass / the loop *)
  Lemma LInv_fail cfg x s : LInv cfg s -> LInv cfg (fail _ _ _ _ _ x s).
  Proof. intros [H1 H2 H3]. split; assumption. Qed.
  Lemma LInv_with_pop cfg p s : LInv cfg s -> LInv cfg (with_pop _ _ _ _ _ p s).
  Proof. intros [H1 H2 H3]. split; assumption. Qed.

  (* the state in which the events of an application are processed: limit checks passed, start recorded *)
  Definition started (op : Op) (est : option Z) (w1 w2 : W) (s : ls) : ls :=
    with_w _ _ _ _ _ w2
      (emit _ _ _ _ _ (TStart op (l_pop _ _ _ _ _ s) (st_ledger _ _ (st_of s)) (st_ngen _ _ (st_of s)) est)
         (with_w _ _ _ _ _ w1 (with_st _ _ _ _ _ (set_term _ _ false (st_of s)) s))).

  Lemma started_inv cfg s op est w1 w2 :
    LInv cfg s -> limit_checks cfg (st_of s) est = false ->
    LInv cfg (started op est w1 w2 s) /\ existsb is_start (tr_of (started op est w1 w2 s)) = true.
  Proof.
    intros [H1 H2 H3] Elim. destruct (limit_checks_false _ _ _ Elim) as (Hterm & HB & HG). split.
    - split; simpl.
      + rewrite events_of_app. simpl. rewrite app_nil_r. apply SInv_set_term; assumption.
      + rewrite last_crit_snoc_other by (intros; discriminate). intros Hl. rewrite (H2 Hl) in Hterm. discriminate.
      + apply TInv_snoc_start; [assumption|]. unfold start_ok. splits.
        * apply (si_sum _ _ H1).
        * rewrite (si_ngen _ _ H1), (si_hist _ _ H1). reflexivity.
        * exact HB.
        * exact HG.
        * intros Hl. rewrite (H2 Hl) in Hterm. discriminate.
    - simpl. rewrite existsb_is_start_app. simpl. apply orb_true_r.
  Qed.

  Lemma for_ops_inv cfg wd ops : forall s, LInv cfg s -> LInv cfg (for_ops cfg wd ops s).
  Proof.
    induction ops as [|op rest IH]; intros s Hinv; simpl; [assumption|].
    destruct (err_of s) eqn:Herr; [assumption|].
    destruct (w_estimate _ _ _ _ _ _ _ _ _ wd op (l_w _ _ _ _ _ s) (l_pop _ _ _ _ _ s)) as [est w1] eqn:Eest.
    destruct (limit_checks cfg (st_of s) est) eqn:Elim.
    - destruct Hinv as [H1 H2 H3]. split; simpl; auto. apply SInv_set_term; assumption.
    - destruct (w_apply _ _ _ _ _ _ _ _ _ wd op w1 (l_pop _ _ _ _ _ s)) as [[evs rpop] w2] eqn:Eapp.
      destruct (started_inv cfg s op est w1 w2 Hinv Elim) as [Hinv2 Hst2].
      destruct (fold_events_inv cfg evs _ Hinv2 Hst2) as (F1 & _).
      fold (started op est w1 w2 s).
      destruct (err_of (fold_left (do_event cfg) evs (started op est w1 w2 s))); [assumption|].
      destruct rpop as [p | x].
      + apply IH. apply LInv_with_pop. assumption.
      + apply LInv_fail. assumption.
  Qed.

  Lemma while_inv cfg wd fuel : forall s, LInv cfg s -> LInv cfg (while_loop cfg wd fuel s).
  Proof.
    induction fuel as [|f IH]; intros s Hinv; simpl.
    - destruct (err_of s); [assumption|]. destruct (st_term _ _ (st_of s)); [assumption | apply LInv_fail; assumption].
    - destruct (err_of s); [assumption|]. destruct (st_term _ _ (st_of s)); [assumption|].
      apply IH. apply for_ops_inv. assumption.
  Qed.

  Lemma run_inv cfg wd fuel : LInv cfg (run cfg wd fuel).
  Proof. apply while_inv, LInv_init. Qed.


  (* ======================================================================================== C05 *)
  Notation solve_result := (solve_result Ind R Init Dist AV).

  Lemma finish_ok cfg wd s res :
    finish cfg wd s = Ok res ->
    err_of s = None /\ st_hist _ _ (st_of s) <> [] /\
    exists i v, st_best_ind _ _ (st_of s) = Some i /\ st_best_val _ _ (st_of s) = Some v /\
      res = {| sr_eigenvalue := v;
               sr_eigenstate := w_measure _ _ _ _ _ _ _ _ _ wd (cfg_init _ _ _ _ _ cfg) i;
               sr_best_individual := i;
               sr_circuit_evaluations := st_ledger _ _ (st_of s);
               sr_generations := st_ngen _ _ (st_of s);
               sr_history := st_hist _ _ (st_of s);
               sr_initial_state := cfg_init _ _ _ _ _ cfg;
               sr_aux := aux_map (fun a => w_aux_eval _ _ _ _ _ _ _ _ _ wd a i) (cfg_aux _ _ _ _ _ cfg) |}.
  Proof.
    unfold Loop.finish. destruct (err_of s); [discriminate|].
    destruct (st_best_ind _ _ (st_of s)) as [i|]; [|discriminate].
    destruct (st_best_val _ _ (st_of s)) as [v|]; [|discriminate].
    destruct (st_hist _ _ (st_of s)) as [|h hs] eqn:E; [discriminate|].
    intros H; inversion H; subst. splits; auto; [discriminate|]. exists i, v. auto.
  Qed.

  Lemma solve_ok cfg wd fuel tr res :
    solve cfg wd fuel = (tr, Ok res) ->
    tr = tr_of (run cfg wd fuel) /\ finish cfg wd (run cfg wd fuel) = Ok res.
  Proof. unfold Loop.solve. intros H; inversion H; auto. Qed.

  Theorem eigenvalue_is_min cfg wd fuel tr res :
    solve cfg wd fuel = (tr, Ok res) ->
    sr_history _ _ _ _ _ res = results_of (events_of tr)
    /\ exists i r, first_min (sr_history _ _ _ _ _ res) i r
                   /\ sr_eigenvalue _ _ _ _ _ res = best_value r
                   /\ sr_best_individual _ _ _ _ _ res = best_ind r.
  Proof.
    intros H. apply solve_ok in H as [-> H]. apply finish_ok in H as (He & Hh & i & v & Hi & Hv & ->). simpl.
    pose proof (run_inv cfg wd fuel) as [Hs _ _]. split; [apply (si_hist _ _ Hs)|].
    destruct (si_best _ _ Hs) as [(E & _) | (k & r & Hfm & Hbi & Hbv)]; [contradiction|].
    exists k, r. rewrite Hi in Hbi. rewrite Hv in Hbv. inversion Hbi; inversion Hbv; subst. auto.
  Qed.

  Theorem generations_count cfg wd fuel tr res :
    solve cfg wd fuel = (tr, Ok res) ->
    sr_generations _ _ _ _ _ res = length (sr_history _ _ _ _ _ res)
    /\ sr_generations _ _ _ _ _ res = n_results tr.
  Proof.
    intros H. apply solve_ok in H as [-> H]. apply finish_ok in H as (He & Hh & i & v & Hi & Hv & ->). simpl.
    pose proof (run_inv cfg wd fuel) as [Hs _ _]. split; [apply (si_ngen _ _ Hs)|].
    unfold Ledger.n_results. rewrite (si_ngen _ _ Hs), (si_hist _ _ Hs). reflexivity.
  Qed.

  Theorem ledger_sum cfg wd fuel tr res :
    solve cfg wd fuel = (tr, Ok res) ->
    sumZ (sr_circuit_evaluations _ _ _ _ _ res) = sumZ (counts_of (events_of tr)).
  Proof.
    intros H. apply solve_ok in H as [-> H]. apply finish_ok in H as (He & Hh & i & v & Hi & Hv & ->). simpl.
    pose proof (run_inv cfg wd fuel) as [Hs _ _]. apply (si_sum _ _ Hs).
  Qed.

  Lemma ledger_spec_length evs :
    (length (results_of evs) <= length (ledger_spec evs) <= length (results_of evs) + 1)%nat.
  Proof.
    rewrite ledger_spec_unfold, app_length, map_length, split_gens_length.
    destruct (snd (split_gens evs)); simpl; lia.
  Qed.

  Theorem ledger_shape cfg wd fuel tr res :
    solve cfg wd fuel = (tr, Ok res) ->
    (length (sr_circuit_evaluations _ _ _ _ _ res) <= sr_generations _ _ _ _ _ res + 1)%nat
    /\ (counted (events_of tr) ->
        sr_circuit_evaluations _ _ _ _ _ res = ledger_spec (events_of tr)
        /\ (sr_generations _ _ _ _ _ res <= length (sr_circuit_evaluations _ _ _ _ _ res))%nat).
  Proof.
    intros H. apply solve_ok in H as [-> H]. apply finish_ok in H as (He & Hh & i & v & Hi & Hv & ->). simpl.
    pose proof (run_inv cfg wd fuel) as [Hs _ _]. split; [apply (si_len _ _ Hs)|].
    intros Hc. rewrite (si_shape _ _ Hs Hc). split; [reflexivity|].
    rewrite (si_ngen _ _ Hs), (si_hist _ _ Hs). apply ledger_spec_length.
  Qed.

  Theorem result_assembly cfg wd fuel tr res :
    solve cfg wd fuel = (tr, Ok res) ->
    sr_eigenstate _ _ _ _ _ res = w_measure _ _ _ _ _ _ _ _ _ wd (cfg_init _ _ _ _ _ cfg) (sr_best_individual _ _ _ _ _ res)
    /\ sr_aux _ _ _ _ _ res = aux_map (fun a => w_aux_eval _ _ _ _ _ _ _ _ _ wd a (sr_best_individual _ _ _ _ _ res)) (cfg_aux _ _ _ _ _ cfg)
    /\ sr_initial_state _ _ _ _ _ res = cfg_init _ _ _ _ _ cfg.
  Proof.
    intros H. apply solve_ok in H as [-> H]. apply finish_ok in H as (He & Hh & i & v & Hi & Hv & ->). simpl. auto.
  Qed.

  (* ======================================================================================== C12 *)
  Definition trace (cfg : config) (wd : world) (fuel : nat) : list titem := fst (solve cfg wd fuel).

  Lemma trace_run cfg wd fuel : trace cfg wd fuel = tr_of (run cfg wd fuel).
  Proof. reflexivity. Qed.

  Theorem budget_respected cfg wd fuel B t1 op pop led ng est t2 :
    cfg_max_evals _ _ _ _ _ cfg = Some B ->
    trace cfg wd fuel = t1 ++ TStart op pop led ng est :: t2 ->
    sumZ led = sumZ (counts_of (events_of t1))
    /\ (sumZ led < B)%Z
    /\ (forall e, est = Some e -> (sumZ led + e < B)%Z).
  Proof.
    intros HB H. rewrite trace_run in H. pose proof (run_inv cfg wd fuel) as [_ _ Ht].
    destruct (ti_start _ _ Ht _ _ _ _ _ _ _ H) as (H1 & H2 & H3 & H4 & H5).
    destruct (H3 _ HB). auto.
  Qed.

  Theorem start_sees_generations cfg wd fuel t1 op pop led ng est t2 :
    trace cfg wd fuel = t1 ++ TStart op pop led ng est :: t2 ->
    ng = n_results t1 /\ forall G, cfg_max_generations _ _ _ _ _ cfg = Some G -> (Z.of_nat ng < G)%Z.
  Proof.
    intros H. rewrite trace_run in H. pose proof (run_inv cfg wd fuel) as [_ _ Ht].
    destruct (ti_start _ _ Ht _ _ _ _ _ _ _ H) as (H1 & H2 & H3 & H4 & H5). auto.
  Qed.

  Theorem criterion_last_answer cfg wd fuel t1 op pop led ng est t2 :
    trace cfg wd fuel = t1 ++ TStart op pop led ng est :: t2 -> last_crit t1 <> Some true.
  Proof.
    intros H. rewrite trace_run in H. pose proof (run_inv cfg wd fuel) as [_ _ Ht].
    destruct (ti_start _ _ Ht _ _ _ _ _ _ _ H) as (H1 & H2 & H3 & H4 & H5). auto.
  Qed.

  Lemma no_start_no_events cfg (tr : list titem) : TInv cfg tr -> existsb is_start tr = false -> events_of tr = [].
  Proof.
    intros Ht Hn. destruct (events_of tr) eqn:E; [reflexivity|]. exfalso.
    destruct (events_nonempty_split Ind R Pop Op tr) as (t1 & e' & t2 & ->); [congruence|].
    pose proof (ti_wf_ev _ _ Ht _ _ _ eq_refl) as Hs.
    rewrite existsb_is_start_app, Hs in Hn. discriminate.
  Qed.

  Theorem max_generations_respected cfg wd fuel G :
    cfg_max_generations _ _ _ _ _ cfg = Some G ->
    single_result (trace cfg wd fuel) ->
    (Z.of_nat (n_results (trace cfg wd fuel)) <= Z.max 0 G)%Z.
  Proof.
    intros HG Hsr. rewrite trace_run in *. pose proof (run_inv cfg wd fuel) as [_ _ Ht].
    destruct (last_start_split Ind R Pop Op (tr_of (run cfg wd fuel))) as [Hn | (t1 & x & t2 & E & Hx & Hn)].
    - unfold Ledger.n_results. rewrite (no_start_no_events _ _ Ht Hn). simpl. lia.
    - destruct x as [op pop led ng est | |]; try discriminate.
      destruct (ti_start _ _ Ht _ _ _ _ _ _ _ E) as (H1 & H2 & H3 & H4 & H5).
      specialize (H4 _ HG).
      rewrite E in Hsr. change (t1 ++ TStart op pop led ng est :: t2) with (t1 ++ [TStart op pop led ng est] ++ t2) in Hsr.
      rewrite app_assoc in Hsr. pose proof (single_result_tail _ _ _ _ _ _ Hsr Hn) as Hle.
      unfold Ledger.n_results. rewrite E, events_of_app. simpl. rewrite results_of_app, app_length. lia.
  Qed.

  Theorem criterion_stops cfg wd fuel t1 r bi bv t2 :
    single_result (trace cfg wd fuel) ->
    trace cfg wd fuel = t1 ++ TCrit r bi bv true :: t2 ->
    existsb is_start t2 = false.
  Proof.
    intros Hsr E. destruct (existsb is_start t2) eqn:Hex; [exfalso | reflexivity].
    destruct (first_start_split Ind R Pop Op t2 Hex) as (a & x & b & -> & Hx & Ha).
    destruct x as [op pop led ng est | |]; try discriminate.
    pose proof (run_inv cfg wd fuel) as [_ _ Ht]. rewrite trace_run in *.
    (* the start sees a last answer that is not 'terminate': some criterion call happened within a *)
    assert (E' : tr_of (run cfg wd fuel) = (t1 ++ TCrit r bi bv true :: a) ++ TStart op pop led ng est :: b).
    { rewrite E, <- app_assoc. reflexivity. }
    destruct (ti_start _ _ Ht _ _ _ _ _ _ _ E') as (_ & _ & _ & _ & Hlc).
    rewrite last_crit_app in Hlc. simpl in Hlc.
    destruct (last_crit a) as [b'|] eqn:Hla; [|congruence].
    destruct (last_crit_some Ind R Pop Op a b' Hla) as (a1 & r' & bi' & bv' & a2 & -> & _).
    (* both criterion calls directly follow their result event *)
    destruct (ti_wf_crit _ _ Ht t1 r bi bv true _ E) as (t1' & ->).
    assert (E2 : tr_of (run cfg wd fuel) = ((t1' ++ [TEv (Result r)]) ++ TCrit r bi bv true :: a1) ++ TCrit r' bi' bv' b' :: (a2 ++ TStart op pop led ng est :: b)).
    { rewrite E. repeat (first [rewrite <- app_assoc | progress simpl]). reflexivity. }
    destruct (ti_wf_crit _ _ Ht _ _ _ _ _ _ E2) as (u & Hu).
    destruct a1 as [|z a1' _] using rev_ind.
    - change ((t1' ++ [TEv (Result r)]) ++ [TCrit r bi bv true]) with ((t1' ++ [TEv (Result r)]) ++ [TCrit r bi bv true]) in Hu.
      apply app_inj_tail in Hu as [_ Hu]. discriminate.
    - change (TCrit r bi bv true :: a1' ++ [z]) with ((TCrit r bi bv true :: a1') ++ [z]) in Hu.
      rewrite app_assoc in Hu. apply app_inj_tail in Hu as [_ Hz]. subst z.
      specialize (Hsr t1' r (TCrit r bi bv true :: a1') r' (TCrit r' bi' bv' b' :: a2 ++ TStart op pop led ng est :: b)).
      rewrite E in Hsr. repeat (first [rewrite <- app_assoc in Hsr | progress simpl in Hsr]).
      specialize (Hsr eq_refl).
      rewrite existsb_is_start_app in Ha. simpl in Ha. rewrite existsb_is_start_app in Ha.
      simpl in Hsr. rewrite Hsr in Ha. discriminate.
  Qed.

  Theorem raises_when_empty cfg wd fuel tr out :
    solve cfg wd fuel = (tr, out) ->
    n_results tr = 0%nat ->
    (exists e, out = Err e) /\ (err_of (run cfg wd fuel) = None -> out = Err NothingEvaluated).
  Proof.
    unfold Loop.solve. intros H; inversion H; subst. intros Hn.
    pose proof (run_inv cfg wd fuel) as [Hs _ _].
    unfold Ledger.n_results in Hn. rewrite <- (si_hist _ _ Hs) in Hn.
    unfold Loop.finish. destruct (err_of (run cfg wd fuel)); [split; [eauto | discriminate]|].
    destruct (st_hist _ _ (st_of (run cfg wd fuel))); [|discriminate].
    destruct (st_best_ind _ _ (st_of (run cfg wd fuel))); [destruct (st_best_val _ _ (st_of (run cfg wd fuel)))|]; split; eauto.
  Qed.

End LoopProofs.
