(* Solver/Shape_proofs.v — the hypotheses `single_result` and `counted` of C05/C12 discharged for worlds whose operator
   applications report what the EVQE operators report (Ledger.evqe_shape): nothing, one count, or one count followed by
   one result.  Generic tool: trace_blocks_ind, an induction principle over the applications of a run. *)
From QV Require Import Common.Base Solver.Loop Solver.Ledger Solver.Ledger_proofs Solver.Loop_proofs.
From Coq Require Import QArith.

Section Shape.
  Variables Ind R Pop Op W Init Dist AuxEv AV : Type.
  Variable best_value : R -> Q.
  Variable best_ind : R -> Ind.

  Notation event := (event R).
  Notation titem := (titem Ind R Pop Op).
  Notation config := (config Ind R Op Init AuxEv).
  Notation world := (world Ind R Pop Op W Init Dist AuxEv AV).
  Notation ls := (ls Ind R Pop Op W).
  Notation events_of := (events_of Ind R Pop Op).
  Notation results_of := (results_of R).
  Notation split_gens := (split_gens R).
  Notation counted := (counted R).
  Notation evqe_shape := (evqe_shape R).
  Notation is_start := (is_start Ind R Pop Op).
  Notation single_result := (single_result Ind R Pop Op).
  Notation single_result_b := (single_result_b Ind R Pop Op).
  Notation do_event := (do_event Ind R Pop Op W Init AuxEv best_value best_ind).
  Notation for_ops := (for_ops Ind R Pop Op W Init Dist AuxEv AV best_value best_ind).
  Notation while_loop := (while_loop Ind R Pop Op W Init Dist AuxEv AV best_value best_ind).
  Notation run := (run Ind R Pop Op W Init Dist AuxEv AV best_value best_ind).
  Notation trace := (trace Ind R Pop Op W Init Dist AuxEv AV best_value best_ind).
  Notation limit_checks := (limit_checks Ind R Op Init AuxEv).
  Notation LInv := (LInv Ind R Pop Op W Init AuxEv best_value best_ind).
  Notation started := (started Ind R Pop Op W).
  Notation tr_of s := (l_tr _ _ _ _ _ s).
  Notation st_of s := (l_st _ _ _ _ _ s).
  Notation err_of s := (l_err _ _ _ _ _ s).

  (* ------------------------------------------------------------------ induction over the applications of a run *)
  Section Blocks.
    Variable cfg : config.
    Variable wd : world.
    Variable P : list titem -> Prop.
    Hypothesis P_nil : P [].
    Hypothesis P_app : forall tr op pop led ng est w items,
      P tr -> existsb is_start items = false ->
      events_of items = fst (fst (w_apply _ _ _ _ _ _ _ _ _ wd op w pop)) ->
      P (tr ++ TStart op pop led ng est :: items).

    Lemma for_ops_blocks ops : forall s, LInv cfg s -> P (tr_of s) -> P (tr_of (for_ops cfg wd ops s)).
    Proof.
      induction ops as [|op rest IH]; intros s Hinv HP; simpl; [assumption|].
      destruct (err_of s) eqn:Herr; [assumption|].
      destruct (w_estimate _ _ _ _ _ _ _ _ _ wd op (l_w _ _ _ _ _ s) (l_pop _ _ _ _ _ s)) as [est w1] eqn:Eest.
      destruct (limit_checks cfg (st_of s) est) eqn:Elim; [assumption|].
      destruct (w_apply _ _ _ _ _ _ _ _ _ wd op w1 (l_pop _ _ _ _ _ s)) as [[evs rpop] w2] eqn:Eapp.
      destruct (started_inv _ _ _ _ _ _ _ _ _ cfg s op est w1 w2 Hinv Elim) as [Hinv2 Hst2].
      destruct (fold_events_inv _ _ _ _ _ _ _ _ _ cfg evs _ Hinv2 Hst2) as (F1 & F2 & F3 & F4 & F5 & F6 & items & F7 & F8 & F9).
      fold (started op est w1 w2 s).
      set (s3 := fold_left (do_event cfg) evs (started op est w1 w2 s)) in *.
      assert (HP3 : P (tr_of s3)).
      { rewrite F7. simpl. rewrite <- app_assoc. simpl.
        eapply P_app with (w := w1); [assumption | assumption |]. rewrite Eapp. simpl. apply F9. assumption. }
      destruct (err_of s3); [assumption|].
      destruct rpop as [p | x]; [|assumption].
      apply IH; [apply LInv_with_pop; assumption | assumption].
    Qed.

    Lemma while_blocks fuel : forall s, LInv cfg s -> P (tr_of s) -> P (tr_of (while_loop cfg wd fuel s)).
    Proof.
      induction fuel as [|f IH]; intros s Hinv HP; simpl.
      - destruct (err_of s); [assumption|]. destruct (st_term _ _ (st_of s)); assumption.
      - destruct (err_of s); [assumption|]. destruct (st_term _ _ (st_of s)); [assumption|].
        apply IH; [apply for_ops_inv; assumption | apply for_ops_blocks; assumption].
    Qed.

    Theorem trace_blocks_ind fuel : P (trace cfg wd fuel).
    Proof. apply while_blocks; [apply LInv_init | exact P_nil]. Qed.
  End Blocks.

  (* ------------------------------------------------------------------ single_result_b over blocks *)
  Lemma single_result_b_block (tr : list titem) (op : Op) (pop : Pop) (led : list Z) (ng : nat) (est : option Z) (items : list titem) : forall seen : bool,
    single_result_b seen (tr ++ TStart op pop led ng est :: items)
    = single_result_b seen tr && single_result_b false items.
  Proof.
    induction tr as [|x tr IH]; intros seen; simpl.
    - destruct (single_result_b false items); reflexivity.
    - destruct x as [? ? ? ? ? | [n|r] | ? ? ? ?]; simpl; rewrite ?IH; try reflexivity.
      rewrite andb_assoc. reflexivity.
  Qed.

  Lemma single_result_b_no_start (items : list titem) : forall seen : bool,
    existsb is_start items = false ->
    (length (results_of (events_of items)) <= (if seen then 0 else 1))%nat ->
    single_result_b seen items = true.
  Proof.
    induction items as [|x items IH]; intros seen Hn Hl; [reflexivity|].
    destruct x as [? ? ? ? ? | [n|r] | ? ? ? ?]; simpl in *; try discriminate.
    - apply IH; assumption.
    - destruct seen; simpl in *; [lia|]. apply IH; [assumption | simpl; lia].
    - apply IH; assumption.
  Qed.

  (* ------------------------------------------------------------------ EVQE-shaped worlds *)
  Theorem evqe_shape_hypotheses (cfg : config) (wd : world) fuel :
    (forall op w pop, evqe_shape (fst (fst (w_apply _ _ _ _ _ _ _ _ _ wd op w pop)))) ->
    single_result (trace cfg wd fuel) /\ counted (events_of (trace cfg wd fuel)).
  Proof.
    intros Hshape.
    assert (H : single_result_b false (trace cfg wd fuel) = true /\ counted (events_of (trace cfg wd fuel))).
    { apply (trace_blocks_ind cfg wd (fun tr => single_result_b false tr = true /\ counted (events_of tr))).
      - split; [reflexivity | apply counted_nil].
      - intros tr op pop led ng est w items [Hs Hc] Hn Hev.
        specialize (Hshape op w pop). rewrite <- Hev in Hshape.
        split.
        + rewrite single_result_b_block, Hs. simpl. apply single_result_b_no_start; [assumption|].
          destruct Hshape as [E | [(n & E) | (n & r & E)]]; rewrite E; simpl; lia.
        + rewrite events_of_app. simpl.
          destruct Hshape as [E | [(n & E) | (n & r & E)]]; rewrite E.
          * rewrite app_nil_r. assumption.
          * apply counted_snoc_count. assumption.
          * change [EvalCount n; Result r] with ([EvalCount n] ++ [Result r]). rewrite app_assoc.
            apply counted_snoc_result. split; [apply counted_snoc_count; assumption|].
            rewrite split_gens_snoc_count. destruct (split_gens (events_of tr)) as [g t]. simpl.
            destruct t; discriminate. }
    destruct H as [H1 H2]. split; [apply single_result_b_sound; assumption | assumption].
  Qed.

  (* corollaries: the theorems that carry `counted` / `single_result`, for EVQE-shaped worlds *)
  Notation solve := (solve Ind R Pop Op W Init Dist AuxEv AV best_value best_ind).
  Notation n_results := (n_results Ind R Pop Op).

  Corollary ledger_shape_evqe (cfg : config) (wd : world) fuel tr res :
    (forall op w pop, evqe_shape (fst (fst (w_apply _ _ _ _ _ _ _ _ _ wd op w pop)))) ->
    solve cfg wd fuel = (tr, Ok res) ->
    sr_circuit_evaluations _ _ _ _ _ res = ledger_spec R (events_of tr)
    /\ (sr_generations _ _ _ _ _ res <= length (sr_circuit_evaluations _ _ _ _ _ res) <= sr_generations _ _ _ _ _ res + 1)%nat.
  Proof.
    intros Hshape H. destruct (evqe_shape_hypotheses cfg wd fuel Hshape) as [_ Hc].
    assert (Etr : tr = trace cfg wd fuel) by (unfold Loop_proofs.trace; rewrite H; reflexivity).
    rewrite <- Etr in Hc.
    destruct (ledger_shape _ _ _ _ _ _ _ _ _ best_value best_ind cfg wd fuel tr res H) as [Hlen Hsh].
    destruct (Hsh Hc) as [H1 H2]. split; [assumption | lia].
  Qed.

  Corollary max_generations_evqe (cfg : config) (wd : world) fuel G :
    (forall op w pop, evqe_shape (fst (fst (w_apply _ _ _ _ _ _ _ _ _ wd op w pop)))) ->
    cfg_max_generations _ _ _ _ _ cfg = Some G ->
    (Z.of_nat (n_results (trace cfg wd fuel)) <= Z.max 0 G)%Z.
  Proof.
    intros Hshape HG. apply max_generations_respected; [assumption|].
    apply (evqe_shape_hypotheses cfg wd fuel Hshape).
  Qed.

  Corollary criterion_stops_evqe (cfg : config) (wd : world) fuel t1 r bi bv t2 :
    (forall op w pop, evqe_shape (fst (fst (w_apply _ _ _ _ _ _ _ _ _ wd op w pop)))) ->
    trace cfg wd fuel = t1 ++ TCrit r bi bv true :: t2 ->
    existsb is_start t2 = false.
  Proof.
    intros Hshape. apply criterion_stops. apply (evqe_shape_hypotheses cfg wd fuel Hshape).
  Qed.
End Shape.
