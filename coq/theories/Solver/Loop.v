(* Solver/Loop.v — executable model of EvolvingAnsatzMinimumEigensolver._solve_by_evolution
   (queasars/minimum_eigensolvers/base/evolving_ansatz_minimum_eigensolver.py, lines 331-478).
   Definitions only; proofs are in Solver/Loop_proofs.v and Solver/Ledger_proofs.v.

   What is abstract (arguments of the model, universally quantified in every theorem):
     Ind   individuals                         R     population evaluation results (BasePopulationEvaluationResult)
     Pop   population tokens                   Op    evolutionary operators
     W     the state of the world outside the loop (operator objects, their random generators, the optimiser,
           the primitives) — threaded through every oracle call, so an oracle may answer differently every time
     Init  initial-state circuits              Dist  measured distributions
     AuxEv auxiliary evaluators                AV    their values
   An operator application is an oracle  apply : Op -> W -> Pop -> (events, Ok new population | Err exception, W')
   where the events are the calls the operator makes to the two callbacks of the OperatorContext, in order.
   get_n_expected_circuit_evaluations is an oracle returning an arbitrary option Z.  The termination criterion is
   an arbitrary function of the history of results (it is reset at the start of every solve and is fed every
   result in order, so its k-th answer is a function of the first k results), of the best individual and of the
   best value it is handed.

   What is transcribed literally: both callbacks (the `len(ledger) < n_generations + 1` append/accumulate rule, the
   best-so-far update with strict <, `terminate` ASSIGNED from the criterion's answer), the three limit checks in
   their order before every operator, `break`, the outer `while not terminate` (on fuel: one unit per pass),
   the final raise, the assembly of the result.

   A ghost trace (list titem) records what happened, in order; it does not influence the computation. *)
From QV Require Import Common.Base.
From Coq Require Import QArith.

Definition OutOfFuel : string := "OutOfFuel".
(* `raise Exception("The algorithm seems to have terminated without having evaluated any population! ")` *)
Definition NothingEvaluated : string := "Exception".
Definition IndexError : string := "IndexError".

(* Python's `a < b` on floats that are not NaN is the order of the rationals they denote. *)
Definition Qltb (x y : Q) : bool := negb (Qle_bool y x).

(* ListOrDict of qiskit_algorithms, plus None *)
Inductive aux_shape (A : Type) : Type :=
| ANone
| AList (l : list A)
| ADict (l : list (string * A)).
Arguments ANone {A}.
Arguments AList {A} l.
Arguments ADict {A} l.

Definition aux_map {A B} (f : A -> B) (a : aux_shape A) : aux_shape B :=
  match a with
  | ANone => ANone
  | AList l => AList (map f l)
  | ADict l => ADict (map (fun kv => (fst kv, f (snd kv))) l)
  end.

(* n_circuit_evaluations[i] += e ; IndexError when i is out of range (shown unreachable in Loop_proofs) *)
Fixpoint add_at (i : nat) (e : Z) (l : list Z) : result (list Z) :=
  match l, i with
  | [], _ => Err IndexError
  | x :: xs, O => Ok ((x + e)%Z :: xs)
  | x :: xs, S i' => do r <- add_at i' e xs; Ok (x :: r)
  end.

Section Loop.
  Variables Ind R Pop Op W Init Dist AuxEv AV : Type.
  Variable best_value : R -> Q.     (* evaluation_result.best_expectation_value *)
  Variable best_ind : R -> Ind.     (* evaluation_result.best_individual *)

  Inductive event : Type :=
  | EvalCount (n : Z)               (* operator_context.circuit_evaluation_count_callback(n) *)
  | Result (r : R).                 (* operator_context.result_callback(r) *)

  (* the ghost trace *)
  Inductive titem : Type :=
  | TStart (op : Op) (pop : Pop) (ledger : list Z) (ngen : nat) (est : option Z)
      (* operator.apply_operator(population) is called; ledger / n_generations / the estimate as they are then *)
  | TEv (e : event)                 (* a callback is invoked *)
  | TCrit (r : R) (bi : Ind) (bv : Q) (b : bool).
      (* check_termination(population_evaluation=r, best_individual=bi, best_expectation_value=bv) answered b *)

  Record config : Type := {
    cfg_ops : list Op;                                      (* configuration.evolutionary_operators *)
    cfg_max_generations : option Z;
    cfg_max_evals : option Z;                               (* max_circuit_evaluations *)
    cfg_criterion : option (list R -> Ind -> Q -> bool);    (* history including the current result *)
    cfg_init : option Init;                                 (* initial_state_circuit *)
    cfg_aux : aux_shape AuxEv;                              (* aux_circuit_evaluators *)
  }.

  Record world : Type := {
    w_apply : Op -> W -> Pop -> list event * result Pop * W;
    w_estimate : Op -> W -> Pop -> option Z * W;
    w_measure : option Init -> Ind -> Dist;   (* measurement distribution of the individual's circuit composed behind init *)
    w_aux_eval : AuxEv -> Ind -> AV;          (* evaluator.evaluate_circuits([circuit of ind], [its parameter values])[0] *)
    w_pop0 : Pop;                             (* population_initializer(n_qubits) *)
    w_init : W;
  }.

  (* the local variables of _solve_by_evolution that the callbacks close over *)
  Record state : Type := {
    st_ledger : list Z;            (* n_circuit_evaluations *)
    st_ngen : nat;                 (* n_generations *)
    st_term : bool;                (* terminate *)
    st_best_ind : option Ind;      (* current_best_individual *)
    st_best_val : option Q;        (* current_best_expectation_value *)
    st_hist : list R;              (* population_evaluations *)
  }.

  Definition state0 : state :=
    {| st_ledger := []; st_ngen := 0; st_term := false; st_best_ind := None; st_best_val := None; st_hist := [] |}.

  Definition set_ledger (l : list Z) (st : state) : state :=
    {| st_ledger := l; st_ngen := st_ngen st; st_term := st_term st; st_best_ind := st_best_ind st;
       st_best_val := st_best_val st; st_hist := st_hist st |}.
  Definition set_term (b : bool) (st : state) : state :=
    {| st_ledger := st_ledger st; st_ngen := st_ngen st; st_term := b; st_best_ind := st_best_ind st;
       st_best_val := st_best_val st; st_hist := st_hist st |}.

  (* def circuit_evaluation_callback(evaluations) *)
  Definition circuit_evaluation_callback (e : Z) (st : state) : result state :=
    if (length (st_ledger st) <? st_ngen st + 1)%nat
    then Ok (set_ledger (st_ledger st ++ [e]) st)
    else do l <- add_at (st_ngen st) e (st_ledger st); Ok (set_ledger l st).

  (* def result_callback(evaluation_result); also returns the criterion call (arguments and answer) if one was made *)
  Definition result_callback (cfg : config) (r : R) (st : state) : result (state * option titem) :=
    let hist := st_hist st ++ [r] in
    let '(bi, bv) :=
      match st_best_ind st, st_best_val st with
      | Some i, Some v =>
          if Qltb (best_value r) v then (Some (best_ind r), Some (best_value r)) else (Some i, Some v)
      | _, _ => (Some (best_ind r), Some (best_value r))
      end in
    let ngen := S (st_ngen st) in
    match cfg_criterion cfg with
    | None =>
        Ok ({| st_ledger := st_ledger st; st_ngen := ngen; st_term := st_term st; st_best_ind := bi;
               st_best_val := bv; st_hist := hist |}, None)
    | Some c =>
        match bi, bv with
        | Some i, Some v =>
            let b := c hist i v in
            Ok ({| st_ledger := st_ledger st; st_ngen := ngen; st_term := b; st_best_ind := bi;
                   st_best_val := bv; st_hist := hist |}, Some (TCrit r i v b))
        | _, _ => Err "Exception"   (* "No current best individual was determined before calling the termination check!" *)
        end
    end.

  (* loop state: callback state, current population, world, ghost trace, pending exception *)
  Record ls : Type := {
    l_st : state;
    l_pop : Pop;
    l_w : W;
    l_tr : list titem;
    l_err : option string;
  }.

  Definition with_st (st : state) (s : ls) : ls :=
    {| l_st := st; l_pop := l_pop s; l_w := l_w s; l_tr := l_tr s; l_err := l_err s |}.
  Definition with_pop (p : Pop) (s : ls) : ls :=
    {| l_st := l_st s; l_pop := p; l_w := l_w s; l_tr := l_tr s; l_err := l_err s |}.
  Definition with_w (w : W) (s : ls) : ls :=
    {| l_st := l_st s; l_pop := l_pop s; l_w := w; l_tr := l_tr s; l_err := l_err s |}.
  Definition emit (x : titem) (s : ls) : ls :=
    {| l_st := l_st s; l_pop := l_pop s; l_w := l_w s; l_tr := l_tr s ++ [x]; l_err := l_err s |}.
  Definition fail (e : string) (s : ls) : ls :=
    {| l_st := l_st s; l_pop := l_pop s; l_w := l_w s; l_tr := l_tr s; l_err := Some e |}.

  (* one callback invocation made by the running operator; nothing happens any more once an exception is pending *)
  Definition do_event (cfg : config) (s : ls) (e : event) : ls :=
    match l_err s with
    | Some _ => s
    | None =>
        let s1 := emit (TEv e) s in
        match e with
        | EvalCount n =>
            match circuit_evaluation_callback n (l_st s1) with
            | Ok st' => with_st st' s1
            | Err x => fail x s1
            end
        | Result r =>
            match result_callback cfg r (l_st s1) with
            | Ok (st', None) => with_st st' s1
            | Ok (st', Some c) => emit c (with_st st' s1)
            | Err x => fail x s1
            end
        end
    end.

  (* the three limit checks in front of every operator: the value of `terminate` after them, and the estimate *)
  Definition limit_checks (cfg : config) (st : state) (est : option Z) : bool :=
    let sum := sumZ (st_ledger st) in
    let t1 := match cfg_max_evals cfg with
              | Some B => if (sum >=? B)%Z then true else st_term st
              | None => st_term st
              end in
    let t2 := match cfg_max_evals cfg, est with
              | Some B, Some e => if (sum + e >=? B)%Z then true else t1
              | _, _ => t1
              end in
    match cfg_max_generations cfg with
    | Some G => if (Z.of_nat (st_ngen st) >=? G)%Z then true else t2
    | None => t2
    end.

  (* for operator in self.configuration.evolutionary_operators: ... *)
  Fixpoint for_ops (cfg : config) (wd : world) (ops : list Op) (s : ls) : ls :=
    match ops with
    | [] => s
    | op :: rest =>
        match l_err s with
        | Some _ => s
        | None =>
            let '(est, w1) := w_estimate wd op (l_w s) (l_pop s) in
            let t := limit_checks cfg (l_st s) est in
            let s1 := with_w w1 (with_st (set_term t (l_st s)) s) in
            if t then s1      (* break *)
            else
              let s2 := emit (TStart op (l_pop s) (st_ledger (l_st s)) (st_ngen (l_st s)) est) s1 in
              let '(evs, rpop, w2) := w_apply wd op w1 (l_pop s) in
              let s3 := fold_left (do_event cfg) evs (with_w w2 s2) in
              match l_err s3 with
              | Some _ => s3
              | None =>
                  match rpop with
                  | Err x => fail x s3
                  | Ok p => for_ops cfg wd rest (with_pop p s3)
                  end
              end
        end
    end.

  (* while not terminate: <one pass over the operators> ; one unit of fuel per pass *)
  Fixpoint while_loop (cfg : config) (wd : world) (fuel : nat) (s : ls) : ls :=
    match l_err s with
    | Some _ => s
    | None =>
        if st_term (l_st s) then s
        else match fuel with
             | O => fail OutOfFuel s
             | S f => while_loop cfg wd f (for_ops cfg wd (cfg_ops cfg) s)
             end
    end.

  Record solve_result : Type := {
    sr_eigenvalue : Q;
    sr_eigenstate : Dist;
    sr_best_individual : Ind;
    sr_circuit_evaluations : list Z;
    sr_generations : nat;
    sr_history : list R;                    (* population_evaluation_results *)
    sr_initial_state : option Init;
    sr_aux : aux_shape AV;                  (* aux_operators_evaluated *)
  }.

  Definition finish (cfg : config) (wd : world) (s : ls) : result solve_result :=
    match l_err s with
    | Some e => Err e
    | None =>
        let st := l_st s in
        match st_best_ind st, st_best_val st, st_hist st with
        | Some i, Some v, _ :: _ =>
            Ok {| sr_eigenvalue := v;
                  sr_eigenstate := w_measure wd (cfg_init cfg) i;
                  sr_best_individual := i;
                  sr_circuit_evaluations := st_ledger st;
                  sr_generations := st_ngen st;
                  sr_history := st_hist st;
                  sr_initial_state := cfg_init cfg;
                  sr_aux := aux_map (fun a => w_aux_eval wd a i) (cfg_aux cfg) |}
        | _, _, _ => Err NothingEvaluated
        end
    end.

  Definition ls0 (wd : world) : ls :=
    {| l_st := state0; l_pop := w_pop0 wd; l_w := w_init wd; l_tr := []; l_err := None |}.

  Definition run (cfg : config) (wd : world) (fuel : nat) : ls := while_loop cfg wd fuel (ls0 wd).

  (* the trace of the run and what _solve_by_evolution returns / raises *)
  Definition solve (cfg : config) (wd : world) (fuel : nat) : list titem * result solve_result :=
    let s := run cfg wd fuel in (l_tr s, finish cfg wd s).

  (* Specification-side helper for C12_max_generations_exact: the number of results one complete, uninterrupted
     pass over the operators reports when started in world state w on population pop (no limit checks). *)
  Fixpoint pass_results (wd : world) (ops : list Op) (w : W) (pop : Pop) : nat :=
    match ops with
    | [] => 0
    | op :: rest =>
        let '(_, w1) := w_estimate wd op w pop in
        let '(evs, rpop, w2) := w_apply wd op w1 pop in
        length (filter (fun e => match e with Result _ => true | EvalCount _ => false end) evs)
        + match rpop with Ok p => pass_results wd rest w2 p | Err _ => 0 end
    end.

End Loop.

Arguments EvalCount {R} n.
Arguments Result {R} r.
Arguments TStart {Ind R Pop Op} op pop ledger ngen est.
Arguments TEv {Ind R Pop Op} e.
Arguments TCrit {Ind R Pop Op} r bi bv b.
