(* Solver/Ledger.v — the specification side of C05/C12: what the result of a solve has to be, stated over the
   trace of callback events alone (no reference to the loop's variables).  Definitions only. *)
From QV Require Import Common.Base Solver.Loop.
From Coq Require Import QArith.

Section Ledger.
  Variables Ind R Pop Op : Type.
  Variable best_value : R -> Q.
  Variable best_ind : R -> Ind.
  Notation event := (event R).
  Notation titem := (titem Ind R Pop Op).

  (* projections of a trace *)
  Definition events_of (tr : list titem) : list event :=
    flat_map (fun x => match x with TEv e => [e] | _ => [] end) tr.
  Definition results_of (evs : list event) : list R :=
    flat_map (fun e => match e with Result r => [r] | EvalCount _ => [] end) evs.
  Definition counts_of (evs : list event) : list Z :=
    flat_map (fun e => match e with EvalCount n => [n] | Result _ => [] end) evs.
  Definition is_start (x : titem) : bool := match x with TStart _ _ _ _ _ => true | _ => false end.
  Definition is_result_item (x : titem) : bool := match x with TEv (Result _) => true | _ => false end.
  Definition n_starts (tr : list titem) : nat := length (filter is_start tr).
  Definition n_results (tr : list titem) : nat := length (results_of (events_of tr)).

  (* the answer of the most recent criterion call *)
  Fixpoint last_crit (tr : list titem) : option bool :=
    match tr with
    | [] => None
    | x :: rest =>
        match last_crit rest with
        | Some b => Some b
        | None => match x with TCrit _ _ _ b => Some b | _ => None end
        end
    end.

  (* The evaluation counts reported per generation: the counts reported before the first result, between
     consecutive results, and (trailing) after the last result. *)
  Fixpoint split_gens (evs : list event) : list (list Z) * list Z :=
    match evs with
    | [] => ([], [])
    | EvalCount n :: rest =>
        let '(g, t) := split_gens rest in
        match g with
        | [] => ([], n :: t)
        | g0 :: gs => ((n :: g0) :: gs, t)
        end
    | Result _ :: rest =>
        let '(g, t) := split_gens rest in ([] :: g, t)
    end.

  (* one entry per evaluated generation, plus one trailing entry iff something was reported after the last result *)
  Definition ledger_spec (evs : list event) : list Z :=
    let '(g, t) := split_gens evs in
    map sumZ g ++ match t with [] => [] | _ => [sumZ t] end.

  (* hypothesis `counted`: every result is preceded, since the previous result, by at least one count report *)
  Definition counted (evs : list event) : Prop := Forall (fun seg => seg <> []) (fst (split_gens evs)).

  (* hypothesis `single_result`: two results are never reported within one operator application *)
  Definition single_result (tr : list titem) : Prop :=
    forall a r1 b r2 c, tr = a ++ TEv (Result r1) :: b ++ TEv (Result r2) :: c -> existsb is_start b = true.

  (* What one application of an EVQE operator reports: nothing (speciation), one count (the mutation operators), or one
     count followed by one result (selection). *)
  Definition evqe_shape (evs : list event) : Prop :=
    evs = [] \/ (exists n, evs = [EvalCount n]) \/ (exists n r, evs = [EvalCount n; Result r]).

  (* boolean form of single_result (seen: a result was already reported in the current application) *)
  Fixpoint single_result_b (seen : bool) (tr : list titem) : bool :=
    match tr with
    | [] => true
    | TStart _ _ _ _ _ :: rest => single_result_b false rest
    | TEv (Result _) :: rest => negb seen && single_result_b true rest
    | _ :: rest => single_result_b seen rest
    end.

  (* r is the FIRST entry of the history attaining the minimum of best_value *)
  Definition first_min (hist : list R) (i : nat) (r : R) : Prop :=
    nth_error hist i = Some r
    /\ (forall r', In r' hist -> (best_value r <= best_value r')%Q)
    /\ (forall j r', (j < i)%nat -> nth_error hist j = Some r' -> (best_value r < best_value r')%Q).

End Ledger.
