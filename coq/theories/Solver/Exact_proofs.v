(* Solver/Exact_proofs.v — max_generations as the only limit: exactly that many generations are evaluated.
   Hypotheses (on the oracles): an application reports at most one result, does not raise, and every complete pass
   over the operator list reports at least one result. *)
From QV Require Import Common.Base Solver.Loop Solver.Ledger Solver.Ledger_proofs Solver.Loop_proofs.
From Coq Require Import QArith.

Section Exact.
  Variables Ind R Pop Op W Init Dist AuxEv AV : Type.
  Variable best_value : R -> Q.
  Variable best_ind : R -> Ind.

  Notation event := (event R).
  Notation titem := (titem Ind R Pop Op).
  Notation config := (config Ind R Op Init AuxEv).
  Notation world := (world Ind R Pop Op W Init Dist AuxEv AV).
  Notation state := (state Ind R).
  Notation ls := (ls Ind R Pop Op W).
  Notation events_of := (events_of Ind R Pop Op).
  Notation results_of := (results_of R).
  Notation is_start := (is_start Ind R Pop Op).
  Notation n_results := (n_results Ind R Pop Op).
  Notation do_event := (do_event Ind R Pop Op W Init AuxEv best_value best_ind).
  Notation for_ops := (for_ops Ind R Pop Op W Init Dist AuxEv AV best_value best_ind).
  Notation while_loop := (while_loop Ind R Pop Op W Init Dist AuxEv AV best_value best_ind).
  Notation run := (run Ind R Pop Op W Init Dist AuxEv AV best_value best_ind).
  Notation solve := (solve Ind R Pop Op W Init Dist AuxEv AV best_value best_ind).
  Notation finish := (finish Ind R Pop Op W Init Dist AuxEv AV).
  Notation limit_checks := (limit_checks Ind R Op Init AuxEv).
  Notation pass_results := (pass_results Ind R Pop Op W Init Dist AuxEv AV).
  Notation LInv := (LInv Ind R Pop Op W Init AuxEv best_value best_ind).
  Notation SInv := (SInv Ind R best_value best_ind).
  Notation started := (started Ind R Pop Op W).
  Notation tr_of s := (l_tr _ _ _ _ _ s).
  Notation st_of s := (l_st _ _ _ _ _ s).
  Notation err_of s := (l_err _ _ _ _ _ s).
  Notation ngen_of s := (st_ngen _ _ (l_st _ _ _ _ _ s)).
  Notation term_of s := (st_term _ _ (l_st _ _ _ _ _ s)).

  Lemma results_filter (evs : list event) :
    length (results_of evs) = length (filter (fun e => match e with Result _ => true | EvalCount _ => false end) evs).
  Proof. induction evs as [|[n|r] evs IH]; simpl; auto. Qed.

  Lemma while_done cfg wd fuel s : err_of s = None -> term_of s = true -> while_loop cfg wd fuel s = s.
  Proof. intros H1 H2. destruct fuel; simpl; rewrite H1, H2; reflexivity. Qed.

  (* the last application started reported a result *)
  Definition last_app_has_result (tr : list titem) : Prop :=
    exists t1 x t2, tr = t1 ++ x :: t2 /\ is_start x = true /\ existsb is_start t2 = false /\ (1 <= n_results t2)%nat.

  (* ------------------------------------------------------------------------------------ G <= 0 *)
  Theorem max_generations_nonpositive (cfg : config) (wd : world) fuel G :
    cfg_max_generations _ _ _ _ _ cfg = Some G -> (G <= 0)%Z -> cfg_ops _ _ _ _ _ cfg <> [] -> (1 <= fuel)%nat ->
    solve cfg wd fuel = ([], Err NothingEvaluated).
  Proof.
    intros HG Hle Hops Hf. destruct fuel as [|f]; [lia|].
    unfold Loop.solve, Loop.run. simpl.
    destruct (cfg_ops _ _ _ _ _ cfg) as [|op rest]; [congruence|]. simpl.
    destruct (w_estimate _ _ _ _ _ _ _ _ _ wd op (w_init _ _ _ _ _ _ _ _ _ wd) (w_pop0 _ _ _ _ _ _ _ _ _ wd)) as [est w1].
    assert (Hl : limit_checks cfg (state0 Ind R) est = true).
    { unfold Loop.limit_checks. rewrite HG. simpl. destruct (Z.geb_spec 0 G); [reflexivity | lia]. }
    rewrite Hl. rewrite while_done by reflexivity. reflexivity.
  Qed.

  (* ------------------------------------------------------------------------------------ G >= 1 *)
  Section Positive.
    Variable cfg : config.
    Variable wd : world.
    Variable G : Z.
    Hypothesis Hgen : cfg_max_generations _ _ _ _ _ cfg = Some G.
    Hypothesis Hev : cfg_max_evals _ _ _ _ _ cfg = None.
    Hypothesis Hcr : cfg_criterion _ _ _ _ _ cfg = None.
    Hypothesis HG : (1 <= G)%Z.
    Hypothesis Hsingle : forall op w pop, (length (results_of (fst (fst (w_apply _ _ _ _ _ _ _ _ _ wd op w pop)))) <= 1)%nat.
    Hypothesis Hnoraise : forall op w pop, exists p, snd (fst (w_apply _ _ _ _ _ _ _ _ _ wd op w pop)) = Ok p.
    Hypothesis Hprod : forall w pop, (1 <= pass_results wd (cfg_ops _ _ _ _ _ cfg) w pop)%nat.

    Lemma limit_checks_only_gen (st : state) est :
      limit_checks cfg st est = if (Z.of_nat (st_ngen _ _ st) >=? G)%Z then true else st_term _ _ st.
    Proof. unfold Loop.limit_checks. rewrite Hgen, Hev. destruct est; reflexivity. Qed.

    Record Good (s : ls) : Prop := {
      g_inv : LInv cfg s;
      g_err : err_of s = None;
      g_term : term_of s = false;
      g_le : (Z.of_nat (ngen_of s) <= G)%Z;
      g_last : Z.of_nat (ngen_of s) = G -> last_app_has_result (tr_of s);
    }.

    Lemma ngen_results s : LInv cfg s -> ngen_of s = n_results (tr_of s).
    Proof.
      intros [Hs _ _]. unfold Ledger.n_results. rewrite (si_ngen _ _ _ _ _ _ Hs), (si_hist _ _ _ _ _ _ Hs). reflexivity.
    Qed.

    Lemma for_ops_exact ops : forall s, Good s ->
      let s' := for_ops cfg wd ops s in
      LInv cfg s' /\ err_of s' = None /\ (Z.of_nat (ngen_of s') <= G)%Z
      /\ (Z.of_nat (ngen_of s') = G -> last_app_has_result (tr_of s'))
      /\ ((term_of s' = true /\ Z.of_nat (ngen_of s') = G)
          \/ (term_of s' = false /\ ngen_of s' = (ngen_of s + pass_results wd ops (l_w _ _ _ _ _ s) (l_pop _ _ _ _ _ s))%nat)).
    Proof.
      induction ops as [|op rest IH]; intros s [Hinv Herr Hterm Hle Hlast]; simpl.
      - splits; auto; try (right; split; [assumption | lia]).
      - rewrite Herr.
        destruct (w_estimate _ _ _ _ _ _ _ _ _ wd op (l_w _ _ _ _ _ s) (l_pop _ _ _ _ _ s)) as [est w1] eqn:Eest.
        rewrite limit_checks_only_gen, Hterm.
        destruct (Z.geb_spec (Z.of_nat (ngen_of s)) G) as [Hge | Hlt].
        + (* break *)
          assert (HeqG : Z.of_nat (ngen_of s) = G) by lia.
          simpl. splits; auto.
          * destruct Hinv as [H1 H2 H3]. split; simpl; auto. apply SInv_set_term; assumption.
        + pose proof (Hsingle op w1 (l_pop _ _ _ _ _ s)) as Hk. pose proof (Hnoraise op w1 (l_pop _ _ _ _ _ s)) as [p Hp].
          destruct (w_apply _ _ _ _ _ _ _ _ _ wd op w1 (l_pop _ _ _ _ _ s)) as [[evs rpop] w2] eqn:Eapp.
          simpl in Hk, Hp. subst rpop.
          assert (Elim : limit_checks cfg (st_of s) est = false).
          { rewrite limit_checks_only_gen, Hterm. destruct (Z.geb_spec (Z.of_nat (ngen_of s)) G); [lia | reflexivity]. }
          destruct (started_inv _ _ _ _ _ _ _ _ _ cfg s op est w1 w2 Hinv Elim) as [Hinv2 Hst2].
          fold (started op est w1 w2 s).
          destruct (fold_events_inv _ _ _ _ _ _ _ _ _ cfg evs _ Hinv2 Hst2) as (F1 & F2 & F3 & F4 & F5 & F6 & items & F7 & F8 & F9).
          set (s3 := fold_left (do_event cfg) evs (started op est w1 w2 s)) in *.
          specialize (F5 Herr). specialize (F6 Hcr). specialize (F9 Herr). rewrite F5.
          assert (Hng3 : ngen_of s3 = (ngen_of s + length (results_of evs))%nat).
          { rewrite (ngen_results s3 F1), (ngen_results s Hinv). unfold Ledger.n_results.
            rewrite F7. simpl. rewrite !events_of_app, F9. simpl. rewrite !results_of_app. simpl.
            rewrite !app_length. simpl. lia. }
          assert (Good (with_pop _ _ _ _ _ p s3)).
          { split; simpl.
            - apply LInv_with_pop. assumption.
            - assumption.
            - rewrite F6. reflexivity.
            - lia.
            - intros HeqG. exists (tr_of s), (TStart op (l_pop _ _ _ _ _ s) (st_ledger _ _ (st_of s)) (st_ngen _ _ (st_of s)) est), items.
              splits; auto.
              + rewrite F7. simpl. rewrite <- app_assoc. reflexivity.
              + unfold Ledger.n_results. rewrite F9. lia. }
          destruct (IH _ H) as (I1 & I2 & I3 & I4 & I5).
          splits; auto.
          destruct I5 as [I5 | [I5 I6]]; [left; assumption | right]. split; [assumption|].
          rewrite I6. simpl. rewrite Hng3, F4. simpl. rewrite <- results_filter. lia.
    Qed.

    Lemma while_exact fuel : forall s, Good s -> (Z.to_nat G - ngen_of s + 1 <= fuel)%nat ->
      let s' := while_loop cfg wd fuel s in
      LInv cfg s' /\ err_of s' = None /\ Z.of_nat (ngen_of s') = G /\ last_app_has_result (tr_of s').
    Proof.
      induction fuel as [|f IH]; intros s Hg Hf; [lia|].
      pose proof Hg as [Hinv Herr Hterm Hle Hlast].
      simpl. rewrite Herr, Hterm.
      destruct (for_ops_exact (cfg_ops _ _ _ _ _ cfg) s Hg) as (I1 & I2 & I3 & I4 & I5).
      destruct I5 as [[I5 I6] | [I5 I6]].
      - rewrite while_done by assumption. splits; auto.
      - pose proof (Hprod (l_w _ _ _ _ _ s) (l_pop _ _ _ _ _ s)) as Hp.
        apply IH; [split; auto | lia].
    Qed.

    Theorem max_generations_exact fuel :
      (Z.to_nat G + 1 <= fuel)%nat ->
      exists tr res, solve cfg wd fuel = (tr, Ok res)
        /\ Z.of_nat (sr_generations _ _ _ _ _ res) = G
        /\ Z.of_nat (n_results tr) = G
        /\ last_app_has_result tr.
    Proof.
      intros Hf.
      assert (Hg0 : Good (ls0 Ind R Pop Op W Init Dist AuxEv AV wd)).
      { split; simpl; auto; try lia. apply LInv_init. }
      destruct (while_exact fuel _ Hg0) as (Hinv & Herr & Hng & Hlast); [simpl; lia|].
      fold (run cfg wd fuel) in *.
      unfold Loop.solve. unfold Loop.finish. rewrite Herr.
      pose proof Hinv as [Hs _ _].
      pose proof (si_ngen _ _ _ _ _ _ Hs) as Hn.
      destruct (si_best _ _ _ _ _ _ Hs) as [(E & _) | (k & r & Hfm & Hbi & Hbv)].
      - rewrite E in Hn. simpl in Hn. lia.
      - rewrite Hbi, Hbv. destruct (st_hist _ _ (st_of (run cfg wd fuel))) eqn:E; [simpl in Hn; lia|].
        do 2 eexists. split; [reflexivity|]. simpl. splits; auto.
        rewrite <- (ngen_results _ Hinv). assumption.
    Qed.
  End Positive.
End Exact.
