(* Correspondence entry point for C20.  Each case carries the arguments, the decision stream logged from the
   real random.Random while the implementation ran, and what the implementation returned (or the class of
   the exception it raised).  The model must return the same AND consume the stream exactly (same RNG call
   sequence: nothing left over, no kind/arity mismatch on the way).  Fuel = length of the stream + 1: every
   iteration of the retry loop consumes one decision. *)
From QV Require Import Evqe.RandLayer.
Open Scope Z_scope.

Inductive c20case :=
| CLayer (n : Z) (prev : option layer) (seed : option Z) (s : stream) (expected : result layer)
| CIndividual (n n_layers : Z) (randomize : bool) (seed : option Z) (s : stream) (expected : result (individual Z))
| CAppend (i : individual Z) (n_layers : Z) (randomize : bool) (seed : option Z) (s : stream)
          (expected : result (individual Z))
| CPopulation (n n_layers n_individuals : Z) (randomize : bool) (seed : option Z) (s : stream)
              (expected : result (list (individual Z)))
(* the constructors' validity checks (post-init), on arbitrary gate tuples incl. negative / out-of-range indices *)
| CMakeLayer (n : Z) (gates : list gate) (expected : result layer)
| CMakeIndividual (n : Z) (ls : list layer) (vs : list Z) (expected : result (individual Z)).

Definition same {A} (eqb : A -> A -> bool) (model : result (A * stream)) (expected : result A) : bool :=
  match model, expected with
  | Ok (a, rest), Ok b => eqb a b && match rest with [] => true | _ => false end
  | Err e1, Err e2 => String.eqb e1 e2
  | _, _ => false
  end.

Definition fuel_for (s : stream) : nat := S (length s).

Definition run_case (c : c20case) :=
  match c with
  | CLayer n prev seed s _ => (random_layer n prev seed s (fuel_for s), None, None)
  | CIndividual n nl r seed s _ => (Err ""%string, Some (random_individual n nl r seed s (fuel_for s)), None)
  | CAppend i nl r seed s _ => (Err ""%string, Some (add_random_layers false i nl r seed s (fuel_for s)), None)
  | CPopulation n nl ni r seed s _ => (Err ""%string, None, Some (random_population n nl ni r seed s (fuel_for s)))
  | CMakeLayer n gates _ => (do l <- make_layer n gates; Ok (l, []), None, None)
  | CMakeIndividual n ls vs _ => (Err ""%string, Some (do i <- make_individual n ls vs; Ok (i, [])), None)
  end.

Definition check_case (c : c20case) : bool :=
  match c with
  | CLayer n prev seed s e => same layer_eqb (random_layer n prev seed s (fuel_for s)) e
  | CIndividual n nl r seed s e => same (individual_eqb Z.eqb) (random_individual n nl r seed s (fuel_for s)) e
  | CAppend i nl r seed s e => same (individual_eqb Z.eqb) (add_random_layers false i nl r seed s (fuel_for s)) e
  | CPopulation n nl ni r seed s e =>
      same (list_eqb (individual_eqb Z.eqb)) (random_population n nl ni r seed s (fuel_for s)) e
  | CMakeLayer n gates e => result_eqb layer_eqb (make_layer n gates) e
  | CMakeIndividual n ls vs e => result_eqb (individual_eqb Z.eqb) (make_individual n ls vs) e
  end.

(* which variant of add_random_layers the implementation follows on this case (diagnosis in replays) *)
Definition append_variant (c : c20case) : string :=
  match c with
  | CAppend i nl r seed s e =>
      if same (individual_eqb Z.eqb) (add_random_layers false i nl r seed s (fuel_for s)) e then "repaired (chained)"%string
      else if same (individual_eqb Z.eqb) (add_random_layers true i nl r seed s (fuel_for s)) e then "legacy (not chained)"%string
      else "neither"%string
  | _ => "n/a"%string
  end.
