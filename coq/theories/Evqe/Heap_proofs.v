(* Proofs about the heap refinement (C11): in the repaired variant no existing cell is ever written, so every
   population observed at any time dereferences to the same value in every later heap. *)
From QV Require Import Evqe.Heap.
Open Scope Z_scope.

Section HeapFacts.
  Context {V : Type} (veqb : V -> V -> bool) (ieq : individual V -> individual V -> bool) (zero : V).
  Notation ind := (individual V).
  Variable ev : ind -> result Q.
  Variable lg : bool.
  Notation heap := (heap (V := V)).
  Notation hpop := (hpop (V := V)).
  Notation obs := (obs (V := V)).

  (* the reference of a population points into the heap *)
  Definition hp_ok (h : heap) (hp : hpop) : Prop :=
    match h_reps hp with None => True | Some l => (l < length h)%nat end.

  Lemma deref_extend (h ext : heap) hp : hp_ok h hp -> deref (h ++ ext) hp = deref h hp.
  Proof.
    unfold hp_ok, deref. destruct (h_reps hp) as [l|]; [|reflexivity]. intros L. rewrite nth_error_app1 by exact L. reflexivity.
  Qed.

  Lemma hp_ok_extend (h ext : heap) hp : hp_ok h hp -> hp_ok (h ++ ext) hp.
  Proof. unfold hp_ok. destruct (h_reps hp); [|auto]. rewrite app_length. lia. Qed.

  (* repaired variant: an application only appends cells; its result and its payloads are well scoped *)
  Lemma apply_h_repaired o lgs (h : heap) (arg : hpop) h' cbs r :
    hp_ok h arg ->
    apply_h veqb ieq zero ev lg false o lgs h arg = (h', cbs, r) ->
    (exists ext, h' = h ++ ext)
    /\ (forall out, r = Ok out -> hp_ok h' out)
    /\ (forall c, In c cbs -> match c with HResult hp _ _ _ => hp = arg | HCount _ => True end).
  Proof.
    intros Hok. unfold apply_h. destruct (deref h arg) as [p|e] eqn:Ed.
    2:{ intros H; inversion H; subst. split; [exists []; rewrite app_nil_r; reflexivity|]. split; [discriminate|intros ? []]. }
    assert (Hother : forall oc : outcome V,
      (h, map (to_hcb arg) (fst oc),
       match snd oc with Ok p' => Ok (mkH (p_inds p') (h_reps arg) (p_members p') (p_membership p')) | Err e => Err e end) = (h', cbs, r) ->
      (exists ext, h' = h ++ ext) /\ (forall out, r = Ok out -> hp_ok h' out)
      /\ (forall c, In c cbs -> match c with HResult hp _ _ _ => hp = arg | HCount _ => True end)).
    { intros oc H; inversion H; subst. split; [exists []; rewrite app_nil_r; reflexivity|]. split.
      - intros out. destruct (snd oc); [|discriminate]. intros X; inversion X; subst. exact Hok.
      - intros c Hc. apply in_map_iff in Hc as [cb [<- _]]. destruct cb; simpl; auto. }
    destruct o as [thr|cfg|k prob]; [|apply Hother|apply Hother].
    destruct (speciate ieq thr p (g_stream lgs)) as [[[p' ext] rest]|e].
    2:{ intros H; inversion H; subst. split; [exists []; rewrite app_nil_r; reflexivity|]. split; [discriminate|intros ? []]. }
    destruct rest as [|d rest]; [destruct (p_reps p') as [nr|]|].
    - intros H; inversion H; subst. split; [eexists; reflexivity|]. split; [|intros ? []].
      intros out X; inversion X; subst. unfold hp_ok; simpl. rewrite app_length; simpl; lia.
    - intros H; inversion H; subst. split; [exists []; rewrite app_nil_r; reflexivity|]. split; [discriminate|intros ? []].
    - intros H; inversion H; subst. split; [exists []; rewrite app_nil_r; reflexivity|]. split; [discriminate|intros ? []].
  Qed.

  (* an observation is stable w.r.t. a heap that extends the heap it was made in *)
  Definition scoped (final : heap) (o : obs) : Prop :=
    hp_ok (o_heap o) (o_pop o) /\ exists ext, final = o_heap o ++ ext.

  Lemma scoped_stable final o : scoped final o -> obs_stable final o.
  Proof. intros [Hok [ext ->]]. unfold obs_stable. apply deref_extend. exact Hok. Qed.

  Lemma scoped_extend final ext o : scoped final o -> scoped (final ++ ext) o.
  Proof. intros [Hok [e1 ->]]. split; [exact Hok|]. exists (e1 ++ ext). rewrite app_assoc. reflexivity. Qed.

  Definition hist_scoped (final : heap) (e : heap * hcallback (V := V)) : Prop :=
    match snd e with
    | HResult hp _ _ _ => hp_ok (fst e) hp /\ exists ext, final = fst e ++ ext
    | HCount _ => True
    end.

  Theorem run_h_frame steps : forall (h : heap) (arg : hpop) os hist,
    hp_ok h arg ->
    Forall (scoped h) os -> Forall (hist_scoped h) hist ->
    let r := run_h veqb ieq zero ev lg false steps h arg os hist in
    Forall (scoped (hr_heap r)) (hr_obs r) /\ Forall (hist_scoped (hr_heap r)) (hr_history r).
  Proof.
    induction steps as [|[o lgs] t IH]; intros h arg os hist Hok Hos Hh; simpl.
    - split; [|exact Hh]. apply Forall_app. split; [exact Hos|]. constructor; [|constructor].
      split; [exact Hok|exists []; rewrite app_nil_r; reflexivity].
    - destruct (apply_h veqb ieq zero ev lg false o lgs h arg) as [[h' cbs] r] eqn:E.
      destruct (apply_h_repaired _ _ _ _ _ _ _ Hok E) as [[ext ->] [Hout Hcb]].
      assert (Hos' : Forall (scoped (h ++ ext)) (os ++ mkObs h arg :: payload_obs (h ++ ext) cbs)).
      { apply Forall_app. split; [eapply Forall_impl; [|exact Hos]; intros; apply scoped_extend; assumption|].
        constructor; [split; [exact Hok|eexists; reflexivity]|].
        unfold payload_obs. apply Forall_forall. intros ob Hob. apply in_flat_map in Hob as [c [Hc Hin]].
        specialize (Hcb c Hc). destruct c; [destruct Hin|]. destruct Hin as [<-|[]]. subst hp.
        split; simpl; [apply hp_ok_extend; exact Hok|exists []; rewrite app_nil_r; reflexivity]. }
      assert (Hh' : Forall (hist_scoped (h ++ ext)) (hist ++ history_entries (h ++ ext) cbs)).
      { apply Forall_app. split.
        - eapply Forall_impl; [|exact Hh]. intros [ht c]. unfold hist_scoped. simpl. destruct c; [auto|].
          intros [A [e1 ->]]. split; [exact A|]. exists (e1 ++ ext). rewrite app_assoc. reflexivity.
        - unfold history_entries. apply Forall_forall. intros en Hen. apply in_flat_map in Hen as [c [Hc Hin]].
          specialize (Hcb c Hc). destruct c; [destruct Hin|]. destruct Hin as [<-|[]]. subst hp. unfold hist_scoped. simpl.
          split; [apply hp_ok_extend; exact Hok|exists []; rewrite app_nil_r; reflexivity]. }
      destruct r as [out|e]; simpl.
      + apply IH; [apply Hout; reflexivity|exact Hos'|exact Hh'].
      + split; assumption.
  Qed.

  (* C11_frame: every population observed during ANY operator sequence (argument of apply_operator, population inside
     a result_callback payload, returned population) denotes, in the final heap, the value it denoted when observed *)
  Theorem frame steps (h : heap) (arg : hpop) :
    hp_ok h arg ->
    let r := run_h veqb ieq zero ev lg false steps h arg [] [] in
    forall o, In o (hr_obs r) -> deref (hr_heap r) (o_pop o) = deref (o_heap o) (o_pop o).
  Proof.
    intros Hok r o Ho. destruct (run_h_frame steps h arg [] [] Hok (Forall_nil _) (Forall_nil _)) as [A _].
    fold r in A. rewrite Forall_forall in A. apply scoped_stable. apply A. exact Ho.
  Qed.

  (* C11_history_stable: the per-generation history (the payloads of result_callback in order, as the solver stores
     them) describes each generation as it was when evaluated *)
  Theorem history_stable steps (h : heap) (arg : hpop) :
    hp_ok h arg ->
    let r := run_h veqb ieq zero ev lg false steps h arg [] [] in
    forall h_t hp vs b bv, In (h_t, HResult hp vs b bv) (hr_history r) -> deref (hr_heap r) hp = deref h_t hp.
  Proof.
    intros Hok r h_t hp vs b bv Hin. destruct (run_h_frame steps h arg [] [] Hok (Forall_nil _) (Forall_nil _)) as [_ A].
    fold r in A. rewrite Forall_forall in A. specialize (A _ Hin). unfold hist_scoped in A. simpl in A.
    destruct A as [A [ext E]]. rewrite E. apply deref_extend. exact A.
  Qed.

  (* the heap level refines the value level: what apply_h returns dereferences to what run_op returns *)
  Theorem apply_h_refines ls o lgs (h : heap) (arg : hpop) p :
    deref h arg = Ok p ->
    let '(h', cbs, r) := apply_h veqb ieq zero ev lg ls o lgs h arg in
    let oc := run_op veqb ieq zero ev lg o lgs p in
    match r, snd oc with
    | Ok out, Ok p' => deref h' out = Ok p'
    | Err e, Err e' => e = e'
    | _, _ => False
    end.
  Proof.
    intros Hd. unfold apply_h. rewrite Hd. destruct o as [thr|cfg|k prob].
    - simpl. unfold speciation_op. simpl. destruct (speciate ieq thr p (g_stream lgs)) as [[[p' ext] rest]|e] eqn:E; simpl; [|reflexivity].
      unfold speciate in E.
      destruct (assign_all ieq thr _ 0 (p_inds p)) as [st|]; simpl in E; [|discriminate].
      destruct (rekey ieq (p_inds p) (map snd (snd st)) [] (g_stream lgs)) as [nk|]; simpl in E; [|discriminate].
      inversion E; subst; simpl. destruct (snd nk); [|reflexivity].
      unfold deref; simpl. rewrite nth_error_app2 by lia. rewrite Nat.sub_diag. reflexivity.
    - simpl. destruct (selection_op ieq ev cfg p (g_pi lgs) (g_stream lgs)) as [cbs r] eqn:E. simpl.
      destruct r as [p'|e]; [|reflexivity].
      unfold selection_op in E. destruct (do rs <- exec_run (map ev (p_inds p)) (g_pi lgs); gather rs) as [values|]; [|inversion E].
      unfold select_after_eval in E.
      destruct (p_reps p) as [reps|] eqn:Er; [|inversion E]. destruct (p_members p); [|inversion E]. destruct (p_membership p); [|inversion E].
      destruct (argmin values) as [bi|]; [|inversion E]. destruct (nth_r (p_inds p) bi); [|inversion E]. destruct (nth_r values bi); [|inversion E].
      inversion E as [[Hc Hr]]. clear E.
      assert (Hreps : p_reps p' = Some reps /\ p_members p' = None /\ p_membership p' = None).
      { destruct (s_tournament cfg).
        - destruct (fitness_all _ _ _ _ _ _ _ _); simpl in Hr; [|discriminate].
          destruct (tournaments _ _ _ _ _) as [[sel s1]|]; simpl in Hr; [|discriminate]. destruct s1; inversion Hr; auto.
        - destruct (fitness_all _ _ _ _ _ _ _ _); simpl in Hr; [|discriminate].
          destruct (mapM _ _); simpl in Hr; [|discriminate]. destruct (Qle_bool _ _); [discriminate|].
          destruct (take_choices _ _ _ _) as [[idxs s1]|]; simpl in Hr; [|discriminate].
          destruct (mapM _ _); simpl in Hr; [|discriminate]. destruct s1; inversion Hr; auto. }
      destruct Hreps as [A [B C]]. rewrite Hr. clear Hr Hc. unfold deref in *. simpl.
      destruct (h_reps arg) as [loc|]; [|inversion Hd; subst; discriminate].
      destruct (nth_error h loc) as [c|]; [|discriminate]. inversion Hd; subst. simpl in Er. inversion Er; subst.
      destruct p' as [i1 r1 m1 ms1]; simpl in *. rewrite A, B, C. reflexivity.
    - simpl. destruct (mutation_op veqb zero lg k prob p (g_pi lgs) (g_stream lgs) (g_tasks lgs)) as [cbs r] eqn:E. simpl.
      destruct r as [p'|e]; [|reflexivity].
      unfold mutation_op in E. destruct (do sb <- submit_all prob 0 (p_inds p) (g_stream lgs); _) as [[inds' total]|]; inversion E; subst. simpl.
      unfold deref in *. simpl. destruct (h_reps arg) as [loc|]; [|inversion Hd; subst; reflexivity].
      destruct (nth_error h loc) as [c|]; [|discriminate]. inversion Hd; subst. reflexivity.
  Qed.
End HeapFacts.

(* ------------------------------------------------------------------ the legacy variant violates the frame property *)
(* one qubit; a = [R](1,2,3), b = [R; I](4,5,6); speciation(0); tournament selection (picks a twice);
   topological search appends an identity layer to both; speciation(0) again.  In the legacy variant the second
   speciation appends the new individual to the list object the first recorded population still references. *)
Definition w_a : individual Z := mkInd 1 [mkLayer 1 [GRot 0]] [1; 2; 3].
Definition w_b : individual Z := mkInd 1 [mkLayer 1 [GRot 0]; mkLayer 1 [GId 0]] [4; 5; 6].
Definition w_a' : individual Z := mkInd 1 [mkLayer 1 [GRot 0]; mkLayer 1 [GId 0]] [1; 2; 3].
Definition w_ev : individual Z -> result Q := fun _ => Ok 1%Q.
Definition w_steps : list (op * oplog Z) :=
  [ (OSpeciation 0, mkLog [KChoice 1 0; KChoice 1 0] [] []);
    (OSelection (mkSel 0 0 (Some 1%nat)), mkLog [KChoices 2 None [0%nat]; KChoices 2 None [0%nat]] [0%nat; 1%nat] []);
    (OMutation MTopological 1, mkLog [KRandom (1 # 2); KRandint 0 SEED_MAX 11; KRandom (1 # 4); KRandint 0 SEED_MAX 12] [1%nat; 0%nat]
       [mkTask 0 11 [TSeed 11; TDec (KRandint 0 SEED_MAX 5); TLayer (mkLayer 1 [GId 0])];
        mkTask 1 12 [TSeed 12; TDec (KRandint 0 SEED_MAX 6); TLayer (mkLayer 1 [GId 0])]]);
    (OSpeciation 0, mkLog [KChoice 2 1] [] []) ].
Definition w_init : hpop (V := Z) := mkH [w_a; w_b] None None None.
Definition w_run (legacy_spec : bool) : hrun (V := Z) :=
  run_h Z.eqb (individual_heq Z.eqb) 0 w_ev false legacy_spec w_steps [] w_init [] [].

Definition obs_changed (final : heap (V := Z)) (o : obs (V := Z)) : bool :=
  match deref final (o_pop o), deref (o_heap o) (o_pop o) with
  | Ok p, Ok q => negb (option_eqb (list_eqb (individual_eqb Z.eqb)) (p_reps p) (p_reps q))
  | _, _ => false
  end.

Lemma obs_changed_spec final o : obs_changed final o = true -> deref final (o_pop o) <> deref (o_heap o) (o_pop o).
Proof.
  unfold obs_changed. destruct (deref final (o_pop o)) as [p|] eqn:E1; [|discriminate].
  destruct (deref (o_heap o) (o_pop o)) as [q|] eqn:E2; [|discriminate].
  intros H C. inversion C; subst. rewrite negb_true_iff in H.
  assert (X : option_eqb (list_eqb (individual_eqb Z.eqb)) (p_reps q) (p_reps q) = true).
  { destruct (p_reps q) as [l|]; simpl; [|reflexivity]. clear. induction l as [|x l IH]; simpl; [reflexivity|]. rewrite IH, andb_true_r.
    unfold individual_eqb. rewrite Z.eqb_refl. simpl.
    assert (L : forall ls, list_eqb layer_eqb ls ls = true).
    { induction ls as [|y ys IHy]; simpl; [reflexivity|]. rewrite IHy, andb_true_r. unfold layer_eqb. rewrite Z.eqb_refl. simpl.
      induction (l_gates y) as [|g gs IHg]; simpl; [reflexivity|]. rewrite IHg, andb_true_r. destruct g; simpl; rewrite ?Z.eqb_refl; reflexivity. }
    rewrite L. simpl. induction (i_values x) as [|v vs IHv]; simpl; [reflexivity|]. rewrite Z.eqb_refl, IHv. reflexivity. }
  congruence.
Qed.

Lemma legacy_refuted :
  is_ok (hr_result (w_run true)) = true
  /\ map fst w_steps = [OSpeciation 0; OSelection (mkSel 0 0 (Some 1%nat)); OMutation MTopological 1; OSpeciation 0]
  /\ exists o, In o (hr_obs (w_run true)) /\ deref (hr_heap (w_run true)) (o_pop o) <> deref (o_heap o) (o_pop o).
Proof.
  split; [vm_compute; reflexivity|]. split; [reflexivity|].
  assert (E : existsb (obs_changed (hr_heap (w_run true))) (hr_obs (w_run true)) = true) by (vm_compute; reflexivity).
  apply existsb_exists in E as [o [Hin Hc]]. exists o. split; [exact Hin|apply obs_changed_spec; exact Hc].
Qed.

(* the same run in the repaired variant completes and nothing observed changes (also a non-vacuity example for frame) *)
Lemma repaired_witness_stable :
  is_ok (hr_result (w_run false)) = true
  /\ length (hr_obs (w_run false)) = 6%nat /\ length (hr_history (w_run false)) = 1%nat
  /\ existsb (obs_changed (hr_heap (w_run false))) (hr_obs (w_run false)) = false.
Proof. vm_compute. repeat split. Qed.

(* the value-level run of the same witness: four operators, every one returns a population; the populations returned
   by the two speciations satisfy the executable partition predicate (non-vacuity of the C10 theorems) *)
Definition w_pop : population Z := mkPop [w_a; w_b] None None None.
Lemma witness_run_seq :
  let ocs := run_seq Z.eqb (individual_heq Z.eqb) 0 w_ev false w_steps w_pop in
  length ocs = 4%nat /\ forallb (fun oc => is_ok (snd oc)) ocs = true
  /\ pop_valid 1 w_pop = true
  /\ selection_after_speciation false (map fst w_steps) = true
  /\ forallb (fun oc => match snd oc with
                        | Ok p => match p_members p with Some _ => partition_ok (individual_heq Z.eqb) p | None => true end
                        | Err _ => false end) ocs = true.
Proof. vm_compute. repeat split. Qed.
